(* Proofs about JSON/Merge.v: pool and heap variants compute the MergePatch function of rfc7386; the heap variant
   neither frees twice, nor reads freed memory, nor leaks (ownership as a multiset: Permutation). *)
Require Import ZArith List Bool Lia Permutation.
Require Import IW.Lib.CInt IW.Gen.Facts IW.UT.Conv IW.JSON.Val IW.JSON.Patch IW.JSON.PatchSpec IW.JSON.Patch_proofs
               IW.JSON.Mem IW.JSON.Merge.
Import ListNotations.
Local Open Scope Z_scope. Local Open Scope bool_scope.

(* ------------------------------------------------------------------ spec helpers *)
Lemma remove_member_none : forall k ms, lookup k ms = None -> remove_member k ms = ms.
Proof.
  induction ms as [|[k' v] r IH]; simpl; intro H; auto.
  destruct (bytes_eqb k' k); [discriminate|]. rewrite IH; auto.
Qed.

Definition spec_step (tm : list (sseg * jval)) (kpv : sseg * jval) : list (sseg * jval) :=
  match snd kpv with
  | JNull => remove_member (fst kpv) tm
  | _ => match lookup (fst kpv) tm with
         | Some x => set_member (fst kpv) (merge_spec (Some x) (snd kpv)) tm
         | None => tm ++ [(fst kpv, merge_spec None (snd kpv))]
         end
  end.
Lemma merge_spec_obj : forall t pms,
  merge_spec t (JObj pms) = JObj (fold_left spec_step pms (match t with Some (JObj ms) => ms | _ => [] end)).
Proof.
  intros t pms. cbn [merge_spec]. f_equal.
  match goal with |- _ ?a pms = _ => generalize a end.
  induction pms as [|[k pv] r IH]; intro tm; [reflexivity|].
  cbn [fold_left]. rewrite <- IH. unfold spec_step. cbn [fst snd]. reflexivity.
Qed.
Lemma merge_spec_nonobj : forall t p, (forall ms, p <> JObj ms) -> merge_spec t p = p.
Proof. intros t p H. destruct p; try reflexivity. exfalso. apply (H members). reflexivity. Qed.

(* ------------------------------------------------------------------ pool mode *)
Definition pool_step (tgt pc : node) : node :=
  match n_ty pc with
  | TNull => match find_pos (mkey_match pc) (n_ch tgt) with
             | Some i => set_ch tgt (firstn i (n_ch tgt) ++ skipn (S i) (n_ch tgt))
             | None => tgt
             end
  | _ => match find_pos (mkey_match pc) (n_ch tgt) with
         | Some i => match nth_error (n_ch tgt) i with
                     | None => tgt
                     | Some c => let src := merge_pool (Some c) pc in
                                 set_child tgt i (match n_ty pc with TObj => src | _ => copy_data c src end)
                     end
         | None => set_ch tgt (n_ch tgt ++ [merge_pool None pc])
         end
  end.
Definition pool_t0 (t : option node) (pkl : Z) (pkey : list Z) : node :=
  match t with
  | None => Node pkl pkey TObj 0 [] []
  | Some t => match n_ty t with TObj => t | _ => reset_obj t end
  end.
Lemma merge_pool_unfold : forall t pkl pkey pty pvi pvs pch,
  merge_pool t (Node pkl pkey pty pvi pvs pch) =
  match pty with
  | TObj => fold_left pool_step pch (pool_t0 t pkl pkey)
  | _ => Node pkl pkey pty pvi pvs pch
  end.
Proof.
  intros. destruct pty; try reflexivity. cbn [merge_pool]. fold (pool_t0 t pkl pkey).
  generalize (pool_t0 t pkl pkey). induction pch as [|pc r IH]; intro tgt; [reflexivity|].
  cbn [fold_left]. rewrite <- IH. reflexivity.
Qed.

Lemma mkey_match_spec : forall pc c, key_ok pc -> mkey_match pc c = key_match (n_key pc) c.
Proof.
  intros pc c H. unfold mkey_match, key_match. rewrite H. rewrite andb_comm. f_equal. apply Z.eqb_sym.
Qed.

(* what the result of a merge looks like from its parent: same cached key and key length *)
Definition same_slot (a b : node) : Prop := n_kl a = n_kl b /\ n_key a = n_key b.

Definition merge_ok (t : option node) (p r : node) : Prop :=
  good r /\ val r = merge_spec (option_map val t) (val p) /\
  (n_ty p = TObj -> match t with Some t0 => same_slot r t0 | None => same_slot r p end) /\
  (n_ty p <> TObj -> r = p).
Definition opt_good (t : option node) : Prop := match t with Some t0 => good t0 | None => True end.

Lemma val_not_obj : forall p, n_ty p <> TObj -> forall ms, val p <> JObj ms.
Proof. intros [kl key ty vi vs ch] H ms. simpl in *. destruct ty; try discriminate. contradiction. Qed.
Lemma val_null : forall p, n_ty p <> TNone -> (val p = JNull <-> n_ty p = TNull).
Proof. intros [kl key ty vi vs ch] H. simpl in *. destruct ty; split; intro E; try discriminate; try reflexivity; contradiction. Qed.

Lemma pool_step_nonnull : forall tgt pc, n_ty pc <> TNull ->
  pool_step tgt pc =
  match find_pos (mkey_match pc) (n_ch tgt) with
  | Some i => match nth_error (n_ch tgt) i with
              | None => tgt
              | Some c => set_child tgt i (match n_ty pc with TObj => merge_pool (Some c) pc | _ => copy_data c (merge_pool (Some c) pc) end)
              end
  | None => set_ch tgt (n_ch tgt ++ [merge_pool None pc])
  end.
Proof. intros tgt pc H. unfold pool_step. destruct (n_ty pc); try reflexivity. contradiction. Qed.
Lemma spec_step_nonnull : forall tm k pv, pv <> JNull ->
  spec_step tm (k, pv) = match lookup k tm with
                         | Some x => set_member k (merge_spec (Some x) pv) tm
                         | None => tm ++ [(k, merge_spec None pv)]
                         end.
Proof. intros tm k pv H. unfold spec_step. cbn [fst snd]. destruct pv; try reflexivity. contradiction. Qed.

Lemma pool_step_spec : forall tgt pc tm, inv tgt -> n_ty tgt = TObj -> val tgt = JObj tm -> good pc -> key_ok pc ->
  (forall t, opt_good t -> merge_ok t pc (merge_pool t pc)) ->
  inv (pool_step tgt pc) /\ n_ty (pool_step tgt pc) = TObj /\ same_slot (pool_step tgt pc) tgt /\
  val (pool_step tgt pc) = JObj (spec_step tm (kv pc)).
Proof.
  intros tgt pc tm H T V [Gp Np] K IH. pose proof H as H0. apply inv_unfold in H. destruct H as [Hg Ht]. rewrite T in Ht.
  rewrite (val_obj tgt T) in V. assert (V' : tm = map kv (n_ch tgt)) by (inversion V; reflexivity). clear V. subst tm.
  pose proof (obj_pos (n_key pc) (n_ch tgt) Ht) as P.
  assert (CP : child_pos tgt (n_key pc) = find_pos (key_match (n_key pc)) (n_ch tgt)) by (unfold child_pos; rewrite T; reflexivity).
  assert (FE : find_pos (mkey_match pc) (n_ch tgt) = find_pos (key_match (n_key pc)) (n_ch tgt)).
  { apply find_pos_ext. intros c _. apply mkey_match_spec. exact K. }
  change (kv pc) with (n_key pc, val pc). destruct (ty_eqb (n_ty pc) TNull) eqn:TN.
  - (* null: delete *)
    apply ty_eqb_eq in TN. unfold pool_step, spec_step. cbn [fst snd]. rewrite TN, FE.
    replace (val pc) with JNull by (symmetry; apply val_null; [exact Np | exact TN]).
    destruct (find_pos (key_match (n_key pc)) (n_ch tgt)) as [i|].
    + destruct P as [c [A [B [L [R _]]]]]. rewrite n_ty_set_ch. unfold same_slot. rewrite n_kl_set_ch, n_key_set_ch.
      repeat split; auto.
      * apply inv_unfold. rewrite n_ty_set_ch, n_ch_set_ch, T.
        split; apply Forall_app2; try apply Forall_firstn; try apply Forall_skipn; auto.
      * rewrite val_obj by (rewrite n_ty_set_ch; exact T). rewrite n_ch_set_ch, <- R. reflexivity.
    + unfold same_slot. repeat split; auto. rewrite (val_obj tgt T). rewrite remove_member_none; auto.
  - (* anything else: merge into the member or append *)
    assert (TN' : n_ty pc <> TNull) by (intro E; rewrite E in TN; discriminate).
    assert (VN : val pc <> JNull) by (intro E; apply val_null in E; auto).
    rewrite (pool_step_nonnull tgt pc TN'), (spec_step_nonnull _ (n_key pc) (val pc) VN), FE.
    destruct (find_pos (key_match (n_key pc)) (n_ch tgt)) as [i|] eqn:F.
    + destruct P as [c [A [B [L _]]]]. rewrite A. rewrite L.
      assert (Gc : good c) by (eapply Forall_nth; eauto).
      destruct (IH (Some c) Gc) as [M1 [M2 [M3 M4]]]. cbn [option_map] in M2.
      set (c' := match n_ty pc with TObj => merge_pool (Some c) pc | _ => copy_data c (merge_pool (Some c) pc) end).
      assert (C' : good c' /\ n_kl c' = n_kl c /\ n_key c' = n_key c /\ val c' = merge_spec (Some (val c)) (val pc)).
      { unfold c'. destruct (ty_eqb (n_ty pc) TObj) eqn:TO.
        - apply ty_eqb_eq in TO. rewrite TO. destruct (M3 TO) as [S1 S2]. repeat split; auto; apply M1.
        - assert (TO' : n_ty pc <> TObj) by (intro E; rewrite E in TO; discriminate).
          rewrite (M4 TO').
          replace (match n_ty pc with TObj => pc | _ => copy_data c pc end) with (copy_data c pc)
            by (destruct (n_ty pc); try reflexivity; contradiction).
          split; [apply good_copy_data; split; auto|]. split; [destruct c; reflexivity|]. split; [destruct c; reflexivity|].
          rewrite val_copy_data. symmetry. apply merge_spec_nonobj. apply val_not_obj. exact TO'. }
      destruct C' as [C1 [C2 [C3 C4]]].
      destruct (set_child_spec tgt (n_key pc) i c c' H0 CP A C1 C2 C3) as [Q1 [Q2 [Q3 [Q4 Q5]]]].
      unfold same_slot. repeat split; auto; try congruence.
      rewrite Q2. unfold upd_val. rewrite (val_obj tgt T). rewrite C4. reflexivity.
    + rewrite P.
      destruct (IH None I) as [M1 [M2 [M3 M4]]]. cbn [option_map] in M2.
      assert (KS : n_key (merge_pool None pc) = n_key pc /\ n_kl (merge_pool None pc) = n_kl pc).
      { destruct (ty_eqb (n_ty pc) TObj) eqn:TO.
        - apply ty_eqb_eq in TO. destruct (M3 TO) as [S1 S2]. auto.
        - assert (TO' : n_ty pc <> TObj) by (intro E; rewrite E in TO; discriminate). rewrite (M4 TO'). auto. }
      destruct KS as [KS1 KS2].
      rewrite n_ty_set_ch. unfold same_slot. rewrite n_kl_set_ch, n_key_set_ch. repeat split; auto.
      * apply inv_unfold. rewrite n_ty_set_ch, n_ch_set_ch, T. split; apply Forall_app2; auto.
        constructor; auto. unfold key_ok in *. congruence.
      * rewrite val_obj by (rewrite n_ty_set_ch; exact T). rewrite n_ch_set_ch, map_app. cbn [map].
        unfold kv at 2. rewrite KS1, M2. reflexivity.
Qed.

Lemma pool_fold_spec : forall pch tgt tm, Forall good pch -> Forall key_ok pch ->
  Forall (fun pc => forall t, opt_good t -> merge_ok t pc (merge_pool t pc)) pch ->
  inv tgt -> n_ty tgt = TObj -> val tgt = JObj tm ->
  inv (fold_left pool_step pch tgt) /\ n_ty (fold_left pool_step pch tgt) = TObj /\
  same_slot (fold_left pool_step pch tgt) tgt /\
  val (fold_left pool_step pch tgt) = JObj (fold_left spec_step (map kv pch) tm).
Proof.
  induction pch as [|pc r IHr]; intros tgt tm G K IH H T V.
  - cbn [fold_left map]. unfold same_slot. repeat split; auto.
  - inversion G as [|? ? Gp Gr]; subst. inversion K as [|? ? Kp Kr]; subst. inversion IH as [|? ? Ip Ir]; subst.
    cbn [fold_left map].
    destruct (pool_step_spec tgt pc tm H T V Gp Kp Ip) as [S1 [S2 [S3 S4]]].
    destruct (IHr (pool_step tgt pc) _ Gr Kr Ir S1 S2 S4) as [R1 [R2 [R3 R4]]].
    unfold same_slot in *. repeat split; auto; try congruence; destruct R3, S3; congruence.
Qed.

Theorem merge_pool_ok : forall p, good p -> forall t, opt_good t -> merge_ok t p (merge_pool t p).
Proof.
  induction p as [pkl pkey pty pvi pvs pch IH] using node_ind'. intros [Hp Np] t Gt.
  rewrite merge_pool_unfold. simpl in Np.
  destruct (ty_eqb pty TObj) eqn:TO.
  - apply ty_eqb_eq in TO. subst pty.
    apply inv_unfold in Hp. cbn [n_ty n_ch] in Hp. destruct Hp as [Hg Hk].
    assert (IH' : Forall (fun pc => forall t, opt_good t -> merge_ok t pc (merge_pool t pc)) pch).
    { rewrite Forall_forall in IH, Hg. apply Forall_forall. intros pc Hpc. apply IH; auto. }
    set (t0 := pool_t0 t pkl pkey).
    set (tm0 := match option_map val t with Some (JObj ms) => ms | _ => [] end).
    assert (T0 : inv t0 /\ n_ty t0 = TObj /\ val t0 = JObj tm0 /\
                 match t with Some t1 => same_slot t0 t1 | None => n_kl t0 = pkl /\ n_key t0 = pkey end).
    { unfold t0, tm0, pool_t0. destruct t as [t1|]; cbn [option_map].
      - destruct Gt as [G1 G2]. destruct (ty_eqb (n_ty t1) TObj) eqn:T1.
        + apply ty_eqb_eq in T1. rewrite T1. unfold same_slot. repeat split; auto. rewrite (val_obj t1 T1). reflexivity.
        + assert (T1' : n_ty t1 <> TObj) by (intro E; rewrite E in T1; discriminate).
          replace (match n_ty t1 with TObj => t1 | _ => reset_obj t1 end) with (reset_obj t1)
            by (destruct (n_ty t1); try reflexivity; contradiction).
          destruct t1 as [kl key ty vi vs ch]. unfold same_slot. simpl in *. repeat split; auto.
          destruct ty; try reflexivity. contradiction.
      - simpl. repeat split; auto. }
    destruct T0 as [A1 [A2 [A3 A4]]].
    destruct (pool_fold_spec pch t0 tm0 Hg Hk IH' A1 A2 A3) as [R1 [R2 [R3 R4]]].
    unfold merge_ok. split; [split; [exact R1 | rewrite R2; discriminate]|]. split.
    + rewrite R4. cbn [val]. rewrite merge_spec_obj. reflexivity.
    + split; [|intro E; exfalso; apply E; reflexivity]. intros _. unfold same_slot in *.
      destruct t as [t1|]; cbn [n_kl n_key]; destruct R3; destruct A4; split; congruence.
  - assert (TO' : pty <> TObj) by (intro E; rewrite E in TO; discriminate).
    replace (match pty with TObj => fold_left pool_step pch (pool_t0 t pkl pkey) | _ => Node pkl pkey pty pvi pvs pch end)
      with (Node pkl pkey pty pvi pvs pch) by (destruct pty; try reflexivity; contradiction).
    unfold merge_ok. split; [split; auto|]. split.
    + symmetry. apply merge_spec_nonobj. apply val_not_obj. exact TO'.
    + split; [intro E; contradiction | reflexivity].
Qed.


(* ------------------------------------------------------------------ the same walk with the patch nodes passed through
   `adopt` where the pool variant links the patch node itself (heap variant: adopt = clone) *)
Section Gen.
  Variable adopt : node -> node.
  Hypothesis adopt_ok : forall p, good p -> good (adopt p) /\ val (adopt p) = val p /\ n_kl (adopt p) = n_kl p /\
                                             (key_ok p -> n_key (adopt p) = n_key p).

  Fixpoint merge_gen (t : option node) (p : node) {struct p} : node :=
    match p with
    | Node pkl pkey pty _ _ pch =>
      match pty with
      | TObj =>
        (fix go (tgt : node) (l : list node) {struct l} : node :=
           match l with
           | [] => tgt
           | pc :: l' =>
             go (match n_ty pc with
                 | TNull => match find_pos (mkey_match pc) (n_ch tgt) with
                            | Some i => set_ch tgt (firstn i (n_ch tgt) ++ skipn (S i) (n_ch tgt))
                            | None => tgt
                            end
                 | _ => match find_pos (mkey_match pc) (n_ch tgt) with
                        | Some i => match nth_error (n_ch tgt) i with
                                    | None => tgt
                                    | Some c => set_child tgt i (match n_ty pc with
                                                                 | TObj => merge_gen (Some c) pc
                                                                 | _ => copy_data c (merge_gen (Some c) pc) end)
                                    end
                        | None => set_ch tgt (n_ch tgt ++ [merge_gen None pc])
                        end
                 end) l'
           end) (pool_t0 t pkl pkey) pch
      | _ => adopt p
      end
    end.
  Definition gen_step (tgt pc : node) : node :=
    match n_ty pc with
    | TNull => match find_pos (mkey_match pc) (n_ch tgt) with
               | Some i => set_ch tgt (firstn i (n_ch tgt) ++ skipn (S i) (n_ch tgt))
               | None => tgt
               end
    | _ => match find_pos (mkey_match pc) (n_ch tgt) with
           | Some i => match nth_error (n_ch tgt) i with
                       | None => tgt
                       | Some c => let src := merge_gen (Some c) pc in
                                   set_child tgt i (match n_ty pc with TObj => src | _ => copy_data c src end)
                       end
           | None => set_ch tgt (n_ch tgt ++ [merge_gen None pc])
           end
    end.
  
  Lemma merge_gen_unfold : forall t pkl pkey pty pvi pvs pch,
    merge_gen t (Node pkl pkey pty pvi pvs pch) =
    match pty with
    | TObj => fold_left gen_step pch (pool_t0 t pkl pkey)
    | _ => adopt (Node pkl pkey pty pvi pvs pch)
    end.
  Proof.
    intros. destruct pty; try reflexivity. cbn [merge_gen].
    generalize (pool_t0 t pkl pkey). induction pch as [|pc r IH]; intro tgt; [reflexivity|].
    cbn [fold_left]. rewrite <- IH. reflexivity.
  Qed.
  
  
Definition gmerge_ok (t : option node) (p r : node) : Prop :=
  good r /\ val r = merge_spec (option_map val t) (val p) /\
  (n_ty p = TObj -> match t with Some t0 => same_slot r t0 | None => same_slot r p end) /\
  (n_ty p <> TObj -> r = adopt p).


Lemma gen_step_nonnull : forall tgt pc, n_ty pc <> TNull ->
  gen_step tgt pc =
  match find_pos (mkey_match pc) (n_ch tgt) with
  | Some i => match nth_error (n_ch tgt) i with
              | None => tgt
              | Some c => set_child tgt i (match n_ty pc with TObj => merge_gen (Some c) pc | _ => copy_data c (merge_gen (Some c) pc) end)
              end
  | None => set_ch tgt (n_ch tgt ++ [merge_gen None pc])
  end.
Proof. intros tgt pc H. unfold gen_step. destruct (n_ty pc); try reflexivity. contradiction. Qed.

Lemma gen_step_spec : forall tgt pc tm, inv tgt -> n_ty tgt = TObj -> val tgt = JObj tm -> good pc -> key_ok pc ->
  (forall t, opt_good t -> gmerge_ok t pc (merge_gen t pc)) ->
  inv (gen_step tgt pc) /\ n_ty (gen_step tgt pc) = TObj /\ same_slot (gen_step tgt pc) tgt /\
  val (gen_step tgt pc) = JObj (spec_step tm (kv pc)).
Proof.
  intros tgt pc tm H T V [Gp Np] K IH. pose proof H as H0. apply inv_unfold in H. destruct H as [Hg Ht]. rewrite T in Ht.
  rewrite (val_obj tgt T) in V. assert (V' : tm = map kv (n_ch tgt)) by (inversion V; reflexivity). clear V. subst tm.
  pose proof (obj_pos (n_key pc) (n_ch tgt) Ht) as P.
  assert (CP : child_pos tgt (n_key pc) = find_pos (key_match (n_key pc)) (n_ch tgt)) by (unfold child_pos; rewrite T; reflexivity).
  assert (FE : find_pos (mkey_match pc) (n_ch tgt) = find_pos (key_match (n_key pc)) (n_ch tgt)).
  { apply find_pos_ext. intros c _. apply mkey_match_spec. exact K. }
  change (kv pc) with (n_key pc, val pc). destruct (ty_eqb (n_ty pc) TNull) eqn:TN.
  - (* null: delete *)
    apply ty_eqb_eq in TN. unfold gen_step, spec_step. cbn [fst snd]. rewrite TN, FE.
    replace (val pc) with JNull by (symmetry; apply val_null; [exact Np | exact TN]).
    destruct (find_pos (key_match (n_key pc)) (n_ch tgt)) as [i|].
    + destruct P as [c [A [B [L [R _]]]]]. rewrite n_ty_set_ch. unfold same_slot. rewrite n_kl_set_ch, n_key_set_ch.
      repeat split; auto.
      * apply inv_unfold. rewrite n_ty_set_ch, n_ch_set_ch, T.
        split; apply Forall_app2; try apply Forall_firstn; try apply Forall_skipn; auto.
      * rewrite val_obj by (rewrite n_ty_set_ch; exact T). rewrite n_ch_set_ch, <- R. reflexivity.
    + unfold same_slot. repeat split; auto. rewrite (val_obj tgt T). rewrite remove_member_none; auto.
  - (* anything else: merge into the member or append *)
    assert (TN' : n_ty pc <> TNull) by (intro E; rewrite E in TN; discriminate).
    assert (VN : val pc <> JNull) by (intro E; apply val_null in E; auto).
    rewrite (gen_step_nonnull tgt pc TN'), (spec_step_nonnull _ (n_key pc) (val pc) VN), FE.
    destruct (find_pos (key_match (n_key pc)) (n_ch tgt)) as [i|] eqn:F.
    + destruct P as [c [A [B [L _]]]]. rewrite A. rewrite L.
      assert (Gc : good c) by (eapply Forall_nth; eauto).
      destruct (IH (Some c) Gc) as [M1 [M2 [M3 M4]]]. cbn [option_map] in M2.
      set (c' := match n_ty pc with TObj => merge_gen (Some c) pc | _ => copy_data c (merge_gen (Some c) pc) end).
      assert (C' : good c' /\ n_kl c' = n_kl c /\ n_key c' = n_key c /\ val c' = merge_spec (Some (val c)) (val pc)).
      { unfold c'. destruct (ty_eqb (n_ty pc) TObj) eqn:TO.
        - apply ty_eqb_eq in TO. rewrite TO. destruct (M3 TO) as [S1 S2]. repeat split; auto; apply M1.
        - assert (TO' : n_ty pc <> TObj) by (intro E; rewrite E in TO; discriminate).
          rewrite (M4 TO').
          replace (match n_ty pc with TObj => adopt pc | _ => copy_data c (adopt pc) end) with (copy_data c (adopt pc))
            by (destruct (n_ty pc); try reflexivity; contradiction).
          destruct (adopt_ok pc (conj Gp Np)) as [AD1 [AD2 _]].
          split; [apply good_copy_data; exact AD1|]. split; [destruct c; reflexivity|]. split; [destruct c; reflexivity|].
          rewrite val_copy_data, AD2. symmetry. apply merge_spec_nonobj. apply val_not_obj. exact TO'. }
      destruct C' as [C1 [C2 [C3 C4]]].
      destruct (set_child_spec tgt (n_key pc) i c c' H0 CP A C1 C2 C3) as [Q1 [Q2 [Q3 [Q4 Q5]]]].
      unfold same_slot. repeat split; auto; try congruence.
      rewrite Q2. unfold upd_val. rewrite (val_obj tgt T). rewrite C4. reflexivity.
    + rewrite P.
      destruct (IH None I) as [M1 [M2 [M3 M4]]]. cbn [option_map] in M2.
      assert (KS : n_key (merge_gen None pc) = n_key pc /\ n_kl (merge_gen None pc) = n_kl pc).
      { destruct (ty_eqb (n_ty pc) TObj) eqn:TO.
        - apply ty_eqb_eq in TO. destruct (M3 TO) as [S1 S2]. auto.
        - assert (TO' : n_ty pc <> TObj) by (intro E; rewrite E in TO; discriminate). rewrite (M4 TO').
          destruct (adopt_ok pc (conj Gp Np)) as [_ [_ [AD3 AD4]]]. split; [apply AD4; exact K | exact AD3]. }
      destruct KS as [KS1 KS2].
      rewrite n_ty_set_ch. unfold same_slot. rewrite n_kl_set_ch, n_key_set_ch. repeat split; auto.
      * apply inv_unfold. rewrite n_ty_set_ch, n_ch_set_ch, T. split; apply Forall_app2; auto.
        constructor; auto. unfold key_ok in *. congruence.
      * rewrite val_obj by (rewrite n_ty_set_ch; exact T). rewrite n_ch_set_ch, map_app. cbn [map].
        unfold kv at 2. rewrite KS1, M2. reflexivity.
Qed.

Lemma gen_fold_spec : forall pch tgt tm, Forall good pch -> Forall key_ok pch ->
  Forall (fun pc => forall t, opt_good t -> gmerge_ok t pc (merge_gen t pc)) pch ->
  inv tgt -> n_ty tgt = TObj -> val tgt = JObj tm ->
  inv (fold_left gen_step pch tgt) /\ n_ty (fold_left gen_step pch tgt) = TObj /\
  same_slot (fold_left gen_step pch tgt) tgt /\
  val (fold_left gen_step pch tgt) = JObj (fold_left spec_step (map kv pch) tm).
Proof.
  induction pch as [|pc r IHr]; intros tgt tm G K IH H T V.
  - cbn [fold_left map]. unfold same_slot. repeat split; auto.
  - inversion G as [|? ? Gp Gr]; subst. inversion K as [|? ? Kp Kr]; subst. inversion IH as [|? ? Ip Ir]; subst.
    cbn [fold_left map].
    destruct (gen_step_spec tgt pc tm H T V Gp Kp Ip) as [S1 [S2 [S3 S4]]].
    destruct (IHr (gen_step tgt pc) _ Gr Kr Ir S1 S2 S4) as [R1 [R2 [R3 R4]]].
    unfold same_slot in *. repeat split; auto; try congruence; destruct R3, S3; congruence.
Qed.

Theorem merge_gen_ok : forall p, good p -> forall t, opt_good t -> gmerge_ok t p (merge_gen t p).
Proof.
  induction p as [pkl pkey pty pvi pvs pch IH] using node_ind'. intros [Hp Np] t Gt.
  rewrite merge_gen_unfold. simpl in Np.
  destruct (ty_eqb pty TObj) eqn:TO.
  - apply ty_eqb_eq in TO. subst pty.
    apply inv_unfold in Hp. cbn [n_ty n_ch] in Hp. destruct Hp as [Hg Hk].
    assert (IH' : Forall (fun pc => forall t, opt_good t -> gmerge_ok t pc (merge_gen t pc)) pch).
    { rewrite Forall_forall in IH, Hg. apply Forall_forall. intros pc Hpc. apply IH; auto. }
    set (t0 := pool_t0 t pkl pkey).
    set (tm0 := match option_map val t with Some (JObj ms) => ms | _ => [] end).
    assert (T0 : inv t0 /\ n_ty t0 = TObj /\ val t0 = JObj tm0 /\
                 match t with Some t1 => same_slot t0 t1 | None => n_kl t0 = pkl /\ n_key t0 = pkey end).
    { unfold t0, tm0, pool_t0. destruct t as [t1|]; cbn [option_map].
      - destruct Gt as [G1 G2]. destruct (ty_eqb (n_ty t1) TObj) eqn:T1.
        + apply ty_eqb_eq in T1. rewrite T1. unfold same_slot. repeat split; auto. rewrite (val_obj t1 T1). reflexivity.
        + assert (T1' : n_ty t1 <> TObj) by (intro E; rewrite E in T1; discriminate).
          replace (match n_ty t1 with TObj => t1 | _ => reset_obj t1 end) with (reset_obj t1)
            by (destruct (n_ty t1); try reflexivity; contradiction).
          destruct t1 as [kl key ty vi vs ch]. unfold same_slot. simpl in *. repeat split; auto.
          destruct ty; try reflexivity. contradiction.
      - simpl. repeat split; auto. }
    destruct T0 as [A1 [A2 [A3 A4]]].
    destruct (gen_fold_spec pch t0 tm0 Hg Hk IH' A1 A2 A3) as [R1 [R2 [R3 R4]]].
    unfold gmerge_ok. split; [split; [exact R1 | rewrite R2; discriminate]|]. split.
    + rewrite R4. cbn [val]. rewrite merge_spec_obj. reflexivity.
    + split; [|intro E; exfalso; apply E; reflexivity]. intros _. unfold same_slot in *.
      destruct t as [t1|]; cbn [n_kl n_key]; destruct R3; destruct A4; split; congruence.
  - assert (TO' : pty <> TObj) by (intro E; rewrite E in TO; discriminate).
    replace (match pty with TObj => fold_left gen_step pch (pool_t0 t pkl pkey) | _ => adopt (Node pkl pkey pty pvi pvs pch) end)
      with (adopt (Node pkl pkey pty pvi pvs pch)) by (destruct pty; try reflexivity; contradiction).
    destruct (adopt_ok (Node pkl pkey pty pvi pvs pch) (conj Hp Np)) as [AD1 [AD2 _]].
    unfold gmerge_ok. split; [exact AD1|]. split.
    + rewrite AD2. symmetry. apply merge_spec_nonobj. apply val_not_obj. exact TO'.
    + split; [intro E; contradiction | reflexivity].
Qed.

End Gen.

(* ================================================================== heap mode *)
Section HnodeInd.
  Variable P : hnode -> Prop.
  Hypothesis H : forall id kid kl key ty vi sid vs ch, Forall P ch -> P (HNode id kid kl key ty vi sid vs ch).
  Fixpoint hnode_ind' (n : hnode) : P n :=
    match n with
    | HNode id kid kl key ty vi sid vs ch =>
      H id kid kl key ty vi sid vs ch
        ((fix go (l : list hnode) : Forall P l :=
            match l with [] => Forall_nil P | c :: r => Forall_cons c (hnode_ind' c) (go r) end) ch)
    end.
End HnodeInd.

(* the allocations a heap tree owns, in the order destroy frees them *)
Definition oid (o : option nat) : list nat := match o with Some i => [i] | None => [] end.
Definition sid_of (ty : jty) (sid : option nat) : list nat := match ty with TStr => oid sid | _ => [] end.
Fixpoint owns (n : hnode) : list nat :=
  match n with
  | HNode id kid _ _ ty _ sid _ ch =>
    (if is_container ty then (fix go (l : list hnode) : list nat := match l with [] => [] | c :: r => owns c ++ go r end) ch else [])
    ++ oid kid ++ sid_of ty sid ++ [id]
  end.
Definition owns_ch (l : list hnode) : list nat := flat_map owns l.
Definition shell (n : hnode) : list nat := oid (hn_kid n) ++ sid_of (hn_ty n) (hn_sid n) ++ [hn_id n].
Lemma owns_unfold : forall n, owns n = (if is_container (hn_ty n) then owns_ch (hn_ch n) else []) ++ shell n.
Proof.
  intros [id kid kl key ty vi sid vs ch]. cbn [owns hn_ty hn_ch]. unfold shell. cbn [hn_kid hn_ty hn_sid hn_id].
  reflexivity.
Qed.
Lemma owns_ch_app : forall a b, owns_ch (a ++ b) = owns_ch a ++ owns_ch b.
Proof. intros. apply flat_map_app. Qed.
Lemma owns_ch_cons : forall c r, owns_ch (c :: r) = owns c ++ owns_ch r.
Proof. reflexivity. Qed.

(* ------------------------------------------------------------------ the heap as a multiset *)
Lemma remove1_perm : forall x l, In x l -> exists l', remove1 x l = Some l' /\ Permutation l (x :: l').
Proof.
  induction l as [|y r IH]; intro H; [contradiction|]. simpl.
  destruct (Nat.eqb_spec x y) as [E|E].
  - subst. exists r. split; auto.
  - destruct H as [H|H]; [congruence|]. destruct (IH H) as [l' [A B]]. rewrite A. exists (y :: l'). split; auto.
    apply perm_trans with (y :: x :: l'); [apply perm_skip; exact B | apply perm_swap].
Qed.
Lemma free_perm : forall h x R, Permutation (h_live h) (x :: R) ->
  exists h', h_free h x = inr h' /\ Permutation (h_live h') R /\ h_next h' = h_next h.
Proof.
  intros h x R P. unfold h_free.
  assert (I : In x (h_live h)) by (eapply Permutation_in; [apply Permutation_sym; exact P | left; reflexivity]).
  destruct (remove1_perm x _ I) as [l' [A B]]. rewrite A. eexists. split; [reflexivity|]. split; [|reflexivity].
  cbn [h_live]. apply Permutation_cons_inv with x. apply perm_trans with (h_live h); [apply Permutation_sym; exact B | exact P].
Qed.
Lemma free_opt_perm : forall h o R, Permutation (h_live h) (oid o ++ R) ->
  exists h', h_free_opt h o = inr h' /\ Permutation (h_live h') R.
Proof.
  intros h [x|] R P; cbn [oid app h_free_opt] in *.
  - destruct (free_perm h x R P) as [h' [A [B _]]]. exists h'. auto.
  - exists h. auto.
Qed.
Lemma live_in : forall h L x, Permutation (h_live h) L -> In x L -> h_is_live h x = true.
Proof.
  intros h L x P I. unfold h_is_live. apply existsb_exists. exists x. split; [|apply Nat.eqb_refl].
  eapply Permutation_in; [apply Permutation_sym; exact P | exact I].
Qed.

Lemma destroy_unfold : forall h id kid kl key ty vi sid vs ch,
  destroy h (HNode id kid kl key ty vi sid vs ch) =
  bindh (if is_container ty then destroy_list h ch else inr h)
        (fun h1 => bindh (h_free_opt h1 kid)
        (fun h2 => bindh (match ty with TStr => h_free_opt h2 sid | _ => inr h2 end)
        (fun h3 => h_free h3 id))).
Proof.
  intros. reflexivity.
Qed.

Lemma destroy_perm : forall t h F, Permutation (h_live h) (owns t ++ F) ->
  exists h', destroy h t = inr h' /\ Permutation (h_live h') F.
Proof.
  induction t as [id kid kl key ty vi sid vs ch IH] using hnode_ind'. intros h F P.
  rewrite destroy_unfold. rewrite owns_unfold in P. cbn [hn_ty hn_ch] in P. unfold shell in P. cbn [hn_kid hn_ty hn_sid hn_id] in P.
  assert (L : forall l, Forall (fun t => forall h F, Permutation (h_live h) (owns t ++ F) ->
                                  exists h', destroy h t = inr h' /\ Permutation (h_live h') F) l ->
              forall h F, Permutation (h_live h) (owns_ch l ++ F) -> exists h', destroy_list h l = inr h' /\ Permutation (h_live h') F).
  { induction l as [|c r IHr]; intros HI h0 F0 P0.
    - exists h0. auto.
    - inversion HI as [|? ? Hc Hr]; subst. rewrite owns_ch_cons, <- app_assoc in P0.
      destruct (Hc h0 _ P0) as [h1 [A B]]. cbn [destroy_list]. rewrite A. cbn [bindh]. apply IHr; auto. }
  assert (S1 : exists h1, (if is_container ty then destroy_list h ch else inr h) = inr h1 /\
                          Permutation (h_live h1) (oid kid ++ sid_of ty sid ++ [id] ++ F)).
  { destruct (is_container ty).
    - rewrite <- !app_assoc in P. apply (L ch IH h _ P).
    - exists h. split; auto. cbn [app] in P. rewrite <- !app_assoc in P. exact P. }
  destruct S1 as [h1 [E1 P1]]. rewrite E1. cbn [bindh].
  destruct (free_opt_perm h1 kid _ P1) as [h2 [E2 P2]]. rewrite E2. cbn [bindh].
  assert (S3 : exists h3, match ty with TStr => h_free_opt h2 sid | _ => inr h2 end = inr h3 /\ Permutation (h_live h3) ([id] ++ F)).
  { unfold sid_of in P2. destruct ty; try (exists h2; split; [reflexivity | exact P2]). apply free_opt_perm. exact P2. }
  destruct S3 as [h3 [E3 P3]]. rewrite E3. cbn [bindh].
  destruct (free_perm h3 id F P3) as [h4 [E4 [P4 _]]]. exists h4. auto.
Qed.

Lemma destroy_list_perm : forall l h F, Permutation (h_live h) (owns_ch l ++ F) ->
  exists h', destroy_list h l = inr h' /\ Permutation (h_live h') F.
Proof.
  induction l as [|c r IH]; intros h F P.
  - exists h. auto.
  - rewrite owns_ch_cons, <- app_assoc in P. destruct (destroy_perm c h _ P) as [h1 [A B]].
    cbn [destroy_list]. rewrite A. cbn [bindh]. apply IH. exact B.
Qed.

(* ------------------------------------------------------------------ jbn_clone into the heap *)
Section CL.
  Variable wk : bool.
  Fixpoint clone_list (h : heap) (l : list node) {struct l} : heap * list hnode :=
    match l with
    | [] => (h, [])
    | c :: l' => let '(h', c') := clone_h h wk c in let '(h'', r') := clone_list h' l' in (h'', c' :: r')
    end.
End CL.
Lemma clone_h_unfold : forall h wk kl key ty vi vs ch,
  clone_h h wk (Node kl key ty vi vs ch) =
  let '(id, h1) := h_alloc h in
  let '(kid, h2) := if wk then let '(k, h') := h_alloc h1 in (Some k, h') else (None, h1) in
  let '(sid, h3) := match ty with TStr => let '(s, h') := h_alloc h2 in (Some s, h') | _ => (None, h2) end in
  let wk' := match ty with TObj => true | _ => false end in
  let '(h4, ch') := if is_container ty then clone_list wk' h3 ch else (h3, []) in
  (h4, HNode id kid kl (if wk then firstn (Z.to_nat kl) key else []) ty vi sid vs
             (match ty with TArr => hrenumber 0 ch' | _ => ch' end)).
Proof. intros. reflexivity. Qed.

Lemma owns_hrenumber : forall l i, owns_ch (hrenumber i l) = owns_ch l.
Proof.
  induction l as [|[id k kl key t v s vs c] r IH]; intro i; [reflexivity|].
  cbn [hrenumber]. rewrite !owns_ch_cons, IH. reflexivity.
Qed.
Lemma forget_hrenumber : forall l i, map forget (hrenumber i l) = renumber i (map forget l).
Proof.
  induction l as [|[id k kl key t v s vs c] r IH]; intro i; [reflexivity|].
  cbn [hrenumber map renumber]. rewrite IH. reflexivity.
Qed.

Definition clone_as (wk : bool) (p : node) : node := if wk then clone p else set_key (clone p) [].

Lemma clone_h_spec : forall p wk h,
  Permutation (h_live (fst (clone_h h wk p))) (owns (snd (clone_h h wk p)) ++ h_live h) /\
  forget (snd (clone_h h wk p)) = clone_as wk p.
Proof.
  induction p as [kl key ty vi vs ch IH] using node_ind'. intros wk h.
  assert (L : forall l, Forall (fun p => forall wk h,
                 Permutation (h_live (fst (clone_h h wk p))) (owns (snd (clone_h h wk p)) ++ h_live h) /\
                 forget (snd (clone_h h wk p)) = clone_as wk p) l ->
              forall wk h, Permutation (h_live (fst (clone_list wk h l))) (owns_ch (snd (clone_list wk h l)) ++ h_live h) /\
                           map forget (snd (clone_list wk h l)) = map (clone_as wk) l).
  { induction l as [|c r IHr]; intros HI wk0 h0.
    - simpl. split; auto.
    - inversion HI as [|? ? Hc Hr]; subst. cbn [clone_list].
      destruct (Hc wk0 h0) as [A1 A2]. destruct (clone_h h0 wk0 c) as [h1 c'] eqn:E1. cbn [fst snd] in A1, A2.
      destruct (IHr Hr wk0 h1) as [B1 B2]. destruct (clone_list wk0 h1 r) as [h2 r'] eqn:E2. cbn [fst snd] in *.
      split.
      + rewrite owns_ch_cons. apply perm_trans with (owns_ch r' ++ h_live h1); auto.
        apply perm_trans with (owns_ch r' ++ owns c' ++ h_live h0).
        * apply Permutation_app_head. exact A1.
        * rewrite !app_assoc. apply Permutation_app_tail. apply Permutation_app_comm.
      + cbn [map]. rewrite A2, B2. reflexivity. }
  rewrite clone_h_unfold.
  destruct (h_alloc h) as [id h1] eqn:E1.
  assert (A1 : h_live h1 = id :: h_live h) by (unfold h_alloc in E1; inversion E1; reflexivity). clear E1.
  assert (KID : exists kid h2, (if wk then let '(k, h') := h_alloc h1 in (Some k, h') else (None, h1)) = (kid, h2) /\
                               Permutation (h_live h2) (oid kid ++ [id] ++ h_live h)).
  { destruct wk.
    - eexists. eexists. split; [reflexivity|]. cbn [h_alloc h_live oid app]. rewrite A1. apply Permutation_refl.
    - exists None, h1. split; [reflexivity|]. cbn [oid app]. rewrite A1. apply Permutation_refl. }
  destruct KID as [kid [h2 [E2 P2]]]. rewrite E2.
  assert (SID : exists sid h3, match ty with TStr => let '(s, h') := h_alloc h2 in (Some s, h') | _ => (None, h2) end = (sid, h3) /\
                               Permutation (h_live h3) (sid_of ty sid ++ oid kid ++ [id] ++ h_live h)).
  { destruct ty; try (exists None, h2; split; [reflexivity | exact P2]).
    eexists. eexists. split; [reflexivity|]. cbn [h_alloc h_live sid_of oid app]. apply perm_skip. exact P2. }
  destruct SID as [sid [h3 [E3 P3]]]. rewrite E3. cbv zeta.
  set (wk' := match ty with TObj => true | _ => false end).
  destruct (is_container ty) eqn:C.
  - destruct (L ch IH wk' h3) as [Q1 Q2]. destruct (clone_list wk' h3 ch) as [h4 ch'] eqn:E4. cbn [fst snd] in *.
    split.
    + rewrite owns_unfold. cbn [hn_ty hn_ch]. rewrite C. unfold shell. cbn [hn_kid hn_ty hn_sid hn_id].
      replace (owns_ch (match ty with TArr => hrenumber 0 ch' | _ => ch' end)) with (owns_ch ch')
        by (destruct ty; auto; symmetry; apply owns_hrenumber).
      apply perm_trans with (owns_ch ch' ++ h_live h3); auto. rewrite <- !app_assoc. apply Permutation_app_head.
      apply perm_trans with (sid_of ty sid ++ oid kid ++ [id] ++ h_live h); auto.
      rewrite !app_assoc. apply Permutation_app_tail. apply Permutation_app_tail. apply Permutation_app_comm.
    + cbn [forget]. unfold clone_as. rewrite clone_unfold.
      assert (CH : map forget (match ty with TArr => hrenumber 0 ch' | _ => ch' end) =
                   match ty with TArr => renumber 0 (map (fun c => set_key c []) (map clone ch)) | TObj => map clone ch | _ => [] end).
      { destruct ty; try discriminate.
        - rewrite Q2. unfold wk', clone_as. reflexivity.
        - rewrite forget_hrenumber, Q2. unfold wk', clone_as. rewrite map_map. reflexivity. }
      rewrite CH. destruct wk; reflexivity.
  - split.
    + rewrite owns_unfold. cbn [hn_ty hn_ch fst snd]. rewrite C. unfold shell. cbn [hn_kid hn_ty hn_sid hn_id app].
      apply perm_trans with (sid_of ty sid ++ oid kid ++ [id] ++ h_live h); auto.
      rewrite !app_assoc. apply Permutation_app_tail. apply Permutation_app_tail. apply Permutation_app_comm.
    + cbn [forget snd]. unfold clone_as. rewrite clone_unfold.
      destruct ty; try discriminate; destruct wk; reflexivity.
Qed.

(* ------------------------------------------------------------------ forget *)
Lemma forget_ty : forall n, n_ty (forget n) = hn_ty n. Proof. intros []; reflexivity. Qed.
Lemma forget_kl : forall n, n_kl (forget n) = hn_kl n. Proof. intros []; reflexivity. Qed.
Lemma forget_key : forall n, n_key (forget n) = hn_key n. Proof. intros []; reflexivity. Qed.
Lemma forget_ch : forall n, n_ch (forget n) = map forget (hn_ch n). Proof. intros []; reflexivity. Qed.
Lemma forget_hset_ch : forall n l, forget (hset_ch n l) = set_ch (forget n) (map forget l).
Proof. intros [] l; reflexivity. Qed.
Lemma forget_hset_child : forall n i c, forget (hset_child n i c) = set_child (forget n) i (forget c).
Proof.
  intros n i c. unfold hset_child, set_child. rewrite forget_hset_ch, forget_ch, map_app. cbn [map].
  rewrite firstn_map, skipn_map. reflexivity.
Qed.
Lemma hn_ty_hset_ch : forall n l, hn_ty (hset_ch n l) = hn_ty n. Proof. intros [] l; reflexivity. Qed.
Lemma hn_ch_hset_ch : forall n l, hn_ch (hset_ch n l) = l. Proof. intros [] l; reflexivity. Qed.
Lemma shell_hset_ch : forall n l, shell (hset_ch n l) = shell n. Proof. intros [] l; reflexivity. Qed.

Lemma kid_in_owns : forall c, incl (oid (hn_kid c)) (owns c).
Proof.
  intros c x H. rewrite owns_unfold. apply in_or_app. right. unfold shell. apply in_or_app. left. exact H.
Qed.

Lemma hfind_spec : forall l h pc L, Permutation (h_live h) L -> (forall c, In c l -> incl (oid (hn_kid c)) L) ->
  hfind h pc l = inr (find_pos (mkey_match pc) (map forget l)).
Proof.
  induction l as [|c r IH]; intros h pc L P K; [reflexivity|].
  cbn [hfind map find_pos]. unfold mkey_match at 1. rewrite forget_kl, forget_key.
  assert (IHr : hfind h pc r = inr (find_pos (mkey_match pc) (map forget r))).
  { apply (IH h pc L P). intros c' Hc'. apply K. right. exact Hc'. }
  destruct (hn_kl c =? n_kl pc); cbn [andb].
  - assert (U : h_use h (hn_kid c) = inr tt).
    { unfold h_use. destruct (hn_kid c) as [k|] eqn:E; [|reflexivity].
      rewrite (live_in h L k P); [reflexivity|]. apply (K c (or_introl eq_refl)). rewrite E. left. reflexivity. }
    rewrite U. cbn [bindh]. destruct (strncmp_eq (hn_key c) (n_key pc) (Z.to_nat (hn_kl c))); [reflexivity|].
    rewrite IHr. cbn [bindh]. reflexivity.
  - rewrite IHr. cbn [bindh]. reflexivity.
Qed.

(* ------------------------------------------------------------------ merge_h, named pieces *)
Definition heap_t0 (h : heap) (t : option hnode) (pkl : Z) (pkey : list Z) : herr + (heap * hnode) :=
  match t with
  | None =>
    let '(id, h1) := h_alloc h in
    let '(kid, h2) := h_alloc h1 in
    inr (h2, HNode id (Some kid) pkl pkey TObj 0 None [] [])
  | Some (HNode id kid kl key ty vi sid vs ch) =>
    match ty with
    | TObj => inr (h, HNode id kid kl key ty vi sid vs ch)
    | TStr => bindh (h_free_opt h sid) (fun h1 => inr (h1, HNode id kid kl key TObj 0 None [] []))
    | TArr => bindh (destroy_list h ch) (fun h1 => inr (h1, HNode id kid kl key TObj 0 None [] []))
    | _ => inr (h, HNode id kid kl key TObj 0 None [] [])
    end
  end.

Definition heap_step (h : heap) (tgt : hnode) (pc : node) : herr + (heap * hnode) :=
  bindh (hfind h pc (hn_ch tgt)) (fun pos =>
  match n_ty pc with
  | TNull =>
    match pos with
    | Some i => match nth_error (hn_ch tgt) i with
                | None => inr (h, tgt)
                | Some c => bindh (destroy h c) (fun h1 =>
                            inr (h1, hset_ch tgt (firstn i (hn_ch tgt) ++ skipn (S i) (hn_ch tgt))))
                end
    | None => inr (h, tgt)
    end
  | _ =>
    match pos with
    | Some i =>
      match nth_error (hn_ch tgt) i with
      | None => inr (h, tgt)
      | Some c =>
        bindh (match hn_ty c, n_ty pc with
               | TStr, TObj => inr h
               | TStr, _ => h_free_opt h (hn_sid c)
               | _, _ => inr h
               end) (fun h1 =>
        bindh (merge_h h1 (Some c) pc) (fun hs =>
        let '(h2, src) := hs in
        match n_ty pc with
        | TObj => inr (h2, hset_child tgt i src)
        | _ =>
          bindh (if is_container (hn_ty c) then destroy_list h2 (hn_ch c) else inr h2) (fun h3 =>
          let c' := match c with HNode id kid kl key _ _ _ _ _ =>
                      HNode id kid kl key (hn_ty src) (hn_vi src) (hn_sid src) (hn_vs src) (hn_ch src) end in
          bindh (h_free_opt h3 (hn_kid src)) (fun h4 =>
          bindh (h_free h4 (hn_id src)) (fun h5 =>
          inr (h5, hset_child tgt i c'))))
        end))
      end
    | None =>
      bindh (merge_h h None pc) (fun hs =>
      let '(h1, nn) := hs in inr (h1, hset_ch tgt (hn_ch tgt ++ [nn])))
    end
  end).

Fixpoint hfold (h : heap) (tgt : hnode) (l : list node) {struct l} : herr + (heap * hnode) :=
  match l with
  | [] => inr (h, tgt)
  | pc :: l' => bindh (heap_step h tgt pc) (fun ht => let '(h', tgt') := ht in hfold h' tgt' l')
  end.

Lemma merge_h_unfold : forall h t pkl pkey pty pvi pvs pch,
  merge_h h t (Node pkl pkey pty pvi pvs pch) =
  match pty with
  | TObj => bindh (heap_t0 h t pkl pkey) (fun ht0 => hfold (fst ht0) (snd ht0) pch)
  | _ => inr (clone_h h true (Node pkl pkey pty pvi pvs pch))
  end.
Proof. intros. destruct pty; reflexivity. Qed.

(* ------------------------------------------------------------------ permutations of concatenations by counting *)
Ltac perm :=
  apply (Permutation_count_occ Nat.eq_dec);
  let x := fresh "x" in intro x;
  repeat match goal with H : Permutation _ _ |- _ =>
           let H' := fresh "C" in pose proof (proj1 (Permutation_count_occ Nat.eq_dec _ _) H x) as H'; clear H end;
  repeat rewrite count_occ_app in *; cbn [count_occ app] in *; lia.

Definition owns_opt (t : option hnode) : list nat := match t with Some t0 => owns t0 | None => [] end.
Definition hres (p : node) (t : option hnode) (F : list nat) (r : herr + (heap * hnode)) : Prop :=
  exists h' t', r = inr (h', t') /\
    Permutation (h_live h') (owns t' ++ (match n_ty p with TObj => [] | _ => owns_opt t end) ++ F) /\
    forget t' = merge_gen clone (option_map forget t) p.
Definition hIH (pc : node) : Prop := forall h t F, opt_good (option_map forget t) ->
  Permutation (h_live h) (owns_opt t ++ F) -> hres pc t F (merge_h h t pc).

Lemma clone_adopt_ok : forall p, good p -> good (clone p) /\ val (clone p) = val p /\ n_kl (clone p) = n_kl p /\
                                           (key_ok p -> n_key (clone p) = n_key p).
Proof.
  intros p [H T]. destruct (clone_spec p H) as [A [B [C [D E]]]]. repeat split; auto. rewrite C. exact T.
Qed.

Lemma owns_split : forall l i c, nth_error l i = Some c ->
  Permutation (owns_ch l) (owns c ++ owns_ch (firstn i l ++ skipn (S i) l)).
Proof.
  intros l i c N. rewrite (nth_split _ l i c N) at 1. rewrite !owns_ch_app, owns_ch_cons. perm.
Qed.
Lemma owns_put : forall l i c c', nth_error l i = Some c ->
  Permutation (owns_ch (firstn i l ++ c' :: skipn (S i) l)) (owns c' ++ owns_ch (firstn i l ++ skipn (S i) l)).
Proof. intros l i c c' N. rewrite !owns_ch_app, owns_ch_cons. perm. Qed.

Lemma owns_obj : forall t, hn_ty t = TObj -> owns t = owns_ch (hn_ch t) ++ shell t.
Proof. intros t T. rewrite owns_unfold, T. reflexivity. Qed.

Lemma merge_gen_nonobj : forall t p, n_ty p <> TObj -> merge_gen clone t p = clone p.
Proof. intros t [kl key ty vi vs ch] H. rewrite merge_gen_unfold. simpl in H. destruct ty; try reflexivity. contradiction. Qed.
Lemma merge_h_nonobj : forall h t p, n_ty p <> TObj -> merge_h h t p = inr (clone_h h true p).
Proof. intros h t [kl key ty vi vs ch] H. rewrite merge_h_unfold. simpl in H. destruct ty; try reflexivity. contradiction. Qed.

Lemma gen_step_good : forall tgt pc, good tgt -> n_ty tgt = TObj -> good pc -> key_ok pc ->
  good (gen_step clone tgt pc) /\ n_ty (gen_step clone tgt pc) = TObj.
Proof.
  intros tgt pc [H N] T Gp Kp.
  destruct (gen_step_spec clone clone_adopt_ok tgt pc (map kv (n_ch tgt)) H T (val_obj tgt T) Gp Kp
              (fun t Gt => merge_gen_ok clone clone_adopt_ok pc Gp t Gt)) as [A [B _]].
  split; [split; [exact A | rewrite B; discriminate] | exact B].
Qed.

Lemma nth_error_forget : forall l i, nth_error (map forget l) i = option_map forget (nth_error l i).
Proof. intros. apply nth_error_map. Qed.

Definition hs_found_obj (h : heap) (tgt : hnode) (pc : node) (i : nat) (c : hnode) : herr + (heap * hnode) :=
  bindh (match hn_ty c with TStr => inr h | _ => inr h end) (fun h1 =>
  bindh (merge_h h1 (Some c) pc) (fun hs => let '(h2, src) := hs in inr (h2, hset_child tgt i src))).
Definition hs_found_other (h : heap) (tgt : hnode) (pc : node) (i : nat) (c : hnode) : herr + (heap * hnode) :=
  bindh (match hn_ty c with TStr => h_free_opt h (hn_sid c) | _ => inr h end) (fun h1 =>
  bindh (merge_h h1 (Some c) pc) (fun hs =>
  let '(h2, src) := hs in
  bindh (if is_container (hn_ty c) then destroy_list h2 (hn_ch c) else inr h2) (fun h3 =>
  let c' := match c with HNode id kid kl key _ _ _ _ _ =>
              HNode id kid kl key (hn_ty src) (hn_vi src) (hn_sid src) (hn_vs src) (hn_ch src) end in
  bindh (h_free_opt h3 (hn_kid src)) (fun h4 =>
  bindh (h_free h4 (hn_id src)) (fun h5 => inr (h5, hset_child tgt i c')))))).
Definition hs_append (h : heap) (tgt : hnode) (pc : node) : herr + (heap * hnode) :=
  bindh (merge_h h None pc) (fun hs => let '(h1, nn) := hs in inr (h1, hset_ch tgt (hn_ch tgt ++ [nn]))).

Lemma heap_step_null : forall h tgt pc, n_ty pc = TNull ->
  heap_step h tgt pc =
  bindh (hfind h pc (hn_ch tgt)) (fun pos =>
    match pos with
    | Some i => match nth_error (hn_ch tgt) i with
                | None => inr (h, tgt)
                | Some c => bindh (destroy h c) (fun h1 =>
                            inr (h1, hset_ch tgt (firstn i (hn_ch tgt) ++ skipn (S i) (hn_ch tgt))))
                end
    | None => inr (h, tgt)
    end).
Proof. intros h tgt pc H. unfold heap_step. rewrite H. reflexivity. Qed.
Lemma heap_step_obj : forall h tgt pc, n_ty pc = TObj ->
  heap_step h tgt pc =
  bindh (hfind h pc (hn_ch tgt)) (fun pos =>
    match pos with
    | Some i => match nth_error (hn_ch tgt) i with None => inr (h, tgt) | Some c => hs_found_obj h tgt pc i c end
    | None => hs_append h tgt pc
    end).
Proof. intros h tgt pc H. unfold heap_step, hs_found_obj, hs_append. rewrite H. reflexivity. Qed.
Lemma heap_step_other : forall h tgt pc, n_ty pc <> TNull -> n_ty pc <> TObj ->
  heap_step h tgt pc =
  bindh (hfind h pc (hn_ch tgt)) (fun pos =>
    match pos with
    | Some i => match nth_error (hn_ch tgt) i with None => inr (h, tgt) | Some c => hs_found_other h tgt pc i c end
    | None => hs_append h tgt pc
    end).
Proof.
  intros h tgt pc H1 H2. unfold heap_step, hs_found_other, hs_append.
  destruct (n_ty pc); try reflexivity; contradiction.
Qed.

Lemma heap_step_ok : forall h tgt pc F, hn_ty tgt = TObj -> good (forget tgt) -> good pc -> key_ok pc -> hIH pc ->
  Permutation (h_live h) (owns tgt ++ F) ->
  exists h' tgt', heap_step h tgt pc = inr (h', tgt') /\ Permutation (h_live h') (owns tgt' ++ F) /\
                  forget tgt' = gen_step clone (forget tgt) pc /\ hn_ty tgt' = TObj.
Proof.
  intros h tgt pc F T G Gp Kp IH P.
  assert (OT := owns_obj tgt T).
  assert (KL : forall c, In c (hn_ch tgt) -> incl (oid (hn_kid c)) (owns tgt ++ F)).
  { intros c Hc x Hx. apply in_or_app. left. rewrite OT. apply in_or_app. left.
    unfold owns_ch. apply in_flat_map. exists c. split; [exact Hc | apply kid_in_owns; exact Hx]. }
  pose proof (hfind_spec _ h pc _ P KL) as HF.
  destruct G as [GI GT]. pose proof GI as GI0. apply inv_unfold in GI. destruct GI as [GC _]. rewrite forget_ch in GC.
  (* the append case, shared by the two non-null shapes *)
  assert (APP : n_ty pc <> TNull -> find_pos (mkey_match pc) (map forget (hn_ch tgt)) = None ->
                exists h' tgt', hs_append h tgt pc = inr (h', tgt') /\ Permutation (h_live h') (owns tgt' ++ F) /\
                                forget tgt' = gen_step clone (forget tgt) pc /\ hn_ty tgt' = TObj).
  { intros TN' FP. rewrite (gen_step_nonnull clone _ pc TN'). rewrite forget_ch, FP.
    assert (P1 : Permutation (h_live h) (owns_opt None ++ owns tgt ++ F)) by (cbn [owns_opt app]; exact P).
    destruct (IH h None _ I P1) as [h1 [nn [E1 [Q1 F1]]]]. unfold hs_append. rewrite E1. cbn [bindh].
    eexists. eexists. split; [reflexivity|]. split; [|split].
    - rewrite owns_obj by (rewrite hn_ty_hset_ch; exact T). rewrite hn_ch_hset_ch, shell_hset_ch, owns_ch_app.
      rewrite OT in Q1. cbn [owns_opt] in Q1. unfold owns_ch at 2. cbn [flat_map]. rewrite app_nil_r.
      assert (Q1' : Permutation (h_live h1) (owns nn ++ owns_ch (hn_ch tgt) ++ shell tgt ++ F)).
      { destruct (n_ty pc); cbn [app] in Q1; perm. }
      perm.
    - rewrite forget_hset_ch, map_app. cbn [map]. rewrite F1. reflexivity.
    - rewrite hn_ty_hset_ch. exact T. }
  destruct (ty_eqb (n_ty pc) TNull) eqn:TN.
  - (* null: the member, if any, is unlinked and freed *)
    apply ty_eqb_eq in TN. rewrite (heap_step_null h tgt pc TN), HF. cbn [bindh].
    unfold gen_step. rewrite TN, forget_ch.
    destruct (find_pos (mkey_match pc) (map forget (hn_ch tgt))) as [i|] eqn:FP.
    + pose proof (find_pos_lt _ _ _ FP) as LT. rewrite map_length in LT.
      destruct (nth_error (hn_ch tgt) i) as [c|] eqn:N; [|apply nth_error_None in N; lia].
      pose proof (owns_split _ _ _ N) as OS.
      set (rest := owns_ch (firstn i (hn_ch tgt) ++ skipn (S i) (hn_ch tgt))) in *.
      assert (P1 : Permutation (h_live h) (owns c ++ rest ++ shell tgt ++ F)) by (rewrite OT in P; perm).
      destruct (destroy_perm c h _ P1) as [h1 [E1 Q1]]. rewrite E1. cbn [bindh].
      eexists. eexists. split; [reflexivity|]. split; [|split].
      * rewrite owns_obj by (rewrite hn_ty_hset_ch; exact T). rewrite hn_ch_hset_ch, shell_hset_ch. fold rest. perm.
      * rewrite forget_hset_ch, map_app, firstn_map, skipn_map. reflexivity.
      * rewrite hn_ty_hset_ch. exact T.
    + exists h, tgt. repeat split; auto.
  - assert (TN' : n_ty pc <> TNull) by (intro E; rewrite E in TN; discriminate).
    destruct (ty_eqb (n_ty pc) TObj) eqn:TO.
    + (* object patch: recursive merge into the member, or append *)
      apply ty_eqb_eq in TO. rewrite (heap_step_obj h tgt pc TO), HF. cbn [bindh].
      destruct (find_pos (mkey_match pc) (map forget (hn_ch tgt))) as [i|] eqn:FP; [|apply APP; auto].
      pose proof (find_pos_lt _ _ _ FP) as LT. rewrite map_length in LT.
      destruct (nth_error (hn_ch tgt) i) as [c|] eqn:N; [|apply nth_error_None in N; lia].
      assert (Gc : good (forget c)).
      { eapply Forall_nth; [exact GC|]. rewrite nth_error_forget, N. reflexivity. }
      pose proof (owns_split _ _ _ N) as OS.
      set (rest := owns_ch (firstn i (hn_ch tgt) ++ skipn (S i) (hn_ch tgt))) in *.
      rewrite (gen_step_nonnull clone _ pc TN'). rewrite forget_ch, FP, nth_error_forget, N. cbn [option_map]. rewrite TO.
      unfold hs_found_obj.
      replace (match hn_ty c with TStr => inr h | _ => inr h end) with (@inr herr heap h) by (destruct (hn_ty c); reflexivity).
      cbn [bindh].
      assert (P1 : Permutation (h_live h) (owns_opt (Some c) ++ rest ++ shell tgt ++ F)) by (cbn [owns_opt]; rewrite OT in P; perm).
      destruct (IH h (Some c) _ Gc P1) as [h2 [src [E2 [Q2 F2]]]]. rewrite E2. cbn [bindh]. rewrite TO in Q2.
      eexists. eexists. split; [reflexivity|]. split; [|split].
      * unfold hset_child. rewrite owns_obj by (rewrite hn_ty_hset_ch; exact T). rewrite hn_ch_hset_ch, shell_hset_ch.
        pose proof (owns_put _ i c src N) as OP. fold rest in OP. perm.
      * rewrite forget_hset_child, F2. reflexivity.
      * unfold hset_child. rewrite hn_ty_hset_ch. exact T.
    + (* anything else: the member takes the data of a fresh clone, or a clone is appended *)
      assert (TO' : n_ty pc <> TObj) by (intro E; rewrite E in TO; discriminate).
      rewrite (heap_step_other h tgt pc TN' TO'), HF. cbn [bindh].
      destruct (find_pos (mkey_match pc) (map forget (hn_ch tgt))) as [i|] eqn:FP; [|apply APP; auto].
      pose proof (find_pos_lt _ _ _ FP) as LT. rewrite map_length in LT.
      destruct (nth_error (hn_ch tgt) i) as [c|] eqn:N; [|apply nth_error_None in N; lia].
      pose proof (owns_split _ _ _ N) as OS.
      set (rest := owns_ch (firstn i (hn_ch tgt) ++ skipn (S i) (hn_ch tgt))) in *.
      rewrite (gen_step_nonnull clone _ pc TN'). rewrite forget_ch, FP, nth_error_forget, N. cbn [option_map].
      rewrite (merge_gen_nonobj _ pc TO').
      replace (match n_ty pc with TObj => clone pc | _ => copy_data (forget c) (clone pc) end) with (copy_data (forget c) (clone pc))
        by (destruct (n_ty pc); try reflexivity; contradiction).
      unfold hs_found_other.
      destruct c as [cid ckid ckl ckey cty cvi csid cvs cch]. cbn [hn_ty hn_sid hn_ch] in *.
      rewrite owns_unfold in OS. cbn [hn_ty hn_ch] in OS. unfold shell in OS. cbn [hn_kid hn_ty hn_sid hn_id] in OS.
      set (CC := if is_container cty then owns_ch cch else []) in *.
      assert (S1 : exists h1, match cty with TStr => h_free_opt h csid | _ => inr h end = inr h1 /\
                              Permutation (h_live h1) (CC ++ oid ckid ++ [cid] ++ rest ++ shell tgt ++ F)).
      { destruct (ty_eqb cty TStr) eqn:CS.
        - apply ty_eqb_eq in CS. subst cty. cbn [sid_of] in OS. apply free_opt_perm. rewrite OT in P. perm.
        - exists h. split; [destruct cty; try reflexivity; discriminate|].
          replace (sid_of cty csid) with (@nil nat) in OS by (destruct cty; try reflexivity; discriminate).
          rewrite OT in P. perm. }
      destruct S1 as [h1 [E1 Q1]]. rewrite E1. cbn [bindh].
      rewrite (merge_h_nonobj h1 _ pc TO'). cbn [bindh].
      destruct (clone_h_spec pc true h1) as [Q2 F2]. destruct (clone_h h1 true pc) as [h2 src]. cbn [fst snd] in Q2, F2.
      assert (S3 : exists h3, (if is_container cty then destroy_list h2 cch else inr h2) = inr h3 /\
                              Permutation (h_live h3) (owns src ++ oid ckid ++ [cid] ++ rest ++ shell tgt ++ F)).
      { unfold CC in Q1. destruct (is_container cty).
        - apply destroy_list_perm. perm.
        - exists h2. split; [reflexivity | perm]. }
      destruct S3 as [h3 [E3 Q3]]. rewrite E3. cbn [bindh].
      destruct src as [sid0 skid skl skey sty svi ssid svs sch]. cbn [hn_kid hn_id hn_ty hn_vi hn_sid hn_vs hn_ch] in *.
      rewrite owns_unfold in Q3. cbn [hn_ty hn_ch] in Q3. unfold shell at 1 in Q3. cbn [hn_kid hn_ty hn_sid hn_id] in Q3.
      set (SC := if is_container sty then owns_ch sch else []) in *.
      assert (Q3' : Permutation (h_live h3) (oid skid ++ (SC ++ sid_of sty ssid ++ [sid0] ++ oid ckid ++ [cid] ++ rest ++ shell tgt ++ F))) by perm.
      destruct (free_opt_perm h3 skid _ Q3') as [h4 [E4 Q4]]. rewrite E4. cbn [bindh].
      assert (Q4' : Permutation (h_live h4) (sid0 :: (SC ++ sid_of sty ssid ++ oid ckid ++ [cid] ++ rest ++ shell tgt ++ F))).
      { change (sid0 :: ?l) with ([sid0] ++ l). perm. }
      destruct (free_perm h4 sid0 _ Q4') as [h5 [E5 [Q5 _]]]. rewrite E5. cbn [bindh].
      eexists. eexists. split; [reflexivity|]. split; [|split].
      * unfold hset_child. rewrite owns_obj by (rewrite hn_ty_hset_ch; exact T). rewrite hn_ch_hset_ch, shell_hset_ch.
        pose proof (owns_put _ i _ (HNode cid ckid ckl ckey sty svi ssid svs sch) N) as OP. fold rest in OP.
        rewrite owns_unfold in OP. cbn [hn_ty hn_ch] in OP. unfold shell in OP. cbn [hn_kid hn_ty hn_sid hn_id] in OP.
        fold SC in OP. perm.
      * rewrite forget_hset_child. f_equal. unfold clone_as in F2. rewrite <- F2. reflexivity.
      * unfold hset_child. rewrite hn_ty_hset_ch. exact T.
Qed.

Lemma hfold_ok : forall pch, Forall good pch -> Forall key_ok pch -> Forall hIH pch ->
  forall h tgt F, hn_ty tgt = TObj -> good (forget tgt) -> Permutation (h_live h) (owns tgt ++ F) ->
  exists h' tgt', hfold h tgt pch = inr (h', tgt') /\ Permutation (h_live h') (owns tgt' ++ F) /\
                  forget tgt' = fold_left (gen_step clone) pch (forget tgt) /\ hn_ty tgt' = TObj.
Proof.
  induction pch as [|pc r IHr]; intros G K IH h tgt F T Gt P.
  - exists h, tgt. repeat split; auto.
  - inversion G as [|? ? Gp Gr]; subst. inversion K as [|? ? Kp Kr]; subst. inversion IH as [|? ? Ip Ir]; subst.
    destruct (heap_step_ok h tgt pc F T Gt Gp Kp Ip P) as [h1 [tgt1 [E1 [P1 [F1 T1]]]]].
    cbn [hfold fold_left]. rewrite E1. cbn [bindh].
    assert (G1 : good (forget tgt1)).
    { rewrite F1. apply gen_step_good; auto. rewrite forget_ty. exact T. }
    destruct (IHr Gr Kr Ir h1 tgt1 F T1 G1 P1) as [h2 [tgt2 [E2 [P2 [F2 T2]]]]].
    exists h2, tgt2. repeat split; auto. rewrite F2, F1. reflexivity.
Qed.

Lemma heap_t0_ok : forall h t pkl pkey F, opt_good (option_map forget t) -> Permutation (h_live h) (owns_opt t ++ F) ->
  exists h0 t0, heap_t0 h t pkl pkey = inr (h0, t0) /\ Permutation (h_live h0) (owns t0 ++ F) /\
                forget t0 = pool_t0 (option_map forget t) pkl pkey /\ hn_ty t0 = TObj /\ good (forget t0).
Proof.
  intros h t pkl pkey F G P. unfold heap_t0. destruct t as [[id kid kl key ty vi sid vs ch]|].
  - cbn [owns_opt option_map opt_good] in *. rewrite owns_unfold in P. cbn [hn_ty hn_ch] in P. unfold shell in P.
    cbn [hn_kid hn_ty hn_sid hn_id] in P.
    assert (RG : good (Node kl key TObj 0 [] [])) by (split; [simpl; auto | discriminate]).
    destruct ty.
    + (* none *) eexists. eexists. split; [reflexivity|]. repeat split; auto; try apply RG; cbn [sid_of app] in P; try exact P.
    + eexists. eexists. split; [reflexivity|]. repeat split; auto; try apply RG; cbn [sid_of app] in P; try exact P.
    + eexists. eexists. split; [reflexivity|]. repeat split; auto; try apply RG; cbn [sid_of app] in P; try exact P.
    + eexists. eexists. split; [reflexivity|]. repeat split; auto; try apply RG; cbn [sid_of app] in P; try exact P.
    + eexists. eexists. split; [reflexivity|]. repeat split; auto; try apply RG; cbn [sid_of app] in P; try exact P.
    + (* string: its bytes are freed *)
      change (is_container TStr) with false in P. cbn [sid_of app] in P.
      assert (P' : Permutation (h_live h) (oid sid ++ (oid kid ++ [id] ++ F))) by perm.
      destruct (free_opt_perm h sid _ P') as [h1 [E1 Q1]]. rewrite E1. cbn [bindh].
      eexists. eexists. split; [reflexivity|]. repeat split; auto; try apply RG.
      rewrite owns_unfold. cbn [hn_ty hn_ch]. unfold shell. cbn [hn_kid hn_ty hn_sid hn_id sid_of app].
      change (is_container TObj) with true. cbn [owns_ch flat_map app]. perm.
    + (* object *) eexists. eexists. split; [reflexivity|]. repeat split; auto; try apply G.
    + (* array: its items are destroyed *)
      change (is_container TArr) with true in P. cbn [sid_of app] in P.
      assert (P' : Permutation (h_live h) (owns_ch ch ++ (oid kid ++ [id] ++ F))) by perm.
      destruct (destroy_list_perm ch h _ P') as [h1 [E1 Q1]]. rewrite E1. cbn [bindh].
      eexists. eexists. split; [reflexivity|]. repeat split; auto; try apply RG.
      rewrite owns_unfold. cbn [hn_ty hn_ch]. unfold shell. cbn [hn_kid hn_ty hn_sid hn_id sid_of app].
      change (is_container TObj) with true. cbn [owns_ch flat_map app]. perm.
  - cbn [owns_opt option_map app] in *.
    destruct (h_alloc h) as [id h1] eqn:E1. destruct (h_alloc h1) as [kid h2] eqn:E2.
    assert (A1 : h_live h1 = id :: h_live h) by (unfold h_alloc in E1; inversion E1; reflexivity).
    assert (A2 : h_live h2 = kid :: h_live h1) by (unfold h_alloc in E2; inversion E2; reflexivity).
    eexists. eexists. split; [reflexivity|]. repeat split; auto; try discriminate; try (simpl; auto; fail).
    rewrite owns_unfold. cbn [hn_ty hn_ch]. unfold shell. cbn [hn_kid hn_ty hn_sid hn_id sid_of oid app].
    rewrite A2, A1. change (is_container TObj) with true. cbn [owns_ch flat_map app].
    apply perm_skip. apply perm_skip. exact P.
Qed.

(* the heap variant: runs without a memory error, keeps exactly the allocations of its result, and its result is the
   walk of merge_gen clone *)
Theorem merge_h_ok : forall p, good p -> hIH p.
Proof.
  induction p as [pkl pkey pty pvi pvs pch IH] using node_ind'. intros [Hp Np] h t F Gt P.
  unfold hres. rewrite merge_h_unfold, merge_gen_unfold. cbn [n_ty]. simpl in Np.
  destruct (ty_eqb pty TObj) eqn:TO.
  - apply ty_eqb_eq in TO. subst pty.
    apply inv_unfold in Hp. cbn [n_ty n_ch] in Hp. destruct Hp as [Hg Hk].
    assert (IH' : Forall hIH pch).
    { rewrite Forall_forall in IH, Hg. apply Forall_forall. intros pc Hpc. apply IH; auto. }
    destruct (heap_t0_ok h t pkl pkey F Gt P) as [h0 [t0 [E0 [P0 [F0 [T0 G0]]]]]]. rewrite E0. cbn [bindh fst snd].
    destruct (hfold_ok pch Hg Hk IH' h0 t0 F T0 G0 P0) as [h1 [t1 [E1 [P1 [F1 T1]]]]].
    exists h1, t1. split; [exact E1|]. split; [cbn [app]; exact P1 | rewrite F1, F0; reflexivity].
  - assert (TO' : pty <> TObj) by (intro E; rewrite E in TO; discriminate).
    set (p := Node pkl pkey pty pvi pvs pch).
    destruct (clone_h_spec p true h) as [Q F2]. destruct (clone_h h true p) as [h1 src] eqn:E. cbn [fst snd] in Q, F2.
    exists h1, src.
    replace (match pty with TObj => bindh (heap_t0 h t pkl pkey) (fun ht0 => hfold (fst ht0) (snd ht0) pch) | _ => inr (h1, src) end)
      with (@inr herr _ (h1, src)) by (destruct pty; try reflexivity; contradiction).
    split; [reflexivity|]. split.
    + replace (match pty with TObj => [] | _ => owns_opt t end) with (owns_opt t) by (destruct pty; try reflexivity; contradiction).
      perm.
    + replace (match pty with TObj => fold_left (gen_step clone) pch (pool_t0 (option_map forget t) pkl pkey) | _ => clone p end)
        with (clone p) by (destruct pty; try reflexivity; contradiction).
      exact F2.
Qed.

(* ================================================================== the theorems of C16 *)
Theorem merge_pool_rfc7386 : forall t p, opt_good t -> good p ->
  val (merge_pool t p) = merge_spec (option_map val t) (val p) /\ good (merge_pool t p).
Proof. intros t p Gt Gp. destruct (merge_pool_ok p Gp t Gt) as [A [B _]]. split; auto. Qed.

Theorem jbn_merge_patch_pool_rfc7386 : forall root patch, good root -> good patch ->
  match jbn_merge_patch_pool root patch with
  | (RcOk, r) => val r = merge_spec (Some (val root)) (val patch) /\ good r
  | (_, r) => r = root /\ (n_ty root <> TObj \/ n_ty patch <> TObj)
  end.
Proof.
  intros root patch Gr Gp. unfold jbn_merge_patch_pool.
  destruct (n_ty root) eqn:TR; try (split; [reflexivity | left; discriminate]).
  destruct (n_ty patch) eqn:TP; try (split; [reflexivity | right; discriminate]).
  apply (merge_pool_rfc7386 (Some root) patch Gr Gp).
Qed.

Theorem merge_heap_safe : forall h root patch F, good (forget root) -> good patch ->
  Permutation (h_live h) (owns root ++ F) ->
  exists rc h' root', jbn_merge_patch_heap h root patch = inr (rc, h', root') /\
    Permutation (h_live h') (owns root' ++ F) /\
    (exists h'', destroy h' root' = inr h'' /\ Permutation (h_live h'') F) /\
    (rc = RcOk -> val (forget root') = merge_spec (Some (val (forget root))) (val patch) /\ good (forget root')) /\
    (rc <> RcOk -> root' = root /\ h' = h).
Proof.
  intros h root patch F Gr Gp P. unfold jbn_merge_patch_heap.
  assert (KEEP : exists rc h' root', @inr herr _ (RcInvArgs, h, root) = inr (rc, h', root') /\
    Permutation (h_live h') (owns root' ++ F) /\
    (exists h'', destroy h' root' = inr h'' /\ Permutation (h_live h'') F) /\
    (rc = RcOk -> val (forget root') = merge_spec (Some (val (forget root))) (val patch) /\ good (forget root')) /\
    (rc <> RcOk -> root' = root /\ h' = h)).
  { exists RcInvArgs, h, root. split; [reflexivity|]. split; [exact P|]. split; [apply destroy_perm; exact P|].
    split; [discriminate | auto]. }
  destruct (hn_ty root) eqn:TR; try exact KEEP.
  destruct (n_ty patch) eqn:TP; try exact KEEP.
  destruct (merge_h_ok patch Gp h (Some root) F Gr P) as [h1 [r1 [E1 [P1 F1]]]]. rewrite E1. cbn [bindh fst snd].
  rewrite TP in P1. cbn [app] in P1.
  exists RcOk, h1, r1. split; [reflexivity|]. split; [exact P1|]. split; [apply destroy_perm; exact P1|].
  split; [|intro E; contradiction]. intros _. rewrite F1. cbn [option_map].
  destruct (merge_gen_ok clone clone_adopt_ok patch Gp (Some (forget root)) Gr) as [A [B _]]. split; auto.
Qed.

(* the heap-allocated copy the harness (and any caller using jbn_clone(.., 0)) starts from *)
Theorem heap_of_ok : forall doc, good doc ->
  Permutation (h_live (fst (heap_of doc))) (owns (snd (heap_of doc)) ++ []) /\
  good (forget (snd (heap_of doc))) /\ val (forget (snd (heap_of doc))) = val doc.
Proof.
  intros doc G. unfold heap_of. destruct (clone_h_spec doc false h_empty) as [P F]. split; [exact P|].
  rewrite F. unfold clone_as. destruct (clone_adopt_ok doc G) as [A [B _]].
  split; [apply good_set_key; exact A | rewrite val_set_key; exact B].
Qed.

(* all entry points compute the same value *)
Theorem merge_variants_agree : forall h root hroot patch F,
  good root -> n_ty root = TObj -> good patch -> n_ty patch = TObj ->
  good (forget hroot) -> val (forget hroot) = val root -> hn_ty hroot = TObj ->
  Permutation (h_live h) (owns hroot ++ F) ->
  let spec := merge_spec (Some (val root)) (val patch) in
  (exists r, jbn_merge_patch_pool root patch = (RcOk, r) /\ val r = spec) /\
  val (jbn_merge_patch_node root patch) = spec /\
  (forall fo, exists r, jbn_patch_auto fo root patch = (RcOk, r) /\ val r = spec) /\
  (exists h' r, jbn_merge_patch_heap h hroot patch = inr (RcOk, h', r) /\ val (forget r) = spec).
Proof.
  intros h root hroot patch F Gr TR Gp TP Gh VH TH P spec.
  destruct (merge_pool_rfc7386 (Some root) patch Gr Gp) as [A _]. cbn [option_map] in A.
  split; [|split; [|split]].
  - unfold jbn_merge_patch_pool. rewrite TR, TP. eexists. split; [reflexivity | exact A].
  - exact A.
  - intro fo. unfold jbn_patch_auto. rewrite TP. eexists. split; [reflexivity | exact A].
  - unfold jbn_merge_patch_heap. rewrite TH, TP.
    destruct (merge_h_ok patch Gp h (Some hroot) F Gh P) as [h1 [r1 [E1 [P1 F1]]]]. rewrite E1. cbn [bindh fst snd].
    exists h1, r1. split; [reflexivity|]. rewrite F1. cbn [option_map].
    destruct (merge_gen_ok clone clone_adopt_ok patch Gp (Some (forget hroot)) Gh) as [_ [B _]].
    rewrite B. cbn [option_map]. rewrite VH. reflexivity.
Qed.

(* binary form: for conversions that are inverse on values the result denotes MergePatch, any patch *)
Theorem merge_binary_rfc7386 : forall (B : Type) (dec : B -> node) (enc : node -> option B) b patch,
  (forall b0, good (dec b0)) ->
  (forall n, good n -> exists b', enc n = Some b' /\ val (dec b') = val n) ->
  good patch ->
  exists b', merge_binary B dec enc b patch = (RcOk, b') /\ val (dec b') = merge_spec (Some (val (dec b))) (val patch).
Proof.
  intros B dec enc b patch HD HE Gp. unfold merge_binary, jbn_merge_patch_node.
  destruct (merge_pool_rfc7386 (Some (dec b)) patch (HD b) Gp) as [A G]. cbn [option_map] in A.
  destruct (HE _ G) as [b' [E1 E2]]. rewrite E1. exists b'. split; [reflexivity|]. rewrite E2. exact A.
Qed.

(* path form: the wrapper built by jbn_merge_patch_create *)
Fixpoint wrap_val (segs : list seg) (v : option jval) : list (sseg * jval) :=
  match segs with
  | [] => []
  | s :: r => [(s, match r, v with [], Some x => x | _, _ => JObj (wrap_val r v) end)]
  end.
Lemma wrap_child_spec : forall segs v, opt_good v ->
  match wrap_child segs v with
  | Some c => good c /\ key_ok c /\ [kv c] = wrap_val segs (option_map val v)
  | None => segs = []
  end.
Proof.
  induction segs as [|s r IH]; intros v G; [reflexivity|].
  cbn [wrap_child wrap_val]. specialize (IH v G).
  assert (OBJ : good (Node (Z.of_nat (length s)) s TObj 0 [] (match wrap_child r v with Some c => [c] | None => [] end)) /\
                key_ok (Node (Z.of_nat (length s)) s TObj 0 [] (match wrap_child r v with Some c => [c] | None => [] end)) /\
                [kv (Node (Z.of_nat (length s)) s TObj 0 [] (match wrap_child r v with Some c => [c] | None => [] end))] =
                [(s, JObj (wrap_val r (option_map val v)))]).
  { split; [|split; [reflexivity|]].
    - split; [|discriminate]. apply inv_unfold. cbn [n_ty n_ch].
      destruct (wrap_child r v) as [c|]; [|split; constructor].
      destruct IH as [I1 [I2 _]]. split; constructor; auto.
    - unfold kv at 1. cbn [n_key]. f_equal. f_equal. cbn [val]. f_equal. destruct (wrap_child r v) as [c|].
      + destruct IH as [_ [_ I3]]. exact I3.
      + subst r. reflexivity. }
  destruct r as [|s2 r']; [|exact OBJ].
  destruct v as [v|]; [|exact OBJ].
  cbn [option_map opt_good] in *. split; [apply good_set_kl, good_set_key; exact G|]. split.
  - unfold key_ok. rewrite n_kl_set_kl, n_key_set_kl, n_key_set_key. reflexivity.
  - unfold kv. rewrite n_key_set_kl, n_key_set_key, val_set_kl, val_set_key. reflexivity.
Qed.

Theorem merge_path_rfc7386 : forall root path segs v, good root -> n_ty root = TObj -> opt_good v ->
  path <> [] -> path <> [47] -> ptr_parse path = PtrOk segs ->
  exists r, jbn_merge_patch_path_pool root path v = (RcOk, r) /\
            val r = merge_spec (Some (val root)) (JObj (wrap_val segs (option_map val v))).
Proof.
  intros root path segs v Gr TR Gv N1 N2 PP. unfold jbn_merge_patch_path_pool, merge_patch_create. rewrite PP.
  destruct path as [|c [|c2 r]]; try contradiction.
  - destruct (Z.eq_dec c 47) as [E|E]; [subst; contradiction|].
    set (p := Node 0 [] TObj 0 [] (match wrap_child segs v with Some c0 => [c0] | None => [] end)).
    assert (Gp : good p /\ val p = JObj (wrap_val segs (option_map val v))).
    { pose proof (wrap_child_spec segs v Gv) as W. unfold p. split.
      - split; [|discriminate]. apply inv_unfold. cbn [n_ty n_ch].
        destruct (wrap_child segs v) as [c0|]; [|split; constructor]. destruct W as [W1 [W2 _]]. split; constructor; auto.
      - cbn [val]. f_equal. destruct (wrap_child segs v) as [c0|].
        + destruct W as [_ [_ W3]]. exact W3.
        + subst segs. reflexivity. }
    destruct Gp as [Gp Vp].
    replace (match c with 47 => _ | _ => _ end) with (@inr rc _ (Some p)).
    2:{ destruct c as [|q|q]; try reflexivity. do 6 (destruct q as [q|q|]; try reflexivity). exfalso. apply E. reflexivity. }
    unfold jbn_merge_patch_pool. rewrite TR. cbn [n_ty p].
    destruct (merge_pool_rfc7386 (Some root) p Gr Gp) as [A _]. eexists. split; [reflexivity|]. rewrite A, Vp. reflexivity.
  - set (p := Node 0 [] TObj 0 [] (match wrap_child segs v with Some c0 => [c0] | None => [] end)).
    assert (Gp : good p /\ val p = JObj (wrap_val segs (option_map val v))).
    { pose proof (wrap_child_spec segs v Gv) as W. unfold p. split.
      - split; [|discriminate]. apply inv_unfold. cbn [n_ty n_ch].
        destruct (wrap_child segs v) as [c0|]; [|split; constructor]. destruct W as [W1 [W2 _]]. split; constructor; auto.
      - cbn [val]. f_equal. destruct (wrap_child segs v) as [c0|].
        + destruct W as [_ [_ W3]]. exact W3.
        + subst segs. reflexivity. }
    destruct Gp as [Gp Vp].
    replace (match c with 47 => _ | _ => _ end) with (@inr rc _ (Some p)).
    2:{ destruct c as [|q|q]; try reflexivity. do 6 (destruct q as [q|q|]; try reflexivity). }
    unfold jbn_merge_patch_pool. rewrite TR. cbn [n_ty p].
    destruct (merge_pool_rfc7386 (Some root) p Gr Gp) as [A _]. eexists. split; [reflexivity|]. rewrite A, Vp. reflexivity.
Qed.
