(* C14 (family jbinn): the binary form ("binn") of a JSON document, as the library produces and reads it.

   Pointers into a buffer are modelled as the suffix of the buffer that starts at the pointer; the limit
   `plimit` of the C code is carried as `rem` = plimit - p + 1 (number of bytes from p to plimit inclusive),
   so `p > plimit` is `rem <= 0` and `p + k > plimit` is `rem - k <= 0`.  Reading past the end of the list
   (an out-of-bounds read in C) yields None.

   Encoder: _jbl_from_node_impl + binn_object_set_raw/SearchForKey + binn_list_add_raw + AddValue/compress_int
            + binn_save_header (iwjson.c, iwbinn.c).
   Decoder: IsValidBinnHeader, AdvanceDataPos, GetValue, binn_iter_init, binn_list_next, binn_read_next_pair(2),
            _jbl_node_from_binn_impl + _jbl_create_node.
   Not modelled: BINN_MAP containers and BLOB payloads (never produced by the JSON layer; decode gives None),
   allocation failures, buffers of 2^31 bytes or more (the encoder gives None). *)
Require Import ZArith List Bool Lia. Import ListNotations.
Require Import IW.JSON.Val IW.Gen.Facts.
Local Open Scope Z_scope.

(* ---------------------------------------------------------------- bytes *)
(* n bytes, most significant first, of v taken modulo 2^(8n) (two's complement for negative v) *)
Fixpoint be_bytes (n : nat) (v : Z) : list Z :=
  match n with
  | O => []
  | S k => ((v / 2 ^ (8 * Z.of_nat k)) mod 256) :: be_bytes k v
  end.

Fixpoint be_val (n : nat) (bs : list Z) : option Z :=
  match n with
  | O => Some 0
  | S k => match bs with
           | [] => None
           | b :: r => match be_val k r with
                       | Some v => Some (b * 2 ^ (8 * Z.of_nat k) + v)
                       | None => None
                       end
           end
  end.

(* C string view of a byte list: up to the first 0 byte *)
Fixpoint cstr (s : list Z) : list Z :=
  match s with
  | [] => []
  | c :: r => if c =? 0 then [] else c :: cstr r
  end.

Definition zlen {A} (l : list A) : Z := Z.of_nat (length l).
Definition zskip {A} (n : Z) (l : list A) : list A := skipn (Z.to_nat n) l.
Definition zfirst {A} (n : Z) (l : list A) : list A := firstn (Z.to_nat n) l.

(* tolower of the "C" locale on a byte *)
Definition tolower (c : Z) : Z := if (65 <=? c) && (c <=? 90) then c + 32 else c.

(* strncasecmp(a, b, n) == 0; both lists are read as far as needed, a missing byte is an out-of-bounds read
   which the callers exclude (b always carries its terminating 0) and counts as "different" *)
Fixpoint strnieq (a b : list Z) (n : nat) : bool :=
  match n with
  | O => true
  | S k => match a, b with
           | x :: a', y :: b' =>
             if tolower x =? tolower y then (if x =? 0 then true else strnieq a' b' k) else false
           | _, _ => false
           end
  end.

(* ---------------------------------------------------------------- reading *)
(* a 1- or 4-byte size/count field at p: (value, bytes consumed).  `*p & 0x80` selects the 4-byte form *)
Definition rd_field (p : list Z) : option (Z * Z) :=
  match p with
  | [] => None
  | b :: _ =>
    if negb (Z.land b 128 =? 0) then
      match be_val 4 p with
      | Some v => Some (Z.land v 2147483647, 4)
      | None => None
      end
    else Some (b, 1)
  end.

(* IsValidBinnHeader(p, &type, &count, &size (=0 on entry), &header_size): (type, size, count, header size) *)
Definition read_hdr (p : list Z) : option (Z * Z * Z * Z) :=
  match p with
  | [] => None
  | byte :: p1 =>
    if negb (Z.land byte jbinn_STORAGE_MASK =? jbinn_STORAGE_CONTAINER) then None
    else if negb (Z.land byte jbinn_STORAGE_HAS_MORE =? 0) then None
    else if negb ((byte =? jbinn_BINN_LIST) || (byte =? jbinn_BINN_MAP) || (byte =? jbinn_BINN_OBJECT)) then None
    else match rd_field p1 with
         | None => None
         | Some (size, k1) =>
           match rd_field (zskip k1 p1) with
           | None => None
           | Some (count, k2) =>
             if size <? jbinn_MIN_BINN_SIZE then None
             else Some (byte, size, count, 1 + k1 + k2)
           end
         end
  end.

(* AdvanceDataPos(p, plimit): None is the null pointer result *)
Definition advance (p : list Z) (rem : Z) : option (list Z * Z) :=
  if rem <=? 0 then None
  else match p with
  | [] => None
  | byte :: p1 =>
    let st := Z.land byte jbinn_STORAGE_MASK in
    let p2 := if negb (Z.land byte jbinn_STORAGE_HAS_MORE =? 0) then zskip 1 p1 else p1 in
    let r2 := if negb (Z.land byte jbinn_STORAGE_HAS_MORE =? 0) then rem - 2 else rem - 1 in
    let fin (k : Z) := if r2 - k <=? 0 then None else Some (zskip k p2, r2 - k) in
    if st =? jbinn_STORAGE_NOBYTES then fin 0
    else if st =? jbinn_STORAGE_BYTE then fin 1
    else if st =? jbinn_STORAGE_WORD then fin 2
    else if st =? jbinn_STORAGE_DWORD then fin 4
    else if st =? jbinn_STORAGE_QWORD then fin 8
    else if st =? jbinn_STORAGE_BLOB then
      if r2 - (jbinn_sizeof_int - 1) <=? 0 then None
      else match be_val 4 p2 with
           | None => None
           | Some dsize => fin (4 + dsize)
           end
    else if st =? jbinn_STORAGE_CONTAINER then
      if r2 <=? 0 then None
      else match p2 with
           | [] => None
           | d :: _ =>
             if negb (Z.land d 128 =? 0) then
               if r2 - (jbinn_sizeof_int - 1) <=? 0 then None
               else match be_val 4 p2 with
                    | None => None
                    | Some v => fin (Z.land v 2147483647 - 1)
                    end
             else fin (d - 1)
           end
    else if st =? jbinn_STORAGE_STRING then
      if r2 <=? 0 then None
      else match p2 with
           | [] => None
           | d :: _ =>
             if negb (Z.land d 128 =? 0) then
               if r2 - (jbinn_sizeof_int - 1) <=? 0 then None
               else match be_val 4 p2 with
                    | None => None
                    | Some v => fin (4 + Z.land v 2147483647 + 1)
                    end
             else fin (1 + d + 1)
           end
    else None
  end.

(* the `binn` value structure filled by GetValue: type, the bytes of the value union read as one unsigned number
   (little-endian host: vuint8/vint16/vint32/vint64/vbool/vdouble overlay its low bytes), size, count, ptr *)
Record bval : Type := BV { bt : Z; bnum : Z; bsize : Z; bcount : Z; bptr : list Z }.

Definition get_value (p : list Z) : option bval :=
  match p with
  | [] => None
  | byte :: p1 =>
    let st := Z.land byte jbinn_STORAGE_MASK in
    let more := negb (Z.land byte jbinn_STORAGE_HAS_MORE =? 0) in
    match (if more then match p1 with [] => None | b2 :: p1' => Some (byte * 256 + b2, p1') end
           else Some (byte, p1)) with
    | None => None
    | Some (ty, q) =>
      let conv (b : bval) : option bval :=
        if bt b =? jbinn_BINN_TRUE then Some (BV jbinn_BINN_BOOL 1 (bsize b) (bcount b) [])
        else if bt b =? jbinn_BINN_FALSE then Some (BV jbinn_BINN_BOOL 0 (bsize b) (bcount b) [])
        else Some b in
      let num (k : nat) := match be_val k q with
                           | None => None
                           | Some v => conv (BV ty v 0 0 [])
                           end in
      if st =? jbinn_STORAGE_NOBYTES then conv (BV ty 0 0 0 [])
      else if st =? jbinn_STORAGE_BYTE then num 1%nat
      else if st =? jbinn_STORAGE_WORD then num 2%nat
      else if st =? jbinn_STORAGE_DWORD then num 4%nat
      else if st =? jbinn_STORAGE_QWORD then num 8%nat
      else if st =? jbinn_STORAGE_BLOB then
        match be_val 4 q with
        | None => None
        | Some v => conv (BV ty 0 v 0 (zskip 4 q))
        end
      else if st =? jbinn_STORAGE_CONTAINER then
        match read_hdr p with
        | None => None
        | Some (_, size, count, _) => conv (BV ty 0 size count p)
        end
      else if st =? jbinn_STORAGE_STRING then
        match rd_field q with
        | None => None
        | Some (dsz, k) => conv (BV ty 0 dsz 0 (zskip k q))
        end
      else None
    end
  end.

(* binn_iter: pnext (None = null) with its distance to plimit, current, count, type *)
Record biter : Type := BI { it_p : option (list Z * Z); it_cur : Z; it_cnt : Z; it_type : Z }.

Definition iter_init (ptr : list Z) (expected : Z) : option biter :=
  match read_hdr ptr with
  | None => None
  | Some (ty, size, count, hs) =>
    if negb (ty =? expected) then None
    else Some (BI (Some (zskip hs ptr, size - hs)) 0 count ty)
  end.

Definition list_next (it : biter) : option (bval * biter) :=
  match it_p it with
  | None => None
  | Some (p, rem) =>
    if (rem <=? 0) || (it_cur it >? it_cnt it) || negb (it_type it =? jbinn_BINN_LIST) then None
    else let cur := it_cur it + 1 in
         if cur >? it_cnt it then None
         else match get_value p with
              | None => None
              | Some b => Some (b, BI (advance p rem) cur (it_cnt it) (it_type it))
              end
  end.

(* binn_read_next_pair / binn_read_next_pair2 for BINN_OBJECT (they differ only in how the key is handed out) *)
Definition object_next (it : biter) : option (list Z * bval * biter) :=
  match it_p it with
  | None => None
  | Some (p, rem) =>
    if (rem <=? 0) || (it_cur it >? it_cnt it) || negb (it_type it =? jbinn_BINN_OBJECT) then None
    else let cur := it_cur it + 1 in
         if cur >? it_cnt it then None
         else match p with
              | [] => None
              | len :: p1 =>
                let key := zfirst len p1 in
                let p2 := zskip len p1 in
                let r2 := rem - 1 - len in
                if r2 <=? 0 then None
                else match get_value p2 with
                     | None => None
                     | Some b => Some (key, b, BI (advance p2 r2) cur (it_cnt it) (it_type it))
                     end
              end
  end.

(* the iterators are pure, so a loop `while (next(&it, ..))` is modelled by collecting what it yields;
   n = count + 1 calls always suffice because `current` exceeds `count` then *)
Fixpoint list_items (n : nat) (it : biter) : list bval :=
  match n with
  | O => []
  | S k => match list_next it with
           | None => []
           | Some (b, it') => b :: list_items k it'
           end
  end.

Fixpoint obj_items (n : nat) (it : biter) : list (list Z * bval) :=
  match n with
  | O => []
  | S k => match object_next it with
           | None => []
           | Some (key, b, it') => (key, b) :: obj_items k it'
           end
  end.

Definition iter_fuel (it : biter) : nat := S (Z.to_nat (it_cnt it)).

(* sign extension of the low `bits` bits *)
Definition sx (bits : Z) (v : Z) : Z :=
  let m := v mod 2 ^ bits in if m >=? 2 ^ (bits - 1) then m - 2 ^ bits else m.

(* _jbl_create_node for the non-container types; None = JBL_ERROR_CREATION *)
Definition create_scalar (b : bval) : option jval :=
  let t := bt b in
  if t =? jbinn_BINN_NULL then Some JNull
  else if t =? jbinn_BINN_STRING then Some (JStr (zfirst (bsize b) (bptr b)))
  else if t =? jbinn_BINN_TRUE then Some (JBool true)
  else if t =? jbinn_BINN_FALSE then Some (JBool false)
  else if t =? jbinn_BINN_BOOL then Some (JBool (negb (bnum b mod 2 ^ 32 =? 0)))
  else if t =? jbinn_BINN_UINT8 then Some (JI64 (bnum b mod 2 ^ 8))
  else if t =? jbinn_BINN_UINT16 then Some (JI64 (bnum b mod 2 ^ 16))
  else if t =? jbinn_BINN_UINT32 then Some (JI64 (bnum b mod 2 ^ 32))
  else if t =? jbinn_BINN_UINT64 then Some (JI64 (sx 64 (bnum b)))
  else if t =? jbinn_BINN_INT8 then Some (JI64 (sx 8 (bnum b)))
  else if t =? jbinn_BINN_INT16 then Some (JI64 (sx 16 (bnum b)))
  else if t =? jbinn_BINN_INT32 then Some (JI64 (sx 32 (bnum b)))
  else if t =? jbinn_BINN_INT64 then Some (JI64 (sx 64 (bnum b)))
  else if (t =? jbinn_BINN_FLOAT32) || (t =? jbinn_BINN_FLOAT64) then Some (JF64 (bnum b))
  else None.

(* _jbl_node_from_binn_impl; fuel bounds the nesting depth (any fuel above the depth gives the same result) *)
Fixpoint dec_node (fuel : nat) (b : bval) : option jval :=
  match fuel with
  | O => None
  | S f =>
    if bt b =? jbinn_BINN_OBJECT then
      match iter_init (bptr b) jbinn_BINN_OBJECT with
      | None => None
      | Some it =>
        match (fix go (l : list (list Z * bval)) : option (list (list Z * jval)) :=
                 match l with
                 | [] => Some []
                 | (k, x) :: r =>
                   match dec_node f x with
                   | None => None
                   | Some v => match go r with None => None | Some vs => Some ((k, v) :: vs) end
                   end
                 end) (obj_items (iter_fuel it) it) with
        | None => None
        | Some ms => Some (JObj ms)
        end
      end
    else if bt b =? jbinn_BINN_MAP then None
    else if bt b =? jbinn_BINN_LIST then
      match iter_init (bptr b) jbinn_BINN_LIST with
      | None => None
      | Some it =>
        match (fix go (l : list bval) : option (list jval) :=
                 match l with
                 | [] => Some []
                 | x :: r =>
                   match dec_node f x with
                   | None => None
                   | Some v => match go r with None => None | Some vs => Some (v :: vs) end
                   end
                 end) (list_items (iter_fuel it) it) with
        | None => None
        | Some vs => Some (JArr vs)
        end
      end
    else create_scalar b
  end.

(* jbl_from_buf_keep + jbl_to_node on a buffer of exactly these bytes *)
Definition root_bval (bs : list Z) : option bval :=
  if zlen bs <? jbinn_MIN_BINN_SIZE then None
  else match read_hdr bs with
       | None => None
       | Some (ty, size, count, _) => if size >? zlen bs then None else Some (BV ty 0 size count bs)
       end.

Definition binn_decode (bs : list Z) : option jval :=
  match root_bval bs with
  | None => None
  | Some b => dec_node (S (length bs)) b
  end.

(* ---------------------------------------------------------------- writing *)
(* compress_int on a BINN_INT64 source: (type written, number of value bytes) *)
Definition compress_int (v : Z) : Z * nat :=
  if v >=? 0 then
    if v <=? jbinn_UINT8_MAX then (jbinn_BINN_UINT8, 1%nat)
    else if v <=? jbinn_UINT16_MAX then (jbinn_BINN_UINT16, 2%nat)
    else if v <=? jbinn_UINT32_MAX then (jbinn_BINN_UINT32, 4%nat)
    else (jbinn_BINN_INT64, 8%nat)
  else if v >=? jbinn_INT8_MIN then (jbinn_BINN_INT8, 1%nat)
  else if v >=? jbinn_INT16_MIN then (jbinn_BINN_INT16, 2%nat)
  else if v >=? jbinn_INT32_MIN then (jbinn_BINN_INT32, 4%nat)
  else (jbinn_BINN_INT64, 8%nat).

(* a size or count: one byte when <= 127, else four bytes with the top bit set *)
Definition wr_field (n : Z) : list Z :=
  if n >? 127 then be_bytes 4 (Z.lor n 2147483648) else [n].

(* binn_save_header on a container whose items occupy `body`: the bytes [ptr, ptr+size) *)
Definition save_header (ty : Z) (body : list Z) (count : Z) : option (list Z) :=
  let size0 := zlen body + jbinn_MIN_BINN_SIZE in
  let size1 := if count >? 127 then size0 + 3 else size0 in
  let size2 := if size1 >? 127 then size1 + 3 else size1 in
  if size2 >? 2147483647 then None
  else Some (ty :: wr_field size2 ++ wr_field count ++ body).

(* SearchForKey(pbuf, MAX_BINN_HEADER, used_size, count, key, keylen) over the items written so far;
   p = suffix of the item area, rem = bytes left in it, n = items left; key without its terminator *)
Fixpoint search_key (n : nat) (p : list Z) (rem : Z) (key : list Z) : bool :=
  match n with
  | O => false
  | S k =>
    match p with
    | [] => false
    | len :: p1 =>
      let r1 := rem - 1 in
      if r1 <=? 0 then false
      else
        let next (q : list Z) (r : Z) :=
          match advance q r with
          | None => false
          | Some (q', r') => search_key k q' r' key
          end in
        if len >? 0 then
          if strnieq p1 (key ++ [0]) (Z.to_nat len) && (zlen key =? len) then true
          else if r1 - len <=? 0 then false
               else next (zskip len p1) (r1 - len)
        else if len =? zlen key then true
             else next p1 r1
    end
  end.

(* what AddValue appends for the value v (after the key, inside an object), or the whole saved container when v is
   an object or an array (AddValue copies it without a separate type byte) *)
Fixpoint enc_item (v : jval) : option (list Z) :=
  match v with
  | JNull => Some [jbinn_BINN_NULL]
  | JBool b => Some [if b then jbinn_BINN_TRUE else jbinn_BINN_FALSE]
  | JI64 n => let '(t, k) := compress_int n in Some (t :: be_bytes k n)
  | JF64 bits => Some (jbinn_BINN_DOUBLE :: be_bytes 8 bits)
  | JStr s =>
    (* binn_set_string keeps strndup(str, len) and AddValue then takes strlen of it because the size is 0: the string
       is cut at its first 0 byte.  jbinn_STRING_KEEPS_NUL is probed from the code on every run (fixes/jbinn-string-
       embedded-nul.diff makes it 1: all vsize bytes are written) *)
    let s' := if jbinn_STRING_KEEPS_NUL =? 1 then s else cstr s in
    Some (jbinn_BINN_STRING :: wr_field (zlen s') ++ s' ++ [0])
  | JArr items =>
    match (fix go (l : list jval) (body : list Z) (cnt : Z) : option (list Z * Z) :=
             match l with
             | [] => Some (body, cnt)
             | x :: r => match enc_item x with
                         | None => None
                         | Some bx => go r (body ++ bx) (cnt + 1)
                         end
             end) items [] 0 with
    | None => None
    | Some (body, cnt) => save_header jbinn_BINN_LIST body cnt
    end
  | JObj ms =>
    match (fix go (l : list (list Z * jval)) (body : list Z) (cnt : Z) : option (list Z * Z) :=
             match l with
             | [] => Some (body, cnt)
             | (k, x) :: r =>
               match enc_item x with
               | None => None
               | Some bx =>
                 if zlen k >? jbinn_MAX_BIN_KEY_LEN then None
                 else if search_key (Z.to_nat cnt) body (zlen body) k then None
                 else go r (body ++ zlen k :: k ++ bx) (cnt + 1)
               end
             end) ms [] 0 with
    | None => None
    | Some (body, cnt) => save_header jbinn_BINN_OBJECT body cnt
    end
  end.

(* jbl_from_node: only objects and arrays become binary documents (IW_ERROR_INVALID_ARGS otherwise) *)
Definition binn_encode (v : jval) : option (list Z) :=
  match v with
  | JObj _ | JArr _ => enc_item v
  | _ => None
  end.

(* jbl_clone / jbl_clone_into_pool: binn_copy re-reads the header, copies the item area and saves a new header *)
Definition binn_clone (bs : list Z) : option (list Z) :=
  match read_hdr bs with
  | None => None
  | Some (ty, size, count, hs) =>
    let body := firstn (Z.to_nat (size - hs)) (zskip hs bs) in
    save_header ty body count
  end.

Definition binn_clone_into_pool (bs : list Z) : option (list Z) :=
  match read_hdr bs with
  | None => None
  | Some (_, size, _, _) => Some (zfirst size bs)
  end.

(* ---------------------------------------------------------------- well-formedness demanded by the round trip *)
Definition byte_ok (c : Z) : bool := (0 <=? c) && (c <=? 255).
Definition char_ok (c : Z) : bool := (1 <=? c) && (c <=? 255).   (* C strings cannot carry 0 *)

(* equal ignoring ASCII case, the relation SearchForKey uses to reject a member *)
Fixpoint key_ieq (a b : list Z) : bool :=
  match a, b with
  | [], [] => true
  | x :: a', y :: b' => (tolower x =? tolower y) && key_ieq a' b'
  | _, _ => false
  end.

Fixpoint keys_unique (ks : list (list Z)) : bool :=
  match ks with
  | [] => true
  | k :: r => negb (existsb (key_ieq k) r) && keys_unique r
  end.

Fixpoint wf (v : jval) : bool :=
  match v with
  | JNull | JBool _ => true
  | JI64 n => (- 2 ^ 63 <=? n) && (n <? 2 ^ 63)
  | JF64 b => (0 <=? b) && (b <? 2 ^ 64)
  | JStr s => forallb char_ok s
  | JArr items => forallb wf items
  | JObj ms =>
    forallb (fun m => forallb char_ok (fst m) && (zlen (fst m) <=? jbinn_MAX_BIN_KEY_LEN) && wf (snd m)) ms
    && keys_unique (map fst ms)
  end.
