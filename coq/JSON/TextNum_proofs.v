(* Proofs about the number scanner of the JSON text model: strtod_end (Text.v) against the RFC 8259 number grammar
   (TextNumSpec.v). *)
Require Import ZArith List Bool Lia.
Require Import IW.Lib.CInt IW.Gen.Facts IW.UT.Conv IW.JSON.Val IW.JSON.Utf8 IW.JSON.Text IW.JSON.TextSpec IW.JSON.TextNumSpec
               IW.JSON.Utf8_proofs IW.JSON.Text_proofs.
Import ListNotations.
Local Open Scope Z_scope. Local Open Scope bool_scope.

(* ================================================================ the helper loops, for every input *)
Lemma hd0_skipn : forall (p : list Z) k, hd0 (skipn k p) = at0 p k.
Proof.
  intros p k. revert p. induction k as [|k IH]; intro p; destruct p as [|c r]; try reflexivity.
  cbn [skipn]. rewrite IH. reflexivity.
Qed.

Lemma tl_skipn : forall (p : list Z) k, tl (skipn k p) = skipn (S k) p.
Proof.
  intros p k. revert p. induction k as [|k IH]; intro p; destruct p as [|c r]; try reflexivity.
  change (skipn (S k) (c :: r)) with (skipn k r). rewrite IH. reflexivity.
Qed.

Lemma skipn_S_skipn : forall (p : list Z) a b, skipn a (skipn b p) = skipn (a + b) p.
Proof.
  intros p a b. revert p. induction b as [|b IH]; intro p.
  - rewrite Nat.add_0_r. reflexivity.
  - destruct p as [|c r]; [rewrite !skipn_nil; reflexivity|].
    rewrite Nat.add_succ_r. cbn [skipn]. apply IH.
Qed.

(* each loop returns a suffix of its input together with the advanced position *)
Lemma skip_space_suffix : forall p k q k', skip_space p k = (q, k') -> (k <= k')%nat /\ q = skipn (k' - k) p.
Proof.
  induction p as [|c r IH]; intros k q k' H; cbn [skip_space] in H.
  - injection H as <- <-. rewrite Nat.sub_diag. split; [lia|reflexivity].
  - destruct (is_space c).
    + apply IH in H. destruct H as (Hle & ->). split; [lia|].
      replace (k' - k)%nat with (S (k' - S k)) by lia. reflexivity.
    + injection H as <- <-. rewrite Nat.sub_diag. split; [lia|reflexivity].
Qed.

Lemma skip_digits_suffix : forall p k q k', skip_digits p k = (q, k') ->
  (k <= k')%nat /\ q = skipn (k' - k) p /\ is_dig (hd0 q) = false.
Proof.
  induction p as [|c r IH]; intros k q k' H; cbn [skip_digits] in H.
  - injection H as <- <-. rewrite Nat.sub_diag. split; [lia|split; reflexivity].
  - destruct (is_dig c) eqn:Ec.
    + apply IH in H. destruct H as (Hle & -> & Hd). split; [lia|]. split; [|exact Hd].
      replace (k' - k)%nat with (S (k' - S k)) by lia. reflexivity.
    + injection H as <- <-. rewrite Nat.sub_diag. split; [lia|]. split; [reflexivity|exact Ec].
Qed.

Lemma skip_exp_zeros_suffix : forall p k q k', skip_exp_zeros p k = (q, k') -> (k <= k')%nat /\ q = skipn (k' - k) p.
Proof.
  induction p as [|c r IH]; intros k q k' H; cbn [skip_exp_zeros] in H.
  - injection H as <- <-. rewrite Nat.sub_diag. split; [lia|reflexivity].
  - destruct ((c =? 48) && is_dig (hd0 r)).
    + apply IH in H. destruct H as (Hle & ->). split; [lia|].
      replace (k' - k)%nat with (S (k' - S k)) by lia. reflexivity.
    + injection H as <- <-. rewrite Nat.sub_diag. split; [lia|reflexivity].
Qed.

(* ================================================================ the scanner stops in front of a non-digit, for every input *)
Theorem strtod_end_stops : forall str, (0 < strtod_end str)%nat -> is_dig (at0 str (strtod_end str)) = false.
Proof.
  intros str. unfold strtod_end.
  destruct (skip_space str 0) as [p0 k0] eqn:E0.
  apply skip_space_suffix in E0. destruct E0 as (_ & Hp0). rewrite Nat.sub_0_r in Hp0.
  set (sg := (hd0 p0 =? 45) || (hd0 p0 =? 43)).
  assert (Hp1 : exists p1 k1, (if sg then (tl p0, S k0) else (p0, k0)) = (p1, k1) /\ p1 = skipn k1 str).
  { destruct sg; eexists; eexists; (split; [reflexivity|]); subst p0; [apply tl_skipn|reflexivity]. }
  destruct Hp1 as (p1 & k1 & -> & Hp1).
  destruct (negb (is_dig (hd0 p1)) && negb (hd0 p1 =? 46)); [lia|].
  destruct (skip_digits p1 k1) as [p2 k2] eqn:E2.
  apply skip_digits_suffix in E2. destruct E2 as (Hk2 & Hp2 & Hd2).
  assert (Hp2' : p2 = skipn k2 str).
  { rewrite Hp2, Hp1, skipn_S_skipn. f_equal. lia. }
  assert (H3 : exists p3 k3 md,
            (if hd0 p2 =? 46 then let '(q, k) := skip_digits (tl p2) (S k2) in (q, k, is_dig (hd0 (tl p2))) else (p2, k2, true))
            = (p3, k3, md) /\ p3 = skipn k3 str /\ is_dig (hd0 p3) = false).
  { destruct (hd0 p2 =? 46).
    - destruct (skip_digits (tl p2) (S k2)) as [q k] eqn:Eq. apply skip_digits_suffix in Eq.
      destruct Eq as (Hk & Hq & Hdq). eexists; eexists; eexists. split; [reflexivity|]. split; [|exact Hdq].
      rewrite Hq, Hp2', tl_skipn, skipn_S_skipn. f_equal. lia.
    - eexists; eexists; eexists. split; [reflexivity|]. split; assumption. }
  destruct H3 as (p3 & k3 & md & -> & Hp3 & Hd3).
  destruct ((hd0 p3 =? 69) || (hd0 p3 =? 101)).
  - set (p4 := tl p3).
    assert (H5 : exists p5 k5, (if (hd0 p4 =? 45) || (hd0 p4 =? 43) then (tl p4, S (S k3)) else (p4, S k3)) = (p5, k5)
                               /\ p5 = skipn k5 str).
    { assert (Hp4 : p4 = skipn (S k3) str) by (unfold p4; rewrite Hp3; apply tl_skipn).
      destruct ((hd0 p4 =? 45) || (hd0 p4 =? 43)); eexists; eexists; (split; [reflexivity|]).
      - rewrite Hp4. apply tl_skipn.
      - exact Hp4. }
    destruct H5 as (p5 & k5 & -> & Hp5).
    destruct (is_dig (hd0 p5)) eqn:Ed5.
    + destruct (skip_exp_zeros p5 k5) as [p6 k6] eqn:E6.
      apply skip_exp_zeros_suffix in E6. destruct E6 as (Hk6 & Hp6).
      destruct (skip_digits (tl p6) (S k6)) as [p7 k7] eqn:E7. cbn [snd].
      apply skip_digits_suffix in E7. destruct E7 as (Hk7 & Hp7 & Hd7).
      intros _. rewrite <- hd0_skipn.
      replace (skipn k7 str) with p7; [exact Hd7|].
      rewrite Hp7, Hp6, Hp5, tl_skipn, !skipn_S_skipn. f_equal. lia.
    + destruct (negb md); [lia|]. destruct (hd0 p5 =? 0).
      * intros _. rewrite <- hd0_skipn, <- Hp3. exact Hd3.
      * intros _. rewrite <- hd0_skipn, <- Hp5. exact Ed5.
  - destruct md; [|lia]. intros _. rewrite <- hd0_skipn, <- Hp3. exact Hd3.
Qed.

(* ================================================================ RFC 8259 numbers are consumed completely *)
Lemma dchar_is_dig : forall c, dchar c -> is_dig c = true.
Proof. intros c H. unfold dchar in H. unfold is_dig. lia. Qed.

Lemma fol_nondig : forall rest, fol rest -> is_dig (hd0 rest) = false.
Proof.
  intros [|c r] H; [reflexivity|]. cbn [fol] in H. cbn [hd0]. unfold is_dig.
  destruct H as [ -> | [ -> | [ -> | [ -> | [ -> | [ -> | -> ]]]]]]; reflexivity.
Qed.

Lemma fol_hd_cases : forall rest, fol rest ->
  (hd0 rest =? 46) = false /\ (hd0 rest =? 69) = false /\ (hd0 rest =? 101) = false.
Proof.
  intros [|c r] H; [repeat split; reflexivity|]. cbn [fol] in H. cbn [hd0].
  destruct H as [ -> | [ -> | [ -> | [ -> | [ -> | [ -> | -> ]]]]]]; repeat split; reflexivity.
Qed.

Lemma skip_digits_app : forall ds tail k, Forall dchar ds -> is_dig (hd0 tail) = false ->
  skip_digits (ds ++ tail) k = (tail, (k + length ds)%nat).
Proof.
  induction ds as [|c ds IH]; intros tail k Hd Ht.
  - cbn [app length]. rewrite Nat.add_0_r. destruct tail as [|x r]; [reflexivity|].
    cbn [skip_digits]. cbn [hd0] in Ht. rewrite Ht. reflexivity.
  - inversion Hd as [|? ? Hc Hds]; subst. cbn [app skip_digits length]. rewrite (dchar_is_dig c Hc).
    rewrite IH by assumption. f_equal. lia.
Qed.

(* exponent digits: the zero-skipping loop followed by the digit loop takes all of them *)
Lemma exp_digits_all : forall ed rest, Forall dchar ed -> ed <> [] -> is_dig (hd0 rest) = false -> forall k,
  (let '(p6, k6) := skip_exp_zeros (ed ++ rest) k in snd (skip_digits (tl p6) (S k6))) = (k + length ed)%nat.
Proof.
  induction ed as [|c ed IH]; intros rest Hd Hne Hr k; [congruence|].
  inversion Hd as [|? ? Hc Hds]; subst. cbn [app skip_exp_zeros length].
  destruct ((c =? 48) && is_dig (hd0 (ed ++ rest))) eqn:Ez.
  - assert (Hed : ed <> []).
    { intros ->. cbn [app] in Ez. rewrite Hr in Ez. rewrite andb_false_r in Ez. discriminate. }
    rewrite (IH rest Hds Hed Hr (S k)). lia.
  - cbn [tl]. rewrite skip_digits_app by assumption. cbn [snd]. lia.
Qed.

Lemma hd0_app_cons : forall (a : list Z) c r, a <> [] -> hd0 (a ++ c :: r) = hd0 a.
Proof. intros [|x a] c r H; [congruence|reflexivity]. Qed.

Lemma digits1_hd : forall l tail, digits1 l -> is_dig (hd0 (l ++ tail)) = true.
Proof.
  intros [|c l] tail (Hne & Hd); [congruence|]. inversion Hd; subst. cbn [app hd0]. apply dchar_is_dig; assumption.
Qed.

Lemma not_space : forall c, c = 45 \/ dchar c -> is_space c = false.
Proof. intros c [ -> | H ]; [reflexivity|]. unfold dchar in H. unfold is_space. lia. Qed.

Lemma skip_space_none : forall c r, is_space c = false -> skip_space (c :: r) 0 = (c :: r, 0%nat).
Proof. intros c r H. cbn [skip_space]. rewrite H. reflexivity. Qed.

(* the scanner on [ minus ] 1*DIGIT [ frac ] [ exp ]; the integer part may even have leading zeros *)
Lemma strtod_end_parts : forall sg ip fr ex rest,
  minus_opt sg -> digits1 ip -> frac_opt fr -> exp_opt ex -> fol rest ->
  strtod_end ((sg ++ ip ++ fr ++ ex) ++ rest) = length (sg ++ ip ++ fr ++ ex).
Proof.
  intros sg ip fr ex rest Hsg Hip Hfr Hex Hf.
  pose proof (fol_nondig rest Hf) as Hrd. destruct (fol_hd_cases rest Hf) as (Hr46 & Hr69 & Hr101).
  destruct Hip as (Hipne & Hipd).
  destruct ip as [|d ip']; [congruence|]. inversion Hipd as [|? ? Hd Hipd']; subst.
  assert (Hdd : is_dig d = true) by (apply dchar_is_dig; exact Hd).
  (* the tail after the integer digits starts with a non-digit *)
  set (tail2 := fr ++ ex ++ rest).
  assert (Ht2 : is_dig (hd0 tail2) = false).
  { unfold tail2. destruct Hfr as [ -> | (fd & -> & _)]; [|reflexivity].
    destruct Hex as [ -> | (ec & es & ed & -> & [ -> | -> ] & _)]; [exact Hrd|reflexivity|reflexivity]. }
  set (tail3 := ex ++ rest).
  assert (Ht3 : is_dig (hd0 tail3) = false).
  { unfold tail3. destruct Hex as [ -> | (ec & es & ed & -> & [ -> | -> ] & _)]; [exact Hrd|reflexivity|reflexivity]. }
  unfold strtod_end.
  replace ((sg ++ (d :: ip') ++ fr ++ ex) ++ rest) with (sg ++ d :: ip' ++ tail2)
    by (unfold tail2; rewrite <- !app_assoc; reflexivity).
  (* white space and sign *)
  assert (Hsign : exists k1, (k1 = length sg) /\
            (let '(p0, k0) := skip_space (sg ++ d :: ip' ++ tail2) 0 in
             if (hd0 p0 =? 45) || (hd0 p0 =? 43) then (tl p0, S k0) else (p0, k0)) = (d :: ip' ++ tail2, k1)).
  { destruct Hsg as [ -> | -> ].
    - exists 0%nat. split; [reflexivity|]. cbn [app]. rewrite skip_space_none by (apply not_space; right; exact Hd).
      cbn [hd0]. unfold dchar in Hd. replace (d =? 45) with false by lia. replace (d =? 43) with false by lia. reflexivity.
    - exists 1%nat. split; [reflexivity|]. cbn [app]. rewrite skip_space_none by reflexivity. reflexivity. }
  destruct Hsign as (k1 & Hk1 & Hsign).
  destruct (skip_space (sg ++ d :: ip' ++ tail2) 0) as [p0 k0].
  rewrite Hsign. cbn [hd0]. rewrite Hdd. cbn [negb andb].
  change (d :: ip' ++ tail2) with ((d :: ip') ++ tail2).
  rewrite skip_digits_app by assumption.
  (* fraction *)
  assert (H3 : exists k3, k3 = (k1 + length (d :: ip') + length fr)%nat /\
            (if hd0 tail2 =? 46
             then let '(q, k) := skip_digits (tl tail2) (S (k1 + length (d :: ip'))) in (q, k, is_dig (hd0 (tl tail2)))
             else (tail2, (k1 + length (d :: ip'))%nat, true)) = (tail3, k3, true)).
  { unfold tail2, tail3. destruct Hfr as [ -> | (fd & -> & Hfd)].
    - eexists. split; [reflexivity|]. cbn [app length]. rewrite Nat.add_0_r.
      replace (hd0 (ex ++ rest) =? 46) with false; [reflexivity|].
      destruct Hex as [ -> | (ec & es & ed & -> & [ -> | -> ] & _)]; [symmetry; exact Hr46|reflexivity|reflexivity].
    - eexists. split; [reflexivity|]. cbn [app hd0 tl]. cbn [Z.eqb Pos.eqb].
      destruct Hfd as (Hfdne & Hfdd). rewrite skip_digits_app by assumption.
      rewrite (digits1_hd fd (ex ++ rest) (conj Hfdne Hfdd)). cbn [length]. f_equal. f_equal. lia. }
  destruct H3 as (k3 & Hk3 & ->).
  (* exponent *)
  unfold tail3. destruct Hex as [ -> | (ec & es & ed & -> & Hec & Hes & Hed)].
  - cbn [app]. rewrite Hr69, Hr101. cbn [orb]. rewrite Hk3, Hk1. repeat (rewrite ?app_length; cbn [length]). lia.
  - cbn [app hd0 tl]. replace ((ec =? 69) || (ec =? 101)) with true by (destruct Hec as [ -> | -> ]; reflexivity).
    assert (H5 : exists k5, k5 = (S k3 + length es)%nat /\
              (if (hd0 ((es ++ ed) ++ rest) =? 45) || (hd0 ((es ++ ed) ++ rest) =? 43)
               then (tl ((es ++ ed) ++ rest), S (S k3)) else ((es ++ ed) ++ rest, S k3)) = (ed ++ rest, k5)).
    { destruct Hes as [ -> | [ -> | -> ]].
      - eexists. split; [reflexivity|]. cbn [app length]. rewrite Nat.add_0_r.
        pose proof (digits1_hd ed rest Hed) as Hh. unfold is_dig in Hh.
        replace (hd0 (ed ++ rest) =? 45) with false by lia. replace (hd0 (ed ++ rest) =? 43) with false by lia. reflexivity.
      - eexists. split; [reflexivity|]. cbn [app hd0 tl length Z.eqb Pos.eqb orb]. f_equal. lia.
      - eexists. split; [reflexivity|]. cbn [app hd0 tl length Z.eqb Pos.eqb orb]. f_equal. lia. }
    destruct H5 as (k5 & Hk5 & ->).
    rewrite (digits1_hd ed rest Hed).
    destruct Hed as (Hedne & Hedd).
    rewrite (exp_digits_all ed rest Hedd Hedne Hrd k5).
    rewrite Hk5, Hk3, Hk1. repeat (rewrite ?app_length; cbn [length]). lia.
Qed.

Lemma int_part_digits1 : forall ip, int_part ip -> digits1 ip.
Proof.
  intros ip [ -> | (d & r & -> & Hd & Hr)].
  - split; [discriminate|]. constructor; [unfold dchar; lia|constructor].
  - split; [discriminate|]. constructor; [unfold dchar; lia|exact Hr].
Qed.

Theorem strtod_end_number : forall t rest, number_tok t -> fol rest -> strtod_end (t ++ rest) = length t.
Proof.
  intros t rest (sg & ip & fr & ex & -> & Hsg & Hip & Hfr & Hex) Hf.
  apply strtod_end_parts; try assumption. apply int_part_digits1; exact Hip.
Qed.

(* ================================================================ the parser on a number with a fraction or an exponent *)
Lemma dchar_isdig : forall l, Forall dchar l -> Forall isdig l.
Proof. intros l H. exact H. Qed.

(* strtoll(p, &pe, 0) in front of '.', 'e', 'E': pe is right after the integer part, however long it is *)
Lemma strtoll_int_part : forall sg ip tail, minus_opt sg -> int_part ip ->
  (hd0 tail = 46 \/ hd0 tail = 101 \/ hd0 tail = 69) ->
  exists v er, strtoll0 (sg ++ ip ++ tail) = (v, (length sg + length ip)%nat, er).
Proof.
  intros sg ip tail Hsg Hip Ht.
  assert (Hnd : forall base a k, (base = 8 \/ base = 10) -> ll_digits base tail a k = (a, k)).
  { intros base a k Hb. destruct tail as [|c r]; [reflexivity|]. cbn [hd0] in Ht. cbn [ll_digits].
    replace (digit_val base c <? 0) with true; [reflexivity|].
    destruct Hb as [ -> | -> ]; destruct Ht as [ -> | [ -> | -> ]]; reflexivity. }
  assert (Hx : (hd0 tail =? 120) || (hd0 tail =? 88) = false) by (destruct Ht as [ -> | [ -> | -> ]]; reflexivity).
  assert (Hcore : forall (neg : bool) ks, exists v er,
            (let '(base, s2, kp) := if hd0 (ip ++ tail) =? 48
                 then if (at0 (ip ++ tail) 1 =? 120) || (at0 (ip ++ tail) 1 =? 88)
                      then (16, skipn 2 (ip ++ tail), 2%nat) else (8, ip ++ tail, 0%nat)
                 else (10, ip ++ tail, 0%nat) in
             let '(n0, kd) := ll_digits base s2 0 0 in
             match kd with
             | O => match kp with O => (0, O, false) | _ => (0, S ks, false) end
             | _ => let v := if neg then - n0 else n0 in
                    let k := (ks + kp + kd)%nat in
                    if v <? - 2 ^ 63 then (- 2 ^ 63, k, true)
                    else if v >? 2 ^ 63 - 1 then (2 ^ 63 - 1, k, true) else (v, k, false)
             end) = (v, (ks + length ip)%nat, er)).
  { intros neg ks. destruct Hip as [ -> | (d & r & -> & Hd & Hr)].
    - cbn [app hd0 Z.eqb Pos.eqb].
      replace (at0 (48 :: tail) 1) with (hd0 tail) by (destruct tail; reflexivity).
      rewrite Hx. cbn [ll_digits]. change (digit_val 8 48) with 0. cbv zeta. change (0 <? 0) with false. cbv iota.
      rewrite Hnd by (left; reflexivity). cbv beta iota zeta.
      replace (ks + 0 + 1)%nat with (ks + length [48])%nat by (cbn [length]; lia).
      destruct neg; cbn [Z.opp]; eexists; eexists; reflexivity.
    - cbn [app hd0]. replace (d =? 48) with false by lia. cbv beta iota.
      change (d :: r ++ tail) with ((d :: r) ++ tail).
      rewrite ll_digits_app by (constructor; [unfold isdig; lia|exact Hr]).
      rewrite Hnd by (right; reflexivity). cbn [length Nat.add]. cbv beta iota zeta.
      replace (ks + 0 + S (length r))%nat with (ks + S (length r))%nat by lia.
      destruct (_ <? _); [eexists; eexists; reflexivity|]. destruct (_ >? _); eexists; eexists; reflexivity. }
  unfold strtoll0. destruct Hsg as [ -> | -> ].
  - cbn [app length Nat.add].
    assert (Hh : exists c t, ip ++ tail = c :: t /\ dchar c).
    { destruct Hip as [ -> | (d & r & -> & Hd & Hr)]; eexists; eexists; (split; [reflexivity|]); unfold dchar; lia. }
    destruct Hh as (c & t & Hct & Hc). rewrite Hct.
    rewrite skip_space_none by (apply not_space; right; exact Hc). cbn [hd0]. unfold dchar in Hc.
    replace (c =? 45) with false by lia. replace (c =? 43) with false by lia. rewrite <- Hct.
    exact (Hcore false 0%nat).
  - cbn [app length]. rewrite skip_space_none by reflexivity. cbn [hd0 tl Z.eqb Pos.eqb].
    exact (Hcore true 1%nat).
Qed.

Section FloatTok.
  Variable ora : list Z -> Z * nat * bool.

  Lemma float_tail : forall fr ex rest, frac_opt fr -> exp_opt ex -> (fr <> [] \/ ex <> []) ->
    hd0 (fr ++ ex ++ rest) = 46 \/ hd0 (fr ++ ex ++ rest) = 101 \/ hd0 (fr ++ ex ++ rest) = 69.
  Proof.
    intros fr ex rest Hfr Hex Hne.
    destruct Hfr as [ -> | (fd & -> & _)]; [|left; reflexivity].
    destruct Hex as [ -> | (ec & es & ed & -> & [ -> | -> ] & _)]; [destruct Hne; congruence|right; left; reflexivity|right; right; reflexivity].
  Qed.

  (* accepted unless iwstrtod reports ERANGE; the value is iwstrtod's; the parser continues right after the number *)
  Lemma parse_number_float : forall t rest, float_tok t -> fol rest -> snd (ora (t ++ rest)) = false ->
    parse_number ora (t ++ rest) = Ok (Some (JF64 (fst (fst (ora (t ++ rest))))), rest).
  Proof.
    intros t rest (sg & ip & fr & ex & Ht & (Hsg & Hip & Hfr & Hex) & Hne) Hf Her.
    assert (Hend : strtod_end (t ++ rest) = length t).
    { apply strtod_end_number; [|exact Hf]. exists sg, ip, fr, ex. repeat split; assumption. }
    assert (Hlen : length t = (length sg + length ip + length (fr ++ ex))%nat) by (subst t; rewrite !app_length; lia).
    assert (Hipne : (0 < length ip)%nat).
    { destruct Hip as [ -> | (d & r & -> & _)]; cbn [length]; lia. }
    pose proof (float_tail fr ex rest Hfr Hex Hne) as Htail.
    destruct (strtoll_int_part sg ip (fr ++ ex ++ rest) Hsg Hip Htail) as (v & er & Hll).
    assert (Hh : (hd0 (t ++ rest) =? 46) = false).
    { subst t. destruct Hsg as [ -> | -> ]; [|reflexivity].
      destruct Hip as [ -> | (d & r & -> & Hd & _)]; cbn [app hd0]; [reflexivity|lia]. }
    unfold parse_number. rewrite Hh.
    replace (t ++ rest) with (sg ++ ip ++ fr ++ ex ++ rest) at 1 by (subst t; rewrite <- !app_assoc; reflexivity).
    rewrite Hll.
    replace (Nat.eqb (length sg + length ip) 0) with false by (symmetry; apply Nat.eqb_neq; lia).
    cbn [negb andb].
    replace (skipn (length sg + length ip) (t ++ rest)) with (fr ++ ex ++ rest).
    2: { subst t. rewrite <- app_length.
         replace ((sg ++ ip ++ fr ++ ex) ++ rest) with ((sg ++ ip) ++ fr ++ ex ++ rest) by (rewrite <- !app_assoc; reflexivity).
         rewrite skipn_app_len. reflexivity. }
    replace (er || (hd0 (fr ++ ex ++ rest) =? 46) || (hd0 (fr ++ ex ++ rest) =? 101) || (hd0 (fr ++ ex ++ rest) =? 69)
             || (hd0 (fr ++ ex ++ rest) =? 45) || (hd0 (fr ++ ex ++ rest) =? 43)) with true
      by (destruct er; [reflexivity|]; destruct Htail as [ -> | [ -> | -> ]]; reflexivity).
    destruct (ora (t ++ rest)) as [[bits kk] erf]. cbn [fst snd] in *. subst erf.
    rewrite Hend. replace (Nat.eqb (length t) 0) with false by (symmetry; apply Nat.eqb_neq; lia).
    cbn [orb]. rewrite skipn_app_len. reflexivity.
  Qed.

  Lemma parse_value_float : forall t rest w lvl fuel, float_tok t -> fol rest -> snd (ora (t ++ rest)) = false ->
    vws w -> 0 <= lvl <= JBL_MAX_NESTING_LEVEL -> (1 <= fuel)%nat ->
    parse_value ora fuel lvl (w ++ t ++ rest) = Ok (Some (JF64 (fst (fst (ora (t ++ rest))))), rest).
  Proof.
    intros t rest w lvl fuel Ht Hf Her Hw Hl Hfu.
    pose proof (parse_number_float t rest Ht Hf Her) as Hnum.
    assert (Hc : exists c t', t = c :: t' /\ (c = 45 \/ isdig c)).
    { destruct Ht as (sg & ip & fr & ex & -> & (Hsg & Hip & _) & _).
      destruct Hsg as [ -> | -> ]; [|eexists; eexists; split; [reflexivity|left; reflexivity]].
      destruct Hip as [ -> | (d & r & -> & Hd & _)]; eexists; eexists; (split; [reflexivity|right; unfold isdig; lia]). }
    destruct Hc as (c & t' & -> & Hc).
    destruct fuel as [|f]; [lia|]. rewrite parse_value_S.
    replace (lvl >? JBL_MAX_NESTING_LEVEL) with false by lia. cbv zeta.
    cbn [app]. rewrite skip_vws_app; [|assumption|unfold is_vws, isdig in *; lia].
    change (c :: t' ++ rest) with ((c :: t') ++ rest). unfold isdig in Hc.
    replace (c =? 0) with false by lia. replace (c =? 110) with false by lia. replace (c =? 116) with false by lia.
    replace (c =? 102) with false by lia. replace (c =? 39) with false by lia. replace (c =? 34) with false by lia.
    replace (c =? 123) with false by lia. replace (c =? 91) with false by lia. replace (c =? 93) with false by lia.
    replace ((c =? 46) || (c =? 45) || ((48 <=? c) && (c <=? 57))) with true by lia.
    exact Hnum.
  Qed.
End FloatTok.
