(* Reference grammar of RFC 8259 numbers (section 6), as lists of bytes.  No code of the library is mentioned here.
     number = [ minus ] int [ frac ] [ exp ]      int = zero / ( digit1-9 *DIGIT )
     frac   = decimal-point 1*DIGIT               exp = e [ minus / plus ] 1*DIGIT                       *)
Require Import ZArith List.
Import ListNotations.
Local Open Scope Z_scope.

Definition dchar (c : Z) : Prop := 48 <= c <= 57.
Definition digits1 (l : list Z) : Prop := l <> [] /\ Forall dchar l.                       (* 1*DIGIT *)
Definition minus_opt (s : list Z) : Prop := s = [] \/ s = [45].
Definition int_part (l : list Z) : Prop :=
  l = [48] \/ exists d r, l = d :: r /\ 49 <= d <= 57 /\ Forall dchar r.
Definition frac_opt (l : list Z) : Prop := l = [] \/ exists fd, l = 46 :: fd /\ digits1 fd.
Definition exp_opt (l : list Z) : Prop :=
  l = [] \/ exists ec es ed, l = ec :: es ++ ed /\ (ec = 101 \/ ec = 69) /\ (es = [] \/ es = [43] \/ es = [45]) /\ digits1 ed.

(* the four parts of a number text *)
Definition number_parts (sg ip fr ex : list Z) : Prop := minus_opt sg /\ int_part ip /\ frac_opt fr /\ exp_opt ex.
Definition number_tok (t : list Z) : Prop :=
  exists sg ip fr ex, t = sg ++ ip ++ fr ++ ex /\ number_parts sg ip fr ex.
(* a number with a fraction or an exponent: held as a double by the library whatever its digits are *)
Definition float_tok (t : list Z) : Prop :=
  exists sg ip fr ex, t = sg ++ ip ++ fr ++ ex /\ number_parts sg ip fr ex /\ (fr <> [] \/ ex <> []).
