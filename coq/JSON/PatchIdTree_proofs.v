(* C15, deepening round: node identities stay unique - "the tree is a tree".  Accounting by multisets of ids: the ids of the result
   are a sub-multiset of (ids of the document ++ ids of the operand values ++ ids allocated by the call). *)
Require Import ZArith List Bool Lia Permutation.
Require Import IW.Lib.CInt IW.UT.Conv IW.JSON.Val IW.JSON.Patch IW.JSON.PatchSpec IW.JSON.Patch_proofs IW.JSON.PatchId IW.JSON.PatchId_proofs
               IW.Gen.Facts.
Import ListNotations. Local Open Scope Z_scope. Local Open Scope bool_scope.

(* ------------------------------------------------------------------ sub-multisets *)
Definition sub (l m : list Z) : Prop := exists rest, Permutation (l ++ rest) m.

Lemma sub_refl : forall l, sub l l. Proof. intro l. exists []. rewrite app_nil_r. apply Permutation_refl. Qed.
Lemma sub_perm : forall l m, Permutation l m -> sub l m. Proof. intros l m P. exists []. rewrite app_nil_r. exact P. Qed.
Lemma sub_trans : forall a b c, sub a b -> sub b c -> sub a c.
Proof.
  intros a b c [r1 P1] [r2 P2]. exists (r1 ++ r2). rewrite app_assoc.
  eapply Permutation_trans; [apply Permutation_app_tail; exact P1 | exact P2].
Qed.
Lemma sub_app : forall a b m1 m2, sub a m1 -> sub b m2 -> sub (a ++ b) (m1 ++ m2).
Proof.
  intros a b m1 m2 [r1 P1] [r2 P2]. exists (r1 ++ r2).
  eapply Permutation_trans; [|apply Permutation_app; [exact P1 | exact P2]].
  rewrite <- !app_assoc. apply Permutation_app_head. rewrite !app_assoc. apply Permutation_app_tail. apply Permutation_app_comm.
Qed.
Lemma sub_app_l : forall a m x, sub a m -> sub a (m ++ x).
Proof. intros a m x [r P]. exists (r ++ x). rewrite app_assoc. apply Permutation_app_tail. exact P. Qed.
Lemma sub_app_r : forall a m x, sub a m -> sub a (x ++ m).
Proof. intros a m x S. eapply sub_trans; [apply (sub_app_l a m x S)|]. apply sub_perm. apply Permutation_app_comm. Qed.
Lemma sub_cons : forall x a m, sub a m -> sub (x :: a) (x :: m).
Proof. intros x a m [r P]. exists r. cbn [app]. apply perm_skip. exact P. Qed.
Lemma sub_nil : forall m, sub [] m. Proof. intro m. exists m. apply Permutation_refl. Qed.
Lemma sub_drop : forall x a m, sub a m -> sub a (x :: m).
Proof. intros x a m S. change (x :: m) with ([x] ++ m). apply sub_app_r. exact S. Qed.
Lemma nodup_app_l : forall (l r : list Z), NoDup (l ++ r) -> NoDup l.
Proof.
  induction l as [|x l IH]; intros r N; [constructor|]. cbn [app] in N. inversion N as [|? ? NI N2]; subst.
  constructor; [intro I; apply NI; apply in_or_app; left; exact I | eapply IH; exact N2].
Qed.
Lemma sub_nodup : forall l m, NoDup m -> sub l m -> NoDup l.
Proof.
  intros l m N [r P]. apply Permutation_sym in P. pose proof (Permutation_NoDup P N) as N2.
  eapply nodup_app_l. exact N2.
Qed.
Lemma sub_in : forall l m x, sub l m -> In x l -> In x m.
Proof. intros l m x [r P] I. eapply Permutation_in; [exact P|]. apply in_or_app. left. exact I. Qed.
Ltac sperm := apply sub_perm.

(* ------------------------------------------------------------------ ids of the primitive steps *)
Definition kids (n : inode) : list Z := flat_map i_ids (i_ch n).
Lemma ids_unfold : forall n, i_ids n = i_id n :: kids n. Proof. intros []; reflexivity. Qed.
Lemma ids_set_kl : forall n k, i_ids (iset_kl n k) = i_ids n. Proof. intros [] k; reflexivity. Qed.
Lemma ids_set_key : forall n k, i_ids (iset_key n k) = i_ids n. Proof. intros [] k; reflexivity. Qed.
Lemma ids_set_par : forall p n, i_ids (iset_par p n) = i_ids n. Proof. intros p []; reflexivity. Qed.
Lemma id_set_ch : forall n c, i_id (iset_ch n c) = i_id n. Proof. intros [] c; reflexivity. Qed.
Lemma id_set_kl : forall n k, i_id (iset_kl n k) = i_id n. Proof. intros [] k; reflexivity. Qed.
Lemma id_set_key : forall n k, i_id (iset_key n k) = i_id n. Proof. intros [] k; reflexivity. Qed.
Lemma id_set_par : forall p n, i_id (iset_par p n) = i_id n. Proof. intros p []; reflexivity. Qed.
Lemma ids_set_ch : forall n c, i_ids (iset_ch n c) = i_id n :: flat_map i_ids c. Proof. intros [] c; reflexivity. Qed.

Lemma flat_map_ids_ext : forall (f : inode -> inode) l, (forall x, i_ids (f x) = i_ids x) -> flat_map i_ids (map f l) = flat_map i_ids l.
Proof. intros f l H. induction l as [|x r IH]; [reflexivity|]. cbn [map flat_map]. rewrite H, IH. reflexivity. Qed.

Lemma kids_split : forall l i c, nth_error l i = Some c ->
  flat_map i_ids l = flat_map i_ids (firstn i l) ++ i_ids c ++ flat_map i_ids (skipn (S i) l).
Proof.
  intros l i c H. rewrite (nth_split _ _ _ _ H) at 1. rewrite flat_map_app. cbn [flat_map]. reflexivity.
Qed.

Lemma ids_set_child : forall n i c', i_ids (iset_child n i c') =
  i_id n :: flat_map i_ids (firstn i (i_ch n)) ++ i_ids c' ++ flat_map i_ids (skipn (S i) (i_ch n)).
Proof. intros n i c'. unfold iset_child. rewrite ids_set_ch, flat_map_app. reflexivity. Qed.

(* replacing child i: what the new child holds beyond the old one is what the whole node holds beyond the old node *)
Lemma sub_set_child : forall n i c c' X, nth_error (i_ch n) i = Some c -> sub (i_ids c') (i_ids c ++ X) ->
  sub (i_ids (iset_child n i c')) (i_ids n ++ X).
Proof.
  intros n i c c' X N S. rewrite ids_set_child, (ids_unfold n). unfold kids. rewrite (kids_split _ _ _ N).
  cbn [app]. apply sub_cons. rewrite <- !app_assoc.
  apply sub_app; [apply sub_refl|].
  eapply sub_trans; [apply sub_app; [exact S | apply sub_refl]|].
  sperm. rewrite <- !app_assoc. apply Permutation_app_head. apply Permutation_app_comm.
Qed.

Lemma ids_add_item : forall p c, i_ids (iadd_item p c) = i_ids p ++ i_ids c.
Proof.
  intros p c. unfold iadd_item. rewrite ids_set_ch, flat_map_app. cbn [flat_map]. rewrite app_nil_r, (ids_unfold p). unfold kids.
  cbn [app]. f_equal. f_equal. destruct (i_ty p); rewrite ?ids_set_key, ?ids_set_kl, ids_set_par; reflexivity.
Qed.

Lemma ids_dec_kl : forall n, i_ids (idec_kl n) = i_ids n. Proof. intro n. apply ids_set_kl. Qed.
Lemma ids_inc_kl : forall n, i_ids (iinc_kl n) = i_ids n. Proof. intro n. apply ids_set_kl. Qed.

Lemma ids_remove_item : forall p i c, nth_error (i_ch p) i = Some c ->
  Permutation (i_ids (iremove_item p i) ++ i_ids c) (i_ids p).
Proof.
  intros p i c N. unfold iremove_item. rewrite ids_set_ch, (ids_unfold p). unfold kids. rewrite (kids_split _ _ _ N).
  rewrite flat_map_app.
  assert (E : flat_map i_ids (match i_ty p with TArr => map idec_kl (skipn (S i) (i_ch p)) | _ => skipn (S i) (i_ch p) end) =
              flat_map i_ids (skipn (S i) (i_ch p))).
  { destruct (i_ty p); try reflexivity. apply flat_map_ids_ext. apply ids_dec_kl. }
  rewrite E. cbn [app]. apply perm_skip. rewrite <- !app_assoc. apply Permutation_app_head. apply Permutation_app_comm.
Qed.

Lemma ids_copy_data : forall rp t v, i_ids (icopy_data rp t v) = i_id t :: kids v.
Proof.
  intros rp [] []. unfold kids. cbn [icopy_data i_ids i_id i_ch]. destruct rp; [|reflexivity].
  f_equal. apply flat_map_ids_ext. intro x. apply ids_set_par.
Qed.
Lemma sub_copy_data : forall rp t v, sub (i_ids (icopy_data rp t v)) (i_ids t ++ i_ids v).
Proof.
  intros rp t v. rewrite ids_copy_data, (ids_unfold t), (ids_unfold v). cbn [app]. apply sub_cons.
  apply sub_app_r. apply sub_drop. apply sub_refl.
Qed.

Lemma ids_increment : forall fo c v, i_ids (snd (i_increment fo c v)) = i_ids c.
Proof.
  intros fo [ci cp ckl ck cty cvi cvs cch] v. unfold i_increment.
  destruct (increment fo (iforget (INode ci cp ckl ck cty cvi cvs cch)) (iforget v)) as [r [kl k ty vi vs ch]]. reflexivity.
Qed.

(* ------------------------------------------------------------------ fresh identities *)
Fixpoint zseq (a : Z) (n : nat) : list Z := match n with O => [] | S k => a :: zseq (a + 1) k end.
Lemma zseq_app : forall n m a, zseq a (n + m) = zseq a n ++ zseq (a + Z.of_nat n) m.
Proof.
  induction n as [|n IH]; intros m a.
  - cbn [zseq Nat.add app]. replace (a + Z.of_nat 0) with a by lia. reflexivity.
  - cbn [zseq Nat.add app]. rewrite IH. f_equal. f_equal. f_equal. lia.
Qed.
Lemma zseq_in : forall n a x, In x (zseq a n) <-> a <= x < a + Z.of_nat n.
Proof.
  induction n as [|n IH]; intros a x; cbn [zseq In].
  - split; [contradiction | lia].
  - rewrite IH. lia.
Qed.
Lemma zseq_nodup : forall n a, NoDup (zseq a n).
Proof.
  induction n as [|n IH]; intro a; cbn [zseq]; constructor; [|apply IH]. rewrite zseq_in. lia.
Qed.
Definition fresh (lo hi : Z) : list Z := zseq lo (Z.to_nat (hi - lo)).
Lemma fresh_nil : forall a, fresh a a = []. Proof. intro a. unfold fresh. rewrite Z.sub_diag. reflexivity. Qed.
Lemma fresh_app : forall a b c, a <= b -> b <= c -> fresh a c = fresh a b ++ fresh b c.
Proof.
  intros a b c H1 H2. unfold fresh. replace (Z.to_nat (c - a)) with (Z.to_nat (b - a) + Z.to_nat (c - b))%nat by lia.
  rewrite zseq_app. f_equal. f_equal. lia.
Qed.
Lemma fresh_one : forall a, fresh a (a + 1) = [a].
Proof. intro a. unfold fresh. replace (a + 1 - a) with 1 by lia. reflexivity. Qed.
Lemma fresh_in : forall a b x, In x (fresh a b) -> a <= x < b.
Proof. intros a b x H. unfold fresh in H. apply zseq_in in H. lia. Qed.

Fixpoint isize (n : inode) : nat := match n with INode _ _ _ _ _ _ _ ch => S (list_sum (map isize ch)) end.

Lemma relabel_list_ids : forall l, Forall (fun c => forall nx pr, fst (relabel nx pr c) = nx + Z.of_nat (isize c) /\
                                                                  i_ids (snd (relabel nx pr c)) = zseq nx (isize c)) l ->
  forall nx me, fst (relabel_list nx me l) = nx + Z.of_nat (list_sum (map isize l)) /\
                flat_map i_ids (snd (relabel_list nx me l)) = zseq nx (list_sum (map isize l)).
Proof.
  induction l as [|c r IH]; intros F nx me.
  - cbn. split; [lia | reflexivity].
  - inversion F as [|? ? Fc Fr]; subst. cbn [relabel_list map].
    change (list_sum (isize c :: map isize r)) with (isize c + list_sum (map isize r))%nat.
    destruct (Fc nx me) as [E1 E2]. destruct (relabel nx me c) as [nx1 c']. cbn [fst snd] in E1, E2.
    destruct (IH Fr nx1 me) as [E3 E4]. destruct (relabel_list nx1 me r) as [nx2 r']. cbn [fst snd] in *.
    split; [rewrite E3, E1; lia|]. cbn [flat_map]. rewrite E2, E4, zseq_app. rewrite E1. reflexivity.
Qed.

Lemma relabel_ids : forall n nx pr, fst (relabel nx pr n) = nx + Z.of_nat (isize n) /\ i_ids (snd (relabel nx pr n)) = zseq nx (isize n).
Proof.
  induction n as [i p kl k ty vi vs ch IH] using inode_ind'. intros nx pr. rewrite relabel_unfold.
  destruct (relabel_list_ids ch IH (nx + 1) nx) as [E1 E2].
  destruct (relabel_list (nx + 1) nx ch) as [nx' ch']. cbn [fst snd] in *. cbn [isize i_ids zseq].
  split; [rewrite E1; lia | rewrite E2; reflexivity].
Qed.

Lemma clone_fresh : forall next par v, next <= fst (i_clone next par v) /\
  i_ids (snd (i_clone next par v)) = fresh next (fst (i_clone next par v)).
Proof.
  intros next par v. unfold i_clone. destruct (relabel_ids (embed (clone (iforget v))) next par) as [E1 E2].
  rewrite E1, E2. split; [lia|]. unfold fresh. f_equal. lia.
Qed.

(* ------------------------------------------------------------------ detach, insertion *)
Lemma detach_ids : forall p n n' d, i_detach n p = Some (n', d) -> Permutation (i_ids n' ++ i_ids d) (i_ids n).
Proof.
  induction p as [|s r IH]; intros n n' d H; [discriminate|].
  cbn [i_detach] in H. destruct (ichild_pos n s) as [i|]; [|discriminate].
  destruct (nth_error (i_ch n) i) as [c|] eqn:N; [|discriminate].
  destruct r as [|s2 r'].
  - inversion H; subst. rewrite ids_set_par. apply ids_remove_item. exact N.
  - destruct (i_detach c (s2 :: r')) as [[c' d']|] eqn:D; [|discriminate]. inversion H; subst.
    pose proof (IH c c' d D) as P.
    rewrite ids_set_child, (ids_unfold n). unfold kids. rewrite (kids_split _ _ _ N). cbn [app]. apply perm_skip.
    rewrite <- !app_assoc. apply Permutation_app_head.
    eapply Permutation_trans; [|apply Permutation_app_tail; exact P].
    rewrite <- !app_assoc. apply Permutation_app_head. apply Permutation_app_comm.
Qed.

Lemma put_here_ids : forall rp fo k p s v, sub (i_ids (snd (i_put_here rp fo k p s v))) (i_ids p ++ i_ids v).
Proof.
  intros rp fo k p s v. unfold i_put_here.
  assert (KEEP : sub (i_ids p) (i_ids p ++ i_ids v)) by (apply sub_app_l; apply sub_refl).
  assert (INC : forall i c, nth_error (i_ch p) i = Some c ->
                 sub (i_ids (snd (let '(r, c') := i_increment fo c v in (r, iset_child p i c')))) (i_ids p ++ i_ids v)).
  { intros i c N. pose proof (ids_increment fo c v) as E. destruct (i_increment fo c v) as [r c']. cbn [snd] in *.
    apply sub_app_l. replace (i_ids p) with (i_ids p ++ []) by apply app_nil_r.
    apply (sub_set_child p i c c' [] N). rewrite E, app_nil_r. apply sub_refl. }
  destruct (i_ty p); try exact KEEP.
  - destruct (ichild_pos p s) as [i|].
    + destruct (nth_error (i_ch p) i) as [c|] eqn:N; [|exact KEEP].
      destruct (op_eqb k OIncrement); [apply (INC i c N)|]. cbn [snd].
      apply (sub_set_child p i c _ (i_ids v) N). apply sub_copy_data.
    + destruct (op_eqb k OIncrement); [exact KEEP|]. cbn [snd]. rewrite ids_add_item, ids_set_kl, ids_set_key. apply sub_refl.
  - destruct (op_eqb k OIncrement).
    + destruct (ichild_pos p s) as [i|]; [|exact KEEP]. destruct (nth_error (i_ch p) i) as [c|] eqn:N; [|exact KEEP]. apply (INC i c N).
    + destruct (is_dash s); [cbn [snd]; rewrite ids_add_item; apply sub_refl|].
      destruct (arr_index s) as [idx|]; [|exact KEEP].
      destruct ((idx >? Z.of_nat (length (i_ch p))) || (idx <? 0)); [exact KEEP|].
      destruct (idx <? Z.of_nat (length (i_ch p))); cbn [snd].
      * rewrite ids_set_ch, flat_map_app. cbn [flat_map]. rewrite ids_set_par, ids_set_kl.
        rewrite (flat_map_ids_ext iinc_kl _ ids_inc_kl). rewrite (ids_unfold p). unfold kids.
        rewrite <- (firstn_skipn (Z.to_nat idx) (i_ch p)) at 3. rewrite flat_map_app. cbn [app]. apply sub_cons.
        sperm. rewrite <- !app_assoc. apply Permutation_app_head. apply Permutation_app_comm.
      * rewrite ids_add_item, ids_set_kl. apply sub_refl.
Qed.

Lemma put_ids : forall rp fo k v p n r n', i_put rp fo k n p v = Some (r, n') -> sub (i_ids n') (i_ids n ++ i_ids v).
Proof.
  intros rp fo k v. induction p as [|s r0 IH]; intros n r n' H.
  - simpl in H. inversion H; subst. apply sub_app_l. apply sub_refl.
  - cbn [i_put] in H. destruct r0 as [|s2 r'].
    + inversion H as [E]. pose proof (put_here_ids rp fo k n s v) as P. rewrite E in P. exact P.
    + destruct (ichild_pos n s) as [i|]; [|discriminate]. destruct (nth_error (i_ch n) i) as [c|] eqn:N; [|discriminate].
      destruct (i_put rp fo k c (s2 :: r') v) as [[rc0 c']|] eqn:P; [|discriminate]. inversion H; subst.
      apply (sub_set_child n i c c' (i_ids v) N). eapply IH. exact P.
Qed.

Lemma add_item_last : forall n q, exists q', nth_error (i_ch (iadd_item n q)) (length (i_ch n)) = Some q' /\ i_ids q' = i_ids q.
Proof.
  intros n q. unfold iadd_item. rewrite i_ch_set_ch. rewrite nth_error_app2 by lia. rewrite Nat.sub_diag. cbn [nth_error].
  eexists. split; [reflexivity|]. destruct (i_ty n); rewrite ?ids_set_key, ?ids_set_kl, ids_set_par; reflexivity.
Qed.

Lemma create_ids : forall rp fo v p next n,
  next <= fst (i_create rp fo next n p v) /\
  sub (i_ids (snd (snd (i_create rp fo next n p v)))) (i_ids n ++ i_ids v ++ fresh next (fst (i_create rp fo next n p v))).
Proof.
  intros rp fo v. induction p as [|s r IH]; intros next n.
  - cbn [i_create fst snd]. split; [lia|]. apply sub_app_l. apply sub_refl.
  - cbn [i_create]. destruct r as [|s2 r'].
    + cbn [fst snd]. split; [lia|]. rewrite fresh_nil, app_nil_r. apply put_here_ids.
    + destruct (ichild_pos n s) as [i|].
      * destruct (nth_error (i_ch n) i) as [c|] eqn:N; [|cbn [fst snd]; split; [lia | apply sub_app_l; apply sub_refl]].
        destruct (i_ty c); try (cbn [fst snd]; split; [lia | apply sub_app_l; apply sub_refl]).
        specialize (IH next c). destruct (i_create rp fo next c (s2 :: r') v) as [nx [rc0 c']]. cbn [fst snd] in *.
        destruct IH as [I1 I2]. split; [exact I1|]. apply (sub_set_child n i c c' _ N). exact I2.
      * cbv zeta. set (pn := INode next 0 (Z.of_nat (length s)) s TObj 0 [] []).
        destruct (add_item_last n pn) as [pn1 [A1 A2]]. rewrite A1.
        specialize (IH (next + 1) pn1). destruct (i_create rp fo (next + 1) pn1 (s2 :: r') v) as [nx [rc0 c']]. cbn [fst snd] in *.
        destruct IH as [I1 I2]. split; [lia|].
        eapply sub_trans; [apply (sub_set_child (iadd_item n pn) (length (i_ch n)) pn1 c' (i_ids v ++ fresh (next + 1) nx) A1); exact I2|].
        rewrite ids_add_item. change (i_ids pn) with [next]. rewrite (fresh_app next (next + 1) nx) by lia. rewrite fresh_one.
        sperm. rewrite <- !app_assoc. apply Permutation_app_head.
        rewrite !app_assoc. apply Permutation_app_tail. apply Permutation_app_comm.
Qed.

Lemma put_or_create_ids : forall rp fo k next t p v,
  next <= fst (i_put_or_create rp fo k next t p v) /\
  sub (i_ids (snd (snd (i_put_or_create rp fo k next t p v)))) (i_ids t ++ i_ids v ++ fresh next (fst (i_put_or_create rp fo k next t p v))).
Proof.
  intros. unfold i_put_or_create. destruct (i_put rp fo k t p v) as [[r n']|] eqn:P.
  - cbn [fst snd]. split; [lia|]. rewrite fresh_nil, app_nil_r. eapply put_ids. exact P.
  - destruct (op_eqb k OAddCreate); [apply create_ids|]. cbn [fst snd]. split; [lia|]. apply sub_app_l. apply sub_refl.
Qed.

Lemma nth_set_same_i : forall (l : list inode) i c x, nth_error l i = Some c ->
  nth_error (firstn i l ++ x :: skipn (S i) l) i = Some x.
Proof.
  intros l i c x H. assert (L : (i < length l)%nat) by (apply nth_error_Some; congruence).
  rewrite nth_error_app2; rewrite firstn_length_le by lia; [|lia]. rewrite Nat.sub_diag. reflexivity.
Qed.
Lemma nth_set_other_i : forall (l : list inode) i j c x, nth_error l i = Some c -> j <> i ->
  nth_error (firstn i l ++ x :: skipn (S i) l) j = nth_error l j.
Proof.
  intros l i j c x H NE. assert (L : (i < length l)%nat) by (apply nth_error_Some; congruence).
  transitivity (nth_error (firstn i l ++ c :: skipn (S i) l) j); [|rewrite <- (nth_split _ _ _ _ H); reflexivity].
  destruct (Nat.lt_ge_cases j i) as [Lt|Ge].
  - rewrite !nth_error_app1 by (rewrite firstn_length_le; lia). reflexivity.
  - rewrite !nth_error_app2 by (rewrite firstn_length_le; lia). rewrite firstn_length_le by lia.
    destruct (j - i)%nat as [|k] eqn:E; [lia|]. reflexivity.
Qed.

(* ------------------------------------------------------------------ positions *)
Fixpoint without (n : inode) (pos : list nat) : list Z :=
  match pos with
  | [] => []
  | i :: r => match nth_error (i_ch n) i with
              | Some c => i_id n :: flat_map i_ids (firstn i (i_ch n)) ++ without c r ++ flat_map i_ids (skipn (S i) (i_ch n))
              | None => i_ids n
              end
  end.

Lemma get_at_ids : forall pos n x, i_get_at n pos = Some x -> Permutation (i_ids n) (without n pos ++ i_ids x).
Proof.
  induction pos as [|i r IH]; intros n x H.
  - simpl in H. inversion H; subst. apply Permutation_refl.
  - cbn [i_get_at without] in *. destruct (nth_error (i_ch n) i) as [c|] eqn:N; [|discriminate].
    rewrite (ids_unfold n). unfold kids. rewrite (kids_split _ _ _ N). cbn [app]. apply perm_skip.
    rewrite <- !app_assoc. apply Permutation_app_head.
    eapply Permutation_trans; [apply Permutation_app_tail; apply (IH c x H)|].
    rewrite <- !app_assoc. apply Permutation_app_head. apply Permutation_app_comm.
Qed.

Lemma set_data_at_ids : forall rp d pos n n' x, i_set_data_at rp n pos d = Some n' -> i_get_at n pos = Some x ->
  Permutation (i_ids n') (without n pos ++ i_id x :: kids d).
Proof.
  intros rp d. induction pos as [|i r IH]; intros n n' x H G.
  - simpl in H, G. inversion H; inversion G; subst. rewrite ids_copy_data. apply Permutation_refl.
  - cbn [i_set_data_at i_get_at without] in *. destruct (nth_error (i_ch n) i) as [c|] eqn:N; [|discriminate].
    destruct (i_set_data_at rp c r d) as [c'|] eqn:S; [|discriminate]. inversion H; subst.
    rewrite ids_set_child. cbn [app]. apply perm_skip. rewrite <- !app_assoc. apply Permutation_app_head.
    eapply Permutation_trans; [apply Permutation_app_tail; apply (IH c c' x S G)|].
    rewrite <- !app_assoc. apply Permutation_app_head. apply Permutation_app_comm.
Qed.

Lemma detach_at_ids : forall pos n n' x, i_detach_at n pos = Some n' -> i_get_at n pos = Some x ->
  Permutation (i_ids n' ++ i_ids x) (i_ids n).
Proof.
  induction pos as [|i r IH]; intros n n' x H G; [discriminate|].
  cbn [i_detach_at i_get_at] in *. destruct (nth_error (i_ch n) i) as [c|] eqn:N; [|discriminate].
  destruct r as [|j r'].
  - simpl in G. inversion H; inversion G; subst. apply ids_remove_item. exact N.
  - destruct (i_detach_at c (j :: r')) as [c'|] eqn:D; [|discriminate]. inversion H; subst.
    pose proof (IH c c' x D G) as P.
    rewrite ids_set_child, (ids_unfold n). unfold kids. rewrite (kids_split _ _ _ N). cbn [app]. apply perm_skip.
    rewrite <- !app_assoc. apply Permutation_app_head.
    eapply Permutation_trans; [|apply Permutation_app_tail; exact P].
    rewrite <- !app_assoc. apply Permutation_app_head. apply Permutation_app_comm.
Qed.

Lemma get_at_app_i : forall p q n, i_get_at n (p ++ q) = match i_get_at n p with Some x => i_get_at x q | None => None end.
Proof.
  induction p as [|i r IH]; intros q n; [reflexivity|].
  cbn [app i_get_at]. destruct (nth_error (i_ch n) i) as [c|]; [apply IH | reflexivity].
Qed.

Lemma pos_prefix_split : forall a b, pos_prefix a b = true -> exists q, b = a ++ q.
Proof.
  induction a as [|x a IH]; intros b H; [exists b; reflexivity|].
  destruct b as [|y b]; [discriminate|]. cbn [pos_prefix] in H. apply andb_true_iff in H. destruct H as [H1 H2].
  apply Nat.eqb_eq in H1. subst y. destruct (IH b H2) as [q E]. exists q. rewrite E. reflexivity.
Qed.

(* a proper descendant lies among the children's subtrees *)
Lemma descendant_sub : forall q v c, i_get_at v q = Some c -> q <> [] -> sub (i_ids c) (kids v).
Proof.
  intros [|i r] v c H NE; [contradiction|]. cbn [i_get_at] in H.
  destruct (nth_error (i_ch v) i) as [c0|] eqn:N; [|discriminate].
  unfold kids. rewrite (kids_split _ _ _ N). apply sub_app_r. apply sub_app_l.
  pose proof (get_at_ids r c0 c H) as P. exists (without c0 r). eapply Permutation_trans; [apply Permutation_app_comm|].
  apply Permutation_sym. exact P.
Qed.

Lemma set_data_other : forall rp d pf n n', i_set_data_at rp n pf d = Some n' ->
  forall pc, pos_prefix pf pc = false -> pos_prefix pc pf = false -> i_get_at n' pc = i_get_at n pc.
Proof.
  intros rp d. induction pf as [|i r IH]; intros n n' H pc P1 P2; [discriminate|].
  cbn [i_set_data_at] in H. destruct (nth_error (i_ch n) i) as [c|] eqn:N; [|discriminate].
  destruct (i_set_data_at rp c r d) as [c'|] eqn:S; [|discriminate]. inversion H; subst.
  destruct pc as [|j q]; [discriminate|]. cbn [i_get_at]. unfold iset_child. rewrite i_ch_set_ch.
  destruct (Nat.eq_dec j i) as [E|NE].
  - subst j. rewrite (nth_set_same_i _ _ _ _ N), N. cbn [pos_prefix] in P1, P2. rewrite Nat.eqb_refl in P1, P2.
    apply (IH c c' S q P1 P2).
  - rewrite (nth_set_other_i _ _ _ _ _ N NE). reflexivity.
Qed.

Lemma removelast_cons2' : forall (A : Type) (a b : A) l, removelast (a :: b :: l) = a :: removelast (b :: l).
Proof. reflexivity. Qed.
Lemma last_cons2' : forall (A : Type) (a b : A) l d, last (a :: b :: l) d = last (b :: l) d.
Proof. reflexivity. Qed.

Lemma locate_find_i : forall p t pf, i_locate t p = Some pf -> i_find t p = i_get_at t pf.
Proof.
  unfold i_locate. induction p as [|s r IH]; intros t pf H.
  - simpl in H. inversion H. reflexivity.
  - cbn [m_locate i_find] in *. unfold ichild_pos. destruct (child_pos (iforget t) s) as [i|]; [|discriminate].
    rewrite n_ch_iforget, nth_if in H. destruct (nth_error (i_ch t) i) as [c|] eqn:N; cbn [option_map] in H; [|discriminate].
    destruct (m_locate (iforget c) r) as [l|] eqn:L; [|discriminate]. inversion H; subst. cbn [i_get_at]. rewrite N. apply IH. exact L.
Qed.

(* swap: does the last segment address an existing child of `par` (as swap_target decides it)? *)
Definition swap_kid_exists (par : node) (s : seg) : bool :=
  match n_ty par with
  | TObj => match child_pos par s with Some i => match nth_error (n_ch par) i with Some _ => true | None => false end | None => false end
  | TArr => if is_dash s then false
            else match arr_index s with
                 | Some idx => if (0 <=? idx) && (idx <? Z.of_nat (length (n_ch par)))
                               then match nth_error (n_ch par) (Z.to_nat idx) with Some _ => true | None => false end
                               else false
                 | None => false
                 end
  | _ => false
  end.

Lemma swap_target_missing : forall t path pp, swap_target t path = Some (pp, None) ->
  m_locate t (removelast path) = Some pp /\ exists par, m_find t (removelast path) = Some par /\ swap_kid_exists par (last path []) = false.
Proof.
  intros t path pp H. unfold swap_target in H.
  destruct (m_locate t (removelast path)) as [pp0|]; [|discriminate].
  destruct (m_find t (removelast path)) as [par|]; [|discriminate].
  enough (K : pp0 = pp /\ swap_kid_exists par (last path []) = false)
    by (destruct K as [K1 K2]; subst; split; [reflexivity | exists par; split; [reflexivity | exact K2]]).
  unfold swap_kid_exists.
  destruct (n_ty par); try (inversion H; subst; split; reflexivity).
  - destruct (child_pos par (last path [])) as [i|]; [|inversion H; subst; split; reflexivity].
    destruct (nth_error (n_ch par) i); [discriminate|]. inversion H; subst. split; reflexivity.
  - destruct (is_dash (last path [])); [inversion H; subst; split; reflexivity|].
    destruct (arr_index (last path [])) as [idx|]; [|inversion H; subst; split; reflexivity].
    destruct ((0 <=? idx) && (idx <? Z.of_nat (length (n_ch par))));
      [|inversion H; subst; split; reflexivity].
    destruct (nth_error (n_ch par) (Z.to_nat idx)); [discriminate|].
    inversion H; subst. split; reflexivity.
Qed.

Lemma put_here_swap_append_i : forall rp fo par s v n', swap_kid_exists (iforget par) s = false ->
  i_put_here rp fo OSwap par s v = (RcOk, n') -> exists q, n' = iset_ch par (i_ch par ++ [q]).
Proof.
  intros rp fo par s v n' M E. unfold i_put_here in E. unfold swap_kid_exists in M. rewrite n_ty_iforget, n_ch_iforget in M.
  change (op_eqb OSwap OIncrement) with false in E. cbv iota in E. unfold ichild_pos in E.
  destruct (i_ty par); try discriminate.
  - destruct (child_pos (iforget par) s) as [i|].
    + rewrite nth_if in M. destruct (nth_error (i_ch par) i); [discriminate | discriminate].
    + inversion E. unfold iadd_item. eexists. reflexivity.
  - destruct (is_dash s); [inversion E; unfold iadd_item; eexists; reflexivity|].
    rewrite len_map_if in M. destruct (arr_index s) as [idx|]; [|discriminate].
    destruct ((idx >? Z.of_nat (length (i_ch par))) || (idx <? 0)) eqn:B; [discriminate|].
    destruct (idx <? Z.of_nat (length (i_ch par))) eqn:L.
    + exfalso. apply orb_false_iff in B. destruct B as [B1 B2]. apply Z.ltb_ge in B2.
      assert (A : (0 <=? idx) = true) by (apply Z.leb_le; lia). rewrite A in M. cbn [andb] in M.
      rewrite nth_if in M. apply Z.ltb_lt in L.
      destruct (nth_error (i_ch par) (Z.to_nat idx)) eqn:N; [discriminate|]. apply nth_error_None in N. lia.
    + inversion E. unfold iadd_item. eexists. reflexivity.
Qed.

Lemma put_keeps_i : forall rp fo v p n pp n', p <> [] -> m_locate (iforget n) (removelast p) = Some pp ->
  (exists par, m_find (iforget n) (removelast p) = Some par /\ swap_kid_exists par (last p []) = false) ->
  i_put rp fo OSwap n p v = Some (RcOk, n') ->
  forall pos x, pos_prefix pos pp = false -> i_get_at n pos = Some x -> i_get_at n' pos = Some x.
Proof.
  intros rp fo v. induction p as [|s r IH]; intros n pp n' NE L [par [F M]] E pos x P G; [contradiction|].
  cbn [i_put] in E. destruct r as [|s2 r'].
  - simpl in L, F. inversion L; subst pp. inversion F; subst par. simpl in M. inversion E as [E1].
    destruct (put_here_swap_append_i rp fo n s v n' M E1) as [q Q]. subst n'.
    destruct pos as [|j rest]; [discriminate|]. cbn [i_get_at] in *. rewrite i_ch_set_ch.
    destruct (nth_error (i_ch n) j) as [c|] eqn:N; [|discriminate].
    rewrite nth_error_app1 by (apply nth_error_Some; congruence). rewrite N. exact G.
  - rewrite removelast_cons2' in L, F. cbn [m_locate m_find] in L, F. rewrite last_cons2' in M.
    unfold ichild_pos in E. destruct (child_pos (iforget n) s) as [i|]; [|discriminate].
    rewrite n_ch_iforget, nth_if in L, F. destruct (nth_error (i_ch n) i) as [c|] eqn:N; cbn [option_map] in L, F; [|discriminate].
    destruct (m_locate (iforget c) (removelast (s2 :: r'))) as [pp'|] eqn:L2; [|discriminate]. inversion L; subst pp.
    destruct (i_put rp fo OSwap c (s2 :: r') v) as [[rc0 c']|] eqn:PU; [|discriminate]. inversion E; subst rc0 n'.
    destruct pos as [|j rest]; [discriminate|]. cbn [i_get_at] in *. unfold iset_child. rewrite i_ch_set_ch.
    destruct (Nat.eq_dec j i) as [EQ|NEQ].
    + subst j. rewrite (nth_set_same_i _ _ _ _ N). rewrite N in G. cbn [pos_prefix] in P. rewrite Nat.eqb_refl in P. cbn [andb] in P.
      apply (IH c pp' c' ltac:(discriminate) L2 (ex_intro _ par (conj F M)) PU rest x P G).
    + rewrite (nth_set_other_i _ _ _ _ _ N NEQ). exact G.
Qed.

Lemma iset_child_same : forall n i c, nth_error (i_ch n) i = Some c -> iset_child n i c = n.
Proof.
  intros [id par kl key ty vi vs ch] i c H. unfold iset_child, iset_ch. cbn [i_ch] in *. f_equal. symmetry. apply nth_split. exact H.
Qed.

Lemma i_put_here_fail_same : forall rp fo k p s v, k <> OIncrement ->
  fst (i_put_here rp fo k p s v) <> RcOk -> snd (i_put_here rp fo k p s v) = p.
Proof.
  intros rp fo k p s v K. assert (KI : op_eqb k OIncrement = false).
  { destruct (op_eqb k OIncrement) eqn:E; auto. apply op_eqb_eq in E. contradiction. }
  unfold i_put_here. rewrite KI.
  destruct (i_ty p); try reflexivity.
  - destruct (ichild_pos p s) as [i|]; [|intro F; exfalso; apply F; reflexivity].
    destruct (nth_error (i_ch p) i); [intro F; exfalso; apply F; reflexivity | reflexivity].
  - destruct (is_dash s); [intro F; exfalso; apply F; reflexivity|].
    destruct (arr_index s) as [idx|]; [|reflexivity].
    destruct ((idx >? Z.of_nat (length (i_ch p))) || (idx <? 0)); [reflexivity|].
    destruct (idx <? Z.of_nat (length (i_ch p))); intro F; exfalso; apply F; reflexivity.
Qed.

Lemma i_put_fail_same : forall rp fo k v, k <> OIncrement -> forall p n r n',
  i_put rp fo k n p v = Some (r, n') -> r <> RcOk -> n' = n.
Proof.
  intros rp fo k v K. induction p as [|s r0 IH]; intros n r n' E F.
  - simpl in E. inversion E; subst. reflexivity.
  - cbn [i_put] in E. destruct r0 as [|s2 r'].
    + inversion E as [E1]. pose proof (i_put_here_fail_same rp fo k n s v K) as P. rewrite E1 in P. cbn [fst snd] in P. auto.
    + destruct (ichild_pos n s) as [i|]; [|discriminate].
      destruct (nth_error (i_ch n) i) as [c|] eqn:N; [|discriminate].
      destruct (i_put rp fo k c (s2 :: r') v) as [[rc0 c']|] eqn:M; [|discriminate].
      inversion E; subst. rewrite (IH c r c' M F). apply iset_child_same. exact N.
Qed.

Lemma sub_cancel_r : forall a m x, sub (a ++ x) (m ++ x) -> sub a m.
Proof.
  intros a m x [rest P]. exists rest. apply (Permutation_app_inv_r x).
  eapply Permutation_trans; [|exact P]. rewrite <- !app_assoc. apply Permutation_app_head. apply Permutation_app_comm.
Qed.

Lemma pos_prefix_refl : forall a, pos_prefix a a = true.
Proof. induction a as [|x a IH]; [reflexivity|]. cbn [pos_prefix]. rewrite Nat.eqb_refl, IH. reflexivity. Qed.

Lemma find_sub : forall p n x, i_find n p = Some x -> sub (i_ids x) (i_ids n).
Proof.
  induction p as [|s r IH]; intros n x H.
  - simpl in H. inversion H; subst. apply sub_refl.
  - cbn [i_find] in H. destruct (ichild_pos n s) as [i|]; [|discriminate].
    destruct (nth_error (i_ch n) i) as [c|] eqn:N; [|discriminate].
    eapply sub_trans; [apply (IH c x H)|]. rewrite (ids_unfold n). unfold kids. rewrite (kids_split _ _ _ N).
    apply sub_drop. apply sub_app_r. apply sub_app_l. apply sub_refl.
Qed.

(* ------------------------------------------------------------------ one operation: where the ids of the result come from *)
Lemma descendant_of_find : forall p n x, p <> [] -> i_find n p = Some x -> sub (i_ids x) (kids n).
Proof.
  intros [|s r] n x NE F; [contradiction|]. cbn [i_find] in F.
  destruct (ichild_pos n s) as [i|]; [|discriminate]. destruct (nth_error (i_ch n) i) as [c|] eqn:N; [|discriminate].
  unfold kids. rewrite (kids_split _ _ _ N). apply sub_app_r. apply sub_app_l. apply (find_sub r c x F).
Qed.

Definition vids (o : ipop) : list Z := match ip_val o with Some v => i_ids v | None => [] end.

Definition op_acct (next : Z) (t : inode) (o : ipop) (r : Z * (rc * inode)) : Prop :=
  next <= fst r /\ sub (i_ids (snd (snd r))) (i_ids t ++ vids o ++ fresh next (fst r)).

Lemma acct_keep : forall next t o r0, op_acct next t o (next, (r0, t)).
Proof. intros. unfold op_acct. cbn [fst snd]. split; [lia|]. apply sub_app_l. apply sub_refl. Qed.

Lemma acct_mono : forall next t t1 o r, sub (i_ids t1) (i_ids t) ->
  (next <= fst r /\ sub (i_ids (snd (snd r))) (i_ids t1 ++ vids o ++ fresh next (fst r))) -> op_acct next t o r.
Proof.
  intros next t t1 o r S [A B]. split; [exact A|]. eapply sub_trans; [exact B|]. apply sub_app; [exact S | apply sub_refl].
Qed.

Theorem apply_op_ids : forall rp fo next t o, op_acct next t o (i_apply_op rp fo next t o).
Proof.
  intros rp fo next t o. unfold i_apply_op.
  destruct (op_eqb (ip_op o) OSwap && match ip_from o with Some [] => true | _ => false end); [apply acct_keep|].
  destruct (op_eqb (ip_op o) OTest).
  { destruct (ip_val o) as [v|]; [|apply acct_keep].
    destruct (if is_root (ip_path o) then Some t else i_find t (ip_path o)) as [x|]; [|apply acct_keep].
    destruct (nodes_eq fo (iforget x) (iforget v)); apply acct_keep. }
  destruct (is_root (ip_path o)).
  { destruct (op_eqb (ip_op o) ORemove).
    { unfold op_acct. cbn [fst snd]. split; [lia|]. destruct t. cbn [i_ids flat_map]. apply sub_app_l. apply sub_cons. apply sub_nil. }
    destruct (op_eqb (ip_op o) OReplace || op_eqb (ip_op o) OAdd || op_eqb (ip_op o) OAddCreate).
    { destruct (ip_val o) as [v|] eqn:EV; [|apply acct_keep].
      unfold op_acct, vids. rewrite EV. cbn [fst snd]. split; [lia|]. rewrite fresh_nil, app_nil_r. apply sub_copy_data. }
    destruct (op_eqb (ip_op o) OMove || op_eqb (ip_op o) OCopy); [|apply acct_keep].
    destruct (ip_from o) as [[|s r]|]; try apply acct_keep.
    destruct (i_find t (s :: r)) as [v|] eqn:FV; [|apply acct_keep].
    unfold op_acct. cbn [fst snd]. split; [lia|]. apply sub_app_l.
    (* the value lies inside the document: what the root takes over is part of what it had *)
    rewrite ids_copy_data, (ids_unfold t). apply sub_cons.
    assert (P : forall p n x, p <> [] -> i_find n p = Some x -> sub (kids x) (kids n)).
    { intros p n x NE F. eapply sub_trans; [|apply (descendant_of_find p n x NE F)]. rewrite (ids_unfold x). apply sub_drop. apply sub_refl. }
    apply (P (s :: r) t v ltac:(discriminate) FV). }
  (* t1: after the detach of remove / replace *)
  assert (T1 : forall t1, (if op_eqb (ip_op o) ORemove || op_eqb (ip_op o) OReplace
                           then match i_detach t (ip_path o) with None => None | Some (t', _) => Some t' end else Some t) = Some t1 ->
                          sub (i_ids t1) (i_ids t)).
  { intros t1 H. destruct (op_eqb (ip_op o) ORemove || op_eqb (ip_op o) OReplace); [|inversion H; apply sub_refl].
    destruct (i_detach t (ip_path o)) as [[t' d]|] eqn:D; [|discriminate]. inversion H; subst.
    exists (i_ids d). apply (detach_ids _ _ _ _ D). }
  destruct (if op_eqb (ip_op o) ORemove || op_eqb (ip_op o) OReplace
            then match i_detach t (ip_path o) with None => None | Some (t', _) => Some t' end else Some t) as [t1|];
    [|apply acct_keep].
  specialize (T1 t1 eq_refl).
  assert (KEEP1 : forall r0, op_acct next t o (next, (r0, t1))).
  { intro r0. apply (acct_mono next t t1 o _ T1). cbn [fst snd]. split; [lia|]. apply sub_app_l. apply sub_refl. }
  destruct (op_eqb (ip_op o) ORemove); [apply KEEP1|].
  destruct ((op_eqb (ip_op o) OMove || op_eqb (ip_op o) OCopy || op_eqb (ip_op o) OSwap) &&
            match ip_from o with None => true | _ => false end); [apply KEEP1|].
  destruct (op_eqb (ip_op o) OMove).
  { destruct (match ip_from o with None => None | Some f => i_detach t1 f end) as [[t2 v]|] eqn:D; [|apply KEEP1].
    assert (D' : exists f, i_detach t1 f = Some (t2, v)) by (destruct (ip_from o) as [f|]; [exists f; exact D | discriminate]).
    destruct D' as [f Df]. pose proof (detach_ids _ _ _ _ Df) as P.
    destruct (put_or_create_ids rp fo (ip_op o) next t2 (ip_path o) v) as [A B].
    apply (acct_mono next t t1 o _ T1). split; [exact A|].
    eapply sub_trans; [exact B|]. rewrite app_assoc. apply sub_app; [sperm; exact P|]. apply sub_app_r. apply sub_refl. }
  destruct (op_eqb (ip_op o) OCopy).
  { destruct (match ip_from o with None => None | Some f => i_find t1 f end) as [v|]; [|apply KEEP1].
    destruct (clone_fresh next 0 v) as [C1 C2]. destruct (i_clone next 0 v) as [nx cv]. cbn [fst snd] in C1, C2.
    destruct (put_or_create_ids rp fo (ip_op o) nx t1 (ip_path o) cv) as [A B].
    apply (acct_mono next t t1 o _ T1). split; [lia|].
    eapply sub_trans; [exact B|]. apply sub_app; [apply sub_refl|]. apply sub_app_r.
    rewrite C2. rewrite <- (fresh_app next nx _ C1 A). apply sub_refl. }
  destruct (op_eqb (ip_op o) OSwap) eqn:KS.
  2:{ destruct (ip_val o) as [v|] eqn:EV; [|apply KEEP1].
      destruct (put_or_create_ids rp fo (ip_op o) next t1 (ip_path o) v) as [A B].
      apply (acct_mono next t t1 o _ T1). split; [exact A|]. unfold vids. rewrite EV. exact B. }
  apply op_eqb_eq in KS. rewrite KS.
  destruct (ip_from o) as [f|]; [|apply KEEP1].
  destruct (seg_nested f (ip_path o)); [apply KEEP1|].
  destruct (i_find t1 f) as [v|] eqn:FV; [|apply KEEP1].
  destruct (i_locate t1 f) as [pf|] eqn:LF; [|apply KEEP1].
  assert (GV : i_get_at t1 pf = Some v) by (rewrite <- (locate_find_i f t1 pf LF); exact FV).
  pose proof (get_at_ids pf t1 v GV) as PV.
  destruct (swap_target (iforget t1) (ip_path o)) as [[pp [[i cn]|]]|] eqn:ST; [| |apply KEEP1].
  - (* both exist *)
    destruct (i_get_at t1 (pp ++ [i])) as [c|] eqn:GC; [|apply KEEP1].
    pose proof (get_at_ids _ t1 c GC) as PC.
    destruct (pos_eqb pf (pp ++ [i])) eqn:PE; [apply KEEP1|].
    assert (RES : forall t2, sub (i_ids t2) (i_ids t1) -> op_acct next t o (next, (RcOk, t2))).
    { intros t2 S. apply (acct_mono next t t1 o _ T1). cbn [fst snd]. split; [lia|]. apply sub_app_l. exact S. }
    destruct (pos_prefix pf (pp ++ [i])) eqn:P1.
    { (* from contains path *)
      destruct (i_set_data_at rp t1 pf c) as [t2|] eqn:S1; [|apply KEEP1]. apply RES.
      destruct (pos_prefix_split _ _ P1) as [q EQ].
      assert (QN : q <> []).
      { intro E. subst q. rewrite app_nil_r in EQ. unfold pos_eqb in PE. rewrite <- EQ in PE. rewrite pos_prefix_refl in PE. discriminate. }
      rewrite EQ, get_at_app_i, GV in GC.
      eapply sub_trans; [sperm; apply (set_data_at_ids rp c pf t1 t2 v S1 GV)|].
      eapply sub_trans; [|sperm; apply Permutation_sym; exact PV].
      apply sub_app; [apply sub_refl|]. rewrite (ids_unfold v). apply sub_cons.
      eapply sub_trans; [|apply (descendant_sub q v c GC QN)]. rewrite (ids_unfold c). apply sub_drop. apply sub_refl. }
    destruct (pos_prefix (pp ++ [i]) pf) eqn:P2.
    { (* path contains from *)
      destruct (i_set_data_at rp t1 (pp ++ [i]) v) as [t2|] eqn:S1; [|apply KEEP1]. apply RES.
      destruct (pos_prefix_split _ _ P2) as [q EQ].
      assert (QN : q <> []).
      { intro E. subst q. rewrite app_nil_r in EQ. unfold pos_eqb in PE. rewrite EQ in PE. rewrite pos_prefix_refl in PE. discriminate. }
      rewrite EQ, get_at_app_i, GC in GV.
      eapply sub_trans; [sperm; apply (set_data_at_ids rp v _ t1 t2 c S1 GC)|].
      eapply sub_trans; [|sperm; apply Permutation_sym; exact PC].
      apply sub_app; [apply sub_refl|]. rewrite (ids_unfold c). apply sub_cons.
      eapply sub_trans; [|apply (descendant_sub q c v GV QN)]. rewrite (ids_unfold v). apply sub_drop. apply sub_refl. }
    (* neither contains the other *)
    destruct (i_set_data_at rp t1 pf c) as [t2|] eqn:S1; [|apply KEEP1].
    destruct (i_set_data_at rp t2 (pp ++ [i]) v) as [t3|] eqn:S2; [|apply KEEP1]. apply RES. sperm.
    pose proof (set_data_at_ids rp c pf t1 t2 v S1 GV) as Q1.
    assert (GC2 : i_get_at t2 (pp ++ [i]) = Some c) by (rewrite (set_data_other rp c pf t1 t2 S1 _ P1 P2); exact GC).
    pose proof (set_data_at_ids rp v _ t2 t3 c S2 GC2) as Q2.
    pose proof (get_at_ids _ t2 c GC2) as Q3.
    (* without t2 pc ++ [id c] is without t1 pf ++ [id v] *)
    assert (Q4 : Permutation (without t2 (pp ++ [i]) ++ [i_id c]) (without t1 pf ++ [i_id v])).
    { apply (Permutation_app_inv_r (kids c)).
      eapply Permutation_trans; [|eapply Permutation_trans; [apply Permutation_sym; exact Q3 | ]].
      - rewrite <- app_assoc. cbn [app]. rewrite (ids_unfold c). apply Permutation_refl.
      - eapply Permutation_trans; [exact Q1|]. rewrite <- app_assoc. apply Permutation_refl. }
    eapply Permutation_trans; [exact Q2|]. eapply Permutation_trans; [|apply Permutation_sym; exact PV].
    rewrite (ids_unfold v).
    change (without t2 (pp ++ [i]) ++ i_id c :: kids v) with (without t2 (pp ++ [i]) ++ [i_id c] ++ kids v).
    change (without t1 pf ++ i_id v :: kids v) with (without t1 pf ++ [i_id v] ++ kids v).
    rewrite !app_assoc. apply Permutation_app_tail. exact Q4.
  - (* the last segment addresses nothing: link, then unlink `from` *)
    destruct (swap_target_missing _ _ _ ST) as [LP MISS].
    unfold i_put_or_create. change (op_eqb OSwap OAddCreate) with false. cbv iota.
    destruct (i_put rp fo OSwap t1 (ip_path o) v) as [[r0 t2]|] eqn:PU; [|apply KEEP1].
    destruct (rc_ok r0) eqn:R0.
    2:{ assert (NE : r0 <> RcOk) by (apply rc_ok_neq; exact R0).
        rewrite (i_put_fail_same rp fo OSwap v ltac:(discriminate) _ _ _ _ PU NE).
        destruct r0; try apply KEEP1. exfalso. apply NE. reflexivity. }
    apply rc_ok_eq in R0. subst r0.
    assert (RES : forall t3, sub (i_ids t3) (i_ids t1) -> op_acct next t o (next, (RcOk, t3))).
    { intros t3 S. apply (acct_mono next t t1 o _ T1). cbn [fst snd]. split; [lia|]. apply sub_app_l. exact S. }
    destruct (pos_prefix pf pp) eqn:PP.
    + destruct (i_detach_at t1 pf) as [t3|] eqn:DA; [|apply KEEP1]. apply RES.
      exists (i_ids v). apply (detach_at_ids pf t1 t3 v DA GV).
    + assert (NEP : ip_path o <> []).
      { intro E. rewrite E in PU. simpl in PU. discriminate. }
      pose proof (put_keeps_i rp fo v (ip_path o) t1 pp t2 NEP LP MISS PU pf v PP GV) as GV2.
      destruct (i_detach_at t2 pf) as [t3|] eqn:DA; [|apply KEEP1]. apply RES.
      pose proof (detach_at_ids pf t2 t3 v DA GV2) as Q1. pose proof (put_ids rp fo OSwap v _ _ _ _ PU) as Q2.
      apply (sub_cancel_r _ _ (i_ids v)). eapply sub_trans; [sperm; exact Q1 | exact Q2].
Qed.

(* ------------------------------------------------------------------ programs; the tree is a tree *)
Theorem apply_ops_ids : forall rp fo l next t,
  next <= fst (i_apply_ops rp fo next t l) /\
  sub (i_ids (snd (snd (i_apply_ops rp fo next t l)))) (i_ids t ++ flat_map vids l ++ fresh next (fst (i_apply_ops rp fo next t l))).
Proof.
  intros rp fo. induction l as [|o l IH]; intros next t.
  - cbn [i_apply_ops fst snd flat_map]. split; [lia|]. apply sub_app_l. apply sub_refl.
  - cbn [i_apply_ops flat_map]. destruct (apply_op_ids rp fo next t o) as [A B].
    destruct (i_apply_op rp fo next t o) as [nx [r t']]. cbn [fst snd] in A, B.
    assert (STOP : next <= fst (nx, (r, t')) /\
                   sub (i_ids (snd (snd (nx, (r, t'))))) (i_ids t ++ (vids o ++ flat_map vids l) ++ fresh next (fst (nx, (r, t'))))).
    { cbn [fst snd]. split; [exact A|]. eapply sub_trans; [exact B|]. apply sub_app; [apply sub_refl|].
      rewrite <- app_assoc. apply sub_app; [apply sub_refl|]. apply sub_app_r. apply sub_refl. }
    destruct r; try exact STOP.
    destruct (IH nx t') as [C D]. split; [lia|].
    eapply sub_trans; [exact D|].
    eapply sub_trans; [apply sub_app; [exact B | apply sub_refl]|].
    rewrite (fresh_app next nx _ A C). sperm.
    rewrite <- !app_assoc. apply Permutation_app_head. apply Permutation_app_head.
    rewrite !app_assoc. apply Permutation_app_tail. apply Permutation_app_comm.
Qed.

Lemma nodup_app_intro : forall (a b : list Z), NoDup a -> NoDup b -> (forall x, In x a -> In x b -> False) -> NoDup (a ++ b).
Proof.
  induction a as [|x a IH]; intros b Na Nb D; [exact Nb|]. cbn [app]. inversion Na as [|? ? NI Na']; subst. constructor.
  - intro I. apply in_app_or in I. destruct I as [I|I]; [contradiction | apply (D x); [left; reflexivity | exact I]].
  - apply IH; auto. intros y Ia Ib. apply (D y); [right; exact Ia | exact Ib].
Qed.

(* For every document whose nodes are distinct, every list of operations of any kind whose operand values are distinct nodes
   (distinct from one another and from the document's - the case for every parsed patch document), ids allocated from `next`
   upwards: after the call - successful or not - no node is listed twice, and every node of the result is a node of the document, a
   node of an operand value, or a node allocated by the call. *)
Theorem tree_is_a_tree : forall rp fo l next t,
  NoDup (i_ids t ++ flat_map vids l) -> (forall x, In x (i_ids t ++ flat_map vids l) -> x < next) ->
  NoDup (i_ids (snd (snd (i_apply_ops rp fo next t l)))) /\
  (forall x, In x (i_ids (snd (snd (i_apply_ops rp fo next t l)))) ->
             In x (i_ids t) \/ In x (flat_map vids l) \/ next <= x < fst (i_apply_ops rp fo next t l)).
Proof.
  intros rp fo l next t N LT. destruct (apply_ops_ids rp fo l next t) as [A B].
  assert (NB : NoDup (i_ids t ++ flat_map vids l ++ fresh next (fst (i_apply_ops rp fo next t l)))).
  { rewrite app_assoc. apply nodup_app_intro; [exact N | apply zseq_nodup|].
    intros x I1 I2. apply LT in I1. apply fresh_in in I2. lia. }
  split; [eapply sub_nodup; [exact NB | exact B]|].
  intros x I. pose proof (sub_in _ _ x B I) as J. apply in_app_or in J. destruct J as [J|J]; [left; exact J|].
  apply in_app_or in J. destruct J as [J|J]; [right; left; exact J|]. right. right. apply fresh_in in J. exact J.
Qed.
