(* src/json/iwjson.c: JSON Merge Patch (rfc7386): _jbl_merge_patch_node in both allocation modes and its entry points.
   The model follows the code WITH fixes/jpatch-merge-{doublefree,leak,rc,nonobject}.diff applied.
   pool != 0: patch nodes are adopted (linked into the target);  pool == 0: patch nodes are cloned with malloc and
   every replaced piece is freed - modelled over the ownership heap of Mem.v.  No proofs here. *)
Require Import ZArith List Bool. Require Import IW.Lib.CInt IW.Gen.Facts IW.JSON.Val IW.JSON.Patch IW.JSON.Mem.
Import ListNotations.
Local Open Scope Z_scope. Local Open Scope bool_scope.

(* (node->klidx == patch->klidx) && !strncmp(node->key, patch->key, node->klidx) *)
Definition mkey_match (pc : node) (c : node) : bool :=
  (n_kl c =? n_kl pc) && strncmp_eq (n_key c) (n_key pc) (Z.to_nat (n_kl c)).

(* _jbl_node_reset_data + type = JBV_OBJECT *)
Definition reset_obj (t : node) : node := match t with Node kl k _ _ _ _ => Node kl k TObj 0 [] [] end.

(* ---------- pool mode *)
Fixpoint merge_pool (t : option node) (p : node) {struct p} : node :=
  match p with
  | Node pkl pkey pty _ _ pch =>
    match pty with
    | TObj =>
      let t0 := match t with
                | None => Node pkl pkey TObj 0 [] []
                | Some t => match n_ty t with TObj => t | _ => reset_obj t end
                end in
      (fix go (tgt : node) (l : list node) {struct l} : node :=
         match l with
         | [] => tgt
         | pc :: l' =>
           let tgt' :=
             match n_ty pc with
             | TNull => match find_pos (mkey_match pc) (n_ch tgt) with
                        | Some i => set_ch tgt (firstn i (n_ch tgt) ++ skipn (S i) (n_ch tgt))   (* _jbn_remove_item, object parent *)
                        | None => tgt
                        end
             | _ => match find_pos (mkey_match pc) (n_ch tgt) with
                    | Some i => match nth_error (n_ch tgt) i with
                                | None => tgt
                                | Some c => let src := merge_pool (Some c) pc in
                                            set_child tgt i (match n_ty pc with TObj => src | _ => copy_data c src end)
                                end
                    | None => set_ch tgt (n_ch tgt ++ [merge_pool None pc])                      (* _jbn_add_item, object parent *)
                    end
             end in
           go tgt' l'
         end) t0 pch
    | _ => p
    end
  end.

Definition jbn_merge_patch_pool (root patch : node) : rc * node :=
  match n_ty root, n_ty patch with
  | TObj, TObj => (RcOk, merge_pool (Some root) patch)
  | _, _ => (RcInvArgs, root)
  end.
(* jbn_merge_patch_from_json after the patch text is parsed: a non-object result is copied over the root *)
Definition jbn_merge_patch_node (root patch : node) : node := merge_pool (Some root) patch.
(* jbn_patch_auto *)
Definition jbn_patch_auto (fo : fops) (root patch : node) : rc * node :=
  match n_ty patch with
  | TObj => (RcOk, merge_pool (Some root) patch)
  | TArr => match create_patch patch with
            | inl e => (e, root)
            | inr ops => patch_node fo root ops
            end
  | _ => (RcInvArgs, root)
  end.

(* jbn_merge_patch_create: wrapper objects along the path; the value node itself becomes the last member *)
Fixpoint wrap_child (segs : list seg) (v : option node) : option node :=
  match segs with
  | [] => None
  | s :: r =>
    let kl := Z.of_nat (length s) in
    match r, v with
    | [], Some v => Some (set_kl (set_key v s) kl)
    | _, _ => Some (Node kl s TObj 0 [] (match wrap_child r v with Some c => [c] | None => [] end))
    end
  end.
Definition merge_patch_create (path : list Z) (v : option node) : rc + option node :=
  match path with
  | [] | [47] => inr v
  | _ => match ptr_parse path with
         | PtrErr => inl RcPtr
         | PtrUnmodelled => inl RcUnmodelled
         | PtrOk segs => inr (Some (Node 0 [] TObj 0 [] (match wrap_child segs v with Some c => [c] | None => [] end)))
         end
  end.
Definition jbn_merge_patch_path_pool (root : node) (path : list Z) (v : option node) : rc * node :=
  match merge_patch_create path v with
  | inl e => (e, root)
  | inr None => (RcInvArgs, root)
  | inr (Some p) => jbn_merge_patch_pool root p
  end.

(* jbl_merge_patch: binary -> tree -> merge -> binary (rc of every step is returned - fixed) *)
Section Binary.
  Variable B : Type.
  Variable dec : B -> node.
  Variable enc : node -> option B.
  Definition merge_binary (b : B) (patch : node) : rc * B :=
    match enc (jbn_merge_patch_node (dec b) patch) with
    | Some b' => (RcOk, b')
    | None => (RcCreation, b)
    end.
End Binary.

(* ---------- heap mode *)
Inductive hnode : Type :=
  HNode (id : nat) (kid : option nat) (kl : Z) (key : list Z) (ty : jty) (vi : Z) (sid : option nat) (vs : list Z) (ch : list hnode).
Definition hn_id (n : hnode) := match n with HNode i _ _ _ _ _ _ _ _ => i end.
Definition hn_kid (n : hnode) := match n with HNode _ k _ _ _ _ _ _ _ => k end.
Definition hn_kl (n : hnode) := match n with HNode _ _ kl _ _ _ _ _ _ => kl end.
Definition hn_key (n : hnode) := match n with HNode _ _ _ k _ _ _ _ _ => k end.
Definition hn_ty (n : hnode) := match n with HNode _ _ _ _ t _ _ _ _ => t end.
Definition hn_vi (n : hnode) := match n with HNode _ _ _ _ _ v _ _ _ => v end.
Definition hn_sid (n : hnode) := match n with HNode _ _ _ _ _ _ s _ _ => s end.
Definition hn_vs (n : hnode) := match n with HNode _ _ _ _ _ _ _ s _ => s end.
Definition hn_ch (n : hnode) := match n with HNode _ _ _ _ _ _ _ _ c => c end.
Definition hset_ch (n : hnode) (c : list hnode) := match n with HNode i k kl ke t v s vs _ => HNode i k kl ke t v s vs c end.
Definition hset_child (n : hnode) (i : nat) (c : hnode) : hnode :=
  hset_ch n (firstn i (hn_ch n) ++ c :: skipn (S i) (hn_ch n)).

(* forget the allocation ids *)
Fixpoint forget (n : hnode) : node :=
  match n with HNode _ _ kl key ty vi _ vs ch => Node kl key ty vi vs (map forget ch) end.

Definition bindh {A B : Type} (x : herr + A) (f : A -> herr + B) : herr + B :=
  match x with inl e => inl e | inr a => f a end.

(* jbn_visit2(n, 0, _jbn_allocated_destroy_visitor): children first; then free(key) if set, free(vptr) for a string, free(n) *)
Fixpoint destroy (h : heap) (n : hnode) {struct n} : herr + heap :=
  match n with
  | HNode id kid _ _ ty _ sid _ ch =>
    bindh (if is_container ty then
             (fix go (h : heap) (l : list hnode) {struct l} : herr + heap :=
                match l with [] => inr h | c :: l' => bindh (destroy h c) (fun h' => go h' l') end) h ch
           else inr h)
          (fun h1 => bindh (h_free_opt h1 kid)
          (fun h2 => bindh (match ty with TStr => h_free_opt h2 sid | _ => inr h2 end)
          (fun h3 => h_free h3 id)))
  end.
Fixpoint destroy_list (h : heap) (l : list hnode) : herr + heap :=   (* _jbn_allocated_destroy_children *)
  match l with [] => inr h | c :: l' => bindh (destroy h c) (fun h' => destroy_list h' l') end.

(* jbn_clone(patch, &np, 0): calloc per node, strndup of the key when the source has one, strndup of a string value;
   children are re-added with _jbn_add_item (array items renumbered, no key) *)
Fixpoint hrenumber (i : Z) (l : list hnode) : list hnode :=
  match l with
  | [] => []
  | HNode id k _ key t v s vs c :: r => HNode id k i key t v s vs c :: hrenumber (i + 1) r
  end.
Fixpoint clone_h (h : heap) (wk : bool) (p : node) {struct p} : heap * hnode :=
  match p with
  | Node kl key ty vi vs ch =>
    let '(id, h1) := h_alloc h in
    let '(kid, h2) := if wk then let '(k, h') := h_alloc h1 in (Some k, h') else (None, h1) in
    let '(sid, h3) := match ty with TStr => let '(s, h') := h_alloc h2 in (Some s, h') | _ => (None, h2) end in
    let wk' := match ty with TObj => true | _ => false end in
    let '(h4, ch') :=
      if is_container ty then
        (fix go (h : heap) (l : list node) {struct l} : heap * list hnode :=
           match l with
           | [] => (h, [])
           | c :: l' => let '(h', c') := clone_h h wk' c in let '(h'', r') := go h' l' in (h'', c' :: r')
           end) h3 ch
      else (h3, []) in
    (h4, HNode id kid kl (if wk then firstn (Z.to_nat kl) key else []) ty vi sid vs
               (match ty with TArr => hrenumber 0 ch' | _ => ch' end))
  end.

Definition hmkey_match (pc : node) (c : hnode) : bool :=
  (hn_kl c =? n_kl pc) && strncmp_eq (hn_key c) (n_key pc) (Z.to_nat (hn_kl c)).
(* the scan of target->child: position of the first match; every key that is compared is read through its pointer *)
Fixpoint hfind (h : heap) (pc : node) (l : list hnode) : herr + option nat :=
  match l with
  | [] => inr None
  | c :: r =>
    if hn_kl c =? n_kl pc then
      bindh (h_use h (hn_kid c)) (fun _ =>
        if strncmp_eq (hn_key c) (n_key pc) (Z.to_nat (hn_kl c)) then inr (Some O)
        else bindh (hfind h pc r) (fun o => inr (match o with Some i => Some (S i) | None => None end)))
    else bindh (hfind h pc r) (fun o => inr (match o with Some i => Some (S i) | None => None end))
  end.

Fixpoint merge_h (h : heap) (t : option hnode) (p : node) {struct p} : herr + (heap * hnode) :=
  match p with
  | Node pkl pkey pty _ _ pch =>
    match pty with
    | TObj =>
      bindh
        (match t with
         | None =>
           let '(id, h1) := h_alloc h in                       (* malloc of the node *)
           let '(kid, h2) := h_alloc h1 in                     (* strdup(patch->key) *)
           inr (h2, HNode id (Some kid) pkl pkey TObj 0 None [] [])
         | Some (HNode id kid kl key ty vi sid vs ch) =>
           match ty with
           | TObj => inr (h, HNode id kid kl key ty vi sid vs ch)
           | TStr => bindh (h_free_opt h sid) (fun h1 => inr (h1, HNode id kid kl key TObj 0 None [] []))
           | TArr => bindh (destroy_list h ch) (fun h1 => inr (h1, HNode id kid kl key TObj 0 None [] []))
           | _ => inr (h, HNode id kid kl key TObj 0 None [] [])
           end
         end)
        (fun ht0 =>
           (fix go (h : heap) (tgt : hnode) (l : list node) {struct l} : herr + (heap * hnode) :=
              match l with
              | [] => inr (h, tgt)
              | pc :: l' =>
                bindh
                  (bindh (hfind h pc (hn_ch tgt)) (fun pos =>
                   match n_ty pc with
                   | TNull =>
                     match pos with
                     | Some i => match nth_error (hn_ch tgt) i with
                                 | None => inr (h, tgt)
                                 | Some c => bindh (destroy h c) (fun h1 =>
                                             inr (h1, hset_ch tgt (firstn i (hn_ch tgt) ++ skipn (S i) (hn_ch tgt))))
                                 end
                     | None => inr (h, tgt)
                     end
                   | _ =>
                     match pos with
                     | Some i =>
                       match nth_error (hn_ch tgt) i with
                       | None => inr (h, tgt)
                       | Some c =>
                         bindh (match hn_ty c, n_ty pc with
                                | TStr, TObj => inr h                      (* fixed: the callee frees it *)
                                | TStr, _ => h_free_opt h (hn_sid c)
                                | _, _ => inr h
                                end) (fun h1 =>
                         bindh (merge_h h1 (Some c) pc) (fun hs =>
                         let '(h2, src) := hs in
                         match n_ty pc with
                         | TObj => inr (h2, hset_child tgt i src)           (* src == node *)
                         | _ =>
                           bindh (if is_container (hn_ty c) then destroy_list h2 (hn_ch c) else inr h2) (fun h3 =>
                           let c' := match c with HNode id kid kl key _ _ _ _ _ =>
                                       HNode id kid kl key (hn_ty src) (hn_vi src) (hn_sid src) (hn_vs src) (hn_ch src) end in
                           (* if (node->type == JBV_STR) src->vptr = 0;  _jbn_allocated_destroy_visitor(0, src) *)
                           bindh (h_free_opt h3 (hn_kid src)) (fun h4 =>
                           bindh (h_free h4 (hn_id src)) (fun h5 =>
                           inr (h5, hset_child tgt i c'))))
                         end))
                       end
                     | None =>
                       bindh (merge_h h None pc) (fun hs =>
                       let '(h1, nn) := hs in inr (h1, hset_ch tgt (hn_ch tgt ++ [nn])))
                     end
                   end))
                  (fun ht => let '(h', tgt') := ht in go h' tgt' l')
              end) (fst ht0) (snd ht0) pch)
    | _ => inr (clone_h h true p)
    end
  end.

(* jbn_merge_patch(root, patch, 0) *)
Definition jbn_merge_patch_heap (h : heap) (root : hnode) (patch : node) : herr + (rc * heap * hnode) :=
  match hn_ty root, n_ty patch with
  | TObj, TObj => bindh (merge_h h (Some root) patch) (fun hs => inr (RcOk, fst hs, snd hs))
  | _, _ => inr (RcInvArgs, h, root)
  end.
(* jbn_merge_patch_path(root, path, val, 0): the wrapper lives in a private pool *)
Definition jbn_merge_patch_path_heap (h : heap) (root : hnode) (path : list Z) (v : option node) : herr + (rc * heap * hnode) :=
  match merge_patch_create path v with
  | inl e => inr (e, h, root)
  | inr None => inr (RcInvArgs, h, root)
  | inr (Some p) => jbn_merge_patch_heap h root p
  end.

(* src/json/iwjsreg.c, iwjsreg_merge(reg, path, json): under the write lock jbn_merge_patch_path(reg->root, path, json, 0);
   reg->dirty = true on success (left as it was otherwise).  The registry's tree is heap allocated (jbn_from_json(.., 0) /
   jbl_to_node(.., true, 0)): one allocation per node, per member name and per string value - the shape of jbn_clone(.., 0). *)
Definition iwjsreg_merge_model (h : heap) (root : hnode) (dirty : bool) (path : list Z) (v : option node)
  : herr + (rc * heap * hnode * bool) :=
  match jbn_merge_patch_path_heap h root path v with
  | inl e => inl e
  | inr (r, h', root') => inr (r, h', root', if rc_ok r then true else dirty)
  end.
(* iwjsreg_merge_str / _i64 / _f64 / _bool / _remove: the value is a node on the caller's stack (no name, no children) *)
Definition scalar_node (ty : jty) (vi : Z) (vs : list Z) : node := Node 0 [] ty vi vs [].
Definition iwjsreg_merge_scalar (h : heap) (root : hnode) (dirty : bool) (path : list Z) (ty : jty) (vi : Z) (vs : list Z) :=
  iwjsreg_merge_model h root dirty path (Some (scalar_node ty vi vs)).

(* building the heap-allocated target the way the harness does (jbn_clone(doc, &h, 0)) *)
Definition heap_of (doc : node) : heap * hnode := clone_h h_empty false doc.
