(* C15/C16 write-back step: what the writer stores is the value of the tree when that value is representable in the binary
   form and nothing otherwise; consequences for jbl_patch / jbl_merge_patch (WriteBack.v: jbl_patch_model, jbl_merge_model). *)
Require Import ZArith List Bool Lia Btauto.
Require Import IW.Lib.CInt IW.Gen.Facts IW.UT.Conv IW.JSON.Val IW.JSON.Binn IW.JSON.Patch IW.JSON.PatchSpec IW.JSON.Patch_proofs
               IW.JSON.Mem IW.JSON.Merge IW.JSON.Merge_proofs IW.JSON.WriteBack.
Import ListNotations.
Local Open Scope Z_scope.

(* ------------------------------------------------------------------ one-step unfoldings *)
Lemma wb_items_nil : forall f, wb_items f [] = Some []. Proof. reflexivity. Qed.
Lemma wb_items_cons : forall f c r, wb_items f (c :: r) =
  match f c with None => None | Some v => match wb_items f r with None => None | Some vs => Some (v :: vs) end end.
Proof. reflexivity. Qed.
Lemma wb_members_nil : forall f w, wb_members f [] w = Some []. Proof. reflexivity. Qed.
Lemma wb_members_cons : forall f c r w, wb_members f (c :: r) w =
  match f c with
  | None => None
  | Some v => if set_ok w (n_kl c) (mkey c)
              then match wb_members f r (w ++ [mkey c]) with None => None | Some ms => Some ((mkey c, v) :: ms) end
              else None
  end.
Proof. reflexivity. Qed.
Lemma wb_enc_unfold : forall kl k ty vi vs ch, wb_enc (Node kl k ty vi vs ch) =
  match ty with
  | TNone => None
  | TNull => Some JNull
  | TBool => Some (JBool (negb (vi =? 0)))
  | TI64 => Some (JI64 vi)
  | TF64 => Some (JF64 vi)
  | TStr => Some (JStr vs)
  | TArr => match wb_items wb_enc ch with None => None | Some items => Some (JArr items) end
  | TObj => match wb_members wb_enc ch [] with None => None | Some ms => Some (JObj ms) end
  end.
Proof. reflexivity. Qed.

(* ------------------------------------------------------------------ the name rule of the binn object, read as a relation *)
Lemma tolower_zero : forall y, tolower y = 0 -> y = 0.
Proof. intros y. unfold tolower. destruct ((65 <=? y) && (y <=? 90)) eqn:E; [|auto]. apply andb_true_iff in E. lia. Qed.

Lemma strnieq_cons : forall x a y b n, strnieq (x :: a) (y :: b) (S n) =
  if tolower x =? tolower y then (if x =? 0 then true else strnieq a b n) else false.
Proof. reflexivity. Qed.

(* strncasecmp over the stored name against a name of the same length (followed by its terminator): equal C strings up to
   ASCII letter case *)
Lemma strnieq_spec : forall a b, length a = length b ->
  (strnieq a (b ++ [0]) (length a) = true <-> map tolower (cstr a) = map tolower (cstr b)).
Proof.
  induction a as [|x a IH]; intros b L; destruct b as [|y b]; try discriminate.
  - simpl. split; reflexivity.
  - injection L as L. cbn [length app]. rewrite strnieq_cons. cbn [cstr].
    destruct (tolower x =? tolower y) eqn:T.
    + apply Z.eqb_eq in T. destruct (x =? 0) eqn:X.
      * apply Z.eqb_eq in X. subst x. assert (Y : y = 0) by (apply tolower_zero; rewrite <- T; reflexivity).
        subst y. simpl. split; reflexivity.
      * apply Z.eqb_neq in X. assert (Y : y <> 0).
        { intro Y. subst y. apply X. apply tolower_zero. rewrite T. reflexivity. }
        apply Z.eqb_neq in Y. rewrite Y. cbn [map]. rewrite (IH b L). split.
        -- intro H. rewrite T, H. reflexivity.
        -- intro H. injection H as _ H. exact H.
    + apply Z.eqb_neq in T. split; [discriminate|]. intro H.
      destruct (x =? 0) eqn:X; destruct (y =? 0) eqn:Y; cbn [map] in H; try discriminate.
      * apply Z.eqb_eq in X. apply Z.eqb_eq in Y. subst. exfalso. apply T. reflexivity.
      * injection H as H _. exfalso. apply T. exact H.
Qed.

Lemma zlen_eq_len : forall (A : Type) (a b : list A), (zlen a =? zlen b) = true <-> length a = length b.
Proof. intros A a b. unfold zlen. rewrite Z.eqb_eq. split; [apply Nat2Z.inj | intro H; rewrite H; reflexivity]. Qed.

(* SearchForKey refuses `key` because of the stored name `stored` iff both have the same length and are the same C string
   up to ASCII letter case (for names without a 0 byte: the same name up to letter case) *)
Theorem key_clash_spec : forall stored key,
  key_clash stored key = true <-> length stored = length key /\ map tolower (cstr stored) = map tolower (cstr key).
Proof.
  intros a b. unfold key_clash. destruct (zlen a >? 0) eqn:P.
  - rewrite andb_true_iff. rewrite zlen_eq_len. split.
    + intros [S L]. split; [symmetry; exact L|]. apply strnieq_spec; [symmetry; exact L | exact S].
    + intros [L M]. split; [|symmetry; exact L]. apply strnieq_spec; assumption.
  - rewrite zlen_eq_len. destruct a as [|x a]; [|unfold zlen in P; cbn [length] in P; rewrite Nat2Z.inj_succ in P; rewrite Z.gtb_ltb in P; apply Z.ltb_ge in P; lia].
    split.
    + intro L. split; [exact L|]. destruct b; [reflexivity | discriminate].
    + intros [L _]. exact L.
Qed.

Lemma cstr_nozero : forall s, forallb (fun c => negb (c =? 0)) s = true -> cstr s = s.
Proof.
  induction s as [|c r IH]; intro H; [reflexivity|]. cbn [forallb] in H. apply andb_true_iff in H. destruct H as [H1 H2].
  cbn [cstr]. apply negb_true_iff in H1. rewrite H1, (IH H2). reflexivity.
Qed.

Corollary key_clash_nozero : forall a b,
  forallb (fun c => negb (c =? 0)) a = true -> forallb (fun c => negb (c =? 0)) b = true ->
  (key_clash a b = true <-> map tolower a = map tolower b).
Proof.
  intros a b Za Zb. rewrite key_clash_spec, (cstr_nozero a Za), (cstr_nozero b Zb). split; [tauto|].
  intro M. split; [|exact M]. rewrite <- (map_length tolower a), <- (map_length tolower b), M. reflexivity.
Qed.

Lemma key_clash_refl : forall k, key_clash k k = true.
Proof. intro k. apply key_clash_spec. split; reflexivity. Qed.

Lemma key_clash_sym : forall a b, key_clash a b = key_clash b a.
Proof.
  intros a b. apply eq_iff_eq_true. rewrite !key_clash_spec. split; intros [L M]; split; symmetry; assumption.
Qed.

(* ------------------------------------------------------------------ the sequential check against the names written so far *)
Fixpoint keys_seq (written ks : list (list Z)) : bool :=
  match ks with
  | [] => true
  | k :: r => set_ok written (zlen k) k && keys_seq (written ++ [k]) r
  end.

Lemma set_ok_eq : forall w n k, set_ok w n k = (n <=? JP_BINN_KEY_MAX) && negb (existsb (fun s => key_clash s k) w).
Proof.
  intros w n k. unfold set_ok. destruct (Z.gtb_spec n JP_BINN_KEY_MAX) as [G|G]; destruct (Z.leb_spec n JP_BINN_KEY_MAX) as [L|L];
    try lia; reflexivity.
Qed.

Lemma forallb_andb : forall (A : Type) (f g : A -> bool) l, forallb (fun x => f x && g x) l = forallb f l && forallb g l.
Proof. induction l as [|x r IH]; [reflexivity|]. cbn [forallb]. rewrite IH. btauto. Qed.
Lemma forallb_negb_existsb : forall (A : Type) (f : A -> bool) l, forallb (fun x => negb (f x)) l = negb (existsb f l).
Proof. induction l as [|x r IH]; [reflexivity|]. cbn [forallb existsb]. rewrite IH. btauto. Qed.
Lemma forallb_map : forall (A B : Type) (g : A -> B) (f : B -> bool) l, forallb f (map g l) = forallb (fun x => f (g x)) l.
Proof. induction l as [|x r IH]; [reflexivity|]. cbn [map forallb]. rewrite IH. reflexivity. Qed.
Lemma forallb_ext2 : forall (A : Type) (f g : A -> bool) l, (forall x, f x = g x) -> forallb f l = forallb g l.
Proof. intros A f g l H. induction l as [|x r IH]; [reflexivity|]. cbn [forallb]. rewrite H, IH. reflexivity. Qed.

(* checking every name against the names written before it = no name too long, no name clashing with a LATER one *)
Lemma keys_seq_spec : forall ks w,
  keys_seq w ks = forallb (fun k => negb (existsb (fun s => key_clash s k) w)) ks && keys_ok ks.
Proof.
  induction ks as [|k r IH]; intro w; [reflexivity|].
  cbn [keys_seq keys_ok forallb]. rewrite set_ok_eq, IH.
  rewrite (forallb_ext2 _ (fun k0 => negb (existsb (fun s => key_clash s k0) (w ++ [k])))
                          (fun k0 => negb (existsb (fun s => key_clash s k0) w) && negb (key_clash k k0))).
  2:{ intro k0. rewrite existsb_app. cbn [existsb]. btauto. }
  rewrite forallb_andb, (forallb_negb_existsb _ (key_clash k) r). btauto.
Qed.

Lemma keys_seq_nil : forall ks, keys_seq [] ks = keys_ok ks.
Proof.
  intro ks. rewrite keys_seq_spec. cbn [existsb negb].
  assert (E : forallb (fun _ : list Z => true) ks = true) by (induction ks; auto). rewrite E. reflexivity.
Qed.

(* keys_ok, read as a relation *)
Theorem keys_ok_spec : forall ks, keys_ok ks = true <->
  Forall (fun k => zlen k <= JP_BINN_KEY_MAX) ks /\ ForallOrdPairs (fun a b => key_clash a b = false) ks.
Proof.
  induction ks as [|k r IH]; cbn [keys_ok].
  - split; [intros _; split; constructor | reflexivity].
  - rewrite !andb_true_iff, IH, Z.leb_le, negb_true_iff. split.
    + intros [[L E] [F P]]. split; constructor; auto.
      apply Forall_forall. intros x Hx. destruct (key_clash k x) eqn:C; [|reflexivity].
      assert (X : existsb (key_clash k) r = true) by (apply existsb_exists; exists x; auto). congruence.
    + intros [F P]. inversion F; subst. inversion P; subst. repeat split; auto.
      destruct (existsb (key_clash k) r) eqn:X; [|reflexivity]. apply existsb_exists in X. destruct X as [x [Hx C]].
      rewrite Forall_forall in H3. rewrite (H3 x Hx) in C. discriminate.
Qed.

(* ------------------------------------------------------------------ the writer against the specification *)
Definition enc_ok (c : node) : Prop := wb_enc c = if representable (val c) then Some (val c) else None.

Lemma items_spec : forall l, Forall enc_ok l ->
  wb_items wb_enc l = if forallb (fun c => representable (val c)) l then Some (map val l) else None.
Proof.
  induction l as [|c r IH]; intro F; [reflexivity|].
  inversion F as [|? ? Hc Hr]; subst. rewrite wb_items_cons, Hc. cbn [forallb map].
  destruct (representable (val c)); [|reflexivity]. rewrite (IH Hr). cbn [andb].
  destruct (forallb (fun c0 => representable (val c0)) r); reflexivity.
Qed.

Lemma mkey_key_ok : forall c, key_ok c -> mkey c = n_key c /\ n_kl c = zlen (n_key c).
Proof.
  intros c K. unfold key_ok in K. unfold mkey, zlen. rewrite K, Nat2Z.id. split; [apply firstn_all | reflexivity].
Qed.

Lemma members_spec : forall l w, Forall enc_ok l -> Forall key_ok l ->
  wb_members wb_enc l w =
  if forallb (fun c => representable (val c)) l && keys_seq w (map n_key l) then Some (map kv l) else None.
Proof.
  induction l as [|c r IH]; intros w F K; [reflexivity|].
  inversion F as [|? ? Hc Hr]; subst. inversion K as [|? ? Kc Kr]; subst.
  rewrite wb_members_cons, Hc. cbn [forallb map keys_seq].
  destruct (representable (val c)); [|reflexivity]. cbn [andb].
  destruct (mkey_key_ok c Kc) as [M1 M2]. rewrite M1, M2.
  destruct (set_ok w (zlen (n_key c)) (n_key c)); [|rewrite andb_false_r; reflexivity]. cbn [andb].
  rewrite (IH (w ++ [n_key c]) Hr Kr).
  destruct (forallb (fun c0 => representable (val c0)) r && keys_seq (w ++ [n_key c]) (map n_key r)); reflexivity.
Qed.

(* _jbl_from_node_impl on a tree of the shape every API call works on (`good`: cached key lengths right, no JBV_NONE):
   it stores exactly the value of the tree when the binary form can hold that value, and fails otherwise *)
Theorem wb_enc_spec : forall n, good n -> wb_enc n = if representable (val n) then Some (val n) else None.
Proof.
  induction n as [kl key ty vi vs ch IH] using node_ind'. intros [I T]. cbn [n_ty] in T.
  apply inv_unfold in I. cbn [n_ty n_ch] in I. destruct I as [G S].
  assert (E : Forall enc_ok ch).
  { apply Forall_forall. intros c Hc. rewrite Forall_forall in IH, G. apply IH; auto. }
  rewrite wb_enc_unfold. destruct ty; try reflexivity; try contradiction.
  - (* object *)
    rewrite (members_spec ch [] E S), keys_seq_nil. cbn [val representable].
    change (map (fun c => (n_key c, val c)) ch) with (map kv ch).
    rewrite forallb_map, map_map. cbn [kv snd fst].
    destruct (forallb (fun x => representable (val x)) ch && keys_ok (map (fun x => n_key x) ch)); reflexivity.
  - (* array *)
    rewrite (items_spec ch E). cbn [val representable]. rewrite forallb_map.
    destruct (forallb (fun x => representable (val x)) ch); reflexivity.
Qed.

(* what was stored reads back as the same value, with the invariant, and can itself be stored again *)
Theorem wb_store_spec : forall n, good n ->
  wb_store n = if representable (val n) then Some (of_val 0 [] (val n)) else None.
Proof. intros n G. unfold wb_store. rewrite (wb_enc_spec n G). destruct (representable (val n)); reflexivity. Qed.

Theorem wb_store_reads_back : forall n b', good n -> wb_store n = Some b' ->
  val b' = val n /\ good b' /\ representable (val b') = true /\ wb_store b' = Some b'.
Proof.
  intros n b' G H. rewrite (wb_store_spec n G) in H. destruct (representable (val n)) eqn:R; [|discriminate].
  injection H as <-. destruct (of_val_inv (val n) 0 []) as [_ V].
  assert (G' : good (of_val 0 [] (val n))) by apply of_val_good.
  rewrite V. repeat split; try assumption; try apply G'.
  rewrite (wb_store_spec _ G'), V, R. reflexivity.
Qed.

(* ------------------------------------------------------------------ jbl_patch / jbl_patch_from_json *)
(* every operation applies per RFC 6902: the call succeeds with exactly the RFC document when the binary form can hold it;
   otherwise it reports JBL_ERROR_CREATION and the document is the one passed in *)
Theorem patch_writeback : forall fo b raw ops d',
  klidx_inv b -> raw <> [] -> parse_ops raw = inr ops -> ops_ok ops -> Forall no_root_alias (map sop_of ops) ->
  rfc_program strict (f_eq fo) (doc_val b) (map sop_of ops) = Some d' ->
  jbl_patch_model fo b raw =
  match d' with
  | None => (RcOk, zero_node)
  | Some v => if representable v then (RcOk, of_val 0 [] v) else (RcCreation, b)
  end.
Proof.
  intros fo b raw ops d' HB NE PO HO NA S.
  destruct (patch_program_rfc fo ops b d' HO NA HB S) as [P1 [P2 P3]].
  unfold jbl_patch_model, patch_binary, patch_node. destruct raw as [|r0 raw']; [contradiction|]. rewrite PO.
  destruct (apply_ops fo b ops) as [rc0 t]. cbn [fst snd] in *. subst rc0.
  destruct (ty_none_dec t) as [T|T].
  - rewrite T. rewrite (doc_val_none t T) in P2. subst d'. reflexivity.
  - rewrite (doc_val_good t T) in P2. subst d'.
    rewrite (wb_store_spec t (conj P3 T)).
    destruct (n_ty t) eqn:TT; try contradiction; destruct (representable (val t)); reflexivity.
Qed.

(* whatever fails - an operation or the write-back - the document is the one passed in *)
Theorem patch_failure_unchanged : forall fo b raw, fst (jbl_patch_model fo b raw) <> RcOk -> snd (jbl_patch_model fo b raw) = b.
Proof. intros fo b raw. unfold jbl_patch_model. apply failed_patch_leaves_binary. Qed.

(* a successful call never leaves a document the binary form cannot hold (so the next call can read and rewrite it) *)
Theorem patch_success_storable : forall fo b raw ops b',
  klidx_inv b -> wb_store b = Some b -> parse_ops raw = inr ops -> ops_ok ops ->
  jbl_patch_model fo b raw = (RcOk, b') -> b' = zero_node \/ wb_store b' = Some b'.
Proof.
  intros fo b raw ops b' HB SB PO HO H. unfold jbl_patch_model, patch_binary, patch_node in H.
  destruct raw as [|r0 raw']; [injection H as <-; right; exact SB|]. rewrite PO in H.
  pose proof (klidx_inv_preserved fo ops b HO HB) as P3.
  destruct (apply_ops fo b ops) as [rc0 t]. cbn [snd] in P3.
  destruct rc0; try discriminate.
  destruct (ty_none_dec t) as [T|T].
  - rewrite T in H. injection H as <-. left. reflexivity.
  - assert (G : good t) by (split; assumption).
    destruct (wb_store t) as [b1|] eqn:W.
    + right. destruct (wb_store_reads_back t b1 G W) as [_ [_ [_ R]]].
      destruct (n_ty t); try contradiction; injection H as <-; exact R.
    + destruct (n_ty t); try contradiction; discriminate.
Qed.

(* ------------------------------------------------------------------ jbl_merge_patch / jbl_merge_patch_jbl *)
Theorem merge_writeback : forall b patch, good b -> good patch ->
  jbl_merge_model b patch =
  if representable (merge_spec (Some (val b)) (val patch))
  then (RcOk, of_val 0 [] (merge_spec (Some (val b)) (val patch)))
  else (RcCreation, b).
Proof.
  intros b patch Gb Gp. unfold jbl_merge_model, merge_binary, jbn_merge_patch_node.
  destruct (merge_pool_rfc7386 (Some b) patch Gb Gp) as [A G]. cbn [option_map] in A.
  rewrite (wb_store_spec _ G), A. destruct (representable (merge_spec (Some (val b)) (val patch))); reflexivity.
Qed.

Theorem merge_failure_unchanged : forall b patch, fst (jbl_merge_model b patch) <> RcOk -> snd (jbl_merge_model b patch) = b.
Proof.
  intros b patch. unfold jbl_merge_model, merge_binary. destruct (wb_store _); cbn [fst snd]; [intro H; exfalso; apply H; reflexivity | reflexivity].
Qed.

(* the result of a successful merge is MergePatch(target, patch), with nothing left out *)
Corollary merge_success_is_rfc7386 : forall b patch b', good b -> good patch ->
  jbl_merge_model b patch = (RcOk, b') -> val b' = merge_spec (Some (val b)) (val patch) /\ good b'.
Proof.
  intros b patch b' Gb Gp H. rewrite (merge_writeback b patch Gb Gp) in H.
  destruct (representable _); [|discriminate]. injection H as <-. split; [apply of_val_inv | apply of_val_good].
Qed.
