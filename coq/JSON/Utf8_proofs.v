(* Proofs about the utf8proc model: the C bit arithmetic is the arithmetic UTF-8 definition of TextSpec.v *)
Require Import ZArith List Bool Lia.
Require Import IW.Lib.CInt IW.JSON.Utf8 IW.JSON.TextSpec.
Import ListNotations.
Local Open Scope Z_scope. Local Open Scope bool_scope.
Ltac Zify.zify_post_hook ::= Z.div_mod_to_equations.

(* ---------- bit operations as arithmetic *)
Lemma lor_shiftl_add : forall a b n, 0 <= n -> 0 <= b < 2 ^ n -> Z.lor (Z.shiftl a n) b = a * 2 ^ n + b.
Proof.
  intros a b n Hn Hb.
  rewrite Z.shiftl_mul_pow2 by lia.
  assert (Hl : Z.land (a * 2 ^ n) b = 0).
  { apply Z.bits_inj'. intros i Hi. rewrite Z.land_spec, Z.bits_0.
    destruct (Z_lt_ge_dec i n) as [Hlt | Hge].
    - rewrite Z.mul_pow2_bits_low by lia. reflexivity.
    - assert (Hb0 : Z.testbit b i = false).
      { destruct (Z.eq_dec b 0) as [-> | Hnz]. apply Z.bits_0.
        apply Z.bits_above_log2. lia. apply Z.log2_lt_pow2. lia.
        apply Z.lt_le_trans with (2 ^ n). lia. apply Z.pow_le_mono_r; lia. }
      rewrite Hb0. apply andb_false_r. }
  rewrite <- Z.lxor_lor by exact Hl. symmetry. apply Z.add_nocarry_lxor. exact Hl.
Qed.

Lemma land_ones' : forall x n, 0 <= n -> Z.land x (2 ^ n - 1) = x mod 2 ^ n.
Proof. intros. replace (2 ^ n - 1) with (Z.ones n) by (rewrite Z.ones_equiv; unfold Z.pred; lia). apply Z.land_ones. lia. Qed.

Lemma land63 : forall x, Z.land x 63 = x mod 64. Proof. intro. apply (land_ones' x 6). lia. Qed.
Lemma land31 : forall x, Z.land x 31 = x mod 32. Proof. intro. apply (land_ones' x 5). lia. Qed.
Lemma land15 : forall x, Z.land x 15 = x mod 16. Proof. intro. apply (land_ones' x 4). lia. Qed.
Lemma land7 : forall x, Z.land x 7 = x mod 8. Proof. intro. apply (land_ones' x 3). lia. Qed.
Lemma land1023 : forall x, Z.land x 1023 = x mod 1024. Proof. intro. apply (land_ones' x 10). lia. Qed.
Lemma shr_div : forall x n, 0 <= n -> Z.shiftr x n = x / 2 ^ n.
Proof. intros. apply Z.shiftr_div_pow2. lia. Qed.

Lemma u8_small : forall x, 0 <= x < 256 -> u8 x = x.
Proof. intros. unfold u8, uw. apply Z.mod_small. lia. Qed.

(* finite sweeps *)
Fixpoint zseq (start : Z) (n : nat) : list Z :=
  match n with O => [] | S k => start :: zseq (start + 1) k end.
Lemma zseq_in : forall n start x, start <= x < start + Z.of_nat n -> In x (zseq start n).
Proof.
  induction n as [|n IH]; intros start x H; [lia|].
  cbn [zseq]. destruct (Z.eq_dec x start) as [->|Hne]; [left; reflexivity|right]. apply IH. lia.
Qed.
Lemma range_forall : forall (P : Z -> bool) n, forallb P (zseq 0 (Z.to_nat n)) = true ->
  forall x, 0 <= x < n -> P x = true.
Proof.
  intros P n H x Hx. rewrite forallb_forall in H. apply H. apply zseq_in. lia.
Qed.

Lemma utf_cont_range : forall b, 0 <= b < 256 -> utf_cont b = true -> 128 <= b < 192.
Proof.
  intros b Hb Hc.
  assert (H := range_forall (fun b => negb (utf_cont b) || ((128 <=? b) && (b <? 192))) 256 eq_refl b Hb).
  cbv beta in H. rewrite Hc in H. simpl in H. lia.
Qed.
Lemma utf_cont_of_range : forall b, 128 <= b < 192 -> utf_cont b = true.
Proof.
  intros b Hb.
  assert (H := range_forall (fun b => negb ((128 <=? b) && (b <? 192)) || utf_cont b) 256 eq_refl b ltac:(lia)).
  cbv beta in H. replace ((128 <=? b) && (b <? 192)) with true in H by lia. exact H.
Qed.

(* ---------- utf8proc_codepoint_valid = Unicode scalar value *)
Lemma codepoint_valid_scalar : forall cp, - 2 ^ 31 <= cp < 2 ^ 31 -> (codepoint_valid cp = true <-> scalar cp).
Proof.
  intros cp Hr. unfold codepoint_valid, scalar, uw.
  rewrite andb_true_iff, Z.gtb_lt, Z.ltb_lt.
  change (2 ^ 32) with 4294967296 in *. change (2 ^ 31) with 2147483648 in *.
  split; intro H; lia.
Qed.

(* ---------- utf8proc_encode_char = utf8_enc *)
Lemma encode_char_spec : forall cp, 0 <= cp < 1114112 -> encode_char cp = utf8_enc cp.
Proof.
  intros cp H. unfold encode_char, utf8_enc.
  rewrite !land63, !shr_div by lia.
  change (2 ^ 6) with 64. change (2 ^ 12) with 4096. change (2 ^ 18) with 262144.
  destruct (cp <? 0) eqn:E0; [lia|].
  destruct (cp <? 128) eqn:E1. { rewrite u8_small by lia. reflexivity. }
  destruct (cp <? 2048) eqn:E2. { rewrite !u8_small by lia. reflexivity. }
  destruct (cp <? 65536) eqn:E3. { rewrite !u8_small by lia. reflexivity. }
  destruct (cp <? 1114112) eqn:E4; [|lia]. rewrite !u8_small by lia. reflexivity.
Qed.

Lemma utf8_enc_bytes : forall cp, 0 <= cp < 1114112 -> Forall (fun b => 0 <= b <= 255) (utf8_enc cp).
Proof.
  intros cp H. unfold utf8_enc.
  destruct (cp <? 128) eqn:E1. { repeat constructor; lia. }
  destruct (cp <? 2048) eqn:E2. { repeat constructor; lia. }
  destruct (cp <? 65536) eqn:E3; repeat constructor; lia.
Qed.

Lemma utf8_enc_len : forall cp, 1 <= Z.of_nat (length (utf8_enc cp)) <= 4.
Proof. intro cp. unfold utf8_enc. repeat (destruct (_ <? _)); simpl; lia. Qed.

(* ---------- utf8proc_iterate inverts the encoder, and whatever it accepts re-encodes to the same bytes *)
Lemma lor_acc : forall x n b, 0 <= n -> 0 <= b < 2 ^ n -> x mod 2 ^ n = 0 -> Z.lor x b = x + b.
Proof.
  intros x n b Hn Hb Hx.
  assert (Hp : 0 < 2 ^ n) by (apply Z.pow_pos_nonneg; lia).
  assert (Hx' : x = 2 ^ n * (x / 2 ^ n)) by (apply Z.div_exact; lia).
  set (q := x / 2 ^ n) in *. rewrite Hx'. rewrite (Z.mul_comm (2 ^ n) q).
  rewrite <- Z.shiftl_mul_pow2 by lia. rewrite lor_shiftl_add by lia. rewrite Z.shiftl_mul_pow2 by lia. reflexivity.
Qed.

Lemma lor_acc' : forall x n m b, 0 <= n -> m = 2 ^ n -> 0 <= b < m -> x mod m = 0 -> Z.lor x b = x + b.
Proof. intros; subst; eapply lor_acc; eauto. Qed.

Ltac shl := rewrite ?Z.shiftl_mul_pow2 by lia;
  change (2 ^ 4) with 16; change (2 ^ 6) with 64; change (2 ^ 8) with 256; change (2 ^ 10) with 1024;
  change (2 ^ 12) with 4096; change (2 ^ 18) with 262144.

Lemma lor2_6 : forall a b, 0 <= b < 64 -> Z.lor (Z.shiftl a 6) b = a * 64 + b.
Proof. intros. shl. rewrite (lor_acc' _ 6 64) by (try reflexivity; lia). reflexivity. Qed.
Lemma lor3_6 : forall a b c, 0 <= b < 64 -> 0 <= c < 64 ->
  Z.lor (Z.lor (Z.shiftl a 12) (Z.shiftl b 6)) c = a * 4096 + b * 64 + c.
Proof. intros. shl. rewrite (lor_acc' (a * 4096) 12 4096 (b * 64)) by (try reflexivity; lia). rewrite (lor_acc' _ 6 64) by (try reflexivity; lia). reflexivity. Qed.
Lemma lor4_6 : forall a b c d, 0 <= b < 64 -> 0 <= c < 64 -> 0 <= d < 64 ->
  Z.lor (Z.lor (Z.lor (Z.shiftl a 18) (Z.shiftl b 12)) (Z.shiftl c 6)) d = a * 262144 + b * 4096 + c * 64 + d.
Proof. intros. shl. rewrite (lor_acc' (a * 262144) 18 262144 (b * 4096)) by (try reflexivity; lia). rewrite (lor_acc' _ 12 4096 (c * 64)) by (try reflexivity; lia). rewrite (lor_acc' _ 6 64) by (try reflexivity; lia). reflexivity. Qed.
Lemma lor4_4 : forall a b c d, 0 <= b < 16 -> 0 <= c < 16 -> 0 <= d < 16 ->
  Z.lor (Z.lor (Z.lor (Z.shiftl a 12) (Z.shiftl b 8)) (Z.shiftl c 4)) d = a * 4096 + b * 256 + c * 16 + d.
Proof. intros. shl. rewrite (lor_acc' (a * 4096) 12 4096 (b * 256)) by (try reflexivity; lia). rewrite (lor_acc' _ 8 256 (c * 16)) by (try reflexivity; lia). rewrite (lor_acc' _ 4 16) by (try reflexivity; lia). reflexivity. Qed.

Lemma iterate_enc : forall cp rest, scalar cp ->
  iterate (utf8_enc cp ++ rest) = Some (cp, Z.of_nat (length (utf8_enc cp))).
Proof.
  intros cp rest Hs. unfold scalar in Hs. unfold utf8_enc.
  destruct (cp <? 128) eqn:E1.
  { simpl. rewrite E1. reflexivity. }
  destruct (cp <? 2048) eqn:E2.
  { cbn [app iterate length]. unfold uw. change (2 ^ 32) with 4294967296.
    replace (192 + cp / 64 <? 128) with false by lia.
    replace ((192 + cp / 64 - 194) mod 4294967296 >? 244 - 194) with false by lia.
    replace (192 + cp / 64 <? 224) with true by lia.
    rewrite utf_cont_of_range by lia. cbn [negb].
    rewrite land31, land63, lor2_6 by lia. f_equal. f_equal. lia. }
  destruct (cp <? 65536) eqn:E3.
  { cbn [app iterate length]. unfold uw. change (2 ^ 32) with 4294967296.
    replace (224 + cp / 4096 <? 128) with false by lia.
    replace ((224 + cp / 4096 - 194) mod 4294967296 >? 244 - 194) with false by lia.
    replace (224 + cp / 4096 <? 224) with false by lia.
    replace (224 + cp / 4096 <? 240) with true by lia.
    rewrite !utf_cont_of_range by lia. cbn [negb orb].
    replace ((224 + cp / 4096 =? 237) && (128 + cp / 64 mod 64 >? 159)) with false by lia.
    rewrite land15, !land63, lor3_6 by lia.
    replace ((224 + cp / 4096) mod 16 * 4096 + (128 + cp / 64 mod 64) mod 64 * 64 + (128 + cp mod 64) mod 64) with cp by lia.
    replace (cp <? 2048) with false by lia. reflexivity. }
  cbn [app iterate length]. unfold uw. change (2 ^ 32) with 4294967296.
  replace (240 + cp / 262144 <? 128) with false by lia.
  replace ((240 + cp / 262144 - 194) mod 4294967296 >? 244 - 194) with false by lia.
  replace (240 + cp / 262144 <? 224) with false by lia.
  replace (240 + cp / 262144 <? 240) with false by lia.
  rewrite !utf_cont_of_range by lia. cbn [negb orb].
  replace ((240 + cp / 262144 =? 240) && (128 + cp / 4096 mod 64 <? 144)) with false by lia.
  replace ((240 + cp / 262144 =? 244) && (128 + cp / 4096 mod 64 >? 143)) with false by lia.
  rewrite land7, !land63, lor4_6 by lia. f_equal. f_equal. lia.
Qed.

Definition byte (b : Z) : Prop := 0 <= b <= 255.

(* what iterate accepts is the encoding of a scalar value, and nothing else is consumed *)
Lemma iterate_inv : forall s cp sz, Forall byte s -> s <> [] -> iterate s = Some (cp, sz) ->
  scalar cp /\ 1 <= sz <= Z.of_nat (length s) /\ utf8_enc cp = firstn (Z.to_nat sz) s.
Proof.
  intros s cp sz Hb Hne H. destruct s as [|uc r]; [congruence|]. clear Hne.
  inversion Hb as [|? ? Huc Hr]; subst. unfold byte in Huc.
  unfold iterate in H. unfold uw in H. change (2 ^ 32) with 4294967296 in H.
  destruct (uc <? 128) eqn:E1.
  { injection H as Hcp Hsz; subst cp sz. unfold scalar, utf8_enc. rewrite E1. simpl. repeat split; lia. }
  destruct ((uc - 194) mod 4294967296 >? 244 - 194) eqn:E2; [discriminate|].
  destruct (uc <? 224) eqn:E3.
  { destruct r as [|b1 r]; [discriminate|]. inversion Hr as [|? ? Hb1 Hr1]; subst. unfold byte in Hb1.
    destruct (utf_cont b1) eqn:C1; [|discriminate]. cbn [negb] in H.
    apply utf_cont_range in C1; [|lia].
    rewrite land31, land63, lor2_6 in H by lia. injection H as Hcp Hsz; subst cp sz.
    unfold scalar, utf8_enc.
    replace (uc mod 32 * 64 + b1 mod 64 <? 128) with false by lia.
    replace (uc mod 32 * 64 + b1 mod 64 <? 2048) with true by lia.
    simpl firstn. simpl length.
    repeat split; try lia. f_equal; [lia|]. f_equal. lia. }
  destruct (uc <? 240) eqn:E4.
  { destruct r as [|b1 [|b2 r]]; try discriminate.
    inversion Hr as [|? ? Hb1 Hr1]; subst. inversion Hr1 as [|? ? Hb2 Hr2]; subst. unfold byte in Hb1, Hb2.
    destruct (utf_cont b1) eqn:C1; [|discriminate]. destruct (utf_cont b2) eqn:C2; [|discriminate].
    cbn [negb orb] in H.
    destruct ((uc =? 237) && (b1 >? 159)) eqn:E5; [discriminate|].
    apply utf_cont_range in C1; [|lia]. apply utf_cont_range in C2; [|lia].
    rewrite land15, !land63, lor3_6 in H by lia.
    destruct (uc mod 16 * 4096 + b1 mod 64 * 64 + b2 mod 64 <? 2048) eqn:E6; [discriminate|].
    injection H as Hcp Hsz; subst cp sz.
    unfold scalar, utf8_enc.
    replace (uc mod 16 * 4096 + b1 mod 64 * 64 + b2 mod 64 <? 128) with false by lia.
    rewrite E6.
    replace (uc mod 16 * 4096 + b1 mod 64 * 64 + b2 mod 64 <? 65536) with true by lia.
    simpl firstn. simpl length.
    repeat split; try lia. f_equal; [lia|]. f_equal; [lia|]. f_equal. lia. }
  destruct r as [|b1 [|b2 [|b3 r]]]; try discriminate.
  inversion Hr as [|? ? Hb1 Hr1]; subst. inversion Hr1 as [|? ? Hb2 Hr2]; subst.
  inversion Hr2 as [|? ? Hb3 Hr3]; subst. unfold byte in Hb1, Hb2, Hb3.
  destruct (utf_cont b1) eqn:C1; [|discriminate]. destruct (utf_cont b2) eqn:C2; [|discriminate].
  destruct (utf_cont b3) eqn:C3; [|discriminate].
  cbn [negb orb] in H.
  destruct ((uc =? 240) && (b1 <? 144)) eqn:E5; [discriminate|].
  destruct ((uc =? 244) && (b1 >? 143)) eqn:E6; [discriminate|].
  apply utf_cont_range in C1; [|lia]. apply utf_cont_range in C2; [|lia]. apply utf_cont_range in C3; [|lia].
  rewrite land7, !land63, lor4_6 in H by lia.
  injection H as Hcp Hsz; subst cp sz.
  unfold scalar, utf8_enc.
  replace (uc mod 8 * 262144 + b1 mod 64 * 4096 + b2 mod 64 * 64 + b3 mod 64 <? 128) with false by lia.
  replace (uc mod 8 * 262144 + b1 mod 64 * 4096 + b2 mod 64 * 64 + b3 mod 64 <? 2048) with false by lia.
  replace (uc mod 8 * 262144 + b1 mod 64 * 4096 + b2 mod 64 * 64 + b3 mod 64 <? 65536) with false by lia.
  simpl firstn. simpl length.
  repeat split; try lia. f_equal; [lia|]. f_equal; [lia|]. f_equal; [lia|]. f_equal. lia.
Qed.
