(* C15/C16: the WRITE-BACK step of the binary-form API modes (jbl_patch, jbl_patch_from_json, jbl_merge_patch,
   jbl_merge_patch_jbl): after the patch has been applied to the temporary tree, _jbl_from_node_impl writes the tree into
   a fresh binn value and only a complete value is swapped into the document.  Writing can FAIL although every
   operation succeeded on the tree: the binn object refuses a member whose name is longer than JP_BINN_KEY_MAX bytes
   or equals a name already written up to ASCII letter case (binn_object_set_raw -> SearchForKey, strnicmp), and a
   JBV_NONE node has no binary form.  Definitions only (extracted); proofs in WriteBack_proofs.v.
   The byte-level encoder with the same member rule is C14's Binn.v (enc_item); here the binary document is kept as
   the value it denotes, which is what the harness prints. *)
Require Import ZArith List Bool. Require Import IW.Gen.Facts IW.JSON.Val IW.JSON.Binn IW.JSON.Patch IW.JSON.Merge.
Import ListNotations.
Local Open Scope Z_scope.

(* the member name as the writer sees it: n->key, n->klidx *)
Definition mkey (c : node) : list Z := firstn (Z.to_nat (n_kl c)) (n_key c).

(* SearchForKey against ONE stored name: `len = *p`; len > 0: strnicmp(p, key, len) == 0 && keylen == len;
   len == 0: len == keylen.  `key` is followed by its terminator (or by further bytes that are not read: keylen == len) *)
Definition key_clash (stored key : list Z) : bool :=
  if zlen stored >? 0 then strnieq stored (key ++ [0]) (length stored) && (zlen key =? zlen stored)
  else zlen stored =? zlen key.

(* binn_object_set_raw on an object that holds the names `written` (in the order written) *)
Definition set_ok (written : list (list Z)) (keylen : Z) (key : list Z) : bool :=
  if keylen >? JP_BINN_KEY_MAX then false else negb (existsb (fun s => key_clash s key) written).

(* the two loops of _jbl_from_node_impl; `f` is the function itself *)
Definition wb_items (f : node -> option jval) : list node -> option (list jval) :=
  fix wb_items (l : list node) : option (list jval) :=
  match l with
  | [] => Some []
  | c :: r =>
    match f c with
    | None => None                                  (* RCRET(rc) after the recursive call *)
    | Some v => match wb_items r with None => None | Some vs => Some (v :: vs) end
    end
  end.
Definition wb_members (f : node -> option jval) : list node -> list (list Z) -> option (list (list Z * jval)) :=
  fix wb_members (l : list node) (written : list (list Z)) : option (list (list Z * jval)) :=
  match l with
  | [] => Some []
  | c :: r =>
    match f c with
    | None => None                                  (* RCRET(rc) after the recursive call *)
    | Some v =>
      if set_ok written (n_kl c) (mkey c)           (* binn_object_set_value2(res, n->key, n->klidx, &bv) *)
      then match wb_members r (written ++ [mkey c]) with None => None | Some ms => Some ((mkey c, v) :: ms) end
      else None                                     (* rc = JBL_ERROR_CREATION; binn_free(&bv); RCRET(rc) *)
    end
  end.

(* _jbl_from_node_impl: the value written, None = JBL_ERROR_CREATION *)
Fixpoint wb_enc (n : node) : option jval :=
  match n with
  | Node _ _ ty vi vs ch =>
    match ty with
    | TNone => None
    | TNull => Some JNull
    | TBool => Some (JBool (negb (vi =? 0)))
    | TI64 => Some (JI64 vi)
    | TF64 => Some (JF64 vi)
    | TStr => Some (JStr vs)
    | TArr => match wb_items wb_enc ch with None => None | Some items => Some (JArr items) end
    | TObj => match wb_members wb_enc ch [] with None => None | Some ms => Some (JObj ms) end
    end
  end.

(* the document as the next call reads it (_jbl_node_from_binn of what was written) *)
Definition wb_store (n : node) : option node :=
  match wb_enc n with Some v => Some (of_val 0 [] v) | None => None end.

(* jbl_patch / jbl_patch_from_json and jbl_merge_patch / jbl_merge_patch_jbl with this write-back; the binary document
   is represented by the tree _jbl_node_from_binn reads from it *)
Definition jbl_patch_model (fo : fops) (b : node) (l : list rawop) : rc * node :=
  patch_binary node (fun x => x) wb_store zero_node fo b l.
Definition jbl_merge_model (b patch : node) : rc * node :=
  merge_binary node (fun x => x) wb_store b patch.

(* ---------- what the binary form can hold, stated on values (the specification side) *)
(* member names in the order of the document: none longer than the limit, none clashing with an earlier one *)
Fixpoint keys_ok (ks : list (list Z)) : bool :=
  match ks with
  | [] => true
  | k :: r => (zlen k <=? JP_BINN_KEY_MAX) && negb (existsb (key_clash k) r) && keys_ok r
  end.
Fixpoint representable (v : jval) : bool :=
  match v with
  | JArr l => forallb representable l
  | JObj ms => forallb (fun m => representable (snd m)) ms && keys_ok (map fst ms)
  | _ => true
  end.
