(* The pure JSON value shared by all JSON models (C13-C17).  Strings and keys are byte lists (Z in 0..255);
   I64 is a 64-bit signed integer; F64 carries the 64 bits of an IEEE double (never interpreted by the models,
   only carried and compared bit for bit). Object members keep insertion order, as the library's trees do. *)
Require Import ZArith List Bool. Import ListNotations.
Local Open Scope Z_scope.

Inductive jval : Type :=
| JNull
| JBool (b : bool)
| JI64 (n : Z)
| JF64 (bits : Z)
| JStr (s : list Z)
| JArr (items : list jval)
| JObj (members : list (list Z * jval)).

Fixpoint bytes_eqb (a b : list Z) : bool :=
  match a, b with
  | [], [] => true
  | x :: a', y :: b' => (x =? y) && bytes_eqb a' b'
  | _, _ => false
  end.

(* structural equality, objects compared as ordered member lists *)
Fixpoint jval_eqb (a b : jval) : bool :=
  match a, b with
  | JNull, JNull => true
  | JBool x, JBool y => Bool.eqb x y
  | JI64 x, JI64 y => x =? y
  | JF64 x, JF64 y => x =? y
  | JStr x, JStr y => bytes_eqb x y
  | JArr xs, JArr ys =>
    (fix go (xs ys : list jval) : bool :=
       match xs, ys with
       | [], [] => true
       | x :: xs', y :: ys' => jval_eqb x y && go xs' ys'
       | _, _ => false end) xs ys
  | JObj xs, JObj ys =>
    (fix go (xs ys : list (list Z * jval)) : bool :=
       match xs, ys with
       | [], [] => true
       | (k, x) :: xs', (k', y) :: ys' => bytes_eqb k k' && jval_eqb x y && go xs' ys'
       | _, _ => false end) xs ys
  | _, _ => false
  end.
