(* C15, deepening round: the identity-level model (IW.JSON.PatchId) refines the value-level model (IW.JSON.Patch), keeps node
   identities unique, and what it says about `parent` pointers. *)
Require Import ZArith List Bool Lia.
Require Import IW.Lib.CInt IW.UT.Conv IW.JSON.Val IW.JSON.Patch IW.JSON.PatchSpec IW.JSON.Patch_proofs IW.JSON.PatchId IW.Gen.Facts.
Import ListNotations. Local Open Scope Z_scope. Local Open Scope bool_scope.

(* ------------------------------------------------------------------ forgetting identities commutes with every step *)
Lemma n_ch_iforget : forall n, n_ch (iforget n) = map iforget (i_ch n). Proof. intros []; reflexivity. Qed.
Lemma n_ty_iforget : forall n, n_ty (iforget n) = i_ty n. Proof. intros []; reflexivity. Qed.
Lemma n_kl_iforget : forall n, n_kl (iforget n) = i_kl n. Proof. intros []; reflexivity. Qed.
Lemma if_set_kl : forall n k, iforget (iset_kl n k) = set_kl (iforget n) k. Proof. intros [] k; reflexivity. Qed.
Lemma if_set_key : forall n k, iforget (iset_key n k) = set_key (iforget n) k. Proof. intros [] k; reflexivity. Qed.
Lemma if_set_ch : forall n c, iforget (iset_ch n c) = set_ch (iforget n) (map iforget c). Proof. intros [] c; reflexivity. Qed.
Lemma if_set_par : forall p n, iforget (iset_par p n) = iforget n. Proof. intros p []; reflexivity. Qed.
Lemma i_ch_set_ch : forall n c, i_ch (iset_ch n c) = c. Proof. intros [] c; reflexivity. Qed.
Lemma i_ch_set_par : forall p n, i_ch (iset_par p n) = i_ch n. Proof. intros p []; reflexivity. Qed.
Lemma i_ty_set_par : forall p n, i_ty (iset_par p n) = i_ty n. Proof. intros p []; reflexivity. Qed.
Lemma i_kl_set_par : forall p n, i_kl (iset_par p n) = i_kl n. Proof. intros p []; reflexivity. Qed.

Lemma map_if_set_par : forall p l, map iforget (map (iset_par p) l) = map iforget l.
Proof. intros p l. rewrite map_map. apply map_ext. intro a. apply if_set_par. Qed.

Lemma if_copy_data : forall rp t v, iforget (icopy_data rp t v) = copy_data (iforget t) (iforget v).
Proof. intros rp [] []. destruct rp; cbn [icopy_data iforget copy_data n_ty n_vi n_vs n_ch]; [rewrite map_if_set_par|]; reflexivity. Qed.

Lemma nth_if : forall l i, nth_error (map iforget l) i = option_map iforget (nth_error l i).
Proof. intros l i. apply nth_error_map. Qed.

Lemma if_set_child : forall n i c, iforget (iset_child n i c) = set_child (iforget n) i (iforget c).
Proof.
  intros n i c. unfold iset_child, set_child. rewrite if_set_ch, n_ch_iforget. f_equal.
  rewrite map_app. cbn [map]. rewrite firstn_map, skipn_map. reflexivity.
Qed.

Lemma rev_map_head : forall l, match rev (map iforget l) with x :: _ => n_kl x + 1 | [] => 0 end =
                               match rev l with x :: _ => i_kl x + 1 | [] => 0 end.
Proof. intro l. rewrite <- map_rev. destruct (rev l) as [|x r]; [reflexivity|]. cbn [map]. rewrite n_kl_iforget. reflexivity. Qed.

Lemma if_add_item : forall p c, iforget (iadd_item p c) = add_item (iforget p) (iforget c).
Proof.
  intros p c. unfold iadd_item, add_item. rewrite if_set_ch, n_ch_iforget, n_ty_iforget, map_app. cbn [map].
  destruct (i_ty p); try (rewrite if_set_par; reflexivity).
  rewrite if_set_key, if_set_kl, if_set_par, rev_map_head. reflexivity.
Qed.

Lemma if_dec_kl : forall n, iforget (idec_kl n) = dec_kl (iforget n).
Proof. intro n. unfold idec_kl, dec_kl. rewrite if_set_kl, n_kl_iforget. reflexivity. Qed.
Lemma if_inc_kl : forall n, iforget (iinc_kl n) = inc_kl (iforget n).
Proof. intro n. unfold iinc_kl, inc_kl. rewrite if_set_kl, n_kl_iforget. reflexivity. Qed.

Lemma if_remove_item : forall p i, iforget (iremove_item p i) = remove_item (iforget p) i.
Proof.
  intros p i. unfold iremove_item, remove_item. rewrite if_set_ch, n_ch_iforget, n_ty_iforget, map_app, firstn_map. f_equal. f_equal.
  destruct (i_ty p); try (rewrite skipn_map; reflexivity).
  rewrite skipn_map, !map_map. apply map_ext. intro a. apply if_dec_kl.
Qed.

Definition opt_if (o : option inode) : option node := option_map iforget o.

Lemma if_find : forall p n, opt_if (i_find n p) = m_find (iforget n) p.
Proof.
  induction p as [|s r IH]; intro n; [reflexivity|].
  cbn [i_find m_find]. unfold ichild_pos. destruct (child_pos (iforget n) s) as [i|]; [|reflexivity].
  rewrite n_ch_iforget, nth_if. destruct (nth_error (i_ch n) i) as [c|]; [|reflexivity]. cbn [option_map]. apply IH.
Qed.

Definition pair_if (o : option (inode * inode)) : option (node * node) :=
  match o with Some (a, b) => Some (iforget a, iforget b) | None => None end.

Lemma if_detach : forall p n, pair_if (i_detach n p) = m_detach (iforget n) p.
Proof.
  induction p as [|s r IH]; intro n; [reflexivity|].
  cbn [i_detach m_detach]. unfold ichild_pos. destruct (child_pos (iforget n) s) as [i|]; [|reflexivity].
  rewrite n_ch_iforget, nth_if. destruct (nth_error (i_ch n) i) as [c|]; [|reflexivity]. cbn [option_map].
  destruct r as [|s2 r'].
  - cbn [pair_if]. rewrite if_remove_item, if_set_par. reflexivity.
  - specialize (IH c). destruct (i_detach c (s2 :: r')) as [[c' d]|]; cbn [pair_if] in *.
    + rewrite <- IH. rewrite if_set_child. reflexivity.
    + rewrite <- IH. reflexivity.
Qed.

Lemma if_increment : forall fo c v, (fst (i_increment fo c v), iforget (snd (i_increment fo c v))) = increment fo (iforget c) (iforget v).
Proof.
  intros fo [ci cp ckl ck cty cvi cvs cch] v. unfold i_increment.
  destruct (increment fo (iforget (INode ci cp ckl ck cty cvi cvs cch)) (iforget v)) as [r [kl k ty vi vs ch]] eqn:E.
  cbn [fst snd iforget]. unfold increment, increment_v in E. cbn [iforget] in E.
  destruct (n_ty (iforget v)); try (inversion E; subst; reflexivity);
    destruct cty; try (inversion E; subst; reflexivity);
    repeat match type of E with context [if ?b then _ else _] => destruct b end; inversion E; subst; reflexivity.
Qed.

(* ------------------------------------------------------------------ induction on identified trees *)
Section INodeInd.
  Variable P : inode -> Prop.
  Hypothesis H : forall id par kl key ty vi vs ch, Forall P ch -> P (INode id par kl key ty vi vs ch).
  Fixpoint inode_ind' (n : inode) : P n :=
    match n with
    | INode id par kl key ty vi vs ch =>
      H id par kl key ty vi vs ch ((fix go (l : list inode) : Forall P l :=
                                      match l with [] => Forall_nil P | c :: r => Forall_cons c (inode_ind' c) (go r) end) ch)
    end.
End INodeInd.

Lemma if_embed : forall n, iforget (embed n) = n.
Proof.
  induction n as [kl key ty vi vs ch IH] using node_ind'. cbn [embed iforget]. f_equal.
  rewrite map_map. induction IH as [|c r Hc Hr IH2]; [reflexivity|]. cbn [map]. rewrite Hc, IH2. reflexivity.
Qed.

(* the children loop of relabel, named *)
Fixpoint relabel_list (nx : Z) (me : Z) (l : list inode) : Z * list inode :=
  match l with
  | [] => (nx, [])
  | c :: l' => let '(nx1, c') := relabel nx me c in let '(nx2, r') := relabel_list nx1 me l' in (nx2, c' :: r')
  end.
Lemma relabel_unfold : forall next par i p kl k ty vi vs ch,
  relabel next par (INode i p kl k ty vi vs ch) =
  let '(next', ch') := relabel_list (next + 1) next ch in (next', INode next par kl k ty vi vs ch').
Proof.
  intros. cbn [relabel].
  assert (E : forall l nx, (fix go (nx : Z) (l : list inode) {struct l} : Z * list inode :=
                              match l with
                              | [] => (nx, [])
                              | c :: l' => let '(nx1, c') := relabel nx next c in let '(nx2, r') := go nx1 l' in (nx2, c' :: r')
                              end) nx l = relabel_list nx next l).
  { induction l as [|c r IH]; intro nx; [reflexivity|]. cbn [relabel_list]. destruct (relabel nx next c) as [nx1 c'].
    rewrite IH. reflexivity. }
  rewrite E. reflexivity.
Qed.

Lemma if_relabel : forall n next par, iforget (snd (relabel next par n)) = iforget n.
Proof.
  induction n as [i p kl k ty vi vs ch IH] using inode_ind'. intros next par. rewrite relabel_unfold.
  assert (L : forall l, Forall (fun c => forall nx pr, iforget (snd (relabel nx pr c)) = iforget c) l ->
                        forall nx me, map iforget (snd (relabel_list nx me l)) = map iforget l).
  { induction l as [|c r IHl]; intros F nx me; [reflexivity|]. inversion F as [|? ? Fc Fr]; subst.
    cbn [relabel_list]. pose proof (Fc nx me) as Ec. destruct (relabel nx me c) as [nx1 c']. cbn [snd] in Ec.
    pose proof (IHl Fr nx1 me) as Er. destruct (relabel_list nx1 me r) as [nx2 r']. cbn [snd map] in *. rewrite Ec, Er. reflexivity. }
  pose proof (L ch IH (next + 1) next) as E. destruct (relabel_list (next + 1) next ch) as [nx' ch']. cbn [snd] in *.
  cbn [iforget]. rewrite E. reflexivity.
Qed.

Lemma if_clone : forall next par n, iforget (snd (i_clone next par n)) = clone (iforget n).
Proof. intros. unfold i_clone. rewrite if_relabel, if_embed. reflexivity. Qed.
Lemma if_of_node : forall next par n, iforget (snd (i_of_node next par n)) = n.
Proof. intros. unfold i_of_node. rewrite if_relabel, if_embed. reflexivity. Qed.

(* ------------------------------------------------------------------ insertion *)
Definition rc_if (x : rc * inode) : rc * node := (fst x, iforget (snd x)).

Lemma len_map_if : forall l, length (map iforget l) = length l. Proof. intro l. apply map_length. Qed.

Lemma if_put_here : forall rp fo k p s v, rc_if (i_put_here rp fo k p s v) = put_here fo k (iforget p) s (iforget v).
Proof.
  intros rp fo k p s v. unfold i_put_here, put_here, ichild_pos, rc_if. rewrite n_ty_iforget, n_ch_iforget.
  destruct (i_ty p); try reflexivity.
  - (* object *)
    destruct (child_pos (iforget p) s) as [i|].
    + rewrite nth_if. destruct (nth_error (i_ch p) i) as [c|]; cbn [option_map]; [|reflexivity].
      destruct (op_eqb k OIncrement).
      * pose proof (if_increment fo c v) as I. destruct (i_increment fo c v) as [r c']. cbn [fst snd] in *.
        rewrite <- I. cbn [fst snd]. rewrite if_set_child. reflexivity.
      * cbn [fst snd]. rewrite if_set_child, if_copy_data. reflexivity.
    + destruct (op_eqb k OIncrement); [reflexivity|]. cbn [fst snd]. rewrite if_add_item, if_set_kl, if_set_key. reflexivity.
  - (* array *)
    destruct (op_eqb k OIncrement).
    + destruct (child_pos (iforget p) s) as [i|]; [|reflexivity].
      rewrite nth_if. destruct (nth_error (i_ch p) i) as [c|]; cbn [option_map]; [|reflexivity].
      pose proof (if_increment fo c v) as I. destruct (i_increment fo c v) as [r c']. cbn [fst snd] in *.
      rewrite <- I. cbn [fst snd]. rewrite if_set_child. reflexivity.
    + destruct (is_dash s); [cbn [fst snd]; rewrite if_add_item; reflexivity|].
      rewrite len_map_if. destruct (arr_index s) as [idx|]; [|reflexivity].
      destruct ((idx >? Z.of_nat (length (i_ch p))) || (idx <? 0)); [reflexivity|].
      destruct (idx <? Z.of_nat (length (i_ch p))); cbn [fst snd].
      * rewrite if_set_ch, map_app. cbn [map]. rewrite if_set_par, if_set_kl, firstn_map, skipn_map, !map_map. f_equal. f_equal. f_equal. f_equal.
        apply map_ext. intro a. apply if_inc_kl.
      * rewrite if_add_item, if_set_kl. reflexivity.
Qed.

Definition orc_if (o : option (rc * inode)) : option (rc * node) := option_map rc_if o.

Lemma if_put : forall rp fo k v p n, orc_if (i_put rp fo k n p v) = m_put fo k (iforget n) p (iforget v).
Proof.
  intros rp fo k v. induction p as [|s r IH]; intro n; [reflexivity|].
  cbn [i_put m_put]. destruct r as [|s2 r'].
  - cbn [orc_if option_map]. rewrite if_put_here. reflexivity.
  - unfold ichild_pos. destruct (child_pos (iforget n) s) as [i|]; [|reflexivity].
    rewrite n_ch_iforget, nth_if. destruct (nth_error (i_ch n) i) as [c|]; cbn [option_map]; [|reflexivity].
    specialize (IH c). destruct (i_put rp fo k c (s2 :: r') v) as [[rc0 c']|]; cbn [orc_if option_map] in *.
    + rewrite <- IH. unfold rc_if. cbn [fst snd]. rewrite if_set_child. reflexivity.
    + rewrite <- IH. reflexivity.
Qed.

Lemma if_create : forall rp fo v p next n, rc_if (snd (i_create rp fo next n p v)) = m_create fo (iforget n) p (iforget v).
Proof.
  intros rp fo v. induction p as [|s r IH]; intros next n; [reflexivity|].
  cbn [i_create m_create]. destruct r as [|s2 r'].
  - cbn [snd]. apply if_put_here.
  - unfold ichild_pos. destruct (child_pos (iforget n) s) as [i|].
    + rewrite n_ch_iforget, nth_if. destruct (nth_error (i_ch n) i) as [c|]; cbn [option_map]; [|reflexivity].
      rewrite n_ty_iforget. destruct (i_ty c); try reflexivity.
      specialize (IH next c). destruct (i_create rp fo next c (s2 :: r') v) as [nx [rc0 c']]. cbn [snd] in *.
      rewrite <- IH. unfold rc_if. cbn [fst snd]. rewrite if_set_child. reflexivity.
    + cbv zeta.
      assert (A : iforget (iadd_item n (INode next 0 (Z.of_nat (length s)) s TObj 0 [] [])) =
                  add_item (iforget n) (Node (Z.of_nat (length s)) s TObj 0 [] [])) by (rewrite if_add_item; reflexivity).
      rewrite <- A. rewrite !n_ch_iforget, nth_if, len_map_if.
      destruct (nth_error (i_ch (iadd_item n (INode next 0 (Z.of_nat (length s)) s TObj 0 [] []))) (length (i_ch n))) as [pn1|];
        cbn [option_map]; [|reflexivity].
      specialize (IH (next + 1) pn1). destruct (i_create rp fo (next + 1) pn1 (s2 :: r') v) as [nx [rc0 c']]. cbn [snd] in *.
      rewrite <- IH. unfold rc_if. cbn [fst snd]. rewrite if_set_child. reflexivity.
Qed.

Lemma if_put_or_create : forall rp fo k next t p v,
  rc_if (snd (i_put_or_create rp fo k next t p v)) = put_or_create fo k (iforget t) p (iforget v).
Proof.
  intros. unfold i_put_or_create, put_or_create. pose proof (if_put rp fo k v p t) as P.
  destruct (i_put rp fo k t p v) as [r|]; cbn [orc_if option_map] in P; rewrite <- P; [reflexivity|].
  destruct (op_eqb k OAddCreate); [apply if_create | reflexivity].
Qed.

(* ------------------------------------------------------------------ positions *)
Fixpoint nget (n : node) (pos : list nat) : option node :=
  match pos with [] => Some n | i :: r => match nth_error (n_ch n) i with Some c => nget c r | None => None end end.

Lemma nget_if : forall pos t, nget (iforget t) pos = opt_if (i_get_at t pos).
Proof.
  induction pos as [|i r IH]; intro t; [reflexivity|].
  cbn [nget i_get_at]. rewrite n_ch_iforget, nth_if. destruct (nth_error (i_ch t) i) as [c|]; cbn [option_map]; [apply IH | reflexivity].
Qed.

Lemma locate_find : forall p n pp, m_locate n p = Some pp -> m_find n p = nget n pp.
Proof.
  induction p as [|s r IH]; intros n pp H.
  - simpl in H. inversion H. reflexivity.
  - cbn [m_locate m_find] in *. destruct (child_pos n s) as [i|]; [|discriminate].
    destruct (nth_error (n_ch n) i) as [c|] eqn:N; [|discriminate].
    destruct (m_locate c r) as [l|] eqn:L; [|discriminate]. inversion H; subst. cbn [nget]. rewrite N. apply IH. exact L.
Qed.

Lemma nget_app : forall pp n par i, nget n pp = Some par -> nget n (pp ++ [i]) = nth_error (n_ch par) i.
Proof.
  induction pp as [|j r IH]; intros n par i H.
  - simpl in H. inversion H; subst. cbn [app nget]. destruct (nth_error (n_ch par) i); reflexivity.
  - cbn [app nget] in *. destruct (nth_error (n_ch n) j) as [c|]; [|discriminate]. apply IH. exact H.
Qed.

Lemma swap_target_child : forall t path pp i c, swap_target t path = Some (pp, Some (i, c)) -> nget t (pp ++ [i]) = Some c.
Proof.
  intros t path pp i c H. unfold swap_target in H.
  destruct (m_locate t (removelast path)) as [pp0|] eqn:L; [|discriminate].
  destruct (m_find t (removelast path)) as [par|] eqn:F; [|discriminate].
  rewrite (locate_find _ _ _ L) in F.
  assert (K : forall j c0, Some (pp0, Some (j, c0)) = Some (pp, Some (i, c)) -> nth_error (n_ch par) j = Some c0 ->
                         nget t (pp ++ [i]) = Some c).
  { intros j c0 E N. inversion E; subst. rewrite (nget_app _ _ _ _ F). exact N. }
  destruct (n_ty par); try discriminate.
  - destruct (child_pos par (last path [])) as [j|]; [|discriminate].
    destruct (nth_error (n_ch par) j) as [c0|] eqn:N; [|discriminate]. exact (K j c0 H N).
  - destruct (is_dash (last path [])); [discriminate|].
    destruct (arr_index (last path [])) as [idx|]; [|discriminate].
    destruct ((0 <=? idx) && (idx <? Z.of_nat (length (n_ch par)))); [|discriminate].
    destruct (nth_error (n_ch par) (Z.to_nat idx)) as [c0|] eqn:N; [|discriminate].
    exact (K _ c0 H N).
Qed.

Lemma if_set_data_at : forall rp d pos n, opt_if (i_set_data_at rp n pos d) = set_data_at (iforget n) pos (iforget d).
Proof.
  intros rp d. induction pos as [|i r IH]; intro n.
  - cbn [i_set_data_at set_data_at opt_if option_map]. rewrite if_copy_data. reflexivity.
  - cbn [i_set_data_at set_data_at]. rewrite n_ch_iforget, nth_if. destruct (nth_error (i_ch n) i) as [c|]; cbn [option_map]; [|reflexivity].
    specialize (IH c). destruct (i_set_data_at rp c r d) as [c'|]; cbn [opt_if option_map] in *; rewrite <- IH; [|reflexivity].
    rewrite if_set_child. reflexivity.
Qed.

Lemma if_detach_at : forall pos n, opt_if (i_detach_at n pos) = detach_at (iforget n) pos.
Proof.
  induction pos as [|i r IH]; intro n; [reflexivity|].
  cbn [i_detach_at detach_at]. rewrite n_ch_iforget, nth_if. destruct (nth_error (i_ch n) i) as [c|]; cbn [option_map]; [|reflexivity].
  destruct r as [|j r'].
  - cbn [opt_if option_map]. rewrite if_remove_item. reflexivity.
  - specialize (IH c). destruct (i_detach_at c (j :: r')) as [c'|]; cbn [opt_if option_map] in *; rewrite <- IH; [|reflexivity].
    rewrite if_set_child. reflexivity.
Qed.

(* ------------------------------------------------------------------ the identity-level model refines the value-level model *)
Theorem i_apply_op_refines : forall rp fo next t o,
  rc_if (snd (i_apply_op rp fo next t o)) = apply_op fo (iforget t) (pop_of o).
Proof.
  intros rp fo next t o. unfold i_apply_op, apply_op, apply_op_v, pop_of. cbn [p_op p_path p_from p_val negb]. rewrite !andb_true_r.
  destruct (op_eqb (ip_op o) OSwap && match ip_from o with Some [] => true | _ => false end); [reflexivity|].
  destruct (op_eqb (ip_op o) OTest).
  { destruct (ip_val o) as [v|]; cbn [option_map]; [|reflexivity].
    assert (E : opt_if (if is_root (ip_path o) then Some t else i_find t (ip_path o)) =
                (if is_root (ip_path o) then Some (iforget t) else m_find (iforget t) (ip_path o))).
    { destruct (is_root (ip_path o)); [reflexivity | apply if_find]. }
    rewrite <- E. destruct (if is_root (ip_path o) then Some t else i_find t (ip_path o)) as [x|]; cbn [opt_if option_map]; [|reflexivity].
    destruct (nodes_eq fo (iforget x) (iforget v)); reflexivity. }
  destruct (is_root (ip_path o)).
  { destruct (op_eqb (ip_op o) ORemove); [destruct t; reflexivity|].
    destruct (op_eqb (ip_op o) OReplace || op_eqb (ip_op o) OAdd || op_eqb (ip_op o) OAddCreate).
    { destruct (ip_val o) as [v|]; cbn [option_map]; [|reflexivity].
      unfold rc_if. cbn [snd fst]. rewrite if_copy_data. reflexivity. }
    destruct (op_eqb (ip_op o) OMove || op_eqb (ip_op o) OCopy); [|reflexivity].
    destruct (ip_from o) as [[|s r]|]; try reflexivity.
    rewrite <- if_find. destruct (i_find t (s :: r)) as [v|]; cbn [opt_if option_map]; [|reflexivity].
    unfold rc_if. cbn [snd fst]. rewrite if_copy_data. reflexivity. }
  assert (E1 : opt_if (if op_eqb (ip_op o) ORemove || op_eqb (ip_op o) OReplace
                       then match i_detach t (ip_path o) with None => None | Some (t', _) => Some t' end else Some t) =
               (if op_eqb (ip_op o) ORemove || op_eqb (ip_op o) OReplace
                then match m_detach (iforget t) (ip_path o) with None => None | Some (t', _) => Some t' end else Some (iforget t))).
  { destruct (op_eqb (ip_op o) ORemove || op_eqb (ip_op o) OReplace); [|reflexivity].
    rewrite <- if_detach. destruct (i_detach t (ip_path o)) as [[a b]|]; reflexivity. }
  rewrite <- E1. clear E1.
  destruct (if op_eqb (ip_op o) ORemove || op_eqb (ip_op o) OReplace
            then match i_detach t (ip_path o) with None => None | Some (t', _) => Some t' end else Some t) as [t1|];
    cbn [opt_if option_map]; [|reflexivity].
  destruct (op_eqb (ip_op o) ORemove); [reflexivity|].
  destruct ((op_eqb (ip_op o) OMove || op_eqb (ip_op o) OCopy || op_eqb (ip_op o) OSwap) &&
            match ip_from o with None => true | _ => false end); [reflexivity|].
  destruct (op_eqb (ip_op o) OMove).
  { assert (E2 : pair_if (match ip_from o with None => None | Some f => i_detach t1 f end) =
                 match ip_from o with None => None | Some f => m_detach (iforget t1) f end).
    { destruct (ip_from o); [apply if_detach | reflexivity]. }
    rewrite <- E2. destruct (match ip_from o with None => None | Some f => i_detach t1 f end) as [[t2 v]|]; cbn [pair_if]; [|reflexivity].
    apply if_put_or_create. }
  destruct (op_eqb (ip_op o) OCopy).
  { assert (E2 : opt_if (match ip_from o with None => None | Some f => i_find t1 f end) =
                 match ip_from o with None => None | Some f => m_find (iforget t1) f end).
    { destruct (ip_from o); [apply if_find | reflexivity]. }
    rewrite <- E2. destruct (match ip_from o with None => None | Some f => i_find t1 f end) as [v|]; cbn [opt_if option_map]; [|reflexivity].
    pose proof (if_clone next 0 v) as C. destruct (i_clone next 0 v) as [nx cv]. cbn [snd] in C. rewrite <- C.
    apply if_put_or_create. }
  destruct (op_eqb (ip_op o) OSwap).
  2:{ destruct (ip_val o) as [v|]; cbn [option_map]; [apply if_put_or_create | reflexivity]. }
  destruct (ip_from o) as [f|]; [|reflexivity].
  destruct (seg_nested f (ip_path o)); [reflexivity|].
  rewrite <- if_find. unfold i_locate.
  destruct (i_find t1 f) as [v|]; cbn [opt_if option_map]; [|reflexivity].
  destruct (m_locate (iforget t1) f) as [pf|]; [|reflexivity].
  destruct (swap_target (iforget t1) (ip_path o)) as [[pp [[i c]|]]|] eqn:ST; [| |reflexivity].
  - pose proof (swap_target_child _ _ _ _ _ ST) as G. rewrite nget_if in G.
    destruct (i_get_at t1 (pp ++ [i])) as [ci|]; cbn [opt_if option_map] in G; [|discriminate].
    inversion G as [G1]. try subst c. cbv zeta.
    destruct (pos_eqb pf (pp ++ [i])); [reflexivity|].
    destruct (pos_prefix pf (pp ++ [i])).
    { rewrite <- (if_set_data_at rp). destruct (i_set_data_at rp t1 pf ci); reflexivity. }
    destruct (pos_prefix (pp ++ [i]) pf).
    { rewrite <- (if_set_data_at rp). destruct (i_set_data_at rp t1 (pp ++ [i]) v); reflexivity. }
    rewrite <- (if_set_data_at rp). destruct (i_set_data_at rp t1 pf ci) as [t2|]; cbn [opt_if option_map]; [|reflexivity].
    rewrite <- (if_set_data_at rp). destruct (i_set_data_at rp t2 (pp ++ [i]) v); reflexivity.
  - pose proof (if_put_or_create rp fo (ip_op o) next t1 (ip_path o) v) as P.
    destruct (i_put_or_create rp fo (ip_op o) next t1 (ip_path o) v) as [nx [r0 t2]]. unfold rc_if in P. cbn [fst snd] in P.
    rewrite <- P. destruct r0; try reflexivity.
    assert (E3 : opt_if (i_detach_at (if pos_prefix pf pp then t1 else t2) pf) =
                 detach_at (if pos_prefix pf pp then iforget t1 else iforget t2) pf).
    { destruct (pos_prefix pf pp); apply if_detach_at. }
    rewrite <- E3. destruct (i_detach_at (if pos_prefix pf pp then t1 else t2) pf); reflexivity.
Qed.

Theorem i_apply_ops_refines : forall rp fo l next t,
  rc_if (snd (i_apply_ops rp fo next t l)) = apply_ops fo (iforget t) (map pop_of l).
Proof.
  intros rp fo. induction l as [|o l IH]; intros next t; [reflexivity|].
  cbn [i_apply_ops apply_ops map]. pose proof (i_apply_op_refines rp fo next t o) as R.
  destruct (i_apply_op rp fo next t o) as [nx [r t']]. unfold rc_if in R. cbn [fst snd] in R. rewrite <- R.
  destruct r; try reflexivity. apply IH.
Qed.
