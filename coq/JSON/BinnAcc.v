(* C14 (family jbinn), deepening round: the READ side of the binary form beyond jbl_to_node / jbl_at -
   the printer _jbl_as_json (iwjson.c) walking the binn iterators, jbl_type / jbl_count, the public iterator
   (jbl_iterator_init / jbl_iterator_next), the keyed accessors jbl_object_get_type / _fill_jbl / _i64 / _f64 / _bool /
   _str (binn_object_get_value -> SearchForKey with strnicmp; binn_object_get -> copy_value), and the executable size
   guard of the encoder (what binn_save_header accepts).  Definitions only; proofs in BinnAcc_proofs.v.

   The string writer, the integer writer and the print flags are C13's (JSON/Text.v), imported - not copied.
   Not modelled: BINN_MAP containers, BINN_FLOAT32 values and the exotic binn types (HTML, BLOB, DATE ...) - the JSON
   layer never writes them; they answer BE_UNMODELLED / GUnmodelled. *)
Require Import ZArith List Bool. Import ListNotations.
Require Import IW.Gen.Facts IW.JSON.Val IW.JSON.Binn IW.JSON.Text.
Local Open Scope Z_scope.

(* ---------------------------------------------------------------- size of the encoding, without building it *)
(* binn_save_header: total size of a container whose items occupy blen bytes *)
Definition hdr_total (blen cnt : Z) : Z :=
  let size0 := blen + jbinn_MIN_BINN_SIZE in
  let size1 := if cnt >? 127 then size0 + 3 else size0 in
  if size1 >? 127 then size1 + 3 else size1.

Fixpoint enc_size (v : jval) : Z :=
  match v with
  | JNull | JBool _ => 1
  | JI64 n => 1 + Z.of_nat (snd (compress_int n))
  | JF64 _ => 9
  | JStr s => let s' := if jbinn_STRING_KEEPS_NUL =? 1 then s else cstr s in
              1 + (if zlen s' >? 127 then 4 else 1) + zlen s' + 1
  | JArr items => hdr_total (fold_right (fun x a => enc_size x + a) 0 items) (zlen items)
  | JObj ms => hdr_total (fold_right (fun m a => 1 + zlen (fst m) + enc_size (snd m) + a) 0 ms) (zlen ms)
  end.

Definition BINN_MAX_SIZE : Z := 2147483647.     (* INT_MAX: `size2 > 2147483647` of save_header *)

(* every container of the document stays within the size binn_save_header can write *)
Fixpoint fits (v : jval) : bool :=
  match v with
  | JArr items => forallb fits items && (enc_size v <=? BINN_MAX_SIZE)
  | JObj ms => forallb (fun m => fits (snd m)) ms && (enc_size v <=? BINN_MAX_SIZE)
  | _ => true
  end.

Definition is_container (v : jval) : bool := match v with JObj _ | JArr _ => true | _ => false end.

(* the key part of the guard in C14's own vocabulary: every member name has at most 255 bytes and no two names of one
   object are equal ignoring ASCII case *)
Fixpoint keys_fit (v : jval) : bool :=
  match v with
  | JArr items => forallb keys_fit items
  | JObj ms => forallb (fun m => (zlen (fst m) <=? jbinn_MAX_BIN_KEY_LEN) && keys_fit (snd m)) ms && keys_unique (map fst ms)
  | _ => true
  end.

(* what a C tree can hold at all: strings and names are C strings of bytes, integers are int64, doubles 64 bits *)
Fixpoint cdom (v : jval) : bool :=
  match v with
  | JNull | JBool _ => true
  | JI64 n => (- 2 ^ 63 <=? n) && (n <? 2 ^ 63)
  | JF64 b => (0 <=? b) && (b <? 2 ^ 64)
  | JStr s => forallb char_ok s
  | JArr items => forallb cdom items
  | JObj ms => forallb (fun m => forallb char_ok (fst m) && cdom (snd m)) ms
  end.

(* ---------------------------------------------------------------- _jbl_as_json on a binn value
   (indentation `lvl * indent + indent` like the tree printer since d42c39c; before, one space per level) *)
Inductive berr := BE_INVALID | BE_ASSERT | BE_UNMODELLED | BE_FUEL | BE_TEXT (e : perr).
Inductive bres (A : Type) := BOk (a : A) | BErr (e : berr).
Arguments BOk {A}. Arguments BErr {A}.

Definition lift {A} (r : res A) : bres A := match r with Ok a => BOk a | Err e => BErr (BE_TEXT e) end.

Section PrintBinn.
  Variable fo : Z -> list Z.          (* iwjson_ftoa, as in JSON/Text.v *)
  Variable pf : Z.

  (* the scalar cases of the switch *)
  Definition print_bscalar (b : bval) : bres (list Z) :=
    let t := bt b in
    if t =? jbinn_BINN_STRING then
      (* _jbl_write_json_string(bn->ptr, bn->size > 0 ? bn->size : -1, ..) *)
      lift (write_json_string pf (if bsize b >? 0 then zfirst (bsize b) (bptr b) else cstr0 (bptr b)))
    else if t =? jbinn_BINN_UINT8 then lift (write_int (bnum b mod 2 ^ 8))
    else if t =? jbinn_BINN_UINT16 then lift (write_int (bnum b mod 2 ^ 16))
    else if t =? jbinn_BINN_UINT32 then lift (write_int (bnum b mod 2 ^ 32))
    else if t =? jbinn_BINN_INT8 then lift (write_int (sx 8 (bnum b)))
    else if t =? jbinn_BINN_INT16 then lift (write_int (sx 16 (bnum b)))
    else if t =? jbinn_BINN_INT32 then lift (write_int (sx 32 (bnum b)))
    else if t =? jbinn_BINN_INT64 then lift (write_int (sx 64 (bnum b)))
    else if t =? jbinn_BINN_UINT64 then lift (write_int (sx 64 (bnum b)))
    else if t =? jbinn_BINN_FLOAT32 then BErr BE_UNMODELLED
    else if t =? jbinn_BINN_FLOAT64 then BOk (fo (bnum b))
    else if t =? jbinn_BINN_TRUE then BOk [116; 114; 117; 101]
    else if t =? jbinn_BINN_FALSE then BOk [102; 97; 108; 115; 101]
    else if t =? jbinn_BINN_BOOL then
      BOk (if negb (bnum b mod 2 ^ 32 =? 0) then [116; 114; 117; 101] else [102; 97; 108; 115; 101])
    else if t =? jbinn_BINN_NULL then BOk [110; 117; 108; 108]
    else BErr BE_ASSERT.

  Fixpoint print_binn (fuel : nat) (lvl : Z) (b : bval) : bres (list Z) :=
    match fuel with
    | O => BErr BE_FUEL
    | S f =>
      let pretty := has pf JBL_PRINT_PRETTY in
      let cnt := bcount b in                                   (* bn->count *)
      let nl := if negb (cnt =? 0) && pretty then [10] else [] in
      let ind := if negb (cnt =? 0) && pretty then rep 32 (lvl * indent pf) else [] in
      if bt b =? jbinn_BINN_LIST then
        match iter_init (bptr b) jbinn_BINN_LIST with
        | None => BErr BE_INVALID
        | Some it =>
          match (fix go (l : list bval) (i : Z) : bres (list Z) :=
                   match l with
                   | [] => BOk []
                   | x :: r =>
                     match print_binn f (lvl + 1) x with
                     | BErr e => BErr e
                     | BOk a =>
                       match go r (i + 1) with
                       | BErr e => BErr e
                       | BOk rest =>
                         BOk ((if pretty then rep 32 (lvl * indent pf + indent pf) else []) ++ a
                              ++ (if i <? cnt - 1 then [44] else []) ++ (if pretty then [10] else []) ++ rest)
                       end
                     end
                   end) (list_items (iter_fuel it) it) 0 with
          | BErr e => BErr e
          | BOk body => BOk ([91] ++ nl ++ body ++ ind ++ [93])
          end
        end
      else if bt b =? jbinn_BINN_OBJECT then
        match iter_init (bptr b) jbinn_BINN_OBJECT with
        | None => BErr BE_INVALID
        | Some it =>
          match (fix go (l : list (list Z * bval)) (i : Z) : bres (list Z) :=
                   match l with
                   | [] => BOk []
                   | (k, x) :: r =>
                     (* binn_object_next copies the name into key[256] and terminates it; printed with len = -1 *)
                     match write_json_string pf (cstr0 k) with
                     | Err e => BErr (BE_TEXT e)
                     | Ok kt =>
                       match print_binn f (lvl + 1) x with
                       | BErr e => BErr e
                       | BOk a =>
                         match go r (i + 1) with
                         | BErr e => BErr e
                         | BOk rest =>
                           BOk ((if pretty then rep 32 (lvl * indent pf + indent pf) else []) ++ kt
                                ++ (if pretty then [58; 32] else [58]) ++ a
                                ++ (if i <? cnt - 1 then [44] else []) ++ (if pretty then [10] else []) ++ rest)
                         end
                       end
                     end
                   end) (obj_items (iter_fuel it) it) 0 with
          | BErr e => BErr e
          | BOk body => BOk ([123] ++ nl ++ body ++ ind ++ [125])
          end
        end
      else if bt b =? jbinn_BINN_MAP then BErr BE_UNMODELLED
      else print_bscalar b
    end.
End PrintBinn.

(* jbl_as_json on a document held in the buffer bs (jbl_from_buf_keep + jbl_as_json) *)
Definition jbl_as_json_binn (fo : Z -> list Z) (pf : Z) (bs : list Z) : bres (list Z) :=
  match root_bval bs with
  | None => BErr BE_INVALID
  | Some b => print_binn fo pf (S (length bs)) 0 b
  end.

(* ---------------------------------------------------------------- jbl_type, jbl_count *)
(* _jbl_binn_type *)
Definition binn_type_jbv (t : Z) : Z :=
  if t =? jbinn_BINN_NULL then JP_JBV_NULL
  else if t =? jbinn_BINN_STRING then JP_JBV_STR
  else if (t =? jbinn_BINN_OBJECT) || (t =? jbinn_BINN_MAP) then JP_JBV_OBJECT
  else if t =? jbinn_BINN_LIST then JP_JBV_ARRAY
  else if (t =? jbinn_BINN_BOOL) || (t =? jbinn_BINN_TRUE) || (t =? jbinn_BINN_FALSE) then JP_JBV_BOOL
  else if (t =? jbinn_BINN_UINT8) || (t =? jbinn_BINN_UINT16) || (t =? jbinn_BINN_UINT32) || (t =? jbinn_BINN_UINT64)
          || (t =? jbinn_BINN_INT8) || (t =? jbinn_BINN_INT16) || (t =? jbinn_BINN_INT32) || (t =? jbinn_BINN_INT64)
       then JP_JBV_I64
  else if (t =? jbinn_BINN_FLOAT32) || (t =? jbinn_BINN_FLOAT64) then JP_JBV_F64
  else JP_JBV_NONE.

Definition jbl_type (b : bval) : Z := binn_type_jbv (bt b).
Definition jbl_count (b : bval) : Z := bcount b.
(* jbl_size: bn.size, the size field of the header (of a document whose header has been written: a read-only document, or a
   writable one after binn_save_header; see notes/jbinn.md for the stale value the library reports before that) *)
Definition jbl_size (b : bval) : Z := bsize b.

(* the type tag of a tree node *)
Definition jval_type (v : jval) : Z :=
  match v with
  | JNull => JP_JBV_NULL | JBool _ => JP_JBV_BOOL | JI64 _ => JP_JBV_I64 | JF64 _ => JP_JBV_F64
  | JStr _ => JP_JBV_STR | JArr _ => JP_JBV_ARRAY | JObj _ => JP_JBV_OBJECT
  end.

(* ---------------------------------------------------------------- jbl_iterator_init / jbl_iterator_next *)
Inductive jiter := JI_zero                 (* memset(iter, 0): a scalar, jbl_iterator_next yields nothing *)
                 | JI_it (it : biter).

(* None = JBL_ERROR_CREATION *)
Definition jbl_iterator_init (b : bval) : option jiter :=
  let t := bt b in
  if negb ((t =? jbinn_BINN_OBJECT) || (t =? jbinn_BINN_LIST) || (t =? jbinn_BINN_MAP)) then Some JI_zero
  else match iter_init (bptr b) t with
       | None => None
       | Some it => Some (JI_it it)
       end.

(* what the call stores through pkey and klen, holder->bn, and the iterator afterwards; for an array the number stored
   through klen is the index (iter->current before the call) *)
Definition jbl_iterator_next (ji : jiter) : option (option (list Z) * Z * bval * jiter) :=
  match ji with
  | JI_zero => None
  | JI_it it =>
    if it_type it =? 0 then None
    else if it_type it =? jbinn_BINN_LIST then
      match list_next it with
      | None => None
      | Some (b, it') => Some (None, it_cur it, b, JI_it it')
      end
    else if it_type it =? jbinn_BINN_OBJECT then
      match object_next it with                                  (* binn_read_next_pair2 *)
      | None => None
      | Some (k, b, it') => Some (Some k, zlen k, b, JI_it it')
      end
    else None                                                    (* BINN_MAP: not modelled *)
  end.

(* while (jbl_iterator_next(..)) collect *)
Fixpoint jbl_iterate (n : nat) (ji : jiter) : list (option (list Z) * Z * bval) :=
  match n with
  | O => []
  | S k => match jbl_iterator_next ji with
           | None => []
           | Some (key, kl, b, ji') => (key, kl, b) :: jbl_iterate k ji'
           end
  end.

Definition jiter_fuel (ji : jiter) : nat := match ji with JI_zero => 1%nat | JI_it it => iter_fuel it end.

(* the members of the container b as the public iterator hands them out; None = jbl_iterator_init failed *)
Definition jbl_members (b : bval) : option (list (option (list Z) * Z * bval)) :=
  match jbl_iterator_init b with
  | None => None
  | Some ji => Some (jbl_iterate (jiter_fuel ji) ji)
  end.

(* ---------------------------------------------------------------- binn_object_get_value and the jbl_object_get_* family *)
(* SearchForKey returning the position behind the name that matched (None = NULL); same walk as Binn.search_key *)
Fixpoint search_pos (n : nat) (p : list Z) (rem : Z) (key : list Z) : option (list Z) :=
  match n with
  | O => None
  | S k =>
    match p with
    | [] => None
    | len :: p1 =>
      let r1 := rem - 1 in
      if r1 <=? 0 then None
      else
        let next (q : list Z) (r : Z) :=
          match advance q r with
          | None => None
          | Some (q', r') => search_pos k q' r' key
          end in
        if len >? 0 then
          if strnieq p1 (key ++ [0]) (Z.to_nat len) && (zlen key =? len) then Some (zskip len p1)
          else if r1 - len <=? 0 then None
               else next (zskip len p1) (r1 - len)
        else if len =? zlen key then Some p1
             else next p1 r1
    end
  end.

(* binn_object_get_value(&jbl->bn, key, &value); key is a C string *)
Definition object_get_value (b : bval) (key : list Z) : option bval :=
  match read_hdr (bptr b) with
  | None => None
  | Some (ty, size, count, hs) =>
    if negb (ty =? jbinn_BINN_OBJECT) then None
    else if count =? 0 then None
    else match search_pos (Z.to_nat count) (zskip hs (bptr b)) (size - hs) (cstr key) with
         | None => None
         | Some p => get_value p
         end
  end.

Definition G_OK : Z := 0.
Definition G_NOT_AN_OBJECT : Z := 1.      (* JBL_ERROR_NOT_AN_OBJECT *)
Definition G_CREATION : Z := 2.           (* JBL_ERROR_CREATION: no such member, or the member has another type family *)
Definition G_UNMODELLED : Z := 3.         (* a binn type the JSON layer never writes *)

(* jbl_object_get_type *)
Definition jbl_object_get_type (b : bval) (key : list Z) : Z :=
  if negb (bt b =? jbinn_BINN_OBJECT) then JP_JBV_NONE
  else match object_get_value b key with
       | None => JP_JBV_NONE
       | Some bv => binn_type_jbv (bt bv)
       end.

(* jbl_object_get_fill_jbl: rc and out->bn *)
Definition jbl_object_get_fill (b : bval) (key : list Z) : Z * option bval :=
  if negb (bt b =? jbinn_BINN_OBJECT) then (G_NOT_AN_OBJECT, None)
  else match object_get_value b key with
       | None => (G_CREATION, None)
       | Some bv => (G_OK, Some bv)
       end.

Definition is_int_type (t : Z) : bool :=
  (t =? jbinn_BINN_UINT8) || (t =? jbinn_BINN_UINT16) || (t =? jbinn_BINN_UINT32) || (t =? jbinn_BINN_UINT64)
  || (t =? jbinn_BINN_INT8) || (t =? jbinn_BINN_INT16) || (t =? jbinn_BINN_INT32) || (t =? jbinn_BINN_INT64).

(* the types GetValue yields for documents the JSON layer wrote (type_family is total on them) *)
Definition known_type (t : Z) : bool :=
  is_int_type t || (t =? jbinn_BINN_FLOAT64) || (t =? jbinn_BINN_STRING) || (t =? jbinn_BINN_BOOL) || (t =? jbinn_BINN_NULL)
  || (t =? jbinn_BINN_LIST) || (t =? jbinn_BINN_OBJECT).

(* copy_value(.., source_type, BINN_INT64, ..) on an integer: copy_int_value, or the raw copy when the source is INT64 *)
Definition int64_of_bval (b : bval) : option Z :=
  let t := bt b in
  if t =? jbinn_BINN_UINT8 then Some (bnum b mod 2 ^ 8)
  else if t =? jbinn_BINN_UINT16 then Some (bnum b mod 2 ^ 16)
  else if t =? jbinn_BINN_UINT32 then Some (bnum b mod 2 ^ 32)
  else if t =? jbinn_BINN_UINT64 then (if bnum b mod 2 ^ 64 >? 2 ^ 63 - 1 then None else Some (bnum b mod 2 ^ 64))
  else if t =? jbinn_BINN_INT8 then Some (sx 8 (bnum b))
  else if t =? jbinn_BINN_INT16 then Some (sx 16 (bnum b))
  else if t =? jbinn_BINN_INT32 then Some (sx 32 (bnum b))
  else if t =? jbinn_BINN_INT64 then Some (sx 64 (bnum b))
  else None.

(* jbl_object_get_i64: rc and *out *)
Definition jbl_object_get_i64 (b : bval) (key : list Z) : Z * Z :=
  if negb (bt b =? jbinn_BINN_OBJECT) then (G_NOT_AN_OBJECT, 0)
  else match object_get_value b key with
       | None => (G_CREATION, 0)
       | Some bv =>
         if negb (known_type (bt bv)) then (G_UNMODELLED, 0)
         else match int64_of_bval bv with
              | Some n => (G_OK, n)
              | None => (G_CREATION, 0)
              end
       end.

(* jbl_object_get_f64: rc and the bits of *out *)
Definition jbl_object_get_f64 (b : bval) (key : list Z) : Z * Z :=
  if negb (bt b =? jbinn_BINN_OBJECT) then (G_NOT_AN_OBJECT, 0)
  else match object_get_value b key with
       | None => (G_CREATION, 0)
       | Some bv =>
         if negb (known_type (bt bv)) then (G_UNMODELLED, 0)
         else if bt bv =? jbinn_BINN_FLOAT64 then (G_OK, bnum bv mod 2 ^ 64)
         else (G_CREATION, 0)
       end.

(* jbl_object_get_bool *)
Definition jbl_object_get_bool (b : bval) (key : list Z) : Z * bool :=
  if negb (bt b =? jbinn_BINN_OBJECT) then (G_NOT_AN_OBJECT, false)
  else match object_get_value b key with
       | None => (G_CREATION, false)
       | Some bv =>
         if negb (known_type (bt bv)) then (G_UNMODELLED, false)
         else if bt bv =? jbinn_BINN_BOOL then (G_OK, negb (bnum bv mod 2 ^ 32 =? 0))
         else (G_CREATION, false)
       end.

(* jbl_object_get_str: rc and the C string *out points to *)
Definition jbl_object_get_str (b : bval) (key : list Z) : Z * list Z :=
  if negb (bt b =? jbinn_BINN_OBJECT) then (G_NOT_AN_OBJECT, [])
  else match object_get_value b key with
       | None => (G_CREATION, [])
       | Some bv =>
         if negb (known_type (bt bv)) then (G_UNMODELLED, [])
         else if bt bv =? jbinn_BINN_STRING then (G_OK, cstr (bptr bv))
         else (G_CREATION, [])
       end.

(* ---------------------------------------------------------------- the specification side of the keyed accessors *)
(* the member the case-folding rule designates: the first one whose name equals `key` ignoring ASCII case *)
Fixpoint find_ci (key : list Z) (ms : list (list Z * jval)) : option jval :=
  match ms with
  | [] => None
  | (k, x) :: r => if key_ieq k key then Some x else find_ci key r
  end.
