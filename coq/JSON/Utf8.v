(* src/utils/utf8proc.c: utf8proc_codepoint_valid, utf8proc_encode_char, utf8proc_iterate - the three entry
   points used by the JSON text parser (\uXXXX -> bytes) and printer (bytes -> \uXXXX with JBL_PRINT_CODEPOINTS).
   Bytes and code points are Z; the C bit operations are kept as Z.land/Z.lor/Z.shiftl/Z.shiftr. *)
Require Import ZArith List Bool. Require Import IW.Lib.CInt. Import ListNotations.
Local Open Scope Z_scope. Local Open Scope bool_scope.

(* (((utf8proc_uint32_t) uc) - 0xd800 > 0x07ff) && ((utf8proc_uint32_t) uc < 0x110000) *)
Definition codepoint_valid (uc : Z) : bool :=
  (uw 32 (uw 32 uc - 55296) >? 2047) && (uw 32 uc <? 1114112).

Definition u8 (x : Z) : Z := uw 8 x.

(* returns the bytes written to dst (their number is the C return value; 0 = not encodable) *)
Definition encode_char (uc : Z) : list Z :=
  if uc <? 0 then []
  else if uc <? 128 then [u8 uc]
  else if uc <? 2048 then [u8 (192 + Z.shiftr uc 6); u8 (128 + Z.land uc 63)]
  else if uc <? 65536 then
    [u8 (224 + Z.shiftr uc 12); u8 (128 + Z.land (Z.shiftr uc 6) 63); u8 (128 + Z.land uc 63)]
  else if uc <? 1114112 then
    [u8 (240 + Z.shiftr uc 18); u8 (128 + Z.land (Z.shiftr uc 12) 63);
     u8 (128 + Z.land (Z.shiftr uc 6) 63); u8 (128 + Z.land uc 63)]
  else [].

Definition utf_cont (ch : Z) : bool := Z.land ch 192 =? 128.

(* utf8proc_iterate(str, strlen, &dst) with strlen = length s >= 0 (the printer passes len - i).
   None = UTF8PROC_ERROR_INVALIDUTF8, Some (code point, bytes consumed). *)
Definition iterate (s : list Z) : option (Z * Z) :=
  match s with
  | [] => Some (-1, 0)
  | uc :: r =>
    if uc <? 128 then Some (uc, 1)
    else if uw 32 (uc - 194) >? 244 - 194 then None
    else if uc <? 224 then
      match r with
      | b1 :: _ => if negb (utf_cont b1) then None
                   else Some (Z.lor (Z.shiftl (Z.land uc 31) 6) (Z.land b1 63), 2)
      | _ => None
      end
    else if uc <? 240 then
      match r with
      | b1 :: b2 :: _ =>
        if negb (utf_cont b1) || negb (utf_cont b2) then None
        else if (uc =? 237) && (b1 >? 159) then None
        else let c := Z.lor (Z.lor (Z.shiftl (Z.land uc 15) 12) (Z.shiftl (Z.land b1 63) 6)) (Z.land b2 63) in
             if c <? 2048 then None else Some (c, 3)
      | _ => None
      end
    else
      match r with
      | b1 :: b2 :: b3 :: _ =>
        if negb (utf_cont b1) || negb (utf_cont b2) || negb (utf_cont b3) then None
        else if (uc =? 240) && (b1 <? 144) then None
        else if (uc =? 244) && (b1 >? 143) then None
        else Some (Z.lor (Z.lor (Z.lor (Z.shiftl (Z.land uc 7) 18) (Z.shiftl (Z.land b1 63) 12))
                                (Z.shiftl (Z.land b2 63) 6)) (Z.land b3 63), 4)
      | _ => None
      end
  end.
