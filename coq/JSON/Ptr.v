(* C14 (family jbinn): JSON Pointer parsing (_jbl_ptr_pool) and the two look-up engines of iwjson.c:
   jbn_at/jbn_at2 (jbn_visit + _jbn_get_visitor + _jbn_visitor_update_jptr_cursor) on the tree form and
   jbl_at/jbl_at2 (_jbl_visit + _jbl_get_visitor + _jbl_visitor_update_jptr_cursor) on the binary form,
   the RFC 6901 specification they are compared with, and jbn_clone (visitor based copy of a tree).

   Both visitors are one depth-first walk over ALL children with a cursor `pos` (deepest level whose segment
   matched on the current path); it is written once (`visit`) over an abstract node type and instantiated with the
   children of a jval (tree) and with the binn iterators (binary form).
   Tree nodes carry a cached index `klidx`; the model takes it to be the position of the element (what the parser,
   _jbl_create_node and _jbn_add_item on a fresh array produce; C15 is about trees where that fails). *)
Require Import ZArith List Bool Lia. Import ListNotations.
Require Import IW.JSON.Val IW.JSON.Binn IW.Gen.Facts.
Local Open Scope Z_scope.

(* ---------------------------------------------------------------- _jbl_ptr_pool *)
Inductive pres : Type :=
| PErr                                (* JBL_ERROR_JSON_POINTER *)
| PUndef                              (* no longer produced: '~' not followed by '0'/'1' used to leave an uninitialised byte
                                         in the segment; the code now answers JBL_ERROR_JSON_POINTER (PErr) *)
| POk (segs : list (list Z)).

(* the inner loop: copies one segment, p is just after a '/'; returns the segment and the rest, which starts at the
   next '/' or is empty *)
Fixpoint seg_scan (p : list Z) (acc : list Z) : option (list Z * list Z) :=
  match p with
  | [] => Some (rev acc, [])
  | c :: p1 =>
    if c =? 47 then Some (rev acc, p)
    else if c =? 126 then
      match p1 with
      | d :: p2 => if d =? 48 then seg_scan p2 (126 :: acc)
                   else if d =? 49 then seg_scan p2 (47 :: acc)
                   else None
      | [] => None
      end
    else seg_scan p1 (c :: acc)
  end.

(* the outer loop, bounded by jp->cnt *)
Fixpoint segs_scan (cnt : nat) (p : list Z) : option (list (list Z)) :=
  match cnt with
  | O => Some []
  | S k =>
    match p with
    | [] => Some []
    | c :: p1 =>
      if c =? 47 then
        match seg_scan p1 [] with
        | None => None
        | Some (s, rest) => match segs_scan k rest with
                            | None => None
                            | Some ss => Some (s :: ss)
                            end
        end
      else None   (* unreachable: every segment scan stops on '/' or on the terminator *)
    end
  end.

Definition count_slash (p : list Z) : nat := length (filter (fun c => c =? 47) p).

Definition ptr_parse3 (path : list Z) : pres :=
  let p := cstr path in
  match p with
  | [] => POk []
  | c :: _ =>
    if negb (c =? 47) then PErr
    else if (zlen p >? 1) && (last p 0 =? 47) then PErr
    else match segs_scan (count_slash p) p with
         | None => PErr          (* '~' must be followed by '0' or '1' (RFC 6901): JBL_ERROR_JSON_POINTER *)
         | Some ss => POk ss
         end
  end.

Definition ptr_parse (path : list Z) : option (list (list Z)) :=
  match ptr_parse3 path with POk ss => Some ss | _ => None end.

(* ---------------------------------------------------------------- RFC 6901 *)
Fixpoint rfc_unescape (s : list Z) : option (list Z) :=
  match s with
  | [] => Some []
  | c :: r =>
    if c =? 126 then
      match r with
      | d :: r' => if d =? 48 then option_map (cons 126) (rfc_unescape r')
                   else if d =? 49 then option_map (cons 47) (rfc_unescape r')
                   else None
      | [] => None
      end
    else option_map (cons c) (rfc_unescape r)
  end.

(* reference tokens of the text after the first '/' *)
Fixpoint split_slash (p : list Z) (cur : list Z) : list (list Z) :=
  match p with
  | [] => [rev cur]
  | c :: r => if c =? 47 then rev cur :: split_slash r [] else split_slash r (c :: cur)
  end.

Fixpoint all_some {A} (l : list (option A)) : option (list A) :=
  match l with
  | [] => Some []
  | None :: _ => None
  | Some x :: r => match all_some r with None => None | Some xs => Some (x :: xs) end
  end.

Definition rfc_ptr_parse (path : list Z) : option (list (list Z)) :=
  match path with
  | [] => Some []
  | c :: r => if c =? 47 then all_some (map rfc_unescape (split_slash r [])) else None
  end.

Definition is_digit (c : Z) : bool := (48 <=? c) && (c <=? 57).

(* array index of RFC 6901: "0" or a digit string without leading zero *)
Definition rfc_index (s : list Z) : option Z :=
  match s with
  | [] => None
  | [c] => if is_digit c then Some (c - 48) else None
  | c :: r => if (49 <=? c) && (c <=? 57) && forallb is_digit r
              then Some (fold_left (fun a d => a * 10 + (d - 48)) s 0) else None
  end.

Fixpoint find_key (k : list Z) (ms : list (list Z * jval)) : option jval :=
  match ms with
  | [] => None
  | (k', x) :: r => if bytes_eqb k k' then Some x else find_key k r
  end.

Fixpoint rfc6901_at (segs : list (list Z)) (v : jval) : option jval :=
  match segs with
  | [] => Some v
  | s :: rest =>
    match v with
    | JObj ms => match find_key s ms with Some x => rfc6901_at rest x | None => None end
    | JArr items => match rfc_index s with
                    | Some i => match nth_error items (Z.to_nat i) with
                                | Some x => rfc6901_at rest x
                                | None => None
                                end
                    | None => None
                    end
    | _ => None
    end
  end.

(* ---------------------------------------------------------------- iwitoa on a non-negative int *)
Fixpoint digits_rev (fuel : nat) (n : Z) : list Z :=
  match fuel with
  | O => []
  | S f => if n <? 10 then [48 + n] else (48 + n mod 10) :: digits_rev f (n / 10)
  end.

(* 11 digits cover every non-negative int *)
Definition itoa (n : Z) : list Z := rev (digits_rev 11 n).

(* ---------------------------------------------------------------- cursor updates *)
Definition star (s : list Z) : bool := match s with [42] => true | _ => false end.
Definition seg_at (ptr : list (list Z)) (lvl : Z) : list Z := nth (Z.to_nat lvl) ptr [].
Definition strncmp_eq (a b : list Z) (n : Z) : bool := bytes_eqb (zfirst n (cstr a)) (zfirst n (cstr b)).

(* _jbl_visitor_update_jptr_cursor: (new pos, matched completely) *)
Definition upd_jbl (ptr : list (list Z)) (pos lvl : Z) (key : option (list Z)) (idx : Z) : Z * bool :=
  let cnt := zlen ptr in
  if lvl <? cnt then
    let pos1 := if pos >=? lvl then lvl - 1 else pos in
    if pos1 + 1 =? lvl then
      let keyptr := match key with Some k => cstr k | None => itoa idx end in
      let seg := seg_at ptr lvl in
      if bytes_eqb keyptr seg || star seg then (lvl, cnt =? lvl + 1) else (pos1, false)
    else (pos1, false)
  else (pos, false).

(* _jbn_visitor_update_jptr_cursor: for a member idx is the cached key length *)
Definition upd_jbn (ptr : list (list Z)) (pos lvl : Z) (key : option (list Z)) (idx : Z) : Z * bool :=
  let cnt := zlen ptr in
  if lvl <? cnt then
    let pos1 := if pos >=? lvl then lvl - 1 else pos in
    if pos1 + 1 =? lvl then
      let keyptr := match key with Some k => k | None => itoa idx end in
      let idx' := match key with Some _ => idx | None => zlen (itoa idx) end in
      let seg := seg_at ptr lvl in
      let jplen := zlen seg in
      if ((idx' =? jplen) && strncmp_eq keyptr seg idx') || star seg then (lvl, cnt =? lvl + 1) else (pos1, false)
    else (pos1, false)
  else (pos, false).

(* ---------------------------------------------------------------- the walk *)
Inductive kres (N : Type) : Type :=
| KNot                                             (* not a container *)
| KErr (code : Z)                                  (* binn_iter_init failed: JBL_ERROR_INVALID *)
| KSome (cs : list (option (list Z) * Z * N)).     (* children: key, index, node *)
Arguments KNot {N}. Arguments KErr {N}. Arguments KSome {N}.

Definition E_INVALID : Z := 1.
Definition E_NESTING : Z := 2.
Definition E_FUEL : Z := 3.
Definition E_DECODE : Z := 4.

Section Visit.
  Variable N : Type.
  Variable kids : N -> kres N.
  Variable upd : list (list Z) -> Z -> Z -> option (list Z) -> Z -> Z * bool.
  Variable enter_after_terminate : bool.   (* jbn_visit recurses into the matched node before it leaves its loop *)
  Variable ptr : list (list Z).

  Record vst : Type := VS { v_pos : Z; v_res : option N; v_term : bool }.
  Inductive vr : Type := VErr (code : Z) | VOk (s : vst).

  (* the loop over the children `cs` of a container visited at level lvl *)
  Fixpoint visit (fuel : nat) (lvl : Z) (cs : list (option (list Z) * Z * N)) (st : vst) : vr :=
    match fuel with
    | O => VErr E_FUEL
    | S f =>
      (fix loop (cs : list (option (list Z) * Z * N)) (st : vst) : vr :=
         match cs with
         | [] => VOk st
         | (key, idx, n) :: rest =>
           if v_term st then VOk st
           else
             let '(pos', matched) := upd ptr (v_pos st) lvl key idx in
             let st1 := if matched then VS pos' (Some n) true else VS pos' (v_res st) false in
             let skip := negb matched && (zlen ptr <? lvl + 1) in
             if matched && negb enter_after_terminate then VOk st1
             else if skip then loop rest st1
             else match kids n with
                  | KNot => loop rest st1
                  | KErr e => VErr e
                  | KSome cs' =>
                    if lvl + 1 >? jbinn_JBL_MAX_NESTING_LEVEL then VErr E_NESTING
                    else match visit f (lvl + 1) cs' st1 with
                         | VErr e => VErr e
                         | VOk st2 => loop rest st2
                         end
                  end
         end) cs st
    end.
End Visit.
Arguments VS {N}. Arguments VErr {N}. Arguments VOk {N}.
Arguments v_pos {N}. Arguments v_res {N}. Arguments v_term {N}.

Inductive at_res (N : Type) : Type :=
| AtFound (n : N) | AtNotFound | AtPtrErr | AtPtrUndef | AtErr (code : Z).
Arguments AtFound {N}. Arguments AtNotFound {N}. Arguments AtPtrErr {N}. Arguments AtPtrUndef {N}. Arguments AtErr {N}.

Definition at_fuel (ptr : list (list Z)) : nat := S (S (length ptr)).

(* ---- tree form *)
Fixpoint number {A} (i : Z) (l : list A) : list (option (list Z) * Z * A) :=
  match l with
  | [] => []
  | x :: r => (None, i, x) :: number (i + 1) r
  end.

Definition kids_j (v : jval) : kres jval :=
  match v with
  | JObj ms => KSome (map (fun m => (Some (fst m), zlen (fst m), snd m)) ms)
  | JArr items => KSome (number 0 items)
  | _ => KNot
  end.

(* jbn_at2 *)
Definition at_tree2 (v : jval) (ptr : list (list Z)) : at_res jval :=
  match ptr with
  | [] => AtFound v
  | _ =>
    match kids_j v with
    | KSome cs =>
      match visit jval kids_j upd_jbn true ptr (at_fuel ptr) 0 cs (VS (-1) None false) with
      | VErr e => AtErr e
      | VOk st => match v_res st with Some r => AtFound r | None => AtNotFound end
      end
    | _ => AtNotFound
    end
  end.

(* jbn_at *)
Definition at_tree (v : jval) (path : list Z) : at_res jval :=
  match ptr_parse3 path with
  | PErr => AtPtrErr
  | PUndef => AtPtrUndef
  | POk ptr => at_tree2 v ptr
  end.

(* ---- binary form *)
Definition kids_b (b : bval) : kres bval :=
  if bt b =? jbinn_BINN_OBJECT then
    match iter_init (bptr b) jbinn_BINN_OBJECT with
    | None => KErr E_INVALID
    | Some it => KSome (map (fun m => (Some (fst m), -1, snd m)) (obj_items (iter_fuel it) it))
    end
  else if bt b =? jbinn_BINN_LIST then
    match iter_init (bptr b) jbinn_BINN_LIST with
    | None => KErr E_INVALID
    | Some it => KSome (number 0 (list_items (iter_fuel it) it))
    end
  else if bt b =? jbinn_BINN_MAP then KErr E_DECODE   (* maps are not modelled *)
  else KNot.

(* jbl_at2 on the value b *)
Definition at_bval2 (b : bval) (ptr : list (list Z)) : at_res bval :=
  match ptr with
  | [] => AtFound b
  | _ =>
    match kids_b b with
    | KNot => AtErr E_INVALID
    | KErr e => AtErr e
    | KSome cs =>
      match visit bval kids_b upd_jbl false ptr (at_fuel ptr) 0 cs (VS (-1) None false) with
      | VErr e => AtErr e
      | VOk st => match v_res st with Some r => AtFound r | None => AtNotFound end
      end
    end
  end.

(* the result of a binary look-up read as a value (as jbl_type/jbl_get_*/jbl_to_node show it) *)
Definition at_binn2 (bs : list Z) (ptr : list (list Z)) : at_res jval :=
  match root_bval bs with
  | None => AtErr E_INVALID
  | Some b =>
    match at_bval2 b ptr with
    | AtFound r => match dec_node (S (length bs)) r with Some v => AtFound v | None => AtErr E_DECODE end
    | AtNotFound => AtNotFound
    | AtPtrErr => AtPtrErr
    | AtPtrUndef => AtPtrUndef
    | AtErr e => AtErr e
    end
  end.

(* jbl_at *)
Definition at_binn (bs : list Z) (path : list Z) : at_res jval :=
  match ptr_parse3 path with
  | PErr => AtPtrErr
  | PUndef => AtPtrUndef
  | POk ptr => at_binn2 bs ptr
  end.

(* ---------------------------------------------------------------- jbn_clone
   The copy is built by _jbl_clone_node_visit during a jbn_visit of the source.  The mutable target tree is
   modelled as a zipper: `c_stack` holds the containers that are open (head = vctx->root, the current parent) with
   their children so far in reverse order; `c_pend` is vctx->op when it is a container that was just added and has
   not been entered (it is the last child of the current parent). vctx->pos is `c_pos`. *)
Record cframe : Type := CF { f_key : option (list Z); f_obj : bool; f_kids : list (option (list Z) * jval) }.
Record cst : Type := CS { c_stack : list cframe; c_pend : option (option (list Z) * bool); c_pos : Z }.

Definition frame_val (f : cframe) : jval :=
  if f_obj f
  then JObj (map (fun c => (match fst c with Some k => k | None => [] end, snd c)) (rev (f_kids f)))
  else JArr (map snd (rev (f_kids f))).

Definition add_kid (c : option (list Z) * jval) (st : list cframe) : list cframe :=
  match st with
  | [] => []
  | f :: r => CF (f_key f) (f_obj f) (c :: f_kids f) :: r
  end.

Definition flush (s : cst) : cst :=
  match c_pend s with
  | None => s
  | Some (k, o) => CS (add_kid (k, if o then JObj [] else JArr []) (c_stack s)) None (c_pos s)
  end.

(* parent = parent->parent, once *)
Definition pop1 (st : list cframe) : list cframe :=
  match st with
  | f :: r => add_kid (f_key f, frame_val f) r
  | [] => []
  end.

Fixpoint popn (n : nat) (st : list cframe) : list cframe :=
  match n with O => st | S k => popn k (pop1 st) end.

(* one call of _jbl_clone_node_visit(lvl, n, key) *)
Definition clone_visit (lvl : Z) (key : option (list Z)) (n : jval) (s : cst) : cst :=
  let s1 :=
    if lvl <? c_pos s then
      let s0 := flush s in CS (popn (Z.to_nat (c_pos s - lvl)) (c_stack s0)) None lvl
    else if lvl >? c_pos s then
      match c_pend s with
      | Some (k, o) => CS (CF k o [] :: c_stack s) None lvl
      | None => CS (c_stack s) None lvl          (* unreachable: a level is entered right after its container *)
      end
    else flush s in
  match n with
  | JObj _ => CS (c_stack s1) (Some (key, true)) (c_pos s1)
  | JArr _ => CS (c_stack s1) (Some (key, false)) (c_pos s1)
  | _ => CS (add_kid (key, n) (c_stack s1)) None (c_pos s1)
  end.

(* jbn_visit with that visitor (it never terminates or skips) *)
Fixpoint clone_walk (lvl : Z) (v : jval) (s : cst) : cst :=
  match v with
  | JObj ms =>
    (fix loop (l : list (list Z * jval)) (s : cst) : cst :=
       match l with
       | [] => s
       | (k, x) :: r => loop r (clone_walk (lvl + 1) x (clone_visit lvl (Some k) x s))
       end) ms s
  | JArr items =>
    (fix loop (l : list jval) (s : cst) : cst :=
       match l with
       | [] => s
       | x :: r => loop r (clone_walk (lvl + 1) x (clone_visit lvl None x s))
       end) items s
  | _ => s
  end.

Definition jbn_clone (v : jval) : jval :=
  match v with
  | JObj _ | JArr _ =>
    let s := flush (clone_walk 0 v (CS [CF None (match v with JObj _ => true | _ => false end) []] None 0)) in
    match popn (Z.to_nat (c_pos s)) (c_stack s) with
    | f :: _ => frame_val f
    | [] => JNull
    end
  | _ => v
  end.

(* ---------------------------------------------------------------- jbl_ptr_serialize, jbl_ptr_cmp *)
(* jbl_ptr_serialize: "/" and the bytes of each segment as stored in the parsed pointer - '~' and '/' inside a segment are NOT
   written back as ~0 / ~1 *)
Definition ptr_serialize (segs : list (list Z)) : list Z := flat_map (fun s => 47 :: s) segs.

(* sign of strcmp on two segments (C strings without their terminators) *)
Fixpoint strcmp_sgn (a b : list Z) : Z :=
  match a, b with
  | [], [] => 0
  | [], _ :: _ => -1
  | _ :: _, [] => 1
  | x :: a', y :: b' => if x <? y then -1 else if y <? x then 1 else strcmp_sgn a' b'
  end.

Fixpoint segs_cmp (s1 s2 : list (list Z)) : Z :=
  match s1, s2 with
  | a :: r1, b :: r2 => let c := strcmp_sgn a b in if c =? 0 then segs_cmp r1 r2 else c
  | _, _ => 0            (* the loop runs over p1->cnt segments; the counts are equal when it is reached *)
  end.

(* jbl_ptr_cmp(parse(path1), parse(path2)), as a sign; None: one of the texts is refused by jbl_ptr_alloc.
   jp->sz = sizeof(struct jbl_ptr) + cnt * sizeof(char* ) + strlen(path) is compared first *)
Definition ptr_cmp (path1 path2 : list Z) : option Z :=
  match ptr_parse3 path1, ptr_parse3 path2 with
  | POk s1, POk s2 =>
    let d := (zlen s1 - zlen s2) * jbinn_sizeof_ptr + (zlen (cstr path1) - zlen (cstr path2)) in
    if negb (d =? 0) then Some (Z.sgn d)
    else if negb (zlen s1 =? zlen s2) then Some (Z.sgn (zlen s1 - zlen s2))
    else Some (segs_cmp s1 s2)
  | _, _ => None
  end.
