(* Proofs about JSON/Patch.v: the cached-index invariant, refinement of the lenient reading of rfc6902 (PatchSpec.v),
   strict => lenient, programs by induction, and "a failed patch leaves the binary document as it was". *)
Require Import ZArith List Bool Lia. Require Import IW.Lib.CInt IW.Gen.Facts IW.UT.Conv IW.JSON.Val IW.JSON.Patch IW.JSON.PatchSpec.
Import ListNotations.
Local Open Scope Z_scope. Local Open Scope bool_scope.
Ltac Zify.zify_post_hook ::= Z.div_mod_to_equations.

(* ------------------------------------------------------------------ generic *)
Lemma bytes_eqb_eq : forall a b, bytes_eqb a b = true <-> a = b.
Proof.
  induction a as [|x a IH]; destruct b as [|y b]; simpl; split; intro H; try discriminate; auto.
  - apply andb_true_iff in H. destruct H as [H1 H2]. apply Z.eqb_eq in H1. apply IH in H2. subst. reflexivity.
  - inversion H; subst. rewrite Z.eqb_refl. simpl. apply IH. reflexivity.
Qed.
Lemma bytes_eqb_refl : forall a, bytes_eqb a a = true.
Proof. intro a. apply bytes_eqb_eq. reflexivity. Qed.
Lemma bytes_eqb_neq : forall a b, bytes_eqb a b = false <-> a <> b.
Proof.
  intros a b. split; intro H.
  - intro E. apply bytes_eqb_eq in E. congruence.
  - destruct (bytes_eqb a b) eqn:E; auto. apply bytes_eqb_eq in E. contradiction.
Qed.

Lemma strncmp_eq_full : forall k s, strncmp_eq k s (length k) = true -> length s = length k -> k = s.
Proof.
  induction k as [|x k IH]; destruct s as [|y s]; simpl; intros H L; try discriminate; auto.
  apply andb_true_iff in H. destruct H as [H1 H2]. apply Z.eqb_eq in H1. subst. f_equal. apply IH; auto.
Qed.
Lemma strncmp_eq_refl : forall k n, strncmp_eq k k n = true.
Proof.
  induction k as [|x k IH]; destruct n; simpl; auto. rewrite Z.eqb_refl. simpl. apply IH.
Qed.

(* the two tests of _jbl_node_find on an object member are equality of the name, given klidx = strlen(key) *)
Lemma key_match_spec : forall s c, n_kl c = Z.of_nat (length (n_key c)) -> key_match s c = bytes_eqb (n_key c) s.
Proof.
  intros s c H. unfold key_match. rewrite H. rewrite Nat2Z.id.
  destruct (bytes_eqb (n_key c) s) eqn:E.
  - apply bytes_eqb_eq in E. subst s. rewrite strncmp_eq_refl. simpl. apply Z.eqb_refl.
  - apply andb_false_iff.
    destruct (strncmp_eq (n_key c) s (length (n_key c))) eqn:E1; auto.
    right. apply Z.eqb_neq. intro L. apply Nat2Z.inj in L.
    apply strncmp_eq_full in E1; auto. subst s. rewrite bytes_eqb_refl in E. discriminate.
Qed.

(* ------------------------------------------------------------------ induction on nodes *)
Section NodeInd.
  Variable P : node -> Prop.
  Hypothesis H : forall kl key ty vi vs ch, Forall P ch -> P (Node kl key ty vi vs ch).
  Fixpoint node_ind' (n : node) : P n :=
    match n with
    | Node kl key ty vi vs ch =>
      H kl key ty vi vs ch ((fix go (l : list node) : Forall P l :=
                               match l with [] => Forall_nil P | c :: r => Forall_cons c (node_ind' c) (go r) end) ch)
    end.
End NodeInd.

(* ------------------------------------------------------------------ the invariant *)
(* cached index = position for array items; cached key length = length of the name for object members;
   no JBV_NONE below the root *)
Fixpoint idx_ok (i : Z) (l : list node) : Prop :=
  match l with [] => True | c :: r => n_kl c = i /\ idx_ok (i + 1) r end.
Definition key_ok (c : node) : Prop := n_kl c = Z.of_nat (length (n_key c)).
Fixpoint inv (n : node) : Prop :=
  match n with
  | Node _ _ ty _ _ ch =>
    (fix all (l : list node) : Prop := match l with [] => True | c :: r => (inv c /\ n_ty c <> TNone) /\ all r end) ch /\
    match ty with TArr => idx_ok 0 ch | TObj => Forall key_ok ch | _ => True end
  end.
Definition good (c : node) : Prop := inv c /\ n_ty c <> TNone.
Lemma inv_unfold : forall n, inv n <-> Forall good (n_ch n) /\
                                      match n_ty n with TArr => idx_ok 0 (n_ch n) | TObj => Forall key_ok (n_ch n) | _ => True end.
Proof.
  intros [kl key ty vi vs ch]. simpl.
  assert (E : forall l, (fix all (l : list node) : Prop := match l with [] => True | c :: r => (inv c /\ n_ty c <> TNone) /\ all r end) l
                        <-> Forall good l).
  { induction l as [|c r IH]; simpl; split; intro H; auto.
    - destruct H as [H1 H2]. constructor; [exact H1 | apply IH; exact H2].
    - inversion H; subst. split; [assumption | apply IH; assumption]. }
  rewrite E. tauto.
Qed.
Definition klidx_inv (n : node) : Prop := inv n.

Lemma ty_eqb_eq : forall a b, ty_eqb a b = true <-> a = b.
Proof. intros a b. destruct a, b; unfold ty_eqb; simpl; split; intro H; try reflexivity; try discriminate. Qed.
Lemma op_eqb_eq : forall a b, op_eqb a b = true <-> a = b.
Proof. intros a b. destruct a, b; unfold op_eqb; simpl; split; intro H; try reflexivity; try discriminate. Qed.

(* ------------------------------------------------------------------ find_pos *)
Lemma find_pos_some : forall f l i, find_pos f l = Some i ->
  exists c, nth_error l i = Some c /\ f c = true /\ (forall j c', (j < i)%nat -> nth_error l j = Some c' -> f c' = false).
Proof.
  induction l as [|x r IH]; simpl; intros i H; [discriminate|].
  destruct (f x) eqn:E.
  - inversion H; subst. exists x. repeat split; auto. intros j c' Hj. lia.
  - destruct (find_pos f r) as [k|] eqn:E1; [|discriminate]. inversion H; subst.
    destruct (IH k eq_refl) as [c [A [B C]]]. exists c. repeat split; auto.
    intros j c' Hj Hn. destruct j; simpl in Hn.
    + inversion Hn; subst. exact E.
    + apply (C j); auto. lia.
Qed.
Lemma find_pos_none : forall f l, find_pos f l = None -> forall c, In c l -> f c = false.
Proof.
  induction l as [|x r IH]; simpl; intros H c Hc; [contradiction|].
  destruct (f x) eqn:E; [discriminate|].
  destruct (find_pos f r) eqn:E1; [discriminate|].
  destruct Hc as [Hc|Hc]; [subst; exact E | apply IH; auto].
Qed.
Lemma find_pos_lt : forall f l i, find_pos f l = Some i -> (i < length l)%nat.
Proof.
  intros f l i H. destruct (find_pos_some f l i H) as [c [A _]].
  apply nth_error_Some. congruence.
Qed.

(* position of an array item under the invariant *)
Lemma idx_ok_find : forall l i z, idx_ok i l ->
  find_pos (fun c => z =? n_kl c) l = if (i <=? z) && (z <? i + Z.of_nat (length l)) then Some (Z.to_nat (z - i)) else None.
Proof.
  induction l as [|x r IH]; intros i z H.
  - simpl. destruct (i <=? z) eqn:A; simpl; auto. destruct (z <? i + 0) eqn:B; auto. lia.
  - simpl in H. destruct H as [H1 H2]. cbn [find_pos]. rewrite H1.
    destruct (z =? i) eqn:E.
    + apply Z.eqb_eq in E. subst z. replace (i - i) with 0 by lia. simpl Z.to_nat.
      replace ((i <=? i) && (i <? i + Z.of_nat (length (x :: r)))) with true; auto.
      symmetry. apply andb_true_iff. split; [apply Z.leb_le; lia | apply Z.ltb_lt; simpl length; lia].
    + apply Z.eqb_neq in E. rewrite (IH (i + 1) z H2).
      simpl length. rewrite Nat2Z.inj_succ.
      destruct (Z.leb_spec (i + 1) z) as [A|A]; destruct (Z.ltb_spec z (i + 1 + Z.of_nat (length r))) as [B|B];
        destruct (Z.leb_spec i z) as [C|C]; destruct (Z.ltb_spec z (i + Z.succ (Z.of_nat (length r)))) as [D|D];
        simpl; try lia; auto.
      f_equal. replace (z - i) with (Z.succ (z - (i + 1))) by lia. rewrite Z2Nat.inj_succ; auto. lia.
Qed.

Lemma idx_ok_app : forall a b i, idx_ok i (a ++ b) <-> idx_ok i a /\ idx_ok (i + Z.of_nat (length a)) b.
Proof.
  induction a as [|x a IH]; intros b i; simpl.
  - replace (i + 0) with i by lia. tauto.
  - rewrite IH. replace (i + 1 + Z.of_nat (length a)) with (i + Z.pos (Pos.of_succ_nat (length a))) by lia. tauto.
Qed.
Lemma idx_ok_inc : forall l i, idx_ok i l -> idx_ok (i + 1) (map inc_kl l).
Proof.
  induction l as [|x r IH]; simpl; intros i H; auto. destruct H as [H1 H2].
  split; [destruct x; simpl in *; lia | apply IH; exact H2].
Qed.
Lemma idx_ok_dec : forall l i, idx_ok i l -> idx_ok (i - 1) (map dec_kl l).
Proof.
  induction l as [|x r IH]; simpl; intros i H; auto. destruct H as [H1 H2].
  split; [destruct x; simpl in *; lia |]. replace (i - 1 + 1) with (i + 1 - 1) by lia. apply IH; exact H2.
Qed.
Lemma idx_ok_last : forall l i x, idx_ok i (l ++ [x]) -> n_kl x = i + Z.of_nat (length l).
Proof. intros l i x H. apply idx_ok_app in H. destruct H as [_ H]. simpl in H. tauto. Qed.

Lemma firstn_skipn_len : forall (A : Type) (l : list A) i, (i <= length l)%nat -> length (firstn i l) = i.
Proof. intros. apply firstn_length_le. assumption. Qed.

(* ------------------------------------------------------------------ values of edited nodes *)
Lemma val_set_kl : forall n k, val (set_kl n k) = val n. Proof. intros [? ? ? ? ? ?] k. reflexivity. Qed.
Lemma val_set_key : forall n k, val (set_key n k) = val n. Proof. intros [? ? ? ? ? ?] k. reflexivity. Qed.
Lemma val_copy_data : forall c v, val (copy_data c v) = val v.
Proof. intros [? ? ? ? ? ?] [? ? ? ? ? ?]. reflexivity. Qed.
Lemma val_inc_kl : forall n, val (inc_kl n) = val n. Proof. intro n. apply val_set_kl. Qed.
Lemma val_dec_kl : forall n, val (dec_kl n) = val n. Proof. intro n. apply val_set_kl. Qed.
Lemma n_ty_set_kl : forall n k, n_ty (set_kl n k) = n_ty n. Proof. intros [? ? ? ? ? ?] k. reflexivity. Qed.
Lemma n_ty_set_key : forall n k, n_ty (set_key n k) = n_ty n. Proof. intros [? ? ? ? ? ?] k. reflexivity. Qed.
Lemma n_ty_set_ch : forall n c, n_ty (set_ch n c) = n_ty n. Proof. intros [? ? ? ? ? ?] c. reflexivity. Qed.
Lemma n_ch_set_ch : forall n c, n_ch (set_ch n c) = c. Proof. intros [? ? ? ? ? ?] c. reflexivity. Qed.
Lemma n_ch_set_kl : forall n k, n_ch (set_kl n k) = n_ch n. Proof. intros [? ? ? ? ? ?] k. reflexivity. Qed.
Lemma n_ch_set_key : forall n k, n_ch (set_key n k) = n_ch n. Proof. intros [? ? ? ? ? ?] k. reflexivity. Qed.
Lemma n_kl_set_kl : forall n k, n_kl (set_kl n k) = k. Proof. intros [? ? ? ? ? ?] k. reflexivity. Qed.
Lemma n_kl_set_key : forall n k, n_kl (set_key n k) = n_kl n. Proof. intros [? ? ? ? ? ?] k. reflexivity. Qed.
Lemma n_key_set_key : forall n k, n_key (set_key n k) = k. Proof. intros [? ? ? ? ? ?] k. reflexivity. Qed.
Lemma n_key_set_kl : forall n k, n_key (set_kl n k) = n_key n. Proof. intros [? ? ? ? ? ?] k. reflexivity. Qed.
Lemma n_key_set_ch : forall n k, n_key (set_ch n k) = n_key n. Proof. intros [? ? ? ? ? ?] k. reflexivity. Qed.
Lemma n_kl_set_ch : forall n k, n_kl (set_ch n k) = n_kl n. Proof. intros [? ? ? ? ? ?] k. reflexivity. Qed.

Definition kv (c : node) : list Z * jval := (n_key c, val c).
Lemma val_obj : forall n, n_ty n = TObj -> val n = JObj (map kv (n_ch n)).
Proof. intros [? ? ? ? ? ?] H. simpl in H. subst. reflexivity. Qed.
Lemma val_arr : forall n, n_ty n = TArr -> val n = JArr (map val (n_ch n)).
Proof. intros [? ? ? ? ? ?] H. simpl in H. subst. reflexivity. Qed.

Lemma good_set_kl : forall c k, good c -> good (set_kl c k).
Proof. intros [? ? ? ? ? ?] k [H1 H2]. split; simpl in *; auto. Qed.
Lemma good_set_key : forall c k, good c -> good (set_key c k).
Proof. intros [? ? ? ? ? ?] k [H1 H2]. split; simpl in *; auto. Qed.
Lemma good_inc : forall c, good c -> good (inc_kl c). Proof. intros. apply good_set_kl. assumption. Qed.
Lemma good_dec : forall c, good c -> good (dec_kl c). Proof. intros. apply good_set_kl. assumption. Qed.
Lemma good_copy_data : forall c v, good v -> good (copy_data c v).
Proof. intros [? ? ? ? ? ?] [? ? ? ? ? ?] [H1 H2]. split; simpl in *; auto. Qed.

Lemma Forall_app2 : forall (A : Type) (P : A -> Prop) a b, Forall P a -> Forall P b -> Forall P (a ++ b).
Proof. intros. apply Forall_app. split; assumption. Qed.
Lemma Forall_firstn : forall (A : Type) (P : A -> Prop) l i, Forall P l -> Forall P (firstn i l).
Proof.
  intros A P l. induction l as [|x r IH]; intros i H; destruct i; simpl; auto.
  inversion H; subst. constructor; auto.
Qed.
Lemma Forall_skipn : forall (A : Type) (P : A -> Prop) l i, Forall P l -> Forall P (skipn i l).
Proof.
  intros A P l. induction l as [|x r IH]; intros i H; destruct i; simpl; auto.
  inversion H; subst. auto.
Qed.
Lemma Forall_nth : forall (A : Type) (P : A -> Prop) l i x, Forall P l -> nth_error l i = Some x -> P x.
Proof. intros A P l i x H E. rewrite Forall_forall in H. apply H. eapply nth_error_In. exact E. Qed.
Lemma Forall_map_same : forall (A : Type) (P : A -> Prop) (f : A -> A) l, (forall x, P x -> P (f x)) -> Forall P l -> Forall P (map f l).
Proof. intros A P f l Hf H. induction H; simpl; constructor; auto. Qed.

Lemma nth_split : forall (A : Type) (l : list A) i x, nth_error l i = Some x -> l = firstn i l ++ x :: skipn (S i) l.
Proof.
  intros A l. induction l as [|y r IH]; intros i x H; destruct i; simpl in *; try discriminate.
  - inversion H; subst. reflexivity.
  - f_equal. apply IH. exact H.
Qed.

(* ------------------------------------------------------------------ one step of pointer resolution *)
Lemma obj_pos : forall s ch, Forall key_ok ch ->
  match find_pos (key_match s) ch with
  | None => lookup s (map kv ch) = None
  | Some i => exists c, nth_error ch i = Some c /\ n_key c = s /\ lookup s (map kv ch) = Some (val c) /\
              remove_member s (map kv ch) = map kv (firstn i ch ++ skipn (S i) ch) /\
              (forall c', n_key c' = s -> set_member s (val c') (map kv ch) = map kv (firstn i ch ++ c' :: skipn (S i) ch))
  end.
Proof.
  intros s. induction ch as [|x r IH]; intro H; [reflexivity|].
  inversion H as [|? ? Hx Hr]; subst. cbn [find_pos]. rewrite (key_match_spec s x Hx).
  replace (map kv (x :: r)) with ((n_key x, val x) :: map kv r) by reflexivity.
  cbn [lookup remove_member set_member].
  destruct (bytes_eqb (n_key x) s) eqn:E.
  - apply bytes_eqb_eq in E. exists x. repeat split; auto.
    intros c' Hc. simpl. unfold kv at 2. rewrite Hc, E. reflexivity.
  - specialize (IH Hr). destruct (find_pos (key_match s) r) as [i|] eqn:F.
    + destruct IH as [c [A [B [C [D G]]]]]. exists c. repeat split; auto.
      * simpl. rewrite D. reflexivity.
      * intros c' Hc. simpl. rewrite (G c' Hc). reflexivity.
    + exact IH.
Qed.

(* the model's index reader is the specification's rfc6901 index *)
Lemma arr_index_strict : forall s, arr_index s = strict_idx s.
Proof. intro s. reflexivity. Qed.

Lemma dash_no_index : forall s, is_dash s = true -> strict_idx s = None.
Proof.
  intros s H. destruct s as [|c r]; [discriminate|]. unfold is_dash in H.
  destruct c as [|p|p]; try discriminate.
  do 6 (destruct p as [p|p|]; try discriminate). destruct r; [reflexivity | discriminate].
Qed.

Lemma arr_pos : forall n s, n_ty n = TArr -> idx_ok 0 (n_ch n) -> child_pos n s = aidx lenient (map val (n_ch n)) s.
Proof.
  intros n s T H. unfold child_pos, aidx. rewrite T, arr_index_strict. change (s_is_dash s) with (is_dash s).
  destruct (is_dash s) eqn:D.
  - rewrite (dash_no_index s D). reflexivity.
  - simpl c_look. destruct (strict_idx s) as [z|]; [|reflexivity].
    rewrite (idx_ok_find (n_ch n) 0 z H). rewrite map_length.
    replace (0 + Z.of_nat (length (n_ch n))) with (Z.of_nat (length (n_ch n))) by lia.
    replace (z - 0) with z by lia. reflexivity.
Qed.

Lemma aidx_lt : forall c l s i, aidx c l s = Some i -> (i < length l)%nat.
Proof.
  intros c l s i. unfold aidx. destruct (s_is_dash s).
  - discriminate.
  - destruct (c_look c s) as [z|]; [|discriminate].
    destruct (Z.leb_spec 0 z) as [A|A]; destruct (Z.ltb_spec z (Z.of_nat (length l))) as [B|B]; simpl; try discriminate.
    intro E. inversion E. lia.
Qed.

Lemma scalar_child_pos : forall n s, n_ty n <> TObj -> n_ty n <> TArr -> child_pos n s = None.
Proof. intros n s A B. unfold child_pos. destruct (n_ty n); auto; contradiction. Qed.
Lemma scalar_val_get : forall n s r c, n_ty n <> TObj -> n_ty n <> TArr -> jget c (val n) (s :: r) = None.
Proof. intros [kl key ty vi vs ch] s r c A B. simpl in *. destruct ty; auto; contradiction. Qed.

(* what one resolution step means on the value *)
Lemma step_spec : forall n s, inv n ->
  match child_pos n s with
  | None => forall r, jget lenient (val n) (s :: r) = None
  | Some i => exists c, nth_error (n_ch n) i = Some c /\ good c /\
              forall r, jget lenient (val n) (s :: r) = jget lenient (val c) r
  end.
Proof.
  intros n s H. apply inv_unfold in H. destruct H as [Hg Ht].
  destruct (n_ty n) eqn:T;
    try (rewrite scalar_child_pos by (rewrite T; discriminate); intro r; apply scalar_val_get; rewrite T; discriminate).
  - (* object *)
    unfold child_pos. rewrite T. pose proof (obj_pos s (n_ch n) Ht) as P.
    destruct (find_pos (key_match s) (n_ch n)) as [i|].
    + destruct P as [c [A [B [C _]]]]. exists c. split; [exact A|]. split; [eapply Forall_nth; eauto|].
      intro r. rewrite (val_obj n T). simpl. rewrite C. reflexivity.
    + intro r. rewrite (val_obj n T). simpl. rewrite P. reflexivity.
  - (* array *)
    rewrite (arr_pos n s T Ht). destruct (aidx lenient (map val (n_ch n)) s) as [i|] eqn:A.
    + pose proof (aidx_lt _ _ _ _ A) as L. rewrite map_length in L.
      destruct (nth_error (n_ch n) i) as [c|] eqn:N; [|apply nth_error_None in N; lia].
      exists c. split; [reflexivity|]. split; [eapply Forall_nth; eauto|].
      intro r. rewrite (val_arr n T). simpl. rewrite A. rewrite nth_error_map, N. reflexivity.
    + intro r. rewrite (val_arr n T). simpl. rewrite A. reflexivity.
Qed.

Lemma find_spec : forall p n, inv n ->
  match m_find n p with
  | Some x => jget lenient (val n) p = Some (val x) /\ inv x /\ (p <> [] -> n_ty x <> TNone)
  | None => jget lenient (val n) p = None
  end.
Proof.
  induction p as [|s r IH]; intros n H.
  - simpl. repeat split; auto.
  - cbn [m_find]. pose proof (step_spec n s H) as S.
    destruct (child_pos n s) as [i|].
    + destruct S as [c [A [[B1 B2] C]]]. rewrite A. specialize (IH c B1).
      destruct (m_find c r) as [x|] eqn:E.
      * destruct IH as [I1 [I2 I3]]. rewrite C. repeat split; auto.
        intros _. destruct r as [|s' r'].
        -- simpl in E. inversion E; subst. exact B2.
        -- apply I3. discriminate.
      * rewrite C. exact IH.
    + apply S.
Qed.

(* ------------------------------------------------------------------ descending one level and rebuilding *)
Definition upd_val (n : node) (s : seg) (i : nat) (x' : jval) : jval :=
  match val n with
  | JObj ms => JObj (set_member s x' ms)
  | JArr l => JArr (firstn i l ++ x' :: skipn (S i) l)
  | v => v
  end.

Lemma jmod_none : forall n s r f, inv n -> child_pos n s = None -> r <> [] -> jmod lenient (val n) (s :: r) f = None.
Proof.
  intros n s r f H C R. pose proof (step_spec n s H) as S. rewrite C in S.
  specialize (S []). destruct r as [|s2 r']; [contradiction|].
  cbn [jmod]. cbn [jget] in S.
  destruct (val n); auto.
  - destruct (aidx lenient items s) as [i|]; auto. destruct (nth_error items i); auto. discriminate.
  - destruct (lookup s members); auto. discriminate.
Qed.

Lemma jmod_step : forall n s i c r f, inv n -> child_pos n s = Some i -> nth_error (n_ch n) i = Some c -> r <> [] ->
  jmod lenient (val n) (s :: r) f =
  match jmod lenient (val c) r f with Some x' => Some (upd_val n s i x') | None => None end.
Proof.
  intros n s i c r f H C N R. apply inv_unfold in H. destruct H as [Hg Ht].
  destruct r as [|s2 r']; [contradiction|]. unfold upd_val.
  destruct (n_ty n) eqn:T; try (rewrite scalar_child_pos in C by (rewrite T; discriminate); discriminate).
  - unfold child_pos in C. rewrite T in C. pose proof (obj_pos s (n_ch n) Ht) as P. rewrite C in P.
    destruct P as [c0 [A [B [L _]]]]. rewrite N in A. inversion A; subst c0.
    rewrite (val_obj n T). cbn [jmod]. rewrite L. reflexivity.
  - rewrite (arr_pos n s T Ht) in C. rewrite (val_arr n T). cbn [jmod]. rewrite C.
    rewrite nth_error_map, N. reflexivity.
Qed.

Lemma set_child_spec : forall n s i c c', inv n -> child_pos n s = Some i -> nth_error (n_ch n) i = Some c ->
  good c' -> n_kl c' = n_kl c -> n_key c' = n_key c ->
  inv (set_child n i c') /\ val (set_child n i c') = upd_val n s i (val c') /\ n_ty (set_child n i c') = n_ty n /\
  n_kl (set_child n i c') = n_kl n /\ n_key (set_child n i c') = n_key n.
Proof.
  intros n s i c c' H C N G K1 K2. pose proof H as H0. apply inv_unfold in H. destruct H as [Hg Ht].
  unfold set_child. rewrite n_ty_set_ch, n_kl_set_ch, n_key_set_ch.
  assert (Gs : Forall good (firstn i (n_ch n) ++ c' :: skipn (S i) (n_ch n))).
  { apply Forall_app2; [apply Forall_firstn; auto | constructor; [auto | apply Forall_skipn; auto]]. }
  pose proof (nth_split _ _ _ _ N) as SP.
  assert (Li : length (firstn i (n_ch n)) = i).
  { apply firstn_length_le. apply Nat.lt_le_incl. apply nth_error_Some. congruence. }
  split; [|split; [|auto]].
  - apply inv_unfold. rewrite n_ty_set_ch, n_ch_set_ch. split; [exact Gs|].
    destruct (n_ty n) eqn:T; auto.
    + rewrite SP in Ht. apply Forall_app in Ht. destruct Ht as [F1 F2]. inversion F2; subst.
      apply Forall_app2; auto. constructor; auto. unfold key_ok in *. congruence.
    + rewrite SP in Ht. apply idx_ok_app in Ht. destruct Ht as [F1 F2]. apply idx_ok_app. split; auto.
      simpl in *. destruct F2 as [F2 F3]. split; auto. congruence.
  - unfold upd_val.
    destruct (n_ty n) eqn:T; try (rewrite scalar_child_pos in C by (rewrite T; discriminate); discriminate).
    + unfold child_pos in C. rewrite T in C. pose proof (obj_pos s (n_ch n) Ht) as P. rewrite C in P.
      destruct P as [c0 [A [B [L [_ S]]]]]. rewrite N in A. inversion A; subst c0.
      rewrite (val_obj n T). rewrite val_obj by (rewrite n_ty_set_ch; exact T). rewrite n_ch_set_ch.
      rewrite S; auto. congruence.
    + rewrite (val_arr n T). rewrite val_arr by (rewrite n_ty_set_ch; exact T). rewrite n_ch_set_ch.
      rewrite map_app. simpl map. rewrite firstn_map, skipn_map. reflexivity.
Qed.

(* ------------------------------------------------------------------ _jbn_remove_item / _jbl_node_detach *)
Lemma remove_item_spec : forall n s, inv n ->
  match child_pos n s with
  | None => remove_here lenient (val n) s = None
  | Some i => exists c, nth_error (n_ch n) i = Some c /\ good c /\
              remove_here lenient (val n) s = Some (val (remove_item n i)) /\ inv (remove_item n i) /\
              n_ty (remove_item n i) = n_ty n /\ n_kl (remove_item n i) = n_kl n /\ n_key (remove_item n i) = n_key n
  end.
Proof.
  intros n s H. pose proof H as H0. apply inv_unfold in H. destruct H as [Hg Ht].
  destruct (n_ty n) eqn:T;
    try (rewrite scalar_child_pos by (rewrite T; discriminate); destruct n as [kl key ty vi vs ch]; simpl in T; subst ty; reflexivity).
  - (* object *)
    unfold child_pos. rewrite T. pose proof (obj_pos s (n_ch n) Ht) as P.
    destruct (find_pos (key_match s) (n_ch n)) as [i|].
    + destruct P as [c [A [B [L [R _]]]]]. exists c. split; [exact A|]. split; [eapply Forall_nth; eauto|].
      unfold remove_item. rewrite T, n_ty_set_ch, n_kl_set_ch, n_key_set_ch.
      repeat split; auto.
      * rewrite (val_obj n T). simpl. rewrite L. rewrite val_obj by (rewrite n_ty_set_ch; exact T).
        rewrite n_ch_set_ch, R. reflexivity.
      * apply inv_unfold. rewrite n_ty_set_ch, n_ch_set_ch, T. split.
        -- apply Forall_app2; [apply Forall_firstn | apply Forall_skipn]; auto.
        -- apply Forall_app2; [apply Forall_firstn | apply Forall_skipn]; auto.
    + rewrite (val_obj n T). simpl. rewrite P. reflexivity.
  - (* array *)
    rewrite (arr_pos n s T Ht). destruct (aidx lenient (map val (n_ch n)) s) as [i|] eqn:A.
    + pose proof (aidx_lt _ _ _ _ A) as L. rewrite map_length in L.
      destruct (nth_error (n_ch n) i) as [c|] eqn:N; [|apply nth_error_None in N; lia].
      exists c. split; [reflexivity|]. split; [eapply Forall_nth; eauto|].
      unfold remove_item. rewrite T, n_ty_set_ch, n_kl_set_ch, n_key_set_ch.
      repeat split; auto.
      * rewrite (val_arr n T). cbn [remove_here]. rewrite A. rewrite val_arr by (rewrite n_ty_set_ch; exact T).
        rewrite n_ch_set_ch, map_app, map_map. rewrite firstn_map, skipn_map.
        f_equal. f_equal. f_equal. apply map_ext. intro a. symmetry. apply val_dec_kl.
      * apply inv_unfold. rewrite n_ty_set_ch, n_ch_set_ch, T. split.
        -- apply Forall_app2; [apply Forall_firstn; auto|].
           apply Forall_map_same; [apply good_dec | apply Forall_skipn; auto].
        -- pose proof (nth_split _ _ _ _ N) as SP. rewrite SP in Ht.
           apply idx_ok_app in Ht. destruct Ht as [F1 F2]. apply idx_ok_app. split; auto.
           simpl in F2. destruct F2 as [_ F3].
           replace (0 + Z.of_nat (length (firstn i (n_ch n)))) with (0 + Z.of_nat (length (firstn i (n_ch n))) + 1 - 1) by lia.
           apply idx_ok_dec. exact F3.
    + rewrite (val_arr n T). simpl. rewrite A. reflexivity.
Qed.

Lemma detach_spec : forall p n, inv n ->
  match m_detach n p with
  | Some (n', d) => s_remove lenient (val n) p = Some (val n') /\ inv n' /\ n_ty n' = n_ty n /\ n_kl n' = n_kl n /\
                    n_key n' = n_key n /\ good d /\ jget lenient (val n) p = Some (val d)
  | None => s_remove lenient (val n) p = None
  end.
Proof.
  induction p as [|s r IH]; intros n H; [reflexivity|].
  cbn [m_detach]. unfold s_remove in *.
  destruct r as [|s2 r'].
  - (* last segment *)
    pose proof (remove_item_spec n s H) as R. pose proof (step_spec n s H) as S.
    destruct (child_pos n s) as [i|].
    + destruct R as [c [A [G [R1 [R2 [R3 [R4 R5]]]]]]]. rewrite A. cbn [jmod].
      destruct S as [c0 [A0 [_ S]]]. rewrite A in A0. inversion A0; subst c0.
      destruct G as [G1 G2]. repeat split; auto. rewrite (S []). reflexivity.
    + exact R.
  - pose proof (step_spec n s H) as S.
    destruct (child_pos n s) as [i|] eqn:C.
    + destruct S as [c [A [[G1 G2] S]]]. rewrite A.
      rewrite (jmod_step n s i c (s2 :: r') _ H C A) by discriminate.
      specialize (IH c G1).
      destruct (m_detach c (s2 :: r')) as [[c' d]|].
      * destruct IH as [I1 [I2 [I3 [I4 [I5 [I6 I7]]]]]]. rewrite I1.
        assert (G' : good c') by (split; [exact I2 | rewrite I3; exact G2]).
        destruct (set_child_spec n s i c c' H C A G' I4 I5) as [Q1 [Q2 [Q3 [Q4 Q5]]]].
        rewrite Q2. destruct I6 as [I6a I6b]. repeat split; auto; try congruence; try (rewrite S; exact I7).
      * rewrite IH. reflexivity.
    + apply jmod_none; auto. discriminate.
Qed.

(* ------------------------------------------------------------------ _jbn_add_item and the insertion part of apply_patch *)
Lemma idx_ok_next : forall l i, idx_ok i l -> match rev l with x :: _ => n_kl x + 1 | [] => i end = i + Z.of_nat (length l).
Proof.
  intros l i H. destruct (rev l) as [|x r] eqn:E.
  - apply (f_equal (@rev node)) in E. rewrite rev_involutive in E. subst l. simpl. lia.
  - apply (f_equal (@rev node)) in E. rewrite rev_involutive in E. simpl in E. subst l.
    pose proof (idx_ok_last _ _ _ H) as L. rewrite L. rewrite app_length. simpl. lia.
Qed.

Lemma add_item_arr : forall p v, inv p -> n_ty p = TArr -> good v ->
  inv (add_item p v) /\ val (add_item p v) = JArr (map val (n_ch p) ++ [val v]) /\ n_ty (add_item p v) = TArr /\
  n_kl (add_item p v) = n_kl p /\ n_key (add_item p v) = n_key p.
Proof.
  intros p v H T G. apply inv_unfold in H. destruct H as [Hg Ht]. rewrite T in Ht.
  unfold add_item. rewrite T. rewrite n_ty_set_ch, n_kl_set_ch, n_key_set_ch. repeat split; auto.
  - apply inv_unfold. rewrite n_ty_set_ch, n_ch_set_ch, T. split.
    + apply Forall_app2; auto. constructor; auto. apply good_set_key. apply good_set_kl. exact G.
    + apply idx_ok_app. split; auto. simpl. split; auto.
      rewrite n_kl_set_key, n_kl_set_kl. apply (idx_ok_next _ 0 Ht).
  - rewrite val_arr by (rewrite n_ty_set_ch; exact T). rewrite n_ch_set_ch, map_app. simpl.
    rewrite val_set_key, val_set_kl. reflexivity.
Qed.

Lemma add_item_obj : forall p v s, inv p -> n_ty p = TObj -> good v ->
  let v' := set_kl (set_key v s) (Z.of_nat (length s)) in
  inv (add_item p v') /\ val (add_item p v') = JObj (map kv (n_ch p) ++ [(s, val v)]) /\ n_ty (add_item p v') = TObj /\
  n_kl (add_item p v') = n_kl p /\ n_key (add_item p v') = n_key p.
Proof.
  intros p v s H T G v'. apply inv_unfold in H. destruct H as [Hg Ht]. rewrite T in Ht.
  unfold add_item. rewrite T. rewrite n_ty_set_ch, n_kl_set_ch, n_key_set_ch. repeat split; auto.
  - apply inv_unfold. rewrite n_ty_set_ch, n_ch_set_ch, T. split.
    + apply Forall_app2; auto. constructor; auto. apply good_set_kl. apply good_set_key. exact G.
    + apply Forall_app2; auto. constructor; auto. unfold key_ok, v'.
      rewrite n_kl_set_kl, n_key_set_kl, n_key_set_key. reflexivity.
  - rewrite val_obj by (rewrite n_ty_set_ch; exact T). rewrite n_ch_set_ch, map_app. simpl. unfold kv at 2, v'.
    rewrite n_key_set_kl, n_key_set_key, val_set_kl, val_set_key. reflexivity.
Qed.

Definition put_post (r : rc) (n n' : node) (spec : option jval) : Prop :=
  inv n' /\ n_ty n' = n_ty n /\ n_kl n' = n_kl n /\ n_key n' = n_key n /\
  (if rc_ok r then spec = Some (val n') else spec = None).

Lemma put_here_spec : forall fo k p s v, inv p -> good v -> k <> OIncrement ->
  put_post (fst (put_here fo k p s v)) p (snd (put_here fo k p s v)) (add_here lenient (val v) (val p) s).
Proof.
  intros fo k p s v H G K. pose proof H as H0. apply inv_unfold in H. destruct H as [Hg Ht].
  assert (KI : op_eqb k OIncrement = false).
  { destruct (op_eqb k OIncrement) eqn:E; auto. apply op_eqb_eq in E. contradiction. }
  unfold put_here, put_post.
  destruct (n_ty p) eqn:T;
    try (simpl; repeat split; auto; destruct p as [kl key ty vi vs ch]; simpl in T; subst ty; reflexivity).
  - (* object *)
    pose proof (obj_pos s (n_ch p) Ht) as P. unfold child_pos. rewrite T.
    destruct (find_pos (key_match s) (n_ch p)) as [i|] eqn:F.
    + destruct P as [c [A [B [L [_ S]]]]]. rewrite A. rewrite KI. cbn [fst snd rc_ok].
      assert (C : child_pos p s = Some i) by (unfold child_pos; rewrite T; exact F).
      assert (G' : good (copy_data c v)) by (apply good_copy_data; exact G).
      assert (K1 : n_kl (copy_data c v) = n_kl c) by (destruct c; reflexivity).
      assert (K2 : n_key (copy_data c v) = n_key c) by (destruct c; reflexivity).
      destruct (set_child_spec p s i c _ H0 C A G' K1 K2) as [Q1 [Q2 [Q3 [Q4 Q5]]]].
      repeat split; auto; try congruence. rewrite Q2. unfold upd_val. rewrite (val_obj p T). cbn [add_here]. rewrite L.
      rewrite val_copy_data. reflexivity.
    + rewrite KI. cbn [fst snd rc_ok].
      destruct (add_item_obj p v s H0 T G) as [Q1 [Q2 [Q3 [Q4 Q5]]]]. cbv zeta in *.
      repeat split; auto; try congruence. rewrite Q2. rewrite (val_obj p T). cbn [add_here]. rewrite P. reflexivity.
  - (* array *)
    rewrite KI. rewrite (val_arr p T). cbn [add_here]. change (s_is_dash s) with (is_dash s).
    destruct (is_dash s).
    + cbn [fst snd rc_ok]. destruct (add_item_arr p v H0 T G) as [Q1 [Q2 [Q3 [Q4 Q5]]]].
      repeat split; auto; try congruence.
    + cbn [c_ins lenient]. rewrite map_length, arr_index_strict.
      destruct (strict_idx s) as [idx|]; [|cbn [fst snd rc_ok]; repeat split; auto].
      set (len := Z.of_nat (length (n_ch p))).
      destruct (Z.gtb_spec idx len) as [A|A]; destruct (Z.ltb_spec idx 0) as [B|B]; cbn [orb fst snd rc_ok];
        try (repeat split; auto;
             destruct (Z.leb_spec 0 idx); destruct (Z.leb_spec idx len); simpl; auto; lia).
      destruct (Z.ltb_spec idx len) as [C|C]; cbn [fst snd rc_ok].
      * (* insertion before an existing item *)
        assert (Li : (Z.to_nat idx <= length (n_ch p))%nat) by (unfold len in *; lia).
        rewrite n_ty_set_ch, n_kl_set_ch, n_key_set_ch. repeat split; auto.
        -- apply inv_unfold. rewrite n_ty_set_ch, n_ch_set_ch, T. split.
           ++ apply Forall_app2; [apply Forall_firstn; auto|]. constructor; [apply good_set_kl; exact G|].
              apply Forall_map_same; [apply good_inc | apply Forall_skipn; auto].
           ++ rewrite <- (firstn_skipn (Z.to_nat idx) (n_ch p)) in Ht. apply idx_ok_app in Ht. destruct Ht as [F1 F2].
              apply idx_ok_app. split; auto. rewrite firstn_length_le in * by exact Li.
              simpl. split; [rewrite n_kl_set_kl; lia|]. apply idx_ok_inc. exact F2.
        -- destruct (Z.leb_spec 0 idx); destruct (Z.leb_spec idx len); cbn [andb]; try lia.
           rewrite (val_arr (set_ch p _)) by (rewrite n_ty_set_ch; exact T). rewrite n_ch_set_ch, map_app. simpl map.
           rewrite val_set_kl, map_map, firstn_map, skipn_map. f_equal. f_equal. f_equal. f_equal.
           apply map_ext. intro a. symmetry. apply val_inc_kl.
      * (* index = length: appended *)
        assert (E : idx = len) by lia.
        destruct (add_item_arr p (set_kl v idx) H0 T (good_set_kl _ _ G)) as [Q1 [Q2 [Q3 [Q4 Q5]]]].
        repeat split; auto; try congruence.
        destruct (Z.leb_spec 0 idx); destruct (Z.leb_spec idx len); cbn [andb]; try lia.
        rewrite Q2, val_set_kl. f_equal. f_equal.
        assert (EL : Z.to_nat idx = length (map val (n_ch p))) by (rewrite map_length; unfold len in E; lia).
        rewrite EL, firstn_all, skipn_all. reflexivity.
Qed.

Lemma put_spec : forall fo k v, good v -> k <> OIncrement -> forall p n, inv n -> p <> [] ->
  match m_put fo k n p v with
  | Some (r, n') => put_post r n n' (s_add lenient (val n) p (val v))
  | None => s_add lenient (val n) p (val v) = None
  end.
Proof.
  intros fo k v G K. induction p as [|s r IH]; intros n H NE; [contradiction|].
  cbn [m_put]. unfold s_add in *.
  destruct r as [|s2 r'].
  - pose proof (put_here_spec fo k n s v H G K) as P. destruct (put_here fo k n s v) as [r0 n']. exact P.
  - pose proof (step_spec n s H) as S.
    destruct (child_pos n s) as [i|] eqn:C.
    + destruct S as [c [A [[G1 G2] S]]]. rewrite A.
      rewrite (jmod_step n s i c (s2 :: r') _ H C A) by discriminate.
      specialize (IH c G1). assert (NE2 : s2 :: r' <> []) by discriminate. specialize (IH NE2).
      destruct (m_put fo k c (s2 :: r') v) as [[r0 c']|].
      * destruct IH as [I1 [I2 [I3 [I4 I5]]]].
        assert (G' : good c') by (split; [exact I1 | rewrite I2; exact G2]).
        destruct (set_child_spec n s i c c' H C A G' I3 I4) as [Q1 [Q2 [Q3 [Q4 Q5]]]].
        unfold put_post. repeat split; auto.
        destruct (rc_ok r0); rewrite I5; [rewrite Q2|]; reflexivity.
      * rewrite IH. reflexivity.
    + apply jmod_none; auto. discriminate.
Qed.

(* ------------------------------------------------------------------ test: _jbl_compare_nodes == 0 is rfc6902 4.6 equality *)
Section F2.
  Variables A B : Type.
  Variable f : A -> B -> bool.
  Fixpoint forall2b (l : list A) (m : list B) : bool :=
    match l, m with
    | [], [] => true
    | x :: l', y :: m' => f x y && forall2b l' m'
    | _, _ => false
    end.
End F2.
Arguments forall2b {A B} f l m.

Lemma nodes_eq_unfold : forall fo kl key ty vi vs ch b,
  nodes_eq fo (Node kl key ty vi vs ch) b =
  ty_eqb ty (n_ty b) &&
  match ty with
  | TNone | TNull => true
  | TBool => Bool.eqb (negb (vi =? 0)) (negb (n_vi b =? 0))
  | TI64 => vi =? n_vi b
  | TF64 => f_eq fo vi (n_vi b)
  | TStr => (Z.of_nat (length vs) =? Z.of_nat (length (n_vs b))) && strncmp_eq vs (n_vs b) (length vs)
  | TArr => forall2b (nodes_eq fo) ch (n_ch b)
  | TObj => (Z.of_nat (length ch) =? Z.of_nat (length (n_ch b))) &&
            forallb (fun x => match find_pos (member_match x) (n_ch b) with
                              | Some i => match nth_error (n_ch b) i with Some y => nodes_eq fo x y | None => false end
                              | None => false
                              end) ch
  end.
Proof. intros. destruct ty; reflexivity. Qed.

Lemma jeq_arr : forall feq xs ys, jeq feq (JArr xs) (JArr ys) = forall2b (jeq feq) xs ys.
Proof. reflexivity. Qed.
Lemma jeq_obj : forall feq xs ys, jeq feq (JObj xs) (JObj ys) =
  (Z.of_nat (length xs) =? Z.of_nat (length ys)) &&
  forallb (fun p => match lookup (fst p) ys with Some y => jeq feq (snd p) y | None => false end) xs.
Proof.
  intros. cbn [jeq]. f_equal. induction xs as [|[k x] r IH]; [reflexivity|]. cbn [forallb fst snd]. rewrite <- IH. reflexivity.
Qed.

Lemma zn_eqb : forall n m, (Z.of_nat n =? Z.of_nat m) = Nat.eqb n m.
Proof. intros n m. destruct (Nat.eqb_spec n m) as [E|E]; [subst; apply Z.eqb_refl | apply Z.eqb_neq; lia]. Qed.
Lemma str_eq_spec : forall a b, (Z.of_nat (length a) =? Z.of_nat (length b)) && strncmp_eq a b (length a) = bytes_eqb a b.
Proof.
  intros a b. rewrite zn_eqb. revert b.
  induction a as [|x a IH]; destruct b as [|y b]; simpl; auto.
  specialize (IH b). destruct (x =? y); simpl; [exact IH | apply andb_false_r].
Qed.

Lemma find_pos_ext : forall f g l, (forall c, In c l -> f c = g c) -> find_pos f l = find_pos g l.
Proof.
  induction l as [|x r IH]; intro H; [reflexivity|]. simpl.
  rewrite (H x (or_introl eq_refl)). rewrite IH; auto. intros c Hc. apply H. right. exact Hc.
Qed.
Lemma member_match_spec : forall x c, key_ok x -> key_ok c -> member_match x c = key_match (n_key x) c.
Proof.
  intros x c Hx Hc. rewrite (key_match_spec _ c Hc). unfold member_match. rewrite Hx, Nat2Z.id.
  destruct (bytes_eqb (n_key c) (n_key x)) eqn:E.
  - apply bytes_eqb_eq in E. rewrite Hc, E. rewrite Z.eqb_refl, strncmp_eq_refl. reflexivity.
  - apply andb_false_iff. destruct (Z.eqb_spec (Z.of_nat (length (n_key x))) (n_kl c)) as [L|L]; auto. right.
    destruct (strncmp_eq (n_key x) (n_key c) (length (n_key x))) eqn:S; auto.
    apply strncmp_eq_full in S; [|rewrite Hc in L; lia]. rewrite S, bytes_eqb_refl in E. discriminate.
Qed.

Lemma val_none_ty : forall b, n_ty b <> TNone ->
  match val b with
  | JNull => n_ty b = TNull | JBool _ => n_ty b = TBool | JI64 _ => n_ty b = TI64 | JF64 _ => n_ty b = TF64
  | JStr _ => n_ty b = TStr | JArr _ => n_ty b = TArr | JObj _ => n_ty b = TObj
  end.
Proof. intros [kl key ty vi vs ch] H. simpl in *. destruct ty; auto. contradiction. Qed.

Definition eq_IH (fo : fops) (x : node) : Prop :=
  good x -> forall b, good b -> nodes_eq fo x b = jeq (f_eq fo) (val x) (val b).

Lemma arr_go : forall fo l m, Forall (eq_IH fo) l -> Forall good l -> Forall good m ->
  forall2b (nodes_eq fo) l m = forall2b (jeq (f_eq fo)) (map val l) (map val m).
Proof.
  intros fo. induction l as [|x l IH]; destruct m as [|y m]; intros HI Gl Gm; simpl; auto.
  inversion HI as [|? ? Hx HI']; subst. inversion Gl as [|? ? Gx Gl']; subst. inversion Gm as [|? ? Gy Gm']; subst.
  rewrite IH; auto. f_equal. apply Hx; auto.
Qed.

Lemma obj_go : forall fo chb, Forall key_ok chb -> Forall good chb ->
  forall l, Forall (eq_IH fo) l -> Forall good l -> Forall key_ok l ->
  forallb (fun x => match find_pos (member_match x) chb with
                    | Some i => match nth_error chb i with Some y => nodes_eq fo x y | None => false end
                    | None => false
                    end) l =
  forallb (fun p => match lookup (fst p) (map kv chb) with Some y => jeq (f_eq fo) (snd p) y | None => false end) (map kv l).
Proof.
  intros fo chb Kb Gb. induction l as [|x l IH]; intros HI Gl Kl; [reflexivity|].
  inversion HI as [|? ? Hx HI']; subst. inversion Gl as [|? ? Gx Gl']; subst. inversion Kl as [|? ? Kx Kl']; subst.
  cbn [forallb map]. rewrite IH; auto. f_equal.
  rewrite (find_pos_ext (member_match x) (key_match (n_key x)) chb).
  2:{ intros c Hc. apply member_match_spec; auto. rewrite Forall_forall in Kb. apply Kb. exact Hc. }
  pose proof (obj_pos (n_key x) chb Kb) as P.
  destruct (find_pos (key_match (n_key x)) chb) as [i|].
  - destruct P as [c [A [B [L _]]]]. rewrite A. unfold kv at 1. cbn [fst snd]. rewrite L.
    apply Hx; [exact Gx | exact (Forall_nth _ _ chb i c Gb A)].
  - unfold kv at 1. cbn [fst]. rewrite P. reflexivity.
Qed.

Lemma nodes_eq_spec : forall fo a, good a -> forall b, good b -> nodes_eq fo a b = jeq (f_eq fo) (val a) (val b).
Proof.
  intros fo a. induction a as [kl key ty vi vs ch IH] using node_ind'. intros [Ha Na] b [Hb Nb].
  rewrite nodes_eq_unfold. pose proof (val_none_ty b Nb) as VB. simpl in Na.
  apply inv_unfold in Ha. simpl in Ha. destruct Ha as [Hg Ht].
  apply inv_unfold in Hb. destruct Hb as [Hg' Ht'].
  destruct b as [kl' key' ty' vi' vs' ch']. simpl in Nb, VB, Hg', Ht'. cbn [n_ty n_vi n_vs n_ch].
  destruct ty; try contradiction; destruct ty'; try contradiction; try reflexivity.
  - (* string *) apply str_eq_spec.
  - (* objects *)
    change (ty_eqb TObj TObj) with true. cbn [andb val]. rewrite jeq_obj. rewrite !map_length. f_equal.
    apply obj_go; auto.
  - (* arrays *)
    change (ty_eqb TArr TArr) with true. cbn [andb val]. rewrite jeq_arr. apply arr_go; auto.
Qed.

(* ------------------------------------------------------------------ jbn_clone *)
Lemma renumber_spec : forall l i, idx_ok i (renumber i l) /\ map val (renumber i l) = map val l /\
                                  (Forall good l -> Forall good (renumber i l)).
Proof.
  induction l as [|x r IH]; intro i; simpl; [repeat split; auto|].
  destruct (IH (i + 1)) as [A [B C]]. repeat split; auto.
  - apply n_kl_set_kl.
  - rewrite val_set_kl, B. reflexivity.
  - intro G. inversion G; subst. constructor; [apply good_set_kl; auto | apply C; auto].
Qed.

Lemma clone_unfold : forall kl k ty vi vs ch,
  clone (Node kl k ty vi vs ch) =
  Node kl (firstn (Z.to_nat kl) k) ty vi vs
       (match ty with TArr => renumber 0 (map (fun c => set_key c []) (map clone ch)) | TObj => map clone ch | _ => [] end).
Proof. reflexivity. Qed.

Lemma clone_spec : forall n, inv n -> inv (clone n) /\ val (clone n) = val n /\ n_ty (clone n) = n_ty n /\
                                      n_kl (clone n) = n_kl n /\ (key_ok n -> n_key (clone n) = n_key n).
Proof.
  induction n as [kl key ty vi vs ch IH] using node_ind'. intro H.
  apply inv_unfold in H. simpl in H. destruct H as [Hg Ht]. rewrite clone_unfold.
  assert (KK : key_ok (Node kl key ty vi vs ch) -> firstn (Z.to_nat kl) key = key).
  { unfold key_ok. simpl. intro E. rewrite E, Nat2Z.id. apply firstn_all. }
  assert (GC : Forall good (map clone ch)).
  { rewrite Forall_forall in IH, Hg. apply Forall_forall. intros c' Hc'. apply in_map_iff in Hc'.
    destruct Hc' as [c [E Hc]]. subst c'. destruct (Hg c Hc) as [I T]. destruct (IH c Hc I) as [A [_ [B _]]].
    split; [exact A | rewrite B; exact T]. }
  assert (VC : map val (map clone ch) = map val ch).
  { rewrite map_map. apply map_ext_in. intros c Hc. rewrite Forall_forall in IH, Hg.
    destruct (Hg c Hc) as [I _]. apply (IH c Hc I). }
  split; [|split; [|repeat split; auto]].
  - apply inv_unfold. cbn [n_ty n_ch]. destruct ty; try (split; [constructor|exact I]); try (split; auto; fail).
    + (* object *) split; [exact GC|].
      rewrite Forall_forall in IH, Hg, Ht. apply Forall_forall. intros c' Hc'. apply in_map_iff in Hc'.
      destruct Hc' as [c [E Hc]]. subst c'. destruct (Hg c Hc) as [I _]. destruct (IH c Hc I) as [_ [_ [_ [B C]]]].
      unfold key_ok. rewrite B, (C (Ht c Hc)). apply Ht. exact Hc.
    + (* array *)
      destruct (renumber_spec (map (fun c => set_key c []) (map clone ch)) 0) as [A [_ C]]. split; [|exact A].
      apply C. apply Forall_map_same; [intros x Gx; apply good_set_key; exact Gx | exact GC].
  - cbn [val]. destruct ty; try reflexivity.
    + (* object *) f_equal. rewrite map_map. apply map_ext_in. intros c Hc. unfold kv.
      rewrite Forall_forall in IH, Hg, Ht. destruct (Hg c Hc) as [I _]. destruct (IH c Hc I) as [_ [V [_ [_ C]]]].
      rewrite V, (C (Ht c Hc)). reflexivity.
    + (* array *) f_equal.
      destruct (renumber_spec (map (fun c => set_key c []) (map clone ch)) 0) as [_ [B _]]. rewrite B.
      rewrite <- VC. rewrite (map_map (fun c => set_key c []) val). apply map_ext. intro c. apply val_set_key.
Qed.

(* ------------------------------------------------------------------ apply_op: one rfc6902 operation *)
Definition sopk_of (k : opk) : sopk :=
  match k with
  | ONone => SNone | OAdd => SAdd | ORemove => SRemove | OReplace => SReplace | OCopy => SCopy | OMove => SMove
  | OTest => STest | OIncrement => SIncrement | OAddCreate => SAddCreate | OSwap => SSwap
  end.
Definition sop_of (o : pop) : sop :=
  {| s_op := sopk_of (p_op o); s_path := p_path o; s_from := p_from o; s_val := option_map val (p_val o) |}.
Definition rfc_kind (k : opk) : Prop := k = OAdd \/ k = ORemove \/ k = OReplace \/ k = OCopy \/ k = OMove \/ k = OTest.
Definition op_good (o : pop) : Prop := forall v, p_val o = Some v -> good v.

Lemma is_root_spec : forall p, is_root p = s_is_root lenient p.
Proof. intros [|[|x s] [|y r]]; reflexivity. Qed.

Lemma doc_val_good : forall t, n_ty t <> TNone -> doc_val t = Some (val t).
Proof. intros [kl key ty vi vs ch] H. unfold doc_val. simpl in *. destruct ty; auto. contradiction. Qed.
Lemma doc_val_none : forall t, n_ty t = TNone -> doc_val t = None.
Proof. intros [kl key ty vi vs ch] H. unfold doc_val. simpl in *. subst. reflexivity. Qed.

Lemma none_child_pos : forall t s, n_ty t = TNone -> child_pos t s = None.
Proof. intros t s H. apply scalar_child_pos; rewrite H; discriminate. Qed.
Lemma none_detach : forall t p, n_ty t = TNone -> m_detach t p = None.
Proof. intros t [|s r] H; [reflexivity|]. cbn [m_detach]. rewrite none_child_pos; auto. Qed.
Lemma none_find : forall t p, n_ty t = TNone -> p <> [] -> m_find t p = None.
Proof. intros t [|s r] H N; [contradiction|]. cbn [m_find]. rewrite none_child_pos; auto. Qed.
Lemma none_put : forall fo k t p v, n_ty t = TNone ->
  match m_put fo k t p v with Some (r, t') => r <> RcOk /\ t' = t | None => True end.
Proof.
  intros fo k t [|s [|s2 r]] v H; cbn [m_put]; try (split; [discriminate | reflexivity]).
  - unfold put_here. rewrite H. split; [discriminate | reflexivity].
  - rewrite none_child_pos; auto.
Qed.

(* the statement proved for every rfc6902 operation: against the lenient reading of the RFC the model is exact *)
Definition op_post (fo : fops) (t : node) (o : pop) : Prop :=
  match rfc_op lenient (f_eq fo) (doc_val t) (sop_of o) with
  | Some d' => fst (apply_op fo t o) = RcOk /\ doc_val (snd (apply_op fo t o)) = d' /\ inv (snd (apply_op fo t o))
  | None => fst (apply_op fo t o) <> RcOk /\ inv (snd (apply_op fo t o))
  end.

Lemma ty_none_dec : forall t, n_ty t = TNone \/ n_ty t <> TNone.
Proof. intro t. destruct (n_ty t); auto; right; discriminate. Qed.
Lemma rc_ok_eq : forall r, rc_ok r = true -> r = RcOk.
Proof. intros []; simpl; intro H; try discriminate; reflexivity. Qed.
Lemma rc_ok_neq : forall r, rc_ok r = false -> r <> RcOk.
Proof. intros []; simpl; intro H; try discriminate; intro E; discriminate. Qed.
Lemma not_root_nonempty : forall p, is_root p = false -> p <> [].
Proof. intros [|s r] H; [discriminate | discriminate]. Qed.

Lemma poc_spec : forall fo k v t p, op_eqb k OIncrement = false -> op_eqb k OAddCreate = false -> good v -> inv t ->
  n_ty t <> TNone -> p <> [] ->
  match s_add lenient (val t) p (val v) with
  | Some d' => fst (put_or_create fo k t p v) = RcOk /\ doc_val (snd (put_or_create fo k t p v)) = Some d' /\
               inv (snd (put_or_create fo k t p v))
  | None => fst (put_or_create fo k t p v) <> RcOk /\ inv (snd (put_or_create fo k t p v))
  end.
Proof.
  intros fo k v t p K1 K2 G H T NE.
  assert (K : k <> OIncrement) by (intro E; subst; discriminate).
  pose proof (put_spec fo k v G K p t H NE) as P. unfold put_or_create. rewrite K2.
  destruct (m_put fo k t p v) as [[r n']|].
  - destruct P as [I1 [I2 [I3 [I4 I5]]]]. cbn [fst snd].
    destruct (rc_ok r) eqn:R; rewrite I5.
    + split; [apply rc_ok_eq; exact R|]. split; [apply doc_val_good; congruence | exact I1].
    + split; [apply rc_ok_neq; exact R | exact I1].
  - rewrite P. cbn [fst snd]. split; [discriminate | exact H].
Qed.

Lemma poc_none : forall fo k v t p, op_eqb k OAddCreate = false -> n_ty t = TNone -> inv t ->
  fst (put_or_create fo k t p v) <> RcOk /\ inv (snd (put_or_create fo k t p v)).
Proof.
  intros fo k v t p K T H. unfold put_or_create. rewrite K.
  pose proof (none_put fo k t p v T) as N.
  destruct (m_put fo k t p v) as [[r n']|]; cbn [fst snd].
  - destruct N as [N1 N2]. subst n'. auto.
  - split; [discriminate | exact H].
Qed.

Lemma apply_remove_eq : forall fo t o, p_op o = ORemove ->
  apply_op fo t o = if is_root (p_path o) then (RcOk, zero_node)
                    else match m_detach t (p_path o) with None => (RcNotFound, t) | Some (t', _) => (RcOk, t') end.
Proof.
  intros fo t o H. unfold apply_op, apply_op_v. rewrite H. cbn [negb].
  change (op_eqb ORemove OSwap) with false. change (op_eqb ORemove OTest) with false. change (op_eqb ORemove ORemove) with true.
  cbn [andb orb]. destruct (is_root (p_path o)); [reflexivity|].
  destruct (m_detach t (p_path o)) as [[t' d]|]; reflexivity.
Qed.

Lemma op_remove : forall fo t o, p_op o = ORemove -> inv t -> op_post fo t o.
Proof.
  intros fo t o K H. unfold op_post. rewrite (apply_remove_eq fo t o K).
  unfold rfc_op, sop_of. cbn [s_op s_path s_val s_from]. rewrite K. cbn [sopk_of]. rewrite <- is_root_spec.
  destruct (is_root (p_path o)) eqn:R.
  - cbn [fst snd]. repeat split; auto; constructor.
  - destruct (ty_none_dec t) as [T|T].
    + rewrite (doc_val_none t T), (none_detach t _ T). cbn [fst snd]. split; [discriminate | auto].
    + rewrite (doc_val_good t T). pose proof (detach_spec (p_path o) t H) as D.
      destruct (m_detach t (p_path o)) as [[t' d]|].
      * destruct D as [D1 [D2 [D3 _]]]. rewrite D1. cbn [option_map fst snd]. repeat split; auto.
        apply doc_val_good. congruence.
      * rewrite D. cbn [option_map fst snd]. split; [discriminate | auto].
Qed.

Lemma apply_add_eq : forall fo t o, p_op o = OAdd ->
  apply_op fo t o = if is_root (p_path o) then match p_val o with None => (RcNoValue, t) | Some v => (RcOk, copy_data t v) end
                    else match p_val o with None => (RcNoValue, t) | Some v => put_or_create fo OAdd t (p_path o) v end.
Proof.
  intros fo t o H. unfold apply_op, apply_op_v. rewrite H. cbn [negb].
  change (op_eqb OAdd OSwap) with false. change (op_eqb OAdd OTest) with false. change (op_eqb OAdd ORemove) with false.
  change (op_eqb OAdd OReplace) with false. change (op_eqb OAdd OAdd) with true. change (op_eqb OAdd OMove) with false.
  change (op_eqb OAdd OCopy) with false.
  cbn [andb orb]. destruct (is_root (p_path o)); reflexivity.
Qed.

Lemma op_add : forall fo t o, p_op o = OAdd -> inv t -> op_good o -> op_post fo t o.
Proof.
  intros fo t o K H G. unfold op_post. rewrite (apply_add_eq fo t o K).
  unfold rfc_op, sop_of. cbn [s_op s_path s_val s_from]. rewrite K. cbn [sopk_of]. rewrite <- is_root_spec.
  unfold op_good in G. destruct (p_val o) as [v|]; cbn [option_map].
  2:{ destruct (is_root (p_path o)); cbn [fst snd]; split; try discriminate; auto. }
  specialize (G v eq_refl). destruct (is_root (p_path o)) eqn:R.
  - cbn [fst snd]. pose proof (good_copy_data t v G) as [G1 G2]. repeat split; auto.
    rewrite (doc_val_good _ G2), val_copy_data. reflexivity.
  - destruct (ty_none_dec t) as [T|T].
    + rewrite (doc_val_none t T). apply poc_none; auto.
    + rewrite (doc_val_good t T).
      pose proof (poc_spec fo OAdd v t (p_path o) eq_refl eq_refl G H T (not_root_nonempty _ R)) as P.
      destruct (s_add lenient (val t) (p_path o) (val v)); cbn [option_map]; exact P.
Qed.

Lemma apply_replace_eq : forall fo t o, p_op o = OReplace ->
  apply_op fo t o =
  if is_root (p_path o) then match p_val o with None => (RcNoValue, t) | Some v => (RcOk, copy_data t v) end
  else match m_detach t (p_path o) with
       | None => (RcNotFound, t)
       | Some (t1, _) => match p_val o with None => (RcNoValue, t1) | Some v => put_or_create fo OReplace t1 (p_path o) v end
       end.
Proof.
  intros fo t o H. unfold apply_op, apply_op_v. rewrite H. cbn [negb].
  change (op_eqb OReplace OSwap) with false. change (op_eqb OReplace OTest) with false. change (op_eqb OReplace ORemove) with false.
  change (op_eqb OReplace OReplace) with true. change (op_eqb OReplace OAdd) with false. change (op_eqb OReplace OMove) with false.
  change (op_eqb OReplace OCopy) with false.
  cbn [andb orb]. destruct (is_root (p_path o)); [reflexivity|].
  destruct (m_detach t (p_path o)) as [[t' d]|]; reflexivity.
Qed.

Lemma op_replace : forall fo t o, p_op o = OReplace -> inv t -> op_good o -> op_post fo t o.
Proof.
  intros fo t o K H G. unfold op_post. rewrite (apply_replace_eq fo t o K).
  unfold rfc_op, sop_of. cbn [s_op s_path s_val s_from]. rewrite K. cbn [sopk_of]. rewrite <- is_root_spec.
  unfold op_good in G. destruct (p_val o) as [v|]; cbn [option_map].
  2:{ destruct (is_root (p_path o)); cbn [fst snd]; [split; [discriminate | auto]|].
      pose proof (detach_spec (p_path o) t H) as D.
      destruct (m_detach t (p_path o)) as [[t' d]|]; cbn [fst snd]; (split; [discriminate|]); auto.
      destruct D as [_ [D2 _]]. exact D2. }
  specialize (G v eq_refl). destruct (is_root (p_path o)) eqn:R.
  - cbn [fst snd]. pose proof (good_copy_data t v G) as [G1 G2]. repeat split; auto.
    rewrite (doc_val_good _ G2), val_copy_data. reflexivity.
  - destruct (ty_none_dec t) as [T|T].
    + rewrite (doc_val_none t T), (none_detach t _ T). cbn [fst snd]. split; [discriminate | auto].
    + rewrite (doc_val_good t T). pose proof (detach_spec (p_path o) t H) as D.
      destruct (m_detach t (p_path o)) as [[t1 d]|].
      * destruct D as [D1 [D2 [D3 _]]]. rewrite D1.
        assert (T1 : n_ty t1 <> TNone) by congruence.
        pose proof (poc_spec fo OReplace v t1 (p_path o) eq_refl eq_refl G D2 T1 (not_root_nonempty _ R)) as P.
        destruct (s_add lenient (val t1) (p_path o) (val v)); cbn [option_map]; exact P.
      * rewrite D. cbn [fst snd]. split; [discriminate | auto].
Qed.

(* move / copy with the whole document as `path` (22df63c): the value at `from` becomes the document *)
Definition root_from (t : node) (from : option (list seg)) : rc * node :=
  match from with
  | None => (RcPatchInvalid, t)
  | Some [] => (RcOk, t)
  | Some f => match m_find t f with None => (RcNotFound, t) | Some v => (RcOk, copy_data t v) end
  end.

Lemma root_from_spec : forall t from, inv t ->
  match (match from, doc_val t with
         | Some f, Some dv => match jget lenient dv f with Some x => Some (Some x) | None => None end
         | _, _ => match from with Some [] => Some (doc_val t) | _ => None end
         end) with
  | Some d' => fst (root_from t from) = RcOk /\ doc_val (snd (root_from t from)) = d' /\ inv (snd (root_from t from))
  | None => fst (root_from t from) <> RcOk /\ inv (snd (root_from t from))
  end.
Proof.
  intros t [[|s r]|] H; cbn [root_from].
  - destruct (doc_val t) as [dv|] eqn:D; cbn [jget fst snd]; repeat split; auto.
  - destruct (ty_none_dec t) as [T|T].
    + rewrite (doc_val_none t T). rewrite (none_find t (s :: r) T) by discriminate. cbn [fst snd]. split; [discriminate | exact H].
    + rewrite (doc_val_good t T). pose proof (find_spec (s :: r) t H) as F.
      destruct (m_find t (s :: r)) as [v|].
      * destruct F as [F1 [F2 F3]]. rewrite F1. cbn [fst snd].
        assert (G : good v) by (split; [exact F2 | apply F3; discriminate]).
        pose proof (good_copy_data t v G) as [G1 G2]. repeat split; auto.
        rewrite (doc_val_good _ G2), val_copy_data. reflexivity.
      * rewrite F. cbn [fst snd]. split; [discriminate | exact H].
  - destruct (doc_val t); cbn [fst snd]; split; try discriminate; exact H.
Qed.

Lemma apply_move_eq : forall fo t o, p_op o = OMove ->
  apply_op fo t o =
  if is_root (p_path o) then root_from t (p_from o)
  else match p_from o with
       | None => (RcPatchInvalid, t)
       | Some f => match m_detach t f with
                   | None => (RcNotFound, t)
                   | Some (t2, v) => put_or_create fo OMove t2 (p_path o) v
                   end
       end.
Proof.
  intros fo t o H. unfold apply_op, apply_op_v. rewrite H. cbn [negb].
  change (op_eqb OMove OSwap) with false. change (op_eqb OMove OTest) with false. change (op_eqb OMove ORemove) with false.
  change (op_eqb OMove OReplace) with false. change (op_eqb OMove OAdd) with false. change (op_eqb OMove OMove) with true.
  change (op_eqb OMove OCopy) with false. change (op_eqb OMove OAddCreate) with false.
  cbn [andb orb]. destruct (is_root (p_path o)); [reflexivity|].
  destruct (p_from o) as [f|]; reflexivity.
Qed.

Lemma op_move : forall fo t o, p_op o = OMove -> inv t -> op_post fo t o.
Proof.
  intros fo t o K H. unfold op_post. rewrite (apply_move_eq fo t o K).
  unfold rfc_op, sop_of. cbn [s_op s_path s_val s_from]. rewrite K. cbn [sopk_of]. rewrite <- is_root_spec.
  cbn [c_lenient lenient negb andb].
  destruct (is_root (p_path o)) eqn:R.
  - cbn [andb]. exact (root_from_spec t (p_from o) H).
  - cbn [andb]. destruct (p_from o) as [f|]; [|cbn [fst snd]; split; [discriminate | auto]].
    destruct (ty_none_dec t) as [T|T].
    + rewrite (doc_val_none t T), (none_detach t _ T). cbn [fst snd]. split; [discriminate | auto].
    + rewrite (doc_val_good t T). pose proof (detach_spec f t H) as D.
      destruct (m_detach t f) as [[t2 v]|].
      * destruct D as [D1 [D2 [D3 [_ [_ [D6 D7]]]]]]. rewrite D7, D1.
        assert (T2 : n_ty t2 <> TNone) by congruence.
        pose proof (poc_spec fo OMove v t2 (p_path o) eq_refl eq_refl D6 D2 T2 (not_root_nonempty _ R)) as P.
        destruct (s_add lenient (val t2) (p_path o) (val v)); cbn [option_map]; exact P.
      * destruct (jget lenient (val t) f); [rewrite D|]; cbn [fst snd]; split; try discriminate; auto.
Qed.

Lemma apply_copy_eq : forall fo t o, p_op o = OCopy ->
  apply_op fo t o =
  if is_root (p_path o) then root_from t (p_from o)
  else match p_from o with
       | None => (RcPatchInvalid, t)
       | Some f => match m_find t f with
                   | None => (RcNotFound, t)
                   | Some v => put_or_create fo OCopy t (p_path o) (clone v)
                   end
       end.
Proof.
  intros fo t o H. unfold apply_op, apply_op_v. rewrite H. cbn [negb].
  change (op_eqb OCopy OSwap) with false. change (op_eqb OCopy OTest) with false. change (op_eqb OCopy ORemove) with false.
  change (op_eqb OCopy OReplace) with false. change (op_eqb OCopy OAdd) with false. change (op_eqb OCopy OMove) with false.
  change (op_eqb OCopy OCopy) with true. change (op_eqb OCopy OAddCreate) with false.
  cbn [andb orb]. destruct (is_root (p_path o)); [reflexivity|].
  destruct (p_from o) as [f|]; reflexivity.
Qed.

Lemma op_copy : forall fo t o, p_op o = OCopy -> inv t -> op_post fo t o.
Proof.
  intros fo t o K H. unfold op_post. rewrite (apply_copy_eq fo t o K).
  unfold rfc_op, sop_of. cbn [s_op s_path s_val s_from]. rewrite K. cbn [sopk_of]. rewrite <- is_root_spec.
  cbn [c_lenient lenient].
  destruct (is_root (p_path o)) eqn:R.
  - cbn [andb]. exact (root_from_spec t (p_from o) H).
  - cbn [andb]. destruct (p_from o) as [f|]; [|cbn [fst snd]; split; [discriminate | auto]].
    destruct (ty_none_dec t) as [T|T].
    + rewrite (doc_val_none t T). destruct f as [|s r].
      * (* from = root of an absent document *)
        cbn [m_find]. apply poc_none; auto.
      * rewrite (none_find t (s :: r) T) by discriminate. cbn [fst snd]. split; [discriminate | auto].
    + rewrite (doc_val_good t T). pose proof (find_spec f t H) as F.
      destruct (m_find t f) as [v|] eqn:MF.
      * destruct F as [F1 [F2 F3]]. rewrite F1.
        destruct (clone_spec v F2) as [C1 [C2 [C3 _]]].
        assert (TV : n_ty v <> TNone).
        { destruct f as [|s r]; [|apply F3; discriminate]. simpl in MF. inversion MF; subst v. exact T. }
        assert (G : good (clone v)) by (split; [exact C1 | rewrite C3; exact TV]).
        pose proof (poc_spec fo OCopy (clone v) t (p_path o) eq_refl eq_refl G H T (not_root_nonempty _ R)) as P.
        rewrite C2 in P.
        destruct (s_add lenient (val t) (p_path o) (val v)); cbn [option_map]; exact P.
      * rewrite F. cbn [fst snd]. split; [discriminate | auto].
Qed.

Lemma apply_test_eq : forall fo t o, p_op o = OTest ->
  apply_op fo t o =
  match p_val o with
  | None => (RcNoValue, t)
  | Some v => match (if is_root (p_path o) then Some t else m_find t (p_path o)) with
              | Some x => if nodes_eq fo x v then (RcOk, t) else (RcTestFailed, t)
              | None => (RcTestFailed, t)
              end
  end.
Proof. intros fo t o H. unfold apply_op, apply_op_v. rewrite H. cbn [negb]. reflexivity. Qed.

Lemma op_test : forall fo t o, p_op o = OTest -> inv t -> op_good o -> op_post fo t o.
Proof.
  intros fo t o K H G. unfold op_post. rewrite (apply_test_eq fo t o K).
  unfold rfc_op, sop_of. cbn [s_op s_path s_val s_from]. rewrite K. cbn [sopk_of]. rewrite <- is_root_spec.
  unfold op_good in G. destruct (p_val o) as [v|]; cbn [option_map]; [|cbn [fst snd]; split; [discriminate | auto]].
  specialize (G v eq_refl).
  destruct (ty_none_dec t) as [T|T].
  - rewrite (doc_val_none t T). destruct (is_root (p_path o)) eqn:R.
    + assert (E : nodes_eq fo t v = false).
      { destruct t as [? ? tt ? ? ?]. simpl in T. subst tt. rewrite nodes_eq_unfold.
        destruct G as [_ G2]. destruct v as [? ? tv ? ? ?]. simpl in *. destruct tv; try reflexivity. contradiction. }
      rewrite E. cbn [fst snd]. split; [discriminate | auto].
    + rewrite (none_find t _ T (not_root_nonempty _ R)). cbn [fst snd]. split; [discriminate | auto].
  - rewrite (doc_val_good t T).
    assert (X : forall x, good x -> jeq (f_eq fo) (val x) (val v) = nodes_eq fo x v).
    { intros x Gx. symmetry. apply nodes_eq_spec; auto. }
    destruct (is_root (p_path o)) eqn:R.
    + rewrite (X t (conj H T)). destruct (nodes_eq fo t v); cbn [fst snd]; [|split; [discriminate | auto]].
      repeat split; auto. apply doc_val_good. exact T.
    + pose proof (find_spec (p_path o) t H) as F.
      destruct (m_find t (p_path o)) as [x|].
      * destruct F as [F1 [F2 F3]]. rewrite F1.
        rewrite (X x (conj F2 (F3 (not_root_nonempty _ R)))).
        destruct (nodes_eq fo x v); cbn [fst snd]; [|split; [discriminate | auto]].
        repeat split; auto. apply doc_val_good. exact T.
      * rewrite F. cbn [fst snd]. split; [discriminate | auto].
Qed.

(* the single-operation theorem against the lenient reading, for all six rfc6902 operations *)
Theorem apply_op_lenient : forall fo t o, rfc_kind (p_op o) -> inv t -> op_good o -> op_post fo t o.
Proof.
  intros fo t o K H G. destruct K as [K|[K|[K|[K|[K|K]]]]].
  - apply op_add; auto.
  - apply op_remove; auto.
  - apply op_replace; auto.
  - apply op_copy; auto.
  - apply op_move; auto.
  - apply op_test; auto.
Qed.

(* ------------------------------------------------------------------ strict (RFC) => lenient (library) *)
Lemma sw64_id : forall x, - 2 ^ 63 <= x < 2 ^ 63 -> sw 64 x = x.
Proof. intros x H. unfold sw. rewrite Z.mod_small; lia. Qed.
Lemma sw32_id : forall x, - 2 ^ 31 <= x < 2 ^ 31 -> sw 32 x = x.
Proof. intros x H. unfold sw. rewrite Z.mod_small; lia. Qed.

Lemma is_digit_range : forall c, is_digit c = true -> 48 <= c <= 57.
Proof. intros c H. unfold is_digit in H. apply andb_true_iff in H. destruct H as [A B]. apply Z.leb_le in A, B. lia. Qed.

Definition dstep (a c : Z) : Z := a * 10 + (c - 48).
Lemma atoi_digits_small : forall s k acc, forallb is_digit s = true -> 0 <= acc < 10 ^ Z.of_nat k -> (length s + k <= 18)%nat ->
  atoi_digits s acc = fold_left dstep s acc /\ 0 <= fold_left dstep s acc < 10 ^ Z.of_nat (length s + k).
Proof.
  induction s as [|c r IH]; intros k acc D A L.
  - simpl. split; auto.
  - cbn [forallb] in D. apply andb_true_iff in D. destruct D as [Dc Dr]. apply is_digit_range in Dc.
    cbn [atoi_digits fold_left].
    replace ((c <? 48) || (c >? 57)) with false.
    2:{ symmetry. apply orb_false_iff. split; [apply Z.ltb_ge; lia | rewrite Z.gtb_ltb; apply Z.ltb_ge; lia]. }
    assert (P : 10 ^ Z.of_nat (S k) = 10 * 10 ^ Z.of_nat k) by (rewrite Nat2Z.inj_succ, Z.pow_succ_r; lia).
    assert (B : 10 ^ Z.of_nat (S k) <= 10 ^ 18).
    { apply Z.pow_le_mono_r; simpl in L; lia. }
    assert (E : sw 64 (acc * 10 + c - 48) = dstep acc c).
    { unfold dstep. rewrite sw64_id; [lia|]. assert (10 ^ 18 < 2 ^ 63) by reflexivity. lia. }
    rewrite E.
    assert (A' : 0 <= dstep acc c < 10 ^ Z.of_nat (S k)) by (unfold dstep; lia).
    assert (L' : (length r + S k <= 18)%nat) by (simpl in L; lia).
    destruct (IH (S k) (dstep acc c) Dr A' L') as [I1 I2]. split; [exact I1|].
    replace (length (c :: r) + k)%nat with (length r + S k)%nat by (simpl; lia). exact I2.
Qed.

Lemma atoi_digit_head : forall c r, 48 <= c <= 57 -> atoi (c :: r) = sw 64 (atoi_digits (c :: r) 0 * 1).
Proof.
  intros c r H.
  assert (E : c = 48 \/ c = 49 \/ c = 50 \/ c = 51 \/ c = 52 \/ c = 53 \/ c = 54 \/ c = 55 \/ c = 56 \/ c = 57) by lia.
  destruct E as [E|[E|[E|[E|[E|[E|[E|[E|[E|E]]]]]]]]]; subst c; reflexivity.
Qed.

Lemma dec_val_fold : forall s, dec_val s = fold_left dstep s 0.
Proof. reflexivity. Qed.

Lemma is_dash_true : forall s, s_is_dash s = true -> s = [45].
Proof.
  intros s H. destruct s as [|c r]; [discriminate|]. unfold s_is_dash in H.
  destruct c as [|p|p]; try discriminate.
  do 6 (destruct p as [p|p|]; try discriminate). destruct r; [reflexivity | discriminate].
Qed.

Lemma strict_idx_atoi : forall s i, strict_idx s = Some i -> atoi s = i /\ 0 <= i < 10 ^ 9 /\ s_is_dash s = false.
Proof.
  intros s i H. unfold strict_idx in H. destruct s as [|c r]; [discriminate|].
  destruct (Z.eqb_spec c 48) as [E|E].
  - subst c. destruct r; [|discriminate]. inversion H; subst. repeat split; try reflexivity; lia.
  - destruct (forallb is_digit (c :: r)) eqn:D; [|discriminate].
    destruct (Nat.leb_spec (length (c :: r)) 9) as [L|L]; [|discriminate]. cbn [andb] in H. inversion H; subst i.
    pose proof D as D0. cbn [forallb] in D0. apply andb_true_iff in D0. destruct D0 as [Dc _]. apply is_digit_range in Dc.
    assert (A0 : 0 <= 0 < 10 ^ Z.of_nat 0) by (simpl; lia).
    assert (L0 : (length (c :: r) + 0 <= 18)%nat) by lia.
    destruct (atoi_digits_small (c :: r) 0%nat 0 D A0 L0) as [I1 I2].
    rewrite dec_val_fold. rewrite (atoi_digit_head c r Dc), I1.
    assert (B : 10 ^ Z.of_nat (length (c :: r) + 0) <= 10 ^ 9) by (apply Z.pow_le_mono_r; lia).
    assert (10 ^ 9 < 2 ^ 63) by reflexivity.
    split; [|split].
    + rewrite Z.mul_1_r. apply sw64_id. lia.
    + lia.
    + destruct (s_is_dash (c :: r)) eqn:SD; [|reflexivity]. apply is_dash_true in SD. inversion SD. lia.
Qed.

Lemma aidx_mono : forall l s i, aidx strict l s = Some i -> aidx lenient l s = Some i.
Proof.
  intros l s i H. exact H.
Qed.

Lemma jget_mono : forall p v x, jget strict v p = Some x -> jget lenient v p = Some x.
Proof.
  induction p as [|s r IH]; intros v x H; [exact H|].
  cbn [jget] in *. destruct v; try discriminate.
  - destruct (aidx strict items s) as [i|] eqn:A; [|discriminate]. rewrite (aidx_mono _ _ _ A).
    destruct (nth_error items i); [|discriminate]. apply IH. exact H.
  - destruct (lookup s members); [|discriminate]. apply IH. exact H.
Qed.

Lemma jmod_mono : forall (f g : jval -> sseg -> option jval), (forall pv s r, f pv s = Some r -> g pv s = Some r) ->
  forall p v v', jmod strict v p f = Some v' -> jmod lenient v p g = Some v'.
Proof.
  intros f g FG. induction p as [|s r IH]; intros v v' H; [discriminate|].
  cbn [jmod] in *. destruct r as [|s2 r'].
  - apply FG. exact H.
  - destruct v; try discriminate.
    + destruct (aidx strict items s) as [i|] eqn:A; [|discriminate]. rewrite (aidx_mono _ _ _ A).
      destruct (nth_error items i) as [x|]; [|discriminate].
      destruct (jmod strict x (s2 :: r') f) as [x'|] eqn:M; [|discriminate]. rewrite (IH x x' M). exact H.
    + destruct (lookup s members) as [x|]; [|discriminate].
      destruct (jmod strict x (s2 :: r') f) as [x'|] eqn:M; [|discriminate]. rewrite (IH x x' M). exact H.
Qed.

Lemma remove_here_mono : forall pv s r, remove_here strict pv s = Some r -> remove_here lenient pv s = Some r.
Proof.
  intros pv s r H. exact H.
Qed.
Lemma add_here_mono : forall x pv s r, add_here strict x pv s = Some r -> add_here lenient x pv s = Some r.
Proof.
  intros x pv s r H. exact H.
Qed.

Lemma s_remove_mono : forall v p v', s_remove strict v p = Some v' -> s_remove lenient v p = Some v'.
Proof. intros v p v' H. unfold s_remove in *. eapply jmod_mono; [|exact H]. apply remove_here_mono. Qed.
Lemma s_add_mono : forall v p x v', s_add strict v p x = Some v' -> s_add lenient v p x = Some v'.
Proof. intros v p x v' H. unfold s_add in *. eapply jmod_mono; [|exact H]. apply add_here_mono. Qed.

(* the one place where the library's reading is NOT an extension of the RFC: "/" (one empty segment) is the
   library's root.  (Until 22df63c move / copy onto the root were ignored as well: apply_op_v true.) *)
Definition no_root_alias (o : sop) : Prop := s_path o <> [[]].

Lemma strict_root : forall p, p <> [[]] -> s_is_root lenient p = s_is_root strict p.
Proof. intros [|[|x s] [|y r]] H; try reflexivity. contradiction. Qed.

Theorem rfc_op_strict_lenient : forall feq d o d', no_root_alias o ->
  rfc_op strict feq d o = Some d' -> rfc_op lenient feq d o = Some d'.
Proof.
  intros feq d o d' NA H. unfold no_root_alias in NA. unfold rfc_op in *. rewrite (strict_root _ NA).
  destruct (s_op o) eqn:K; try discriminate.
  - (* add *)
    destruct (s_val o) as [v|]; [|discriminate]. destruct (s_is_root strict (s_path o)); auto.
    destruct d as [dv|]; [|discriminate].
    destruct (s_add strict dv (s_path o) v) as [r|] eqn:A; [|discriminate]. rewrite (s_add_mono _ _ _ _ A). exact H.
  - (* remove *)
    destruct (s_is_root strict (s_path o)); auto. destruct d as [dv|]; [|discriminate].
    destruct (s_remove strict dv (s_path o)) as [r|] eqn:A; [|discriminate]. rewrite (s_remove_mono _ _ _ A). exact H.
  - (* replace *)
    destruct (s_val o) as [v|]; [|discriminate]. destruct (s_is_root strict (s_path o)); auto.
    destruct d as [dv|]; [|discriminate].
    destruct (s_remove strict dv (s_path o)) as [d1|] eqn:A; [|discriminate]. rewrite (s_remove_mono _ _ _ A).
    destruct (s_add strict d1 (s_path o) v) as [r|] eqn:B; [|discriminate]. rewrite (s_add_mono _ _ _ _ B). exact H.
  - (* copy *)
    destruct (s_from o) as [f|]; [|destruct d; destruct (s_is_root strict (s_path o)); discriminate].
    destruct d as [dv|]; [|destruct (s_is_root strict (s_path o)); discriminate].
    destruct (s_is_root strict (s_path o)).
    { destruct (jget strict dv f) as [x|] eqn:G; [|discriminate]. rewrite (jget_mono _ _ _ G). exact H. }
    destruct (jget strict dv f) as [x|] eqn:G; [|discriminate]. rewrite (jget_mono _ _ _ G).
    destruct (s_add strict dv (s_path o) x) as [r|] eqn:B; [|discriminate]. rewrite (s_add_mono _ _ _ _ B). exact H.
  - (* move *)
    destruct (s_from o) as [f|]; [|destruct d; destruct (s_is_root strict (s_path o)); discriminate].
    destruct d as [dv|]; [|destruct (s_is_root strict (s_path o)); discriminate].
    destruct (s_is_root strict (s_path o)).
    { destruct (jget strict dv f) as [x|] eqn:G; [|discriminate]. rewrite (jget_mono _ _ _ G). exact H. }
    cbn [c_lenient strict lenient negb andb] in *.
    destruct (proper_prefix f (s_path o)); [discriminate|].
    destruct (jget strict dv f) as [x|] eqn:G; [|discriminate]. rewrite (jget_mono _ _ _ G).
    destruct (s_remove strict dv f) as [d1|] eqn:A; [|discriminate]. rewrite (s_remove_mono _ _ _ A).
    destruct (s_add strict d1 (s_path o) x) as [r|] eqn:B; [|discriminate]. rewrite (s_add_mono _ _ _ _ B). exact H.
  - (* test *)
    destruct (s_val o) as [v|]; [|discriminate].
    destruct (s_is_root strict (s_path o)).
    + exact H.
    + destruct d as [dv|]; [|discriminate].
      destruct (jget strict dv (s_path o)) as [x|] eqn:G; [|discriminate]. rewrite (jget_mono _ _ _ G). exact H.
Qed.

(* ------------------------------------------------------------------ the theorems of C15 *)
Definition ops_ok (l : list pop) : Prop :=
  Forall (fun o => rfc_kind (p_op o) /\ op_good o) l.

Theorem patch_single_op_rfc : forall fo t o d',
  rfc_kind (p_op o) -> klidx_inv t -> op_good o -> no_root_alias (sop_of o) ->
  rfc_op strict (f_eq fo) (doc_val t) (sop_of o) = Some d' ->
  fst (apply_op fo t o) = RcOk /\ doc_val (snd (apply_op fo t o)) = d' /\ klidx_inv (snd (apply_op fo t o)).
Proof.
  intros fo t o d' K H G NA S. apply rfc_op_strict_lenient in S; auto.
  pose proof (apply_op_lenient fo t o K H G) as P. unfold op_post in P. rewrite S in P. exact P.
Qed.

Lemma apply_ops_lenient : forall fo l t, ops_ok l -> inv t ->
  match rfc_program lenient (f_eq fo) (doc_val t) (map sop_of l) with
  | Some d' => fst (apply_ops fo t l) = RcOk /\ doc_val (snd (apply_ops fo t l)) = d' /\ inv (snd (apply_ops fo t l))
  | None => fst (apply_ops fo t l) <> RcOk /\ inv (snd (apply_ops fo t l))
  end.
Proof.
  intros fo. induction l as [|o l IH]; intros t HO H.
  - simpl. repeat split; auto.
  - inversion HO as [|? ? [K G] HO']; subst. cbn [map rfc_program apply_ops].
    pose proof (apply_op_lenient fo t o K H G) as P. unfold op_post in P.
    destruct (rfc_op lenient (f_eq fo) (doc_val t) (sop_of o)) as [d1|].
    + destruct P as [P1 [P2 P3]]. destruct (apply_op fo t o) as [r t1]. cbn [fst snd] in *. subst r d1.
      apply IH; auto.
    + destruct (apply_op fo t o) as [r t1]. cbn [fst snd] in P. destruct P as [P1 P2].
      destruct r; try (cbn [fst snd]; split; [discriminate | exact P2]). exfalso. apply P1. reflexivity.
Qed.

Lemma rfc_program_strict_lenient : forall feq l d d', Forall no_root_alias l ->
  rfc_program strict feq d l = Some d' -> rfc_program lenient feq d l = Some d'.
Proof.
  intros feq. induction l as [|o l IH]; intros d d' NA H; [exact H|].
  inversion NA; subst. cbn [rfc_program] in *.
  destruct (rfc_op strict feq d o) as [d1|] eqn:S; [|discriminate].
  rewrite (rfc_op_strict_lenient feq d o d1); auto.
Qed.

Theorem patch_program_rfc : forall fo l t d',
  ops_ok l -> Forall no_root_alias (map sop_of l) -> klidx_inv t ->
  rfc_program strict (f_eq fo) (doc_val t) (map sop_of l) = Some d' ->
  fst (apply_ops fo t l) = RcOk /\ doc_val (snd (apply_ops fo t l)) = d' /\ klidx_inv (snd (apply_ops fo t l)).
Proof.
  intros fo l t d' HO NA H S. apply rfc_program_strict_lenient in S; auto.
  pose proof (apply_ops_lenient fo l t HO H) as P. rewrite S in P. exact P.
Qed.

(* any operation that the (lenient reading of the) RFC makes an error is reported, in particular a missing target *)
Theorem patch_program_error_reported : forall fo l t,
  ops_ok l -> klidx_inv t ->
  rfc_program lenient (f_eq fo) (doc_val t) (map sop_of l) = None -> fst (apply_ops fo t l) <> RcOk.
Proof.
  intros fo l t HO H S. pose proof (apply_ops_lenient fo l t HO H) as P. rewrite S in P. apply P.
Qed.

(* cached index = position after every rfc6902 operation of a program, whatever the outcome *)
Theorem klidx_inv_preserved : forall fo l t, ops_ok l -> klidx_inv t -> klidx_inv (snd (apply_ops fo t l)).
Proof.
  intros fo l t HO H. pose proof (apply_ops_lenient fo l t HO H) as P.
  destruct (rfc_program lenient (f_eq fo) (doc_val t) (map sop_of l)); apply P.
Qed.

Lemma detach_none_find : forall p n, p <> [] -> m_find n p = None -> m_detach n p = None.
Proof.
  induction p as [|s r IH]; intros n NE H; [contradiction|].
  cbn [m_find m_detach] in *. destruct (child_pos n s) as [i|]; auto.
  destruct (nth_error (n_ch n) i) as [c|]; auto.
  destruct r as [|s2 r']; [discriminate|]. rewrite IH; auto. discriminate.
Qed.

Theorem missing_target_reported : forall fo t o,
  (p_op o = ORemove \/ p_op o = OReplace) -> is_root (p_path o) = false -> m_find t (p_path o) = None ->
  apply_op fo t o = (RcNotFound, t).
Proof.
  intros fo t o K R F. pose proof (detach_none_find _ t (not_root_nonempty _ R) F) as D.
  destruct K as [K|K].
  - rewrite (apply_remove_eq fo t o K), R, D. reflexivity.
  - rewrite (apply_replace_eq fo t o K), R, D. reflexivity.
Qed.

(* _jbl_patch works on a converted copy: whatever fails, the binary document is the one that was passed in *)
Theorem failed_patch_leaves_binary : forall (B : Type) (dec : B -> node) (enc : node -> option B) (empty : B) fo b l,
  fst (patch_binary B dec enc empty fo b l) <> RcOk -> snd (patch_binary B dec enc empty fo b l) = b.
Proof.
  intros B dec enc empty fo b l H. unfold patch_binary in *. destruct l as [|r l]; [reflexivity|].
  destruct (patch_node fo (dec b) (r :: l)) as [rc0 t]. destruct rc0; try reflexivity.
  destruct (n_ty t); try (destruct (enc t); [exfalso; apply H; reflexivity | reflexivity]).
  exfalso. apply H. reflexivity.
Qed.

(* and a successful one holds the RFC result, given that the two conversions are inverse on values *)
Theorem patch_binary_rfc : forall (B : Type) (dec : B -> node) (enc : node -> option B) (empty : B) fo b raw ops d',
  (forall b0, klidx_inv (dec b0)) ->
  (forall n, klidx_inv n -> n_ty n <> TNone -> exists b', enc n = Some b' /\ val (dec b') = val n /\ n_ty (dec b') <> TNone) ->
  raw <> [] -> parse_ops raw = inr ops -> ops_ok ops -> Forall no_root_alias (map sop_of ops) ->
  rfc_program strict (f_eq fo) (doc_val (dec b)) (map sop_of ops) = Some d' ->
  fst (patch_binary B dec enc empty fo b raw) = RcOk /\
  match d' with
  | Some v => doc_val (dec (snd (patch_binary B dec enc empty fo b raw))) = Some v
  | None => snd (patch_binary B dec enc empty fo b raw) = empty
  end.
Proof.
  intros B dec enc empty fo b raw ops d' HD HE NE PO HO NA S.
  destruct (patch_program_rfc fo ops (dec b) d' HO NA (HD b) S) as [P1 [P2 P3]].
  unfold patch_binary, patch_node. destruct raw as [|r0 raw']; [contradiction|]. rewrite PO.
  destruct (apply_ops fo (dec b) ops) as [rc0 t]. cbn [fst snd] in *. subst rc0.
  destruct (ty_none_dec t) as [T|T].
  - rewrite T. rewrite (doc_val_none t T) in P2. subst d'. split; reflexivity.
  - rewrite (doc_val_good t T) in P2. subst d'.
    destruct (HE t P3 T) as [b' [E1 [E2 E3]]]. rewrite E1.
    destruct (n_ty t) eqn:TT; try contradiction; cbn [fst snd]; (split; [reflexivity|]);
      rewrite (doc_val_good _ E3), E2; reflexivity.
Qed.

(* ------------------------------------------------------------------ trees built from text / binary satisfy the invariant *)
Section JvalInd.
  Variable P : jval -> Prop.
  Hypothesis Hn : P JNull.
  Hypothesis Hb : forall b, P (JBool b).
  Hypothesis Hi : forall n, P (JI64 n).
  Hypothesis Hf : forall n, P (JF64 n).
  Hypothesis Hs : forall s, P (JStr s).
  Hypothesis Ha : forall l, Forall P l -> P (JArr l).
  Hypothesis Ho : forall ms, Forall (fun kv => P (snd kv)) ms -> P (JObj ms).
  Fixpoint jval_ind' (v : jval) : P v :=
    match v with
    | JNull => Hn | JBool b => Hb b | JI64 n => Hi n | JF64 n => Hf n | JStr s => Hs s
    | JArr l => Ha l ((fix go (l : list jval) : Forall P l :=
                         match l with [] => Forall_nil P | x :: r => Forall_cons x (jval_ind' x) (go r) end) l)
    | JObj ms => Ho ms ((fix go (ms : list (list Z * jval)) : Forall (fun kv => P (snd kv)) ms :=
                           match ms with
                           | [] => Forall_nil _
                           | kv :: r => Forall_cons kv (jval_ind' (snd kv)) (go r)
                           end) ms)
    end.
End JvalInd.

Fixpoint of_arr (i : Z) (l : list jval) : list node :=
  match l with [] => [] | x :: r => of_val i [] x :: of_arr (i + 1) r end.
Fixpoint of_obj (ms : list (list Z * jval)) : list node :=
  match ms with [] => [] | (k, x) :: r => of_val (Z.of_nat (length k)) k x :: of_obj r end.
Lemma of_val_arr : forall kl key l, of_val kl key (JArr l) = Node kl key TArr 0 [] (of_arr 0 l).
Proof. reflexivity. Qed.
Lemma of_val_obj : forall kl key ms, of_val kl key (JObj ms) = Node kl key TObj 0 [] (of_obj ms).
Proof. reflexivity. Qed.
Lemma of_val_kl : forall v kl key, n_kl (of_val kl key v) = kl /\ n_key (of_val kl key v) = key /\ n_ty (of_val kl key v) <> TNone.
Proof. intros [] kl key; simpl; repeat split; auto; try discriminate. Qed.

Theorem of_val_inv : forall v kl key, inv (of_val kl key v) /\ val (of_val kl key v) = v.
Proof.
  induction v as [| b | n | n | s | l IH | ms IH] using jval_ind'; intros kl key;
    try (split; [simpl; auto | reflexivity]).
  - destruct b; split; simpl; auto.
  - rewrite of_val_arr. split.
    + apply inv_unfold. cbn [n_ty n_ch].
      assert (A : forall i, Forall good (of_arr i l) /\ idx_ok i (of_arr i l)).
      { induction l as [|x r IHr]; intro i; simpl; [split; [constructor|exact I]|].
        inversion IH as [|? ? Hx Hr]; subst. destruct (IHr Hr (i + 1)) as [A1 A2].
        split; [constructor; auto; split; [apply Hx | apply of_val_kl] | split; [apply of_val_kl | exact A2]]. }
      apply A.
    + cbn [val]. f_equal.
      assert (A : forall i, map val (of_arr i l) = l).
      { induction l as [|x r IHr]; intro i; simpl; [reflexivity|].
        inversion IH as [|? ? Hx Hr]; subst. rewrite (IHr Hr). f_equal. apply Hx. }
      apply A.
  - rewrite of_val_obj. split.
    + apply inv_unfold. cbn [n_ty n_ch].
      induction ms as [|[k x] r IHr]; simpl; [split; constructor|].
      inversion IH as [|? ? Hx Hr]; subst. destruct (IHr Hr) as [A1 A2]. simpl in Hx.
      split; constructor; auto.
      * split; [apply Hx | apply of_val_kl].
      * unfold key_ok. destruct (of_val_kl x (Z.of_nat (length k)) k) as [E1 [E2 _]]. rewrite E1, E2. reflexivity.
    + cbn [val]. f_equal.
      induction ms as [|[k x] r IHr]; simpl; [reflexivity|].
      inversion IH as [|? ? Hx Hr]; subst. rewrite (IHr Hr). simpl in Hx.
      destruct (of_val_kl x (Z.of_nat (length k)) k) as [_ [E2 _]]. rewrite E2. f_equal. f_equal. apply Hx.
Qed.
Lemma of_val_inv1 : forall v kl key, inv (of_val kl key v).
Proof. intros. apply of_val_inv. Qed.
Lemma of_val_good : forall v kl key, good (of_val kl key v).
Proof. intros. split; [apply of_val_inv1 | apply of_val_kl]. Qed.

(* ------------------------------------------------------------------ `test`: succeeds iff the values are equal
   (added after seeded change round2/C15: an int64 comparison by truncated difference) *)

(* the equality of the specification, clause by clause: it is the mathematical one.  Integers are equal iff they are the same
   integer (no modulus: values that differ by 2^32, 2^53, 2^63 are different), strings iff the same bytes (a 0 byte is a byte),
   arrays item by item, objects as unordered member sets. *)
Lemma jeq_int_iff : forall feq x b, jeq feq (JI64 x) b = true <-> b = JI64 x.
Proof.
  intros feq x b. destruct b; simpl; split; intro H; try discriminate; try reflexivity.
  - apply Z.eqb_eq in H. subst. reflexivity.
  - injection H as <-. apply Z.eqb_refl.
Qed.
Lemma jeq_str_iff : forall feq s b, jeq feq (JStr s) b = true <-> b = JStr s.
Proof.
  intros feq s b. destruct b; simpl; split; intro H; try discriminate; try reflexivity.
  - apply bytes_eqb_eq in H. subst. reflexivity.
  - injection H as <-. apply bytes_eqb_refl.
Qed.
Lemma jeq_bool_iff : forall feq x b, jeq feq (JBool x) b = true <-> b = JBool x.
Proof.
  intros feq x b. destruct b as [|y| | | | |]; simpl; split; intro H; try discriminate; try reflexivity.
  - apply Bool.eqb_prop in H. subst. reflexivity.
  - injection H as <-. apply Bool.eqb_reflx.
Qed.
Lemma jeq_null_iff : forall feq b, jeq feq JNull b = true <-> b = JNull.
Proof. intros feq b. destruct b; simpl; split; intro H; try discriminate; reflexivity. Qed.
Lemma jeq_f64_iff : forall feq x b, jeq feq (JF64 x) b = true <-> exists y, b = JF64 y /\ feq x y = true.
Proof.
  intros feq x b. destruct b; simpl; split; intro H; try discriminate; try (destruct H as [y [H _]]; discriminate).
  - eexists. split; [reflexivity | exact H].
  - destruct H as [y [H1 H2]]. injection H1 as ->. exact H2.
Qed.
Lemma jeq_arr_iff : forall feq l b,
  jeq feq (JArr l) b = true <-> exists m, b = JArr m /\ Forall2 (fun x y => jeq feq x y = true) l m.
Proof.
  intros feq l b. destruct b as [| | | | |m|]; simpl;
    try (split; intro H; [discriminate | destruct H as [m' [H _]]; discriminate]).
  split.
  - intro H. exists m. split; [reflexivity|]. revert m H. induction l as [|x l IH]; intros [|y m] H; try discriminate.
    + constructor.
    + apply andb_true_iff in H. destruct H as [H1 H2]. constructor; [exact H1 | apply IH; exact H2].
  - intros [m' [E F]]. injection E as <-. induction F as [|x y l m Hxy F IH]; [reflexivity|].
    apply andb_true_iff. split; [exact Hxy | exact IH].
Qed.
Lemma jeq_obj_iff : forall feq xs b,
  jeq feq (JObj xs) b = true <->
  exists ys, b = JObj ys /\ length xs = length ys /\
             Forall (fun m => exists y, lookup (fst m) ys = Some y /\ jeq feq (snd m) y = true) xs.
Proof.
  intros feq xs b. destruct b as [| | | | | |ys]; simpl;
    try (split; intro H; [discriminate | destruct H as [m' [H _]]; discriminate]).
  split.
  - intro H. apply andb_true_iff in H. destruct H as [HL H]. apply Z.eqb_eq in HL. apply Nat2Z.inj in HL.
    exists ys. split; [reflexivity | split; [exact HL|]]. clear HL.
    induction xs as [|[k x] xs IH]; [constructor|].
    apply andb_true_iff in H. destruct H as [H1 H2]. constructor; [|apply IH; exact H2].
    simpl. destruct (lookup k ys) as [y|]; [|discriminate]. exists y. split; [reflexivity | exact H1].
  - intros [ys' [E [HL F]]]. injection E as <-. apply andb_true_iff. split; [apply Z.eqb_eq; rewrite HL; reflexivity|].
    clear HL. induction F as [|[k x] xs [y [Hl Hy]] F IH]; [reflexivity|].
    simpl in Hl, Hy. rewrite Hl. apply andb_true_iff. split; [exact Hy | exact IH].
Qed.

(* a `test` operation never changes the tree, and its result code is decided by the comparison alone *)
Lemma test_outcome : forall fo t o v, p_op o = OTest -> p_val o = Some v ->
  apply_op fo t o =
  (match (if is_root (p_path o) then Some t else m_find t (p_path o)) with
   | Some x => if nodes_eq fo x v then RcOk else RcTestFailed
   | None => RcTestFailed
   end, t).
Proof.
  intros fo t o v Ho Hv. unfold apply_op, apply_op_v. rewrite Ho, Hv.
  replace (op_eqb OTest OSwap) with false by reflexivity. replace (op_eqb OTest OTest) with true by reflexivity.
  cbn [andb]. destruct (if is_root (p_path o) then Some t else m_find t (p_path o)) as [x|]; [|reflexivity].
  destruct (nodes_eq fo x v); reflexivity.
Qed.

(* `test` succeeds iff the addressed value exists and is rfc6902-equal to the operand; in every case the tree is untouched *)
Lemma test_iff_equal : forall fo t o v, inv t -> n_ty t <> TNone -> p_op o = OTest -> p_val o = Some v -> good v ->
  snd (apply_op fo t o) = t /\
  (fst (apply_op fo t o) = RcOk <->
   exists x, (if is_root (p_path o) then Some (val t) else jget lenient (val t) (p_path o)) = Some x /\
             jeq (f_eq fo) x (val v) = true) /\
  (fst (apply_op fo t o) <> RcOk -> fst (apply_op fo t o) = RcTestFailed).
Proof.
  intros fo t o v It Nt Ho Hv Gv. rewrite (test_outcome fo t o v Ho Hv). cbn [fst snd]. split; [reflexivity|].
  destruct (is_root (p_path o)) eqn:R.
  - rewrite (nodes_eq_spec fo t (conj It Nt) v Gv). split.
    + split.
      * intro H. exists (val t). split; [reflexivity|]. destruct (jeq (f_eq fo) (val t) (val v)); [reflexivity | discriminate].
      * intros [x [E H]]. injection E as <-. rewrite H. reflexivity.
    + destruct (jeq (f_eq fo) (val t) (val v)); intro H; [contradiction H; reflexivity | reflexivity].
  - pose proof (find_spec (p_path o) t It) as F.
    assert (NP : p_path o <> []) by (intro E; rewrite E in R; discriminate).
    destruct (m_find t (p_path o)) as [x|].
    + destruct F as [F1 [F2 F3]]. rewrite (nodes_eq_spec fo x (conj F2 (F3 NP)) v Gv). split.
      * split.
        -- intro H. exists (val x). split; [exact F1|]. destruct (jeq (f_eq fo) (val x) (val v)); [reflexivity | discriminate].
        -- intros [y [E H]]. rewrite F1 in E. injection E as <-. rewrite H. reflexivity.
      * destruct (jeq (f_eq fo) (val x) (val v)); intro H; [contradiction H; reflexivity | reflexivity].
    + split.
      * split; [discriminate|]. intros [y [E _]]. rewrite F in E. discriminate.
      * reflexivity.
Qed.

(* the integer leaf, spelled out on trees: no pair of different integers compares equal *)
Lemma test_int_exact : forall fo kl k kl' k' x y,
  nodes_eq fo (of_val kl k (JI64 x)) (of_val kl' k' (JI64 y)) = true <-> x = y.
Proof.
  intros. rewrite (nodes_eq_spec fo _ (of_val_good (JI64 x) kl k) _ (of_val_good (JI64 y) kl' k')).
  destruct (of_val_inv (JI64 x) kl k) as [_ ->]. destruct (of_val_inv (JI64 y) kl' k') as [_ ->].
  rewrite jeq_int_iff. split; intro H; [injection H as ->; reflexivity | subst; reflexivity].
Qed.

(* ------------------------------------------------------------------ `copy`: the value read at `path` afterwards is the value
   that was at `from` (added after seeded change round3/C15: jbn_clone climbing one level where the source closes several) *)
Lemma lookup_set_member_same : forall s x ms y, lookup s ms = Some y -> lookup s (set_member s x ms) = Some x.
Proof.
  intros s x ms. induction ms as [|[k v] r IH]; intros y H; simpl in *; [discriminate|].
  destruct (bytes_eqb k s) eqn:E; simpl; rewrite E; [reflexivity | eapply IH; exact H].
Qed.
Lemma lookup_app_new : forall s x ms, lookup s ms = None -> lookup s (ms ++ [(s, x)]) = Some x.
Proof.
  intros s x ms. induction ms as [|[k v] r IH]; intro H; simpl in *.
  - rewrite bytes_eqb_refl. reflexivity.
  - destruct (bytes_eqb k s) eqn:E; [discriminate | apply IH; exact H].
Qed.
Lemma aidx_length : forall c l l' s, length l = length l' -> aidx c l s = aidx c l' s.
Proof.
  intros c l l' s H. unfold aidx. rewrite H. destruct l, l'; simpl in H; try discriminate; reflexivity.
Qed.
Lemma nth_error_mid : forall (A : Type) (l : list A) i x r, i = length l -> nth_error (l ++ x :: r) i = Some x.
Proof. intros A l i x r ->. rewrite nth_error_app2 by lia. rewrite Nat.sub_diag. reflexivity. Qed.

Lemma jget_add_here : forall x parent s v',
  add_here strict x parent s = Some v' -> s_is_dash s = false -> jget strict v' [s] = Some x.
Proof.
  intros x parent s v' H D. destruct parent as [| | | | |l|ms]; simpl in H; try discriminate.
  - rewrite D in H. cbn [strict c_ins] in H. destruct (strict_idx s) as [i|] eqn:I; [|discriminate].
    destruct ((0 <=? i) && (i <=? Z.of_nat (length l))) eqn:B; [|discriminate]. injection H as <-.
    apply andb_true_iff in B. destruct B as [B1 B2]. apply Z.leb_le in B1. apply Z.leb_le in B2.
    cbn [jget]. unfold aidx. rewrite D. cbn [strict c_look]. rewrite I.
    assert (L : length (firstn (Z.to_nat i) l) = Z.to_nat i) by (apply firstn_length_le; lia).
    assert (B : (0 <=? i) && (i <? Z.of_nat (length (firstn (Z.to_nat i) l ++ x :: skipn (Z.to_nat i) l))) = true).
    { apply andb_true_iff. split; [apply Z.leb_le; lia|]. apply Z.ltb_lt. rewrite app_length. simpl. rewrite L. lia. }
    rewrite B. rewrite (nth_error_mid _ _ _ _ _ (eq_sym L)). reflexivity.
  - injection H as <-. cbn [jget]. destruct (lookup s ms) as [y|] eqn:E.
    + rewrite (lookup_set_member_same s x ms y E). reflexivity.
    + pose proof (lookup_app_new s x ms E) as Q. unfold sseg in *. rewrite Q. reflexivity.
Qed.

Lemma jmod_cons2 : forall c v s s2 r2 f,
  jmod c v (s :: s2 :: r2) f =
  match v with
  | JObj ms => match lookup s ms with
               | Some x => match jmod c x (s2 :: r2) f with Some x' => Some (JObj (set_member s x' ms)) | None => None end
               | None => None
               end
  | JArr l => match aidx c l s with
              | Some i => match nth_error l i with
                          | Some x => match jmod c x (s2 :: r2) f with
                                      | Some x' => Some (JArr (firstn i l ++ x' :: skipn (S i) l))
                                      | None => None
                                      end
                          | None => None
                          end
              | None => None
              end
  | _ => None
  end.
Proof. reflexivity. Qed.

Lemma jget_cons : forall c v s r,
  jget c v (s :: r) =
  match v with
  | JObj ms => match lookup s ms with Some x => jget c x r | None => None end
  | JArr l => match aidx c l s with
              | Some i => match nth_error l i with Some x => jget c x r | None => None end
              | None => None
              end
  | _ => None
  end.
Proof. reflexivity. Qed.
Lemma some_inj : forall (A : Type) (a b : A), Some a = Some b -> a = b.
Proof. intros A a b H. congruence. Qed.

Lemma jget_after_add : forall x p v v',
  s_add strict v p x = Some v' -> s_is_dash (last p []) = false -> jget strict v' p = Some x.
Proof.
  intros x p. unfold s_add. induction p as [|s r IH]; intros v v' H D; [discriminate|].
  destruct r as [|s2 r2].
  - simpl in H. simpl in D. apply (jget_add_here x v s v' H D).
  - assert (D' : s_is_dash (last (s2 :: r2) []) = false) by exact D.
    rewrite jmod_cons2 in H. destruct v as [| | | | |l|ms]; try discriminate.
    + destruct (aidx strict l s) as [i|] eqn:A; [|discriminate].
      destruct (nth_error l i) as [y|] eqn:N; [|discriminate].
      destruct (jmod strict y (s2 :: r2) (add_here strict x)) as [y'|] eqn:J; [|discriminate].
      apply some_inj in H. subst v'.
      assert (Li : (i < length l)%nat) by (apply nth_error_Some; rewrite N; discriminate).
      assert (L : length (firstn i l) = i) by (apply firstn_length_le; lia).
      assert (LL : length l = length (firstn i l ++ y' :: skipn (S i) l)).
      { rewrite app_length. cbn [length]. rewrite L, skipn_length. lia. }
      rewrite jget_cons. rewrite <- (aidx_length strict l _ s LL), A. rewrite (nth_error_mid _ _ _ _ _ (eq_sym L)).
      apply (IH y y' J D').
    + destruct (lookup s ms) as [y|] eqn:E; [|discriminate].
      destruct (jmod strict y (s2 :: r2) (add_here strict x)) as [y'|] eqn:J; [|discriminate].
      apply some_inj in H. subst v'.
      rewrite jget_cons. rewrite (lookup_set_member_same s y' ms y E). apply (IH y y' J D').
Qed.

Lemma copy_value : forall fo t o f dv x d',
  inv t -> op_good o -> no_root_alias (sop_of o) -> p_op o = OCopy -> p_from o = Some f ->
  doc_val t = Some dv -> jget strict dv f = Some x ->
  rfc_op strict (f_eq fo) (doc_val t) (sop_of o) = Some d' ->
  s_is_dash (last (p_path o) []) = false ->
  fst (apply_op fo t o) = RcOk /\ inv (snd (apply_op fo t o)) /\
  exists v', doc_val (snd (apply_op fo t o)) = Some v' /\ jget strict v' (p_path o) = Some x.
Proof.
  intros fo t o f dv x d' It Go NR Ho Hf Hd Hx HR D.
  assert (K : rfc_kind (p_op o)) by (rewrite Ho; right; right; right; left; reflexivity).
  destruct (patch_single_op_rfc fo t o d' K It Go NR HR) as [R1 [R2 R3]].
  split; [exact R1 | split; [exact R3|]]. rewrite R2.
  unfold rfc_op, sop_of in HR. cbn [s_op s_path s_from s_val] in HR. rewrite Ho, Hf, Hd in HR. cbn [sopk_of] in HR.
  destruct (s_is_root strict (p_path o)) eqn:SR.
  { (* onto the root: the copied value is the document *)
    assert (PE : p_path o = []) by (destruct (p_path o) as [|[|c a] [|b2 b]]; [reflexivity | discriminate ..]).
    rewrite Hx in HR. injection HR as <-. exists x. rewrite PE. split; reflexivity. }
  rewrite Hx in HR. destruct (s_add strict dv (p_path o) x) as [v'|] eqn:A; [|discriminate].
  injection HR as <-. exists v'. split; [reflexivity | exact (jget_after_add x (p_path o) dv v' A D)].
Qed.
