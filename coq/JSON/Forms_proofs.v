(* C14 (family jbinn), deepening round: the three forms of a document - JSON text, tree, binary - together.
   1. print_agree: the text jbl_as_json writes from the binary form (JSON/BinnAcc.v, walking the binn iterators) is the text
      jbn_as_json writes from the tree (C13's printer model JSON/Text.v, imported) for EVERY flag set (library fix d42c39c; the
      earlier normal form `pf_jbl` and the refutation for INDENT2 / INDENT4 are gone).
   2. conversion orders: every chain of conversions text <-> tree <-> binary starting from a document of the domain ends
      in a form that denotes that document (C14's round trips composed with C13's parse (print v) = v). *)
Require Import ZArith List Bool Lia. Import ListNotations.
Require Import IW.Lib.CInt IW.Gen.Facts IW.JSON.Val IW.JSON.Utf8 IW.JSON.Text IW.JSON.TextSpec IW.JSON.Text_proofs.
Require Import IW.JSON.Binn IW.JSON.Binn_proofs IW.JSON.Ptr IW.JSON.Ptr_proofs IW.JSON.BinnAcc IW.JSON.BinnAcc_proofs.
Local Open Scope Z_scope.

(* ------------------------------------------------------------------ the two well-formedness predicates *)
(* no double anywhere: the documents C13's text round trip covers (doubles are oracle parameters there) *)
Fixpoint nodbl (v : jval) : bool :=
  match v with
  | JF64 _ => false
  | JArr l => forallb nodbl l
  | JObj ms => forallb (fun m => nodbl (snd m)) ms
  | _ => true
  end.

Lemma char_ok_bytes s : forallb char_ok s = true -> bytes_ok s /\ ~ In 0 s.
Proof.
  intros H. rewrite forallb_forall in H. split.
  - apply Forall_forall. intros c Hc. specialize (H c Hc). unfold char_ok in H. apply andb_prop in H as [H1 H2].
    unfold TextSpec.byte_ok. lia.
  - intros Hin. specialize (H 0 Hin). discriminate.
Qed.

Lemma wf_nulfree : forall v, Binn.wf v = true -> nulfree v.
Proof.
  induction v as [|bb|n|x|s|l IH|ms IH] using jval_ind'; intros Hw; try exact I.
  - cbn [Binn.wf nulfree] in *. apply (char_ok_bytes s Hw).
  - cbn [Binn.wf nulfree] in *. induction IH as [|x r Hx Hr IHr]; [exact I|].
    cbn [forallb] in Hw. apply andb_prop in Hw as [H1 H2]. cbn [fold_right]. split; [apply Hx; assumption|apply IHr; assumption].
  - cbn [Binn.wf nulfree] in *. apply andb_prop in Hw as [Hw _].
    induction IH as [|[k x] r Hx Hr IHr]; [exact I|].
    cbn [forallb fst snd] in Hw. apply andb_prop in Hw as [H1 H2]. apply andb_prop in H1 as [H1 H3]. apply andb_prop in H1 as [H1 H4].
    cbn [fold_right]. split; [split; [apply (char_ok_bytes k H1)|apply Hx; assumption]|apply IHr; assumption].
Qed.

Lemma wf_text : forall v, Binn.wf v = true -> nodbl v = true -> TextSpec.wf v.
Proof.
  induction v as [|bb|n|x|s|l IH|ms IH] using jval_ind'; intros Hw Hn; try exact I; try discriminate.
  - cbn [Binn.wf TextSpec.wf] in *. apply andb_prop in Hw as [H1 H2].
    change (2 ^ 63) with 9223372036854775808 in *. lia.
  - cbn [Binn.wf TextSpec.wf] in *. apply (char_ok_bytes s Hw).
  - cbn [Binn.wf TextSpec.wf nodbl] in *. induction IH as [|x r Hx Hr IHr]; [exact I|].
    cbn [forallb] in Hw, Hn. apply andb_prop in Hw as [H1 H2]. apply andb_prop in Hn as [N1 N2].
    cbn [fold_right]. split; [apply Hx; assumption|apply IHr; assumption].
  - cbn [Binn.wf TextSpec.wf nodbl] in *. apply andb_prop in Hw as [Hw _].
    induction IH as [|[k x] r Hx Hr IHr]; [exact I|].
    cbn [forallb fst snd] in Hw, Hn. apply andb_prop in Hw as [H1 H2]. apply andb_prop in H1 as [H1 H3]. apply andb_prop in H1 as [H1 H4].
    apply andb_prop in Hn as [N1 N2].
    cbn [fold_right]. split; [split; [apply (char_ok_bytes k H1)|apply Hx; assumption]|apply IHr; assumption].
Qed.

(* ------------------------------------------------------------------ print_agree *)
(* the binary printer on the encoding of v = the value-level printer of the binary form (C13's print_jbl) on v *)
Theorem jbl_as_json_binn_value : forall fo pf v bs, Binn.wf v = true -> binn_encode v = Some bs ->
  jbl_as_json_binn fo pf bs = lift (jbl_as_json fo pf v).
Proof.
  intros fo pf v bs Hw He. destruct (root_repr v bs Hw He) as (b & Hroot & R & He').
  unfold jbl_as_json_binn, jbl_as_json. rewrite Hroot. apply print_binn_repr; [assumption|].
  pose proof (depth_le_len v bs He'). lia.
Qed.

(* print_agree as the property states it, for EVERY flag set (JBL_PRINT_PRETTY, _CODEPOINTS, _PRETTY_INDENT2, _PRETTY_INDENT4
   and any other bits): the text printed from the binary form is the text printed from the tree; a printer error (invalid
   UTF-8 under JBL_PRINT_CODEPOINTS) is the same error on both sides.  Unconditional since the library fix d42c39c (before it
   the binary printer ignored the indentation bits and the statement had a refutation for INDENT2 / INDENT4). *)
Theorem print_agree : forall fo pf v bs, Binn.wf v = true -> binn_encode v = Some bs ->
  jbl_as_json_binn fo pf bs = lift (as_json fo pf v).
Proof.
  intros fo pf v bs Hw He. rewrite (jbl_as_json_binn_value fo pf v bs Hw He). unfold jbl_as_json, as_json. f_equal.
  apply print_jbl_eq. apply wf_nulfree; assumption.
Qed.

(* ------------------------------------------------------------------ conversion orders *)
Section Forms.
  Variable ora : list Z -> Z * nat * bool.     (* iwstrtod, as in JSON/Text.v *)
  Variable fo : Z -> list Z.                   (* iwjson_ftoa *)
  Variable v : jval.

  (* everything reachable from the tree v by: jbn_clone, jbl_to_node, jbn_from_json | jbl_from_node, jbl_clone,
     jbl_clone_into_pool | jbn_as_json and jbl_as_json with any flags - any order, any number of times *)
  Inductive ftree : jval -> Prop :=
  | FT_self : ftree v
  | FT_clone : forall t, ftree t -> ftree (jbn_clone t)
  | FT_decode : forall b t, fbin b -> binn_decode b = Some t -> ftree t
  | FT_parse : forall x t, ftext x -> from_json ora x = Ok (Some t) -> ftree t
  with fbin : list Z -> Prop :=
  | FB_encode : forall t b, ftree t -> binn_encode t = Some b -> fbin b
  | FB_clone : forall b b', fbin b -> binn_clone b = Some b' -> fbin b'
  | FB_clonep : forall b b', fbin b -> binn_clone_into_pool b = Some b' -> fbin b'
  with ftext : list Z -> Prop :=
  | FX_tree : forall pf t x, ftree t -> as_json fo pf t = Ok x -> ftext x
  | FX_bin : forall pf b x, fbin b -> jbl_as_json_binn fo pf b = BOk x -> ftext x.

  Scheme ftree_mind := Minimality for ftree Sort Prop
    with fbin_mind := Minimality for fbin Sort Prop
    with ftext_mind := Minimality for ftext Sort Prop.
  Combined Scheme forms_mind from ftree_mind, fbin_mind, ftext_mind.

  Theorem forms_closed : Binn.wf v = true -> nodbl v = true -> TextSpec.depth v <= JBL_MAX_NESTING_LEVEL ->
    (forall t, ftree t -> t = v) /\
    (forall b, fbin b -> binn_encode v = Some b) /\
    (forall x, ftext x -> from_json ora x = Ok (Some v)).
  Proof.
    intros Hw Hn Hd. pose proof (wf_text v Hw Hn) as Hwt.
    apply (forms_mind (fun t => t = v) (fun b => binn_encode v = Some b) (fun x => from_json ora x = Ok (Some v))).
    - reflexivity.
    - intros t _ ->. apply jbn_clone_equal.
    - intros b t _ He Hdec. rewrite (binn_roundtrip v b Hw He) in Hdec. injection Hdec as <-. reflexivity.
    - intros x t _ Hp Hp'. rewrite Hp in Hp'. injection Hp' as <-. reflexivity.
    - intros t b _ -> He. exact He.
    - intros b b' _ He Hc. destruct (binn_clone_same v b He) as [Hc' _]. rewrite Hc' in Hc. injection Hc as <-. exact He.
    - intros b b' _ He Hc. destruct (binn_clone_same v b He) as [_ Hc']. rewrite Hc' in Hc. injection Hc as <-. exact He.
    - intros pf t x _ -> Hp. apply (print_parse ora fo pf v x Hwt Hd Hp).
    - intros pf b x _ He Hp. rewrite (print_agree fo pf v b Hw He) in Hp.
      destruct (as_json fo pf v) as [x'|e] eqn:E; [|discriminate]. cbn [lift] in Hp. injection Hp as <-.
      apply (print_parse ora fo pf v x' Hwt Hd E).
  Qed.
End Forms.

(* every single conversion step is defined on the domain (so the chains above exist): encode by the guard, decode by the
   round trip, both printers whenever JBL_PRINT_CODEPOINTS is off (with it they fail exactly on invalid UTF-8), parse by
   C13's theorem *)
Theorem conversions_total : forall ora fo pf v, Binn.wf v = true -> fits v = true -> is_container v = true ->
  nodbl v = true -> TextSpec.depth v <= JBL_MAX_NESTING_LEVEL -> has pf JBL_PRINT_CODEPOINTS = false ->
  exists bs x, binn_encode v = Some bs /\ binn_decode bs = Some v /\
               as_json fo pf v = Ok x /\ jbl_as_json_binn fo pf bs = BOk x /\ from_json ora x = Ok (Some v).
Proof.
  intros ora fo pf v Hw Hf Hc Hn Hd Hcp. destruct (encode_total v Hw Hf Hc) as (bs & He & _).
  pose proof (wf_text v Hw Hn) as Hwt.
  destruct (print_total fo pf v 0 Hwt Hcp) as (x & Hx).
  exists bs, x. split; [assumption|]. split; [apply binn_roundtrip; assumption|].
  split; [exact Hx|]. split; [rewrite (print_agree fo pf v bs Hw He); unfold as_json; rewrite Hx; reflexivity|].
  apply (print_parse ora fo pf v x Hwt Hd Hx).
Qed.
