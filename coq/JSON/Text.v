(* src/json/iwjser.c: jbn_from_json = _jbl_skip_bom + _jbl_parse_value (+ _jbl_parse_json_key,
   _jbl_unescape_json_string in its two passes) and the printer _jbl_node_as_json / jbn_as_json with
   _jbl_write_json_string, _jbl_write_int (iwitoa of UT/Conv.v), _jbl_write_double of src/json/iwjson.c.

   Text is a list of bytes (Z in 0..255).  A C string ends at its NUL: the model treats a 0 byte and the end
   of the list alike, exactly where the C code reads the terminator.  A pointer into the text is the suffix
   that starts there.  The model follows the code WITH fixes/jtext-cr.diff (\r -> 0x0D), fixes/jtext-ctrl.diff
   (control bytes without a short escape are printed as \u00XX), fixes/jtext-keynul.diff (key length is the
   unescaped length, not strlen) and fixes/jtext-bigint.diff (an integer text beyond int64 is read as a double).

   Doubles are not interpreted: number -> double (iwstrtod) and double -> text (iwjson_ftoa) are ORACLE
   parameters `ora`/`fo` supplied by the harness; a double is the Z of its 64 bits.  Only the value comes from the
   oracle: where a number ends (the `end` pointer of iwstrtod) is computed by `strtod_end` below. *)
Require Import ZArith List Bool.
Require Import IW.Lib.CInt IW.Gen.Facts IW.UT.Conv IW.JSON.Val IW.JSON.Utf8.
Import ListNotations.
Local Open Scope Z_scope. Local Open Scope bool_scope.

Inductive perr := E_JSON | E_UNQ | E_CP | E_NEST | E_UTF8 | E_OOB | E_FUEL.
Inductive res (A : Type) := Ok (a : A) | Err (e : perr).
Arguments Ok {A} a. Arguments Err {A} e.

Definition hd0 (p : list Z) : Z := match p with c :: _ => c | [] => 0 end.
Definition at0 (p : list Z) (k : nat) : Z := nth k p 0.

(* ---------------------------------------------------------------- _jbl_hex, \uXXXX *)
Definition jbl_hex (c : Z) : Z :=
  if (48 <=? c) && (c <=? 57) then c - 48
  else if (97 <=? c) && (c <=? 102) then c - 97 + 10
  else if (65 <=? c) && (c <=? 70) then c - 65 + 10
  else -1.

(* p points at the 'u'; h1 << 12 | h2 << 8 | h3 << 4 | h4 of p[1..4], None when one is not a hex digit *)
Definition hex4 (p : list Z) : option Z :=
  let h1 := jbl_hex (at0 p 1) in
  if h1 <? 0 then None else
  let h2 := jbl_hex (at0 p 2) in
  if h2 <? 0 then None else
  let h3 := jbl_hex (at0 p 3) in
  if h3 <? 0 then None else
  let h4 := jbl_hex (at0 p 4) in
  if h4 <? 0 then None else
  Some (Z.lor (Z.lor (Z.lor (Z.shiftl h1 12) (Z.shiftl h2 8)) (Z.shiftl h3 4)) h4).

(* `if (d < de) *d = x; ++d` : the byte lands in the output iff its index is below dlen *)
Definition put (d dlen x : Z) (out : list Z) : list Z := if d <? dlen then x :: out else out.
Fixpoint put_list (d dlen : Z) (l : list Z) (out : list Z) : list Z :=
  match l with [] => out | x :: r => put d dlen x (put_list (d + 1) dlen r out) end.

(* \uXXXX [\uXXXX] at pu (pointing at 'u'): the code point and the pointer to the last 'u' *)
Definition u_escape (pu : list Z) : res (Z * list Z) :=
  match hex4 pu with
  | None => Err E_CP
  | Some cp =>
    if Z.land cp 64512 =? 55296 then
      let p2 := skipn 6 pu in
      if negb (at0 pu 5 =? 92) || negb (hd0 p2 =? 117) then Err E_CP else
      match hex4 p2 with
      | None => Err E_CP
      | Some cp2 =>
        if negb (Z.land cp2 64512 =? 56320) then Err E_CP
        else Ok (65536 + Z.shiftl (cp - 55296) 10 + (cp2 - 56320), p2)
      end
    else Ok (cp, pu)
  end.

(* _jbl_unescape_json_string(ctx, q, p, d, dlen, &end): (return value, bytes stored in d[0..dlen), end).
   `d` is the running output index.  Pass 1 is dlen = 0. *)
Fixpoint unesc (fuel : nat) (q : Z) (p : list Z) (d dlen : Z) : res (Z * list Z * list Z) :=
  match fuel with
  | O => Err E_FUEL
  | S f =>
    let emit (x : Z) (p' : list Z) :=
      match unesc f q p' (d + 1) dlen with
      | Ok (n, out, e) => Ok (n, put d dlen x out, e)
      | Err e => Err e
      end in
    match p with
    | [] => Err E_UNQ
    | c :: p1 =>
      if c =? 0 then Err E_UNQ
      else if c =? q then Ok (d, [], p1)
      else if c =? 92 then
        let e := hd0 p1 in
        if (e =? 92) || (e =? 47) || (e =? 34) then emit e (tl p1)
        else if e =? 98 then emit 8 (tl p1)
        else if e =? 102 then emit 12 (tl p1)
        else if e =? 110 then emit 10 (tl p1)
        else if e =? 114 then emit 13 (tl p1)
        else if e =? 116 then emit 9 (tl p1)
        else if e =? 117 then
          match u_escape p1 with
          | Err er => Err er
          | Ok (cp, pu) =>
            if negb (codepoint_valid cp) then Err E_CP else
            let bytes := encode_char cp in
            match unesc f q (skipn 5 pu) (d + Z.of_nat (length bytes)) dlen with
            | Ok (n, out, e) => Ok (n, put_list d dlen bytes out, e)
            | Err er => Err er
            end
          end
        else emit c p1                                   (* default: the backslash itself, p not advanced *)
      else emit c p1
    end
  end.

Definition unescape (q : Z) (p : list Z) (dlen : Z) : res (Z * list Z * list Z) :=
  unesc (S (length p)) q p 0 dlen.

(* ---------------------------------------------------------------- keys *)
Definition is_ws32 (c : Z) : bool := c <=? 32.            (* IS_WHITESPACE: (unsigned char) c <= ' ' *)
Fixpoint skip_ws32 (p : list Z) : list Z :=               (* while ( *p && IS_WHITESPACE( *p)) p++ *)
  match p with c :: r => if negb (c =? 0) && is_ws32 c then skip_ws32 r else p | [] => [] end.

(* after the opening quote of a key *)
Definition key_body (p : list Z) : res (option (list Z) * list Z) :=
  match unescape 34 p 0 with
  | Err e => Err e
  | Ok (len, _, _) =>
    match unescape 34 p len with
    | Err e => Err e
    | Ok (len2, out, p') =>
      if negb (len =? len2) then Err E_JSON else
      let p'' := skip_ws32 p' in
      if hd0 p'' =? 58 then Ok (Some out, tl p'') else Err E_JSON
    end
  end.

(* _jbl_parse_json_key: (key or None when '}' was met, pointer) *)
Fixpoint parse_key (p : list Z) : res (option (list Z) * list Z) :=
  match p with
  | [] => Err E_JSON
  | c :: p1 =>
    if c =? 0 then Err E_JSON
    else if c =? 34 then key_body p1
    else if c =? 125 then Ok (None, p)
    else if is_ws32 c || (c =? 44) then parse_key p1
    else Err E_JSON
  end.

(* ---------------------------------------------------------------- strtoll(p, &pe, 0) (glibc, C locale) *)
Definition is_space (c : Z) : bool := ((9 <=? c) && (c <=? 13)) || (c =? 32).
Fixpoint skip_space (p : list Z) (k : nat) : list Z * nat :=
  match p with c :: r => if is_space c then skip_space r (S k) else (p, k) | [] => ([], k) end.

Definition digit_val (base c : Z) : Z :=
  let v := if (48 <=? c) && (c <=? 57) then c - 48
           else if (97 <=? c) && (c <=? 122) then c - 97 + 10
           else if (65 <=? c) && (c <=? 90) then c - 65 + 10
           else 99 in
  if v <? base then v else -1.

Fixpoint ll_digits (base : Z) (p : list Z) (acc : Z) (k : nat) : Z * nat :=
  match p with
  | c :: r => let v := digit_val base c in if v <? 0 then (acc, k) else ll_digits base r (acc * base + v) (S k)
  | [] => (acc, k)
  end.

(* (value, number of bytes consumed (0: pe == p), errno == ERANGE) *)
Definition strtoll0 (p : list Z) : Z * nat * bool :=
  let '(s0, k0) := skip_space p 0 in
  let '(neg, s, ks) := if hd0 s0 =? 45 then (true, tl s0, S k0)
                       else if hd0 s0 =? 43 then (false, tl s0, S k0)
                       else (false, s0, k0) in
  let '(base, s2, kp) := if hd0 s =? 48
                         then if (at0 s 1 =? 120) || (at0 s 1 =? 88) then (16, skipn 2 s, 2%nat) else (8, s, 0%nat)
                         else (10, s, 0%nat) in
  let '(n, kd) := ll_digits base s2 0 0 in
  match kd with
  | O => match kp with
         | O => (0, O, false)
         | _ => (0, S ks, false)                       (* 0x without hex digit: the 0 is the number *)
         end
  | _ => let v := if neg then - n else n in
         let k := (ks + kp + kd)%nat in
         if v <? - 2 ^ 63 then (- 2 ^ 63, k, true)
         else if v >? 2 ^ 63 - 1 then (2 ^ 63 - 1, k, true)
         else (v, k, false)
  end.

(* ---------------------------------------------------------------- values *)
Definition is_vws (c : Z) : bool := (c =? 32) || (c =? 9) || (c =? 10) || (c =? 13) || (c =? 44).
Fixpoint skip_vws (p : list Z) : list Z :=
  match p with c :: r => if is_vws c then skip_vws r else p | [] => [] end.

Fixpoint starts (pat p : list Z) : bool :=                 (* !strncmp(p, pat, strlen(pat)) *)
  match pat, p with
  | [], _ => true
  | a :: pat', b :: p' => (a =? b) && starts pat' p'
  | _ :: _, [] => false
  end.

(* ---------------------------------------------------------------- iwstrtod(str, &end): the scanner (src/utils/iwconv.c)
   Only the VALUE of the double is an oracle input; which bytes belong to the number is decided here, by the same
   loops as in C: white space, sign, integer digits, '.', fraction digits, [eE], sign, exponent digits (leading
   zeros skipped while another digit follows).  Result: end - str (0: nothing converted, end == str). *)
Definition is_dig (c : Z) : bool := (48 <=? c) && (c <=? 57).            (* iwchars_is_digit *)
Fixpoint skip_digits (p : list Z) (k : nat) : list Z * nat :=            (* while ( *p && iwchars_is_digit( *p)) ++p *)
  match p with c :: r => if is_dig c then skip_digits r (S k) else (p, k) | [] => ([], k) end.
Fixpoint skip_exp_zeros (p : list Z) (k : nat) : list Z * nat :=         (* while ( *p == '0' && iwchars_is_digit(p[1])) ++p *)
  match p with c :: r => if (c =? 48) && is_dig (hd0 r) then skip_exp_zeros r (S k) else (p, k) | [] => ([], k) end.

Definition strtod_end (str : list Z) : nat :=
  let '(p0, k0) := skip_space str 0 in                                   (* skipwhite: iwchars_is_space == is_space *)
  let '(p1, k1) := if (hd0 p0 =? 45) || (hd0 p0 =? 43) then (tl p0, S k0) else (p0, k0) in
  if negb (is_dig (hd0 p1)) && negb (hd0 p1 =? 46) then O else           (* goto done with a == str *)
  let '(p2, k2) := skip_digits p1 k1 in                                  (* decimal part; a = p *)
  (* fraction part; md: the byte before p is a digit (false only after a '.' without fraction digits) *)
  let '(p3, k3, md) :=
    if hd0 p2 =? 46 then let '(q, k) := skip_digits (tl p2) (S k2) in (q, k, is_dig (hd0 (tl p2)))
    else (p2, k2, true) in
  if (hd0 p3 =? 69) || (hd0 p3 =? 101) then                              (* exponential part *)
    let p4 := tl p3 in
    let '(p5, k5) := if (hd0 p4 =? 45) || (hd0 p4 =? 43) then (tl p4, S (S k3)) else (p4, S k3) in
    if is_dig (hd0 p5) then
      let '(p6, k6) := skip_exp_zeros p5 k5 in
      snd (skip_digits (tl p6) (S k6))                                   (* e = *p++ - '0'; while digits; a = p *)
    else if negb md then O                                               (* !iwchars_is_digit(a[-1]): a = str *)
    else if hd0 p5 =? 0 then k3                                          (* *p == 0: goto done, a after the mantissa *)
    else k5                                                              (* e = 0, a = p (after the 'e' and the sign) *)
  else if md then k3 else O.                                             (* p > str && !iwchars_is_digit(p[-1]): a = str *)

Section Parse.
  (* iwstrtod on the text at p: (bits of the double, bytes consumed [not used: strtod_end decides], errno == ERANGE afterwards) *)
  Variable ora : list Z -> Z * nat * bool.

  (* the '.', '-', '0'..'9' case; p at the first character *)
  Definition parse_number (p : list Z) : res (option jval * list Z) :=
    if hd0 p =? 46 then Err E_JSON else                      (* *p == '.' && !ctx->js *)
    let '(v, k, er) := strtoll0 p in
    let big := negb (Nat.eqb k 0) && er in                   (* digits beyond int64: read as a double *)
    if Nat.eqb k 0
       && negb ((hd0 p =? 46) || (((hd0 p =? 45) || (hd0 p =? 43)) && (at0 p 1 =? 46)))
    then Err E_JSON else
    let pe := skipn k p in
    let c := hd0 pe in
    if big || (c =? 46) || (c =? 101) || (c =? 69) || (c =? 45) || (c =? 43) then
      let '(bits, _, erf) := ora p in
      let kf := strtod_end p in                              (* pe of iwstrtod: computed by the model, not taken from the oracle *)
      if Nat.eqb kf 0 || erf then Err E_JSON else Ok (Some (JF64 bits), skipn kf p)
    else Ok (Some (JI64 v), pe).

  (* the string case (double quote), p after the opening quote *)
  Definition parse_string (p : list Z) : res (option jval * list Z) :=
    match unescape 34 p 0 with
    | Err e => Err e
    | Ok (len, _, endp) =>
      if len =? 0 then Ok (Some (JStr []), endp)
      else match unescape 34 p len with
           | Err e => Err e
           | Ok (len2, out, p') => if negb (len =? len2) then Err E_JSON else Ok (Some (JStr out), p')
           end
    end.

  (* _jbl_parse_value(ctx, lvl, parent, key, klidx, p): (node created or None, returned pointer).
     parse_arr / parse_obj are the two inner loops; acc = the children appended so far. *)
  Fixpoint parse_value (fuel : nat) (lvl : Z) (p : list Z) {struct fuel} : res (option jval * list Z) :=
    match fuel with
    | O => Err E_FUEL
    | S f =>
      if lvl >? JBL_MAX_NESTING_LEVEL then Err E_NEST else
      let p := skip_vws p in
      match p with
      | [] => Err E_JSON
      | c :: p1 =>
        if c =? 0 then Err E_JSON
        else if c =? 110 then if starts [110; 117; 108; 108] p then Ok (Some JNull, skipn 4 p) else Err E_JSON
        else if c =? 116 then if starts [116; 114; 117; 101] p then Ok (Some (JBool true), skipn 4 p) else Err E_JSON
        else if c =? 102 then if starts [102; 97; 108; 115; 101] p then Ok (Some (JBool false), skipn 5 p) else Err E_JSON
        else if c =? 39 then Err E_JSON                        (* '\'' && !ctx->js *)
        else if c =? 34 then parse_string p1
        else if c =? 123 then parse_obj f lvl p1 []
        else if c =? 91 then parse_arr f lvl p1 []
        else if c =? 93 then Ok (None, p)
        else if (c =? 46) || (c =? 45) || ((48 <=? c) && (c <=? 57)) then parse_number p
        else Err E_JSON
      end
    end
  with parse_arr (fuel : nat) (lvl : Z) (p : list Z) (acc : list jval) {struct fuel} : res (option jval * list Z) :=
    match fuel with
    | O => Err E_FUEL
    | S f =>
      match parse_value f (lvl + 1) p with
      | Err e => Err e
      | Ok (ov, p') =>
        let acc' := match ov with Some v => acc ++ [v] | None => acc end in
        if hd0 p' =? 93 then Ok (Some (JArr acc'), tl p') else parse_arr f lvl p' acc'
      end
    end
  with parse_obj (fuel : nat) (lvl : Z) (p : list Z) (acc : list (list Z * jval)) {struct fuel}
       : res (option jval * list Z) :=
    match fuel with
    | O => Err E_FUEL
    | S f =>
      match parse_key p with
      | Err e => Err e
      | Ok (ok, p') =>
        if hd0 p' =? 125 then Ok (Some (JObj acc), tl p') else
        match parse_value f (lvl + 1) p' with
        | Err e => Err e
        | Ok (ov, p'') =>
          let acc' := match ov, ok with Some v, Some k => acc ++ [(k, v)] | _, _ => acc end in
          parse_obj f lvl p'' acc'
        end
      end
    end.

  Definition skip_bom (p : list Z) : list Z :=
    if (at0 p 0 =? 239) && (at0 p 1 =? 187) && (at0 p 2 =? 191) then skipn 3 p else p.

  (* every call consumes a byte or is the last of its loop: 2 * length + 4 steps always suffice *)
  Definition parse_fuel (json : list Z) : nat := (2 * length json + 4)%nat.

  (* jbn_from_json: rc and *node.  No error and no root (a lone `]`, which the value parser hands back to a caller that
     does not exist; the empty text) is JBL_ERROR_PARSE_JSON since 3d4d0bc *)
  Definition from_json (json : list Z) : res (option jval) :=
    match parse_value (parse_fuel json) 0 (skip_bom json) with
    | Err e => Err e
    | Ok (None, _) => Err E_JSON
    | Ok (Some v, _) => Ok (Some v)
    end.
End Parse.

(* ---------------------------------------------------------------- printer *)
Definition has (pf flag : Z) : bool := negb (Z.land pf flag =? 0).
Definition isprint (ch : Z) : bool := negb (nth (Z.to_nat ch) jtext_isprint_tbl 0 =? 0).
Definition specials : list Z := [98; 116; 110; 118; 102; 114].   (* "btnvfr" *)

(* snprintf(sbuf, 7, BACKSLASH u %04X, x) for 0 <= x < 65536 *)
Definition hexU (x : Z) : Z := if x <? 10 then 48 + x else 55 + x.
Definition u_esc (x : Z) : list Z :=
  [92; 117; hexU (x / 4096 mod 16); hexU (x / 256 mod 16); hexU (x / 16 mod 16); hexU (x mod 16)].

(* body of _jbl_write_json_string's loop; s = str[i..len) *)
Fixpoint wstr (fuel : nat) (pf : Z) (s : list Z) : res (list Z) :=
  match fuel with
  | O => Err E_FUEL
  | S f =>
    match s with
    | [] => Ok []
    | ch :: r =>
      let cont (pre : list Z) (s' : list Z) :=
        match wstr f pf s' with Ok t => Ok (pre ++ t) | Err e => Err e end in
      if (ch =? 34) || (ch =? 92) then cont [92; ch] r
      else if (8 <=? ch) && (ch <=? 13) && negb (ch =? 11) then cont [92; nth (Z.to_nat (ch - 8)) specials 0] r
      else if ch <? 32 then cont (u_esc ch) r
      else if isprint ch then cont [ch] r
      else if has pf JBL_PRINT_CODEPOINTS then
        match iterate s with
        | None => Err E_UTF8
        | Some (cp, sz) =>
          if cp >=? 65536 then
            let c' := cp - 65536 in
            cont (u_esc (Z.lor 55296 (Z.land (Z.shiftr c' 10) 1023)) ++ u_esc (Z.lor 56320 (Z.land c' 1023)))
                 (skipn (Z.to_nat sz) s)
          else cont (u_esc cp) (skipn (Z.to_nat sz) s)
        end
      else cont [ch] r
    end
  end.

Definition write_json_string (pf : Z) (s : list Z) : res (list Z) :=
  match wstr (S (length s)) pf s with Ok t => Ok ([34] ++ t ++ [34]) | Err e => Err e end.

(* _jbl_write_int: iwitoa(num, buf, sizeof(buf)) then pt(buf, sz) *)
Definition numbuf : mem := {| m_len := IWNUMBUF_SIZE; m_init := fun _ => 0; m_wr := [] |}.
Definition write_int (n : Z) : res (list Z) :=
  match itoa n numbuf IWNUMBUF_SIZE with
  | None => Err E_OOB
  | Some (sz, m) => Ok (map (fun i => peek m (Z.of_nat i)) (seq 0 (Z.to_nat sz)))
  end.

Definition rep (c n : Z) : list Z := repeat c (Z.to_nat n).

Section Print.
  Variable fo : Z -> list Z.          (* iwjson_ftoa: the text written for the double with these bits *)
  Variable pf : Z.

  Definition pretty : bool := has pf JBL_PRINT_PRETTY.
  Definition indent : Z :=
    let ppf := Z.land pf (uw 32 (Z.lnot JBL_PRINT_PRETTY)) in
    if has ppf JBL_PRINT_PRETTY_INDENT2 then 2 else if has ppf JBL_PRINT_PRETTY_INDENT4 then 4 else 1.

  Definition bind2 (a b : res (list Z)) (k : list Z -> list Z -> list Z) : res (list Z) :=
    match a with Err e => Err e | Ok x => match b with Err e => Err e | Ok y => Ok (k x y) end end.

  (* _jbl_node_as_json(node, pt, op, lvl, pf) *)
  Fixpoint print_node (lvl : Z) (v : jval) : res (list Z) :=
    match v with
    | JNull => Ok [110; 117; 108; 108]
    | JBool true => Ok [116; 114; 117; 101]
    | JBool false => Ok [102; 97; 108; 115; 101]
    | JI64 n => write_int n
    | JF64 b => Ok (fo b)
    | JStr s => write_json_string pf s
    | JArr items =>
      let open := [91] ++ (match items with [] => [] | _ => if pretty then [10] else [] end) in
      let close := (match items with [] => [] | _ => if pretty then rep 32 (lvl * indent) else [] end) ++ [93] in
      match (fix go (l : list jval) : res (list Z) :=
               match l with
               | [] => Ok []
               | x :: r =>
                 bind2 (print_node (lvl + 1) x) (go r) (fun a b =>
                   (if pretty then rep 32 (lvl * indent + indent) else []) ++ a
                   ++ (match r with [] => [] | _ => [44] end) ++ (if pretty then [10] else []) ++ b)
               end) items with
      | Err e => Err e
      | Ok body => Ok (open ++ body ++ close)
      end
    | JObj members =>
      let open := [123] ++ (match members with [] => [] | _ => if pretty then [10] else [] end) in
      let close := (match members with [] => [] | _ => if pretty then rep 32 (lvl * indent) else [] end) ++ [125] in
      match (fix go (l : list (list Z * jval)) : res (list Z) :=
               match l with
               | [] => Ok []
               | (k, x) :: r =>
                 match write_json_string pf k with
                 | Err e => Err e
                 | Ok kt =>
                   bind2 (print_node (lvl + 1) x) (go r) (fun a b =>
                     (if pretty then rep 32 (lvl * indent + indent) else []) ++ kt
                     ++ (if pretty then [58; 32] else [58]) ++ a
                     ++ (match r with [] => [] | _ => [44] end) ++ (if pretty then [10] else []) ++ b)
                 end
               end) members with
      | Err e => Err e
      | Ok body => Ok (open ++ body ++ close)
      end
    end.

  (* jbn_as_json *)
  Definition as_json (v : jval) : res (list Z) := print_node 0 v.
End Print.

(* ---------------------------------------------------------------- jbl_as_json: printer of the binary form (src/json/iwjson.c _jbl_as_json).
   Seen from the text it differs from the node printer in one way: strings and member names are written with
   len = -1, i.e. up to their first NUL.  (Until d42c39c the indentation was one space per level whatever the
   INDENT2/INDENT4 bits said; it is `lvl * indent + indent` like the node printer's now.)  The binary encoding itself (iwbinn.c) is not part of this model: `v` is the value the
   binn buffer holds. *)
Fixpoint cstr0 (s : list Z) : list Z :=
  match s with [] => [] | c :: r => if c =? 0 then [] else c :: cstr0 r end.

Section PrintJbl.
  Variable fo : Z -> list Z.
  Variable pf : Z.

  Fixpoint print_jbl (lvl : Z) (v : jval) : res (list Z) :=
    let pretty := has pf JBL_PRINT_PRETTY in
    match v with
    | JNull => Ok [110; 117; 108; 108]
    | JBool true => Ok [116; 114; 117; 101]
    | JBool false => Ok [102; 97; 108; 115; 101]
    | JI64 n => write_int n
    | JF64 b => Ok (fo b)
    | JStr s => write_json_string pf (cstr0 s)
    | JArr items =>
      let open := [91] ++ (match items with [] => [] | _ => if pretty then [10] else [] end) in
      let close := (match items with [] => [] | _ => if pretty then rep 32 (lvl * indent pf) else [] end) ++ [93] in
      match (fix go (l : list jval) : res (list Z) :=
               match l with
               | [] => Ok []
               | x :: r =>
                 bind2 (print_jbl (lvl + 1) x) (go r) (fun a b =>
                   (if pretty then rep 32 (lvl * indent pf + indent pf) else []) ++ a
                   ++ (match r with [] => [] | _ => [44] end) ++ (if pretty then [10] else []) ++ b)
               end) items with
      | Err e => Err e
      | Ok body => Ok (open ++ body ++ close)
      end
    | JObj members =>
      let open := [123] ++ (match members with [] => [] | _ => if pretty then [10] else [] end) in
      let close := (match members with [] => [] | _ => if pretty then rep 32 (lvl * indent pf) else [] end) ++ [125] in
      match (fix go (l : list (list Z * jval)) : res (list Z) :=
               match l with
               | [] => Ok []
               | (k, x) :: r =>
                 match write_json_string pf (cstr0 k) with
                 | Err e => Err e
                 | Ok kt =>
                   bind2 (print_jbl (lvl + 1) x) (go r) (fun a b =>
                     (if pretty then rep 32 (lvl * indent pf + indent pf) else []) ++ kt
                     ++ (if pretty then [58; 32] else [58]) ++ a
                     ++ (match r with [] => [] | _ => [44] end) ++ (if pretty then [10] else []) ++ b)
                 end
               end) members with
      | Err e => Err e
      | Ok body => Ok (open ++ body ++ close)
      end
    end.

  (* jbl_as_json *)
  Definition jbl_as_json (v : jval) : res (list Z) := print_jbl 0 v.
End PrintJbl.
