(* src/json/iwjson.c, JSON Patch on `struct jbl_node` trees WITH NODE IDENTITY: every node carries an id (its address) and the id its
   `parent` field points to.  The value-level model IW.JSON.Patch decides; this model follows the same operations and records which
   node is linked where: `add` links the operand node of the patch document itself, `copy` links fresh nodes (jbn_clone),
   `move` re-links the detached node, _jbl_copy_node_data makes the target take over the CHILDREN of the value node.
   `reparent` = does _jbl_copy_node_data set the `parent` field of the children it takes over (fixes/jpatch-parent-pointers.diff)?
   Before 61c2a75 the code did not (probed on every run: JP_REPARENT in Gen/Facts.v).  No proofs here. *)
Require Import ZArith List Bool. Require Import IW.Lib.CInt IW.Gen.Facts IW.UT.Conv IW.JSON.Val IW.JSON.Patch. Import ListNotations.
Local Open Scope Z_scope. Local Open Scope bool_scope.

Inductive inode : Type :=
  INode (id par : Z) (kl : Z) (key : list Z) (ty : jty) (vi : Z) (vs : list Z) (ch : list inode).
Definition i_id (n : inode) := match n with INode i _ _ _ _ _ _ _ => i end.
Definition i_par (n : inode) := match n with INode _ p _ _ _ _ _ _ => p end.
Definition i_ty (n : inode) := match n with INode _ _ _ _ t _ _ _ => t end.
Definition i_ch (n : inode) := match n with INode _ _ _ _ _ _ _ c => c end.
Definition i_kl (n : inode) := match n with INode _ _ kl _ _ _ _ _ => kl end.
Definition iset_kl (n : inode) (kl : Z) := match n with INode i p _ k t v s c => INode i p kl k t v s c end.
Definition iset_key (n : inode) (k : list Z) := match n with INode i p kl _ t v s c => INode i p kl k t v s c end.
Definition iset_ch (n : inode) (c : list inode) := match n with INode i p kl k t v s _ => INode i p kl k t v s c end.
Definition iset_par (p : Z) (n : inode) := match n with INode i _ kl k t v s c => INode i p kl k t v s c end.

Fixpoint iforget (n : inode) : node :=
  match n with INode _ _ kl key ty vi vs ch => Node kl key ty vi vs (map iforget ch) end.

(* _jbl_copy_node_data(target, value): child list, type, scalar *)
Definition icopy_data (reparent : bool) (target value : inode) : inode :=
  match target, value with
  | INode i p kl k _ _ _ _, INode _ _ _ _ t v s c =>
    INode i p kl k t v s (if reparent then map (iset_par i) c else c)
  end.

Definition iset_child (n : inode) (i : nat) (c : inode) : inode :=
  iset_ch n (firstn i (i_ch n) ++ c :: skipn (S i) (i_ch n)).

(* _jbn_add_item: node->parent = parent *)
Definition iadd_item (p c : inode) : inode :=
  let c0 := iset_par (i_id p) c in
  let c' := match i_ty p with
            | TArr => iset_key (iset_kl c0 (match rev (i_ch p) with l :: _ => i_kl l + 1 | [] => 0 end)) []
            | _ => c0 end in
  iset_ch p (i_ch p ++ [c']).

Definition idec_kl (n : inode) := iset_kl n (i_kl n - 1).
Definition iinc_kl (n : inode) := iset_kl n (i_kl n + 1).
Definition iremove_item (p : inode) (i : nat) : inode :=
  iset_ch p (firstn i (i_ch p) ++ match i_ty p with TArr => map idec_kl (skipn (S i) (i_ch p)) | _ => skipn (S i) (i_ch p) end).

(* one step of _jbl_node_find: decided on the values *)
Definition ichild_pos (n : inode) (s : seg) : option nat := child_pos (iforget n) s.

Fixpoint i_find (n : inode) (segs : list seg) : option inode :=
  match segs with
  | [] => Some n
  | s :: r => match ichild_pos n s with
              | None => None
              | Some i => match nth_error (i_ch n) i with None => None | Some c => i_find c r end
              end
  end.

Fixpoint i_detach (n : inode) (segs : list seg) : option (inode * inode) :=
  match segs with
  | [] => None
  | s :: r =>
    match ichild_pos n s with
    | None => None
    | Some i =>
      match nth_error (i_ch n) i with
      | None => None
      | Some c =>
        match r with
        | [] => Some (iremove_item n i, iset_par 0 c)          (* child->parent = 0 *)
        | _ => match i_detach c r with None => None | Some (c', d) => Some (iset_child n i c', d) end
        end
      end
    end
  end.

(* _jbl_increment_node_data: the payload only *)
Definition i_increment (fo : fops) (target value : inode) : rc * inode :=
  match increment fo (iforget target) (iforget value) with
  | (r, Node _ _ ty vi vs _) => (r, match target with INode i p kl k _ _ _ c => INode i p kl k ty vi vs c end)
  end.

(* fresh identities: `relabel` gives a tree new ids in allocation (depth-first) order from `next`; every child's parent field is the
   id of the node that lists it; the root's is `par` *)
Fixpoint embed (n : node) : inode :=
  match n with Node kl k ty vi vs ch => INode 0 0 kl k ty vi vs (map embed ch) end.
Fixpoint relabel (next : Z) (par : Z) (n : inode) {struct n} : Z * inode :=
  match n with
  | INode _ _ kl k ty vi vs ch =>
    let me := next in
    let '(next', ch') :=
      (fix go (nx : Z) (l : list inode) {struct l} : Z * list inode :=
         match l with
         | [] => (nx, [])
         | c :: l' => let '(nx1, c') := relabel nx me c in let '(nx2, r') := go nx1 l' in (nx2, c' :: r')
         end) (next + 1) ch in
    (next', INode me par kl k ty vi vs ch')
  end.
(* jbn_clone(v, &copy, pool): one allocation per node of the copy *)
Definition i_clone (next : Z) (par : Z) (n : inode) : Z * inode := relabel next par (embed (clone (iforget n))).

Definition i_put_here (rp : bool) (fo : fops) (k : opk) (p : inode) (s : seg) (v : inode) : rc * inode :=
  match i_ty p with
  | TArr =>
    if op_eqb k OIncrement then
      match ichild_pos p s with
      | Some i =>
        match nth_error (i_ch p) i with
        | None => (RcTargetInvalid, p)
        | Some c => let '(r, c') := i_increment fo c v in (r, iset_child p i c')
        end
      | None => (RcTargetInvalid, p)
      end
    else if is_dash s then (RcOk, iadd_item p v)
    else
      match arr_index s with
      | None => (RcBadIdx, p)
      | Some idx =>
        let len := Z.of_nat (length (i_ch p)) in
        if (idx >? len) || (idx <? 0) then (RcBadIdx, p)
        else
          let v1 := iset_kl v idx in
          if idx <? len then
            let i := Z.to_nat idx in
            (RcOk, iset_ch p (firstn i (i_ch p) ++ iset_par (i_id p) v1 :: map iinc_kl (skipn i (i_ch p))))
          else (RcOk, iadd_item p v1)
      end
  | TObj =>
    match ichild_pos p s with
    | Some i =>
      match nth_error (i_ch p) i with
      | None => (RcTargetInvalid, p)
      | Some c =>
        if op_eqb k OIncrement then let '(r, c') := i_increment fo c v in (r, iset_child p i c')
        else (RcOk, iset_child p i (icopy_data rp c v))
      end
    | None =>
      if op_eqb k OIncrement then (RcTargetInvalid, p)
      else (RcOk, iadd_item p (iset_kl (iset_key v s) (Z.of_nat (length s))))
    end
  | _ => (RcTargetInvalid, p)
  end.

Fixpoint i_put (rp : bool) (fo : fops) (k : opk) (n : inode) (segs : list seg) (v : inode) : option (rc * inode) :=
  match segs with
  | [] => Some (RcTargetInvalid, n)
  | s :: r =>
    match r with
    | [] => Some (i_put_here rp fo k n s v)
    | _ => match ichild_pos n s with
           | None => None
           | Some i => match nth_error (i_ch n) i with
                       | None => None
                       | Some c => match i_put rp fo k c r v with
                                   | None => None
                                   | Some (rc0, c') => Some (rc0, iset_child n i c')
                                   end
                       end
           end
    end
  end.

(* add_create: the created object nodes are fresh; `next` is the allocation counter *)
Fixpoint i_create (rp : bool) (fo : fops) (next : Z) (n : inode) (segs : list seg) (v : inode) : Z * (rc * inode) :=
  match segs with
  | [] => (next, (RcTargetInvalid, n))
  | s :: r =>
    match r with
    | [] => (next, i_put_here rp fo OAddCreate n s v)
    | _ =>
      match ichild_pos n s with
      | Some i =>
        match nth_error (i_ch n) i with
        | None => (next, (RcTargetInvalid, n))
        | Some c =>
          match i_ty c with
          | TObj => let '(nx, (rc0, c')) := i_create rp fo next c r v in (nx, (rc0, iset_child n i c'))
          | _ => (next, (RcTargetInvalid, n))
          end
        end
      | None =>
        let pn := INode next 0 (Z.of_nat (length s)) s TObj 0 [] [] in
        let n1 := iadd_item n pn in
        let i := length (i_ch n) in
        match nth_error (i_ch n1) i with
        | None => (next + 1, (RcTargetInvalid, n1))
        | Some pn1 => let '(nx, (rc0, c')) := i_create rp fo (next + 1) pn1 r v in (nx, (rc0, iset_child n1 i c'))
        end
      end
    end
  end.

Definition i_put_or_create (rp : bool) (fo : fops) (k : opk) (next : Z) (t : inode) (path : list seg) (v : inode)
  : Z * (rc * inode) :=
  match i_put rp fo k t path v with
  | Some r => (next, r)
  | None => if op_eqb k OAddCreate then i_create rp fo next t path v else (next, (RcTargetInvalid, t))
  end.

Definition i_locate (n : inode) (segs : list seg) : option (list nat) := m_locate (iforget n) segs.

Fixpoint i_set_data_at (rp : bool) (n : inode) (pos : list nat) (d : inode) : option inode :=
  match pos with
  | [] => Some (icopy_data rp n d)
  | i :: r => match nth_error (i_ch n) i with
              | None => None
              | Some c => match i_set_data_at rp c r d with None => None | Some c' => Some (iset_child n i c') end
              end
  end.
Fixpoint i_detach_at (n : inode) (pos : list nat) : option inode :=
  match pos with
  | [] => None
  | i :: r =>
    match nth_error (i_ch n) i with
    | None => None
    | Some c =>
      match r with
      | [] => Some (iremove_item n i)
      | _ => match i_detach_at c r with None => None | Some c' => Some (iset_child n i c') end
      end
    end
  end.
Fixpoint i_get_at (n : inode) (pos : list nat) : option inode :=
  match pos with [] => Some n | i :: r => match nth_error (i_ch n) i with Some c => i_get_at c r | None => None end end.

Record ipop := { ip_op : opk; ip_path : list seg; ip_from : option (list seg); ip_val : option inode }.
Definition pop_of (o : ipop) : pop :=
  {| p_op := ip_op o; p_path := ip_path o; p_from := ip_from o; p_val := option_map iforget (ip_val o) |}.

(* _jbl_target_apply_patch; state = allocation counter *)
Definition i_apply_op (rp : bool) (fo : fops) (next : Z) (t : inode) (o : ipop) : Z * (rc * inode) :=
  let k := ip_op o in
  let path := ip_path o in
  if op_eqb k OSwap && (match ip_from o with Some [] => true | _ => false end) then (next, (RcPatchInvalid, t))
  else if op_eqb k OTest then
    match ip_val o with
    | None => (next, (RcNoValue, t))
    | Some v =>
      match (if is_root path then Some t else i_find t path) with
      | Some x => if nodes_eq fo (iforget x) (iforget v) then (next, (RcOk, t)) else (next, (RcTestFailed, t))
      | None => (next, (RcTestFailed, t))
      end
    end
  else if is_root path then
    if op_eqb k ORemove then (next, (RcOk, match t with INode i _ _ _ _ _ _ _ => INode i 0 0 [] TNone 0 [] [] end))   (* memset *)
    else if op_eqb k OReplace || op_eqb k OAdd || op_eqb k OAddCreate then
      match ip_val o with
      | None => (next, (RcNoValue, t))
      | Some v => (next, (RcOk, icopy_data rp t v))                               (* _jbl_copy_node_data(target, value), ca7f178 *)
      end
    else if op_eqb k OMove || op_eqb k OCopy then                                 (* 22df63c: the value at `from` becomes the document *)
      match ip_from o with
      | None => (next, (RcPatchInvalid, t))
      | Some [] => (next, (RcOk, t))
      | Some f => match i_find t f with None => (next, (RcNotFound, t)) | Some v => (next, (RcOk, icopy_data rp t v)) end
      end
    else (next, (RcOk, t))
  else
    match (if op_eqb k ORemove || op_eqb k OReplace then
             match i_detach t path with None => None | Some (t', _) => Some t' end
           else Some t) with
    | None => (next, (RcNotFound, t))
    | Some t1 =>
      if op_eqb k ORemove then (next, (RcOk, t1))
      else if (op_eqb k OMove || op_eqb k OCopy || op_eqb k OSwap) && (match ip_from o with None => true | _ => false end)
      then (next, (RcPatchInvalid, t1))
      else if op_eqb k OMove then
        match (match ip_from o with None => None | Some f => i_detach t1 f end) with
        | None => (next, (RcNotFound, t1))
        | Some (t2, v) => i_put_or_create rp fo k next t2 path v
        end
      else if op_eqb k OCopy then
        match (match ip_from o with None => None | Some f => i_find t1 f end) with
        | None => (next, (RcNotFound, t1))
        | Some v => let '(nx, cv) := i_clone next 0 v in i_put_or_create rp fo k nx t1 path cv
        end
      else if op_eqb k OSwap then
        match ip_from o with
        | None => (next, (RcNotFound, t1))
        | Some f =>
          if seg_nested f path then (next, (RcPatchInvalid, t1)) else               (* da6f72b *)
          match i_find t1 f, i_locate t1 f with
          | Some v, Some pf =>
            match swap_target (iforget t1) path with
            | None => (next, (RcTargetInvalid, t1))
            | Some (pp, Some (i, _)) =>
              let pc := pp ++ [i] in
              match i_get_at t1 pc with
              | None => (next, (RcUnmodelled, t1))
              | Some c =>
                if pos_eqb pf pc then (next, (RcOk, t1))
                else if pos_prefix pf pc then
                  match i_set_data_at rp t1 pf c with Some t2 => (next, (RcOk, t2)) | None => (next, (RcUnmodelled, t1)) end
                else if pos_prefix pc pf then
                  match i_set_data_at rp t1 pc v with Some t2 => (next, (RcOk, t2)) | None => (next, (RcUnmodelled, t1)) end
                else match i_set_data_at rp t1 pf c with
                     | None => (next, (RcUnmodelled, t1))
                     | Some t2 => match i_set_data_at rp t2 pc v with
                                  | None => (next, (RcUnmodelled, t1))
                                  | Some t3 => (next, (RcOk, t3))
                                  end
                     end
              end
            | Some (pp, None) =>
              match i_put_or_create rp fo k next t1 path v with
              | (nx, (RcOk, t2)) =>
                match i_detach_at (if pos_prefix pf pp then t1 else t2) pf with
                | Some t3 => (nx, (RcOk, t3))
                | None => (nx, (RcUnmodelled, t1))
                end
              | r => r
              end
            end
          | _, _ => (next, (RcNotFound, t1))
          end
        end
      else
        match ip_val o with
        | None => (next, (RcNoValue, t1))
        | Some v => i_put_or_create rp fo k next t1 path v
        end
    end.

Fixpoint i_apply_ops (rp : bool) (fo : fops) (next : Z) (t : inode) (l : list ipop) : Z * (rc * inode) :=
  match l with
  | [] => (next, (RcOk, t))
  | o :: l' => match i_apply_op rp fo next t o with
               | (nx, (RcOk, t')) => i_apply_ops rp fo nx t' l'
               | r => r
               end
  end.

(* building identified trees: ids in depth-first order from `next` *)
Definition i_of_node (next : Z) (par : Z) (n : node) : Z * inode := relabel next par (embed n).

(* what the library does now (probed on every run, tools/probes/probe_jpatch.c) *)
Definition lib_reparent : bool := JP_REPARENT =? 1.

Fixpoint i_ids (n : inode) : list Z :=
  match n with INode i _ _ _ _ _ _ ch => i :: flat_map i_ids ch end.
(* every child's `parent` field is the node that lists it *)
Fixpoint i_parents_ok (n : inode) : bool :=
  match n with INode i _ _ _ _ _ _ ch => forallb (fun c => (i_par c =? i) && i_parents_ok c) ch end.
