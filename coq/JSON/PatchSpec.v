(* The specifications, over pure values (IW.JSON.Val.jval), independent of the node model:
     - RFC 6902 JSON Patch (add, remove, replace, move, copy, test) with RFC 6901 pointers already split into
       unescaped segments, plus the library's documented extensions (increment, add_create, swap) as the header
       comments describe them;
     - RFC 7386 MergePatch.
   Object members are ordered lists; where the RFC leaves the order open the spec fixes it (a replaced member keeps its
   place, a new member goes last, `replace` = remove then add as rfc6902 4.3 says) - the oracle of the checks compares
   objects unordered.

   `cfg` makes the reading of array indices explicit.  `strict` is the RFC: an index is "0" or digits without a leading
   zero ("-" only as the add position), the root is the empty pointer, `move` into one's own child is an error.
   `lenient` is the reading the library implements ("/" = root as well, move/copy/swap onto the root ignored, move into one's own
   child; until eca2cba also iwatoi on any segment and "-" = last element: `lenient_idx_old`): a superset, see
   rfc_op_strict_lenient in Patch_proofs.v.  No proofs here. *)
Require Import ZArith List Bool. Require Import IW.Lib.CInt IW.UT.Conv IW.JSON.Val. Import ListNotations.
Local Open Scope Z_scope. Local Open Scope bool_scope.

Definition sseg := list Z.
Definition s_is_dash (s : sseg) : bool := match s with [45] => true | _ => false end.

Record cfg := { c_look : sseg -> option Z;      (* index of an existing array element *)
                c_ins : sseg -> option Z;       (* index for an insertion *)
                c_lenient : bool }.

Definition is_digit (c : Z) : bool := (48 <=? c) && (c <=? 57).
Definition dec_val (s : sseg) : Z := fold_left (fun a c => a * 10 + (c - 48)) s 0.
(* rfc6901: array-index = "0" / ( %x31-39 *(%x30-39) ); at most 9 digits (an index >= 10^9 never exists) *)
Definition strict_idx (s : sseg) : option Z :=
  match s with
  | [] => None
  | c :: r =>
    if c =? 48 then match r with [] => Some 0 | _ => None end
    else if forallb is_digit s && (length s <=? 9)%nat then Some (dec_val s) else None
  end.
Definition strict : cfg := {| c_look := strict_idx; c_ins := strict_idx; c_lenient := false |}.
(* the library's reading since eca2cba: rfc6901 array indices like `strict`; what remains lenient is the root ("/" as well, move /
   copy / swap / increment onto the root ignored) and move into one's own child *)
Definition lenient : cfg := {| c_look := strict_idx; c_ins := strict_idx; c_lenient := true |}.
(* the reading before that repair (iwatoi on any segment, the insertion index cast to int), kept for the theorems that state it *)
Definition lenient_idx_old : cfg := {| c_look := fun s => Some (atoi s); c_ins := fun s => Some (sw 32 (atoi s)); c_lenient := true |}.

Fixpoint lookup (k : sseg) (ms : list (sseg * jval)) : option jval :=
  match ms with [] => None | (k', v) :: r => if bytes_eqb k' k then Some v else lookup k r end.
Fixpoint set_member (k : sseg) (x : jval) (ms : list (sseg * jval)) : list (sseg * jval) :=
  match ms with [] => [] | (k', v) :: r => if bytes_eqb k' k then (k', x) :: r else (k', v) :: set_member k x r end.
Fixpoint remove_member (k : sseg) (ms : list (sseg * jval)) : list (sseg * jval) :=
  match ms with [] => [] | (k', v) :: r => if bytes_eqb k' k then r else (k', v) :: remove_member k r end.

Definition aidx (c : cfg) (l : list jval) (s : sseg) : option nat :=
  if s_is_dash s then None            (* "-" is the (nonexistent) element after the last one *)
  else match c_look c s with
       | Some i => if (0 <=? i) && (i <? Z.of_nat (length l)) then Some (Z.to_nat i) else None
       | None => None
       end.

Fixpoint jget (c : cfg) (v : jval) (p : list sseg) : option jval :=
  match p with
  | [] => Some v
  | s :: r =>
    match v with
    | JObj ms => match lookup s ms with Some x => jget c x r | None => None end
    | JArr l => match aidx c l s with
                | Some i => match nth_error l i with Some x => jget c x r | None => None end
                | None => None
                end
    | _ => None
    end
  end.

(* apply f to (parent value, last segment) of pointer p; every segment before the last must resolve *)
Fixpoint jmod (c : cfg) (v : jval) (p : list sseg) (f : jval -> sseg -> option jval) : option jval :=
  match p with
  | [] => None
  | s :: r =>
    match r with
    | [] => f v s
    | _ =>
      match v with
      | JObj ms => match lookup s ms with
                   | Some x => match jmod c x r f with Some x' => Some (JObj (set_member s x' ms)) | None => None end
                   | None => None
                   end
      | JArr l => match aidx c l s with
                  | Some i => match nth_error l i with
                              | Some x => match jmod c x r f with
                                          | Some x' => Some (JArr (firstn i l ++ x' :: skipn (S i) l))
                                          | None => None
                                          end
                              | None => None
                              end
                  | None => None
                  end
      | _ => None
      end
    end
  end.

Definition remove_here (c : cfg) (parent : jval) (s : sseg) : option jval :=
  match parent with
  | JObj ms => match lookup s ms with Some _ => Some (JObj (remove_member s ms)) | None => None end
  | JArr l => match aidx c l s with Some i => Some (JArr (firstn i l ++ skipn (S i) l)) | None => None end
  | _ => None
  end.
Definition add_here (c : cfg) (x : jval) (parent : jval) (s : sseg) : option jval :=
  match parent with
  | JObj ms => Some (JObj (match lookup s ms with Some _ => set_member s x ms | None => ms ++ [(s, x)] end))
  | JArr l =>
    if s_is_dash s then Some (JArr (l ++ [x]))
    else match c_ins c s with
         | Some i => if (0 <=? i) && (i <=? Z.of_nat (length l))
                     then Some (JArr (firstn (Z.to_nat i) l ++ x :: skipn (Z.to_nat i) l)) else None
         | None => None
         end
  | _ => None
  end.
Definition s_remove (c : cfg) (v : jval) (p : list sseg) : option jval := jmod c v p (remove_here c).
Definition s_add (c : cfg) (v : jval) (p : list sseg) (x : jval) : option jval := jmod c v p (add_here c x).

(* rfc6902 4.6 equality: numbers by value, strings by content, arrays item by item, objects as unordered member sets *)
Section Eq.
  Variable feq : Z -> Z -> bool.
  Fixpoint jeq (a b : jval) {struct a} : bool :=
    match a, b with
    | JNull, JNull => true
    | JBool x, JBool y => Bool.eqb x y
    | JI64 x, JI64 y => x =? y
    | JF64 x, JF64 y => feq x y
    | JStr x, JStr y => bytes_eqb x y
    | JArr xs, JArr ys =>
      (fix go (l m : list jval) : bool :=
         match l, m with
         | [], [] => true
         | x :: l', y :: m' => jeq x y && go l' m'
         | _, _ => false
         end) xs ys
    | JObj xs, JObj ys =>
      (Z.of_nat (length xs) =? Z.of_nat (length ys)) &&
      (fix go (l : list (sseg * jval)) : bool :=
         match l with
         | [] => true
         | (k, x) :: l' => match lookup k ys with Some y => jeq x y | None => false end && go l'
         end) xs
    | _, _ => false
    end.
End Eq.

Inductive sopk := SNone | SAdd | SRemove | SReplace | SCopy | SMove | STest | SIncrement | SAddCreate | SSwap.
Record sop := { s_op : sopk; s_path : list sseg; s_from : option (list sseg); s_val : option jval }.

Fixpoint seg_prefix (a b : list sseg) : bool :=
  match a, b with
  | [], _ => true
  | x :: a', y :: b' => bytes_eqb x y && seg_prefix a' b'
  | _, _ => false
  end.
Definition proper_prefix (a b : list sseg) : bool := seg_prefix a b && negb (seg_prefix b a).

Definition s_is_root (c : cfg) (p : list sseg) : bool :=
  match p with [] => true | [[]] => c_lenient c | _ => false end.

(* A document is `option jval`: None after the root was removed.  Result None = the operation is an error. *)
Definition rfc_op (c : cfg) (feq : Z -> Z -> bool) (d : option jval) (o : sop) : option (option jval) :=
  let path := s_path o in
  match s_op o with
  | STest =>
    match s_val o with
    | None => None
    | Some v => match (if s_is_root c path then d else match d with Some dv => jget c dv path | None => None end) with
                | Some x => if jeq feq x v then Some d else None
                | None => None
                end
    end
  | SRemove =>
    if s_is_root c path then Some None
    else match d with Some dv => option_map Some (s_remove c dv path) | None => None end
  | SAdd =>
    match s_val o with
    | None => None
    | Some v => if s_is_root c path then Some (Some v)
                else match d with Some dv => option_map Some (s_add c dv path v) | None => None end
    end
  | SReplace =>
    match s_val o with
    | None => None
    | Some v => if s_is_root c path then Some (Some v)
                else match d with
                     | Some dv => match s_remove c dv path with
                                  | Some d1 => option_map Some (s_add c d1 path v)
                                  | None => None
                                  end
                     | None => None
                     end
    end
  | SMove =>
    match s_from o, d with
    | Some f, Some dv =>
      if s_is_root c path then
        match jget c dv f with Some x => Some (Some x) | None => None end     (* the value at `from` becomes the document (22df63c) *)
      else if negb (c_lenient c) && proper_prefix f path then None
      else match jget c dv f with
           | Some x => match s_remove c dv f with
                       | Some d1 => option_map Some (s_add c d1 path x)
                       | None => None
                       end
           | None => None
           end
    | _, _ => if s_is_root c path && c_lenient c      (* no document left: only the document onto itself (from = "") is no error *)
              then match s_from o with Some [] => Some d | _ => None end else None
    end
  | SCopy =>
    match s_from o, d with
    | Some f, Some dv =>
      if s_is_root c path then
        match jget c dv f with Some x => Some (Some x) | None => None end
      else match jget c dv f with
           | Some x => option_map Some (s_add c dv path x)
           | None => None
           end
    | _, _ => if s_is_root c path && c_lenient c      (* no document left: only the document onto itself (from = "") is no error *)
              then match s_from o with Some [] => Some d | _ => None end else None
    end
  | _ => None          (* the extensions are specified separately below *)
  end.

Fixpoint rfc_program (c : cfg) (feq : Z -> Z -> bool) (d : option jval) (l : list sop) : option (option jval) :=
  match l with
  | [] => Some d
  | o :: l' => match rfc_op c feq d o with Some d' => rfc_program c feq d' l' | None => None end
  end.

(* ---- the extensions, from the comments of iwjson.h:
        JBP_INCREMENT  "Value increment"
        JBP_ADD_CREATE "Create intermediate object nodes for missing path segments"
        JBP_SWAP       "Swap values of two nodes" *)
(* replace the value of an existing member / array element (the target of `increment`; "-" is read by c_look as everywhere) *)
Definition set_here (c : cfg) (x : jval) (parent : jval) (s : sseg) : option jval :=
  match parent with
  | JObj ms => match lookup s ms with Some _ => Some (JObj (set_member s x ms)) | None => None end
  | JArr l => match aidx c l s with Some i => Some (JArr (firstn i l ++ x :: skipn (S i) l)) | None => None end
  | _ => None
  end.
Definition i64_fits (x : Z) : bool := (- 9223372036854775808 <=? x) && (x <=? 9223372036854775807).
(* "Value increment": integers exactly (refused when the sum is no int64 or a double operand cannot be cast), doubles by the
   operations given *)
Definition num_sum (fadd : Z -> Z -> Z) (fofi ftoi : Z -> Z) (ffits : Z -> bool) (a v : jval) : option jval :=
  match a, v with
  | JI64 x, JI64 y => if i64_fits (x + y) then Some (JI64 (x + y)) else None
  | JI64 x, JF64 y => if ffits y then (if i64_fits (x + ftoi y) then Some (JI64 (x + ftoi y)) else None) else None
  | JF64 x, JI64 y => Some (JF64 (fadd x (fofi y)))
  | JF64 x, JF64 y => Some (JF64 (fadd x y))
  | _, _ => None
  end.
Definition ext_increment (c : cfg) (fadd : Z -> Z -> Z) (fofi ftoi : Z -> Z) (ffits : Z -> bool) (dv : jval) (path : list sseg) (v : jval)
  : option jval :=
  match jget c dv path with
  | Some a => match num_sum fadd fofi ftoi ffits a v with
              | Some r => jmod c dv path (set_here c r)
              | None => None
              end
  | None => None
  end.

(* add x at path, creating empty objects for the missing members on the way (object parents only) *)
Fixpoint ext_add_create (c : cfg) (v : jval) (p : list sseg) (x : jval) : option jval :=
  match p with
  | [] => None
  | s :: r =>
    match r with
    | [] => add_here c x v s
    | _ =>
      match v with
      | JObj ms =>
        match lookup s ms with
        | Some y => match ext_add_create c y r x with Some y' => Some (JObj (set_member s y' ms)) | None => None end
        | None => match ext_add_create c (JObj []) r x with Some y' => Some (JObj (ms ++ [(s, y')])) | None => None end
        end
      | _ => None
      end
    end
  end.

(* ================================================================== the library's reading, complete: every operation kind.
   `lib_op` extends `rfc_op` (used with the lenient configuration) by the three documented extensions and by the operation
   code 0 (an operation object without an "op" member), exactly as _jbl_target_apply_patch treats them.  The documented
   meaning of each extension is the ext_* function above; the lib_* function adds the cases the one-line descriptions do not
   cover.  Locations are compared as NODES by the library (pointers), here as positions: the child indices from the root. *)
Fixpoint lookup_pos (k : sseg) (ms : list (sseg * jval)) : option nat :=
  match ms with
  | [] => None
  | (k', _) :: r => if bytes_eqb k' k then Some O else match lookup_pos k r with Some i => Some (S i) | None => None end
  end.
Definition jstep (c : cfg) (v : jval) (s : sseg) : option nat :=
  match v with
  | JObj ms => lookup_pos s ms
  | JArr l => aidx c l s
  | _ => None
  end.
Definition jkids (v : jval) : list jval :=
  match v with JObj ms => map snd ms | JArr l => l | _ => [] end.
Fixpoint jlocate (c : cfg) (v : jval) (p : list sseg) : option (list nat) :=
  match p with
  | [] => Some []
  | s :: r => match jstep c v s with
              | None => None
              | Some i => match nth_error (jkids v) i with
                          | None => None
                          | Some x => match jlocate c x r with Some l => Some (i :: l) | None => None end
                          end
              end
  end.
Fixpoint jget_at (v : jval) (pos : list nat) : option jval :=
  match pos with
  | [] => Some v
  | i :: r => match nth_error (jkids v) i with Some x => jget_at x r | None => None end
  end.
(* replace the i-th child (a member keeps its name) *)
Definition jset_kid (v : jval) (i : nat) (x : jval) : jval :=
  match v with
  | JObj ms => JObj (firstn i ms ++ match nth_error ms i with Some (k, _) => [(k, x)] | None => [] end ++ skipn (S i) ms)
  | JArr l => JArr (firstn i l ++ x :: skipn (S i) l)
  | _ => v
  end.
Definition jdel_kid (v : jval) (i : nat) : jval :=
  match v with
  | JObj ms => JObj (firstn i ms ++ skipn (S i) ms)
  | JArr l => JArr (firstn i l ++ skipn (S i) l)
  | _ => v
  end.
Fixpoint jset_at (v : jval) (pos : list nat) (x : jval) : option jval :=
  match pos with
  | [] => Some x
  | i :: r => match nth_error (jkids v) i with
              | Some y => match jset_at y r x with Some y' => Some (jset_kid v i y') | None => None end
              | None => None
              end
  end.
Fixpoint jremove_at (v : jval) (pos : list nat) : option jval :=
  match pos with
  | [] => None
  | i :: r => match nth_error (jkids v) i with
              | Some y => match r with
                          | [] => Some (jdel_kid v i)
                          | _ => match jremove_at y r with Some y' => Some (jset_kid v i y') | None => None end
                          end
              | None => None
              end
  end.
Fixpoint np_prefix (a b : list nat) : bool :=
  match a, b with
  | [], _ => true
  | x :: a', y :: b' => Nat.eqb x y && np_prefix a' b'
  | _, _ => false
  end.

(* "Swap values of two nodes" (iwjson.h), where an exchange exists: both locations exist and neither contains the other - the two
   values change places, everything else stays *)
Definition ext_swap (c : cfg) (dv : jval) (from path : list sseg) : option jval :=
  match jlocate c dv from, jlocate c dv path with
  | Some pf, Some pc =>
    if np_prefix pf pc || np_prefix pc pf then None
    else match jget_at dv pf, jget_at dv pc with
         | Some a, Some b => match jset_at dv pf b with Some d1 => jset_at d1 pc a | None => None end
         | _, _ => None
         end
  | _, _ => None
  end.

(* add_create when the parent of `path` does not resolve: walk from the root; an existing member must be an object, a
   missing one is created as an empty object (appended; the root may also be an array or - without visible effect - a scalar) *)
Fixpoint create_spec (c : cfg) (v : jval) (p : list sseg) (x : jval) : option jval :=
  match p with
  | [] => None
  | s :: r =>
    match r with
    | [] => add_here c x v s
    | _ =>
      match jstep c v s with
      | Some i =>
        match nth_error (jkids v) i with
        | Some (JObj ys) => match create_spec c (JObj ys) r x with Some y' => Some (jset_kid v i y') | None => None end
        | _ => None
        end
      | None =>
        match create_spec c (JObj []) r x with
        | Some y' => Some (match v with JObj ms => JObj (ms ++ [(s, y')]) | JArr l => JArr (l ++ [y']) | _ => v end)
        | None => None
        end
      end
    end
  end.
Definition lib_add_create (c : cfg) (dv : jval) (path : list sseg) (x : jval) : option jval :=
  match jget c dv (removelast path) with
  | Some _ => s_add c dv path x
  | None => create_spec c dv path x
  end.

(* swap: `path` addresses an existing child of its parent?  (arrays: an index below the length; "-" never does) *)
Definition swap_kid (c : cfg) (parent : jval) (s : sseg) : option nat :=
  match parent with
  | JObj ms => lookup_pos s ms
  | JArr l => if s_is_dash s then None
              else match c_ins c s with
                   | Some i => if (0 <=? i) && (i <? Z.of_nat (length l)) then Some (Z.to_nat i) else None
                   | None => None
                   end
  | _ => None
  end.
Definition lib_swap (c : cfg) (dv : jval) (from path : list sseg) : option jval :=
  match jlocate c dv from, jget c dv from with
  | Some pf, Some a =>
    match jlocate c dv (removelast path) with
    | None => None
    | Some pp =>
      match jget_at dv pp with
      | None => None
      | Some parent =>
        match swap_kid c parent (last path []) with
        | Some i =>
          let pc := pp ++ [i] in
          match jget_at dv pc with
          | None => None
          | Some b =>
            if np_prefix pf pc && np_prefix pc pf then Some dv
            else if np_prefix pf pc then jset_at dv pf b          (* from contains path: from := the descendant's value *)
            else if np_prefix pc pf then jset_at dv pc a          (* path contains from *)
            else match jset_at dv pf b with Some d1 => jset_at d1 pc a | None => None end
          end
        | None =>
          match s_add c dv path a with
          | None => None
          | Some d1 => jremove_at (if np_prefix pf pp then dv else d1) pf
          end
        end
      end
    end
  | _, _ => None
  end.

Definition as_add (o : sop) : sop := {| s_op := SAdd; s_path := s_path o; s_from := s_from o; s_val := s_val o |}.

Definition lib_op (c : cfg) (feq : Z -> Z -> bool) (fadd : Z -> Z -> Z) (fofi ftoi : Z -> Z) (ffits : Z -> bool)
                  (d : option jval) (o : sop) : option (option jval) :=
  let path := s_path o in
  match s_op o with
  | SNone => if s_is_root c path then Some d else rfc_op c feq d (as_add o)
  | SIncrement =>
    if s_is_root c path then Some d
    else match s_val o, d with
         | Some v, Some dv => option_map Some (ext_increment c fadd fofi ftoi ffits dv path v)
         | _, _ => None
         end
  | SAddCreate =>
    match s_val o with
    | None => None
    | Some v =>
      if s_is_root c path then Some (Some v)
      else match d with
           | Some dv => option_map Some (lib_add_create c dv path v)
           | None => match path with _ :: _ :: _ => Some None | _ => None end      (* after the root was removed *)
           end
    end
  | SSwap =>
    match s_from o with
    | Some [] => None
    | _ =>
      if s_is_root c path then Some d
      else match s_from o, d with
           | Some f, Some dv =>
             if negb (Nat.eqb (length f) (length path)) && (seg_prefix f path || seg_prefix path f)
             then None                                 (* a location cannot change places with a part of itself (da6f72b) *)
             else option_map Some (lib_swap c dv f path)
           | Some f, None =>
             None
           | _, _ => None
           end
    end
  | _ => rfc_op c feq d o
  end.

Fixpoint lib_program (c : cfg) (feq : Z -> Z -> bool) (fadd : Z -> Z -> Z) (fofi ftoi : Z -> Z) (ffits : Z -> bool)
                     (d : option jval) (l : list sop) : option (option jval) :=
  match l with
  | [] => Some d
  | o :: l' => match lib_op c feq fadd fofi ftoi ffits d o with Some d' => lib_program c feq fadd fofi ftoi ffits d' l' | None => None end
  end.

(* rfc6901 pointer text -> reference tokens: "" is the whole document; otherwise "/"-separated tokens with ~0 = "~", ~1 = "/";
   any other use of "~" is an error.  `cur` is the token being read, reversed. *)
Fixpoint rfc6901_tokens (s : list Z) (cur : list Z) : option (list sseg) :=
  match s with
  | [] => Some [rev cur]
  | 47 :: r => match rfc6901_tokens r [] with Some l => Some (rev cur :: l) | None => None end
  | 126 :: 48 :: r => rfc6901_tokens r (126 :: cur)
  | 126 :: 49 :: r => rfc6901_tokens r (47 :: cur)
  | 126 :: _ => None
  | ch :: r => rfc6901_tokens r (ch :: cur)
  end.
Definition rfc6901 (s : list Z) : option (list sseg) :=
  match s with
  | [] => Some []
  | 47 :: r => rfc6901_tokens r []
  | _ => None
  end.

(* the library's one deviation from rfc6901 syntax: a pointer of more than one character that ends in "/" (its last reference
   token is empty) is rejected *)
Definition lib_ptr (s : list Z) : option (list sseg) :=
  if (1 <? Z.of_nat (length s)) && (match rev s with 47 :: _ => true | _ => false end) then None else rfc6901 s.

(* ---- rfc7386 *)
Fixpoint merge_spec (t : option jval) (p : jval) {struct p} : jval :=
  match p with
  | JObj pms =>
    JObj ((fix go (tm : list (sseg * jval)) (l : list (sseg * jval)) {struct l} : list (sseg * jval) :=
             match l with
             | [] => tm
             | (k, pv) :: l' =>
               go (match pv with
                   | JNull => remove_member k tm
                   | _ => match lookup k tm with
                          | Some x => set_member k (merge_spec (Some x) pv) tm
                          | None => tm ++ [(k, merge_spec None pv)]
                          end
                   end) l'
             end) (match t with Some (JObj ms) => ms | _ => [] end) pms)
  | _ => p
  end.
