(* C15, deepening round: `parent` pointers.  With the repaired _jbl_copy_node_data (reparent = true,
   fixes/jpatch-parent-pointers.diff) "every child's parent field is the node that lists it" is an invariant of every program of
   operations; with the library's copy it is not (C15_parent_pointers_refuted). *)
Require Import ZArith List Bool Lia.
Require Import IW.Lib.CInt IW.UT.Conv IW.JSON.Val IW.JSON.Patch IW.JSON.PatchSpec IW.JSON.Patch_proofs IW.JSON.PatchId IW.JSON.PatchId_proofs
               IW.JSON.PatchIdTree_proofs IW.Gen.Facts.
Import ListNotations. Local Open Scope Z_scope. Local Open Scope bool_scope.

Definition kid_ok (pid : Z) (c : inode) : bool := (i_par c =? pid) && i_parents_ok c.
Lemma pok_unfold : forall n, i_parents_ok n = forallb (kid_ok (i_id n)) (i_ch n). Proof. intros []; reflexivity. Qed.

(* identity and parent field of the node itself *)
Lemma par_set_kl : forall n k, i_par (iset_kl n k) = i_par n. Proof. intros [] k; reflexivity. Qed.
Lemma par_set_key : forall n k, i_par (iset_key n k) = i_par n. Proof. intros [] k; reflexivity. Qed.
Lemma par_set_ch : forall n c, i_par (iset_ch n c) = i_par n. Proof. intros [] c; reflexivity. Qed.
Lemma par_set_par : forall p n, i_par (iset_par p n) = p. Proof. intros p []; reflexivity. Qed.
Lemma ch_set_kl : forall n k, i_ch (iset_kl n k) = i_ch n. Proof. intros [] k; reflexivity. Qed.
Lemma ch_set_key : forall n k, i_ch (iset_key n k) = i_ch n. Proof. intros [] k; reflexivity. Qed.
Lemma pok_set_kl : forall n k, i_parents_ok (iset_kl n k) = i_parents_ok n. Proof. intros [] k; reflexivity. Qed.
Lemma pok_set_key : forall n k, i_parents_ok (iset_key n k) = i_parents_ok n. Proof. intros [] k; reflexivity. Qed.
Lemma pok_set_par : forall p n, i_parents_ok (iset_par p n) = i_parents_ok n. Proof. intros p []; reflexivity. Qed.
Lemma pok_set_ch : forall n c, i_parents_ok (iset_ch n c) = forallb (kid_ok (i_id n)) c. Proof. intros [] c; reflexivity. Qed.

Lemma kid_ok_set_kl : forall p c k, kid_ok p (iset_kl c k) = kid_ok p c.
Proof. intros p c k. unfold kid_ok. rewrite par_set_kl, pok_set_kl. reflexivity. Qed.
Lemma kid_ok_set_key : forall p c k, kid_ok p (iset_key c k) = kid_ok p c.
Proof. intros p c k. unfold kid_ok. rewrite par_set_key, pok_set_key. reflexivity. Qed.
Lemma kid_ok_adopt : forall p c, i_parents_ok c = true -> kid_ok p (iset_par p c) = true.
Proof. intros p c H. unfold kid_ok. rewrite par_set_par, pok_set_par, Z.eqb_refl, H. reflexivity. Qed.

Lemma forallb_firstn : forall (A : Type) (f : A -> bool) l i, forallb f l = true -> forallb f (firstn i l) = true.
Proof.
  intros A f. induction l as [|x r IH]; intros i H; destruct i; try reflexivity.
  cbn [firstn forallb] in *. apply andb_true_iff in H. destruct H as [H1 H2]. rewrite H1, (IH i H2). reflexivity.
Qed.
Lemma forallb_skipn : forall (A : Type) (f : A -> bool) l i, forallb f l = true -> forallb f (skipn i l) = true.
Proof.
  intros A f. induction l as [|x r IH]; intros i H; destruct i; try exact H; try reflexivity.
  cbn [skipn]. cbn [forallb] in H. apply andb_true_iff in H. destruct H as [_ H2]. apply IH. exact H2.
Qed.
Lemma forallb_nth : forall (A : Type) (f : A -> bool) l i x, forallb f l = true -> nth_error l i = Some x -> f x = true.
Proof. intros A f l i x H N. rewrite forallb_forall in H. apply H. eapply nth_error_In. exact N. Qed.

Lemma pok_set_child : forall n i c', i_parents_ok n = true -> kid_ok (i_id n) c' = true -> i_parents_ok (iset_child n i c') = true.
Proof.
  intros n i c' H K. unfold iset_child. rewrite pok_set_ch, forallb_app. rewrite pok_unfold in H.
  rewrite (forallb_firstn _ _ _ i H). cbn [forallb andb]. rewrite K, (forallb_skipn _ _ _ (S i) H). reflexivity.
Qed.

Lemma pok_child : forall n i c, i_parents_ok n = true -> nth_error (i_ch n) i = Some c -> kid_ok (i_id n) c = true.
Proof. intros n i c H N. rewrite pok_unfold in H. eapply forallb_nth; eauto. Qed.
Lemma kid_ok_parts : forall p c, kid_ok p c = true -> i_par c = p /\ i_parents_ok c = true.
Proof. intros p c H. unfold kid_ok in H. apply andb_true_iff in H. destruct H as [A B]. apply Z.eqb_eq in A. auto. Qed.
Lemma kid_ok_intro : forall p c, i_par c = p -> i_parents_ok c = true -> kid_ok p c = true.
Proof. intros p c A B. unfold kid_ok. rewrite A, Z.eqb_refl, B. reflexivity. Qed.

Lemma pok_add_item : forall p c, i_parents_ok p = true -> i_parents_ok c = true -> i_parents_ok (iadd_item p c) = true.
Proof.
  intros p c H C. unfold iadd_item. rewrite pok_set_ch, forallb_app. rewrite pok_unfold in H. rewrite H. cbn [forallb andb].
  rewrite andb_true_r. destruct (i_ty p); rewrite ?kid_ok_set_key, ?kid_ok_set_kl; apply kid_ok_adopt; exact C.
Qed.
Lemma id_add_item : forall p c, i_id (iadd_item p c) = i_id p. Proof. intros p c. unfold iadd_item. apply id_set_ch. Qed.
Lemma par_add_item : forall p c, i_par (iadd_item p c) = i_par p. Proof. intros p c. unfold iadd_item. apply par_set_ch. Qed.

Lemma kid_ok_dec : forall p c, kid_ok p (idec_kl c) = kid_ok p c. Proof. intros. apply kid_ok_set_kl. Qed.
Lemma kid_ok_inc : forall p c, kid_ok p (iinc_kl c) = kid_ok p c. Proof. intros. apply kid_ok_set_kl. Qed.
Lemma forallb_map_same : forall (f : inode -> bool) (g : inode -> inode) l, (forall x, f (g x) = f x) -> forallb f (map g l) = forallb f l.
Proof. intros f g l H. induction l as [|x r IH]; [reflexivity|]. cbn [map forallb]. rewrite H, IH. reflexivity. Qed.

Lemma pok_remove_item : forall p i, i_parents_ok p = true -> i_parents_ok (iremove_item p i) = true.
Proof.
  intros p i H. unfold iremove_item. rewrite pok_set_ch, forallb_app. rewrite pok_unfold in H.
  rewrite (forallb_firstn _ _ _ i H). cbn [andb].
  destruct (i_ty p); try apply (forallb_skipn _ _ _ (S i) H).
  rewrite (forallb_map_same _ idec_kl _ (kid_ok_dec (i_id p))). apply (forallb_skipn _ _ _ (S i) H).
Qed.
Lemma id_remove_item : forall p i, i_id (iremove_item p i) = i_id p. Proof. intros. unfold iremove_item. apply id_set_ch. Qed.
Lemma par_remove_item : forall p i, i_par (iremove_item p i) = i_par p. Proof. intros. unfold iremove_item. apply par_set_ch. Qed.
Lemma id_set_child : forall n i c, i_id (iset_child n i c) = i_id n. Proof. intros. unfold iset_child. apply id_set_ch. Qed.
Lemma par_set_child : forall n i c, i_par (iset_child n i c) = i_par n. Proof. intros. unfold iset_child. apply par_set_ch. Qed.

(* the repaired _jbl_copy_node_data *)
Lemma pok_copy_data : forall t v, i_parents_ok v = true -> i_parents_ok (icopy_data true t v) = true.
Proof.
  intros [ti tp tkl tk tty tvi tvs tch] [vi vp vkl vk vty vvi vvs vch] H. cbn [icopy_data i_parents_ok] in *.
  rewrite forallb_forall in *. intros x I. apply in_map_iff in I. destruct I as [y [E I]]. subst x.
  specialize (H y I). apply andb_true_iff in H. destruct H as [_ H]. rewrite par_set_par, pok_set_par, Z.eqb_refl, H. reflexivity.
Qed.
Lemma id_copy_data : forall rp t v, i_id (icopy_data rp t v) = i_id t. Proof. intros rp [] []; reflexivity. Qed.
Lemma par_copy_data : forall rp t v, i_par (icopy_data rp t v) = i_par t. Proof. intros rp [] []; reflexivity. Qed.

Lemma increment_keeps : forall fo c v, i_id (snd (i_increment fo c v)) = i_id c /\ i_par (snd (i_increment fo c v)) = i_par c /\
  i_parents_ok (snd (i_increment fo c v)) = i_parents_ok c.
Proof.
  intros fo [ci cp ckl ck cty cvi cvs cch] v. unfold i_increment.
  destruct (increment fo (iforget (INode ci cp ckl ck cty cvi cvs cch)) (iforget v)) as [r [kl k ty vi vs ch]]. repeat split.
Qed.

(* fresh trees are consistent *)
Lemma relabel_list_pok : forall l, Forall (fun c => forall nx pr, i_parents_ok (snd (relabel nx pr c)) = true /\
                                                               i_par (snd (relabel nx pr c)) = pr) l ->
  forall nx me, forallb (kid_ok me) (snd (relabel_list nx me l)) = true.
Proof.
  induction l as [|c r IH]; intros F nx me; [reflexivity|].
  inversion F as [|? ? Fc Fr]; subst. cbn [relabel_list]. destruct (Fc nx me) as [E1 E2].
  destruct (relabel nx me c) as [nx1 c']. cbn [snd] in E1, E2.
  pose proof (IH Fr nx1 me) as E3. destruct (relabel_list nx1 me r) as [nx2 r']. cbn [snd forallb] in *.
  rewrite E3, andb_true_r. apply kid_ok_intro; assumption.
Qed.
Lemma relabel_pok : forall n nx pr, i_parents_ok (snd (relabel nx pr n)) = true /\ i_par (snd (relabel nx pr n)) = pr.
Proof.
  induction n as [i p kl k ty vi vs ch IH] using inode_ind'. intros nx pr. rewrite relabel_unfold.
  pose proof (relabel_list_pok ch IH (nx + 1) nx) as E. destruct (relabel_list (nx + 1) nx ch) as [nx' ch']. cbn [snd] in *.
  split; [exact E | reflexivity].
Qed.
Lemma clone_pok : forall next par v, i_parents_ok (snd (i_clone next par v)) = true.
Proof. intros. unfold i_clone. apply relabel_pok. Qed.

(* ------------------------------------------------------------------ the composite steps (reparent = true) *)
Definition keeps (n n' : inode) : Prop := i_id n' = i_id n /\ i_par n' = i_par n /\ i_parents_ok n' = true.

Lemma keeps_refl : forall n, i_parents_ok n = true -> keeps n n.
Proof. intros n H. repeat split; auto. Qed.

Lemma keeps_set_child : forall n i c c', i_parents_ok n = true -> nth_error (i_ch n) i = Some c -> keeps c c' -> keeps n (iset_child n i c').
Proof.
  intros n i c c' H N [K1 [K2 K3]]. split; [apply id_set_child|]. split; [apply par_set_child|].
  apply pok_set_child; [exact H|]. destruct (kid_ok_parts _ _ (pok_child n i c H N)) as [A _].
  apply kid_ok_intro; [congruence | exact K3].
Qed.

Lemma child_pok : forall n i c, i_parents_ok n = true -> nth_error (i_ch n) i = Some c -> i_parents_ok c = true.
Proof. intros n i c H N. apply (kid_ok_parts _ _ (pok_child n i c H N)). Qed.

Lemma find_pok : forall p n x, i_parents_ok n = true -> i_find n p = Some x -> i_parents_ok x = true.
Proof.
  induction p as [|s r IH]; intros n x H F.
  - simpl in F. inversion F; subst. exact H.
  - cbn [i_find] in F. destruct (ichild_pos n s) as [i|]; [|discriminate].
    destruct (nth_error (i_ch n) i) as [c|] eqn:N; [|discriminate]. exact (IH c x (child_pok n i c H N) F).
Qed.

Lemma get_at_pok : forall pos n x, i_parents_ok n = true -> i_get_at n pos = Some x -> i_parents_ok x = true.
Proof.
  induction pos as [|i r IH]; intros n x H G.
  - simpl in G. inversion G; subst. exact H.
  - cbn [i_get_at] in G. destruct (nth_error (i_ch n) i) as [c|] eqn:N; [|discriminate]. exact (IH c x (child_pok n i c H N) G).
Qed.

Lemma detach_pok : forall p n n' d, i_parents_ok n = true -> i_detach n p = Some (n', d) -> keeps n n' /\ i_parents_ok d = true.
Proof.
  induction p as [|s r IH]; intros n n' d H D; [discriminate|].
  cbn [i_detach] in D. destruct (ichild_pos n s) as [i|]; [|discriminate].
  destruct (nth_error (i_ch n) i) as [c|] eqn:N; [|discriminate].
  destruct r as [|s2 r'].
  - inversion D; subst. split.
    + split; [apply id_remove_item|]. split; [apply par_remove_item | apply pok_remove_item; exact H].
    + rewrite pok_set_par. exact (child_pok n i c H N).
  - destruct (i_detach c (s2 :: r')) as [[c' d']|] eqn:D2; [|discriminate]. inversion D; subst.
    destruct (IH c c' d (child_pok n i c H N) D2) as [K P]. split; [|exact P]. exact (keeps_set_child n i c c' H N K).
Qed.

Lemma put_here_pok : forall fo k p s v, i_parents_ok p = true -> i_parents_ok v = true -> keeps p (snd (i_put_here true fo k p s v)).
Proof.
  intros fo k p s v H V. unfold i_put_here.
  assert (INC : forall i c, nth_error (i_ch p) i = Some c ->
                 keeps p (snd (let '(r, c') := i_increment fo c v in (r, iset_child p i c')))).
  { intros i c N. destruct (increment_keeps fo c v) as [E1 [E2 E3]]. destruct (i_increment fo c v) as [r c']. cbn [snd] in *.
    apply (keeps_set_child p i c c' H N). split; [exact E1|]. split; [exact E2|]. rewrite E3. exact (child_pok p i c H N). }
  destruct (i_ty p); try (apply keeps_refl; exact H).
  - destruct (ichild_pos p s) as [i|].
    + destruct (nth_error (i_ch p) i) as [c|] eqn:N; [|apply keeps_refl; exact H].
      destruct (op_eqb k OIncrement); [apply (INC i c N)|]. cbn [snd].
      apply (keeps_set_child p i c _ H N). split; [apply id_copy_data|]. split; [apply par_copy_data | apply pok_copy_data; exact V].
    + destruct (op_eqb k OIncrement); [apply keeps_refl; exact H|]. cbn [snd].
      split; [apply id_add_item|]. split; [apply par_add_item|]. apply pok_add_item; [exact H|]. rewrite pok_set_kl, pok_set_key. exact V.
  - destruct (op_eqb k OIncrement).
    + destruct (ichild_pos p s) as [i|]; [|apply keeps_refl; exact H].
      destruct (nth_error (i_ch p) i) as [c|] eqn:N; [|apply keeps_refl; exact H]. apply (INC i c N).
    + destruct (is_dash s).
      { cbn [snd]. split; [apply id_add_item|]. split; [apply par_add_item | apply pok_add_item; assumption]. }
      destruct (arr_index s) as [idx|]; [|apply keeps_refl; exact H].
      destruct ((idx >? Z.of_nat (length (i_ch p))) || (idx <? 0)); [apply keeps_refl; exact H|].
      destruct (idx <? Z.of_nat (length (i_ch p))); cbn [snd].
      * split; [apply id_set_ch|]. split; [apply par_set_ch|]. rewrite pok_set_ch, forallb_app. rewrite pok_unfold in H.
        rewrite (forallb_firstn _ _ _ _ H). cbn [forallb andb].
        rewrite (kid_ok_adopt (i_id p) (iset_kl v idx)) by (rewrite pok_set_kl; exact V). cbn [andb].
        rewrite (forallb_map_same _ iinc_kl _ (kid_ok_inc (i_id p))). apply (forallb_skipn _ _ _ _ H).
      * split; [apply id_add_item|]. split; [apply par_add_item|]. apply pok_add_item; [exact H|]. rewrite pok_set_kl. exact V.
Qed.

Lemma put_pok : forall fo k v, i_parents_ok v = true -> forall p n r n', i_parents_ok n = true ->
  i_put true fo k n p v = Some (r, n') -> keeps n n'.
Proof.
  intros fo k v V. induction p as [|s r0 IH]; intros n r n' H E.
  - simpl in E. inversion E; subst. apply keeps_refl. exact H.
  - cbn [i_put] in E. destruct r0 as [|s2 r'].
    + inversion E as [E1]. pose proof (put_here_pok fo k n s v H V) as P. rewrite E1 in P. exact P.
    + destruct (ichild_pos n s) as [i|]; [|discriminate]. destruct (nth_error (i_ch n) i) as [c|] eqn:N; [|discriminate].
      destruct (i_put true fo k c (s2 :: r') v) as [[rc0 c']|] eqn:P; [|discriminate]. inversion E; subst.
      apply (keeps_set_child n i c c' H N). eapply IH; [exact (child_pok n i c H N) | exact P].
Qed.

Lemma create_pok : forall fo v, i_parents_ok v = true -> forall p next n, i_parents_ok n = true ->
  keeps n (snd (snd (i_create true fo next n p v))).
Proof.
  intros fo v V. induction p as [|s r IH]; intros next n H.
  - cbn [i_create snd]. apply keeps_refl. exact H.
  - cbn [i_create]. destruct r as [|s2 r'].
    + cbn [snd]. apply put_here_pok; assumption.
    + destruct (ichild_pos n s) as [i|].
      * destruct (nth_error (i_ch n) i) as [c|] eqn:N; [|cbn [snd]; apply keeps_refl; exact H].
        destruct (i_ty c); try (cbn [snd]; apply keeps_refl; exact H).
        specialize (IH next c (child_pok n i c H N)). destruct (i_create true fo next c (s2 :: r') v) as [nx [rc0 c']]. cbn [snd] in *.
        exact (keeps_set_child n i c c' H N IH).
      * cbv zeta. set (pn := INode next 0 (Z.of_nat (length s)) s TObj 0 [] []).
        assert (Hn1 : i_parents_ok (iadd_item n pn) = true) by (apply pok_add_item; [exact H | reflexivity]).
        destruct (nth_error (i_ch (iadd_item n pn)) (length (i_ch n))) as [pn1|] eqn:N1.
        -- specialize (IH (next + 1) pn1 (child_pok _ _ _ Hn1 N1)).
           destruct (i_create true fo (next + 1) pn1 (s2 :: r') v) as [nx [rc0 c']]. cbn [snd] in *.
           destruct (keeps_set_child _ _ _ _ Hn1 N1 IH) as [K1 [K2 K3]].
           split; [rewrite K1; apply id_add_item|]. split; [rewrite K2; apply par_add_item | exact K3].
        -- cbn [snd]. split; [apply id_add_item|]. split; [apply par_add_item | exact Hn1].
Qed.

Lemma put_or_create_pok : forall fo k next t p v, i_parents_ok t = true -> i_parents_ok v = true ->
  keeps t (snd (snd (i_put_or_create true fo k next t p v))).
Proof.
  intros fo k next t p v H V. unfold i_put_or_create. destruct (i_put true fo k t p v) as [[r n']|] eqn:P.
  - cbn [snd]. eapply put_pok; eauto.
  - destruct (op_eqb k OAddCreate); [apply create_pok; assumption | cbn [snd]; apply keeps_refl; exact H].
Qed.

Lemma set_data_at_pok : forall d, i_parents_ok d = true -> forall pos n n', i_parents_ok n = true ->
  i_set_data_at true n pos d = Some n' -> keeps n n'.
Proof.
  intros d D. induction pos as [|i r IH]; intros n n' H S.
  - simpl in S. inversion S; subst. split; [apply id_copy_data|]. split; [apply par_copy_data | apply pok_copy_data; exact D].
  - cbn [i_set_data_at] in S. destruct (nth_error (i_ch n) i) as [c|] eqn:N; [|discriminate].
    destruct (i_set_data_at true c r d) as [c'|] eqn:S2; [|discriminate]. inversion S; subst.
    apply (keeps_set_child n i c c' H N). exact (IH c c' (child_pok n i c H N) S2).
Qed.

Lemma detach_at_pok : forall pos n n', i_parents_ok n = true -> i_detach_at n pos = Some n' -> keeps n n'.
Proof.
  induction pos as [|i r IH]; intros n n' H D; [discriminate|].
  cbn [i_detach_at] in D. destruct (nth_error (i_ch n) i) as [c|] eqn:N; [|discriminate].
  destruct r as [|j r'].
  - inversion D; subst. split; [apply id_remove_item|]. split; [apply par_remove_item | apply pok_remove_item; exact H].
  - destruct (i_detach_at c (j :: r')) as [c'|] eqn:D2; [|discriminate]. inversion D; subst.
    apply (keeps_set_child n i c c' H N). exact (IH c c' (child_pok n i c H N) D2).
Qed.

(* ------------------------------------------------------------------ every operation, every program *)
Ltac fin L := let J1 := fresh "J" in let J2 := fresh "J" in let J3 := fresh "J" in
  destruct L as [J1 [J2 J3]]; cbn [snd]; split; [exact J3 | congruence].

Definition val_pok (o : ipop) : Prop := forall v, ip_val o = Some v -> i_parents_ok v = true.

Theorem apply_op_pok : forall fo next t o, i_parents_ok t = true -> val_pok o ->
  i_parents_ok (snd (snd (i_apply_op true fo next t o))) = true /\ i_id (snd (snd (i_apply_op true fo next t o))) = i_id t.
Proof.
  intros fo next t o H V. unfold i_apply_op.
  assert (KEEP : forall (nx : Z) (r0 : rc), i_parents_ok (snd (snd (nx, (r0, t)))) = true /\ i_id (snd (snd (nx, (r0, t)))) = i_id t).
  { intros. cbn [snd]. auto. }
  assert (KP : forall t' (x : Z * (rc * inode)), keeps t t' -> snd (snd x) = t' ->
               i_parents_ok (snd (snd x)) = true /\ i_id (snd (snd x)) = i_id t).
  { intros t' x [K1 [K2 K3]] E. rewrite E. auto. }
  destruct (op_eqb (ip_op o) OSwap && match ip_from o with Some [] => true | _ => false end); [apply KEEP|].
  destruct (op_eqb (ip_op o) OTest).
  { destruct (ip_val o) as [v|]; [|apply KEEP].
    destruct (if is_root (ip_path o) then Some t else i_find t (ip_path o)) as [x|]; [|apply KEEP].
    destruct (nodes_eq fo (iforget x) (iforget v)); apply KEEP. }
  destruct (is_root (ip_path o)).
  { destruct (op_eqb (ip_op o) ORemove); [cbn [snd]; destruct t; split; reflexivity|].
    destruct (op_eqb (ip_op o) OReplace || op_eqb (ip_op o) OAdd || op_eqb (ip_op o) OAddCreate).
    { destruct (ip_val o) as [v|] eqn:EV; [|apply KEEP]. cbn [snd].
      split; [apply pok_copy_data; exact (V v EV) | apply id_copy_data]. }
    destruct (op_eqb (ip_op o) OMove || op_eqb (ip_op o) OCopy); [|apply KEEP].
    destruct (ip_from o) as [[|s r]|]; try apply KEEP.
    destruct (i_find t (s :: r)) as [v|] eqn:FV; [|apply KEEP]. cbn [snd].
    split; [apply pok_copy_data; exact (find_pok _ _ _ H FV) | apply id_copy_data]. }
  assert (T1 : forall t1, (if op_eqb (ip_op o) ORemove || op_eqb (ip_op o) OReplace
                           then match i_detach t (ip_path o) with None => None | Some (t', _) => Some t' end else Some t) = Some t1 ->
                          keeps t t1).
  { intros t1 E. destruct (op_eqb (ip_op o) ORemove || op_eqb (ip_op o) OReplace); [|inversion E; subst; apply keeps_refl; exact H].
    destruct (i_detach t (ip_path o)) as [[t' d]|] eqn:D; [|discriminate]. inversion E; subst. apply (detach_pok _ _ _ _ H D). }
  destruct (if op_eqb (ip_op o) ORemove || op_eqb (ip_op o) OReplace
            then match i_detach t (ip_path o) with None => None | Some (t', _) => Some t' end else Some t) as [t1|]; [|apply KEEP].
  specialize (T1 t1 eq_refl). destruct T1 as [I1 [I2 H1]].
  assert (KEEP1 : forall (nx : Z) (r0 : rc), i_parents_ok (snd (snd (nx, (r0, t1)))) = true /\ i_id (snd (snd (nx, (r0, t1)))) = i_id t).
  { intros. cbn [snd]. auto. }
  assert (KP1 : forall t' (x : Z * (rc * inode)), keeps t1 t' -> snd (snd x) = t' ->
               i_parents_ok (snd (snd x)) = true /\ i_id (snd (snd x)) = i_id t).
  { intros t' x [K1 [K2 K3]] E. rewrite E. split; [exact K3 | congruence]. }
  destruct (op_eqb (ip_op o) ORemove); [apply KEEP1|].
  destruct ((op_eqb (ip_op o) OMove || op_eqb (ip_op o) OCopy || op_eqb (ip_op o) OSwap) &&
            match ip_from o with None => true | _ => false end); [apply KEEP1|].
  destruct (op_eqb (ip_op o) OMove).
  { destruct (match ip_from o with None => None | Some f => i_detach t1 f end) as [[t2 v]|] eqn:D; [|apply KEEP1].
    assert (D' : exists f, i_detach t1 f = Some (t2, v)) by (destruct (ip_from o) as [f|]; [exists f; exact D | discriminate]).
    destruct D' as [f Df]. destruct (detach_pok _ _ _ _ H1 Df) as [[J1 [J2 J3]] PV].
    destruct (put_or_create_pok fo (ip_op o) next t2 (ip_path o) v J3 PV) as [K1 [K2 K3]]. split; [exact K3 | congruence]. }
  destruct (op_eqb (ip_op o) OCopy).
  { destruct (match ip_from o with None => None | Some f => i_find t1 f end) as [v|]; [|apply KEEP1].
    pose proof (clone_pok next 0 v) as CP. destruct (i_clone next 0 v) as [nx cv]. cbn [snd] in CP.
    fin (put_or_create_pok fo (ip_op o) nx t1 (ip_path o) cv H1 CP). }
  destruct (op_eqb (ip_op o) OSwap).
  2:{ destruct (ip_val o) as [v|] eqn:EV; [|apply KEEP1].
      fin (put_or_create_pok fo (ip_op o) next t1 (ip_path o) v H1 (V v EV)). }
  destruct (ip_from o) as [f|]; [|apply KEEP1].
  destruct (seg_nested f (ip_path o)); [apply KEEP1|].
  destruct (i_find t1 f) as [v|] eqn:FV; [|apply KEEP1].
  pose proof (find_pok _ _ _ H1 FV) as PV.
  destruct (i_locate t1 f) as [pf|]; [|apply KEEP1].
  destruct (swap_target (iforget t1) (ip_path o)) as [[pp [[i cn]|]]|]; [| |apply KEEP1].
  - destruct (i_get_at t1 (pp ++ [i])) as [c|] eqn:GC; [|apply KEEP1].
    pose proof (get_at_pok _ _ _ H1 GC) as PC.
    destruct (pos_eqb pf (pp ++ [i])); [apply KEEP1|].
    destruct (pos_prefix pf (pp ++ [i])).
    { destruct (i_set_data_at true t1 pf c) as [t2|] eqn:S1; [|apply KEEP1]. fin (set_data_at_pok c PC _ _ _ H1 S1). }
    destruct (pos_prefix (pp ++ [i]) pf).
    { destruct (i_set_data_at true t1 (pp ++ [i]) v) as [t2|] eqn:S1; [|apply KEEP1]. fin (set_data_at_pok v PV _ _ _ H1 S1). }
    destruct (i_set_data_at true t1 pf c) as [t2|] eqn:S1; [|apply KEEP1].
    destruct (set_data_at_pok c PC _ _ _ H1 S1) as [J1 [J2 J3]].
    destruct (i_set_data_at true t2 (pp ++ [i]) v) as [t3|] eqn:S2; [|apply KEEP1].
    destruct (set_data_at_pok v PV _ _ _ J3 S2) as [L1 [L2 L3]]. cbn [snd]. split; [exact L3 | congruence].
  - pose proof (put_or_create_pok fo (ip_op o) next t1 (ip_path o) v H1 PV) as [K1 [K2 K3]].
    destruct (i_put_or_create true fo (ip_op o) next t1 (ip_path o) v) as [nx [r0 t2]]. cbn [snd] in K1, K2, K3.
    destruct r0; try (cbn [snd]; split; [exact K3 | congruence]).
    destruct (pos_prefix pf pp).
    + destruct (i_detach_at t1 pf) as [t3|] eqn:DA; [|apply KEEP1]. fin (detach_at_pok _ _ _ H1 DA).
    + destruct (i_detach_at t2 pf) as [t3|] eqn:DA; [|apply KEEP1].
      destruct (detach_at_pok _ _ _ K3 DA) as [L1 [L2 L3]]. cbn [snd]. split; [exact L3 | congruence].
Qed.

Theorem apply_ops_pok : forall fo l next t, i_parents_ok t = true -> Forall val_pok l ->
  i_parents_ok (snd (snd (i_apply_ops true fo next t l))) = true.
Proof.
  intros fo. induction l as [|o l IH]; intros next t H V; [exact H|].
  inversion V as [|? ? Vo Vl]; subst. cbn [i_apply_ops]. destruct (apply_op_pok fo next t o H Vo) as [A _].
  destruct (i_apply_op true fo next t o) as [nx [r t']]. cbn [snd] in A.
  destruct r; try exact A. apply IH; assumption.
Qed.
