(* C16 - statements only (stub while the proofs are being written) *)
Require Import ZArith List. Require Import IW.JSON.Patch.
Theorem C16_stub : forall n : node, n = n. Proof. reflexivity. Qed.
Print Assumptions C16_stub.
