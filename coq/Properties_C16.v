(* C16 - JSON Merge Patch gives the RFC 7386 result.  Statements only.
   Model: IW.JSON.Merge over IW.JSON.Mem (the code with fixes/jpatch-merge-{doublefree,leak,rc,nonobject}.diff applied);
   specification: merge_spec in IW.JSON.PatchSpec (the MergePatch function of rfc7386 section 2).
   `good n` = klidx invariant of C15 (cached key length = length of the member name, ...) and no JBV_NONE node;
   every tree built by jbn_from_json / from the binary form is good (C16_parsed_documents_good). *)
Require Import ZArith List Bool Permutation.
Require Import IW.Lib.CInt IW.UT.Conv IW.JSON.Val IW.JSON.Patch IW.JSON.PatchSpec IW.JSON.Patch_proofs
               IW.JSON.Mem IW.JSON.Merge IW.JSON.Merge_proofs IW.Gen.Facts IW.JSON.Binn IW.JSON.WriteBack IW.JSON.WriteBack_proofs
               IW.JSON.PatchExt_proofs IW.JSON.MergePath_proofs.
Import ListNotations. Local Open Scope Z_scope.

Theorem C16_parsed_documents_good : forall v kl key, good (of_val kl key v) /\ val (of_val kl key v) = v.
Proof. intros v kl key. split; [apply of_val_good | apply of_val_inv]. Qed.
Print Assumptions C16_parsed_documents_good.

(* _jbl_merge_patch_node with a pool, for ALL (target, patch) pairs - absent target, nested nulls, type changes at any
   depth, empty objects, names that are prefixes of one another (the code compares klidx and strncmp: under `good`
   that is equality of the names, lemma mkey_match_spec) *)
Theorem C16_merge_rfc7386 : forall t p, opt_good t -> good p ->
  val (merge_pool t p) = merge_spec (option_map val t) (val p) /\ good (merge_pool t p).
Proof. exact merge_pool_rfc7386. Qed.
Print Assumptions C16_merge_rfc7386.

(* jbn_merge_patch: success with the RFC value, or IW_ERROR_INVALID_ARGS for a non-object root/patch with the root
   untouched (the failure is reported) *)
Theorem C16_jbn_merge_patch_rfc7386 : forall root patch, good root -> good patch ->
  match jbn_merge_patch_pool root patch with
  | (RcOk, r) => val r = merge_spec (Some (val root)) (val patch) /\ good r
  | (_, r) => r = root /\ (n_ty root <> TObj \/ n_ty patch <> TObj)
  end.
Proof. exact jbn_merge_patch_pool_rfc7386. Qed.
Print Assumptions C16_jbn_merge_patch_rfc7386.

(* heap mode (pool == 0) over the ownership heap: for every heap h whose live allocations are those of the target
   plus a frame F, the merge finishes without DoubleFree / UseAfterFree, the live allocations afterwards are exactly
   those of the result plus F (nothing leaked, nothing freed that is still referenced), freeing the result returns
   the heap to F, and the value is MergePatch(target, patch).
   FALSE of the unfixed code: target {"a":"str"}, patch {"a":{"b":1}} => DoubleFree (notes/jpatch.md; reproduced
   on the real code under ASan: "attempting double-free"). *)
Theorem C16_merge_heap_safe : forall h root patch F, good (forget root) -> good patch ->
  Permutation (h_live h) (owns root ++ F) ->
  exists rc h' root', jbn_merge_patch_heap h root patch = inr (rc, h', root') /\
    Permutation (h_live h') (owns root' ++ F) /\
    (exists h'', destroy h' root' = inr h'' /\ Permutation (h_live h'') F) /\
    (rc = RcOk -> val (forget root') = merge_spec (Some (val (forget root))) (val patch) /\ good (forget root')) /\
    (rc <> RcOk -> root' = root /\ h' = h).
Proof. exact merge_heap_safe. Qed.
Print Assumptions C16_merge_heap_safe.

(* the malloc-ed copy of a document (jbn_clone(doc, &t, 0)) satisfies the hypotheses of C16_merge_heap_safe *)
Theorem C16_heap_of_ok : forall doc, good doc ->
  Permutation (h_live (fst (heap_of doc))) (owns (snd (heap_of doc)) ++ []) /\
  good (forget (snd (heap_of doc))) /\ val (forget (snd (heap_of doc))) = val doc.
Proof. exact heap_of_ok. Qed.
Print Assumptions C16_heap_of_ok.

(* pool / text / auto / heap entry points give the same value, namely MergePatch *)
Theorem C16_merge_variants_agree : forall h root hroot patch F,
  good root -> n_ty root = TObj -> good patch -> n_ty patch = TObj ->
  good (forget hroot) -> val (forget hroot) = val root -> hn_ty hroot = TObj ->
  Permutation (h_live h) (owns hroot ++ F) ->
  let spec := merge_spec (Some (val root)) (val patch) in
  (exists r, jbn_merge_patch_pool root patch = (RcOk, r) /\ val r = spec) /\
  val (jbn_merge_patch_node root patch) = spec /\
  (forall fo, exists r, jbn_patch_auto fo root patch = (RcOk, r) /\ val r = spec) /\
  (exists h' r, jbn_merge_patch_heap h hroot patch = inr (RcOk, h', r) /\ val (forget r) = spec).
Proof. exact merge_variants_agree. Qed.
Print Assumptions C16_merge_variants_agree.

(* jbl_merge_patch: any patch (object or not), for conversions dec/enc that are inverse on values *)
Theorem C16_merge_binary_rfc7386 : forall (B : Type) (dec : B -> node) (enc : node -> option B) b patch,
  (forall b0, good (dec b0)) ->
  (forall n, good n -> exists b', enc n = Some b' /\ val (dec b') = val n) ->
  good patch ->
  exists b', merge_binary B dec enc b patch = (RcOk, b') /\ val (dec b') = merge_spec (Some (val (dec b))) (val patch).
Proof. exact merge_binary_rfc7386. Qed.
Print Assumptions C16_merge_binary_rfc7386.

(* jbn_merge_patch_path: merging {seg1:{seg2:...value}} (an empty object at the end when no value is given) *)
Theorem C16_merge_path_rfc7386 : forall root path segs v, good root -> n_ty root = TObj -> opt_good v ->
  path <> [] -> path <> [47] -> ptr_parse path = PtrOk segs ->
  exists r, jbn_merge_patch_path_pool root path v = (RcOk, r) /\
            val r = merge_spec (Some (val root)) (JObj (wrap_val segs (option_map val v))).
Proof. exact merge_path_rfc7386. Qed.
Print Assumptions C16_merge_path_rfc7386.

(* ---- the hypotheses are satisfiable by non-trivial states *)
Definition s (l : list Z) := JStr l.
(* rfc7386 section 3: {"a":"b","c":{"d":"e","f":"g"}} with {"a":"z","c":{"f":null}} is {"a":"z","c":{"d":"e"}} *)
Definition ex_target : jval := JObj [([97], s [98]); ([99], JObj [([100], s [101]); ([102], s [103])])].
Definition ex_patch : jval := JObj [([97], s [122]); ([99], JObj [([102], JNull)])].
Definition ex_result : jval := JObj [([97], s [122]); ([99], JObj [([100], s [101])])].

Example C16_ex_rfc_section3 :
  good (of_val 0 [] ex_target) /\ good (of_val 0 [] ex_patch) /\
  merge_spec (Some ex_target) ex_patch = ex_result /\
  val (merge_pool (Some (of_val 0 [] ex_target)) (of_val 0 [] ex_patch)) = ex_result.
Proof. split; [apply of_val_good | split; [apply of_val_good | split; reflexivity]]. Qed.

(* the double-free witness on the fixed model: {"a":"str"} with {"a":{"b":1}} in heap mode runs clean, the result is
   {"a":{"b":1}}, and freeing it leaves no live allocation *)
Example C16_ex_heap_string_to_object :
  let doc := of_val 0 [] (JObj [([97], s [115;116;114])]) in
  let patch := of_val 0 [] (JObj [([97], JObj [([98], JI64 1)])]) in
  good doc /\ good patch /\
  match jbn_merge_patch_heap (fst (heap_of doc)) (snd (heap_of doc)) patch with
  | inr (RcOk, h', r) => val (forget r) = JObj [([97], JObj [([98], JI64 1)])] /\
                         match destroy h' r with inr h'' => h_live h'' = [] | inl _ => False end
  | _ => False
  end.
Proof. cbv zeta. split; [apply of_val_good | split; [apply of_val_good | vm_compute; split; reflexivity]]. Qed.

(* a container replaced by a scalar and an array replaced by an object: nothing leaks *)
Example C16_ex_heap_no_leak :
  let doc := of_val 0 [] (JObj [([97], JArr [JI64 1; s [120]]); ([98], JObj [([122], JArr [s [115]])])]) in
  let patch := of_val 0 [] (JObj [([97], JObj [([113], JNull)]); ([98], JI64 5)]) in
  match jbn_merge_patch_heap (fst (heap_of doc)) (snd (heap_of doc)) patch with
  | inr (RcOk, h', r) => val (forget r) = JObj [([97], JObj []); ([98], JI64 5)] /\
                         match destroy h' r with inr h'' => h_live h'' = [] | inl _ => False end
  | _ => False
  end.
Proof. vm_compute. split; reflexivity. Qed.

(* ================================================================== the write-back step of jbl_merge_patch / jbl_merge_patch_jbl
   (added after seeded change round5/C16: _jbl_from_node_impl dropped a refused member and went on, the call returned 0).
   C16_merge_binary_rfc7386 above assumes a writer that never fails; the real one (WriteBack.v: wb_enc = _jbl_from_node_impl with
   the member rule of the binn object, see C15_binn_name_clash_is_case_fold / C15_representable_names) fails on names longer than
   JP_BINN_KEY_MAX bytes and on names equal to an earlier one up to ASCII letter case.  For ALL (target, patch): *)
Theorem C16_merge_writeback : forall b patch, good b -> good patch ->
  jbl_merge_model b patch =
  if representable (merge_spec (Some (val b)) (val patch))
  then (RcOk, of_val 0 [] (merge_spec (Some (val b)) (val patch)))
  else (RcCreation, b).
Proof. exact merge_writeback. Qed.
Print Assumptions C16_merge_writeback.

(* success => the document is MergePatch(target, patch), no member left out *)
Theorem C16_merge_success_is_rfc7386 : forall b patch b', good b -> good patch ->
  jbl_merge_model b patch = (RcOk, b') -> val b' = merge_spec (Some (val b)) (val patch) /\ good b'.
Proof. exact merge_success_is_rfc7386. Qed.
Print Assumptions C16_merge_success_is_rfc7386.

(* failure => the document is the one passed in *)
Theorem C16_merge_failure_unchanged : forall b patch,
  fst (jbl_merge_model b patch) <> RcOk -> snd (jbl_merge_model b patch) = b.
Proof. exact merge_failure_unchanged. Qed.
Print Assumptions C16_merge_failure_unchanged.

(* {"name":"n"} with {"Name":"N","z":2} (the seeder's scenario: the refused member is not the last one): MergePatch has both
   names, the binary form cannot hold it, JBL_ERROR_CREATION and the document as before; with {"Name":"N","name":null} the
   old name goes away first and the call succeeds *)
Example C16_ex_writeback_twin :
  let name := [110;97;109;101] in let Name := [78;97;109;101] in
  let doc := of_val 0 [] (JObj [(name, s [110])]) in
  let p1 := of_val 0 [] (JObj [(Name, s [78]); ([122], JI64 2)]) in
  let p2 := of_val 0 [] (JObj [(Name, s [78]); (name, JNull)]) in
  good doc /\ good p1 /\ good p2 /\
  merge_spec (Some (val doc)) (val p1) = JObj [(name, s [110]); (Name, s [78]); ([122], JI64 2)] /\
  val (jbn_merge_patch_node doc p1) = JObj [(name, s [110]); (Name, s [78]); ([122], JI64 2)] /\
  jbl_merge_model doc p1 = (RcCreation, doc) /\
  jbl_merge_model doc p2 = (RcOk, of_val 0 [] (JObj [(Name, s [78])])).
Proof. cbv zeta. split; [apply of_val_good | split; [apply of_val_good | split; [apply of_val_good | repeat split; vm_compute; reflexivity]]]. Qed.

(* a 256-byte name at depth 2, in an object that is not the last member of its parent *)
Example C16_ex_writeback_long_name :
  let doc := of_val 0 [] (JObj [([97], JObj [([120], JI64 1)]); ([98], JI64 2)]) in
  let p n := of_val 0 [] (JObj [([97], JObj [(repeat 107 n, JI64 3); ([122], JI64 4)])]) in
  (exists b', jbl_merge_model doc (p 255%nat) = (RcOk, b')) /\ jbl_merge_model doc (p 256%nat) = (RcCreation, doc).
Proof. cbv zeta. split; [eexists|]; vm_compute; reflexivity. Qed.

(* ================================================================== deepening round: the path form and the registry entry
   points inside the ownership model, for EVERY target, EVERY path text and EVERY value (C16_merge_path_rfc7386 above assumed an
   object root, a parsed pointer and the pool mode). *)

(* jbn_merge_patch_create: "" and "/" hand the value on; an unacceptable pointer (not rfc6901, or ending in "/") is
   JBL_ERROR_JSON_POINTER; otherwise the patch is the wrapper object {seg1:{seg2:...value}} - an empty object at the end when
   no value is given *)
Theorem C16_merge_path_create_total : forall path v, opt_good v ->
  match merge_patch_create path v with
  | inl e => e = RcPtr /\ lib_ptr path = None
  | inr None => v = None /\ (path = [] \/ path = [47])
  | inr (Some p) => good p /\
                    (((path = [] \/ path = [47]) /\ v = Some p) \/
                     (exists segs, lib_ptr path = Some segs /\ path <> [] /\ path <> [47] /\ n_ty p = TObj /\
                                   val p = JObj (wrap_val segs (option_map val v))))
  end.
Proof. exact merge_patch_create_spec. Qed.
Print Assumptions C16_merge_path_create_total.

(* pool mode: nothing is freed individually; the result is MergePatch(root, wrapper) or the root is untouched *)
Theorem C16_merge_path_pool_total : forall root path v, good root -> opt_good v ->
  match jbn_merge_patch_path_pool root path v with
  | (RcOk, r) => exists p, merge_patch_create path v = inr (Some p) /\
                           val r = merge_spec (Some (val root)) (val p) /\ good r
  | (_, r) => r = root
  end.
Proof. exact merge_path_pool_total. Qed.
Print Assumptions C16_merge_path_pool_total.

(* heap mode (pool == 0; the wrapper lives in a private pool): every allocation made by the call is reachable from the result or
   was freed exactly once - live allocations afterwards = those of the result + the frame, no DoubleFree / UseAfterFree, freeing the
   result returns the heap to the frame; failure (bad pointer, non-object root or value at the root path) changes nothing *)
Theorem C16_merge_path_heap_safe : forall h root path v F, good (forget root) -> opt_good v ->
  Permutation (h_live h) (owns root ++ F) ->
  exists rc h' root', jbn_merge_patch_path_heap h root path v = inr (rc, h', root') /\
    Permutation (h_live h') (owns root' ++ F) /\
    (exists h'', destroy h' root' = inr h'' /\ Permutation (h_live h'') F) /\
    (rc = RcOk -> exists p, merge_patch_create path v = inr (Some p) /\ n_ty p = TObj /\ hn_ty root = TObj /\
                            val (forget root') = merge_spec (Some (val (forget root))) (val p) /\ good (forget root')) /\
    (rc <> RcOk -> root' = root /\ h' = h).
Proof. exact merge_path_heap_safe. Qed.
Print Assumptions C16_merge_path_heap_safe.

(* iwjsreg_merge (and iwjsreg_merge_str/_i64/_f64/_bool/_remove, whose value is a scalar node on the caller's stack): the registry's
   heap-allocated tree; the dirty flag is set by a successful call and only by it *)
Theorem C16_iwjsreg_merge_safe : forall h root dirty path v F, good (forget root) -> opt_good v ->
  Permutation (h_live h) (owns root ++ F) ->
  exists rc h' root' dirty', iwjsreg_merge_model h root dirty path v = inr (rc, h', root', dirty') /\
    Permutation (h_live h') (owns root' ++ F) /\
    (exists h'', destroy h' root' = inr h'' /\ Permutation (h_live h'') F) /\
    (rc = RcOk -> dirty' = true /\
                  exists p, merge_patch_create path v = inr (Some p) /\
                            val (forget root') = merge_spec (Some (val (forget root))) (val p) /\ good (forget root')) /\
    (rc <> RcOk -> root' = root /\ h' = h /\ dirty' = dirty).
Proof. exact iwjsreg_merge_safe. Qed.
Print Assumptions C16_iwjsreg_merge_safe.

(* a registry {"a":{"b":"old","k":[1,"s"]},"c":"str"}: iwjsreg_merge_str at /a/b replaces the string (the old one is freed),
   iwjsreg_merge_remove at /a/k frees the array with its string item, merging {"n":1} at /c/x turns the string member into an
   object; each time the tree owns exactly the live allocations, and a path ending in "/" changes nothing and leaves dirty = false *)
Example C16_ex_registry :
  let doc := of_val 0 [] (JObj [([97], JObj [([98], s [111;108;100]); ([107], JArr [JI64 1; s [115]])]); ([99], s [115;116;114])]) in
  let h0 := fst (heap_of doc) in let r0 := snd (heap_of doc) in
  good (forget r0) /\ Permutation (h_live h0) (owns r0 ++ []) /\
  match iwjsreg_merge_scalar h0 r0 false [47;97;47;98] TStr 0 [110;101;119] with
  | inr (RcOk, h1, r1, true) =>
    val (forget r1) = JObj [([97], JObj [([98], s [110;101;119]); ([107], JArr [JI64 1; s [115]])]); ([99], s [115;116;114])] /\
    match iwjsreg_merge_scalar h1 r1 false [47;97;47;107] TNull 0 [] with
    | inr (RcOk, h2, r2, true) =>
      val (forget r2) = JObj [([97], JObj [([98], s [110;101;119])]); ([99], s [115;116;114])] /\
      match iwjsreg_merge_model h2 r2 false [47;99;47;120] (Some (of_val 0 [] (JObj [([110], JI64 1)]))) with
      | inr (RcOk, h3, r3, true) =>
        val (forget r3) = JObj [([97], JObj [([98], s [110;101;119])]); ([99], JObj [([120], JObj [([110], JI64 1)])])] /\
        iwjsreg_merge_model h3 r3 false [47;99;47] None = inr (RcPtr, h3, r3, false) /\
        match destroy h3 r3 with inr h4 => h_live h4 = [] | inl _ => False end
      | _ => False
      end
    | _ => False
    end
  | _ => False
  end.
Proof.
  cbv zeta. destruct (heap_of_ok (of_val 0 [] (JObj [([97], JObj [([98], s [111;108;100]); ([107], JArr [JI64 1; s [115]])]); ([99], s [115;116;114])]))
                                 (of_val_good _ _ _)) as [A [B _]].
  split; [exact B|]. split; [exact A|]. vm_compute. repeat split; reflexivity.
Qed.

(* member names are compared over their whole cached length (memcmp since 662df5e): a target member is taken for a patch member iff
   the two names are the same bytes - zero bytes included, unconditionally *)
Theorem C16_name_compare : forall pc c, key_ok pc -> key_ok c -> (mkey_match pc c = true <-> n_key c = n_key pc).
Proof.
  intros pc c Kp Kc. rewrite (mkey_match_spec pc c Kp), (key_match_spec (n_key pc) c Kc). apply bytes_eqb_eq.
Qed.
Print Assumptions C16_name_compare.

(* the comparison of before 662df5e (mkey_match_c: strncmp, which stops at a zero byte) agreed with it on names without a zero byte
   and not otherwise: {"a\u0000b":1} merged with {"a\u0000c":2} gave {"a\u0000b":2} *)
Theorem C16_name_compare_nul_free : forall pc c, Forall (fun x => x <> 0) (n_key c) -> mkey_match_c pc c = mkey_match pc c.
Proof. exact mkey_match_c_nul_free. Qed.
Print Assumptions C16_name_compare_nul_free.

Theorem C16_name_compare_nul_refuted : exists c pc, good c /\ good pc /\ key_ok c /\ key_ok pc /\ n_key c <> n_key pc /\
  mkey_match_c pc c = true /\ mkey_match pc c = false.
Proof. exact merge_name_nul_refuted. Qed.
Print Assumptions C16_name_compare_nul_refuted.
