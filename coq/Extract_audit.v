Require Import ZArith List. Require Extraction. Require Import ExtrOcamlBasic.
Require Import IW.KV.Audit IW.KV.Codec IW.KV.Records.
Extraction "m.ml" Z.add Z.mul Z.sub Z.div_eucl Z.compare Z.of_nat Z.to_nat Z.opp audit struct_db recode_all db_recs db_canonical.
