(* C19 - statements only. *)
Require Import ZArith List. Require Import IW.Lib.CInt IW.Lib.Vnum IW.Lib.Vnum_proofs IW.Gen.Facts.
Import ListNotations. Local Open Scope Z_scope.

Theorem C19_vnum64_roundtrip : forall n rest, 0 <= n < 2^63 ->
  read_vnum (set_vnum64 n ++ rest) = Some (n, length (set_vnum64 n)) /\ set_vnum64 n <> [].
Proof. exact vnum64_roundtrip. Qed.
Print Assumptions C19_vnum64_roundtrip.

Theorem C19_vnum32_roundtrip : forall n rest, 0 <= n < 2^31 ->
  read_vnum (set_vnum32 n ++ rest) = Some (n, length (set_vnum32 n)) /\ set_vnum32 n <> [].
Proof. exact vnum32_roundtrip. Qed.
Print Assumptions C19_vnum32_roundtrip.

Theorem C19_vnum64_size : forall n, 0 <= n < 2^63 -> Z.of_nat (length (set_vnum64 n)) = IW_VNUMSIZE n.
Proof. exact vnum64_size. Qed.
Print Assumptions C19_vnum64_size.

Theorem C19_vnum64_rejects : forall n, 2^63 <= n < 2^64 -> set_vnum64 n = [].
Proof. exact vnum64_rejects. Qed.
Print Assumptions C19_vnum64_rejects.
