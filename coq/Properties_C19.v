(* C19 - statements only. *)
Require Import ZArith List. Require Import IW.Lib.CInt IW.Lib.Vnum IW.Lib.Vnum_proofs IW.Gen.Facts.
Import ListNotations. Local Open Scope Z_scope.

Theorem C19_vnum64_roundtrip : forall n rest, 0 <= n < 2^63 ->
  read_vnum (set_vnum64 n ++ rest) = Some (n, length (set_vnum64 n)) /\ set_vnum64 n <> [].
Proof. exact vnum64_roundtrip. Qed.
Print Assumptions C19_vnum64_roundtrip.

Theorem C19_vnum32_roundtrip : forall n rest, 0 <= n < 2^31 ->
  read_vnum (set_vnum32 n ++ rest) = Some (n, length (set_vnum32 n)) /\ set_vnum32 n <> [].
Proof. exact vnum32_roundtrip. Qed.
Print Assumptions C19_vnum32_roundtrip.

Theorem C19_vnum64_size : forall n, 0 <= n < 2^63 -> Z.of_nat (length (set_vnum64 n)) = IW_VNUMSIZE n.
Proof. exact vnum64_size. Qed.
Print Assumptions C19_vnum64_size.

Theorem C19_vnum64_rejects : forall n, 2^63 <= n < 2^64 -> set_vnum64 n = [].
Proof. exact vnum64_rejects. Qed.
Print Assumptions C19_vnum64_rejects.

(* ---- integer <-> text ---- *)
Require Import IW.UT.Conv IW.UT.Conv_proofs IW.JSON.TextSpec IW.JSON.Text.
(* iwatoi reads back the decimal text of every 64-bit value (INT64_MIN included: the wrap-around of the C code is explicit) *)
Theorem C19_atoi_dec : forall n, - 2 ^ 63 <= n < 2 ^ 63 -> atoi (dec n) = n.
Proof. exact atoi_dec. Qed.
Print Assumptions C19_atoi_dec.
(* iwitoa with the library's number buffer writes that text without leaving the buffer, and iwatoi inverts it *)
Theorem C19_itoa_atoi : forall n, - 2 ^ 63 <= n < 2 ^ 63 -> exists t, write_int n = Ok t /\ atoi t = n.
Proof. exact itoa_atoi. Qed.
Print Assumptions C19_itoa_atoi.
(* PARTIAL: `itoa_in_bounds` for every buffer size (the model UT/Conv.v returns None on any access outside [0, max)) is
   compared with the implementation for all sizes 0..64 on every run (guard bytes around the buffer), not proved. *)

(* ---- hex ---- *)
Theorem C19_hex_roundtrip : forall l, Forall (fun b => 0 <= b < 256) l -> hex2bin (bin2hex l) = l.
Proof. exact hex_roundtrip. Qed.
Print Assumptions C19_hex_roundtrip.

(* ---- comparators: byte keys of plain databases are a strict total order, equal only when identical ---- *)
Require Import IW.KV.Keys IW.KV.Inst IW.KV.Keys_proofs.
Theorem C19_plain_cmp_total_order :
  (forall a b : key, cmp_of plain a b = CompOpp (cmp_of plain b a)) /\
  (forall a b c : key, cmp_of plain a b = Lt -> cmp_of plain b c = Lt -> cmp_of plain a c = Lt) /\
  (forall a b : key, cmp_of plain a b = Eq <-> fst a = fst b).
Proof. split; [exact plain_cmp_antisym|]. split; [exact plain_cmp_trans|exact plain_cmp_eq_iff]. Qed.
Print Assumptions C19_plain_cmp_total_order.
(* integer keys: a total preorder on arbitrary stored bytes, and numeric order on valid encodings *)
Theorem C19_intkey_cmp_order :
  (forall a b : key, cmp_of vnummode a b = CompOpp (cmp_of vnummode b a)) /\
  (forall a b c : key, cmp_of vnummode a b = Lt -> cmp_of vnummode b c = Lt -> cmp_of vnummode a c = Lt) /\
  (forall x y : Z, 0 <= x < 2 ^ 63 -> 0 <= y < 2 ^ 63 ->
     (cmp_of vnummode (set_vnum64 x, 0) (set_vnum64 y, 0) = Lt <-> x > y)).
Proof. split; [exact vnum_cmp_antisym|]. split; [exact vnum_cmp_trans|exact vnum_cmp_numeric]. Qed.
Print Assumptions C19_intkey_cmp_order.
(* compound keys on byte strings (stored form: varint of the compound part, then the bytes): a strict total order on the
   keys whose compound part is encodable - bytes lexicographically, then the compound part (greater first) *)
Require Import IW.KV.KeysCompound_proofs.
Theorem C19_compound_cmp_total_order :
  (forall a b : ckey, ckey_cmp a b = CompOpp (ckey_cmp b a)) /\
  (forall a b c : ckey, ckey_cmp a b = Lt -> ckey_cmp b c = Lt -> ckey_cmp a c = Lt) /\
  (forall a b : ckey, ckey_cmp a b = Eq <-> proj1_sig a = proj1_sig b) /\
  (forall a b : ckey, ckey_cmp a b = Lt <-> (bcmp (fst (proj1_sig b)) (fst (proj1_sig a)) = Lt
                                            \/ (fst (proj1_sig b) = fst (proj1_sig a) /\ snd (proj1_sig a) > snd (proj1_sig b)))).
Proof.
  split; [exact compound_cmp_antisym|]. split; [exact compound_cmp_trans|]. split; [exact compound_cmp_eq_iff|exact compound_cmp_order].
Qed.
Print Assumptions C19_compound_cmp_total_order.
(* the cached prefix: what _lx_sblk_cmp_key decides from the first 115 bytes of a node's lowest key (loading the complete
   key when the cached part is inconclusive) is what the comparison with the complete stored key decides - for every stored
   key and every look-up key, of any length *)
Theorem C19_prefix_shortcut_plain : forall (skey kd : list Z) (kc : Z),
  sgnc (sblk_cmp_key_full memcmp plain skey kd kc) = sgnc (cmp_keys memcmp plain skey kd kc).
Proof. exact prefix_shortcut_plain. Qed.
Print Assumptions C19_prefix_shortcut_plain.
Theorem C19_prefix_shortcut_compound : forall (c : Z) (d kd : list Z) (kc : Z), 0 <= c < 2 ^ 63 ->
  sgnc (sblk_cmp_key_full memcmp cmode (set_vnum64 c ++ d) kd kc) = sgnc (cmp_keys memcmp cmode (set_vnum64 c ++ d) kd kc).
Proof. exact prefix_shortcut_compound. Qed.
Print Assumptions C19_prefix_shortcut_compound.
(* real-number keys: iwafcmp is a total preorder on arbitrary byte strings, equal only on identical texts; the order is
   (integer part, fraction as a rational, bytes) *)
Require Import IW.KV.KeysReal_proofs.
Theorem C19_realkey_cmp_order :
  (forall a b : key, cmp_of realmode a b = CompOpp (cmp_of realmode b a)) /\
  (forall a b c : key, cmp_of realmode a b = Lt -> cmp_of realmode b c = Lt -> cmp_of realmode a c = Lt) /\
  (forall a b : key, cmp_of realmode a b = Eq <-> fst a = fst b).
Proof. split; [exact real_cmp_antisym|]. split; [exact real_cmp_trans|exact real_cmp_eq_iff]. Qed.
Print Assumptions C19_realkey_cmp_order.
(* typed keys with a compound part, on the keys the API can produce (non-empty, encodable compound part, integer keys of
   1..10 bytes): total preorders, the typed part first, then the compound part (greater first) *)
Require Import IW.KV.KeysCompound2_proofs.
Theorem C19_typed_compound_cmp_order :
  (forall a b : rckey, rckey_cmp a b = CompOpp (rckey_cmp b a)) /\
  (forall a b c : rckey, rckey_cmp a b = Lt -> rckey_cmp b c = Lt -> rckey_cmp a c = Lt) /\
  (forall a b : rckey, rckey_cmp a b = Eq <-> proj1_sig a = proj1_sig b) /\
  (forall a b : vckey, vckey_cmp a b = CompOpp (vckey_cmp b a)) /\
  (forall a b c : vckey, vckey_cmp a b = Lt -> vckey_cmp b c = Lt -> vckey_cmp a c = Lt).
Proof.
  split; [exact realcompound_cmp_antisym|]. split; [exact realcompound_cmp_trans|]. split; [exact realcompound_cmp_eq_iff|].
  split; [exact intcompound_cmp_antisym|exact intcompound_cmp_trans].
Qed.
Print Assumptions C19_typed_compound_cmp_order.
(* real-number keys: the node-level comparison never decides on a truncated key text *)
Theorem C19_prefix_shortcut_real : forall (skey kd : list Z) (kc : Z),
  sblk_cmp_key_full memcmp realmode skey kd kc = cmp_keys memcmp realmode skey kd kc.
Proof. exact prefix_shortcut_real. Qed.
Print Assumptions C19_prefix_shortcut_real.
(* PARTIAL: the agreement of the model's exact fraction with the long-double sum of the C code (iwafcmp) is compared on
   generated texts only; malformed stored integer keys (longer than 10 bytes) are outside the theorems. *)

Example C19_examples : atoi (dec (- 2 ^ 63)) = - 2 ^ 63 /\ hex2bin (bin2hex [0; 255; 26]) = [0; 255; 26] /\ set_vnum64 300 = [211; 2].
Proof. vm_compute. repeat split; reflexivity. Qed.
