(* C01 - KV store behaves as an ordered map for every operation history.  Statements only. *)
Require Import List ZArith Lia. Import ListNotations.
Require Import IW.KV.Node IW.KV.Spec IW.KV.Node_proofs IW.KV.Keys IW.KV.Inst IW.KV.Keys_proofs IW.KV.KeysCompound_proofs IW.KV.KeysReal_proofs IW.KV.KeysCompound2_proofs IW.KV.EffKey_proofs IW.KV.Incr_proofs IW.Lib.Vnum IW.KV.Skip IW.KV.Skip_proofs IW.Gen.Facts.

(* For EVERY history of put (plain, no-overwrite, with an update function standing for increment / put-handler),
   get and delete, every choice of skip-list levels (they do not enter this layer) and every comparator that is a
   total preorder, the chain of nodes returns what the ordered association list returns, flattens to it, and keeps
   its structural invariant (nodes non-empty, at most IDXNUM records, globally sorted). *)
Theorem C01_kv_refines_map :
  forall (K V : Type) (cmp : K -> K -> comparison) (IDXNUM PIVOT : nat) (upd : V -> V -> option V),
    (forall a b c : K, cmp a b = Lt -> cmp b c = Eq -> cmp a c = Lt) ->
    (forall a b : K, cmp a b = CompOpp (cmp b a)) ->
    (forall a b c : K, cmp a b = Lt -> cmp b c = Lt -> cmp a c = Lt) ->
    1 <= PIVOT < IDXNUM ->
    forall (ops : list (op K V)) (st : nat * chain K V),
      NodeInv K V cmp IDXNUM (snd st) ->
      let '(st', outs) := run K V cmp IDXNUM PIVOT upd st ops in
      let '(l', souts) := spec_run K V cmp upd (flat K V (snd st)) ops in
      flat K V (snd st') = l' /\ outs = souts /\ NodeInv K V cmp IDXNUM (snd st').
Proof. exact kv_refines_map. Qed.
Print Assumptions C01_kv_refines_map.

(* The same for the comparator the store really uses on plain byte keys, with the node size and the split pivot
   taken from the current source (Gen/Facts.v): no hypothesis on the comparator is left. *)
Theorem C01_kv_refines_map_bytes :
  forall (upd : value -> value -> option value) (ops : list (op key value)) (st : nat * chain key value),
    NodeInv key value (cmp_of plain) NIDX (snd st) ->
    let '(st', outs) := run key value (cmp_of plain) NIDX NPIVOT upd st ops in
    let '(l', souts) := spec_run key value (cmp_of plain) upd (flat key value (snd st)) ops in
    flat key value (snd st') = l' /\ outs = souts /\ NodeInv key value (cmp_of plain) NIDX (snd st').
Proof.
  intros upd. apply kv_refines_map.
  - exact plain_cmp_lt_eq.
  - exact plain_cmp_antisym.
  - exact plain_cmp_trans.
  - unfold NPIVOT, NIDX, SPLIT_PIVOT, KVBLK_IDXNUM. vm_compute. lia.
Qed.
Print Assumptions C01_kv_refines_map_bytes.

(* ... and for integer-key databases (IWDB_VNUM64_KEYS), again without any hypothesis on the comparator *)
Theorem C01_kv_refines_map_intkeys :
  forall (upd : value -> value -> option value) (ops : list (op key value)) (st : nat * chain key value),
    NodeInv key value (cmp_of vnummode) NIDX (snd st) ->
    let '(st', outs) := run key value (cmp_of vnummode) NIDX NPIVOT upd st ops in
    let '(l', souts) := spec_run key value (cmp_of vnummode) upd (flat key value (snd st)) ops in
    flat key value (snd st') = l' /\ outs = souts /\ NodeInv key value (cmp_of vnummode) NIDX (snd st').
Proof.
  intros upd. apply kv_refines_map.
  - exact vnum_cmp_lt_eq.
  - exact vnum_cmp_antisym.
  - exact vnum_cmp_trans.
  - unfold NPIVOT, NIDX, SPLIT_PIVOT, KVBLK_IDXNUM. vm_compute. lia.
Qed.
Print Assumptions C01_kv_refines_map_intkeys.

(* ... and for compound-key databases (IWDB_COMPOUND_KEYS on byte keys): the key type is the set of keys whose compound part
   is encodable (0 <= c < 2^63, what IW_SETVNUMBUF64 can write); the comparator is the store's own on their stored form
   (varint of the compound part, then the key bytes).  Equal only when bytes and compound part are identical. *)
Theorem C01_kv_refines_map_compound :
  forall (upd : value -> value -> option value) (ops : list (op ckey value)) (st : nat * chain ckey value),
    NodeInv ckey value ckey_cmp NIDX (snd st) ->
    let '(st', outs) := run ckey value ckey_cmp NIDX NPIVOT upd st ops in
    let '(l', souts) := spec_run ckey value ckey_cmp upd (flat ckey value (snd st)) ops in
    flat ckey value (snd st') = l' /\ outs = souts /\ NodeInv ckey value ckey_cmp NIDX (snd st').
Proof.
  intros upd. apply kv_refines_map.
  - exact compound_cmp_lt_eq.
  - exact compound_cmp_antisym.
  - exact compound_cmp_trans.
  - unfold NPIVOT, NIDX, SPLIT_PIVOT, KVBLK_IDXNUM. vm_compute. lia.
Qed.
Print Assumptions C01_kv_refines_map_compound.
Theorem C01_compound_keys_eq_iff_identical : forall a b : ckey, ckey_cmp a b = Eq <-> proj1_sig a = proj1_sig b.
Proof. exact compound_cmp_eq_iff. Qed.
Print Assumptions C01_compound_keys_eq_iff_identical.

(* ... and for real-number key databases (IWDB_REALNUM_KEYS): iwafcmp - signed integer part, fraction, then the bytes as a
   tie-break - is a total preorder on arbitrary texts whose equivalence is identity of the texts (the model's fraction is an
   exact rational; the C code's long-double sum is likewise a function of the key alone) *)
Theorem C01_kv_refines_map_realkeys :
  forall (upd : value -> value -> option value) (ops : list (op key value)) (st : nat * chain key value),
    NodeInv key value (cmp_of realmode) NIDX (snd st) ->
    let '(st', outs) := run key value (cmp_of realmode) NIDX NPIVOT upd st ops in
    let '(l', souts) := spec_run key value (cmp_of realmode) upd (flat key value (snd st)) ops in
    flat key value (snd st') = l' /\ outs = souts /\ NodeInv key value (cmp_of realmode) NIDX (snd st').
Proof.
  intros upd. apply kv_refines_map.
  - exact real_cmp_lt_eq.
  - exact real_cmp_antisym.
  - exact real_cmp_trans.
  - unfold NPIVOT, NIDX, SPLIT_PIVOT, KVBLK_IDXNUM. vm_compute. lia.
Qed.
Print Assumptions C01_kv_refines_map_realkeys.

(* ... and for the two typed key modes with a compound part (IWDB_COMPOUND_KEYS | IWDB_REALNUM_KEYS, IWDB_COMPOUND_KEYS |
   IWDB_VNUM64_KEYS) on the keys the API can produce: non-empty key bytes (size 0 is refused), encodable compound part, integer
   keys of 1..10 bytes.  With these, every key mode of the store is covered without a hypothesis on the comparator. *)
Theorem C01_kv_refines_map_real_compound :
  forall (upd : value -> value -> option value) (ops : list (op rckey value)) (st : nat * chain rckey value),
    NodeInv rckey value rckey_cmp NIDX (snd st) ->
    let '(st', outs) := run rckey value rckey_cmp NIDX NPIVOT upd st ops in
    let '(l', souts) := spec_run rckey value rckey_cmp upd (flat rckey value (snd st)) ops in
    flat rckey value (snd st') = l' /\ outs = souts /\ NodeInv rckey value rckey_cmp NIDX (snd st').
Proof.
  intros upd. apply kv_refines_map.
  - exact realcompound_cmp_lt_eq.
  - exact realcompound_cmp_antisym.
  - exact realcompound_cmp_trans.
  - unfold NPIVOT, NIDX, SPLIT_PIVOT, KVBLK_IDXNUM. vm_compute. lia.
Qed.
Print Assumptions C01_kv_refines_map_real_compound.
Theorem C01_kv_refines_map_int_compound :
  forall (upd : value -> value -> option value) (ops : list (op vckey value)) (st : nat * chain vckey value),
    NodeInv vckey value vckey_cmp NIDX (snd st) ->
    let '(st', outs) := run vckey value vckey_cmp NIDX NPIVOT upd st ops in
    let '(l', souts) := spec_run vckey value vckey_cmp upd (flat vckey value (snd st)) ops in
    flat vckey value (snd st') = l' /\ outs = souts /\ NodeInv vckey value vckey_cmp NIDX (snd st').
Proof.
  intros upd. apply kv_refines_map.
  - exact intcompound_cmp_lt_eq.
  - exact intcompound_cmp_antisym.
  - exact intcompound_cmp_trans.
  - unfold NPIVOT, NIDX, SPLIT_PIVOT, KVBLK_IDXNUM. vm_compute. lia.
Qed.
Print Assumptions C01_kv_refines_map_int_compound.

(* "every random skip-list level choice": the multi-level search of _lx_find_bounds / _lx_roll_forward (KV/Skip.v: start
   at the head on any level, roll forward while the next node on that level starts at or before the key, descend) ends
   on the node the walk of the level-0 chain ends on - for EVERY assignment of levels to the nodes, every starting
   level, every chain satisfying the invariant and every key.  (That the stored links of a real image are the links
   this model derives from the levels is what the independent reader, KV/Audit.v, checks on every image; the node the
   real search ends on is compared with the model's answer by the `lower` query of the correspondence check.) *)
Theorem C01_skip_search_is_linear :
  forall (K V : Type) (cmp : K -> K -> comparison),
    (forall a b c : K, cmp a b = Lt -> cmp b c = Eq -> cmp a c = Lt) ->
    (forall a b c : K, cmp a b = Lt -> cmp b c = Lt -> cmp a c = Lt) ->
    forall (top : nat) (c : list (lnode K V)) (k : K),
      Forall (fun n : lnode K V => snd n <> []) c -> sorted K V cmp (flat K V (strip K V c)) ->
      option_map (ln_node K V) (skip_lower K V cmp top c k) = lower_of K V cmp (strip K V c) k.
Proof. exact skip_search_is_linear. Qed.
Print Assumptions C01_skip_search_is_linear.

(* Non-vacuity: five nodes with levels 2,0,1,0,0; the search from level 2 for key 35 ends on the node starting at 40
   (scan order is descending: 90 > 70 > 40 > 20 > 10), as the plain walk does. *)
Example C01_skip_example :
  let c : list (lnode nat nat) := [((1,2),[(90,0);(80,0)]); ((2,0),[(70,0)]); ((3,1),[(40,0);(30,0)]); ((4,0),[(20,0)]); ((5,0),[(10,0)])] in
  let cmpd := fun a b => Nat.compare b a in
  option_map (ln_node nat nat) (skip_lower nat nat cmpd 2 c 35) = Some (3, [(40,0);(30,0)]) /\
  lower_of nat nat cmpd (strip nat nat c) 35 = Some (3, [(40,0);(30,0)]).
Proof. vm_compute. split; reflexivity. Qed.

(* plain byte keys compare equal only when identical *)
Theorem C01_plain_keys_eq_iff_identical : forall a b : key, cmp_of plain a b = Eq <-> fst a = fst b.
Proof. exact plain_cmp_eq_iff. Qed.
Print Assumptions C01_plain_keys_eq_iff_identical.

(* A call that reports an error leaves the contents unchanged. *)
Theorem C01_error_leaves_state :
  forall (K V : Type) (cmp : K -> K -> comparison) (IDXNUM PIVOT : nat) (upd : V -> V -> option V)
         (st : nat * chain K V) (k : K) (v : V) (noover newok : bool),
    let '(st', x) := step K V cmp IDXNUM PIVOT upd st (OpPut K V k v noover newok) in
    x <> OutPut V POk -> snd st' = snd st.
Proof. exact error_leaves_state. Qed.
Print Assumptions C01_error_leaves_state.

(* Non-vacuity: the empty store satisfies the invariant, and a concrete history that splits a node (40 inserts into
   nodes of at most 32 records) runs through the model and ends in a 2-node chain holding 39 records. *)
Example C01_inv_init : NodeInv key value (cmp_of plain) NIDX [].
Proof. split; constructor. Qed.

Definition ex_ops : list (op key value) :=
  map (fun i => OpPut key value ([Z.of_nat i], 0%Z) [7%Z] false true) (seq 1 40)
  ++ [OpDel key value ([5%Z], 0%Z); OpGet key value ([6%Z], 0%Z)].
Example C01_history_splits :
  let '(st, outs) := run key value (cmp_of plain) NIDX NPIVOT (fun _ v => Some v) (1, []) ex_ops in
  (length (snd st), length (flat key value (snd st)), last outs (OutDel value false))
  = (2, 39, OutGet value (Some [7%Z])).
Proof. vm_compute. reflexivity. Qed.

(* Entry points.  The compound-mode theorems above are over keys with an encodable compound part (0 <= c < 2^63); every key
   that passes an entry point is such a key, a negative compound part is refused by put/get/del and nothing changes, and
   for every accepted key the size reserved for the record's key is the size written (the entry point before the repair
   8b6b5c3 let `abc` with compound part -1 through: 10 bytes reserved, none written, the record unreadable). *)
Theorem C01_entry_keys_are_encodable : forall m k comp ek,
  eff_key m k comp = (ROk, ek) -> (comp < 2 ^ 63)%Z -> ckey_ok ek.
Proof. exact eff_key_ok_compound. Qed.
Print Assumptions C01_entry_keys_are_encodable.

Theorem C01_negative_compound_refused : forall (d : db) (k : list Z) (comp : Z) (v : value) (flags ph : Z),
  km_compound (d_mode d) = true -> (comp < 0)%Z ->
  fst (db_put d k comp v flags ph) = RInvalidArgs /\ snd (db_put d k comp v flags ph) = d /\
  db_get d k comp = (RInvalidArgs, []) /\ db_del d k comp = (RInvalidArgs, d).
Proof. exact negative_compound_refused. Qed.
Print Assumptions C01_negative_compound_refused.

Theorem C01_stored_size_is_written_size : forall m k comp ek,
  eff_key m k comp = (ROk, ek) -> (comp < 2 ^ 63)%Z -> km_compound m = true ->
  stored_size m ek = (Z.of_nat (length (fst ek)) + Z.of_nat (length (set_vnum64 (snd ek))))%Z.
Proof. exact stored_size_is_written_size. Qed.
Print Assumptions C01_stored_size_is_written_size.

Theorem C01_old_entry_point_refuted :
  exists m k comp ek, eff_key_old m k comp = (ROk, ek) /\
    stored_size m ek <> (Z.of_nat (length (fst ek)) + Z.of_nat (length (set_vnum64 (snd ek))))%Z.
Proof. exact old_entry_point_refuted. Qed.
Print Assumptions C01_old_entry_point_refuted.

(* IWKV_VAL_INCREMENT: the stored value is a 4- or 8-byte counter, the operand a 4- or 8-byte SIGNED number; the result keeps
   the stored width and is the sum modulo 2^width; any other width on either side is refused (nothing changes: C01_error_leaves_state). *)
Theorem C01_increment_is_modular_add : forall old v : list Z,
  width_ok old = true -> width_ok v = true ->
  exists r, incr old v = Some r /\ length r = length old /\
            le_decode r = ((le_decode old + IW.Lib.CInt.sw (bits v) (le_decode v)) mod 2 ^ bits old)%Z.
Proof. exact incr_is_modular_add. Qed.
Print Assumptions C01_increment_is_modular_add.

Theorem C01_increment_refused_iff : forall old v : list Z, incr old v = None <-> (width_ok old && width_ok v)%bool = false.
Proof. exact incr_refused_iff. Qed.
Print Assumptions C01_increment_refused_iff.

Example C01_increment_negative_delta : incr [5; 0; 0; 0; 0; 0; 0; 0]%Z [255; 255; 255; 255]%Z = Some [4; 0; 0; 0; 0; 0; 0; 0]%Z.
Proof. exact incr_negative_delta. Qed.
