(* C12 - proofs about the model FS/Exf.v, part 1: arithmetic of the macros, byte lists, policies, the copy loop,
   the flat array.  Nothing here depends on the state invariant. *)
Require Import ZArith List Bool Lia.
Require Import IW.Lib.CInt IW.Gen.Facts IW.FS.Exf.
Import ListNotations.
Local Open Scope Z_scope.
Ltac Zify.zify_post_hook ::= Z.div_mod_to_equations.

(* ---------------------------------------------------------------------------------------------- *)
(* 1. IW_RANGES_OVERLAP, as translated from the current source, is interval intersection *)
Lemma ranges_overlap_correct : forall s1 e1 s2 e2, s1 < e1 -> s2 < e2 ->
  (IW_RANGES_OVERLAP s1 e1 s2 e2 <> 0 <-> Z.max s1 s2 < Z.min e1 e2).
Proof.
  intros s1 e1 s2 e2 H1 H2. unfold IW_RANGES_OVERLAP.
  destruct (Z.gtb_spec e1 s2), (Z.leb_spec e1 e2), (Z.geb_spec s1 s2), (Z.ltb_spec s1 e2),
    (Z.leb_spec s1 s2), (Z.geb_spec e1 e2); simpl; split; intros; try lia; try congruence.
Qed.

Lemma ranges_overlap_01 : forall s1 e1 s2 e2, IW_RANGES_OVERLAP s1 e1 s2 e2 = 0 \/ IW_RANGES_OVERLAP s1 e1 s2 e2 = 1.
Proof.
  intros. unfold IW_RANGES_OVERLAP.
  destruct (Z.gtb e1 s2), (Z.leb e1 e2), (Z.geb s1 s2), (Z.ltb s1 e2), (Z.leb s1 s2), (Z.geb e1 e2); simpl; auto.
Qed.

(* ---------------------------------------------------------------------------------------------- *)
(* 2. the rounding macros on powers of two *)
Lemma uw_small : forall b x, 0 <= x < 2 ^ b -> uw b x = x.
Proof. intros. unfold uw. apply Z.mod_small; lia. Qed.

Lemma land_uw_r : forall a b, 0 <= a < 2 ^ 64 -> Z.land a (uw 64 b) = Z.land a b.
Proof.
  intros a b Ha. unfold uw. rewrite <- (Z.land_ones b 64) by lia.
  rewrite (Z.land_comm b), Z.land_assoc, (Z.land_ones a 64) by lia.
  rewrite Z.mod_small by lia. reflexivity.
Qed.

Lemma land_lnot_pow2 : forall a k, 0 <= k -> Z.land a (Z.lnot (2 ^ k - 1)) = a / 2 ^ k * 2 ^ k.
Proof.
  intros a k Hk. rewrite <- Z.ldiff_land.
  replace (2 ^ k - 1) with (Z.ones k) by (rewrite Z.ones_equiv; lia).
  rewrite Z.ldiff_ones_r by lia. rewrite Z.shiftl_mul_pow2, Z.shiftr_div_pow2 by lia. reflexivity.
Qed.

Lemma pow2_bounds : forall k, 0 <= k < 63 -> 1 <= 2 ^ k < 2 ^ 63.
Proof. intros. split. - assert (0 < 2 ^ k) by (apply Z.pow_pos_nonneg; lia). lia. - apply Z.pow_lt_mono_r; lia. Qed.

Lemma IW_ROUNDUP_spec : forall k x, 0 <= k < 63 -> 0 <= x -> x + 2 ^ k <= 2 ^ 64 ->
  IW_ROUNDUP x (2 ^ k) = rup x (2 ^ k).
Proof.
  intros k x Hk Hx Hb. pose proof (pow2_bounds k Hk) as Hp.
  unfold IW_ROUNDUP, rup.
  assert (E64 : 2 ^ 64 = 2 * 2 ^ 63) by reflexivity.
  rewrite (uw_small 64 1) by lia.
  destruct (Z.eq_dec (x + 2 ^ k) (2 ^ 64)) as [Heq | Hne].
  - (* x + v wraps to 0: only possible when x + v = 2^64 *)
    rewrite Heq. unfold uw at 2. rewrite Z.mod_same by lia.
    replace (uw 64 (0 - 1)) with (2 ^ 64 - 1) by (unfold uw; reflexivity).
    rewrite (uw_small 64 (2 ^ k - 1)) by lia.
    rewrite land_uw_r by lia. rewrite land_lnot_pow2 by lia.
    replace (x + 2 ^ k - 1) with (2 ^ 64 - 1) by lia. reflexivity.
  - rewrite (uw_small 64 (x + 2 ^ k)) by lia.
    rewrite (uw_small 64 (x + 2 ^ k - 1)) by lia.
    rewrite (uw_small 64 (2 ^ k - 1)) by lia.
    rewrite land_uw_r by lia. apply land_lnot_pow2; lia.
Qed.

Lemma IW_ROUNDOWN_spec : forall k x, 0 <= k < 63 -> 0 <= x < 2 ^ 64 ->
  IW_ROUNDOWN x (2 ^ k) = x / 2 ^ k * 2 ^ k.
Proof.
  intros k x Hk Hx. pose proof (pow2_bounds k Hk) as Hp.
  assert (E64 : 2 ^ 64 = 2 * 2 ^ 63) by reflexivity.
  unfold IW_ROUNDOWN. rewrite (uw_small 64 1) by lia. rewrite (uw_small 64 (2 ^ k - 1)) by lia.
  replace (2 ^ k - 1) with (Z.ones k) by (rewrite Z.ones_equiv; lia).
  rewrite Z.land_ones by lia.
  assert (0 < 2 ^ k) by lia.
  pose proof (Z.mod_pos_bound x (2 ^ k) H). pose proof (Z.div_mod x (2 ^ k)).
  pose proof (Z.mod_le x (2 ^ k)).
  rewrite uw_small by lia. lia.
Qed.

Lemma aligned_spec : forall k x, 0 <= k < 63 -> 0 <= x < 2 ^ 64 -> aligned x (2 ^ k) = (x mod 2 ^ k =? 0).
Proof.
  intros k x Hk Hx. unfold aligned. rewrite uw_small by lia.
  replace (2 ^ k - 1) with (Z.ones k) by (rewrite Z.ones_equiv; lia).
  rewrite Z.land_ones by lia. reflexivity.
Qed.

Lemma sw_small : forall x, 0 <= x < 2 ^ 63 -> sw 64 x = x.
Proof.
  intros x Hx. unfold sw. change (2 ^ (64 - 1)) with (2 ^ 63).
  assert (E64 : 2 ^ 64 = 2 * 2 ^ 63) by reflexivity.
  rewrite Z.mod_small by lia. lia.
Qed.

(* rounding up, arithmetic facts *)
Lemma rup_ge : forall x ps, 0 < ps -> x <= rup x ps.
Proof. intros. unfold rup. pose proof (Z.div_mod (x + ps - 1) ps). pose proof (Z.mod_pos_bound (x + ps - 1) ps H). lia. Qed.
Lemma rup_lt : forall x ps, 0 < ps -> rup x ps < x + ps.
Proof. intros. unfold rup. pose proof (Z.div_mod (x + ps - 1) ps). pose proof (Z.mod_pos_bound (x + ps - 1) ps H). lia. Qed.
Lemma rup_mod : forall x ps, 0 < ps -> rup x ps mod ps = 0.
Proof. intros. unfold rup. apply Z.mod_mul. lia. Qed.
Lemma rup_id : forall x ps, 0 < ps -> x mod ps = 0 -> rup x ps = x.
Proof.
  intros x ps Hp Hm. unfold rup. apply Z.mod_divide in Hm; [| lia]. destruct Hm as [j Hj]. subst x.
  replace (j * ps + ps - 1) with ((ps - 1) + j * ps) by lia.
  rewrite Z.div_add by lia. rewrite Z.div_small by lia. lia.
Qed.
Lemma rup_mono : forall x y ps, 0 < ps -> x <= y -> rup x ps <= rup y ps.
Proof. intros. unfold rup. apply Z.mul_le_mono_nonneg_r; [lia |]. apply Z.div_le_mono; lia. Qed.
Lemma rup_le_aligned : forall x m ps, 0 < ps -> x <= m -> m mod ps = 0 -> rup x ps <= m.
Proof. intros. rewrite <- (rup_id m ps) by assumption. apply rup_mono; assumption. Qed.
Lemma rup_nonneg : forall x ps, 0 < ps -> 0 <= x -> 0 <= rup x ps.
Proof. intros. pose proof (rup_ge x ps H). lia. Qed.

Definition PsOk (ps : Z) : Prop := exists k, 0 <= k < 32 /\ ps = 2 ^ k.
Definition LIM : Z := 2 ^ 61.

Lemma PsOk_pos : forall ps, PsOk ps -> 1 <= ps <= 2 ^ 31.
Proof.
  intros ps [k [Hk E]]. subst. split.
  - assert (0 < 2 ^ k) by (apply Z.pow_pos_nonneg; lia). lia.
  - apply Z.pow_le_mono_r; lia.
Qed.
Lemma LIM_mod : forall ps, PsOk ps -> LIM mod ps = 0.
Proof.
  intros ps [k [Hk E]]. subst. unfold LIM. replace 61 with ((61 - k) + k) by lia.
  rewrite Z.pow_add_r by lia. apply Z.mod_mul. assert (0 < 2 ^ k) by (apply Z.pow_pos_nonneg; lia). lia.
Qed.

Lemma roundup_ps : forall ps x, PsOk ps -> 0 <= x <= 2 ^ 63 -> IW_ROUNDUP x ps = rup x ps.
Proof.
  intros ps x HP Hx. pose proof (PsOk_pos ps HP). destruct HP as [k [Hk E]]. subst.
  apply IW_ROUNDUP_spec; lia.
Qed.
Lemma rounddown_ps : forall ps x, PsOk ps -> 0 <= x < 2 ^ 64 -> IW_ROUNDOWN x ps = x / ps * ps.
Proof. intros ps x [k [Hk E]] Hx. subst. apply IW_ROUNDOWN_spec; lia. Qed.
Lemma aligned_ps : forall ps x, PsOk ps -> 0 <= x < 2 ^ 64 -> aligned x ps = (x mod ps =? 0).
Proof. intros ps x [k [Hk E]] Hx. subst. apply aligned_spec; lia. Qed.

(* ---------------------------------------------------------------------------------------------- *)
(* 3. byte lists addressed by Z *)
Lemma skipn_skipn' : forall (A : Type) (x y : nat) (l : list A), skipn x (skipn y l) = skipn (y + x) l.
Proof. intros A x y. induction y as [| y IH]; intros l; simpl. - reflexivity. - destruct l; simpl. + apply skipn_nil. + apply IH. Qed.

Section ZList.
Context {A : Type}.
Implicit Types l x y r : list A.

Lemma zlen_nonneg : forall l, 0 <= zlen l. Proof. intros. unfold zlen. lia. Qed.
Lemma zlen_app : forall x y, zlen (x ++ y) = zlen x + zlen y.
Proof. intros. unfold zlen. rewrite app_length. lia. Qed.
Lemma zlen_nil : zlen (@nil A) = 0. Proof. reflexivity. Qed.
Lemma zlen_0_nil : forall l, zlen l = 0 -> l = []. Proof. intros l H. destruct l; [reflexivity | unfold zlen in H; simpl in H; lia]. Qed.
Lemma zlen_ztake : forall n l, 0 <= n <= zlen l -> zlen (ztake n l) = n.
Proof. intros n l H. unfold zlen, ztake in *. rewrite firstn_length_le by lia. lia. Qed.
Lemma zlen_ztake_le : forall n l, zlen (ztake n l) <= zlen l.
Proof. intros. unfold zlen, ztake. rewrite firstn_length. lia. Qed.
Lemma zlen_ztake_min : forall n l, 0 <= n -> zlen (ztake n l) = Z.min n (zlen l).
Proof. intros. unfold zlen, ztake. rewrite firstn_length. lia. Qed.
Lemma zlen_zdrop : forall n l, 0 <= n <= zlen l -> zlen (zdrop n l) = zlen l - n.
Proof. intros n l H. unfold zlen, zdrop in *. rewrite skipn_length. lia. Qed.
Lemma ztake_zdrop : forall n l, ztake n l ++ zdrop n l = l.
Proof. intros. apply firstn_skipn. Qed.
Lemma ztake_all : forall n l, zlen l <= n -> ztake n l = l.
Proof. intros. unfold ztake, zlen in *. apply firstn_all2. lia. Qed.
Lemma zdrop_all : forall n l, zlen l <= n -> zdrop n l = [].
Proof. intros. unfold zdrop, zlen in *. apply skipn_all2. lia. Qed.
Lemma ztake_neg : forall n l, n <= 0 -> ztake n l = [].
Proof. intros. unfold ztake. replace (Z.to_nat n) with O by lia. reflexivity. Qed.
Lemma zdrop_neg : forall n l, n <= 0 -> zdrop n l = l.
Proof. intros. unfold zdrop. replace (Z.to_nat n) with O by lia. reflexivity. Qed.
Lemma ztake_app_exact : forall x r, ztake (zlen x) (x ++ r) = x.
Proof.
  intros. unfold ztake, zlen. rewrite Nat2Z.id. rewrite firstn_app, Nat.sub_diag. simpl.
  rewrite firstn_all. apply app_nil_r.
Qed.
Lemma zdrop_app_exact : forall x r, zdrop (zlen x) (x ++ r) = r.
Proof.
  intros. unfold zdrop, zlen. rewrite Nat2Z.id. rewrite skipn_app, Nat.sub_diag, skipn_all. reflexivity.
Qed.
Lemma zdrop_app_more : forall x r k, 0 <= k -> zdrop (zlen x + k) (x ++ r) = zdrop k r.
Proof.
  intros. unfold zdrop, zlen. rewrite Z2Nat.inj_add, Nat2Z.id by lia.
  rewrite skipn_app. rewrite skipn_all2 by lia. simpl. f_equal. lia.
Qed.
Lemma ztake_app_more : forall x r k, 0 <= k -> ztake (zlen x + k) (x ++ r) = x ++ ztake k r.
Proof.
  intros. unfold ztake, zlen. rewrite Z2Nat.inj_add, Nat2Z.id by lia. apply firstn_app_2.
Qed.
Lemma zdrop_zdrop : forall a b l, 0 <= a -> 0 <= b -> zdrop b (zdrop a l) = zdrop (a + b) l.
Proof. intros. unfold zdrop. rewrite skipn_skipn'. f_equal. lia. Qed.
Lemma ztake_ztake : forall a b l, 0 <= a <= b -> ztake a (ztake b l) = ztake a l.
Proof. intros. unfold ztake. rewrite firstn_firstn. f_equal. lia. Qed.
Lemma ztake_split : forall a b l, 0 <= a -> 0 <= b -> ztake (a + b) l = ztake a l ++ ztake b (zdrop a l).
Proof.
  intros a b l Ha Hb. rewrite <- (ztake_zdrop a l) at 1.
  destruct (Z_le_gt_dec a (zlen l)).
  - rewrite <- (zlen_ztake a l) at 1 by lia. apply ztake_app_more. lia.
  - rewrite (zdrop_all a l) by lia. rewrite app_nil_r. rewrite (ztake_all a l) by lia.
    rewrite ztake_all by lia. unfold ztake. rewrite firstn_nil. rewrite app_nil_r. reflexivity.
Qed.
End ZList.

Lemma zdrop_app_len : forall (A : Type) (x r : list A) a, zlen x = a -> zdrop a (x ++ r) = r.
Proof. intros. subst. apply zdrop_app_exact. Qed.
Lemma ztake_app_len : forall (A : Type) (x r : list A) a, zlen x = a -> ztake a (x ++ r) = x.
Proof. intros. subst. apply ztake_app_exact. Qed.

Lemma zlen_zeros : forall n, 0 <= n -> zlen (zeros n) = n.
Proof. intros. unfold zlen, zeros. rewrite repeat_length. lia. Qed.
Lemma zeros_neg : forall n, n <= 0 -> zeros n = [].
Proof. intros. unfold zeros. replace (Z.to_nat n) with O by lia. reflexivity. Qed.

Lemma zlen_ftrunc : forall f n, 0 <= n -> zlen (ftrunc f n) = n.
Proof.
  intros f n Hn. unfold ftrunc. rewrite zlen_app. destruct (Z_le_gt_dec n (zlen f)).
  - rewrite zlen_ztake by lia. rewrite zeros_neg by lia. unfold zlen. simpl. lia.
  - rewrite ztake_all by lia. rewrite zlen_zeros by lia. lia.
Qed.
Lemma ftrunc_id : forall f, ftrunc f (zlen f) = f.
Proof. intros. unfold ftrunc. rewrite ztake_all by lia. rewrite zeros_neg by lia. apply app_nil_r. Qed.

Lemma pwrite_splice : forall f off d, 0 <= off -> off + zlen d <= zlen f -> pwrite f off d = splice f off d.
Proof.
  intros f off d Ho Hb. unfold pwrite, splice. destruct d as [| b d'].
  - simpl. rewrite Z.add_0_r. symmetry. apply ztake_zdrop.
  - pose proof (zlen_nonneg (b :: d')). rewrite zeros_neg by lia. reflexivity.
Qed.
Lemma zlen_splice : forall v p d, 0 <= p -> p + zlen d <= zlen v -> zlen (splice v p d) = zlen v.
Proof.
  intros v p d Hp Hb. pose proof (zlen_nonneg d). unfold splice. rewrite !zlen_app.
  rewrite zlen_ztake by lia. rewrite zlen_zdrop by lia. lia.
Qed.
Lemma splice_app : forall f a d1 d2, 0 <= a -> a + zlen d1 + zlen d2 <= zlen f ->
  splice (splice f a d1) (a + zlen d1) d2 = splice f a (d1 ++ d2).
Proof.
  intros f a d1 d2 Ha Hb. pose proof (zlen_nonneg d1). pose proof (zlen_nonneg d2).
  unfold splice at 1 2.
  assert (E : zlen (ztake a f ++ d1) = a + zlen d1) by (rewrite zlen_app, zlen_ztake by lia; reflexivity).
  set (R := zdrop (a + zlen d1) f).
  replace (ztake a f ++ d1 ++ R) with ((ztake a f ++ d1) ++ R) by (symmetry; apply app_assoc).
  rewrite <- E. rewrite ztake_app_exact.
  rewrite zdrop_app_more by lia. unfold R. rewrite zdrop_zdrop by lia.
  unfold splice. rewrite zlen_app. rewrite <- !app_assoc. rewrite ?E. do 3 f_equal. f_equal. lia.
Qed.
Lemma pread_splice_same : forall f a d, 0 <= a <= zlen f -> pread (splice f a d) a (zlen d) = d.
Proof.
  intros f a d Ha. unfold pread, splice.
  rewrite zdrop_app_len by (apply zlen_ztake; lia). apply ztake_app_exact.
Qed.
Lemma pread_app : forall f a n1 n2, 0 <= a -> 0 <= n1 -> 0 <= n2 ->
  pread f a n1 ++ pread f (a + n1) n2 = pread f a (n1 + n2).
Proof.
  intros. unfold pread. rewrite <- zdrop_zdrop by lia. symmetry. apply ztake_split; lia.
Qed.
Lemma pread_nil : forall f a, pread f a 0 = []. Proof. reflexivity. Qed.
Lemma zlen_pread : forall f a n, 0 <= a -> 0 <= n -> a + n <= zlen f -> zlen (pread f a n) = n.
Proof. intros. unfold pread. rewrite zlen_ztake; [reflexivity |]. rewrite zlen_zdrop by lia. lia. Qed.
(* a read that does not meet the written range sees the old bytes *)
Lemma pread_splice_before : forall f a d b n, 0 <= b -> 0 <= n -> b + n <= a -> a + zlen d <= zlen f ->
  pread (splice f a d) b n = pread f b n.
Proof.
  intros f a d b n Hb Hn Hl Hf. pose proof (zlen_nonneg d). unfold pread, splice.
  rewrite <- (ztake_zdrop b (ztake a f)). rewrite <- app_assoc.
  assert (E : zlen (ztake b (ztake a f)) = b) by (rewrite zlen_ztake; [lia | rewrite zlen_ztake by lia; lia]).
  rewrite (zdrop_app_len _ (ztake b (ztake a f))) by exact E.
  (* both sides: the first n of something starting with zdrop b (ztake a f) *)
  assert (E2 : zdrop b (ztake a f) = ztake (a - b) (zdrop b f)).
  { unfold zdrop, ztake. rewrite skipn_firstn_comm. f_equal. lia. }
  rewrite E2.
  assert (E3 : zlen (ztake (a - b) (zdrop b f)) = a - b) by (rewrite zlen_ztake; [lia | rewrite zlen_zdrop by lia; lia]).
  replace (ztake n (ztake (a - b) (zdrop b f) ++ d ++ zdrop (a + zlen d) f))
    with (ztake n (ztake (a - b) (zdrop b f))).
  - apply ztake_ztake. lia.
  - unfold ztake at 1 3. rewrite firstn_app. unfold zlen in E3.
    replace (Z.to_nat n - length (ztake (a - b) (zdrop b f)))%nat with O by lia. simpl. rewrite app_nil_r. reflexivity.
Qed.
Lemma pread_splice_after : forall f a d b n, 0 <= a -> a + zlen d <= b -> 0 <= n -> a + zlen d <= zlen f ->
  pread (splice f a d) b n = pread f b n.
Proof.
  intros f a d b n Ha Hl Hn Hf. pose proof (zlen_nonneg d). unfold pread, splice.
  assert (E : zlen (ztake a f ++ d) = a + zlen d) by (rewrite zlen_app, zlen_ztake by lia; reflexivity).
  rewrite app_assoc. replace b with (zlen (ztake a f ++ d) + (b - (a + zlen d))) at 1 by lia.
  rewrite zdrop_app_more by lia. rewrite zdrop_zdrop by lia. do 2 f_equal. lia.
Qed.

(* ---------------------------------------------------------------------------------------------- *)
(* 4. resize policies: the C arithmetic is the documented formula when nothing wraps *)
Definition pol_ok (p : policy) : Prop :=
  match p with
  | PFibo prev => 0 <= prev <= LIM
  | PMul n dn => 0 <= n < 2 ^ 31 /\ 0 <= dn < 2 ^ 31
  | _ => True
  end.
(* the product formed by the multiplier policy fits *)
Definition req_ok (p : policy) (nsize : Z) : Prop :=
  match p with PMul n dn => nsize * n <= LIM | _ => True end.

Lemma LIM_val : LIM = 2305843009213693952. Proof. reflexivity. Qed.
Lemma OFFMAX_val : EXF_OFF_T_MAX = 9223372036854775807. Proof. reflexivity. Qed.

Lemma default_szpolicy_spec : forall ps n, PsOk ps -> 0 <= n <= LIM -> default_szpolicy ps n = rup n ps.
Proof.
  intros ps n HP Hn. pose proof (PsOk_pos ps HP). rewrite LIM_val in Hn. unfold default_szpolicy.
  rewrite uw_small by lia. rewrite roundup_ps by (auto; lia).
  pose proof (rup_lt n ps). pose proof (rup_ge n ps). apply sw_small. lia.
Qed.

Lemma clamp_small : forall x, x <= EXF_OFF_T_MAX -> clamp_off x = x.
Proof. intros. unfold clamp_off. destruct (Z.gtb_spec x EXF_OFF_T_MAX); lia. Qed.

Lemma policy_call_spec : forall q ps p nsize csize,
  q_mul_ge q = true -> PsOk ps -> pol_ok p -> 0 <= nsize <= LIM -> 0 <= csize <= LIM -> req_ok p nsize ->
  policy_call q ps p nsize csize = spec_policy ps p nsize csize.
Proof.
  intros q ps p nsize csize Hq HP Hp Hn Hc Hr. pose proof (PsOk_pos ps HP) as Hps.
  pose proof LIM_val as EL. pose proof OFFMAX_val as EO.
  destruct p as [| prev | n dn |]; simpl in *.
  - rewrite default_szpolicy_spec by auto. reflexivity.
  - rewrite (uw_small 64 csize), (uw_small 64 prev), (uw_small 64 nsize) by lia.
    rewrite (uw_small 64 (csize + prev)) by lia.
    assert (E : (if csize + prev >? nsize then csize + prev else nsize) = Z.max (csize + prev) nsize)
      by (destruct (Z.gtb_spec (csize + prev) nsize); lia).
    rewrite E. rewrite roundup_ps by (auto; lia).
    pose proof (rup_lt (Z.max (csize + prev) nsize) ps). rewrite clamp_small by lia. reflexivity.
  - destruct Hp as [Hn1 Hd1]. destruct ((dn =? 0) || (n <? dn)) eqn:Efb.
    + rewrite default_szpolicy_spec by auto. reflexivity.
    + apply orb_false_iff in Efb. destruct Efb as [Ed En]. apply Z.eqb_neq in Ed. apply Z.ltb_ge in En.
      rewrite Hq. simpl.
      rewrite (uw_small 64 nsize), (uw_small 64 dn), (uw_small 64 n) by lia.
      assert (Hq1 : 0 <= nsize / dn <= nsize).
      { split. - apply Z.div_pos; lia. - apply Z.div_le_upper_bound; nia. }
      assert (Hq2 : 0 <= nsize / dn * n <= nsize * n) by nia.
      rewrite (uw_small 64 (nsize / dn * n)) by lia.
      assert (E : (if nsize / dn * n <? nsize then nsize else nsize / dn * n) = Z.max (nsize / dn * n) nsize)
        by (destruct (Z.ltb_spec (nsize / dn * n) nsize); lia).
      rewrite E. rewrite roundup_ps by (auto; lia).
      pose proof (rup_lt (Z.max (nsize / dn * n) nsize) ps). rewrite clamp_small by lia. reflexivity.
  - rewrite default_szpolicy_spec by auto. reflexivity.
Qed.

(* what every policy of the specification guarantees *)
Lemma spec_policy_ge : forall ps p nsize csize, 0 < ps ->
  nsize <= fst (spec_policy ps p nsize csize) /\ fst (spec_policy ps p nsize csize) mod ps = 0.
Proof.
  intros ps p nsize csize Hps. destruct p as [| prev | n dn |]; simpl;
    try (destruct ((dn =? 0) || (n <? dn)); simpl);
    (split; [ match goal with |- _ <= rup ?x _ => pose proof (rup_ge x ps Hps); lia end | apply rup_mod; lia ]).
Qed.

Lemma spec_policy_pol_ok : forall ps p nsize csize, pol_ok p -> 0 <= csize <= LIM -> pol_ok (snd (spec_policy ps p nsize csize)).
Proof.
  intros ps p nsize csize Hp Hc. destruct p as [| prev | n dn |]; simpl in *; auto.
  destruct ((dn =? 0) || (n <? dn)); simpl; auto.
Qed.

(* small list facts used later *)
Lemma set_nth_same : forall (A : Type) (l : list A) i x, nth_error l i = Some x -> set_nth i x l = l.
Proof.
  intros A l. induction l as [| a tl IH]; intros i x H; destruct i; simpl in *; try discriminate.
  - inversion H; reflexivity.
  - f_equal. apply IH. exact H.
Qed.

Lemma splice_nil : forall f a, splice f a [] = f.
Proof. intros. unfold splice. simpl. change (zlen (@nil Z)) with 0. rewrite Z.add_0_r. apply ztake_zdrop. Qed.

Lemma pread_clip : forall f off n, 0 <= off -> zlen f - off <= n -> pread f off n = zdrop off f.
Proof.
  intros f off n Ho Hn. unfold pread.
  destruct (Z_le_gt_dec off (zlen f)).
  - apply ztake_all. rewrite zlen_zdrop by lia. lia.
  - rewrite zdrop_all by lia. unfold ztake. apply firstn_nil.
Qed.
Lemma zlen_pread_le : forall f a n, 0 <= n -> zlen (pread f a n) <= n.
Proof. intros. unfold pread. rewrite zlen_ztake_min by lia. lia. Qed.
(* ---------------------------------------------------------------------------------------------- *)
(* 10. copy: the chunked loop of iwp_copy_bytes is one splice when the ranges do not overlap forward *)
Lemma copy_loop_S : forall k f off siz noff pos,
  copy_loop (S k) f off siz noff pos =
    if pos <? siz then
      match pread f (off + pos) (Z.min COPY_CHUNK (siz - pos)) with
      | [] => f
      | b => copy_loop k (pwrite f (noff + pos) b) off siz noff (pos + zlen b)
      end
    else f.
Proof. reflexivity. Qed.

Lemma pread_self_len : forall f a c, 0 <= c -> pread f a (zlen (pread f a c)) = pread f a c.
Proof.
  intros f a c Hc. unfold pread. set (X := zdrop a f). rewrite zlen_ztake_min by lia.
  destruct (Z_le_gt_dec c (zlen X)).
  - rewrite Z.min_l by lia. reflexivity.
  - rewrite Z.min_r by lia. rewrite !ztake_all by lia. reflexivity.
Qed.

Lemma ztake_nil_pos : forall (A : Type) (X : list A) c, 0 < c -> ztake c X = [] -> X = [].
Proof.
  intros A X c Hc H. destruct X as [| x X']; [reflexivity |]. unfold ztake in H.
  destruct (Z.to_nat c) eqn:En; [lia |]. simpl in H. discriminate.
Qed.

Lemma copy_loop_spec : forall f0 off siz noff, 0 <= off -> 0 <= noff -> 0 <= siz -> noff + siz <= zlen f0 ->
  (noff <= off \/ off + siz <= noff) ->
  forall fuel pos fk, siz - pos < Z.of_nat fuel -> 0 <= pos <= siz -> zlen (pread f0 off pos) = pos ->
  fk = splice f0 noff (pread f0 off pos) ->
  copy_loop fuel fk off siz noff pos = splice f0 noff (pread f0 off siz).
Proof.
  intros f0 off siz noff Hoff Hnoff Hsiz Hfit Hdir.
  assert (HC : 0 < COPY_CHUNK) by reflexivity.
  induction fuel as [| k IH]; intros pos fk Hfuel Hpos Hfull Hfk; [lia |].
  rewrite copy_loop_S. destruct (Z.ltb_spec pos siz) as [Hlt | Hge].
  - set (c := Z.min COPY_CHUNK (siz - pos)). assert (Hc : 0 < c <= siz - pos) by (unfold c; lia).
    assert (Esrc : pread fk (off + pos) c = pread f0 (off + pos) c).
    { subst fk. destruct Hdir as [Hd | Hd].
      - apply pread_splice_after; lia.
      - apply pread_splice_before; lia. }
    rewrite Esrc. destruct (pread f0 (off + pos) c) as [| b0 b'] eqn:Eb.
    + (* end of file: nothing more to copy *)
      subst fk. f_equal. replace siz with (pos + (siz - pos)) by lia. rewrite <- pread_app by lia.
      unfold pread in Eb. apply ztake_nil_pos in Eb; [| lia]. unfold pread at 3. rewrite Eb.
      unfold ztake. rewrite firstn_nil. rewrite app_nil_r. reflexivity.
    + rewrite <- Eb. set (b := pread f0 (off + pos) c) in *.
      assert (Hbl : zlen b <= c) by (unfold b, pread; rewrite zlen_ztake_min by lia; lia).
      assert (Hbn : 0 < zlen b) by (rewrite Eb; unfold zlen; simpl; lia).
      assert (Eapp : pread f0 off (pos + zlen b) = pread f0 off pos ++ b).
      { rewrite <- pread_app by lia. f_equal. unfold b. apply pread_self_len. lia. }
      apply IH.
      * lia.
      * lia.
      * rewrite Eapp, zlen_app, Hfull. reflexivity.
      * subst fk. rewrite pwrite_splice; [| lia | rewrite zlen_splice by lia; lia].
        rewrite Eapp. rewrite <- Hfull at 2. apply splice_app; lia.
  - assert (pos = siz) by lia. subst pos. exact Hfk.
Qed.

(* ---------------------------------------------------------------------------------------------- *)
(* 12. the flat array itself: last write wins, everything else keeps its bytes, new space is zero *)
Lemma spec_grow_shape : forall ok a n p rc a1, 0 <= n -> spec_grow ok a n p = (rc, a1) ->
  exists m, a_bytes a1 = ftrunc (a_bytes a) m /\ zlen (a_bytes a1) = m /\ (rc = 0 -> m = n).
Proof.
  intros ok a n p rc a1 Hn E. unfold spec_grow in E.
  destruct ((zlen (a_bytes a) <? n) && negb (os_grow ok n)).
  - inversion E; subst. simpl. exists (zlen (a_bytes a)). rewrite ftrunc_id. split; [reflexivity |]. split; [reflexivity |].
    intros Hrc; discriminate Hrc.
  - inversion E; subst. simpl. exists n. split; [reflexivity |]. split; [apply zlen_ftrunc; lia | intros; reflexivity].
Qed.

Lemma spec_ensure_shape : forall ps ok a sz rc a1, 0 < ps -> 0 <= sz -> spec_ensure ps ok a sz = (rc, a1) ->
  exists m, a_bytes a1 = ftrunc (a_bytes a) m /\ zlen (a_bytes a1) = m /\ (rc = 0 -> sz <= m).
Proof.
  intros ps ok a sz rc a1 Hps Hsz E. unfold spec_ensure in E.
  destruct (Z.geb_spec (zlen (a_bytes a)) sz) as [Hge | Hlt].
  - inversion E; subst. exists (zlen (a_bytes a1)). rewrite ftrunc_id. split; [reflexivity |]. split; [reflexivity | intros; lia].
  - pose proof (spec_policy_ge ps (a_pol a) sz (zlen (a_bytes a)) Hps) as [Hn _].
    destruct (spec_policy ps (a_pol a) sz (zlen (a_bytes a))) as [n p] eqn:Ep. simpl in Hn.
    destruct (negb (a_maxoff a =? 0) && (n >? a_maxoff a)).
    + destruct (Z.ltb_spec (a_maxoff a) sz).
      * inversion E; subst. simpl. exists (zlen (a_bytes a)). rewrite ftrunc_id. split; [reflexivity |]. split; [reflexivity |].
        intros Hrc; discriminate Hrc.
      * destruct (spec_grow_shape ok a (a_maxoff a) p rc a1 ltac:(lia) E) as [m [A [B C]]].
        exists m. split; [exact A |]. split; [exact B |]. intros Hrc. specialize (C Hrc). lia.
    + destruct (spec_grow_shape ok a n p rc a1 ltac:(lia) E) as [m [A [B C]]].
      exists m. split; [exact A |]. split; [exact B |]. intros Hrc. specialize (C Hrc). lia.
Qed.

Lemma flat_read_after_write : forall ps ok a off d sp a', 0 < ps -> 0 <= off ->
  spec_write ps ok a off d = (0, sp, a') -> spec_read a' off (zlen d) = d /\ sp = zlen d.
Proof.
  intros ps ok a off d sp a' Hps Hoff E. pose proof (zlen_nonneg d). unfold spec_write in E.
  destruct (negb (a_maxoff a =? 0) && (off + zlen d >? a_maxoff a)); [discriminate E |].
  destruct (spec_ensure ps ok a (off + zlen d)) as [rc1 a1] eqn:Ee.
  destruct (spec_ensure_shape ps ok a (off + zlen d) rc1 a1 Hps ltac:(lia) Ee) as [m [_ [Hm Hge]]].
  destruct (Z.eqb_spec rc1 0) as [Hz | Hnz]; simpl in E; [| inversion E; congruence].
  inversion E; subst sp a'. unfold spec_read. simpl. specialize (Hge Hz). split; [| reflexivity].
  apply pread_splice_same. lia.
Qed.

(* outside the written range the bytes are the old ones, extended by zeros where the file grew *)
Lemma flat_write_frame : forall ps ok a off d sp a' b n, 0 < ps -> 0 <= off -> 0 <= b -> 0 <= n ->
  spec_write ps ok a off d = (0, sp, a') -> (b + n <= off \/ off + zlen d <= b) ->
  spec_read a' b n = pread (ftrunc (a_bytes a) (zlen (a_bytes a'))) b n.
Proof.
  intros ps ok a off d sp a' b n Hps Hoff Hb Hn E Hout. pose proof (zlen_nonneg d). unfold spec_write in E.
  destruct (negb (a_maxoff a =? 0) && (off + zlen d >? a_maxoff a)); [discriminate E |].
  destruct (spec_ensure ps ok a (off + zlen d)) as [rc1 a1] eqn:Ee.
  destruct (spec_ensure_shape ps ok a (off + zlen d) rc1 a1 Hps ltac:(lia) Ee) as [m [Hb1 [Hm Hge]]].
  destruct (Z.eqb_spec rc1 0) as [Hz | Hnz]; simpl in E; [| inversion E; congruence].
  inversion E; subst sp a'. unfold spec_read. simpl. specialize (Hge Hz).
  rewrite zlen_splice by lia. rewrite Hm. rewrite <- Hb1.
  destruct Hout; [apply pread_splice_before; lia | apply pread_splice_after; lia].
Qed.

(* zero where nothing was written: the bytes a size change adds are zeros *)
Lemma ftrunc_zero_tail : forall f n b k, zlen f <= b -> 0 <= k -> b + k <= n -> pread (ftrunc f n) b k = zeros k.
Proof.
  intros f n b k Hb Hk Hn. pose proof (zlen_nonneg f). unfold ftrunc, pread.
  rewrite (ztake_all n f) by lia.
  replace (zdrop b (f ++ zeros (n - zlen f))) with (zdrop (b - zlen f) (zeros (n - zlen f)))
    by (rewrite <- (zdrop_app_more f (zeros (n - zlen f)) (b - zlen f)) by lia; f_equal; lia).
  unfold zdrop, ztake, zeros.
  assert (Hrep : forall j m, (j <= m)%nat -> firstn j (repeat 0 m) = repeat 0 j).
  { induction j as [| j IHj]; intros m Hjm; [reflexivity |]. destruct m; [lia |]. simpl. f_equal. apply IHj. lia. }
  assert (Hsk : forall j m, skipn j (repeat 0 m) = repeat 0 (m - j)).
  { induction j as [| j IHj]; intros m; [rewrite Nat.sub_0_r; reflexivity |]. destruct m; [reflexivity |]. simpl. apply IHj. }
  rewrite Hsk. apply Hrep. lia.
Qed.

(* ---------------------------------------------------------------------------------------------- *)
(* byte lists, one byte at a time (the byte beyond the end of a list reads as 0) *)
Definition znth (x : Z) (l : list Z) : Z := nth (Z.to_nat x) l 0.

Lemma list_eq_znth : forall a b, zlen a = zlen b -> (forall x, 0 <= x < zlen a -> znth x a = znth x b) -> a = b.
Proof.
  intros a b Hl H. apply (nth_ext a b 0 0).
  - unfold zlen in Hl. lia.
  - intros n Hn. specialize (H (Z.of_nat n)). unfold znth in H. rewrite Nat2Z.id in H. apply H. unfold zlen. lia.
Qed.

Lemma znth_beyond : forall x l, zlen l <= x -> znth x l = 0.
Proof. intros x l H. unfold znth. apply nth_overflow. unfold zlen in H. lia. Qed.

Lemma znth_app : forall x a b, 0 <= x -> znth x (a ++ b) = if x <? zlen a then znth x a else znth (x - zlen a) b.
Proof.
  intros x a b Hx. unfold znth, zlen. destruct (Z.ltb_spec x (Z.of_nat (length a))).
  - apply app_nth1. lia.
  - rewrite app_nth2 by lia. f_equal. lia.
Qed.

Lemma znth_ztake : forall x n l, 0 <= x < n -> znth x (ztake n l) = znth x l.
Proof.
  intros x n l H. unfold znth, ztake.
  destruct (Nat.lt_ge_cases (Z.to_nat x) (length l)) as [Hlt | Hge].
  - rewrite <- (firstn_skipn (Z.to_nat n) l) at 2. rewrite app_nth1; [reflexivity |]. rewrite firstn_length. lia.
  - rewrite (nth_overflow l) by lia. apply nth_overflow. rewrite firstn_length. lia.
Qed.

Lemma znth_zdrop : forall x n l, 0 <= x -> 0 <= n -> znth x (zdrop n l) = znth (n + x) l.
Proof.
  intros x n l Hx Hn. unfold znth, zdrop.
  destruct (Nat.le_gt_cases (Z.to_nat n) (length l)) as [Hle | Hgt].
  - rewrite <- (firstn_skipn (Z.to_nat n) l) at 2. rewrite app_nth2 by (rewrite firstn_length; lia).
    rewrite firstn_length. f_equal. lia.
  - rewrite skipn_all2 by lia. rewrite (nth_overflow l) by lia. destruct (Z.to_nat x); reflexivity.
Qed.

Lemma znth_pread : forall f a n x, 0 <= a -> 0 <= x < n -> znth x (pread f a n) = znth (a + x) f.
Proof. intros. unfold pread. rewrite znth_ztake by lia. apply znth_zdrop; lia. Qed.

Lemma znth_zeros : forall x n, znth x (zeros n) = 0.
Proof.
  intros x n. unfold znth, zeros. generalize (Z.to_nat x) as i. induction (Z.to_nat n) as [| m IH]; intros i; destruct i; simpl; auto.
Qed.

Lemma znth_ftrunc : forall f n x, 0 <= x < n -> znth x (ftrunc f n) = znth x f.
Proof.
  intros f n x H. unfold ftrunc. rewrite znth_app by lia.
  destruct (Z.ltb_spec x (zlen (ztake n f))) as [Hlt | Hge].
  - apply znth_ztake. lia.
  - rewrite znth_zeros. symmetry. apply znth_beyond. rewrite zlen_ztake_min in Hge by lia. lia.
Qed.

Lemma znth_splice : forall v p d x, 0 <= p -> p + zlen d <= zlen v -> 0 <= x ->
  znth x (splice v p d) = if (p <=? x) && (x <? p + zlen d) then znth (x - p) d else znth x v.
Proof.
  intros v p d x Hp Hfit Hx. pose proof (zlen_nonneg d) as Hd. unfold splice.
  rewrite znth_app by lia. rewrite zlen_ztake by lia.
  destruct (Z.ltb_spec x p) as [Hlt | Hge].
  - destruct (Z.leb_spec p x); [lia |]. simpl. apply znth_ztake. lia.
  - destruct (Z.leb_spec p x); [| lia]. simpl. rewrite znth_app by lia.
    destruct (Z.ltb_spec (x - p) (zlen d)); destruct (Z.ltb_spec x (p + zlen d)); try lia; try reflexivity.
    rewrite znth_zdrop by lia. f_equal. lia.
Qed.

Lemma pread_ext : forall f g a n, 0 <= a -> 0 <= n -> a + n <= zlen f -> a + n <= zlen g ->
  (forall x, a <= x < a + n -> znth x f = znth x g) -> pread f a n = pread g a n.
Proof.
  intros f g a n Ha Hn Hf Hg H. apply list_eq_znth.
  - rewrite !zlen_pread by lia. reflexivity.
  - intros x Hx. rewrite zlen_pread in Hx by lia. rewrite !znth_pread by lia. apply H. lia.
Qed.

(* ---------------------------------------------------------------------------------------------- *)
(* iwp_copy_bytes as a whole *)
Lemma splice_app_rev : forall f a d1 d2, 0 <= a -> a + zlen d1 + zlen d2 <= zlen f ->
  splice (splice f (a + zlen d1) d2) a d1 = splice f a (d1 ++ d2).
Proof.
  intros f a d1 d2 Ha Hfit. pose proof (zlen_nonneg d1). pose proof (zlen_nonneg d2).
  apply list_eq_znth.
  - rewrite !zlen_splice; rewrite ?zlen_splice, ?zlen_app; lia.
  - intros x Hx. rewrite !zlen_splice in Hx by (rewrite ?zlen_splice; lia).
    rewrite znth_splice by (rewrite ?zlen_splice; lia). rewrite znth_splice by lia. rewrite (znth_splice f a (d1 ++ d2)) by (rewrite ?zlen_app; lia).
    rewrite zlen_app.
    destruct (Z_lt_ge_dec x a) as [C1 | C1].
    { destruct (Z.leb_spec a x); [lia |]. destruct (Z.leb_spec (a + zlen d1) x); [lia |]. reflexivity. }
    destruct (Z.leb_spec a x); [| lia]. simpl.
    destruct (Z_lt_ge_dec x (a + zlen d1)) as [C2 | C2].
    { destruct (Z.ltb_spec x (a + zlen d1)); [| lia]. destruct (Z.ltb_spec x (a + (zlen d1 + zlen d2))); [| lia].
      rewrite znth_app by lia. destruct (Z.ltb_spec (x - a) (zlen d1)); [reflexivity | lia]. }
    destruct (Z.ltb_spec x (a + zlen d1)); [lia |]. destruct (Z.leb_spec (a + zlen d1) x); [| lia]. simpl.
    destruct (Z.ltb_spec x (a + zlen d1 + zlen d2)), (Z.ltb_spec x (a + (zlen d1 + zlen d2))); try lia; try reflexivity.
    rewrite znth_app by lia. destruct (Z.ltb_spec (x - a) (zlen d1)); [lia |]. f_equal. lia.
Qed.

Lemma copy_loop_back_S : forall k f off noff pos,
  copy_loop_back (S k) f off noff pos =
    if 0 <? pos then
      copy_loop_back k (pwrite f (noff + pos - Z.min COPY_CHUNK pos) (pread f (off + pos - Z.min COPY_CHUNK pos) (Z.min COPY_CHUNK pos))) off noff
                     (pos - Z.min COPY_CHUNK pos)
    else f.
Proof. reflexivity. Qed.

(* the repaired forward-overlapping copy: back to front, no byte of the source is overwritten before it has been read *)
Lemma copy_loop_back_spec : forall f0 off siz noff, 0 <= off -> off < noff -> 0 <= siz -> noff + siz <= zlen f0 ->
  forall fuel pos fk, pos < Z.of_nat fuel -> 0 <= pos <= siz ->
  fk = splice f0 (noff + pos) (pread f0 (off + pos) (siz - pos)) ->
  copy_loop_back fuel fk off noff pos = splice f0 noff (pread f0 off siz).
Proof.
  intros f0 off siz noff Hoff Hlt Hsiz Hfit.
  assert (HC : 0 < COPY_CHUNK) by reflexivity.
  induction fuel as [| k IH]; intros pos fk Hfuel Hpos Hfk; [lia |].
  rewrite copy_loop_back_S. destruct (Z.ltb_spec 0 pos) as [Hp | Hz].
  - set (c := Z.min COPY_CHUNK pos). assert (Hc : 0 < c <= pos) by (unfold c; lia).
    assert (Hdl : zlen (pread f0 (off + pos) (siz - pos)) = siz - pos) by (apply zlen_pread; lia).
    assert (Esrc : pread fk (off + pos - c) c = pread f0 (off + pos - c) c).
    { subst fk. apply pread_splice_before; lia. }
    rewrite Esrc.
    assert (Hbl : zlen (pread f0 (off + pos - c) c) = c) by (apply zlen_pread; lia).
    apply IH; [lia | lia |].
    subst fk. rewrite pwrite_splice by (rewrite ?zlen_splice; lia).
    assert (E2 : splice (splice f0 (noff + pos) (pread f0 (off + pos) (siz - pos))) (noff + pos - c) (pread f0 (off + pos - c) c) =
                 splice f0 (noff + pos - c) (pread f0 (off + pos - c) c ++ pread f0 (off + pos) (siz - pos))).
    { rewrite <- (splice_app_rev f0 (noff + pos - c) (pread f0 (off + pos - c) c) (pread f0 (off + pos) (siz - pos))) by lia.
      f_equal. f_equal. lia. }
    rewrite E2. replace (noff + (pos - c)) with (noff + pos - c) by lia. f_equal.
    replace (siz - (pos - c)) with (c + (siz - pos)) by lia. rewrite <- pread_app by lia. f_equal; f_equal; lia.
  - assert (pos = 0) by lia. subst pos. rewrite Hfk. rewrite !Z.add_0_r, Z.sub_0_r. reflexivity.
Qed.

Lemma file_copy_spec : forall q f off siz noff rc f', 0 <= off -> 0 <= noff -> 0 <= siz -> noff + siz <= zlen f ->
  file_copy q f off siz noff = (rc, f') ->
  (rc = 0 /\ f' = splice f noff (pread f off siz)) \/
  (rc = EXF_E_OVERFLOW /\ f' = f /\ off < noff < off + siz).
Proof.
  intros q f off siz noff rc f' Hoff Hnoff Hsiz Hfit E. unfold file_copy in E.
  destruct (Z.eq_dec siz 0) as [Hz | Hnz].
  - subst siz. replace (negb (IW_RANGES_OVERLAP off (off + 0) noff (noff + 0) =? 0) && (noff >? off)) with false in E.
    + injection E as Hrc Hf. subst rc f'. left. split; [reflexivity |]. change (pread f off 0) with (@nil Z). rewrite splice_nil.
      reflexivity.
    + unfold IW_RANGES_OVERLAP. rewrite !Z.add_0_r.
      destruct (Z.gtb_spec off noff), (Z.leb_spec off noff), (Z.geb_spec off noff), (Z.ltb_spec off noff); simpl; try lia; reflexivity.
  - pose proof (ranges_overlap_correct off (off + siz) noff (noff + siz) ltac:(lia) ltac:(lia)) as Hov.
    assert (Hloop : (noff <= off \/ off + siz <= noff) ->
                    copy_loop (S (Z.to_nat siz)) f off siz noff 0 = splice f noff (pread f off siz)).
    { intros Hdir. apply (copy_loop_spec f off siz noff Hoff Hnoff Hsiz Hfit Hdir); try lia.
      - reflexivity.
      - change (pread f off 0) with (@nil Z). rewrite splice_nil. reflexivity. }
    destruct (Z.eqb_spec (IW_RANGES_OVERLAP off (off + siz) noff (noff + siz)) 0) as [Hno | Hyes]; cbn [negb andb] in E.
    + injection E as Hrc Hf. subst rc f'. left. split; [reflexivity |]. apply Hloop.
      destruct (Z_le_gt_dec noff off); [left; lia |]. right. destruct (Z_le_gt_dec (off + siz) noff); [lia |].
      exfalso. apply (proj2 Hov); lia.
    + destruct (Z.gtb_spec noff off) as [Hgt | Hle].
      * apply Hov in Hyes. remember (copy_loop_back (S (Z.to_nat siz)) f off noff siz) as res eqn:Eres in E.
        destruct (q_copy_fwd q); injection E as Hrc Hf; subst rc f'.
        -- left. split; [reflexivity |]. rewrite Eres. apply (copy_loop_back_spec f off siz noff Hoff ltac:(lia) Hsiz Hfit); try lia.
           rewrite Z.sub_diag. change (pread f (off + siz) 0) with (@nil Z). rewrite splice_nil. reflexivity.
        -- right. split; [reflexivity |]. split; [reflexivity |]. lia.
      * injection E as Hrc Hf. subst rc f'. left. split; [reflexivity |]. apply Hloop. left; lia.
Qed.

Lemma zlen_pread_gen : forall f a n, 0 <= a -> 0 <= n -> zlen (pread f a n) = Z.max 0 (Z.min n (zlen f - a)).
Proof.
  intros f a n Ha Hn. unfold pread. rewrite zlen_ztake_min by lia.
  destruct (Z_le_gt_dec a (zlen f)).
  - rewrite zlen_zdrop by lia. lia.
  - rewrite zdrop_all by lia. change (zlen (@nil Z)) with 0. lia.
Qed.

Lemma pread_ext_gen : forall f g a n, 0 <= a -> 0 <= n -> zlen f = zlen g ->
  (forall x, a <= x < a + n -> x < zlen f -> znth x f = znth x g) -> pread f a n = pread g a n.
Proof.
  intros f g a n Ha Hn Hl H. apply list_eq_znth.
  - rewrite !zlen_pread_gen by lia. rewrite Hl. reflexivity.
  - intros x Hx. rewrite zlen_pread_gen in Hx by lia. rewrite !znth_pread by lia. apply H; lia.
Qed.


(* the repaired iwp_copy_bytes never refuses: every copy is one splice *)
Lemma file_copy_fixed : forall q f off siz noff rc f', q_copy_fwd q = true -> 0 <= off -> 0 <= noff -> 0 <= siz -> noff + siz <= zlen f ->
  file_copy q f off siz noff = (rc, f') -> rc = 0 /\ f' = splice f noff (pread f off siz).
Proof.
  intros q f off siz noff rc f' Hq Hoff Hnoff Hsiz Hfit E.
  destruct (file_copy_spec q f off siz noff rc f' Hoff Hnoff Hsiz Hfit E) as [H | [Hrc _]]; [exact H |]. exfalso.
  unfold file_copy in E. rewrite Hq in E.
  destruct (negb (IW_RANGES_OVERLAP off (off + siz) noff (noff + siz) =? 0) && (noff >? off)); inversion E as [[E1 E2]]; rewrite Hrc in E1; discriminate E1.
Qed.
