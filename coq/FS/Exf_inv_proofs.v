(* C12 - proofs about the model FS/Exf.v, part 2: the state invariant (shared and private windows, windows the operating
   system refused to map), _exfile_initmmap_lw under an operating system that may refuse mmap, _exfile_truncate_lw,
   _exfile_ensure_size_lw, registration and removal of windows. *)
Require Import ZArith List Bool Lia.
Require Import IW.Lib.CInt IW.Gen.Facts IW.FS.Exf IW.FS.Exf_base_proofs.
Import ListNotations.
Local Open Scope Z_scope.
Ltac Zify.zify_post_hook ::= Z.div_mod_to_equations.

(* ---------------------------------------------------------------------------------------------- *)
(* 5. the state invariant *)
(* a private window keeps one entry per page; a detached page holds exactly one page of bytes *)
Definition pages_wf (ps : Z) (s : slot) : Prop :=
  zlen (s_pages s) = s_len s / ps /\
  Forall (fun pg => match pg with Some b => zlen b = ps | None => True end) (s_pages s).

(* A slot: page aligned offset and maximal length; the mapped length is page aligned and never more than what
   _exfile_initmmap_slot_lw derives from the file size (it is less - zero or a stale shorter length - only after the operating
   system refused a mapping); MAP_SHARED or MAP_PRIVATE *)
Definition slot_ok (ps fsz : Z) (s : slot) : Prop :=
  0 <= s_off s /\ s_off s mod ps = 0 /\ 0 < s_maxlen s /\ s_maxlen s mod ps = 0 /\
  0 <= s_len s <= slot_nlen fsz s /\ s_len s mod ps = 0 /\ (s_priv s = true -> pages_wf ps s).

Lemma slot_ok_intro : forall ps fsz s, 0 <= s_off s -> s_off s mod ps = 0 -> 0 < s_maxlen s -> s_maxlen s mod ps = 0 ->
  0 <= s_len s <= slot_nlen fsz s -> s_len s mod ps = 0 -> (s_priv s = true -> pages_wf ps s) -> slot_ok ps fsz s.
Proof. intros. unfold slot_ok. auto 10. Qed.

(* sorted by offset, pairwise disjoint by maxlen *)
Inductive SlotsInv (ps fsz : Z) : list slot -> Prop :=
| SI_nil : SlotsInv ps fsz []
| SI_cons : forall s tl, slot_ok ps fsz s -> Forall (fun t => s_off s + s_maxlen s <= s_off t) tl ->
    SlotsInv ps fsz tl -> SlotsInv ps fsz (s :: tl).

Record Inv (st : exf) : Prop := mkInv {
  inv_ps : PsOk (psize st);
  inv_fs : 0 <= fsize st <= LIM /\ fsize st mod psize st = 0;
  inv_file : zlen (file st) = fsize st;
  inv_mo : 0 <= maxoff st <= LIM /\ maxoff st mod psize st = 0 /\ (maxoff st = 0 \/ fsize st <= maxoff st);
  inv_pol : pol_ok (pol st);
  inv_slots : SlotsInv (psize st) (fsize st) (slots st)
}.

(* every window MAP_SHARED *)
Definition SharedL (ss : list slot) : Prop := Forall (fun s => s_priv s = false) ss.
Definition Shared (st : exf) : Prop := SharedL (slots st).
(* every window mapped as far as the file size allows (no refused mapping outstanding) *)
Definition FullL (fsz : Z) (ss : list slot) : Prop := Forall (fun s => s_len s = slot_nlen fsz s) ss.
Definition Full (st : exf) : Prop := FullL (fsize st) (slots st).

(* the operating system refuses mappings by a budget: what is mapped now is within it, less is always allowed *)
Definition MapMono (ok : os_ok) : Prop := forall t1 t2, t1 <= t2 -> os_map ok t2 = true -> os_map ok t1 = true.
Definition BudL (ok : os_ok) (ss : list slot) : Prop := MapMono ok /\ os_map ok (mapped_total ss) = true.
Definition Bud (ok : os_ok) (st : exf) : Prop := BudL ok (slots st).
(* ... or never *)
Definition MapAll (ok : os_ok) : Prop := forall t, os_map ok t = true.

Lemma MapAll_Mono : forall ok, MapAll ok -> MapMono ok.
Proof. intros ok H t1 t2 _ _. apply H. Qed.
Lemma MapAll_Bud : forall ok ss, MapAll ok -> BudL ok ss.
Proof. intros ok ss H. split; [apply MapAll_Mono; exact H | apply H]. Qed.

Lemma E_ERRNO_nz : EXF_E_ERRNO <> 0. Proof. discriminate. Qed.
Lemma E_IO_nz : EXF_E_IO <> 0. Proof. discriminate. Qed.
Lemma E_IO_ERRNO : EXF_E_IO <> EXF_E_ERRNO. Proof. discriminate. Qed.

Lemma slot_nlen_range : forall fsz s, 0 < s_maxlen s -> 0 <= slot_nlen fsz s <= s_maxlen s.
Proof. intros. unfold slot_nlen. destruct (Z.geb_spec (s_off s) fsz); lia. Qed.

Lemma slot_nlen_mono : forall a b s, a <= b -> 0 < s_maxlen s -> slot_nlen a s <= slot_nlen b s.
Proof. intros a b s H Hm. unfold slot_nlen. destruct (Z.geb_spec (s_off s) a), (Z.geb_spec (s_off s) b); lia. Qed.

Lemma slot_nlen_mod : forall ps fsz s, 0 < ps -> fsz mod ps = 0 -> s_off s mod ps = 0 -> s_maxlen s mod ps = 0 ->
  slot_nlen fsz s mod ps = 0.
Proof.
  intros ps fsz s Hps Hf Ho Hm. unfold slot_nlen. destruct (Z.geb_spec (s_off s) fsz); [apply Z.mod_0_l; lia |].
  destruct (Z.min_spec (s_maxlen s) (fsz - s_off s)) as [[_ ->] | [_ ->]]; [exact Hm |].
  rewrite Zminus_mod, Hf, Ho. reflexivity.
Qed.

Lemma slot_nlen_in_file : forall fsz s, 0 < slot_nlen fsz s -> s_off s + slot_nlen fsz s <= fsz.
Proof. intros fsz s. unfold slot_nlen. destruct (Z.geb_spec (s_off s) fsz); lia. Qed.

Lemma slot_in_file : forall ps fsz s, slot_ok ps fsz s -> 0 < s_len s -> s_off s + s_len s <= fsz.
Proof.
  intros ps fsz s [_ [_ [Hm [_ [Hl _]]]]] Hpos. pose proof (slot_nlen_in_file fsz s). lia.
Qed.

Lemma SlotsInv_Forall : forall ps fsz ss, SlotsInv ps fsz ss -> Forall (slot_ok ps fsz) ss.
Proof. intros ps fsz ss H. induction H; constructor; auto. Qed.

(* ---------------------------------------------------------------------------------------------- *)
(* what _exfile_initmmap_slot_lw makes of a slot when mmap is granted, and when it is refused *)
Definition pinit_slot (ps fsz : Z) (s : slot) : slot :=
  let nlen := slot_nlen fsz s in
  if nlen =? s_len s then s
  else mkSlot (s_off s) (s_maxlen s) nlen (s_priv s) (repeat None (Z.to_nat (nlen / ps))).
Definition pinit (ps fsz : Z) (ss : list slot) : list slot := map (pinit_slot ps fsz) ss.
Definition unmap (s : slot) : slot := mkSlot (s_off s) (s_maxlen s) 0 (s_priv s) [].

Lemma pinit_slot_fields : forall ps fsz s,
  s_off (pinit_slot ps fsz s) = s_off s /\ s_maxlen (pinit_slot ps fsz s) = s_maxlen s /\
  s_priv (pinit_slot ps fsz s) = s_priv s /\ s_len (pinit_slot ps fsz s) = slot_nlen fsz s.
Proof.
  intros. unfold pinit_slot. destruct (Z.eqb_spec (slot_nlen fsz s) (s_len s)); simpl; auto.
Qed.

Lemma pinit_slot_nlen : forall ps fsz x s, slot_nlen x (pinit_slot ps fsz s) = slot_nlen x s.
Proof. intros. destruct (pinit_slot_fields ps fsz s) as [Eo [Em _]]. unfold slot_nlen. rewrite Eo, Em. reflexivity. Qed.
Lemma unmap_nlen : forall x s, slot_nlen x (unmap s) = slot_nlen x s.
Proof. reflexivity. Qed.

Lemma pages_fresh_wf : forall ps n off ml pr, 0 < ps -> 0 <= n ->
  pages_wf ps (mkSlot off ml n pr (repeat None (Z.to_nat (n / ps)))).
Proof.
  intros ps n off ml pr Hps Hn. unfold pages_wf. simpl. split.
  - unfold zlen. rewrite repeat_length. rewrite Z2Nat.id; [reflexivity | apply Z.div_pos; lia].
  - apply Forall_forall. intros pg Hin. apply repeat_spec in Hin. subst pg. exact I.
Qed.

(* a freshly derived slot is in order at the size it was derived from, whatever it was before *)
Lemma pinit_slot_ok : forall ps fsz0 fsz s, 0 < ps -> fsz mod ps = 0 -> slot_ok ps fsz0 s -> slot_ok ps fsz (pinit_slot ps fsz s).
Proof.
  intros ps fsz0 fsz s Hps Hf [H1 [H2 [H3 [H4 [H5 [H6 H7]]]]]].
  pose proof (slot_nlen_range fsz s H3) as Hr. pose proof (slot_nlen_mod ps fsz s Hps Hf H2 H4) as Hm.
  unfold pinit_slot. destruct (Z.eqb_spec (slot_nlen fsz s) (s_len s)) as [E | E].
  - apply slot_ok_intro; auto. lia.
  - apply slot_ok_intro; simpl; auto.
    + change (0 <= slot_nlen fsz s <= slot_nlen fsz s). lia.
    + intros _. apply pages_fresh_wf; lia.
Qed.

Lemma unmap_ok : forall ps fsz0 fsz s, 0 < ps -> slot_ok ps fsz0 s -> slot_ok ps fsz (unmap s).
Proof.
  intros ps fsz0 fsz s Hps [H1 [H2 [H3 [H4 [H5 [H6 H7]]]]]].
  pose proof (slot_nlen_range fsz s H3) as Hr.
  apply slot_ok_intro; simpl; auto;
    try (change (slot_nlen fsz (unmap s)) with (slot_nlen fsz s); lia);
    try (intros _; unfold pages_wf; simpl; split; [rewrite Z.div_0_l by lia; reflexivity | constructor]).
Qed.

Lemma pinit_slot_full_id : forall ps fsz s, s_len s = slot_nlen fsz s -> pinit_slot ps fsz s = s.
Proof. intros ps fsz s H. unfold pinit_slot. rewrite <- H. rewrite Z.eqb_refl. reflexivity. Qed.

Lemma pinit_full_id : forall ps fsz ss, FullL fsz ss -> pinit ps fsz ss = ss.
Proof.
  intros ps fsz ss H. induction H as [| s tl Hs Ht IH]; simpl; [reflexivity |].
  rewrite pinit_slot_full_id by exact Hs. f_equal. exact IH.
Qed.

Lemma pinit_full : forall ps fsz ss, FullL fsz (pinit ps fsz ss).
Proof.
  intros ps fsz ss. induction ss as [| s tl IH]; simpl; constructor; [| exact IH].
  destruct (pinit_slot_fields ps fsz s) as [_ [_ [_ El]]]. rewrite El. symmetry. apply pinit_slot_nlen.
Qed.

Lemma pinit_shared : forall ps fsz ss, SharedL ss -> SharedL (pinit ps fsz ss).
Proof.
  intros ps fsz ss H. induction H as [| s tl Hs Ht IH]; simpl; constructor; [| exact IH].
  destruct (pinit_slot_fields ps fsz s) as [_ [_ [Ep _]]]. rewrite Ep. exact Hs.
Qed.

(* one slot under an operating system that may refuse *)
Lemma initmmap_slot_cases : forall ok ps fsz others s rc s', initmmap_slot ok ps fsz others s = (rc, s') ->
  (rc = 0 /\ s' = pinit_slot ps fsz s /\
   (slot_nlen fsz s = s_len s \/ slot_nlen fsz s <= 0 \/ os_map ok (others + slot_nlen fsz s) = true)) \/
  (rc = EXF_E_ERRNO /\ s' = unmap s /\ slot_nlen fsz s <> s_len s /\ 0 < slot_nlen fsz s /\
   os_map ok (others + slot_nlen fsz s) = false).
Proof.
  intros ok ps fsz others s rc s' E. unfold initmmap_slot in E. unfold pinit_slot.
  destruct (Z.eqb_spec (slot_nlen fsz s) (s_len s)) as [Eq | Ne].
  - inversion E; subst. left. auto.
  - destruct (Z.gtb_spec (slot_nlen fsz s) 0) as [Hp | Hz]; simpl in E.
    + destruct (os_map ok (others + slot_nlen fsz s)) eqn:Em; simpl in E; inversion E; subst.
      * left. auto.
      * right. unfold unmap. repeat split; auto.
    + inversion E; subst. left. split; [reflexivity |]. split; [reflexivity |]. right; left. lia.
Qed.

(* the outcome of _exfile_initmmap_lw: slots re-derived one after the other; the first one whose mmap is refused is left
   unmapped and the rest untouched.  Under a budget only a slot that has to GROW can be refused. *)
Inductive InitRes (ps fsz : Z) : list slot -> list slot -> Prop :=
| IR_nil : InitRes ps fsz [] []
| IR_ok : forall s tl tl', InitRes ps fsz tl tl' -> InitRes ps fsz (s :: tl) (pinit_slot ps fsz s :: tl')
| IR_fail : forall s tl, s_len s < slot_nlen fsz s -> InitRes ps fsz (s :: tl) (unmap s :: tl).

Lemma mapped_total_nonneg : forall ss, Forall (fun s => 0 <= s_len s) ss -> 0 <= mapped_total ss.
Proof. intros ss H. induction H; simpl; lia. Qed.

Lemma initmmap_from_res : forall ok ps fsz, MapMono ok -> forall ss before rc ss',
  Forall (fun s => 0 <= s_len s /\ 0 < s_maxlen s) ss ->
  os_map ok (before + mapped_total ss) = true ->
  initmmap_from ok ps fsz before ss = (rc, ss') ->
  InitRes ps fsz ss ss' /\ os_map ok (before + mapped_total ss') = true /\
  (rc = 0 -> ss' = pinit ps fsz ss) /\ (rc = 0 \/ (rc = EXF_E_ERRNO /\ exists t, os_map ok t = false)).
Proof.
  intros ok ps fsz HM. induction ss as [| s tl IH]; intros before rc ss' Hall Hb E; simpl in E.
  - inversion E; subst. repeat split; auto. constructor.
  - inversion Hall as [| s0 tl0 [Hl Hml] Htl]; subst s0 tl0.
    assert (Htn : 0 <= mapped_total tl) by (apply mapped_total_nonneg; eapply Forall_impl; [| exact Htl]; simpl; intros a [Ha _]; exact Ha).
    pose proof (slot_nlen_range fsz s Hml) as Hnr.
    destruct (initmmap_slot ok ps fsz (before + mapped_total tl) s) as [rc1 s1] eqn:Es.
    simpl in Hb.
    destruct (initmmap_slot_cases _ _ _ _ _ _ _ Es) as [[-> [-> Hwhy]] | [-> [-> [Hne [Hpos Hno]]]]].
    + simpl in E. destruct (pinit_slot_fields ps fsz s) as [_ [_ [_ El]]].
      destruct (initmmap_from ok ps fsz (before + s_len (pinit_slot ps fsz s)) tl) as [rc2 tl2] eqn:Er.
      inversion E; subst rc ss'. clear E.
      assert (Hb2 : os_map ok (before + s_len (pinit_slot ps fsz s) + mapped_total tl) = true).
      { rewrite El. destruct Hwhy as [Hq | [Hq | Hq]].
        - rewrite Hq. rewrite <- Hb. f_equal. lia.
        - apply (HM _ (before + (s_len s + mapped_total tl))); [lia | exact Hb].
        - rewrite <- Hq. f_equal. lia. }
      destruct (IH _ _ _ Htl Hb2 Er) as [A [B [C D]]].
      split; [constructor; exact A |]. split; [simpl; rewrite <- B; f_equal; lia |].
      split; [intros Hrc; simpl; f_equal; apply C; exact Hrc | exact D].
    + simpl in E. inversion E; subst rc ss'. clear E.
      assert (Hgrow : s_len s < slot_nlen fsz s).
      { destruct (Z_lt_ge_dec (s_len s) (slot_nlen fsz s)) as [Hlt | Hge]; [exact Hlt |]. exfalso.
        assert (os_map ok (before + mapped_total tl + slot_nlen fsz s) = true)
          by (apply (HM _ (before + (s_len s + mapped_total tl))); [lia | exact Hb]).
        congruence. }
      split; [constructor; exact Hgrow |].
      split; [simpl; apply (HM _ (before + (s_len s + mapped_total tl))); [lia | exact Hb] |].
      split; [intros Hrc; exfalso; exact (E_ERRNO_nz Hrc) |].
      right. split; [reflexivity |]. eexists; exact Hno.
Qed.

(* when mmap is never refused _exfile_initmmap_lw re-derives every slot *)
Lemma initmmap_from_all : forall ok ps fsz, MapAll ok -> forall ss before,
  initmmap_from ok ps fsz before ss = (0, pinit ps fsz ss).
Proof.
  intros ok ps fsz HA. induction ss as [| s tl IH]; intros before; simpl; [reflexivity |].
  destruct (initmmap_slot ok ps fsz (before + mapped_total tl) s) as [rc1 s1] eqn:Es.
  destruct (initmmap_slot_cases _ _ _ _ _ _ _ Es) as [[-> [-> _]] | [_ [_ [_ [_ Hno]]]]].
  - simpl. rewrite IH. reflexivity.
  - rewrite HA in Hno. discriminate Hno.
Qed.

(* a list whose slots all have the derived length is left alone, whatever the operating system would answer *)
Lemma initmmap_from_full : forall ok ps fsz ss before, FullL fsz ss -> initmmap_from ok ps fsz before ss = (0, ss).
Proof.
  intros ok ps fsz ss. induction ss as [| s tl IH]; intros before H; simpl; [reflexivity |].
  inversion H as [| s0 tl0 Hs Ht]; subst s0 tl0. unfold initmmap_slot. rewrite <- Hs. rewrite Z.eqb_refl. simpl.
  rewrite IH by exact Ht. reflexivity.
Qed.

(* ---------------------------------------------------------------------------------------------- *)
(* the invariant under InitRes *)
Definition geo_same (s s' : slot) : Prop := s_off s' = s_off s /\ s_maxlen s' = s_maxlen s /\ s_priv s' = s_priv s.
Definition GeoSame (ss ss' : list slot) : Prop := Forall2 geo_same ss ss'.

Lemma geo_same_refl : forall s, geo_same s s. Proof. intros s. unfold geo_same. auto. Qed.
Lemma GeoSame_refl : forall ss, GeoSame ss ss.
Proof. induction ss; constructor; [apply geo_same_refl | assumption]. Qed.
Lemma GeoSame_trans : forall a b c, GeoSame a b -> GeoSame b c -> GeoSame a c.
Proof.
  intros a b c H. revert c. induction H as [| x y tx ty Hxy Ht IH]; intros c Hc; inversion Hc; subst; constructor.
  - destruct Hxy as [A [B C]]. match goal with H : geo_same y _ |- _ => destruct H as [A' [B' C']] end.
    unfold geo_same. repeat split; congruence.
  - apply IH. assumption.
Qed.

Lemma InitRes_geo : forall ps fsz ss ss', InitRes ps fsz ss ss' -> GeoSame ss ss'.
Proof.
  intros ps fsz ss ss' H. induction H.
  - constructor.
  - constructor; [| exact IHInitRes]. destruct (pinit_slot_fields ps fsz s) as [A [B [C _]]]. unfold geo_same. auto.
  - constructor; [unfold geo_same, unmap; simpl; auto | apply GeoSame_refl].
Qed.

Lemma GeoSame_lower : forall ss ss' c, GeoSame ss ss' -> Forall (fun t => c <= s_off t) ss -> Forall (fun t => c <= s_off t) ss'.
Proof.
  intros ss ss' c H. induction H as [| x y tx ty [A _] Ht IH]; intros F; inversion F; subst; constructor; [lia | auto].
Qed.

Lemma GeoSame_shared : forall ss ss', GeoSame ss ss' -> SharedL ss -> SharedL ss'.
Proof.
  intros ss ss' H. induction H as [| x y tx ty [_ [_ C]] Ht IH]; intros F; inversion F; subst; constructor; [congruence | apply IH; assumption].
Qed.

(* re-deriving at the size the list is in order for keeps it in order *)
Lemma InitRes_inv_same : forall ps fsz ss ss', 0 < ps -> fsz mod ps = 0 ->
  SlotsInv ps fsz ss -> InitRes ps fsz ss ss' -> SlotsInv ps fsz ss'.
Proof.
  intros ps fsz ss ss' Hps Hf HS H. revert HS. induction H; intros HS.
  - constructor.
  - inversion HS as [| s0 tl0 Hs Hfa Ht]; subst. constructor.
    + eapply pinit_slot_ok; eauto.
    + destruct (pinit_slot_fields ps fsz s) as [A [B _]]. rewrite A, B. eapply GeoSame_lower; [eapply InitRes_geo; eassumption | exact Hfa].
    + apply IHInitRes. exact Ht.
  - inversion HS as [| s0 tl0 Hs Hfa Ht]; subst. constructor; [eapply unmap_ok; eauto | exact Hfa | exact Ht].
Qed.

(* re-deriving at a smaller size keeps the list in order for the larger one *)
Lemma InitRes_inv_smaller : forall ps old size ss ss', 0 < ps -> size mod ps = 0 -> size <= old ->
  SlotsInv ps old ss -> InitRes ps size ss ss' -> SlotsInv ps old ss'.
Proof.
  intros ps old size ss ss' Hps Hf Hle HS H. revert HS. induction H; intros HS.
  - constructor.
  - inversion HS as [| s0 tl0 Hs Hfa Ht]; subst. constructor.
    + pose proof (pinit_slot_ok ps old size s Hps Hf Hs) as [H1 [H2 [H3 [H4 [H5 [H6 H7]]]]]].
      apply slot_ok_intro; auto.
      pose proof (slot_nlen_mono size old (pinit_slot ps size s) Hle H3). lia.
    + destruct (pinit_slot_fields ps size s) as [A [B _]]. rewrite A, B. eapply GeoSame_lower; [eapply InitRes_geo; eassumption | exact Hfa].
    + apply IHInitRes. exact Ht.
  - inversion HS as [| s0 tl0 Hs Hfa Ht]; subst. constructor; [eapply unmap_ok; eauto | exact Hfa | exact Ht].
Qed.

(* a growth whose windows could not follow, rolled back: the slots that had grown shrink again (never refused), so the
   list is in order for the old size *)
Lemma InitRes_rollback : forall ps old size ss ss1, 0 < ps -> old mod ps = 0 -> size mod ps = 0 -> old <= size ->
  SlotsInv ps old ss -> InitRes ps size ss ss1 -> forall ss2, InitRes ps old ss1 ss2 -> SlotsInv ps old ss2.
Proof.
  intros ps old size ss ss1 Hps Hf Hfs Hle HS H. revert HS. induction H; intros HS ss2 H2.
  - inversion H2; subst. constructor.
  - inversion HS as [| s0 tl0 Hs Hfa Ht]; subst.
    assert (Hml : 0 < s_maxlen s) by (destruct Hs as [_ [_ [Hm _]]]; exact Hm).
    inversion H2 as [| s1 tl1 tl2 H2t | s1 tl1 Hgrow]; subst.
    + constructor.
      * exact (pinit_slot_ok ps size old _ Hps Hf (pinit_slot_ok ps old size s Hps Hfs Hs)).
      * destruct (pinit_slot_fields ps old (pinit_slot ps size s)) as [A [B _]]. destruct (pinit_slot_fields ps size s) as [A' [B' _]].
        rewrite A, B, A', B'. eapply GeoSame_lower; [| exact Hfa].
        eapply GeoSame_trans; eapply InitRes_geo; eassumption.
      * eapply IHInitRes; eauto.
    + exfalso. destruct (pinit_slot_fields ps size s) as [_ [_ [_ El]]]. rewrite El in Hgrow. rewrite pinit_slot_nlen in Hgrow.
      pose proof (slot_nlen_mono old size s Hle Hml). lia.
  - inversion HS as [| s0 tl0 Hs Hfa Ht]; subst.
    inversion H2 as [| s1 tl1 tl2 H2t | s1 tl1 Hgrow]; subst.
    + constructor.
      * eapply pinit_slot_ok; [exact Hps | exact Hf | eapply (unmap_ok ps old old); eauto].
      * destruct (pinit_slot_fields ps old (unmap s)) as [A [B _]]. rewrite A, B. simpl.
        eapply GeoSame_lower; [eapply InitRes_geo; eassumption | exact Hfa].
      * eapply InitRes_inv_same; eauto.
    + constructor; [eapply (unmap_ok ps old old); eauto; eapply (unmap_ok ps old old); eauto | exact Hfa | exact Ht].
Qed.

Lemma pinit_inv : forall ps fsz0 fsz ss, 0 < ps -> fsz mod ps = 0 -> SlotsInv ps fsz0 ss -> SlotsInv ps fsz (pinit ps fsz ss).
Proof.
  intros ps fsz0 fsz ss Hps Hf H. induction H as [| s tl Hs Hfa Ht IH]; simpl; [constructor |].
  constructor; [eapply pinit_slot_ok; eauto | | exact IH].
  destruct (pinit_slot_fields ps fsz s) as [A [B _]]. rewrite A, B. unfold pinit. rewrite Forall_map.
  eapply Forall_impl; [| exact Hfa]. intros t Ht0. simpl in Ht0. destruct (pinit_slot_fields ps fsz t) as [A' _]. rewrite A'. exact Ht0.
Qed.

Lemma pinit_geo : forall ps fsz ss, GeoSame ss (pinit ps fsz ss).
Proof.
  intros ps fsz ss. induction ss as [| s tl IH]; simpl; constructor; [| exact IH].
  destruct (pinit_slot_fields ps fsz s) as [A [B [C _]]]. unfold geo_same. auto.
Qed.

Definition lens_ok (ss : list slot) : Prop := Forall (fun s => 0 <= s_len s /\ 0 < s_maxlen s) ss.

Lemma SlotsInv_lens : forall ps fsz ss, SlotsInv ps fsz ss -> lens_ok ss.
Proof.
  intros ps fsz ss H. apply SlotsInv_Forall in H. unfold lens_ok. eapply Forall_impl; [| exact H].
  intros s [_ [_ [H3 [_ [H5 _]]]]]. lia.
Qed.

Lemma InitRes_lens : forall ps fsz ss ss', InitRes ps fsz ss ss' -> lens_ok ss -> lens_ok ss'.
Proof.
  intros ps fsz ss ss' H. induction H; intros L.
  - constructor.
  - inversion L as [| s0 tl0 [Hl Hm] Lt]; subst. constructor; [| apply IHInitRes; exact Lt].
    destruct (pinit_slot_fields ps fsz s) as [_ [B [_ D]]]. rewrite B, D. pose proof (slot_nlen_range fsz s Hm). lia.
  - inversion L as [| s0 tl0 [Hl Hm] Lt]; subst. constructor; [simpl; lia | exact Lt].
Qed.

Lemma initmmap_res : forall ok ps fsz ss rc ss', BudL ok ss -> lens_ok ss -> initmmap ok ps fsz ss = (rc, ss') ->
  InitRes ps fsz ss ss' /\ BudL ok ss' /\ (rc = 0 -> ss' = pinit ps fsz ss) /\
  (rc = 0 \/ (rc = EXF_E_ERRNO /\ exists t, os_map ok t = false)).
Proof.
  intros ok ps fsz ss rc ss' [HM HB] HL E. unfold initmmap in E.
  destruct (initmmap_from_res ok ps fsz HM ss 0 rc ss' HL HB E) as [A [B [C D]]].
  split; [exact A |]. split; [split; [exact HM | exact B] |]. auto.
Qed.

Lemma ftrunc_back : forall f old size, zlen f = old -> old <= size -> ftrunc (ftrunc f size) old = f.
Proof.
  intros f old size Hf Hle. pose proof (zlen_nonneg f). apply list_eq_znth.
  - rewrite zlen_ftrunc by lia. lia.
  - intros x Hx. rewrite zlen_ftrunc in Hx by lia. rewrite znth_ftrunc by lia. apply znth_ftrunc. lia.
Qed.

Lemma set_slots_id : forall st, set_slots st (slots st) = st.
Proof. intros st. destruct st; reflexivity. Qed.
Lemma set_pol_same : forall st, set_pol st (pol st) = st.
Proof. intros st. destruct st; reflexivity. Qed.

Lemma mkInv' : forall f fs mo ps ss p, PsOk ps -> 0 <= fs <= LIM -> fs mod ps = 0 -> zlen f = fs -> 0 <= mo <= LIM ->
  mo mod ps = 0 -> (mo = 0 \/ fs <= mo) -> pol_ok p -> SlotsInv ps fs ss -> Inv (mkExf f fs mo ps ss p).
Proof. intros. constructor; simpl; auto. Qed.

Lemma set_slots_inv : forall st ss, Inv st -> SlotsInv (psize st) (fsize st) ss -> Inv (set_slots st ss).
Proof. intros st ss [H1 H2 H3 H4 H5 H6] HS. constructor; simpl; auto. Qed.
Lemma set_pol_inv : forall st p, Inv st -> pol_ok p -> Inv (set_pol st p).
Proof. intros st p [H1 H2 H3 H4 H5 H6] Hp. constructor; simpl; auto. Qed.
Lemma set_fs_inv : forall st f ss, Inv st -> zlen f = fsize st -> SlotsInv (psize st) (fsize st) ss -> Inv (set_fs st f ss).
Proof. intros st f ss [H1 H2 H3 H4 H5 H6] Hf HS. constructor; simpl; auto. Qed.

(* ---------------------------------------------------------------------------------------------- *)
(* _exfile_truncate_lw.  `bytes` is any byte array of the length of the file: the flat specification only looks at the
   length to decide, so the same lemma serves the file itself (shared windows) and the reader's view (private windows). *)
Lemma truncate_lw_spec : forall ok st size rc st', Inv st -> Bud ok st -> 0 <= size <= LIM ->
  truncate_lw ok st size = (rc, st') ->
  Inv st' /\ Bud ok st' /\ psize st' = psize st /\ maxoff st' = maxoff st /\ pol st' = pol st /\
  file st' = ftrunc (file st) (fsize st') /\ GeoSame (slots st) (slots st') /\
  (rc = 0 -> fsize st' = rup size (psize st) /\ (st' = st \/ slots st' = pinit (psize st) (fsize st') (slots st))) /\
  (rc <> 0 -> fsize st' = fsize st) /\
  (fsize st < fsize st' -> os_grow ok (fsize st') = true) /\
  (Full st -> rc = EXF_E_IO -> st' = st) /\
  (MapAll ok -> Full st -> slots st' = pinit (psize st) (fsize st') (slots st)) /\
  (forall bytes, zlen bytes = fsize st ->
     spec_truncate (psize st) ok (mkFlat bytes (maxoff st) (pol st)) size =
       (rc, mkFlat (ftrunc bytes (fsize st')) (maxoff st) (pol st)) \/
     (rc = EXF_E_ERRNO /\ exists t, os_map ok t = false)).
Proof.
  intros ok st size rc st' HI HB Hs E.
  pose proof (inv_ps st HI) as HP. pose proof (PsOk_pos _ HP) as Hps. assert (Hps0 : 0 < psize st) by lia.
  pose proof (inv_fs st HI) as [Hf1 Hf2]. pose proof (inv_file st HI) as Hfl. pose proof (inv_mo st HI) as [Hm1 [Hm2 Hm3]].
  pose proof (inv_slots st HI) as HS. pose proof (SlotsInv_lens _ _ _ HS) as HL. pose proof LIM_val as EL.
  unfold truncate_lw in E. destruct (Z.ltb_spec size 0); [lia |]. rewrite uw_small in E by lia. rewrite roundup_ps in E by (auto; lia). cbv zeta in E.
  set (n := rup size (psize st)) in *.
  assert (Hn : 0 <= n <= LIM) by (split; [apply rup_nonneg; lia | apply rup_le_aligned; try lia; apply LIM_mod; auto]).
  assert (Hnm : n mod psize st = 0) by (apply rup_mod; lia).
  assert (Hfid : forall bytes, zlen bytes = fsize st -> mkFlat bytes (maxoff st) (pol st) = mkFlat (ftrunc bytes (fsize st)) (maxoff st) (pol st))
    by (intros bytes Hb; rewrite <- Hb, ftrunc_id; reflexivity).
  assert (Hpid : Full st -> slots st = pinit (psize st) (fsize st) (slots st)) by (intros HF; symmetry; apply pinit_full_id; exact HF).
  destruct (Z.eqb_spec (fsize st) n) as [Een | Een].
  { (* nothing to do *)
    inversion E; subst rc st'. clear E.
    split; [exact HI |]. split; [exact HB |]. do 3 (split; [reflexivity |]).
    split; [symmetry; rewrite <- Hfl; apply ftrunc_id |]. split; [apply GeoSame_refl |].
    split; [intros _; split; [exact Een | left; reflexivity] |]. split; [intros Hc; congruence |]. split; [intros; lia |].
    split; [intros; reflexivity |]. split; [intros _ HF; exact (Hpid HF) |].
    intros bytes Hb. left. unfold spec_truncate, spec_grow. simpl. fold n. rewrite Hb.
    destruct (Z.ltb_spec (fsize st) n); [lia |]. rewrite andb_false_r. simpl. unfold spec_resize. simpl. rewrite <- Een. reflexivity. }
  destruct (Z.ltb_spec (fsize st) n) as [Hlt | Hge].
  - (* growth *)
    destruct (negb (maxoff st =? 0) && (n >? maxoff st)) eqn:Emo.
    { inversion E; subst rc st'. clear E.
      split; [exact HI |]. split; [exact HB |]. do 3 (split; [reflexivity |]).
      split; [symmetry; rewrite <- Hfl; apply ftrunc_id |]. split; [apply GeoSame_refl |].
      split; [intros Hc; discriminate Hc |]. split; [intros; reflexivity |]. split; [intros; lia |].
      split; [intros; reflexivity |]. split; [intros _ HF; exact (Hpid HF) |].
      intros bytes Hb. left. unfold spec_truncate. simpl. fold n. rewrite Hb.
      replace (negb (maxoff st =? 0) && (fsize st <? n) && (n >? maxoff st)) with true.
      - rewrite <- (Hfid bytes Hb). reflexivity.
      - destruct (Z.ltb_spec (fsize st) n); [| lia]. rewrite andb_true_r. symmetry. exact Emo. }
    assert (Hmo : maxoff st = 0 \/ n <= maxoff st).
    { destruct (Z.eqb_spec (maxoff st) 0); [left; assumption |]. simpl in Emo. rewrite Z.gtb_ltb in Emo. apply Z.ltb_ge in Emo. right; lia. }
    assert (Hspec_cond : negb (maxoff st =? 0) && (fsize st <? n) && (n >? maxoff st) = false).
    { destruct (Z.ltb_spec (fsize st) n); [| lia]. rewrite andb_true_r. exact Emo. }
    destruct (os_grow ok n) eqn:Eg; simpl in E.
    + destruct (initmmap ok (psize st) n (slots st)) as [rc1 ss1] eqn:Ei.
      destruct (initmmap_res ok (psize st) n (slots st) rc1 ss1 HB HL Ei) as [R1 [B1 [P1 D1]]].
      destruct (Z.eqb_spec rc1 0) as [Hz | Hnz].
      * (* the file and every window follow *)
        subst rc1. specialize (P1 eq_refl). subst ss1. inversion E; subst rc st'. clear E.
        split. { apply mkInv'; [exact HP | lia | exact Hnm | apply zlen_ftrunc; lia | lia | exact Hm2 | exact Hmo | exact (inv_pol st HI) | eapply pinit_inv; eauto]. }
        split; [exact B1 |]. do 3 (split; [reflexivity |]). split; [reflexivity |]. split; [simpl; apply pinit_geo |].
        split; [intros _; simpl; split; [reflexivity | right; reflexivity] |]. split; [intros Hc; congruence |].
        split; [simpl; intros _; exact Eg |]. split; [intros _ Hc; discriminate Hc |]. split; [intros; reflexivity |].
        intros bytes Hb. left. unfold spec_truncate, spec_grow. simpl. fold n. rewrite Hb, Hspec_cond, Eg.
        rewrite andb_false_r. reflexivity.
      * (* a window cannot follow: the space is given back, the windows are re-derived from the old size *)
        destruct D1 as [D1 | [D1 Dt]]; [congruence |]. subst rc1.
        destruct (initmmap ok (psize st) (fsize st) ss1) as [rc2 ss2] eqn:Ei2.
        pose proof (InitRes_lens _ _ _ _ R1 HL) as HL1.
        destruct (initmmap_res ok (psize st) (fsize st) ss1 rc2 ss2 B1 HL1 Ei2) as [R2 [B2 _]].
        simpl in E. inversion E; subst rc st'. clear E.
        pose proof (InitRes_rollback (psize st) (fsize st) n (slots st) ss1 Hps0 Hf2 Hnm ltac:(lia) HS R1 ss2 R2) as HS2.
        rewrite (ftrunc_back (file st) (fsize st) n Hfl ltac:(lia)).
        split; [apply mkInv'; auto; exact (inv_pol st HI) |]. split; [exact B2 |]. do 3 (split; [reflexivity |]).
        split; [simpl; symmetry; rewrite <- Hfl; apply ftrunc_id |].
        split; [simpl; eapply GeoSame_trans; eapply InitRes_geo; eassumption |].
        split; [intros Hc; exfalso; exact (E_ERRNO_nz Hc) |]. split; [intros; reflexivity |]. split; [simpl; intros; lia |].
        split; [intros _ Hc; exfalso; apply E_IO_ERRNO; symmetry; exact Hc |].
        split; [intros HA; destruct Dt as [t Ht]; rewrite HA in Ht; discriminate Ht |].
        intros bytes Hb. right. split; [reflexivity | exact Dt].
    + (* the operating system refuses the growth *)
      destruct (initmmap ok (psize st) (fsize st) (slots st)) as [rc1 ss1] eqn:Ei.
      destruct (initmmap_res ok (psize st) (fsize st) (slots st) rc1 ss1 HB HL Ei) as [R1 [B1 _]].
      simpl in E. inversion E; subst rc st'. clear E.
      pose proof (InitRes_inv_same (psize st) (fsize st) _ _ Hps0 Hf2 HS R1) as HS1.
      assert (HFid : Full st -> ss1 = slots st).
      { intros HF. unfold initmmap in Ei. rewrite initmmap_from_full in Ei by exact HF. inversion Ei; reflexivity. }
      split; [apply set_slots_inv; assumption |]. split; [exact B1 |]. do 3 (split; [reflexivity |]).
      split; [simpl; symmetry; rewrite <- Hfl; apply ftrunc_id |].
      split; [simpl; eapply InitRes_geo; eassumption |].
      split; [intros Hc; discriminate Hc |]. split; [intros; reflexivity |]. split; [simpl; intros; lia |].
      split; [intros HF _; rewrite (HFid HF); apply set_slots_id |].
      split; [intros _ HF; simpl; rewrite (HFid HF); exact (Hpid HF) |].
      intros bytes Hb. left. unfold spec_truncate, spec_grow. simpl. fold n. rewrite Hb, Hspec_cond, Eg.
      destruct (Z.ltb_spec (fsize st) n); [| lia]. simpl. rewrite <- (Hfid bytes Hb). reflexivity.
  - (* shrinking: the windows first, then the file *)
    assert (Hlt : n < fsize st) by lia.
    assert (Hspec_cond : negb (maxoff st =? 0) && (fsize st <? n) && (n >? maxoff st) = false).
    { destruct (Z.ltb_spec (fsize st) n); [lia |]. rewrite andb_false_r. reflexivity. }
    destruct (initmmap ok (psize st) n (slots st)) as [rc1 ss1] eqn:Ei.
    destruct (initmmap_res ok (psize st) n (slots st) rc1 ss1 HB HL Ei) as [R1 [B1 [P1 D1]]].
    destruct (Z.eqb_spec rc1 0) as [Hz | Hnz].
    + subst rc1. specialize (P1 eq_refl). subst ss1. inversion E; subst rc st'. clear E.
      split. { apply mkInv'; [exact HP | lia | exact Hnm | apply zlen_ftrunc; lia | lia | exact Hm2 | destruct Hm3; [left; assumption | right; lia] | exact (inv_pol st HI) | eapply pinit_inv; eauto]. }
      split; [exact B1 |]. do 3 (split; [reflexivity |]). split; [reflexivity |]. split; [simpl; apply pinit_geo |].
      split; [intros _; simpl; split; [reflexivity | right; reflexivity] |]. split; [intros Hc; congruence |].
      split; [simpl; intros; lia |]. split; [intros _ Hc; discriminate Hc |]. split; [intros; reflexivity |].
      intros bytes Hb. left. unfold spec_truncate, spec_grow. simpl. fold n. rewrite Hb, Hspec_cond.
      destruct (Z.ltb_spec (fsize st) n); [lia |]. reflexivity.
    + destruct D1 as [D1 | [D1 Dt]]; [congruence |]. subst rc1.
      destruct (initmmap ok (psize st) (fsize st) ss1) as [rc2 ss2] eqn:Ei2.
      pose proof (InitRes_lens _ _ _ _ R1 HL) as HL1.
      destruct (initmmap_res ok (psize st) (fsize st) ss1 rc2 ss2 B1 HL1 Ei2) as [R2 [B2 _]].
      simpl in E. inversion E; subst rc st'. clear E.
      pose proof (InitRes_inv_smaller (psize st) (fsize st) n _ _ Hps0 Hnm ltac:(lia) HS R1) as HS1.
      pose proof (InitRes_inv_same (psize st) (fsize st) _ _ Hps0 Hf2 HS1 R2) as HS2.
      split; [apply set_slots_inv; assumption |]. split; [exact B2 |]. do 3 (split; [reflexivity |]).
      split; [simpl; symmetry; rewrite <- Hfl; apply ftrunc_id |].
      split; [simpl; eapply GeoSame_trans; eapply InitRes_geo; eassumption |].
      split; [intros Hc; exfalso; exact (E_ERRNO_nz Hc) |]. split; [intros; reflexivity |]. split; [simpl; intros; lia |].
      split; [intros _ Hc; exfalso; apply E_IO_ERRNO; symmetry; exact Hc |].
      split; [intros HA; destruct Dt as [t Ht]; rewrite HA in Ht; discriminate Ht |].
      intros bytes Hb. right. split; [reflexivity | exact Dt].
Qed.

Lemma spec_policy_le : forall ps p nsize csize, PsOk ps -> pol_ok p -> 0 <= nsize <= LIM -> 0 <= csize <= LIM ->
  req_ok p nsize -> fst (spec_policy ps p nsize csize) <= 2 * LIM + 2 ^ 31.
Proof.
  intros ps p nsize csize HP Hp Hn Hc Hr. pose proof (PsOk_pos ps HP) as Hps. pose proof LIM_val as EL.
  assert (Hps0 : 0 < ps) by lia.
  destruct p as [| prev | n dn |]; simpl in *.
  - pose proof (rup_lt nsize ps Hps0). lia.
  - pose proof (rup_lt (Z.max (csize + prev) nsize) ps Hps0). lia.
  - destruct Hp as [Hn1 Hd1]. destruct ((dn =? 0) || (n <? dn)) eqn:Efb; simpl.
    + pose proof (rup_lt nsize ps Hps0). lia.
    + apply orb_false_iff in Efb. destruct Efb as [Ed En]. apply Z.eqb_neq in Ed. apply Z.ltb_ge in En.
      assert (Hq1 : 0 <= nsize / dn <= nsize).
      { split. - apply Z.div_pos; lia. - apply Z.div_le_upper_bound; nia. }
      assert (Hq2 : 0 <= nsize / dn * n <= nsize * n) by nia.
      pose proof (rup_lt (Z.max (nsize / dn * n) nsize) ps Hps0). lia.
  - pose proof (rup_lt nsize ps Hps0). lia.
Qed.

Definition grow_ok (st : exf) (sz : Z) : Prop :=
  req_ok (pol st) sz /\ (maxoff st <> 0 \/ fst (spec_policy (psize st) (pol st) sz (fsize st)) <= LIM).

(* ---------------------------------------------------------------------------------------------- *)
(* _exfile_ensure_size_lw *)
Lemma spec_truncate_grow : forall ps ok bytes mo p m, 0 < ps -> m mod ps = 0 -> zlen bytes < m -> (mo = 0 \/ m <= mo) ->
  spec_truncate ps ok (mkFlat bytes mo p) m = spec_grow ok (mkFlat bytes mo p) m p.
Proof.
  intros ps ok bytes mo p m Hps Hm Hlt Hmo. unfold spec_truncate. simpl. rewrite rup_id by assumption.
  destruct (Z.eqb_spec mo 0); simpl; [reflexivity |]. destruct (Z.gtb_spec m mo); [lia |]. rewrite andb_false_r. reflexivity.
Qed.

Lemma ensure_size_lw_spec : forall q ok st sz rc st', q_mul_ge q = true -> Inv st -> Bud ok st -> 0 <= sz <= LIM -> grow_ok st sz ->
  ensure_size_lw q ok st sz = (rc, st') ->
  Inv st' /\ Bud ok st' /\ psize st' = psize st /\ maxoff st' = maxoff st /\
  file st' = ftrunc (file st) (fsize st') /\ GeoSame (slots st) (slots st') /\
  (rc = 0 -> sz <= fsize st' /\ (st' = st \/ slots st' = pinit (psize st) (fsize st') (slots st))) /\
  (rc <> 0 -> fsize st' = fsize st) /\ fsize st <= fsize st' /\
  (fsize st < fsize st' -> os_grow ok (fsize st') = true) /\
  (Full st -> rc = EXF_E_IO -> st' = set_pol st (pol st')) /\
  (MapAll ok -> Full st -> slots st' = pinit (psize st) (fsize st') (slots st)) /\
  (forall bytes, zlen bytes = fsize st ->
     spec_ensure (psize st) ok (mkFlat bytes (maxoff st) (pol st)) sz =
       (rc, mkFlat (ftrunc bytes (fsize st')) (maxoff st) (pol st')) \/
     (rc = EXF_E_ERRNO /\ exists t, os_map ok t = false)).
Proof.
  intros q ok st sz rc st' Hq HI HB Hs [Hr Hg] E.
  pose proof (inv_ps st HI) as HP. pose proof (PsOk_pos _ HP) as Hps.
  pose proof (inv_fs st HI) as [Hf1 Hf2]. pose proof (inv_file st HI) as Hfl.
  pose proof (inv_mo st HI) as [Hm1 [Hm2 Hm3]]. pose proof (inv_pol st HI) as Hpo.
  pose proof LIM_val as EL.
  assert (Hfid : forall bytes p, zlen bytes = fsize st -> mkFlat bytes (maxoff st) p = mkFlat (ftrunc bytes (fsize st)) (maxoff st) p)
    by (intros bytes p Hb; rewrite <- Hb, ftrunc_id; reflexivity).
  assert (Hpid : Full st -> slots st = pinit (psize st) (fsize st) (slots st)) by (intros HF; symmetry; apply pinit_full_id; exact HF).
  unfold ensure_size_lw in E. destruct (Z.ltb_spec sz 0); [lia |]. rewrite uw_small in E by lia.
  destruct (Z.geb_spec (fsize st) sz) as [Hge | Hlt].
  { inversion E; subst rc st'. clear E.
    split; [exact HI |]. split; [exact HB |]. do 2 (split; [reflexivity |]).
    split; [symmetry; rewrite <- Hfl; apply ftrunc_id |]. split; [apply GeoSame_refl |].
    split; [intros _; split; [lia | left; reflexivity] |]. split; [intros; reflexivity |]. split; [lia |]. split; [intros; lia |].
    split; [intros; symmetry; apply set_pol_same |]. split; [intros _ HF; exact (Hpid HF) |].
    intros bytes Hb. left. unfold spec_ensure. simpl. rewrite Hb. destruct (Z.geb_spec (fsize st) sz); [| lia].
    rewrite <- (Hfid bytes _ Hb). reflexivity. }
  rewrite policy_call_spec in E by (auto; lia).
  pose proof (spec_policy_ge (psize st) (pol st) sz (fsize st) ltac:(lia)) as [Hge Hmod].
  pose proof (spec_policy_le (psize st) (pol st) sz (fsize st) HP Hpo Hs Hf1 Hr) as Hle.
  pose proof (spec_policy_pol_ok (psize st) (pol st) sz (fsize st) Hpo Hf1) as Hpo'.
  destruct (spec_policy (psize st) (pol st) sz (fsize st)) as [nsz pol'] eqn:Epol. simpl in Hge, Hmod, Hle, Hpo', Hg.
  assert (HI1 : Inv (set_pol st pol')) by (apply set_pol_inv; auto).
  assert (HB1 : Bud ok (set_pol st pol')) by exact HB.
  replace ((nsz <? sz) || negb (aligned nsz (psize st))) with false in E.
  2:{ rewrite aligned_ps by (auto; lia). rewrite Hmod. simpl. destruct (Z.ltb_spec nsz sz); [lia | reflexivity]. }
  rewrite uw_small in E by lia.
  (* the request handed to _exfile_truncate_lw: m, aligned, beyond the current size, within maxoff *)
  assert (Htr : forall m, sz <= m <= LIM -> m mod psize st = 0 -> (maxoff st = 0 \/ m <= maxoff st) ->
            truncate_lw ok (set_pol st pol') m = (rc, st') ->
            (forall bytes, zlen bytes = fsize st ->
               spec_ensure (psize st) ok (mkFlat bytes (maxoff st) (pol st)) sz = spec_grow ok (mkFlat bytes (maxoff st) pol') m pol') ->
            Inv st' /\ Bud ok st' /\ psize st' = psize st /\ maxoff st' = maxoff st /\
            file st' = ftrunc (file st) (fsize st') /\ GeoSame (slots st) (slots st') /\
            (rc = 0 -> sz <= fsize st' /\ (st' = st \/ slots st' = pinit (psize st) (fsize st') (slots st))) /\
            (rc <> 0 -> fsize st' = fsize st) /\ fsize st <= fsize st' /\
            (fsize st < fsize st' -> os_grow ok (fsize st') = true) /\
            (Full st -> rc = EXF_E_IO -> st' = set_pol st (pol st')) /\
            (MapAll ok -> Full st -> slots st' = pinit (psize st) (fsize st') (slots st)) /\
            (forall bytes, zlen bytes = fsize st ->
               spec_ensure (psize st) ok (mkFlat bytes (maxoff st) (pol st)) sz = (rc, mkFlat (ftrunc bytes (fsize st')) (maxoff st) (pol st')) \/
               (rc = EXF_E_ERRNO /\ exists t, os_map ok t = false))).
  { intros m Hm Hmm Hmmo Et Hsp.
    destruct (truncate_lw_spec ok (set_pol st pol') m rc st' HI1 HB1 ltac:(lia) Et) as [A [B [C [D [P [F [G [R0 [RN [OG [FI [MA SP]]]]]]]]]]]].
    simpl in *. assert (Erup : rup m (psize st) = m) by (apply rup_id; lia).
    split; [exact A |]. split; [exact B |]. split; [exact C |]. split; [exact D |]. split; [exact F |]. split; [exact G |].
    split. { intros Hrc. destruct (R0 Hrc) as [R1 R2]. split; [lia |]. destruct R2 as [R2 | R2]; [| right; exact R2].
             exfalso. rewrite R2 in R1. simpl in R1. lia. }
    split; [exact RN |].
    split. { destruct (Z.eq_dec rc 0) as [Hz | Hnz]; [destruct (R0 Hz); lia | rewrite (RN Hnz); lia]. }
    split; [exact OG |].
    split. { intros HF Hrc. rewrite (FI HF Hrc). simpl. reflexivity. }
    split; [exact MA |].
    intros bytes Hb. destruct (SP bytes Hb) as [SP1 | SP1]; [left | right; exact SP1].
    rewrite (Hsp bytes Hb). rewrite P. rewrite <- SP1. symmetry. apply spec_truncate_grow; try lia; assumption. }
  destruct (negb (maxoff st =? 0) && (nsz >? maxoff st)) eqn:Eclip.
  - apply andb_true_iff in Eclip. destruct Eclip as [Ec1 Ec2]. apply negb_true_iff in Ec1. apply Z.eqb_neq in Ec1.
    apply Z.gtb_lt in Ec2. rewrite sw_small in E by lia.
    destruct (Z.ltb_spec (maxoff st) sz) as [Hms | Hms].
    + inversion E; subst rc st'. clear E.
      split; [exact HI1 |]. split; [exact HB1 |]. do 2 (split; [reflexivity |]).
      split; [simpl; symmetry; rewrite <- Hfl; apply ftrunc_id |]. split; [apply GeoSame_refl |].
      split; [intros Hc; discriminate Hc |]. split; [intros; reflexivity |]. split; [simpl; lia |]. split; [simpl; intros; lia |].
      split; [intros _ Hc; discriminate Hc |]. split; [intros _ HF; exact (Hpid HF) |].
      intros bytes Hb. left. unfold spec_ensure. simpl. rewrite Hb. destruct (Z.geb_spec (fsize st) sz); [lia |].
      rewrite Epol. destruct (Z.eqb_spec (maxoff st) 0); [contradiction |]. simpl.
      destruct (Z.gtb_spec nsz (maxoff st)); [| lia]. destruct (Z.ltb_spec (maxoff st) sz); [| lia].
      rewrite <- (Hfid bytes _ Hb). reflexivity.
    + apply (Htr (maxoff st)); try lia; try assumption.
      intros bytes Hb. unfold spec_ensure. simpl. rewrite Hb. destruct (Z.geb_spec (fsize st) sz); [lia |].
      rewrite Epol. destruct (Z.eqb_spec (maxoff st) 0); [contradiction |]. simpl.
      destruct (Z.gtb_spec nsz (maxoff st)); [| lia]. destruct (Z.ltb_spec (maxoff st) sz); [lia | reflexivity].
  - assert (Hnc : maxoff st = 0 \/ nsz <= maxoff st).
    { destruct (Z.eqb_spec (maxoff st) 0); [left; assumption |]. simpl in Eclip. rewrite Z.gtb_ltb in Eclip. apply Z.ltb_ge in Eclip. right; lia. }
    assert (Hnl : nsz <= LIM) by (destruct Hg as [Hg | Hg]; [destruct Hnc; lia | lia]).
    apply (Htr nsz); try lia; try assumption.
    intros bytes Hb. unfold spec_ensure. simpl. rewrite Hb. destruct (Z.geb_spec (fsize st) sz); [lia |].
    rewrite Epol. rewrite Eclip. reflexivity.
Qed.

(* ---------------------------------------------------------------------------------------------- *)
(* registration and removal of windows *)
Lemma insert_slot_In : forall ss ns ss', insert_slot ss ns = Some ss' -> forall t, In t ss' -> t = ns \/ In t ss.
Proof.
  induction ss as [| s tl IH]; intros ns ss' E t Ht; simpl in E.
  - inversion E; subst. destruct Ht as [<- | []]. left; reflexivity.
  - destruct (negb (IW_RANGES_OVERLAP (s_off s) (s_off s + s_maxlen s) (s_off ns) (s_off ns + s_maxlen ns) =? 0)); [discriminate |].
    destruct (s_off ns <? s_off s).
    + inversion E; subst. destruct Ht as [<- | Ht]; [left; reflexivity | right; exact Ht].
    + destruct (insert_slot tl ns) as [tl' |] eqn:Ei; [| discriminate]. inversion E; subst.
      destruct Ht as [<- | Ht]; [right; left; reflexivity |].
      destruct (IH ns tl' Ei t Ht) as [-> | Hin]; [left; reflexivity | right; right; exact Hin].
Qed.

Lemma insert_slot_inv : forall ps fsz ss, SlotsInv ps fsz ss -> forall ns ss', slot_ok ps fsz ns ->
  insert_slot ss ns = Some ss' -> SlotsInv ps fsz ss'.
Proof.
  intros ps fsz ss HS. induction HS as [| s tl Hs Hf Ht IH]; intros ns ss' Hns E; simpl in E.
  - inversion E; subst. constructor; [exact Hns | constructor | constructor].
  - assert (Hm1 : 0 < s_maxlen s) by (destruct Hs as [_ [_ [H _]]]; exact H).
    assert (Hm2 : 0 < s_maxlen ns) by (destruct Hns as [_ [_ [H _]]]; exact H).
    destruct (Z.eqb_spec (IW_RANGES_OVERLAP (s_off s) (s_off s + s_maxlen s) (s_off ns) (s_off ns + s_maxlen ns)) 0) as [Hno | Hov];
      simpl in E; [| discriminate].
    assert (Hdis : ~ Z.max (s_off s) (s_off ns) < Z.min (s_off s + s_maxlen s) (s_off ns + s_maxlen ns)).
    { intros Hc. apply (ranges_overlap_correct (s_off s) (s_off s + s_maxlen s) (s_off ns) (s_off ns + s_maxlen ns)) in Hc; lia. }
    destruct (Z.ltb_spec (s_off ns) (s_off s)) as [Hlt | Hge].
    + inversion E; subst. constructor; [exact Hns | | constructor; assumption].
      constructor; [lia |]. rewrite Forall_forall in Hf |- *. intros t Hin. specialize (Hf t Hin). lia.
    + destruct (insert_slot tl ns) as [tl' |] eqn:Ei; [| discriminate]. inversion E; subst.
      constructor; [exact Hs | | eapply IH; eauto].
      rewrite Forall_forall in Hf |- *. intros t Hin.
      destruct (insert_slot_In _ _ _ Ei t Hin) as [-> | Hin']; [lia | exact (Hf t Hin')].
Qed.

Lemma remove_slot_inv : forall ps fsz ss, SlotsInv ps fsz ss -> forall off ss',
  remove_slot ss off = Some ss' -> SlotsInv ps fsz ss' /\ (forall t, In t ss' -> In t ss).
Proof.
  intros ps fsz ss HS. induction HS as [| s tl Hs Hf Ht IH]; intros off ss' E; simpl in E; [discriminate |].
  destruct (s_off s =? off).
  - inversion E; subst. split; [exact Ht | intros; right; assumption].
  - destruct (remove_slot tl off) as [tl' |] eqn:Er; [| discriminate]. inversion E; subst.
    destruct (IH off tl' Er) as [HS' Hsub]. split.
    + constructor; [exact Hs | | exact HS']. rewrite Forall_forall in Hf |- *. intros t Hin. exact (Hf t (Hsub t Hin)).
    + intros t [<- | Hin]; [left; reflexivity | right; exact (Hsub t Hin)].
Qed.

Lemma round_maxlen_ok : forall ps off maxlen, PsOk ps -> 0 <= off <= LIM -> 0 <= maxlen < 2 ^ 64 ->
  0 <= round_maxlen ps off maxlen /\ round_maxlen ps off maxlen mod ps = 0.
Proof.
  intros ps off maxlen HP Ho Hm. pose proof (PsOk_pos ps HP) as Hps. pose proof LIM_val as EL. pose proof OFFMAX_val as EO.
  unfold round_maxlen.
  set (m := if EXF_OFF_T_MAX - off <? maxlen then EXF_OFF_T_MAX - off else maxlen).
  assert (Hmr : 0 <= m <= 2 ^ 63) by (unfold m; destruct (Z.ltb_spec (EXF_OFF_T_MAX - off) maxlen); lia).
  rewrite roundup_ps by (auto; lia). rewrite rounddown_ps by (auto; lia).
  destruct ((rup m ps <? m) || (EXF_OFF_T_MAX - off <? rup m ps)).
  - split; [| apply Z.mod_mul; lia]. apply Z.mul_nonneg_nonneg; [apply Z.div_pos; lia | lia].
  - split; [apply rup_nonneg; lia | apply rup_mod; lia].
Qed.

Lemma insert_slot_total : forall ss ns ss', insert_slot ss ns = Some ss' -> mapped_total ss' = s_len ns + mapped_total ss.
Proof.
  induction ss as [| s tl IH]; intros ns ss' E; simpl in E.
  - inversion E; subst. simpl. lia.
  - destruct (negb (IW_RANGES_OVERLAP (s_off s) (s_off s + s_maxlen s) (s_off ns) (s_off ns + s_maxlen ns) =? 0)); [discriminate |].
    destruct (s_off ns <? s_off s).
    + inversion E; subst. simpl. lia.
    + destruct (insert_slot tl ns) as [tl' |] eqn:Ei; [| discriminate]. inversion E; subst. simpl. rewrite (IH _ _ Ei). lia.
Qed.

Lemma insert_slot_Forall : forall (P : slot -> Prop) ss ns ss', insert_slot ss ns = Some ss' -> P ns -> Forall P ss -> Forall P ss'.
Proof.
  intros P ss ns ss' E Hn Hs. apply Forall_forall. intros t Ht. destruct (insert_slot_In _ _ _ E t Ht) as [-> | Hin]; [exact Hn |].
  rewrite Forall_forall in Hs. exact (Hs t Hin).
Qed.

Lemma remove_slot_total : forall ss off ss', lens_ok ss -> remove_slot ss off = Some ss' -> mapped_total ss' <= mapped_total ss.
Proof.
  induction ss as [| s tl IH]; intros off ss' L E; simpl in E; [discriminate |].
  inversion L as [| s0 tl0 [Hl _] Lt]; subst. destruct (s_off s =? off).
  - inversion E; subst. simpl. lia.
  - destruct (remove_slot tl off) as [tl' |] eqn:Er; [| discriminate]. inversion E; subst. simpl. specialize (IH _ _ Lt Er). lia.
Qed.

Lemma remove_slot_Forall : forall (P : slot -> Prop) ps fsz ss off ss', SlotsInv ps fsz ss -> remove_slot ss off = Some ss' -> Forall P ss -> Forall P ss'.
Proof.
  intros P ps fsz ss off ss' HS E H. destruct (remove_slot_inv ps fsz ss HS off ss' E) as [_ Hsub].
  apply Forall_forall. intros t Ht. rewrite Forall_forall in H. exact (H t (Hsub t Ht)).
Qed.

(* a window as _exfile_add_mmap_lw creates it: no page detached *)
Definition clean (s : slot) : Prop := Forall (fun pg => pg = None) (s_pages s).

Lemma add_unchanged : forall ok st (flags rc : Z), Inv st -> Bud ok st -> rc <> 0 -> rc <> EXF_E_IO ->
  (rc = EXF_E_ERRNO -> exists t, os_map ok t = false) ->
  Inv st /\ Bud ok st /\ file st = file st /\ fsize st = fsize st /\ psize st = psize st /\ maxoff st = maxoff st /\ pol st = pol st /\
  (rc <> 0 -> st = st) /\ (rc = EXF_E_ERRNO -> exists t, os_map ok t = false) /\ rc <> EXF_E_IO /\
  (Shared st -> Z.land flags EXF_MMAP_PRIVATE = 0 -> Shared st) /\ (Full st -> Full st) /\
  (rc = 0 -> exists ns, insert_slot (slots st) ns = Some (slots st) /\ clean ns /\
                        slot_ok (psize st) (fsize st) ns /\ s_len ns = slot_nlen (fsize st) ns).
Proof.
  intros ok st flags rc HI HB H0 Hio He. split; [exact HI |]. split; [exact HB |]. do 5 (split; [reflexivity |]).
  split; [intros; reflexivity |]. split; [exact He |]. split; [exact Hio |]. split; [auto |]. split; [auto |]. intros Hc; contradiction.
Qed.

Lemma add_mmap_lw_spec : forall ok st off maxlen flags rc st', Inv st -> Bud ok st -> 0 <= off <= LIM -> 0 <= maxlen < 2 ^ 64 ->
  add_mmap_lw ok st off maxlen flags = (rc, st') ->
  Inv st' /\ Bud ok st' /\ file st' = file st /\ fsize st' = fsize st /\ psize st' = psize st /\ maxoff st' = maxoff st /\ pol st' = pol st /\
  (rc <> 0 -> st' = st) /\ (rc = EXF_E_ERRNO -> exists t, os_map ok t = false) /\ rc <> EXF_E_IO /\
  (Shared st -> Z.land flags EXF_MMAP_PRIVATE = 0 -> Shared st') /\ (Full st -> Full st') /\
  (rc = 0 -> exists ns, insert_slot (slots st) ns = Some (slots st') /\ clean ns /\
                        slot_ok (psize st) (fsize st) ns /\ s_len ns = slot_nlen (fsize st) ns).
Proof.
  intros ok st off maxlen flags rc st' HI HB Ho Hm E. pose proof (inv_ps st HI) as HP. pose proof LIM_val as EL.
  pose proof (PsOk_pos _ HP) as Hps. pose proof (inv_fs st HI) as [Hf1 Hf2].
  unfold add_mmap_lw in E. rewrite aligned_ps in E by (auto; lia).
  destruct (Z.eqb_spec (off mod psize st) 0) as [Hal | Hnal]; simpl in E.
  2:{ inversion E; subst rc st'. apply add_unchanged; auto; try discriminate. }
  destruct (round_maxlen_ok (psize st) off maxlen HP Ho Hm) as [Hr1 Hr2].
  destruct (Z.eqb_spec (round_maxlen (psize st) off maxlen) 0) as [Hz | Hnz].
  { inversion E; subst rc st'. apply add_unchanged; auto; try discriminate. }
  set (ns0 := mkSlot off (round_maxlen (psize st) off maxlen) 0 (negb (Z.land flags EXF_MMAP_PRIVATE =? 0)) []) in E.
  assert (Hns0 : slot_ok (psize st) (fsize st) ns0).
  { pose proof (slot_nlen_range (fsize st) ns0) as Hnr. simpl in Hnr.
    apply slot_ok_intro; simpl; try lia; auto;
      try (apply Z.mod_0_l; lia);
      try (intros _; unfold pages_wf; simpl; split; [rewrite Z.div_0_l by lia; reflexivity | constructor]). }
  destruct (initmmap_slot ok (psize st) (fsize st) (mapped_total (slots st)) ns0) as [rc1 ns] eqn:Es.
  destruct (initmmap_slot_cases _ _ _ _ _ _ _ Es) as [[-> [-> Hwhy]] | [-> [-> [_ [_ Hno]]]]]; simpl in E.
  2:{ inversion E; subst rc st'. apply add_unchanged; auto; try discriminate. intros _. eexists; exact Hno. }
  destruct (pinit_slot_fields (psize st) (fsize st) ns0) as [Eo [Em [Ep El]]].
  destruct (insert_slot (slots st) (pinit_slot (psize st) (fsize st) ns0)) as [ss' |] eqn:Ei.
  2:{ inversion E; subst rc st'. apply add_unchanged; auto; try discriminate. }
  inversion E; subst rc st'. clear E.
  pose proof (pinit_slot_ok (psize st) (fsize st) (fsize st) ns0 ltac:(lia) Hf2 Hns0) as Hnsok.
  split; [apply set_slots_inv; [exact HI |]; eapply insert_slot_inv; [exact (inv_slots st HI) | exact Hnsok | exact Ei] |].
  split.
  { destruct HB as [HM HBt]. split; [exact HM |]. simpl. rewrite (insert_slot_total _ _ _ Ei). rewrite El.
    destruct Hwhy as [Hq | [Hq | Hq]].
    - simpl in Hq. rewrite Hq. exact HBt.
    - pose proof (slot_nlen_range (fsize st) ns0). simpl in H. assert (slot_nlen (fsize st) ns0 = 0) by lia. rewrite H0. exact HBt.
    - rewrite Z.add_comm. exact Hq. }
  do 5 (split; [reflexivity |]). split; [intros Hc; congruence |]. split; [intros Hc; discriminate Hc |]. split; [discriminate |].
  split. { intros HSh Hfl. unfold Shared. simpl. eapply insert_slot_Forall; [exact Ei | | exact HSh]. simpl. rewrite Ep. simpl. rewrite Hfl. reflexivity. }
  split. { intros HF. unfold Full. simpl. eapply insert_slot_Forall; [exact Ei | | exact HF]. simpl. rewrite El. symmetry. apply pinit_slot_nlen. }
  intros _. exists (pinit_slot (psize st) (fsize st) ns0). split; [exact Ei |]. split; [| split; [exact Hnsok | rewrite El; symmetry; apply pinit_slot_nlen]].
  unfold clean, pinit_slot. destruct (slot_nlen (fsize st) ns0 =? s_len ns0); simpl; [constructor |].
  apply Forall_forall. intros pg Hin. apply repeat_spec in Hin. exact Hin.
Qed.

Lemma remove_mmap_lw_spec : forall ok st off rc st', Inv st -> Bud ok st -> remove_mmap_lw st off = (rc, st') ->
  Inv st' /\ Bud ok st' /\ file st' = file st /\ fsize st' = fsize st /\ psize st' = psize st /\ maxoff st' = maxoff st /\ pol st' = pol st /\
  (rc <> 0 -> st' = st) /\ (rc = 0 \/ rc = EXF_E_NOTMM) /\ (Shared st -> Shared st') /\ (Full st -> Full st') /\
  (rc = 0 -> remove_slot (slots st) off = Some (slots st')).
Proof.
  intros ok st off rc st' HI HB E. unfold remove_mmap_lw in E.
  destruct (remove_slot (slots st) off) as [ss' |] eqn:Er; inversion E; subst rc st'; clear E.
  - pose proof (inv_slots st HI) as HS. destruct (remove_slot_inv _ _ _ HS _ _ Er) as [HS' _].
    split; [apply set_slots_inv; assumption |].
    split. { destruct HB as [HM HBt]. split; [exact HM |]. simpl. apply (HM _ (mapped_total (slots st))); [| exact HBt].
             eapply remove_slot_total; [eapply SlotsInv_lens; exact HS | exact Er]. }
    do 5 (split; [reflexivity |]). split; [intros Hc; congruence |]. split; [left; reflexivity |].
    split; [intros H; exact (remove_slot_Forall _ _ _ _ _ _ HS Er H) |]. split; [intros H; exact (remove_slot_Forall _ _ _ _ _ _ HS Er H) |]. intros _. reflexivity.
  - split; [exact HI |]. split; [exact HB |]. do 5 (split; [reflexivity |]). split; [intros; reflexivity |]. split; [right; reflexivity |].
    split; [auto |]. split; [auto |]. intros Hc; discriminate Hc.
Qed.

Lemma remap_all_spec : forall ok st rc st', Inv st -> Bud ok st -> remap_all ok st = (rc, st') ->
  Inv st' /\ Bud ok st' /\ file st' = file st /\ fsize st' = fsize st /\ psize st' = psize st /\ maxoff st' = maxoff st /\ pol st' = pol st /\
  GeoSame (slots st) (slots st') /\ (rc = 0 \/ (rc = EXF_E_ERRNO /\ exists t, os_map ok t = false)) /\ (Full st -> st' = st /\ rc = 0).
Proof.
  intros ok st rc st' HI HB E. unfold remap_all in E.
  destruct (initmmap ok (psize st) (fsize st) (slots st)) as [rc1 ss1] eqn:Ei. inversion E; subst rc st'. clear E.
  pose proof (inv_slots st HI) as HS. pose proof (inv_fs st HI) as [_ Hf2]. pose proof (PsOk_pos _ (inv_ps st HI)) as Hps.
  destruct (initmmap_res ok _ _ _ _ _ HB (SlotsInv_lens _ _ _ HS) Ei) as [R1 [B1 [_ D1]]].
  split; [apply set_slots_inv; [exact HI |]; eapply InitRes_inv_same; eauto; lia |]. split; [exact B1 |].
  do 5 (split; [reflexivity |]). split; [simpl; eapply InitRes_geo; eassumption |]. split; [exact D1 |].
  intros HF. unfold initmmap in Ei. rewrite initmmap_from_full in Ei by exact HF. inversion Ei; subst. split; [apply set_slots_id | reflexivity].
Qed.
