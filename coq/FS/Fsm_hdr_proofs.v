(* What the file header says about the bitmap area, src/fs/iwfsmfile.c.
   [p_bmoff]/[p_bmlen] of the model state = the bitmap offset/length last written by _fsm_write_meta_lw, i.e. what the
   next iwfs_fsmfile_open is told.  _fsm_close writes the header only when the free-extent tree is not empty, so for a
   file without a single free block the header must already be right when close is called.  Proved here, for EVERY
   state and EVERY operation of the model (bitmap growth, page-aligned path, trim, clear included, no invariant needed):
   the only functions that move the bitmap are _fsm_init_lw and the two assignments of _fsm_clear, and every successful
   _fsm_init_lw writes the header before it returns.
     hk_*        : each function either leaves (bmoff, bmlen, header) alone or ends with header = current area
     hs_step     : header current before => header current after (all operations; clear only when it returns 0)
     hdr_ok_run  : "no bitmap at all or header current" is kept by every history, unconditionally
     reopen_sees_close / full_file_close_reopen : what the next open reads is the state at close, full file included *)
Require Import ZArith List Bool Lia. Require Import IW.Lib.CInt IW.Gen.Facts IW.FS.Bits IW.FS.Fsm. Import ListNotations.
Local Open Scope Z_scope. Local Open Scope bool_scope.

(* nothing the header says about the bitmap, and nothing it should say, has changed *)
Definition loc (s s' : fsm) : Prop :=
  bmoff s' = bmoff s /\ bmlen s' = bmlen s /\ p_bmoff s' = p_bmoff s /\ p_bmlen s' = p_bmlen s.
Lemma loc_refl : forall s, loc s s.
Proof. intros s. unfold loc. repeat split. Qed.
Lemma loc_trans : forall a b c, loc a b -> loc b c -> loc a c.
Proof. unfold loc. intros a b c (H1 & H2 & H3 & H4) (H5 & H6 & H7 & H8). repeat split; congruence. Qed.

(* the header names the current bitmap area *)
Definition HS (s : fsm) : Prop := p_bmoff s = bmoff s /\ p_bmlen s = bmlen s.
Lemma hs_iff : forall s, hdr_current s = true <-> HS s.
Proof.
  intros s. unfold hdr_current, HS. rewrite andb_true_iff, !Z.eqb_eq. reflexivity.
Qed.
Lemma hs_loc : forall s s', loc s s' -> HS s -> HS s'.
Proof. unfold loc, HS. intros s s' (H1 & H2 & H3 & H4) [H5 H6]. split; congruence. Qed.
Lemma hs_write_meta : forall s, HS (write_meta s).
Proof. intros s. split; reflexivity. Qed.

(* "left alone or brought up to date" *)
Definition hk (s s' : fsm) : Prop := loc s s' \/ HS s'.
Lemma hk_refl : forall s, hk s s.
Proof. intros s. left. apply loc_refl. Qed.
Lemma hk_trans : forall a b c, hk a b -> hk b c -> hk a c.
Proof.
  intros a b c [H1|H1] [H2|H2].
  - left. eapply loc_trans; eassumption.
  - right. exact H2.
  - right. eapply hs_loc; eassumption.
  - right. exact H2.
Qed.
Lemma hk_hs : forall s s', hk s s' -> HS s -> HS s'.
Proof. intros s s' [H|H] Hs; [eapply hs_loc; eassumption|exact H]. Qed.

Definition HdrOk (s : fsm) : Prop := bmlen s = 0 \/ HS s.
Lemma hk_ok : forall s s', hk s s' -> HdrOk s -> HdrOk s'.
Proof.
  intros s s' [H|H] [Hz|Hs].
  - left. destruct H as (_ & H & _). congruence.
  - right. eapply hs_loc; eassumption.
  - right. exact H.
  - right. exact H.
Qed.

(* ---------------------------------------------------------------- tree / bitmap / size updates leave it alone *)
Lemma loc_put_fbk : forall s o n, loc s (put_fbk s o n).
Proof.
  intros s o n. unfold put_fbk. destruct (negb (bkey_ok o n)); [apply loc_refl|].
  destruct (tree_insert (n, o) (tree s)) as [t' ins]. destruct ins; simpl negb; cbv iota; [|apply loc_refl].
  destruct (o + n >=? lfbkoff s + lfbklen s); unfold loc; repeat split.
Qed.
Lemma loc_del_fbk2 : forall s k, loc s (del_fbk2 s k).
Proof.
  intros s k. unfold del_fbk2. destruct (tree_remove k (tree s)) as [t' f].
  destruct (snd k =? lfbkoff s); unfold loc; repeat split.
Qed.
Lemma loc_del_fbk : forall s o n, loc s (del_fbk s o n).
Proof.
  intros s o n. unfold del_fbk. destruct (negb (bkey_ok o n)); [apply loc_refl|].
  destruct (tree_remove (n, o) (tree s)) as [t' f]. destruct f; [apply loc_del_fbk2|apply loc_refl].
Qed.
Lemma loc_set_bit_status : forall s off len v dry chk, loc s (snd (set_bit_status s off len v dry chk)).
Proof.
  intros s off len v dry chk. unfold set_bit_status. destruct (nbits s <? off + len); [apply loc_refl|].
  destruct dry; unfold loc; repeat split.
Qed.
Lemma loc_ensure_size : forall s z, loc s (ensure_size s z).
Proof. intros s z. unfold ensure_size. destruct (fsize s >=? z); unfold loc; repeat split. Qed.
Lemma loc_stats : forall s n, loc s (stats_update s n).
Proof. intros s n. unfold stats_update. destruct (crznum s >? FSM_MAX_STATS_COUNT); unfold loc; repeat split. Qed.

Lemma loc_fold_put : forall R a, loc a (fold_left (fun a r => put_fbk a (fst r) (snd r)) R a).
Proof.
  induction R as [|r R IH]; intros a; simpl; [apply loc_refl|].
  eapply loc_trans; [apply loc_put_fbk|apply IH].
Qed.
Lemma loc_load_fsm : forall s, loc s (load_fsm s).
Proof. intros s. unfold load_fsm. eapply loc_trans; [|apply loc_fold_put]. unfold loc. repeat split. Qed.

Lemma loc_blk_deallocate : forall s a m, loc s (snd (blk_deallocate s a m)).
Proof.
  intros s a m. unfold blk_deallocate.
  destruct (negb ((if fx_strict (vr s) && strict s then fst (set_bit_status s a m false true true) else 0) =? 0));
    [apply loc_refl|].
  pose proof (loc_set_bit_status s a m false false (strict s)) as H1.
  destruct (set_bit_status s a m false false (strict s)) as [rc s1]. simpl in H1.
  destruct (negb (rc =? 0)); [exact H1|].
  set (L := match find_prev_set_bit (bm s1) a 0 with
            | Some l => if a >? l + 1 then (del_fbk s1 (l + 1) (a - (l + 1)), l + 1, m + (a - (l + 1))) else (s1, a, m)
            | None => if a >? 0 then (del_fbk s1 0 a, 0, m + a) else (s1, a, m) end).
  assert (HL : loc s1 (fst (fst L))).
  { unfold L. destruct (find_prev_set_bit (bm s1) a 0) as [l|].
    - destruct (a >? l + 1); simpl; [apply loc_del_fbk|apply loc_refl].
    - destruct (a >? 0); simpl; [apply loc_del_fbk|apply loc_refl]. }
  destruct L as [[s2 koff] klen]. simpl in HL.
  set (R := match dealloc_right s1 (lfbkoff s) (a + m) with
            | Some r => if r >? a + m then (del_fbk s2 (a + m) (r - (a + m)), klen + (r - (a + m))) else (s2, klen)
            | None => (s2, klen) end).
  assert (HR : loc s2 (fst R)).
  { unfold R. destruct (dealloc_right s1 (lfbkoff s) (a + m)) as [r|]; [|apply loc_refl].
    destruct (r >? a + m); simpl; [apply loc_del_fbk|apply loc_refl]. }
  destruct R as [s3 klen']. simpl in HR. simpl.
  eapply loc_trans; [exact H1|]. eapply loc_trans; [exact HL|]. eapply loc_trans; [exact HR|]. apply loc_put_fbk.
Qed.
Lemma loc_solid : forall s o n, loc s (solid s o n).
Proof.
  intros s o n. unfold solid. destruct (ensure_ok s (solid_sz s o n)); [apply loc_ensure_size|].
  destruct (fx_solid (vr s)); [apply loc_blk_deallocate|apply loc_refl].
Qed.

Lemma loc_al_take : forall s akoff aklen length_blk aunit_blk,
  loc s (state_of (al_take s akoff aklen length_blk aunit_blk)).
Proof.
  intros s akoff aklen length_blk au. unfold al_take.
  set (noff := IW_ROUNDUP akoff au).
  set (s1 := del_fbk s akoff aklen).
  set (s2 := if noff >? akoff then put_fbk s1 akoff (noff - akoff) else s1).
  set (s3 := if aklen - (noff - akoff) >? length_blk
             then put_fbk s2 (noff + length_blk) (aklen - (noff - akoff) - length_blk) else s2).
  assert (H1 : loc s s1) by apply loc_del_fbk.
  assert (H2 : loc s1 s2) by (unfold s2; destruct (noff >? akoff); [apply loc_put_fbk|apply loc_refl]).
  assert (H3 : loc s2 s3) by (unfold s3; destruct (aklen - (noff - akoff) >? length_blk); [apply loc_put_fbk|apply loc_refl]).
  pose proof (loc_set_bit_status s3 noff length_blk true false (strict s)) as H4.
  destruct (set_bit_status s3 noff length_blk true false (strict s)) as [rc s4]. simpl in H4. simpl.
  eapply loc_trans; [exact H1|]. eapply loc_trans; [exact H2|]. eapply loc_trans; [exact H3|exact H4].
Qed.

Lemma loc_blk_allocate_aligned : forall s length_blk mx, loc s (state_of (blk_allocate_aligned s length_blk mx)).
Proof.
  intros s length_blk mx. unfold blk_allocate_aligned.
  destruct (match find_matching s 0 (length_blk + shr (aunit s) (bpow s)) with
            | Some k => Some k | None => find_matching s 0 length_blk end) as [[aklen akoff]|]; [|apply loc_refl].
  destruct (al_fits akoff aklen (IW_ROUNDUP akoff (shr (aunit s) (bpow s))) length_blk mx); [apply loc_al_take|].
  destruct (fold_left (al_scan_step length_blk mx (shr (aunit s) (bpow s))) (tree s) (U64MAX, 0)) as [akoff2 aklen2].
  destruct (akoff2 =? U64MAX); [apply loc_refl|apply loc_al_take].
Qed.

(* ---------------------------------------------------------------- _fsm_init_lw: the only place that moves the bitmap *)
(* Either it fails and everything is as before (early returns; rollback restores bmoff/bmlen and the header was not
   touched), or the header has been written for the new area (the "Flush new meta" step) before the old area is released. *)
Lemma init_lw_hdr : forall s nbmoff nbmlen,
  (loc s (snd (init_lw s nbmoff nbmlen)) /\ fst (init_lw s nbmoff nbmlen) <> 0) \/ HS (snd (init_lw s nbmoff nbmlen)).
Proof.
  intros s nbmoff nbmlen. unfold init_lw.
  destruct (negb (nbmlen mod pow2 (bpow s) =? 0) || negb (nbmoff mod pow2 (bpow s) =? 0) || negb (nbmoff mod aunit s =? 0));
    [left; split; [apply loc_refl|vm_compute; discriminate]|].
  destruct (nbmlen <? bmlen s); [left; split; [apply loc_refl|vm_compute; discriminate]|].
  destruct (nbmlen * 8 <? shr (nbmoff + nbmlen) (bpow s) + 1); [left; split; [apply loc_refl|vm_compute; discriminate]|].
  destruct (negb (ensure_ok s (nbmoff + nbmlen))); [left; split; [apply loc_refl|vm_compute; discriminate]|].
  destruct (negb (bmlen s =? 0) && negb (IW_RANGES_OVERLAP (bmoff s) (bmoff s + bmlen s) nbmoff (nbmoff + nbmlen) =? 0));
    [left; split; [apply loc_ensure_size|vm_compute; discriminate]|].
  set (nbm := if negb (bmlen s =? 0) then bm s ++ repeat false (Z.to_nat (8 * (nbmlen - bmlen s)))
              else repeat false (Z.to_nat (8 * nbmlen))).
  set (s1 := set_bmloc (set_bm (ensure_size s (nbmoff + nbmlen)) nbm) nbmoff nbmlen).
  assert (GR : loc s (load_fsm (set_bmloc (set_bm s1 (bm s)) (bmoff s) (bmlen s)))).
  { eapply loc_trans; [|apply loc_load_fsm].
    destruct (loc_ensure_size s (nbmoff + nbmlen)) as (_ & _ & E3 & E4). unfold loc. simpl. repeat split; assumption. }
  destruct (set_bit_status s1 (shr nbmoff (bpow s)) (shr nbmlen (bpow s)) true false false) as [rc s2].
  destruct (negb (rc =? 0)) eqn:Erc.
  { left. split; [exact GR|]. simpl. intros ->. discriminate Erc. }
  set (P := if bmlen s =? 0 then set_bit_status s2 0 (shr (hdrlen s) (bpow s)) true false false else (0, s2)).
  destruct P as [rc3 s3].
  destruct (negb (rc3 =? 0)) eqn:Erc3.
  { left. split; [exact GR|]. simpl. intros ->. discriminate Erc3. }
  right. destruct (negb (bmlen s =? 0)); [|apply hs_write_meta].
  eapply hs_loc; [apply loc_blk_deallocate|apply hs_write_meta].
Qed.

Lemma hk_init_lw : forall s nbmoff nbmlen, hk s (snd (init_lw s nbmoff nbmlen)).
Proof. intros s o l. destruct (init_lw_hdr s o l) as [[H _]|H]; [left|right]; exact H. Qed.
Lemma init_lw_ok_hs : forall s nbmoff nbmlen, fst (init_lw s nbmoff nbmlen) = 0 -> HS (snd (init_lw s nbmoff nbmlen)).
Proof. intros s o l H0. destruct (init_lw_hdr s o l) as [[_ H]|H]; [contradiction|exact H]. Qed.

Lemma hk_resize : forall s size, hk s (snd (resize_fsm_bitmap s size)).
Proof.
  intros s size. unfold resize_fsm_bitmap. destruct (bmlen s >=? size); [apply hk_refl|].
  pose proof (loc_blk_allocate_aligned s (shr (IW_ROUNDUP size (aunit s)) (bpow s)) U64MAX) as H1.
  destruct (blk_allocate_aligned s (shr (IW_ROUNDUP size (aunit s)) (bpow s)) U64MAX) as [[[rc s1] off] sp].
  simpl in H1.
  destruct (if rc =? 0 then (shl off (bpow s), shl sp (bpow s))
            else if rc =? IWFS_ERROR_NO_FREE_SPACE
                 then (IW_ROUNDUP (bmlen s * pow2 (bpow s) * 8) (aunit s), IW_ROUNDUP size (aunit s))
                 else (0, IW_ROUNDUP size (aunit s))) as [nbmoff nbmlen'].
  eapply hk_trans; [left; exact H1|].
  pose proof (hk_init_lw s1 nbmoff nbmlen') as H2. destruct (init_lw s1 nbmoff nbmlen') as [rc2 s2]. simpl in H2.
  destruct (fx_leak (vr s) && negb (rc2 =? 0) && (rc =? 0)); [|exact H2].
  simpl. eapply hk_trans; [exact H2|left; apply loc_blk_deallocate].
Qed.

(* ---------------------------------------------------------------- _fsm_blk_allocate_lw: both retry loops *)
Lemma blk_allocate_na_unfold' : forall fuel s length_blk offset_blk opts ovr,
  blk_allocate_na fuel s length_blk offset_blk opts ovr =
  match find_matching s offset_blk length_blk with
  | Some (nlength, noff) =>
    let s1 := del_fbk2 s (nlength, noff) in
    let '(s2, olen) :=
      if nlength >? length_blk then
        if negb (has opts IWFSM_ALLOC_NO_OVERALLOCATE) && negb (crznum s =? 0) then
          (if ovr then (s1, nlength) else (put_fbk s1 (noff + length_blk) (nlength - length_blk), length_blk))
        else (put_fbk s1 (noff + length_blk) (nlength - length_blk), length_blk)
      else (s1, length_blk) in
    let '(rc, s3) := set_bit_status s2 noff olen true false (strict s) in
    let s4 := if (rc =? 0) && negb (has opts IWFSM_ALLOC_NO_STATS) then stats_update s3 length_blk else s3 in
    let s5 := if (rc =? 0) && has opts IWFSM_SOLID_ALLOCATED_SPACE then solid s4 noff olen else s4 in
    let rc := if (rc =? 0) && has opts IWFSM_SOLID_ALLOCATED_SPACE then solid_rc s4 noff olen else rc in
    let rc' := if (rc =? 0) && has opts IWFSM_SYNC_BMAP && mmap_all (vr s) && negb (fx_sync (vr s))
               then IWFS_ERROR_NOT_MMAPED else rc in
    (rc', s5, noff, olen)
  | None =>
    if has opts IWFSM_ALLOC_NO_EXTEND then (IWFS_ERROR_NO_FREE_SPACE, s, offset_blk, length_blk) else
    match fuel with
    | O => (FUEL_OUT, s, offset_blk, length_blk)
    | S f => let '(rc, s1) := resize_fsm_bitmap s (shl (bmlen s) 1) in
             if negb (rc =? 0) then (rc, s1, offset_blk, length_blk)
             else blk_allocate_na f s1 length_blk offset_blk opts ovr
    end
  end.
Proof. intros fuel; destruct fuel; reflexivity. Qed.

Lemma blk_allocate_al_unfold' : forall fuel s length_blk opts,
  blk_allocate_al fuel s length_blk opts =
  let '(rc, s1, off, olen) := blk_allocate_aligned s length_blk U64MAX in
  if rc =? IWFS_ERROR_NO_FREE_SPACE then
    if has opts IWFSM_ALLOC_NO_EXTEND then (IWFS_ERROR_NO_FREE_SPACE, s1, off, olen) else
    match fuel with
    | O => (FUEL_OUT, s1, off, olen)
    | S f => let '(rc2, s2) := resize_fsm_bitmap s1 (shl (bmlen s1) 1) in
             if negb (rc2 =? 0) then (rc2, s2, off, olen) else blk_allocate_al f s2 length_blk opts
    end
  else if (rc =? 0) && has opts IWFSM_SOLID_ALLOCATED_SPACE then (solid_rc s1 off olen, solid s1 off olen, off, olen)
  else (rc, s1, off, olen).
Proof. intros fuel; destruct fuel; reflexivity. Qed.

Lemma loc_na_found : forall fuel s length_blk offset_blk opts ovr nlength noff,
  find_matching s offset_blk length_blk = Some (nlength, noff) ->
  loc s (state_of (blk_allocate_na fuel s length_blk offset_blk opts ovr)).
Proof.
  intros fuel s length_blk offset_blk opts ovr nlength noff Efm.
  rewrite blk_allocate_na_unfold', Efm. cbv zeta.
  set (s1 := del_fbk2 s (nlength, noff)).
  set (P := if nlength >? length_blk then
              if negb (has opts IWFSM_ALLOC_NO_OVERALLOCATE) && negb (crznum s =? 0) then
                (if ovr then (s1, nlength) else (put_fbk s1 (noff + length_blk) (nlength - length_blk), length_blk))
              else (put_fbk s1 (noff + length_blk) (nlength - length_blk), length_blk)
            else (s1, length_blk)).
  assert (G2 : loc s (fst P)).
  { eapply loc_trans; [apply (loc_del_fbk2 s (nlength, noff))|]. unfold P. fold s1.
    destruct (nlength >? length_blk); [|apply loc_refl].
    destruct (negb (has opts IWFSM_ALLOC_NO_OVERALLOCATE) && negb (crznum s =? 0)); [destruct ovr|];
      simpl; first [apply loc_refl|apply loc_put_fbk]. }
  destruct P as [s2 olen]. simpl in G2.
  pose proof (loc_set_bit_status s2 noff olen true false (strict s)) as G3.
  destruct (set_bit_status s2 noff olen true false (strict s)) as [rc s3]. simpl in G3.
  set (s4 := if (rc =? 0) && negb (has opts IWFSM_ALLOC_NO_STATS) then stats_update s3 length_blk else s3).
  assert (G4 : loc s s4).
  { eapply loc_trans; [exact G2|]. eapply loc_trans; [exact G3|]. unfold s4.
    destruct ((rc =? 0) && negb (has opts IWFSM_ALLOC_NO_STATS)); [apply loc_stats|apply loc_refl]. }
  simpl. destruct ((rc =? 0) && has opts IWFSM_SOLID_ALLOCATED_SPACE);
    [eapply loc_trans; [exact G4|apply loc_solid]|exact G4].
Qed.

Lemma hk_blk_allocate_na : forall fuel s length_blk offset_blk opts ovr,
  hk s (state_of (blk_allocate_na fuel s length_blk offset_blk opts ovr)).
Proof.
  induction fuel as [|f IH]; intros s length_blk offset_blk opts ovr;
    destruct (find_matching s offset_blk length_blk) as [[nlength noff]|] eqn:Efm;
    try (left; apply loc_na_found with (nlength := nlength) (noff := noff); assumption);
    rewrite blk_allocate_na_unfold', Efm;
    (destruct (has opts IWFSM_ALLOC_NO_EXTEND); [apply hk_refl|]).
  - apply hk_refl.
  - pose proof (hk_resize s (shl (bmlen s) 1)) as Hg.
    destruct (resize_fsm_bitmap s (shl (bmlen s) 1)) as [rc s1]. simpl in Hg.
    destruct (negb (rc =? 0)); [exact Hg|].
    eapply hk_trans; [exact Hg|apply IH].
Qed.

Lemma hk_blk_allocate_al : forall fuel s length_blk opts,
  hk s (state_of (blk_allocate_al fuel s length_blk opts)).
Proof.
  induction fuel as [|f IH]; intros s length_blk opts; rewrite blk_allocate_al_unfold';
    pose proof (loc_blk_allocate_aligned s length_blk U64MAX) as G1;
    destruct (blk_allocate_aligned s length_blk U64MAX) as [[[rc s1] off] olen]; simpl in G1;
    (destruct (rc =? IWFS_ERROR_NO_FREE_SPACE);
     [destruct (has opts IWFSM_ALLOC_NO_EXTEND); [left; exact G1|]
     |destruct ((rc =? 0) && has opts IWFSM_SOLID_ALLOCATED_SPACE);
      [left; eapply loc_trans; [exact G1|apply loc_solid]|left; exact G1]]).
  - left. exact G1.
  - pose proof (hk_resize s1 (shl (bmlen s1) 1)) as Hg.
    destruct (resize_fsm_bitmap s1 (shl (bmlen s1) 1)) as [rc2 s2]. simpl in Hg.
    assert (G2 : hk s s2) by (eapply hk_trans; [left; exact G1|exact Hg]).
    destruct (negb (rc2 =? 0)); [exact G2|].
    eapply hk_trans; [exact G2|apply IH].
Qed.

Lemma hk_blk_allocate : forall s length_blk offset_blk opts ovr,
  hk s (state_of (blk_allocate s length_blk offset_blk opts ovr)).
Proof.
  intros. unfold blk_allocate. destruct (fx_hint (vr s) && (length_blk >? FSM_BKEY_MAX)); [apply hk_refl|].
  destruct (has opts IWFSM_ALLOC_PAGE_ALIGNED);
    [apply hk_blk_allocate_al|apply hk_blk_allocate_na].
Qed.

(* ---------------------------------------------------------------- _fsm_trim_tail_lw and the public operations *)
Lemma hk_trim_tail : forall s, hk s (snd (trim_tail s)).
Proof.
  intros s. unfold trim_tail.
  pose proof (loc_blk_allocate_aligned s (shr (bmlen s) (bpow s)) (shr (bmoff s) (bpow s))) as H1.
  destruct (blk_allocate_aligned s (shr (bmlen s) (bpow s)) (shr (bmoff s) (bpow s))) as [[[rc s1] offset] length].
  simpl in H1.
  destruct (negb (rc =? 0) && negb (rc =? IWFS_ERROR_NO_FREE_SPACE)); [left; exact H1|].
  set (P := if negb (rc =? 0) then (0, s1)
            else if shl offset (bpow s) <? bmoff s then init_lw s1 (shl offset (bpow s)) (shl length (bpow s))
            else blk_deallocate s1 offset length).
  assert (HP : hk s1 (snd P)).
  { unfold P. destruct (negb (rc =? 0)); [apply hk_refl|].
    destruct (shl offset (bpow s) <? bmoff s); [apply hk_init_lw|left; apply loc_blk_deallocate]. }
  destruct P as [rc2 s2]. simpl in HP.
  assert (H2 : hk s s2) by (eapply hk_trans; [left; exact H1|exact HP]).
  destruct (negb (rc2 =? 0)); [exact H2|].
  set (lb0 := shr (bmoff s2 + bmlen s2) (bpow s2)).
  destruct (fsize s2 >? shl (match find_prev_set_bit (bm s2) (nbits s2) lb0 with Some o => o + 1 | None => lb0 end) (bpow s2));
    [|exact H2].
  eapply hk_trans; [exact H2|]. left. unfold loc. repeat split.
Qed.

Lemma hk_allocate : forall s len addr opts ovr, hk s (state_of (allocate s len addr opts ovr)).
Proof.
  intros s len addr opts ovr. unfold allocate. destruct (len <=? 0); [apply hk_refl|].
  pose proof (hk_blk_allocate s (shr (IW_ROUNDUP len (pow2 (bpow s))) (bpow s)) (blk_of s addr) opts ovr) as H.
  destruct (blk_allocate s (shr (IW_ROUNDUP len (pow2 (bpow s))) (bpow s)) (blk_of s addr) opts ovr) as [[[rc s1] off] nlen].
  simpl in H. destruct (rc =? 0); exact H.
Qed.

Lemma hk_deallocate : forall s addr len, hk s (snd (deallocate s addr len)).
Proof.
  intros s addr len. unfold deallocate.
  destruct (negb (Z.land addr (blkmask s) =? 0)); [apply hk_refl|].
  destruct (fx_short (vr s) && (blk_of s len <? 1)); [apply hk_refl|].
  destruct (touches_meta s (blk_of s addr) (blk_of s len)); [apply hk_refl|].
  left. apply loc_blk_deallocate.
Qed.

Lemma hk_reallocate : forall s nlen addr olen opts ovr, hk s (state_of (reallocate s nlen addr olen opts ovr)).
Proof.
  intros s nlen addr olen opts ovr. unfold reallocate.
  destruct (negb (Z.land addr (blkmask s) =? 0) || negb (Z.land olen (blkmask s) =? 0)); [apply hk_refl|].
  set (nb := shr (IW_ROUNDUP nlen (pow2 (bpow s))) (bpow s)). set (ob := blk_of s olen). set (ab := blk_of s addr).
  destruct (fx_recheck (vr s) && (nlen <? 0)); [apply hk_refl|].
  destruct (nb =? ob); [apply hk_refl|].
  destruct (fx_realloc (vr s) && (ob <? 1)); [apply hk_refl|].
  destruct (fx_realloc (vr s) && touches_meta s ab ob); [apply hk_refl|].
  destruct (nb <? ob).
  - pose proof (loc_blk_deallocate s (ab + nb) (ob - nb)) as H.
    destruct (blk_deallocate s (ab + nb) (ob - nb)) as [rc s1]. simpl in H. destruct (rc =? 0); left; exact H.
  - destruct (negb ((if fx_recheck (vr s) then fst (set_bit_status s ab ob false true (strict s)) else 0) =? 0)); [apply hk_refl|].
    pose proof (hk_blk_allocate s nb ab opts ovr) as H.
    destruct (blk_allocate s nb ab opts ovr) as [[[rc s1] naddr] sp]. simpl in H.
    destruct (negb (rc =? 0)); [exact H|].
    assert (Hrel : hk s (snd (blk_deallocate s1 naddr sp))) by (eapply hk_trans; [exact H|left; apply loc_blk_deallocate]).
    destruct (fx_recheck (vr s) && negb (IW_RANGES_OVERLAP ab (ab + ob) (shr (bmoff s1) (bpow s)) (shr (bmoff s1) (bpow s) + shr (bmlen s1) (bpow s)) =? 0)); [exact Hrel|].
    destruct (negb (naddr =? ab) && negb (ensure_ok s1 (shl naddr (bpow s) + uw 64 olen)));
      [destruct (fx_recheck (vr s)); [exact Hrel|exact H]|].
    set (s1' := if negb (naddr =? ab) then ensure_size s1 (shl naddr (bpow s) + uw 64 olen) else s1).
    assert (H1 : hk s s1').
    { eapply hk_trans; [exact H|]. left. unfold s1'. destruct (negb (naddr =? ab)); [apply loc_ensure_size|apply loc_refl]. }
    pose proof (loc_blk_deallocate s1' ab ob) as H2.
    destruct (blk_deallocate s1' ab ob) as [rc2 s2]. simpl in H2.
    assert (H3 : hk s s2) by (eapply hk_trans; [exact H1|left; exact H2]).
    destruct (negb (rc2 =? 0)); exact H3.
Qed.

(* _fsm_clear sets bmoff = bmlen = 0 before it calls _fsm_init_lw: a clear that fails leaves an allocator without a
   bitmap (bmlen = 0, as the C code does); a clear that returns 0 has written the header *)
Lemma clear_hdr : forall s trim, HdrOk s ->
  HdrOk (snd (clear s trim)) /\ (HS s -> fst (clear s trim) = 0 -> HS (snd (clear s trim))).
Proof.
  intros s trim Hok. unfold clear. destruct (bmlen s =? 0); [split; [exact Hok|intros H _; exact H]|].
  pose proof (init_lw_hdr (set_bmloc s 0 0) (IW_ROUNDUP (hdrlen s) (aunit s)) (bmlen s)) as H.
  destruct (init_lw (set_bmloc s 0 0) (IW_ROUNDUP (hdrlen s) (aunit s)) (bmlen s)) as [rc s1]. simpl in H.
  destruct (rc =? 0) eqn:Erc; simpl andb.
  - apply Z.eqb_eq in Erc. subst rc.
    assert (Hs1 : HS s1) by (destruct H as [[_ H]|H]; [contradiction|exact H]).
    destruct trim.
    + pose proof (hk_trim_tail s1) as Ht. destruct (trim_tail s1) as [rc2 s2]. simpl in Ht. simpl.
      pose proof (hk_hs _ _ Ht Hs1) as H2. split; [right; exact H2|intros _ _; exact H2].
    + simpl. split; [right; exact Hs1|intros _ _; exact Hs1].
  - simpl. split.
    + destruct H as [[(_ & H & _) _]|H]; [left; simpl in H; exact H|right; exact H].
    + intros _ H0. apply Z.eqb_neq in Erc. contradiction.
Qed.

Lemma hk_close : forall s notrim, hk s (snd (close s notrim)).
Proof.
  intros s notrim. unfold close. destruct (tree s); [apply hk_refl|].
  destruct (if notrim then (0, s) else trim_tail s) as [rc s1]. right. apply hs_write_meta.
Qed.

(* whatever file is opened: afterwards the handle's bitmap area is the one the header names *)
Lemma hs_reopen : forall s st mm, HS (reopen s st mm).
Proof. intros s st mm. unfold reopen. eapply hs_loc; [apply loc_load_fsm|]. split; reflexivity. Qed.

Lemma hs_open_new_max : forall v bp hl bl mx st, fst (open_new_max v bp hl bl mx st) = 0 -> HS (snd (open_new_max v bp hl bl mx st)).
Proof.
  intros v bp hl bl mx st. unfold open_new_max.
  destruct ((if bp =? 0 then FSM_DEFAULT_BPOW else bp) >? FSM_MAX_BLOCK_POW); [intros H; vm_compute in H; discriminate H|].
  destruct (pow2 (if bp =? 0 then FSM_DEFAULT_BPOW else bp) >? FSM_AUNIT); [intros H; vm_compute in H; discriminate H|].
  apply init_lw_ok_hs.
Qed.
Lemma hs_open_new : forall v bp hl bl st, fst (open_new v bp hl bl st) = 0 -> HS (snd (open_new v bp hl bl st)).
Proof. intros v bp hl bl st. apply hs_open_new_max. Qed.

(* ---------------------------------------------------------------- every operation, every history *)
Theorem hs_step : forall s o, HS s -> (forall tr, o = OClear tr -> fst (clear s tr) = 0) -> HS (state_of (step s o)).
Proof.
  intros s o Hs Hc. destruct o as [len hint opts ovr|nlen addr olen opts ovr|addr len|tr| |nt st mm]; unfold step.
  - eapply hk_hs; [apply hk_allocate|exact Hs].
  - eapply hk_hs; [apply hk_reallocate|exact Hs].
  - pose proof (hk_deallocate s addr len) as H. destruct (deallocate s addr len) as [rc s1]. simpl in *. eapply hk_hs; eassumption.
  - destruct (clear_hdr s tr (or_intror Hs)) as [_ H]. specialize (H Hs (Hc tr eq_refl)).
    destruct (clear s tr) as [rc s1]. exact H.
  - apply hs_write_meta.
  - destruct (close s nt) as [rc s1]. simpl. apply hs_reopen.
Qed.

Theorem hdr_ok_step : forall s o, HdrOk s -> HdrOk (state_of (step s o)).
Proof.
  intros s o Hs. destruct o as [len hint opts ovr|nlen addr olen opts ovr|addr len|tr| |nt st mm]; unfold step.
  - eapply hk_ok; [apply hk_allocate|exact Hs].
  - eapply hk_ok; [apply hk_reallocate|exact Hs].
  - pose proof (hk_deallocate s addr len) as H. destruct (deallocate s addr len) as [rc s1]. simpl in *. eapply hk_ok; eassumption.
  - destruct (clear_hdr s tr Hs) as [H _]. destruct (clear s tr) as [rc s1]. exact H.
  - right. apply hs_write_meta.
  - destruct (close s nt) as [rc s1]. simpl. right. apply hs_reopen.
Qed.

Theorem hdr_ok_run : forall ops s, HdrOk s -> HdrOk (run s ops).
Proof.
  induction ops as [|o ops IH]; intros s Hs; [exact Hs|].
  unfold run. simpl. apply IH. apply hdr_ok_step. exact Hs.
Qed.

(* ---------------------------------------------------------------- close + reopen *)
(* the model of _fsm_close writes the header exactly when the tree is not empty *)
Lemma close_cases : forall s notrim,
  (tree s = [] /\ close s notrim = (0, s)) \/
  (tree s <> [] /\ notrim = true /\ close s notrim = (0, write_meta s)) \/
  (tree s <> [] /\ notrim = false /\ close s notrim = (fst (trim_tail s), write_meta (snd (trim_tail s)))).
Proof.
  intros s notrim. unfold close. destruct (tree s) as [|k t]; [left; split; reflexivity|right].
  destruct notrim; [left|right]; (split; [discriminate|split; [reflexivity|]]); [reflexivity|].
  destruct (trim_tail s) as [rc s1]. reflexivity.
Qed.

(* what an open of a file with a current header sees: exactly the closed state's bitmap at the closed state's place *)
Lemma reopen_current : forall s st mm, HS s ->
  bm (reopen s st mm) = bm s /\ bmoff (reopen s st mm) = bmoff s /\ bmlen (reopen s st mm) = bmlen s /\
  hdrlen (reopen s st mm) = hdrlen s /\ bpow (reopen s st mm) = bpow s /\ fsize (reopen s st mm) = fsize s.
Proof.
  intros s st mm Hs. apply hs_iff in Hs as Hc. destruct Hs as [E1 E2]. unfold reopen, disk_bm. rewrite Hc.
  set (s0 := mkFsm _ _ _ _ _ _ _ _ _ _ _ _ _ _ _ _ _ _ _).
  assert (B : bm (load_fsm s0) = bm s0 /\ hdrlen (load_fsm s0) = hdrlen s0 /\ bpow (load_fsm s0) = bpow s0 /\
              fsize (load_fsm s0) = fsize s0).
  { unfold load_fsm. generalize (load_runs (bm s0) (bmlen s0)). intros R.
    assert (G : forall R a, bm (fold_left (fun a r => put_fbk a (fst r) (snd r)) R a) = bm a /\
                            hdrlen (fold_left (fun a r => put_fbk a (fst r) (snd r)) R a) = hdrlen a /\
                            bpow (fold_left (fun a r => put_fbk a (fst r) (snd r)) R a) = bpow a /\
                            fsize (fold_left (fun a r => put_fbk a (fst r) (snd r)) R a) = fsize a).
    { clear. induction R as [|r R IH]; intros a; simpl; [repeat split|].
      destruct (IH (put_fbk a (fst r) (snd r))) as (I1 & I2 & I3 & I4). rewrite I1, I2, I3, I4.
      unfold put_fbk. destruct (negb (bkey_ok (fst r) (snd r))); [repeat split|].
      destruct (tree_insert (snd r, fst r) (tree a)) as [t' ins]. destruct ins; simpl negb; cbv iota; [|repeat split].
      destruct (fst r + snd r >=? lfbkoff a + lfbklen a); repeat split. }
    apply (G R (set_tree s0 [])). }
  destruct B as (B1 & B2 & B3 & B4). destruct (loc_load_fsm s0) as (L1 & L2 & _).
  rewrite B1, B2, B3, B4, L1, L2. unfold s0. simpl. repeat split; assumption.
Qed.

(* close + reopen, trim and no-trim, tree empty or not: the next open sees the state [close] left.  The only hypothesis:
   when the tree is empty (nothing free, so close writes nothing) the header must be current already. *)
Theorem reopen_sees_close : forall s notrim st mm, (tree s = [] -> HS s) ->
  let s1 := snd (close s notrim) in let r := reopen s1 st mm in
  bm r = bm s1 /\ bmoff r = bmoff s1 /\ bmlen r = bmlen s1 /\ hdrlen r = hdrlen s1 /\ bpow r = bpow s1 /\ fsize r = fsize s1.
Proof.
  intros s notrim st mm Hs. cbv zeta. apply reopen_current.
  destruct (close_cases s notrim) as [[Ht E]|[(Ht & _ & E)|(Ht & _ & E)]]; rewrite E; simpl.
  - apply Hs. exact Ht.
  - apply hs_write_meta.
  - apply hs_write_meta.
Qed.

(* the full file: no free block => close changes nothing at all (no trim, no header write), with either trim mode, and the
   next open still finds the same bitmap at the same place - because the header was current when close was called *)
Theorem full_file_close_reopen : forall s notrim st mm, tree s = [] -> HS s ->
  close s notrim = (0, s) /\
  bm (reopen s st mm) = bm s /\ bmoff (reopen s st mm) = bmoff s /\ bmlen (reopen s st mm) = bmlen s /\
  hdrlen (reopen s st mm) = hdrlen s /\ bpow (reopen s st mm) = bpow s /\ fsize (reopen s st mm) = fsize s.
Proof.
  intros s notrim st mm Ht Hs. split; [|apply reopen_current; exact Hs].
  destruct (close_cases s notrim) as [[_ E]|[(Hn & _)|(Hn & _)]]; [exact E|contradiction|contradiction].
Qed.

(* ---------------------------------------------------------------- releases that end behind the addressable space *)
(* _fsm_set_bit_status_lw refuses a range iff it ends behind the LAST BIT of the bitmap: one block too far is refused *)
Lemma set_bit_status_guard : forall s off len v dry,
  (off + len <= nbits s -> fst (set_bit_status s off len v dry false) = 0) /\
  (nbits s < off + len -> forall chk, set_bit_status s off len v dry chk = (IWFS_ERROR_FSM_SEGMENTATION, s)).
Proof.
  intros s off len v dry. unfold set_bit_status. split.
  - intros H. replace (nbits s <? off + len) with false by (symmetry; apply Z.ltb_ge; lia). reflexivity.
  - intros H chk. replace (nbits s <? off + len) with true by (symmetry; apply Z.ltb_lt; lia). reflexivity.
Qed.

Lemma blk_deallocate_out_of_range : forall s a m, nbits s < a + m ->
  blk_deallocate s a m = (IWFS_ERROR_FSM_SEGMENTATION, s).
Proof.
  intros s a m H. unfold blk_deallocate.
  destruct (set_bit_status_guard s a m false true) as [_ G1]. destruct (set_bit_status_guard s a m false false) as [_ G2].
  rewrite (G1 H true), (G2 H (strict s)). simpl fst.
  destruct (fx_strict (vr s) && strict s); reflexivity.
Qed.

(* every variant of the code, strict or not, aligned or not: a release whose range ends behind the last block the bitmap
   describes is refused and the state (bitmap, tree, cache, sizes) is exactly as before *)
Theorem release_beyond_end_refused : forall s addr len, nbits s < blk_of s addr + blk_of s len ->
  fst (deallocate s addr len) <> 0 /\ snd (deallocate s addr len) = s.
Proof.
  intros s addr len H. unfold deallocate.
  destruct (negb (Z.land addr (blkmask s) =? 0)); [split; [vm_compute; discriminate|reflexivity]|].
  destruct (fx_short (vr s) && (blk_of s len <? 1)); [split; [vm_compute; discriminate|reflexivity]|].
  destruct (touches_meta s (blk_of s addr) (blk_of s len)); [split; [vm_compute; discriminate|reflexivity]|].
  rewrite (blk_deallocate_out_of_range _ _ _ H). split; [vm_compute; discriminate|reflexivity].
Qed.

(* the shrinking branch of _fsm_reallocate releases [addr + nlen, addr + olen): same guard *)
Theorem shrink_beyond_end_refused : forall s nlen addr olen opts ovr,
  Z.land addr (blkmask s) = 0 -> Z.land olen (blkmask s) = 0 ->
  shr (IW_ROUNDUP nlen (pow2 (bpow s))) (bpow s) < blk_of s olen ->
  nbits s < blk_of s addr + blk_of s olen ->
  let '(rc, s', a, l) := reallocate s nlen addr olen opts ovr in rc <> 0 /\ s' = s /\ a = addr /\ l = olen.
Proof.
  intros s nlen addr olen opts ovr Ha Ho Hlt H. unfold reallocate. rewrite Ha, Ho. simpl negb. simpl orb. cbv iota.
  set (nb := shr (IW_ROUNDUP nlen (pow2 (bpow s))) (bpow s)) in *. set (ob := blk_of s olen) in *.
  set (ab := blk_of s addr) in *.
  destruct (fx_recheck (vr s) && (nlen <? 0)); [split; [vm_compute; discriminate|repeat split]|].
  replace (nb =? ob) with false by (symmetry; apply Z.eqb_neq; lia).
  destruct (fx_realloc (vr s) && (ob <? 1)); [split; [vm_compute; discriminate|repeat split]|].
  destruct (fx_realloc (vr s) && touches_meta s ab ob); [split; [vm_compute; discriminate|repeat split]|].
  replace (nb <? ob) with true by (symmetry; apply Z.ltb_lt; lia).
  rewrite (blk_deallocate_out_of_range s (ab + nb) (ob - nb)) by lia.
  replace (IWFS_ERROR_FSM_SEGMENTATION =? 0) with false by reflexivity.
  split; [vm_compute; discriminate|repeat split].
Qed.

(* status queries get no slack either *)
Theorem status_beyond_end_refused : forall s addr len al, nbits s < blk_of s addr + blk_of s len ->
  check_allocation_status s addr len al <> 0.
Proof.
  intros s addr len al H. unfold check_allocation_status.
  destruct (negb (Z.land addr (blkmask s) =? 0) || negb (Z.land len (blkmask s) =? 0)); [vm_compute; discriminate|].
  destruct (touches_meta s (blk_of s addr) (blk_of s len)); [vm_compute; discriminate|].
  destruct (set_bit_status_guard s (blk_of s addr) (blk_of s len) (negb al) true) as [_ G].
  rewrite (G H true). vm_compute. discriminate.
Qed.
