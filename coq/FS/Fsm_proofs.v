(* Proofs about FS/Fsm.v: the sorted key sequence behaves like the AVL tree's key set; the invariant
   "tree = maximal zero runs of the bitmap" (+ cache entry is a tree entry) is preserved by the block-level
   operations; allocation only hands out blocks that were free. *)
Require Import ZArith List Bool Lia Sorted.
Require Import IW.Lib.CInt IW.Gen.Facts IW.FS.Bits IW.FS.Bits_proofs IW.FS.Fsm IW.FS.Fsm_hdr_proofs. Import ListNotations.
Local Open Scope Z_scope. Local Open Scope bool_scope.
Ltac Zify.zify_post_hook ::= Z.div_mod_to_equations.

(* ---------------------------------------------------------------- _fsm_cmp_key is the lexicographic order on (len, off) *)
Definition klt (a b : key) : Prop := fst a < fst b \/ (fst a = fst b /\ snd a < snd b).

Lemma cmp_key_lt : forall a b, (cmp_key a b <? 0) = true <-> klt a b.
Proof.
  intros [al ao] [bl bo]. unfold cmp_key, klt, b2z. simpl fst; simpl snd.
  destruct (bl <? al) eqn:E1; destruct (al <? bl) eqn:E2; destruct (bo <? ao) eqn:E3; destruct (ao <? bo) eqn:E4;
    simpl; rewrite ?Z.ltb_lt, ?Z.ltb_ge in *; split; intros H; try lia; try discriminate; try reflexivity.
Qed.
Lemma cmp_key_eq : forall a b, (cmp_key a b =? 0) = true <-> a = b.
Proof.
  intros [al ao] [bl bo]. unfold cmp_key, b2z.
  destruct (bl <? al) eqn:E1; destruct (al <? bl) eqn:E2; destruct (bo <? ao) eqn:E3; destruct (ao <? bo) eqn:E4;
    simpl; rewrite ?Z.ltb_lt, ?Z.ltb_ge in *; split; intros H; try lia; try discriminate; try reflexivity;
    try (injection H as -> ->; lia); try (f_equal; lia).
Qed.
Lemma klt_irrefl : forall a, ~ klt a a.
Proof. intros a [H|[_ H]]; lia. Qed.
Lemma klt_trans : forall a b c, klt a b -> klt b c -> klt a c.
Proof. unfold klt. intros a b c H1 H2. lia. Qed.
Lemma klt_total : forall a b, klt a b \/ a = b \/ klt b a.
Proof.
  intros [al ao] [bl bo]. unfold klt. simpl.
  destruct (Z.lt_trichotomy al bl) as [|[|]]; destruct (Z.lt_trichotomy ao bo) as [|[|]]; subst; auto; try (left; lia); try (right; right; lia).
Qed.
Lemma cmp_key_gt : forall a b, (cmp_key a b <? 0) = false -> (cmp_key a b =? 0) = false -> klt b a.
Proof.
  intros a b H1 H2. destruct (klt_total a b) as [H|[H|H]]; [|subst|exact H].
  - apply cmp_key_lt in H. congruence.
  - assert ((cmp_key b b =? 0) = true) by (apply cmp_key_eq; reflexivity). congruence.
Qed.

Definition tsorted (t : list key) : Prop := StronglySorted klt t.

Lemma tsorted_inv : forall x r, tsorted (x :: r) -> tsorted r /\ Forall (klt x) r.
Proof. intros x r H. inversion H; subst. split; assumption. Qed.

(* ---- tree_insert *)
Lemma tree_insert_in : forall k t x, In x (fst (tree_insert k t)) <-> x = k \/ In x t.
Proof.
  induction t as [|y r IH]; intros x; simpl.
  - split; [intros [H|[]]; left; congruence|intros [H|[]]; left; congruence].
  - destruct (cmp_key k y <? 0) eqn:E1; simpl.
    + split; [intros [H|H]; [left; congruence|right; exact H]|intros [H|H]; [left; congruence|right; exact H]].
    + destruct (cmp_key k y =? 0) eqn:E2; simpl.
      * apply cmp_key_eq in E2. subst y. split; [intros H; right; exact H|intros [H|H]; [left; congruence|exact H]].
      * destruct (tree_insert k r) as [r' ins] eqn:Er. simpl. simpl in IH. rewrite IH. tauto.
Qed.
Lemma tree_insert_sorted : forall k t, tsorted t -> tsorted (fst (tree_insert k t)).
Proof.
  induction t as [|y r IH]; intros Hs; simpl.
  - constructor; constructor.
  - apply tsorted_inv in Hs. destruct Hs as [Hr Hall].
    destruct (cmp_key k y <? 0) eqn:E1; simpl.
    + apply cmp_key_lt in E1. constructor; [constructor; assumption|].
      constructor; [exact E1|]. eapply Forall_impl; [|exact Hall]. intros z Hz. eapply klt_trans; eassumption.
    + destruct (cmp_key k y =? 0) eqn:E2; simpl.
      * constructor; assumption.
      * pose proof (cmp_key_gt _ _ E1 E2) as Hgt.
        destruct (tree_insert k r) as [r' ins] eqn:Er. simpl. simpl in IH.
        constructor; [apply IH; exact Hr|].
        apply Forall_forall. intros z Hz. pose proof (tree_insert_in k r z) as Hin. rewrite Er in Hin. simpl in Hin.
        apply Hin in Hz. destruct Hz as [->|Hz]; [exact Hgt|]. rewrite Forall_forall in Hall. apply Hall. exact Hz.
Qed.
Lemma tree_insert_dup : forall k t, snd (tree_insert k t) = false -> In k t.
Proof.
  induction t as [|y r IH]; simpl; [discriminate|].
  destruct (cmp_key k y <? 0) eqn:E1; simpl; [discriminate|].
  destruct (cmp_key k y =? 0) eqn:E2; simpl.
  - intros _. left. symmetry. apply cmp_key_eq. exact E2.
  - destruct (tree_insert k r) as [r' ins]. simpl. simpl in IH. intros H. right. apply IH. exact H.
Qed.
Lemma tree_insert_dup_same : forall k t, snd (tree_insert k t) = false -> fst (tree_insert k t) = t.
Proof.
  induction t as [|y r IH]; simpl; [discriminate|].
  destruct (cmp_key k y <? 0) eqn:E1; simpl; [discriminate|].
  destruct (cmp_key k y =? 0) eqn:E2; simpl; [reflexivity|].
  destruct (tree_insert k r) as [r' ins]. simpl. simpl in IH. intros H. f_equal. apply IH. exact H.
Qed.

(* ---- tree_remove *)
Lemma tree_remove_in : forall k t x, tsorted t -> (In x (fst (tree_remove k t)) <-> In x t /\ x <> k).
Proof.
  induction t as [|y r IH]; intros x Hs; simpl.
  - tauto.
  - apply tsorted_inv in Hs. destruct Hs as [Hr Hall]. rewrite Forall_forall in Hall.
    destruct (cmp_key k y <? 0) eqn:E1; simpl.
    + apply cmp_key_lt in E1. split; [|tauto]. intros H. split; [exact H|]. intros ->.
      destruct H as [->|H]; [exact (klt_irrefl _ E1)|]. apply Hall in H. exact (klt_irrefl _ (klt_trans _ _ _ E1 H)).
    + destruct (cmp_key k y =? 0) eqn:E2; simpl.
      * apply cmp_key_eq in E2. subst y. split.
        -- intros H. split; [right; exact H|]. intros ->. apply Hall in H. exact (klt_irrefl _ H).
        -- intros [[H|H] Hne]; [congruence|exact H].
      * pose proof (cmp_key_gt _ _ E1 E2) as Hgt.
        destruct (tree_remove k r) as [r' f] eqn:Er. simpl. simpl in IH. rewrite IH by exact Hr.
        split; [intros [->|[H Hne]]; [split; [left; reflexivity|]|split; [right; exact H|exact Hne]]|].
        -- intros ->. exact (klt_irrefl _ Hgt).
        -- intros [[->|H] Hne]; [left; reflexivity|right; split; assumption].
Qed.
Lemma tree_remove_sorted : forall k t, tsorted t -> tsorted (fst (tree_remove k t)).
Proof.
  induction t as [|y r IH]; intros Hs; simpl; [constructor|].
  pose proof Hs as Hs0. apply tsorted_inv in Hs. destruct Hs as [Hr Hall].
  destruct (cmp_key k y <? 0) eqn:E1; simpl; [exact Hs0|].
  destruct (cmp_key k y =? 0) eqn:E2; simpl; [exact Hr|].
  destruct (tree_remove k r) as [r' f] eqn:Er. simpl. simpl in IH.
  constructor; [apply IH; exact Hr|]. apply Forall_forall. intros z Hz.
  pose proof (tree_remove_in k r z Hr) as Hin. rewrite Er in Hin. simpl in Hin. apply Hin in Hz.
  rewrite Forall_forall in Hall. apply Hall. tauto.
Qed.

(* ---- lookup_bounds: both answers are tree entries (or the lb passed in) *)
Lemma lookup_bounds_in : forall k t lb0 lb ub, lookup_bounds k t lb0 = (lb, ub) ->
  (lb = lb0 \/ exists x, lb = Some x /\ In x t) /\ (ub = None \/ exists x, ub = Some x /\ In x t).
Proof.
  induction t as [|y r IH]; intros lb0 lb ub H; simpl in H.
  - injection H as <- <-. split; left; reflexivity.
  - destruct (cmp_key k y <? 0) eqn:E1.
    + injection H as <- <-. split; [left; reflexivity|right; exists y; split; [reflexivity|left; reflexivity]].
    + destruct (cmp_key k y =? 0) eqn:E2.
      * injection H as <- <-. split; right; exists y; (split; [reflexivity|left; reflexivity]).
      * apply IH in H. destruct H as [[Hl|(x & Hl & Hx)] [Hu|(z & Hu & Hz)]].
        -- split; [right; exists y; split; [exact Hl|left; reflexivity]|left; exact Hu].
        -- split; [right; exists y; split; [exact Hl|left; reflexivity]|right; exists z; split; [exact Hu|right; exact Hz]].
        -- split; [right; exists x; split; [exact Hl|right; exact Hx]|left; exact Hu].
        -- split; [right; exists x; split; [exact Hl|right; exact Hx]|right; exists z; split; [exact Hu|right; exact Hz]].
Qed.

Lemma tree_remove_found : forall k t, tsorted t -> (snd (tree_remove k t) = true <-> In k t).
Proof.
  induction t as [|y r IH]; intros Hs; simpl.
  - split; [discriminate|intros []].
  - apply tsorted_inv in Hs. destruct Hs as [Hr Hall]. rewrite Forall_forall in Hall.
    destruct (cmp_key k y <? 0) eqn:E1; simpl.
    + apply cmp_key_lt in E1. split; [discriminate|]. intros [->|H]; [destruct (klt_irrefl _ E1)|].
      apply Hall in H. destruct (klt_irrefl _ (klt_trans _ _ _ E1 H)).
    + destruct (cmp_key k y =? 0) eqn:E2; simpl.
      * apply cmp_key_eq in E2. subst y. split; [intros _; left; reflexivity|reflexivity].
      * pose proof (cmp_key_gt _ _ E1 E2) as Hgt.
        destruct (tree_remove k r) as [r' f] eqn:Er. simpl. simpl in IH. rewrite IH by exact Hr.
        split; [intros H; right; exact H|]. intros [->|H]; [destruct (klt_irrefl _ Hgt)|exact H].
Qed.

(* ---------------------------------------------------------------- state-level effect of put / del *)
(* everything except the tree and the cache is left alone *)
Definition frame (s s' : fsm) : Prop :=
  bm s' = bm s /\ bmoff s' = bmoff s /\ bmlen s' = bmlen s /\ hdrlen s' = hdrlen s /\ bpow s' = bpow s /\
  aunit s' = aunit s /\ fsize s' = fsize s /\ crzsum s' = crzsum s /\ crznum s' = crznum s /\
  p_crzsum s' = p_crzsum s /\ p_crznum s' = p_crznum s /\ strict s' = strict s /\ vr s' = vr s /\
  p_bmoff s' = p_bmoff s /\ p_bmlen s' = p_bmlen s.
Lemma frame_refl : forall s, frame s s.
Proof. intros s. unfold frame. repeat split. Qed.
Lemma frame_trans : forall a b c, frame a b -> frame b c -> frame a c.
Proof. unfold frame. intros a b c H1 H2. decompose [and] H1. decompose [and] H2. repeat split; congruence. Qed.

(* the configuration part of the state *)
Definition same_cfg (s s' : fsm) : Prop :=
  vr s' = vr s /\ bpow s' = bpow s /\ aunit s' = aunit s /\ bmlen s' = bmlen s /\ bmoff s' = bmoff s /\
  hdrlen s' = hdrlen s /\ strict s' = strict s.
Lemma same_cfg_refl : forall s, same_cfg s s.
Proof. intros s. unfold same_cfg. repeat split. Qed.
Lemma same_cfg_trans : forall a b c, same_cfg a b -> same_cfg b c -> same_cfg a c.
Proof. unfold same_cfg. intros a b c H1 H2. decompose [and] H1. decompose [and] H2. repeat split; congruence. Qed.
Lemma frame_same_cfg : forall s s', frame s s' -> same_cfg s s'.
Proof. unfold frame, same_cfg. intros s s' H. decompose [and] H. repeat split; assumption. Qed.

Definition LF (s : fsm) : Prop := lfbkoff s <> 0 -> In (lfbklen s, lfbkoff s) (tree s).
Definition TS (s : fsm) : Prop := tsorted (tree s) /\ LF s.

Lemma put_fbk_spec : forall s o n, bkey_ok o n = true -> TS s ->
  frame s (put_fbk s o n) /\ TS (put_fbk s o n) /\
  (forall x, In x (tree (put_fbk s o n)) <-> x = (n, o) \/ In x (tree s)).
Proof.
  intros s o n Hok [Hs Hlf]. unfold put_fbk. rewrite Hok. simpl negb. cbv iota.
  pose proof (tree_insert_in (n, o) (tree s)) as Hin. pose proof (tree_insert_sorted (n, o) (tree s) Hs) as Hsort.
  pose proof (tree_insert_dup (n, o) (tree s)) as Hdup.
  destruct (tree_insert (n, o) (tree s)) as [t' ins] eqn:Et. simpl in Hin, Hsort, Hdup.
  destruct ins; simpl negb; cbv iota.
  - destruct (o + n >=? lfbkoff s + lfbklen s).
    + split; [unfold frame; simpl; repeat split|]. split; [|intros x; simpl; apply Hin].
      split; [exact Hsort|]. unfold LF. simpl. intros _. apply Hin. left. reflexivity.
    + split; [unfold frame; simpl; repeat split|]. split; [|intros x; simpl; apply Hin].
      split; [exact Hsort|]. unfold LF. simpl. intros H. apply Hin. right. apply Hlf. exact H.
  - split; [apply frame_refl|]. split; [split; assumption|]. intros x. specialize (Hdup eq_refl).
    split; [intros H; right; exact H|intros [->|H]; assumption].
Qed.

Lemma del_fbk_spec : forall s o n, bkey_ok o n = true -> TS s ->
  frame s (del_fbk s o n) /\ TS (del_fbk s o n) /\
  (forall x, In x (tree (del_fbk s o n)) <-> In x (tree s) /\ x <> (n, o)).
Proof.
  intros s o n Hok [Hs Hlf]. unfold del_fbk. rewrite Hok. simpl negb. cbv iota.
  pose proof (tree_remove_in (n, o) (tree s)) as Hin. pose proof (tree_remove_sorted (n, o) (tree s) Hs) as Hsort.
  pose proof (tree_remove_found (n, o) (tree s) Hs) as Hfound.
  unfold del_fbk2.
  destruct (tree_remove (n, o) (tree s)) as [t' f] eqn:Et. simpl in Hin, Hsort, Hfound.
  destruct f.
  - simpl snd. destruct (o =? lfbkoff s) eqn:Eo.
    + split; [unfold frame; simpl; repeat split|]. split; [|intros x; simpl; apply Hin; exact Hs].
      split; [exact Hsort|]. unfold LF. simpl. intros H. congruence.
    + split; [unfold frame; simpl; repeat split|]. split; [|intros x; simpl; apply Hin; exact Hs].
      split; [exact Hsort|]. unfold LF. simpl. intros H. apply Hin; [exact Hs|]. split; [apply Hlf; exact H|].
      intros He. injection He as _ He. apply Z.eqb_neq in Eo. congruence.
  - split; [apply frame_refl|]. split; [split; assumption|]. intros x.
    split; [|tauto]. intros H. split; [exact H|]. intros ->. apply Hfound in H. discriminate.
Qed.

Lemma del_fbk2_spec : forall s k, TS s ->
  frame s (del_fbk2 s k) /\ TS (del_fbk2 s k) /\
  (forall x, In x (tree (del_fbk2 s k)) <-> In x (tree s) /\ x <> k).
Proof.
  intros s k [Hs Hlf]. unfold del_fbk2.
  pose proof (tree_remove_in k (tree s)) as Hin. pose proof (tree_remove_sorted k (tree s) Hs) as Hsort.
  destruct (tree_remove k (tree s)) as [t' f] eqn:Et. simpl in Hin, Hsort.
  destruct (snd k =? lfbkoff s) eqn:Eo.
  - split; [unfold frame; simpl; repeat split|]. split; [|intros x; simpl; apply Hin; exact Hs].
    split; [exact Hsort|]. unfold LF. simpl. intros H. congruence.
  - split; [unfold frame; simpl; repeat split|]. split; [|intros x; simpl; apply Hin; exact Hs].
    split; [exact Hsort|]. unfold LF. simpl. intros H. apply Hin; [exact Hs|]. split; [apply Hlf; exact H|].
    intros He. apply Z.eqb_neq in Eo. subst k. simpl in Eo. congruence.
Qed.

(* ---------------------------------------------------------------- the invariant *)
Record Inv (s : fsm) : Prop := mkInv {
  inv_len : len_z (bm s) = nbits s;
  inv_u32 : nbits s <= FSM_BKEY_MAX;
  inv_ts : TS s;
  inv_runs : forall o n, In (n, o) (tree s) <-> is_run (bm s) o n }.

Lemma run_bkey_ok : forall s o n, Inv s -> is_run (bm s) o n -> bkey_ok o n = true.
Proof.
  intros s o n Hi (H1 & H2 & H3 & _). unfold bkey_ok. rewrite (inv_len s Hi) in H3. pose proof (inv_u32 s Hi).
  apply andb_true_iff. split; apply Z.leb_le; lia.
Qed.

(* find_matching returns a tree entry that is long enough *)
Lemma find_matching_spec : forall s off len k, find_matching s off len = Some k ->
  In k (tree s) /\ len <= fst k.
Proof.
  intros s off0 len k. unfold find_matching, fm_lookup. generalize (hint_of s off0). intros off.
  destruct (negb (bkey_ok off len)); [discriminate|].
  destruct (lookup_bounds (len, off) (tree s) None) as [lb ub] eqn:E.
  apply lookup_bounds_in in E. destruct E as [Hl Hu].
  assert (HL : forall x, lb = Some x -> In x (tree s)).
  { intros x Hx. destruct Hl as [Hl|(y & Hl & Hy)]; [congruence|]. congruence. }
  assert (HU : forall x, ub = Some x -> In x (tree s)).
  { intros x Hx. destruct Hu as [Hu|(y & Hu & Hy)]; [congruence|]. congruence. }
  destruct lb as [lk|]; destruct ub as [uk|]; simpl;
    repeat match goal with |- context [if ?c then _ else _] => let E := fresh "E" in destruct c eqn:E end;
    intros H; try discriminate; injection H as <-;
    rewrite ?Z.eqb_eq, ?Z.gtb_lt in *; (split; [auto|lia]).
Qed.

Lemma Inv_ext : forall s s', bm s' = bm s -> tree s' = tree s -> lfbkoff s' = lfbkoff s -> lfbklen s' = lfbklen s ->
  bmlen s' = bmlen s -> Inv s -> Inv s'.
Proof.
  intros s s' H1 H2 H3 H4 H5 [I1 I2 [I3 I4] I5]. unfold nbits in *.
  constructor; unfold nbits, TS, LF; rewrite ?H1, ?H2, ?H3, ?H4, ?H5; try assumption. split; assumption.
Qed.

Lemma set_bit_status_ok : forall s off len v chk, 0 <= off -> 0 <= len -> off + len <= nbits s -> len_z (bm s) = nbits s ->
  (forall i, off <= i < off + len -> getb (bm s) i = negb v) ->
  set_bit_status s off len v false chk = (0, set_bm s (set_range (bm s) off len v)).
Proof.
  intros s off len v chk H0 H1 H2 Hl Hall. unfold set_bit_status.
  replace (nbits s <? off + len) with false by lia.
  assert (all_range (bm s) off len (negb v) = true) as -> by (apply all_range_spec; [lia|lia|lia|exact Hall]).
  simpl. rewrite andb_false_r. reflexivity.
Qed.

Lemma agree_set_range : forall l a m v, 0 <= a -> a + m <= len_z l -> agree_out l (set_range l a m v) a m v.
Proof. intros l a m v Ha Hm i. apply wbit_set_range; assumption. Qed.

(* the tree after carving [a, a+m) out of the run (ro, rn) *)
Definition carved (s s3 : fsm) (ro rn a m : Z) : Prop :=
  frame s s3 /\ TS s3 /\
  forall x, In x (tree s3) <-> ((In x (tree s) /\ x <> (rn, ro)) \/ (x = (a - ro, ro) /\ ro < a) \/
                               (x = (ro + rn - (a + m), a + m) /\ a + m < ro + rn)).

Lemma alloc_inv_core : forall s s3 ro rn a m, Inv s -> is_run (bm s) ro rn -> ro <= a -> 0 < m -> a + m <= ro + rn ->
  carved s s3 ro rn a m -> Inv (set_bm s3 (set_range (bm s) a m true)).
Proof.
  intros s s3 ro rn a m Hi Hrun Ha Hm Hend (Hfr & Hts & Hmem).
  destruct Hfr as (F1 & F2 & F3 & _).
  pose proof Hrun as (R1 & R2 & R3 & _).
  constructor.
  - simpl. rewrite set_range_length. unfold nbits. simpl. rewrite F3. apply (inv_len s Hi).
  - unfold nbits. simpl. rewrite F3. apply (inv_u32 s Hi).
  - destruct Hts as [T1 T2]. split; [exact T1|]. unfold LF in *. simpl. exact T2.
  - intros o n. simpl bm. simpl tree.
    rewrite (runs_after_alloc (bm s) (set_range (bm s) a m true) ro rn a m
               (agree_set_range (bm s) a m true ltac:(lia) ltac:(lia)) Hrun Ha Hm Hend o n).
    rewrite Hmem. rewrite (inv_runs s Hi).
    split; (intros [[H1 H2]|[[H1 H2]|[H1 H2]]];
            [left; split; [exact H1|congruence] | right; left | right; right]).
    + injection H1 as -> ->. repeat split; assumption.
    + injection H1 as -> ->. repeat split; assumption.
    + destruct H2 as [-> H2]. subst o. split; [reflexivity|exact H2].
    + destruct H2 as [-> H2]. subst o. split; [reflexivity|exact H2].
Qed.

Lemma free_in_getb : forall l o n, is_run l o n -> forall i, o <= i < o + n -> getb l i = false.
Proof. intros l o n (_ & _ & _ & H & _) i Hi. apply H. exact Hi. Qed.

(* ---------------------------------------------------------------- _fsm_blk_allocate_lw, a fitting extent exists *)
Lemma blk_allocate_na_unfold : forall fuel s length_blk offset_blk opts ovr,
  blk_allocate_na fuel s length_blk offset_blk opts ovr =
  match find_matching s offset_blk length_blk with
  | Some (nlength, noff) =>
    let s1 := del_fbk2 s (nlength, noff) in
    let '(s2, olen) :=
      if nlength >? length_blk then
        if negb (has opts IWFSM_ALLOC_NO_OVERALLOCATE) && negb (crznum s =? 0) then
          (if ovr then (s1, nlength) else (put_fbk s1 (noff + length_blk) (nlength - length_blk), length_blk))
        else (put_fbk s1 (noff + length_blk) (nlength - length_blk), length_blk)
      else (s1, length_blk) in
    let '(rc, s3) := set_bit_status s2 noff olen true false (strict s) in
    let s4 := if (rc =? 0) && negb (has opts IWFSM_ALLOC_NO_STATS) then stats_update s3 length_blk else s3 in
    let s5 := if (rc =? 0) && has opts IWFSM_SOLID_ALLOCATED_SPACE then solid s4 noff olen else s4 in
    let rc := if (rc =? 0) && has opts IWFSM_SOLID_ALLOCATED_SPACE then solid_rc s4 noff olen else rc in
    let rc' := if (rc =? 0) && has opts IWFSM_SYNC_BMAP && mmap_all (vr s) && negb (fx_sync (vr s))
               then IWFS_ERROR_NOT_MMAPED else rc in
    (rc', s5, noff, olen)
  | None =>
    if has opts IWFSM_ALLOC_NO_EXTEND then (IWFS_ERROR_NO_FREE_SPACE, s, offset_blk, length_blk) else
    match fuel with
    | O => (FUEL_OUT, s, offset_blk, length_blk)
    | S f => let '(rc, s1) := resize_fsm_bitmap s (shl (bmlen s) 1) in
             if negb (rc =? 0) then (rc, s1, offset_blk, length_blk)
             else blk_allocate_na f s1 length_blk offset_blk opts ovr
    end
  end.
Proof. intros fuel; destruct fuel; reflexivity. Qed.

(* what a successful allocation means at the bitmap level *)
Definition allocated_from (s s' : fsm) (off olen : Z) : Prop :=
  Inv s' /\ same_cfg s s' /\ 0 <= off /\ 0 < olen /\ off + olen <= nbits s /\
  (forall i, off <= i < off + olen -> getb (bm s) i = false) /\
  bm s' = set_range (bm s) off olen true.

Lemma carve_tail : forall s ro rn m, Inv s -> is_run (bm s) ro rn -> 0 < m -> m <= rn ->
  carved s (if rn >? m then put_fbk (del_fbk2 s (rn, ro)) (ro + m) (rn - m) else del_fbk2 s (rn, ro)) ro rn ro m.
Proof.
  intros s ro rn m Hi Hrun Hm Hle.
  destruct (del_fbk2_spec s (rn, ro) (inv_ts s Hi)) as (F1 & T1 & M1).
  pose proof Hrun as (R1 & R2 & R3 & _). rewrite (inv_len s Hi) in R3. pose proof (inv_u32 s Hi) as Hu32.
  destruct (rn >? m) eqn:E.
  - apply Z.gtb_lt in E.
    assert (Hok : bkey_ok (ro + m) (rn - m) = true) by (unfold bkey_ok; apply andb_true_iff; split; apply Z.leb_le; lia).
    destruct (put_fbk_spec (del_fbk2 s (rn, ro)) (ro + m) (rn - m) Hok T1) as (F2 & T2 & M2).
    split; [eapply frame_trans; eassumption|]. split; [exact T2|]. intros x. rewrite M2, M1.
    replace (ro + rn - (ro + m)) with (rn - m) by lia. split.
    + intros [->|H]; [right; right; split; [reflexivity|lia]|left; exact H].
    + intros [H|[[_ H]|[-> _]]]; [right; exact H|lia|left; reflexivity].
  - rewrite Z.gtb_ltb in E. apply Z.ltb_ge in E. assert (rn = m) by lia. subst m.
    split; [exact F1|]. split; [exact T1|]. intros x. rewrite M1. split.
    + intros H; left; exact H.
    + intros [H|[[_ H]|[_ H]]]; [exact H|lia|lia].
Qed.

Lemma carve_whole : forall s ro rn, Inv s -> carved s (del_fbk2 s (rn, ro)) ro rn ro rn.
Proof.
  intros s ro rn Hi. destruct (del_fbk2_spec s (rn, ro) (inv_ts s Hi)) as (F1 & T1 & M1).
  split; [exact F1|]. split; [exact T1|]. intros x. rewrite M1. split.
  - intros H; left; exact H.
  - intros [H|[[_ H]|[_ H]]]; [exact H|lia|lia].
Qed.

Lemma Inv_stats : forall s n, Inv s -> Inv (stats_update s n).
Proof. intros s n. apply Inv_ext; unfold stats_update; destruct (crznum s >? FSM_MAX_STATS_COUNT); reflexivity. Qed.
Lemma Inv_ensure_size : forall s z, Inv s -> Inv (ensure_size s z).
Proof. intros s z. apply Inv_ext; unfold ensure_size; destruct (fsize s >=? z); reflexivity. Qed.

Lemma stats_fields : forall s n, bm (stats_update s n) = bm s /\ same_cfg s (stats_update s n).
Proof. intros s n. unfold stats_update, same_cfg; destruct (crznum s >? FSM_MAX_STATS_COUNT); repeat split. Qed.
Lemma ensure_fields : forall s z, bm (ensure_size s z) = bm s /\ same_cfg s (ensure_size s z).
Proof. intros s z. unfold ensure_size, same_cfg; destruct (fsize s >=? z); repeat split. Qed.

(* a region that was marked allocated and - the file could not be extended for IWFSM_SOLID_ALLOCATED_SPACE - given back
   (fixes/fsm-solid-rollback.diff, 7b9f72c) *)
Definition given_back (s s' : fsm) (off olen : Z) : Prop :=
  exists s4, allocated_from s s4 off olen /\ s' = snd (blk_deallocate s4 off olen).
(* how a request served from a free extent ends: the region is allocated (rc 0; or an error AFTER the fact: the sync error of
   a5711d1, or - code before 7b9f72c - the size limit), or it has been given back (size limit, code after 7b9f72c) *)
Definition na_outcome (s : fsm) (rc : Z) (s' : fsm) (off olen : Z) : Prop :=
  ((rc = 0 \/ rc = IWFS_ERROR_NOT_MMAPED \/ (rc = FSM_E_MAXOFF /\ fx_solid (vr s) = false)) /\ allocated_from s s' off olen) \/
  (rc = FSM_E_MAXOFF /\ fx_solid (vr s) = true /\ given_back s s' off olen).

Lemma solid_cases : forall s s' o n, allocated_from s s' o n ->
  (allocated_from s (solid s' o n) o n /\ (solid_rc s' o n = 0 \/ (solid_rc s' o n = FSM_E_MAXOFF /\ fx_solid (vr s) = false))) \/
  (solid_rc s' o n = FSM_E_MAXOFF /\ fx_solid (vr s) = true /\ given_back s (solid s' o n) o n).
Proof.
  intros s s' o n H. assert (Hv : vr s' = vr s) by (destruct H as (_ & (V & _) & _); exact V).
  unfold solid, solid_rc. rewrite Hv. destruct (ensure_ok s' (solid_sz s' o n)).
  - left. split; [|left; reflexivity]. destruct H as (I & C & H). destruct (ensure_fields s' (solid_sz s' o n)) as [B C2].
    split; [apply Inv_ensure_size; exact I|]. split; [eapply same_cfg_trans; eassumption|]. rewrite B. exact H.
  - destruct (fx_solid (vr s)) eqn:E.
    + right. split; [reflexivity|]. split; [reflexivity|]. exists s'. split; [exact H|reflexivity].
    + left. split; [exact H|right; split; reflexivity].
Qed.

Theorem blk_allocate_na_found : forall fuel s length_blk offset_blk opts ovr nl no,
  Inv s -> 0 < length_blk -> find_matching s offset_blk length_blk = Some (nl, no) ->
  let '(rc, s', off, olen) := blk_allocate_na fuel s length_blk offset_blk opts ovr in
  na_outcome s rc s' off olen /\ off = no /\ length_blk <= olen /\
  (has opts IWFSM_ALLOC_NO_OVERALLOCATE = true -> olen = length_blk).
Proof.
  intros fuel s length_blk offset_blk opts ovr nl no Hi Hlen Hfm.
  rewrite blk_allocate_na_unfold, Hfm.
  destruct (find_matching_spec _ _ _ _ Hfm) as [Hin Hge]. simpl fst in Hge.
  apply (inv_runs s Hi) in Hin. pose proof Hin as (R1 & R2 & R3 & R4 & _). rewrite (inv_len s Hi) in R3.
  (* the two shapes of (s2, olen) *)
  assert (Hshape : forall s2 olen, (s2 = (if nl >? olen then put_fbk (del_fbk2 s (nl, no)) (no + olen) (nl - olen) else del_fbk2 s (nl, no))) ->
            0 < olen -> olen <= nl -> length_blk <= olen ->
            let '(rc, s3) := set_bit_status s2 no olen true false (strict s) in
            let s4 := if (rc =? 0) && negb (has opts IWFSM_ALLOC_NO_STATS) then stats_update s3 length_blk else s3 in
            let s5 := if (rc =? 0) && has opts IWFSM_SOLID_ALLOCATED_SPACE then solid s4 no olen else s4 in
            let rc := if (rc =? 0) && has opts IWFSM_SOLID_ALLOCATED_SPACE then solid_rc s4 no olen else rc in
            let rc' := if (rc =? 0) && has opts IWFSM_SYNC_BMAP && mmap_all (vr s) && negb (fx_sync (vr s))
                       then IWFS_ERROR_NOT_MMAPED else rc in
            na_outcome s rc' s5 no olen /\ no = no /\ length_blk <= olen).
  { intros s2 olen Hs2 Hol Hon Hlo.
    pose proof (carve_tail s no nl olen Hi Hin Hol Hon) as Hc. rewrite <- Hs2 in Hc.
    pose proof Hc as (Hfr & _ & _). pose proof (frame_same_cfg _ _ Hfr) as Hcfg2. destruct Hfr as (F1 & F2 & F3 & _).
    assert (Hnb : nbits s2 = nbits s) by (unfold nbits; rewrite F3; reflexivity).
    rewrite set_bit_status_ok; [|lia|lia|rewrite Hnb; lia|rewrite F1, Hnb; apply (inv_len s Hi)|
                                 intros i Hi2; rewrite F1; simpl; apply R4; lia].
    rewrite F1. cbv beta iota zeta.
    pose proof (alloc_inv_core s s2 no nl no olen Hi Hin ltac:(lia) Hol ltac:(lia) Hc) as Hinv.
    set (s3 := set_bm s2 (set_range (bm s) no olen true)) in *.
    assert (B3 : bm s3 = set_range (bm s) no olen true /\ same_cfg s s3) by (unfold s3; split; [reflexivity|exact Hcfg2]).
    replace (0 =? 0) with true by reflexivity. simpl andb.
    set (s4 := if negb (has opts IWFSM_ALLOC_NO_STATS) then stats_update s3 length_blk else s3).
    assert (H4 : Inv s4 /\ bm s4 = bm s3 /\ same_cfg s3 s4).
    { unfold s4. destruct (negb (has opts IWFSM_ALLOC_NO_STATS)); [|split; [exact Hinv|split; [reflexivity|apply same_cfg_refl]]].
      split; [apply Inv_stats; exact Hinv|apply stats_fields]. }
    assert (Ha4 : allocated_from s s4 no olen).
    { destruct H4 as (I4 & A4 & C4). destruct B3 as (A3 & C3). unfold allocated_from.
      split; [exact I4|]. split; [eapply same_cfg_trans; eassumption|]. split; [lia|]. split; [lia|]. split; [lia|].
      split; [intros i Hi2; apply R4; lia|rewrite A4; exact A3]. }
    split; [|split; [reflexivity|exact Hlo]]. unfold na_outcome.
    destruct (has opts IWFSM_SOLID_ALLOCATED_SPACE); cbv beta iota zeta.
    - destruct (solid_cases s s4 no olen Ha4) as [[Ha5 [Hr|[Hr Hfx]]]|(Hr & Hfx & Hg)]; rewrite Hr.
      + left. split; [|exact Ha5]. simpl. destruct (has opts IWFSM_SYNC_BMAP && mmap_all (vr s) && negb (fx_sync (vr s))); auto.
      + left. split; [|exact Ha5]. simpl. right; right. split; [reflexivity|exact Hfx].
      + right. simpl. split; [reflexivity|]. split; [exact Hfx|exact Hg].
    - left. split; [|exact Ha4]. simpl. destruct (has opts IWFSM_SYNC_BMAP && mmap_all (vr s) && negb (fx_sync (vr s))); auto. }
  cbv beta zeta.
  destruct (nl >? length_blk) eqn:Egt.
  - apply Z.gtb_lt in Egt.
    destruct (negb (has opts IWFSM_ALLOC_NO_OVERALLOCATE) && negb (crznum s =? 0)) eqn:Eov; [destruct ovr|]; cbv beta iota zeta.
    + specialize (Hshape (del_fbk2 s (nl, no)) nl). replace (nl >? nl) with false in Hshape by lia.
      specialize (Hshape eq_refl ltac:(lia) ltac:(lia) ltac:(lia)).
      destruct (set_bit_status (del_fbk2 s (nl, no)) no nl true false (strict s)) as [rc s3].
      destruct Hshape as (H1 & H2 & H3). split; [exact H1|]. split; [exact H2|]. split; [exact H3|].
      intros Hno. rewrite Hno in Eov. discriminate.
    + specialize (Hshape (put_fbk (del_fbk2 s (nl, no)) (no + length_blk) (nl - length_blk)) length_blk).
      replace (nl >? length_blk) with true in Hshape by lia.
      specialize (Hshape eq_refl ltac:(lia) ltac:(lia) ltac:(lia)).
      destruct (set_bit_status _ no length_blk true false (strict s)) as [rc s3].
      destruct Hshape as (H1 & H2 & H3). split; [exact H1|]. split; [exact H2|]. split; [exact H3|]. reflexivity.
    + specialize (Hshape (put_fbk (del_fbk2 s (nl, no)) (no + length_blk) (nl - length_blk)) length_blk).
      replace (nl >? length_blk) with true in Hshape by lia.
      specialize (Hshape eq_refl ltac:(lia) ltac:(lia) ltac:(lia)).
      destruct (set_bit_status _ no length_blk true false (strict s)) as [rc s3].
      destruct Hshape as (H1 & H2 & H3). split; [exact H1|]. split; [exact H2|]. split; [exact H3|]. reflexivity.
  - rewrite Z.gtb_ltb in Egt. apply Z.ltb_ge in Egt. assert (nl = length_blk) by lia. subst nl. cbv beta iota zeta.
    specialize (Hshape (del_fbk2 s (length_blk, no)) length_blk). replace (length_blk >? length_blk) with false in Hshape by lia.
    specialize (Hshape eq_refl ltac:(lia) ltac:(lia) ltac:(lia)).
    destruct (set_bit_status _ no length_blk true false (strict s)) as [rc s3].
    destruct Hshape as (H1 & H2 & H3). split; [exact H1|]. split; [exact H2|]. split; [exact H3|]. reflexivity.
Qed.

(* ---------------------------------------------------------------- _fsm_blk_deallocate_lw *)
Lemma set_bit_status_rc : forall s off len v dry chk, 0 <= off -> 0 <= len -> off + len <= nbits s -> len_z (bm s) = nbits s ->
  (forall i, off <= i < off + len -> getb (bm s) i = negb v) ->
  fst (set_bit_status s off len v dry chk) = 0.
Proof.
  intros s off len v dry chk H0 H1 H2 Hl Hall. unfold set_bit_status.
  replace (nbits s <? off + len) with false by lia.
  assert (all_range (bm s) off len (negb v) = true) as -> by (apply all_range_spec; [lia|lia|lia|exact Hall]).
  simpl. rewrite andb_false_r. reflexivity.
Qed.

Definition dealloc_nf (s : fsm) (a m : Z) : fsm :=
  let s1 := set_bm s (set_range (bm s) a m false) in
  let lo := match find_prev_set_bit (bm s1) a 0 with Some p => p + 1 | None => 0 end in
  let hi := match dealloc_right s1 (lfbkoff s) (a + m) with Some r => Z.max r (a + m) | None => a + m end in
  let s2 := if a >? lo then del_fbk s1 lo (a - lo) else s1 in
  let s3 := if hi >? a + m then del_fbk s2 (a + m) (hi - (a + m)) else s2 in
  put_fbk s3 lo (hi - lo).

Lemma blk_deallocate_nf : forall s a m, 0 <= a -> 0 < m -> a + m <= nbits s -> len_z (bm s) = nbits s ->
  (forall i, a <= i < a + m -> getb (bm s) i = true) ->
  blk_deallocate s a m = (0, dealloc_nf s a m).
Proof.
  intros s a m Ha Hm Hend Hlen Hones. unfold blk_deallocate, dealloc_nf.
  rewrite (set_bit_status_rc s a m false true true) by (try lia; assumption).
  replace (if fx_strict (vr s) && strict s then 0 else 0) with 0 by (destruct (fx_strict (vr s) && strict s); reflexivity).
  replace (negb (0 =? 0)) with false by reflexivity. cbv iota.
  rewrite (set_bit_status_ok s a m false (strict s)) by (try lia; assumption).
  replace (negb (0 =? 0)) with false by reflexivity. cbv iota.
  set (s1 := set_bm s (set_range (bm s) a m false)).
  assert (Hl1 : len_z (bm s1) = nbits s) by (unfold s1; simpl; rewrite set_range_length; exact Hlen).
  pose proof (find_prev_spec (bm s1) a 0 ltac:(lia) ltac:(lia)) as Hp.
  set (right := dealloc_right s1 (lfbkoff s) (a + m)).
  assert (Hcase : forall r, (if r >? a + m then true else false) = (Z.max r (a + m) >? a + m)).
  { intros r. destruct (r >? a + m) eqn:E; [rewrite Z.gtb_lt in E|rewrite Z.gtb_ltb in E; apply Z.ltb_ge in E]; symmetry.
    - apply Z.gtb_lt. lia. - rewrite Z.gtb_ltb. apply Z.ltb_ge. lia. }
  destruct (find_prev_set_bit (bm s1) a 0) as [p|].
  - destruct Hp as (P1 & _). destruct (a >? p + 1) eqn:E1.
    + destruct right as [r|].
      * rewrite <- Hcase. destruct (r >? a + m) eqn:E2.
        -- rewrite Z.gtb_lt in E2. rewrite Z.max_l by lia. do 2 f_equal; lia.
        -- rewrite Z.gtb_ltb in E2. apply Z.ltb_ge in E2. rewrite Z.max_r by lia. do 2 f_equal; lia.
      * replace (a + m >? a + m) with false by lia. do 2 f_equal; lia.
    + rewrite Z.gtb_ltb in E1. apply Z.ltb_ge in E1. assert (Hap : a = p + 1) by lia.
      destruct right as [r|].
      * rewrite <- Hcase. destruct (r >? a + m) eqn:E2.
        -- rewrite Z.gtb_lt in E2. rewrite Z.max_l by lia. rewrite <- Hap. do 2 f_equal; lia.
        -- rewrite Z.gtb_ltb in E2. apply Z.ltb_ge in E2. rewrite Z.max_r by lia. rewrite <- Hap. do 2 f_equal; lia.
      * replace (a + m >? a + m) with false by lia. rewrite <- Hap. do 2 f_equal; lia.
  - rewrite ?Z.sub_0_r. destruct (a >? 0) eqn:E1.
    + destruct right as [r|].
      * rewrite <- Hcase. destruct (r >? a + m) eqn:E2.
        -- rewrite Z.gtb_lt in E2. rewrite Z.max_l by lia. do 2 f_equal; lia.
        -- rewrite Z.gtb_ltb in E2. apply Z.ltb_ge in E2. rewrite Z.max_r by lia. do 2 f_equal; lia.
      * replace (a + m >? a + m) with false by lia. do 2 f_equal; lia.
    + rewrite Z.gtb_ltb in E1. apply Z.ltb_ge in E1. assert (Hap : a = 0) by lia.
      destruct right as [r|].
      * rewrite <- Hcase. destruct (r >? a + m) eqn:E2.
        -- rewrite Z.gtb_lt in E2. rewrite Z.max_l by lia. rewrite Hap. do 2 f_equal; lia.
        -- rewrite Z.gtb_ltb in E2. apply Z.ltb_ge in E2. rewrite Z.max_r by lia. rewrite Hap. do 2 f_equal; lia.
      * replace (a + m >? a + m) with false by lia. rewrite Hap. do 2 f_equal; lia.
Qed.

Lemma bkey_ok_le : forall o n B, 0 <= o -> 0 <= n -> o + n <= B -> B <= FSM_BKEY_MAX -> bkey_ok o n = true.
Proof. intros o n B H1 H2 H3 H4. unfold bkey_ok. apply andb_true_iff. split; apply Z.leb_le; lia. Qed.

(* The released range merges with its free neighbours: the model of the code after fixes/fsm-lfbk.diff keeps
   "tree = maximal zero runs".  (For the code as it is the statement is false: tree_is_runs_refuted.) *)
Theorem dealloc_nf_inv : forall s a m, Inv s -> fx_lfbk (vr s) = true ->
  0 <= a -> 0 < m -> a + m <= nbits s -> (forall i, a <= i < a + m -> getb (bm s) i = true) ->
  Inv (dealloc_nf s a m) /\ bm (dealloc_nf s a m) = set_range (bm s) a m false /\
  same_cfg s (dealloc_nf s a m).
Proof.
  intros s a m Hi Hfx Ha Hm Hend Hones1.
  pose proof (inv_len s Hi) as Hlen. pose proof (inv_u32 s Hi) as Hu32. pose proof (inv_ts s Hi) as Hts.
  unfold dealloc_nf.
  set (l := bm s) in *. set (l' := set_range l a m false).
  set (s1 := set_bm s l').
  assert (Hl' : len_z l' = nbits s) by (unfold l'; rewrite set_range_length; exact Hlen).
  assert (Hag : agree_out l l' a m false) by (apply agree_set_range; lia).
  assert (Hones : forall i, a <= i < a + m -> wbit l i = true).
  { intros i Hi2. rewrite wbit_in by lia. apply Hones1. exact Hi2. }
  assert (Hts1 : TS s1) by (destruct Hts as [T1 T2]; split; [exact T1|exact T2]).
  assert (Hnb1 : nbits s1 = nbits s) by reflexivity.
  (* ---- left neighbour *)
  set (lo := match find_prev_set_bit (bm s1) a 0 with Some p => p + 1 | None => 0 end).
  assert (HLO : 0 <= lo <= a /\ wbit l (lo - 1) = true /\ forall i, lo <= i < a -> wbit l i = false).
  { pose proof (find_prev_spec l' a 0 ltac:(lia) ltac:(lia)) as Hp. unfold lo. simpl bm.
    destruct (find_prev_set_bit l' a 0) as [p|].
    - destruct Hp as (P1 & P2 & P3). split; [lia|]. split.
      + replace (p + 1 - 1) with p by lia. rewrite <- (agree_off l l' a m false p Hag) by lia. rewrite wbit_in by lia. exact P2.
      + intros i Hi2. rewrite <- (agree_off l l' a m false i Hag) by lia. rewrite wbit_in by lia. apply P3. lia.
    - split; [lia|]. split; [apply wbit_out; lia|].
      intros i Hi2. rewrite <- (agree_off l l' a m false i Hag) by lia. rewrite wbit_in by lia. apply Hp. lia. }
  destruct HLO as (Hlo & Hlob & Hlfree).
  (* ---- right neighbour *)
  set (hi := match dealloc_right s1 (lfbkoff s) (a + m) with Some r => Z.max r (a + m) | None => a + m end).
  assert (HHI : a + m <= hi <= nbits s /\ wbit l hi = true /\ forall i, a + m <= i < hi -> wbit l i = false).
  { unfold hi, dealloc_right. simpl bm. simpl vr. rewrite Hfx.
    destruct (negb (lfbkoff s =? 0) && (lfbkoff s =? a + m)) eqn:Esc.
    - apply andb_true_iff in Esc. destruct Esc as [E1 E2]. apply negb_true_iff in E1. apply Z.eqb_neq in E1. apply Z.eqb_eq in E2.
      destruct Hts as [_ Hlf]. specialize (Hlf E1). apply (inv_runs s Hi) in Hlf.
      pose proof Hlf as (R1 & R2 & R3 & _). fold l in R3. rewrite Hlen in R3.
      apply is_run_w in Hlf. destruct Hlf as (W2 & W4 & W5 & W6). simpl lfbklen.
      rewrite Z.max_l by lia. rewrite E2 in *. split; [lia|]. split; [exact W6|]. intros i Hi2. apply W4. lia.
    - rewrite Hnb1.
      pose proof (find_next_spec l' (a + m) (nbits s) ltac:(lia) ltac:(lia)) as Hn.
      destruct (find_next_set_bit l' (a + m) (nbits s)) as [r|].
      + destruct Hn as (N1 & N2 & N3). rewrite Z.max_l by lia. split; [lia|]. split.
        * rewrite <- (agree_off l l' a m false r Hag) by lia. rewrite wbit_in by lia. exact N2.
        * intros i Hi2. rewrite <- (agree_off l l' a m false i Hag) by lia. rewrite wbit_in by lia. apply N3. lia.
      + destruct (a + m <? nbits s) eqn:Elt.
        * apply Z.ltb_lt in Elt. rewrite Z.max_l by lia. split; [lia|]. split; [apply wbit_out; lia|].
          intros i Hi2. rewrite <- (agree_off l l' a m false i Hag) by lia. rewrite wbit_in by lia. apply Hn. lia.
        * apply Z.ltb_ge in Elt. split; [lia|]. split; [apply wbit_out; lia|]. intros i Hi2. lia. }
  destruct HHI as (Hhi & Hhib & Hrfree).
  (* ---- the tree *)
  assert (Hpos : forall o n, In (n, o) (tree s) -> 0 < n).
  { intros o n H. apply (inv_runs s Hi) in H. destruct H as (_ & H & _). exact H. }
  set (s2 := if a >? lo then del_fbk s1 lo (a - lo) else s1).
  assert (H2 : frame s1 s2 /\ TS s2 /\ forall o n, In (n, o) (tree s2) <-> In (n, o) (tree s) /\ (n, o) <> (a - lo, lo)).
  { unfold s2. destruct (a >? lo) eqn:E.
    - destruct (del_fbk_spec s1 lo (a - lo) (bkey_ok_le lo (a - lo) (nbits s) ltac:(lia) ltac:(lia) ltac:(lia) Hu32) Hts1) as (F & T & M).
      split; [exact F|]. split; [exact T|]. intros o n. apply M.
    - rewrite Z.gtb_ltb in E. apply Z.ltb_ge in E. split; [apply frame_refl|]. split; [exact Hts1|].
      intros o n. simpl tree. split; [|tauto]. intros H. split; [exact H|]. intros He. injection He as He _.
      specialize (Hpos o n H). lia. }
  destruct H2 as (F2 & T2 & M2).
  set (s3 := if hi >? a + m then del_fbk s2 (a + m) (hi - (a + m)) else s2).
  assert (H3 : frame s1 s3 /\ TS s3 /\ forall o n, In (n, o) (tree s3) <->
                 In (n, o) (tree s) /\ (n, o) <> (a - lo, lo) /\ (n, o) <> (hi - (a + m), a + m)).
  { unfold s3. destruct (hi >? a + m) eqn:E.
    - destruct (del_fbk_spec s2 (a + m) (hi - (a + m)) (bkey_ok_le (a + m) (hi - (a + m)) (nbits s) ltac:(lia) ltac:(lia) ltac:(lia) Hu32) T2) as (F & T & M).
      split; [eapply frame_trans; eassumption|]. split; [exact T|]. intros o n. rewrite M, M2. tauto.
    - rewrite Z.gtb_ltb in E. apply Z.ltb_ge in E. split; [exact F2|]. split; [exact T2|].
      intros o n. rewrite M2. split; [|tauto]. intros [H Hne]. split; [exact H|]. split; [exact Hne|].
      intros He. injection He as He _. specialize (Hpos o n H). lia. }
  destruct H3 as (F3 & T3 & M3).
  destruct (put_fbk_spec s3 lo (hi - lo) (bkey_ok_le lo (hi - lo) (nbits s) ltac:(lia) ltac:(lia) ltac:(lia) Hu32) T3) as (F4 & T4 & M4).
  set (s4 := put_fbk s3 lo (hi - lo)) in *.
  assert (F : frame s1 s4) by (eapply frame_trans; eassumption).
  pose proof (frame_same_cfg _ _ F) as Hcfg.
  destruct F as (B1 & B2 & B3 & _). simpl in B1, B2, B3.
  split; [|split; [exact B1|exact Hcfg]].
  constructor.
  - rewrite B1. unfold nbits. rewrite B3. exact Hl'.
  - unfold nbits. rewrite B3. exact Hu32.
  - exact T4.
  - intros o n. rewrite B1.
    rewrite (runs_after_free l l' a m lo hi Hag Hones Hm ltac:(lia) ltac:(lia) Hlob Hhib Hlfree Hrfree o n).
    rewrite M4, M3. rewrite (inv_runs s Hi). fold l. split.
    + intros [He|(Hr & Hn1 & Hn2)].
      * injection He as -> ->. left. split; reflexivity.
      * right. split; [exact Hr|].
        apply (far_iff_not_neighbour l a m lo hi Hones Hm ltac:(lia) ltac:(lia) Hlob Hhib Hlfree Hrfree o n Hr).
        split; congruence.
    + intros [[-> ->]|[Hr Hfar]]; [left; reflexivity|right].
      split; [exact Hr|].
      apply (far_iff_not_neighbour l a m lo hi Hones Hm ltac:(lia) ltac:(lia) Hlob Hhib Hlfree Hrfree o n Hr) in Hfar.
      destruct Hfar as [N1 N2]. split; congruence.
Qed.

(* ---------------------------------------------------------------- IW_ROUNDUP on powers of two *)
Lemma land_high_mask : forall y k, 0 <= k <= 64 -> 0 <= y < 2 ^ 64 ->
  Z.land y (2 ^ 64 - 2 ^ k) = y / 2 ^ k * 2 ^ k.
Proof.
  intros y k Hk Hy.
  assert (Hm : 2 ^ 64 - 2 ^ k = Z.shiftl (Z.ones (64 - k)) k).
  { rewrite Z.shiftl_mul_pow2 by lia. rewrite Z.ones_equiv. unfold Z.pred.
    replace (2 ^ 64) with (2 ^ (64 - k) * 2 ^ k) by (rewrite <- Z.pow_add_r by lia; f_equal; lia). ring. }
  rewrite Hm. rewrite <- Z.shiftr_div_pow2, <- Z.shiftl_mul_pow2 by lia.
  apply Z.bits_inj'. intros n Hn. rewrite Z.land_spec.
  destruct (Z_lt_le_dec n k) as [Hlt|Hge].
  - rewrite !Z.shiftl_spec_low by lia. apply andb_false_r.
  - rewrite !Z.shiftl_spec by lia. rewrite Z.shiftr_spec by lia. replace (n - k + k) with n by lia.
    rewrite Z.testbit_ones_nonneg by lia.
    destruct (Z_lt_le_dec n 64) as [H64|H64].
    + replace (n - k <? 64 - k) with true by lia. apply andb_true_r.
    + replace (n - k <? 64 - k) with false by lia. rewrite andb_false_r.
      symmetry. rewrite <- (Z.mod_small y (2 ^ 64)) by lia. apply Z.mod_pow2_bits_high. lia.
Qed.

Lemma roundup_pow2 : forall x k, 0 <= k < 64 -> 0 <= x -> x + 2 ^ k < 2 ^ 64 ->
  IW_ROUNDUP x (2 ^ k) = (x + 2 ^ k - 1) / 2 ^ k * 2 ^ k.
Proof.
  intros x k Hk Hx Hb. unfold IW_ROUNDUP, uw.
  assert (Hp : 0 < 2 ^ k) by (apply Z.pow_pos_nonneg; lia).
  assert (Hp64 : 2 ^ k < 2 ^ 64) by (apply Z.pow_lt_mono_r; lia).
  rewrite (Z.mod_small 1) by lia. rewrite (Z.mod_small (x + 2 ^ k)) by lia.
  rewrite (Z.mod_small (x + 2 ^ k - 1)) by lia. rewrite (Z.mod_small (2 ^ k - 1)) by lia.
  replace (Z.lnot (2 ^ k - 1)) with (- 2 ^ k) by (unfold Z.lnot; lia).
  replace ((- 2 ^ k) mod 2 ^ 64) with (2 ^ 64 - 2 ^ k).
  2:{ apply Z.mod_unique with (q := -1); lia. }
  apply land_high_mask; lia.
Qed.

Lemma roundup_pow2_props : forall x k, 0 <= k < 64 -> 0 <= x -> x + 2 ^ k < 2 ^ 64 ->
  x <= IW_ROUNDUP x (2 ^ k) < x + 2 ^ k /\ IW_ROUNDUP x (2 ^ k) mod 2 ^ k = 0.
Proof.
  intros x k Hk Hx Hb. rewrite roundup_pow2 by assumption.
  assert (Hp : 0 < 2 ^ k) by (apply Z.pow_pos_nonneg; lia).
  split; [|apply Z.mod_mul; lia].
  pose proof (Z.div_mod (x + 2 ^ k - 1) (2 ^ k) ltac:(lia)) as Hd.
  pose proof (Z.mod_pos_bound (x + 2 ^ k - 1) (2 ^ k) Hp) as Hm. nia.
Qed.

(* ---------------------------------------------------------------- page-aligned allocation *)
Record WF (s : fsm) : Prop := mkWF {
  wf_bpow : 0 <= bpow s;
  wf_aunit : exists j, aunit s = 2 ^ j /\ bpow s <= j < 32 }.

Lemma aunit_blk_pow2 : forall s, WF s -> exists k, shr (aunit s) (bpow s) = 2 ^ k /\ 0 <= k < 32.
Proof.
  intros s [Hb (j & Hj & Hr)]. exists (j - bpow s). split; [|lia].
  unfold shr. rewrite Z.shiftr_div_pow2 by lia. rewrite Hj.
  replace j with ((j - bpow s) + bpow s) at 1 by lia. rewrite Z.pow_add_r by lia.
  apply Z.div_mul. apply Z.pow_nonzero; lia.
Qed.

Lemma carve_mid : forall s ro rn a m, Inv s -> is_run (bm s) ro rn -> ro <= a -> 0 < m -> a + m <= ro + rn ->
  carved s (let s1 := del_fbk s ro rn in
            let s2 := if a >? ro then put_fbk s1 ro (a - ro) else s1 in
            if rn - (a - ro) >? m then put_fbk s2 (a + m) (rn - (a - ro) - m) else s2) ro rn a m.
Proof.
  intros s ro rn a m Hi Hrun Ha Hm Hend.
  pose proof Hrun as (R1 & R2 & R3 & _). rewrite (inv_len s Hi) in R3. pose proof (inv_u32 s Hi) as Hu32.
  destruct (del_fbk_spec s ro rn (bkey_ok_le ro rn (nbits s) ltac:(lia) ltac:(lia) ltac:(lia) Hu32) (inv_ts s Hi)) as (F1 & T1 & M1).
  cbv zeta. set (s1 := del_fbk s ro rn) in *.
  set (s2 := if a >? ro then put_fbk s1 ro (a - ro) else s1).
  assert (H2 : frame s s2 /\ TS s2 /\ forall x, In x (tree s2) <-> (In x (tree s) /\ x <> (rn, ro)) \/ (x = (a - ro, ro) /\ ro < a)).
  { unfold s2. destruct (a >? ro) eqn:E.
    - apply Z.gtb_lt in E.
      destruct (put_fbk_spec s1 ro (a - ro) (bkey_ok_le ro (a - ro) (nbits s) ltac:(lia) ltac:(lia) ltac:(lia) Hu32) T1) as (F & T & M).
      split; [eapply frame_trans; eassumption|]. split; [exact T|]. intros x. rewrite M, M1.
      split; [intros [->|H]; [right; split; [reflexivity|lia]|left; exact H]|intros [H|[-> _]]; [right; exact H|left; reflexivity]].
    - rewrite Z.gtb_ltb in E. apply Z.ltb_ge in E. split; [exact F1|]. split; [exact T1|]. intros x. rewrite M1.
      split; [intros H; left; exact H|intros [H|[_ H]]; [exact H|lia]]. }
  destruct H2 as (F2 & T2 & M2).
  destruct (rn - (a - ro) >? m) eqn:E.
  - apply Z.gtb_lt in E.
    destruct (put_fbk_spec s2 (a + m) (rn - (a - ro) - m) (bkey_ok_le (a + m) (rn - (a - ro) - m) (nbits s) ltac:(lia) ltac:(lia) ltac:(lia) Hu32) T2) as (F & T & M).
    split; [eapply frame_trans; eassumption|]. split; [exact T|]. intros x. rewrite M, M2.
    replace (ro + rn - (a + m)) with (rn - (a - ro) - m) by lia.
    split; [intros [->|[H|H]]; [right; right; split; [reflexivity|lia]|left; exact H|right; left; exact H]|].
    intros [H|[H|[-> _]]]; [right; left; exact H|right; right; exact H|left; reflexivity].
  - rewrite Z.gtb_ltb in E. apply Z.ltb_ge in E. split; [exact F2|]. split; [exact T2|]. intros x. rewrite M2.
    split; [intros [H|H]; [left; exact H|right; left; exact H]|intros [H|[H|[_ H]]]; [left; exact H|right; exact H|lia]].
Qed.

Lemma al_take_spec : forall s akoff aklen length_blk k mx, Inv s -> 0 <= k < 32 -> 0 < length_blk ->
  In (aklen, akoff) (tree s) ->
  al_fits akoff aklen (IW_ROUNDUP akoff (2 ^ k)) length_blk mx = true ->
  let '(rc, s', off, olen) := al_take s akoff aklen length_blk (2 ^ k) in
  rc = 0 /\ olen = length_blk /\ allocated_from s s' off olen /\ off mod 2 ^ k = 0 /\ off <= mx.
Proof.
  intros s akoff aklen length_blk k mx Hi Hk Hlen Hin Hfit.
  apply (inv_runs s Hi) in Hin. pose proof Hin as (R1 & R2 & R3 & R4 & _). rewrite (inv_len s Hi) in R3.
  pose proof (inv_u32 s Hi) as Hu32.
  assert (Hp32 : 2 ^ k < 2 ^ 32) by (apply Z.pow_lt_mono_r; lia).
  assert (HB : FSM_BKEY_MAX = 2 ^ 32 - 1) by reflexivity.
  destruct (roundup_pow2_props akoff k ltac:(lia) ltac:(lia) ltac:(change (2 ^ 64) with (2 ^ 32 * 2 ^ 32); nia)) as [Hr Hmod].
  unfold al_fits in Hfit. apply andb_true_iff in Hfit. destruct Hfit as [Hfit F3]. apply andb_true_iff in Hfit. destruct Hfit as [F1 F2].
  apply Z.leb_le in F1. apply Z.ltb_lt in F2. apply Z.geb_le in F3.
  unfold al_take. set (noff := IW_ROUNDUP akoff (2 ^ k)) in *.
  pose proof (carve_mid s akoff aklen noff length_blk Hi Hin ltac:(lia) Hlen ltac:(lia)) as Hc. cbv zeta in Hc.
  set (s3 := if aklen - (noff - akoff) >? length_blk then _ else _) in *.
  pose proof Hc as (Hfr & _ & _). pose proof (frame_same_cfg _ _ Hfr) as Hcfg. destruct Hfr as (B1 & B2 & B3 & _).
  assert (Hnb : nbits s3 = nbits s) by (unfold nbits; rewrite B3; reflexivity).
  rewrite set_bit_status_ok; [|lia|lia|rewrite Hnb; lia|rewrite B1, Hnb; apply (inv_len s Hi)|
                               intros i Hi2; rewrite B1; simpl; apply R4; lia].
  rewrite B1. pose proof (alloc_inv_core s s3 akoff aklen noff length_blk Hi Hin ltac:(lia) Hlen ltac:(lia) Hc) as Hinv.
  split; [reflexivity|]. split; [reflexivity|]. split; [|split; [exact Hmod|exact F1]].
  unfold allocated_from. split; [exact Hinv|]. split; [exact Hcfg|].
  split; [lia|]. split; [lia|]. split; [lia|]. split; [intros i Hi2; apply R4; lia|reflexivity].
Qed.

Lemma al_scan_inv : forall s length_blk mx ab t acc,
  (forall x, In x t -> In x (tree s)) ->
  (acc = (U64MAX, 0) \/ (In (snd acc, fst acc) (tree s) /\ al_fits (fst acc) (snd acc) (IW_ROUNDUP (fst acc) ab) length_blk mx = true)) ->
  let r := fold_left (al_scan_step length_blk mx ab) t acc in
  r = (U64MAX, 0) \/ (In (snd r, fst r) (tree s) /\ al_fits (fst r) (snd r) (IW_ROUNDUP (fst r) ab) length_blk mx = true).
Proof.
  intros s length_blk mx ab t. induction t as [|[klen koff] t IH]; intros acc Hsub Hacc; simpl; [exact Hacc|].
  apply IH; [intros x Hx; apply Hsub; right; exact Hx|].
  unfold al_scan_step. destruct acc as [akoff aklen].
  destruct (koff <? akoff); [|exact Hacc].
  destruct (al_fits koff klen (IW_ROUNDUP koff ab) length_blk mx) eqn:E; [|exact Hacc].
  right. simpl. split; [apply Hsub; left; reflexivity|exact E].
Qed.

Theorem blk_allocate_aligned_spec : forall s length_blk mx, Inv s -> WF s -> 0 < length_blk ->
  let '(rc, s', off, olen) := blk_allocate_aligned s length_blk mx in
  (rc = IWFS_ERROR_NO_FREE_SPACE /\ s' = s) \/
  (rc = 0 /\ olen = length_blk /\ allocated_from s s' off olen /\ off mod shr (aunit s) (bpow s) = 0 /\ off <= mx).
Proof.
  intros s length_blk mx Hi Hwf Hlen. unfold blk_allocate_aligned.
  destruct (aunit_blk_pow2 s Hwf) as (k & Hab & Hk). rewrite Hab.
  set (nn := match find_matching s 0 (length_blk + 2 ^ k) with Some k0 => Some k0 | None => find_matching s 0 length_blk end).
  assert (Hnn : forall x, nn = Some x -> In x (tree s)).
  { intros x Hx. unfold nn in Hx. destruct (find_matching s 0 (length_blk + 2 ^ k)) eqn:E1.
    - injection Hx as <-. apply (find_matching_spec _ _ _ _ E1).
    - apply (find_matching_spec _ _ _ _ Hx). }
  destruct nn as [[aklen akoff]|]; [|left; split; reflexivity].
  specialize (Hnn _ eq_refl).
  destruct (al_fits akoff aklen (IW_ROUNDUP akoff (2 ^ k)) length_blk mx) eqn:Efit.
  - pose proof (al_take_spec s akoff aklen length_blk k mx Hi Hk Hlen Hnn Efit) as H.
    destruct (al_take s akoff aklen length_blk (2 ^ k)) as [[[rc s'] off] olen]. right. exact H.
  - pose proof (al_scan_inv s length_blk mx (2 ^ k) (tree s) (U64MAX, 0) (fun x H => H) (or_introl eq_refl)) as Hscan.
    cbv zeta in Hscan.
    destruct (fold_left (al_scan_step length_blk mx (2 ^ k)) (tree s) (U64MAX, 0)) as [akoff2 aklen2].
    destruct (akoff2 =? U64MAX) eqn:Eu; [left; split; reflexivity|].
    apply Z.eqb_neq in Eu. destruct Hscan as [Hs|[Hs1 Hs2]]; [injection Hs as Hs _; congruence|].
    simpl in Hs1, Hs2.
    pose proof (al_take_spec s akoff2 aklen2 length_blk k mx Hi Hk Hlen Hs1 Hs2) as H.
    destruct (al_take s akoff2 aklen2 length_blk (2 ^ k)) as [[[rc s'] off] olen]. right. exact H.
Qed.

(* ---------------------------------------------------------------- _fsm_load_fsm_lw *)
Lemma put_fbk_cases : forall s o n, bkey_ok o n = true -> tsorted (tree s) ->
  frame s (put_fbk s o n) /\ tsorted (tree (put_fbk s o n)) /\
  (forall x, In x (tree (put_fbk s o n)) <-> x = (n, o) \/ In x (tree s)) /\
  (~ In (n, o) (tree s) -> o + n >= lfbkoff s + lfbklen s -> lfbkoff (put_fbk s o n) = o /\ lfbklen (put_fbk s o n) = n) /\
  (o + n < lfbkoff s + lfbklen s -> lfbkoff (put_fbk s o n) = lfbkoff s /\ lfbklen (put_fbk s o n) = lfbklen s).
Proof.
  intros s o n Hok Hs. unfold put_fbk. rewrite Hok. simpl negb. cbv iota.
  pose proof (tree_insert_in (n, o) (tree s)) as Hin. pose proof (tree_insert_sorted (n, o) (tree s) Hs) as Hsort.
  pose proof (tree_insert_dup (n, o) (tree s)) as Hdup.
  destruct (tree_insert (n, o) (tree s)) as [t' ins] eqn:Et. simpl in Hin, Hsort, Hdup.
  destruct ins; simpl negb; cbv iota.
  - destruct (o + n >=? lfbkoff s + lfbklen s) eqn:E.
    + split; [unfold frame; simpl; repeat split|]. split; [exact Hsort|]. split; [intros x; simpl; apply Hin|].
      split; [intros _ _; split; reflexivity|]. intros Hlt. apply Z.geb_le in E. lia.
    + split; [unfold frame; simpl; repeat split|]. split; [exact Hsort|]. split; [intros x; simpl; apply Hin|].
      split; [|intros _; split; reflexivity]. intros _ Hge. rewrite Z.geb_leb in E. apply Z.leb_gt in E. lia.
  - specialize (Hdup eq_refl). split; [apply frame_refl|]. split; [exact Hs|].
    split; [intros x; split; [intros H; right; exact H|intros [->|H]; assumption]|].
    split; [intros Hn; contradiction|intros _; split; reflexivity].
Qed.

Definition putr (a : fsm) (r : Z * Z) : fsm := put_fbk a (fst r) (snd r).

Lemma fold_put_tree : forall R s0, tsorted (tree s0) -> (forall r, In r R -> bkey_ok (fst r) (snd r) = true) ->
  frame s0 (fold_left putr R s0) /\ tsorted (tree (fold_left putr R s0)) /\
  (forall x, In x (tree (fold_left putr R s0)) <-> In x (tree s0) \/ exists r, In r R /\ x = (snd r, fst r)).
Proof.
  induction R as [|r R IH]; intros s0 Hs Hok; simpl.
  - split; [apply frame_refl|]. split; [exact Hs|]. intros x. split; [intros H; left; exact H|intros [H|(r & [] & _)]; exact H].
  - destruct (put_fbk_cases s0 (fst r) (snd r) (Hok r (or_introl eq_refl)) Hs) as (F1 & S1 & M1 & _).
    destruct (IH (putr s0 r) S1 (fun r' H => Hok r' (or_intror H))) as (F2 & S2 & M2).
    split; [eapply frame_trans; eassumption|]. split; [exact S2|]. intros x. rewrite M2. unfold putr at 1. rewrite M1.
    split.
    + intros [[->|H]|(r' & Hr' & ->)]; [right; exists r; split; [left; reflexivity|reflexivity]|left; exact H|
                                        right; exists r'; split; [right; exact Hr'|reflexivity]].
    + intros [H|(r' & [<-|Hr'] & ->)]; [left; right; exact H|left; left; reflexivity|right; exists r'; split; [exact Hr'|reflexivity]].
Qed.

Lemma fold_put_lf : forall R s0, tsorted (tree s0) -> (forall r, In r R -> bkey_ok (fst r) (snd r) = true) ->
  (LF s0 \/ ((forall x, In x (tree s0) -> snd x + fst x < lfbkoff s0 + lfbklen s0) /\
             exists r, In r R /\ fst r + snd r >= lfbkoff s0 + lfbklen s0)) ->
  LF (fold_left putr R s0).
Proof.
  induction R as [|r R IH]; intros s0 Hs Hok Hq; simpl.
  - destruct Hq as [H|[_ (r & [] & _)]]. exact H.
  - destruct (put_fbk_cases s0 (fst r) (snd r) (Hok r (or_introl eq_refl)) Hs) as (F1 & S1 & M1 & C1 & C2).
    apply IH; [exact S1|intros r' H; apply Hok; right; exact H|].
    destruct Hq as [Hlf|[Hsmall (w & Hw & Hwe)]].
    + left. destruct (put_fbk_spec s0 (fst r) (snd r) (Hok r (or_introl eq_refl)) (conj Hs Hlf)) as (_ & [_ T] & _). exact T.
    + destruct (Z_lt_ge_dec (fst r + snd r) (lfbkoff s0 + lfbklen s0)) as [Hlt|Hge].
      * right. destruct (C2 Hlt) as [E1 E2]. unfold putr. rewrite E1, E2. split.
        -- intros x Hx. apply M1 in Hx. destruct Hx as [->|Hx]; [simpl; lia|apply Hsmall; exact Hx].
        -- destruct Hw as [<-|Hw]; [lia|]. exists w. split; assumption.
      * left. assert (Hnin : ~ In (snd r, fst r) (tree s0)).
        { intros Hin. apply Hsmall in Hin. simpl in Hin. lia. }
        destruct (C1 Hnin Hge) as [E1 E2]. unfold LF, putr. rewrite E1, E2. intros _. apply M1. left. reflexivity.
Qed.

Theorem load_fsm_spec : forall s, len_z (bm s) = nbits s -> nbits s <= FSM_BKEY_MAX ->
  frame s (load_fsm s) /\ tsorted (tree (load_fsm s)) /\
  (forall o n, In (n, o) (tree (load_fsm s)) <-> is_run (bm s) o n) /\
  ((lfbkoff s = 0 \/ exists i, lfbkoff s + lfbklen s - 1 <= i /\ wbit (bm s) i = false) -> LF (load_fsm s)).
Proof.
  intros s Hlen Hu32. unfold load_fsm.
  change (fun (a : fsm) (r : Z * Z) => put_fbk a (fst r) (snd r)) with putr.
  pose proof (load_is_runs (bm s) (bmlen s) ltac:(unfold nbits in Hlen; lia)) as Hruns.
  set (R := load_runs (bm s) (bmlen s)) in *.
  assert (Hok : forall r, In r R -> bkey_ok (fst r) (snd r) = true).
  { intros [o n] Hr. apply Hruns in Hr. destruct Hr as (R1 & R2 & R3 & _). simpl.
    apply (bkey_ok_le o n (nbits s)); lia. }
  assert (Hs0 : tsorted (tree (set_tree s []))) by (simpl; constructor).
  destruct (fold_put_tree R (set_tree s []) Hs0 Hok) as (F & S & M).
  split; [eapply frame_trans; [|exact F]; unfold frame; simpl; repeat split|]. split; [exact S|]. split.
  - intros o n. rewrite M. simpl tree. split.
    + intros [[]|([o' n'] & Hr & He)]. injection He as -> ->. apply Hruns. exact Hr.
    + intros Hr. right. exists (o, n). split; [apply Hruns; exact Hr|reflexivity].
  - intros Hcond. apply fold_put_lf; [exact Hs0|exact Hok|].
    destruct Hcond as [H0|(i & Hi1 & Hi2)].
    + left. unfold LF. simpl. intros H. contradiction.
    + right. simpl. split; [intros x []|].
      destruct (zero_in_run_w (bm s) i Hi2) as (o & n & Hr & Hin).
      exists (o, n). split; [apply Hruns; exact Hr|simpl; lia].
Qed.

(* ================================================================ operations of the public API *)
Definition Good (s : fsm) : Prop := Inv s /\ WF s /\ fx_lfbk (vr s) = true.

Lemma good_cfg : forall s s', Good s -> Inv s' -> same_cfg s s' -> Good s'.
Proof.
  intros s s' (Hi & [Hb (j & Hj & Hr)] & Hfx) Hi' (C1 & C2 & C3 & _).
  split; [exact Hi'|]. split; [|rewrite C1; exact Hfx].
  constructor; [rewrite C2; exact Hb|]. exists j. rewrite C2, C3. split; assumption.
Qed.

Definition live_range (s : fsm) (a m : Z) : Prop :=
  0 <= a /\ 0 < m /\ a + m <= nbits s /\ forall i, a <= i < a + m -> getb (bm s) i = true.

Lemma blk_deallocate_good : forall s a m, Good s -> live_range s a m ->
  let '(rc, s') := blk_deallocate s a m in
  rc = 0 /\ Good s' /\ same_cfg s s' /\ bm s' = set_range (bm s) a m false.
Proof.
  intros s a m Hg (L1 & L2 & L3 & L4). pose proof Hg as (Hi & Hwf & Hfx).
  rewrite (blk_deallocate_nf s a m L1 L2 L3 (inv_len s Hi) L4).
  destruct (dealloc_nf_inv s a m Hi Hfx L1 L2 L3 L4) as (I & B & C).
  split; [reflexivity|]. split; [apply (good_cfg s); assumption|]. split; assumption.
Qed.

Lemma allocated_from_ensure : forall s s' o n z, allocated_from s s' o n -> allocated_from s (ensure_size s' z) o n.
Proof.
  intros s s' o n z (I & C & H). destruct (ensure_fields s' z) as [B C2].
  split; [apply Inv_ensure_size; exact I|]. split; [eapply same_cfg_trans; eassumption|]. rewrite B. exact H.
Qed.


Lemma blk_allocate_al_unfold : forall fuel s length_blk opts,
  blk_allocate_al fuel s length_blk opts =
  let '(rc, s1, off, olen) := blk_allocate_aligned s length_blk U64MAX in
  if rc =? IWFS_ERROR_NO_FREE_SPACE then
    if has opts IWFSM_ALLOC_NO_EXTEND then (IWFS_ERROR_NO_FREE_SPACE, s1, off, olen) else
    match fuel with
    | O => (FUEL_OUT, s1, off, olen)
    | S f => let '(rc2, s2) := resize_fsm_bitmap s1 (shl (bmlen s1) 1) in
             if negb (rc2 =? 0) then (rc2, s2, off, olen) else blk_allocate_al f s2 length_blk opts
    end
  else if (rc =? 0) && has opts IWFSM_SOLID_ALLOCATED_SPACE then (solid_rc s1 off olen, solid s1 off olen, off, olen)
  else (rc, s1, off, olen).
Proof. intros fuel; destruct fuel; reflexivity. Qed.

(* outcome of _fsm_blk_allocate_lw when the bitmap may not grow *)
Definition alloc_outcome (s : fsm) (length_blk opts : Z) (r : aret) : Prop :=
  let '(rc, s', off, olen) := r in
  ((rc = IWFS_ERROR_NO_FREE_SPACE \/ rc = FSM_IW_ERROR_OVERFLOW) /\ s' = s) \/
  ((rc = 0 \/ rc = IWFS_ERROR_NOT_MMAPED \/ (rc = FSM_E_MAXOFF /\ fx_solid (vr s) = false)) /\ allocated_from s s' off olen /\ length_blk <= olen /\
   (has opts IWFSM_ALLOC_NO_OVERALLOCATE = true -> olen = length_blk) /\
   (has opts IWFSM_ALLOC_PAGE_ALIGNED = true -> off mod shr (aunit s) (bpow s) = 0 /\ olen = length_blk)) \/
  (* solid space the file cannot be extended for, code after 7b9f72c: the region has been given back *)
  (rc = FSM_E_MAXOFF /\ fx_solid (vr s) = true /\ given_back s s' off olen).

Theorem blk_allocate_noext : forall s length_blk hint opts ovr, Inv s -> WF s -> 0 < length_blk ->
  has opts IWFSM_ALLOC_NO_EXTEND = true ->
  alloc_outcome s length_blk opts (blk_allocate s length_blk hint opts ovr).
Proof.
  intros s length_blk hint opts ovr Hi Hwf Hlen Hne. unfold blk_allocate.
  destruct (fx_hint (vr s) && (length_blk >? FSM_BKEY_MAX)); [left; split; [right; reflexivity|reflexivity]|].
  destruct (has opts IWFSM_ALLOC_PAGE_ALIGNED) eqn:Epa.
  - rewrite blk_allocate_al_unfold.
    pose proof (blk_allocate_aligned_spec s length_blk U64MAX Hi Hwf Hlen) as H.
    destruct (blk_allocate_aligned s length_blk U64MAX) as [[[rc s1] off] olen].
    destruct H as [[-> ->]|(-> & -> & Ha & Hm & _)].
    + rewrite Z.eqb_refl, Hne. left. split; [left; reflexivity|reflexivity].
    + replace (0 =? IWFS_ERROR_NO_FREE_SPACE) with false by reflexivity. simpl andb.
      destruct (has opts IWFSM_SOLID_ALLOCATED_SPACE).
      * destruct (solid_cases s s1 off length_blk Ha) as [[Ha5 [Hr|[Hr Hfx]]]|(Hr & Hfx & Hg)]; rewrite Hr.
        -- right; left. split; [left; reflexivity|]. split; [exact Ha5|]. split; [lia|]. split; [reflexivity|].
           intros _. split; [exact Hm|reflexivity].
        -- right; left. split; [right; right; split; [reflexivity|exact Hfx]|]. split; [exact Ha5|]. split; [lia|]. split; [reflexivity|].
           intros _. split; [exact Hm|reflexivity].
        -- right; right. split; [reflexivity|]. split; [exact Hfx|exact Hg].
      * right; left. split; [left; reflexivity|]. split; [exact Ha|]. split; [lia|]. split; [reflexivity|].
        intros _. split; [exact Hm|reflexivity].
  - destruct (find_matching s hint length_blk) as [[nl no]|] eqn:Efm.
    + pose proof (blk_allocate_na_found RESIZE_FUEL s length_blk hint opts ovr nl no Hi Hlen Efm) as H.
      destruct (blk_allocate_na RESIZE_FUEL s length_blk hint opts ovr) as [[[rc s'] off] olen].
      destruct H as (H1 & H2 & H3 & H5). destruct H1 as [(Hrc & H4)|(Hrc & Hfx & Hg)].
      * right; left. split; [exact Hrc|]. split; [exact H4|]. split; [exact H3|]. split; [exact H5|].
        intros H. congruence.
      * right; right. split; [exact Hrc|]. split; [exact Hfx|exact Hg].
    + rewrite blk_allocate_na_unfold, Efm, Hne. left. split; [left; reflexivity|reflexivity].
Qed.

Lemma pow2_shl : forall n, 0 <= n -> pow2 n = 2 ^ n.
Proof. intros n Hn. unfold pow2, shl. rewrite Z.shiftl_1_l. reflexivity. Qed.
Lemma shr_div : forall x n, 0 <= n -> shr x n = x / 2 ^ n.
Proof. intros x n Hn. unfold shr. apply Z.shiftr_div_pow2. exact Hn. Qed.
Lemma shl_mul : forall x n, 0 <= n -> shl x n = x * 2 ^ n.
Proof. intros x n Hn. unfold shl. apply Z.shiftl_mul_pow2. exact Hn. Qed.

Lemma wf_bpow_lt : forall s, WF s -> 0 <= bpow s < 32.
Proof. intros s [Hb (j & _ & Hj)]. lia. Qed.

(* rounded request in blocks *)
Lemma req_blocks : forall s len, WF s -> 0 < len < 2 ^ 62 ->
  let lb := shr (IW_ROUNDUP len (pow2 (bpow s))) (bpow s) in
  0 < lb /\ len <= lb * 2 ^ bpow s /\ IW_ROUNDUP len (pow2 (bpow s)) = lb * 2 ^ bpow s.
Proof.
  intros s len Hwf Hlen. pose proof (wf_bpow_lt s Hwf) as Hb. cbv zeta.
  rewrite pow2_shl by lia. rewrite shr_div by lia.
  assert (Hp : 0 < 2 ^ bpow s) by (apply Z.pow_pos_nonneg; lia).
  assert (Hp2 : 2 ^ bpow s < 2 ^ 32) by (apply Z.pow_lt_mono_r; lia).
  destruct (roundup_pow2_props len (bpow s) ltac:(lia) ltac:(lia) ltac:(change (2 ^ 64) with (2 ^ 62 * 4); change (2 ^ 32) with 4294967296 in Hp2; lia)) as [Hr Hm].
  set (R := IW_ROUNDUP len (2 ^ bpow s)) in *.
  pose proof (Z.div_mod R (2 ^ bpow s) ltac:(lia)) as Hd. rewrite Hm in Hd.
  split; [|split]; nia.
Qed.

(* ---- _fsm_allocate *)
Theorem allocate_noext : forall s len addr opts ovr, Inv s -> WF s -> len < 2 ^ 62 ->
  has opts IWFSM_ALLOC_NO_EXTEND = true ->
  let '(rc, s', a, l) := allocate s len addr opts ovr in
  (rc <> 0 /\ (s' = s \/ (exists off olen, allocated_from s s' off olen) \/ (exists off olen, given_back s s' off olen))) \/
  (rc = 0 /\ exists off olen, allocated_from s s' off olen /\ a = off * 2 ^ bpow s /\ l = olen * 2 ^ bpow s /\
     len <= l /\ (has opts IWFSM_ALLOC_NO_OVERALLOCATE = true -> l = IW_ROUNDUP len (pow2 (bpow s))) /\
     (has opts IWFSM_ALLOC_PAGE_ALIGNED = true -> a mod aunit s = 0)).
Proof.
  intros s len addr opts ovr Hi Hwf Hlen Hne. unfold allocate.
  destruct (len <=? 0) eqn:E0.
  - left. split; [discriminate|left; reflexivity].
  - apply Z.leb_gt in E0. pose proof (wf_bpow_lt s Hwf) as Hb.
    destruct (req_blocks s len Hwf ltac:(lia)) as (Hlb & Hle & Hru). cbv zeta in Hlb, Hle, Hru.
    set (lb := shr (IW_ROUNDUP len (pow2 (bpow s))) (bpow s)) in *.
    pose proof (blk_allocate_noext s lb (blk_of s addr) opts ovr Hi Hwf Hlb Hne) as H.
    destruct (blk_allocate s lb (blk_of s addr) opts ovr) as [[[rc s1] off] nlen]. unfold alloc_outcome in H.
    destruct H as [[[-> | ->] ->]|[(Hrc & Ha & Hge & Hno & Hpa)|(-> & Hfx & Hg)]].
    + left. split; [discriminate|left; reflexivity].
    + left. split; [discriminate|left; reflexivity].
    + destruct (rc =? 0) eqn:Erc.
      2:{ apply Z.eqb_neq in Erc. left. split; [exact Erc|right; left; exists off, nlen; exact Ha]. }
      apply Z.eqb_eq in Erc. subst rc. right. split; [reflexivity|]. exists off, nlen.
        split; [exact Ha|]. rewrite !shl_mul by lia. split; [reflexivity|]. split; [reflexivity|].
        assert (Hp : 0 < 2 ^ bpow s) by (apply Z.pow_pos_nonneg; lia).
        split; [nia|]. split.
        -- intros Ho. rewrite (Hno Ho). symmetry. exact Hru.
        -- intros Hp1. destruct (Hpa Hp1) as [Hm _].
           destruct Hwf as [_ (j & Hj & Hjr)]. rewrite Hj in *. rewrite shr_div in Hm by lia.
           assert (Hq : 2 ^ j / 2 ^ bpow s = 2 ^ (j - bpow s)).
           { replace j with ((j - bpow s) + bpow s) at 1 by lia. rewrite Z.pow_add_r by lia. apply Z.div_mul. lia. }
           rewrite Hq in Hm. apply Z.mod_divide in Hm; [|apply Z.pow_nonzero; lia]. destruct Hm as [q ->].
           replace (q * 2 ^ (j - bpow s) * 2 ^ bpow s) with (q * 2 ^ j)
             by (replace j with ((j - bpow s) + bpow s) at 1 by lia; rewrite Z.pow_add_r by lia; ring).
           apply Z.mod_mul. apply Z.pow_nonzero; lia.
    + replace (FSM_E_MAXOFF =? 0) with false by reflexivity. left. split; [discriminate|right; right; exists off, nlen; exact Hg].
Qed.

(* ---- _fsm_deallocate *)
Theorem deallocate_good : forall s addr len, Good s ->
  live_range s (blk_of s addr) (blk_of s len) ->
  let '(rc, s') := deallocate s addr len in
  Good s' /\ same_cfg s s' /\
  (s' = s \/ (rc = 0 /\ bm s' = set_range (bm s) (blk_of s addr) (blk_of s len) false)).
Proof.
  intros s addr len Hg Hl. unfold deallocate.
  destruct (negb (Z.land addr (blkmask s) =? 0)); [split; [exact Hg|split; [apply same_cfg_refl|left; reflexivity]]|].
  destruct (fx_short (vr s) && (blk_of s len <? 1)); [split; [exact Hg|split; [apply same_cfg_refl|left; reflexivity]]|].
  destruct (touches_meta s (blk_of s addr) (blk_of s len)); [split; [exact Hg|split; [apply same_cfg_refl|left; reflexivity]]|].
  pose proof (blk_deallocate_good s _ _ Hg Hl) as H.
  destruct (blk_deallocate s (blk_of s addr) (blk_of s len)) as [rc s'].
  destruct H as (H1 & H2 & H3 & H4). split; [exact H2|]. split; [exact H3|]. right. split; assumption.
Qed.

Lemma live_sub : forall s a m a' m', live_range s a m -> a <= a' -> 0 < m' -> a' + m' <= a + m -> live_range s a' m'.
Proof.
  intros s a m a' m' (L1 & L2 & L3 & L4) H1 H2 H3. split; [lia|]. split; [lia|]. split; [lia|].
  intros i Hi. apply L4. lia.
Qed.

Lemma live_after_alloc : forall s s' off olen a m, allocated_from s s' off olen -> live_range s a m -> live_range s' a m.
Proof.
  intros s s' off olen a m (I & C & A1 & A2 & A3 & A4 & A5) (L1 & L2 & L3 & L4).
  destruct C as (_ & _ & _ & C4 & _). split; [lia|]. split; [lia|]. split; [unfold nbits in *; rewrite C4; lia|].
  intros i Hi. rewrite A5. pose proof (inv_len s' I) as Hl. rewrite A5, set_range_length in Hl. unfold nbits in Hl. rewrite C4 in Hl.
  rewrite getb_set_range by (unfold nbits in *; lia).
  destruct ((off <=? i) && (i <? off + olen)); [reflexivity|apply L4; exact Hi].
Qed.

(* a region that was just handed out is given back: the state is good again and every block is as before *)
Lemma release_allocated_good : forall s s1 off n, Good s -> allocated_from s s1 off n ->
  Good (snd (blk_deallocate s1 off n)) /\ same_cfg s (snd (blk_deallocate s1 off n)).
Proof.
  intros s s1 off n Hg Ha. pose proof Ha as (I1 & C1 & A1 & A2 & A3 & A4 & A5).
  assert (Hg1 : Good s1) by (apply (good_cfg s); assumption).
  pose proof C1 as (V1 & V2 & V3 & V4 & V5 & V6 & V7).
  assert (Hl1 : len_z (bm s) = nbits s) by (destruct Hg as (Hi & _); apply (inv_len s Hi)).
  assert (Hlive : live_range s1 off n).
  { split; [exact A1|]. split; [exact A2|]. split; [unfold nbits in *; rewrite V4; exact A3|].
    intros i Hi. rewrite A5. rewrite getb_set_range by lia.
    replace ((off <=? i) && (i <? off + n)) with true; [reflexivity|].
    symmetry. apply andb_true_iff. split; [apply Z.leb_le|apply Z.ltb_lt]; lia. }
  pose proof (blk_deallocate_good s1 off n Hg1 Hlive) as H.
  destruct (blk_deallocate s1 off n) as [rc s2]. destruct H as (_ & G2 & C2 & _). simpl.
  split; [exact G2|eapply same_cfg_trans; eassumption].
Qed.

(* ---- _fsm_reallocate *)
Theorem reallocate_good : forall s nlen addr olen opts ovr, Good s -> has opts IWFSM_ALLOC_NO_EXTEND = true ->
  0 <= nlen < 2 ^ 62 -> live_range s (blk_of s addr) (blk_of s olen) ->
  Good (state_of (reallocate s nlen addr olen opts ovr)) /\ same_cfg s (state_of (reallocate s nlen addr olen opts ovr)).
Proof.
  intros s nlen addr olen opts ovr Hg Hne Hnl Hl. pose proof Hg as (Hi & Hwf & Hfx). unfold reallocate.
  destruct (negb (Z.land addr (blkmask s) =? 0) || negb (Z.land olen (blkmask s) =? 0)); [split; [exact Hg|apply same_cfg_refl]|].
  set (nb := shr (IW_ROUNDUP nlen (pow2 (bpow s))) (bpow s)).
  set (ob := blk_of s olen) in *. set (ab := blk_of s addr) in *.
  destruct (fx_recheck (vr s) && (nlen <? 0)); [split; [exact Hg|apply same_cfg_refl]|].
  destruct (nb =? ob) eqn:Eq; [split; [exact Hg|apply same_cfg_refl]|].
  destruct (fx_realloc (vr s) && (ob <? 1)); [split; [exact Hg|apply same_cfg_refl]|].
  destruct (fx_realloc (vr s) && touches_meta s ab ob); [split; [exact Hg|apply same_cfg_refl]|].
  destruct (nb <? ob) eqn:Elt.
  - apply Z.ltb_lt in Elt.
    assert (Hnb : 0 <= nb).
    { unfold nb. pose proof (wf_bpow_lt s Hwf) as Hb. destruct (Z.eq_dec nlen 0) as [->|Hz].
      - rewrite shr_div by lia. apply Z.div_pos; [|apply Z.pow_pos_nonneg; lia].
        rewrite pow2_shl by lia. assert (Hp2 : 2 ^ bpow s < 2 ^ 32) by (apply Z.pow_lt_mono_r; lia).
        destruct (roundup_pow2_props 0 (bpow s) ltac:(lia) ltac:(lia) ltac:(change (2 ^ 64) with (2 ^ 32 * 2 ^ 32); nia)) as [Hr _]. lia.
      - destruct (req_blocks s nlen Hwf ltac:(lia)) as (H & _). cbv zeta in H. fold nb in H. lia. }
    pose proof (blk_deallocate_good s (ab + nb) (ob - nb) Hg (live_sub s ab ob (ab + nb) (ob - nb) Hl ltac:(lia) ltac:(lia) ltac:(lia))) as H.
    destruct (blk_deallocate s (ab + nb) (ob - nb)) as [rc s1]. destruct H as (-> & H2 & H3 & _).
    simpl. split; assumption.
  - apply Z.ltb_ge in Elt. apply Z.eqb_neq in Eq.
    assert (Hpos : 0 < nb) by (destruct Hl as (_ & L2 & _); lia).
    destruct (negb ((if fx_recheck (vr s) then fst (set_bit_status s ab ob false true (strict s)) else 0) =? 0));
      [split; [exact Hg|apply same_cfg_refl]|].
    pose proof (blk_allocate_noext s nb ab opts ovr Hi Hwf Hpos Hne) as H.
    destruct (blk_allocate s nb ab opts ovr) as [[[rc s1] naddr] sp]. unfold alloc_outcome in H.
    destruct H as [[[-> | ->] ->]|[(Hrc & Ha & _)|(-> & _ & (s4 & Ha4 & ->))]].
    + simpl. split; [exact Hg|apply same_cfg_refl].
    + simpl. split; [exact Hg|apply same_cfg_refl].
    + destruct (negb (rc =? 0)) eqn:Erc.
      * simpl. destruct Ha as (I & C & _). split; [apply (good_cfg s); assumption|exact C].
      * destruct (fx_recheck (vr s) && negb (IW_RANGES_OVERLAP ab (ab + ob) (shr (bmoff s1) (bpow s)) (shr (bmoff s1) (bpow s) + shr (bmlen s1) (bpow s)) =? 0)).
        { simpl. apply (release_allocated_good s s1 naddr sp Hg Ha). }
        destruct (negb (naddr =? ab) && negb (ensure_ok s1 (shl naddr (bpow s) + uw 64 olen))).
        { simpl. destruct (fx_recheck (vr s)); [apply (release_allocated_good s s1 naddr sp Hg Ha)|].
          destruct Ha as (I & C & _). split; [apply (good_cfg s); assumption|exact C]. }
        set (s1' := if negb (naddr =? ab) then ensure_size s1 (shl naddr (bpow s) + uw 64 olen) else s1).
        assert (Ha' : allocated_from s s1' naddr sp).
        { unfold s1'. destruct (negb (naddr =? ab)); [apply allocated_from_ensure|]; exact Ha. }
        pose proof Ha' as (I & C & _).
        assert (Hg1 : Good s1') by (apply (good_cfg s); assumption).
        pose proof (blk_deallocate_good s1' ab ob Hg1 (live_after_alloc s s1' naddr sp ab ob Ha' Hl)) as H.
        destruct (blk_deallocate s1' ab ob) as [rc2 s2]. destruct H as (-> & H2 & H3 & _).
        simpl. split; [exact H2|eapply same_cfg_trans; eassumption].
    + replace (negb (FSM_E_MAXOFF =? 0)) with true by reflexivity. simpl. apply (release_allocated_good s s4 naddr sp Hg Ha4).
Qed.

(* ---- _fsm_sync, _fsm_close (no trim) + reopen *)
Lemma write_meta_good : forall s, Good s -> Good (write_meta s) /\ same_cfg s (write_meta s).
Proof.
  intros s Hg. assert (C : same_cfg s (write_meta s)) by (unfold same_cfg; repeat split).
  split; [|exact C]. pose proof Hg as (Hi & _). apply (good_cfg s); [exact Hg|apply (Inv_ext s); try reflexivity; exact Hi|exact C].
Qed.

(* [hdr_current s]: the header of the closed file names the bitmap area the handle used (Fsm_hdr_proofs.v: always so) *)
Theorem reopen_good : forall s st mm, hdr_current s = true ->
  len_z (bm s) = nbits s -> nbits s <= FSM_BKEY_MAX -> WF s -> fx_lfbk (vr s) = true ->
  Good (reopen s st mm).
Proof.
  intros s st mm Hc Hlen Hu32 Hwf Hfx. unfold reopen, disk_bm. rewrite Hc. apply hs_iff in Hc. destruct Hc as [Ec1 Ec2].
  rewrite Ec1, Ec2.
  set (s0 := mkFsm (bm s) [] 0 0 (bmoff s) (bmlen s) (hdrlen s) (bpow s) (aunit s) (fsize s) (p_crzsum s) (p_crznum s)
                   (p_crzsum s) (p_crznum s) (bmoff s) (bmlen s) (maxoff s) st (mkVariant (fx_lfbk (vr s)) (fx_strict (vr s)) (fx_sync (vr s)) (fx_short (vr s))
                   (fx_realloc (vr s)) (fx_hint (vr s)) (fx_leak (vr s)) (fx_recheck (vr s)) (fx_solid (vr s)) mm)).
  destruct (load_fsm_spec s0 Hlen Hu32) as (F & S & M & L).
  pose proof (frame_same_cfg _ _ F) as (C1 & C2 & C3 & C4 & _). destruct F as (B1 & _).
  split; [|split].
  - constructor.
    + rewrite B1. unfold nbits. rewrite C4. exact Hlen.
    + unfold nbits. rewrite C4. exact Hu32.
    + split; [exact S|]. apply L. left. reflexivity.
    + intros o n. rewrite B1. apply M.
  - destruct Hwf as [Hb (j & Hj & Hr)]. constructor; [rewrite C2; exact Hb|]. exists j. rewrite C2, C3. split; assumption.
  - rewrite C1. exact Hfx.
Qed.

(* ---------------------------------------------------------------- all histories without bitmap growth *)
(* what the client may do in state s: allocations that do not extend the bitmap, releases/reallocations of ranges
   whose blocks are all allocated (ranges it owns), sync, close without trim + reopen *)
Definition client_ok (s : fsm) (o : op) : Prop :=
  match o with
  | OAlloc len hint opts ovr => has opts IWFSM_ALLOC_NO_EXTEND = true /\ len < 2 ^ 62
  | ORealloc nlen addr olen opts ovr => has opts IWFSM_ALLOC_NO_EXTEND = true /\ 0 <= nlen < 2 ^ 62 /\
                                        live_range s (blk_of s addr) (blk_of s olen)
  | OFree addr len => live_range s (blk_of s addr) (blk_of s len)
  | OClear _ => False
  | OSync => True
  | OCloseReopen notrim _ _ => notrim = true
  end.

Theorem step_good : forall s o, Good s -> hdr_current s = true -> client_ok s o -> Good (state_of (step s o)).
Proof.
  intros s o Hg Hh Hc. pose proof Hg as (Hi & Hwf & Hfx). destruct o as [len hint opts ovr|nlen addr olen opts ovr|addr len|tr| |nt st mm]; simpl in Hc.
  - destruct Hc as [Hne Hlen]. unfold step.
    pose proof (allocate_noext s len hint opts ovr Hi Hwf Hlen Hne) as H.
    destruct (allocate s len hint opts ovr) as [[[rc s'] a] l]. simpl.
    destruct H as [(_ & [->|[(off & olen & (I & C & _))|(off & olen & (s4 & Ha4 & ->))]])|(_ & off & olen & (I & C & _) & _)];
      [exact Hg|apply (good_cfg s); assumption|apply (release_allocated_good s s4 off olen Hg Ha4)|apply (good_cfg s); assumption].
  - destruct Hc as (Hne & Hnl & Hl). unfold step. apply reallocate_good; assumption.
  - unfold step. pose proof (deallocate_good s addr len Hg Hc) as H.
    destruct (deallocate s addr len) as [rc s']. simpl. tauto.
  - contradiction.
  - simpl. apply write_meta_good. exact Hg.
  - subst nt. unfold step, close.
    assert (Hs1 : forall s1, (s1 = s \/ s1 = write_meta s) -> Good (reopen s1 st mm)).
    { intros s1 [->| ->]; (apply reopen_good; [first [exact Hh|apply hs_iff; apply hs_write_meta]|apply (inv_len s Hi)|apply (inv_u32 s Hi)|
        destruct Hwf as [Hb Hj]; constructor; assumption|exact Hfx]). }
    destruct (tree s); simpl; apply Hs1; [left|right]; reflexivity.
Qed.

Inductive ok_run : fsm -> list op -> Prop :=
| ok_nil : forall s, ok_run s []
| ok_cons : forall s o ops, client_ok s o -> ok_run (state_of (step s o)) ops -> ok_run s (o :: ops).

Lemma client_ok_no_clear : forall s o, client_ok s o -> forall tr, o = OClear tr -> fst (clear s tr) = 0.
Proof. intros s o Hc tr ->. simpl in Hc. contradiction. Qed.

Theorem run_good_hdr : forall ops s, Good s -> hdr_current s = true -> ok_run s ops ->
  Good (run s ops) /\ hdr_current (run s ops) = true.
Proof.
  induction ops as [|o ops IH]; intros s Hg Hh Hok; [split; assumption|].
  inversion Hok; subst. unfold run. simpl. apply IH; [apply step_good; assumption| |assumption].
  apply hs_iff. apply hs_step; [apply hs_iff; exact Hh|eapply client_ok_no_clear; eassumption].
Qed.
Theorem run_good : forall ops s, Good s -> hdr_current s = true -> ok_run s ops -> Good (run s ops).
Proof. intros ops s Hg Hh Hok. apply (run_good_hdr ops s Hg Hh Hok). Qed.

(* ================================================================ the code as it is: counterexamples *)
Lemma live_range_dec : forall s a m, 0 <= a -> 0 < m -> a + m <= nbits s -> len_z (bm s) = nbits s ->
  all_range (bm s) a m true = true -> live_range s a m.
Proof.
  intros s a m H1 H2 H3 H4 H5. split; [exact H1|]. split; [exact H2|]. split; [exact H3|].
  apply all_range_spec; [lia|lia|lia|exact H5].
Qed.

Definition v_current : variant := mkVariant false false false false false false false false false false.
Definition v_fixed : variant := mkVariant true true true true true true true true true false.
(* /repo at the time of the deepening round: the four fixes of the earlier rounds committed, the three of this round not yet *)
Definition v_head : variant := mkVariant true true true true false false false false false false.
(* /repo in round 7: the three fixes of the deepening round committed (03fe895 ed23db4 cd47e17), fsm-realloc-recheck.diff not yet *)
Definition v_head7 : variant := mkVariant true true true true true true true false false false.
Definition fresh (v : variant) (strict' : bool) : fsm := snd (open_new v 6 0 0 strict').
(* six 4-block regions, then exactly the free tail (which is the cached extent), then two adjacent releases *)
Definition lfbk_witness : list op :=
  [OAlloc 256 0 11 false; OAlloc 256 0 11 false; OAlloc 256 0 11 false; OAlloc 256 0 11 false;
   OAlloc 256 0 11 false; OAlloc 256 0 11 false; OAlloc 2088960 0 11 false; OFree 1152 256; OFree 1408 256].

Ltac dec_goal := vm_compute; first [reflexivity | (intro; discriminate)].

(* executable form of client_ok / ok_run, for concrete histories *)
Definition live_rangeb (s : fsm) (a m : Z) : bool :=
  (0 <=? a) && (0 <? m) && (a + m <=? nbits s) && (len_z (bm s) =? nbits s) && all_range (bm s) a m true.
Definition client_okb (s : fsm) (o : op) : bool :=
  match o with
  | OAlloc len hint opts ovr => has opts IWFSM_ALLOC_NO_EXTEND && (len <? 2 ^ 62)
  | ORealloc nlen addr olen opts ovr => has opts IWFSM_ALLOC_NO_EXTEND && (0 <=? nlen) && (nlen <? 2 ^ 62) &&
                                        live_rangeb s (blk_of s addr) (blk_of s olen)
  | OFree addr len => live_rangeb s (blk_of s addr) (blk_of s len)
  | OClear _ => false
  | OSync => true
  | OCloseReopen notrim _ _ => notrim
  end.
Fixpoint ok_runb (s : fsm) (ops : list op) : bool :=
  match ops with
  | [] => true
  | o :: r => client_okb s o && ok_runb (state_of (step s o)) r
  end.
Lemma live_rangeb_sound : forall s a m, live_rangeb s a m = true -> live_range s a m.
Proof.
  intros s a m H. unfold live_rangeb in H. repeat (apply andb_true_iff in H; destruct H as [H ?]).
  apply live_range_dec; try lia. assumption.
Qed.
Lemma client_okb_sound : forall s o, client_okb s o = true -> client_ok s o.
Proof.
  intros s [len hint opts ovr|nlen addr olen opts ovr|addr len|tr| |nt st mm] H; cbn [client_okb client_ok] in *.
  - apply andb_true_iff in H. destruct H as [H1 H2]. apply Z.ltb_lt in H2. split; [exact H1|exact H2].
  - repeat (apply andb_true_iff in H; destruct H as [H ?]). split; [exact H|]. split; [lia|apply live_rangeb_sound; assumption].
  - apply live_rangeb_sound; exact H.
  - discriminate.
  - exact I.
  - exact H.
Qed.
Lemma ok_runb_sound : forall ops s, ok_runb s ops = true -> ok_run s ops.
Proof.
  induction ops as [|o r IH]; intros s H; [constructor|]. simpl in H. apply andb_true_iff in H. destruct H as [H1 H2].
  constructor; [apply client_okb_sound; exact H1|apply IH; exact H2].
Qed.

Lemma lfbk_witness_ok : forall v, v = v_current \/ v = v_fixed -> ok_run (fresh v false) lfbk_witness.
Proof. intros v [-> | ->]; apply ok_runb_sound; vm_compute; reflexivity. Qed.

(* the statement of tree_is_runs, false of the model of the code as it is *)
Theorem tree_is_runs_refuted : exists ops, ok_run (fresh v_current false) ops /\
  ~ (forall o n, In (n, o) (tree (run (fresh v_current false) ops)) <-> is_run (bm (run (fresh v_current false) ops)) o n).
Proof.
  exists lfbk_witness. split; [apply lfbk_witness_ok; left; reflexivity|]. intros H.
  assert (Hin : In (8, 18) (tree (run (fresh v_current false) lfbk_witness))) by (vm_compute; left; reflexivity).
  pose proof (proj1 (H 18 8) Hin) as Hr. destruct Hr as (_ & _ & _ & _ & _ & [He|He]); vm_compute in He; discriminate.
Qed.
(* ... and true after the fix on the same history *)
Lemma lfbk_witness_fixed : tree (run (fresh v_fixed false) lfbk_witness) = [(46, 18)].
Proof. vm_compute. reflexivity. Qed.

(* ---- invalid releases *)
Theorem deallocate_refuses : forall s addr len,
  negb (Z.land addr (blkmask s) =? 0) = true \/ touches_meta s (blk_of s addr) (blk_of s len) = true ->
  fst (deallocate s addr len) <> 0 /\ snd (deallocate s addr len) = s.
Proof.
  intros s addr len H. unfold deallocate. destruct (negb (Z.land addr (blkmask s) =? 0)); [split; [discriminate|reflexivity]|].
  destruct (fx_short (vr s) && (blk_of s len <? 1)); [split; [discriminate|reflexivity]|].
  destruct H as [H|H]; [discriminate|]. rewrite H. split; [discriminate|reflexivity].
Qed.

(* strict mode after fixes/fsm-strict-dealloc.diff: a range with a free block in it is refused, nothing changes *)
Theorem strict_release_refused : forall s a m, fx_strict (vr s) = true -> strict s = true ->
  0 <= a -> 0 <= m -> a + m <= nbits s -> len_z (bm s) = nbits s ->
  (exists i, a <= i < a + m /\ getb (bm s) i = false) ->
  blk_deallocate s a m = (IWFS_ERROR_FSM_SEGMENTATION, s).
Proof.
  intros s a m Hfx Hst Ha Hm Hend Hlen (i & Hi & Hb).
  assert (Hall : all_range (bm s) a m (negb false) = false).
  { destruct (all_range (bm s) a m (negb false)) eqn:E; [|reflexivity].
    pose proof (proj1 (all_range_spec (bm s) a m (negb false) ltac:(lia) ltac:(lia) ltac:(lia)) E) as E'.
    rewrite E' in Hb by exact Hi. discriminate. }
  assert (Hpre : fst (set_bit_status s a m false true true) = IWFS_ERROR_FSM_SEGMENTATION).
  { unfold set_bit_status. replace (nbits s <? a + m) with false by lia. rewrite Hall. reflexivity. }
  unfold blk_deallocate. rewrite Hfx, Hst. simpl andb. cbv iota. rewrite Hpre. reflexivity.
Qed.
(* the code as it is clears the allocated part of such a range before it reports the error *)
Theorem strict_release_refused_refuted : exists s a m, strict s = true /\ 0 <= a /\ 0 <= m /\ a + m <= nbits s /\
  len_z (bm s) = nbits s /\ (exists i, a <= i < a + m /\ getb (bm s) i = false) /\
  fst (blk_deallocate s a m) <> 0 /\ bm (snd (blk_deallocate s a m)) <> bm s.
Proof.
  exists (state_of (step (fresh v_current true) (OAlloc 256 0 11 false))), 2, 5.
  split; [reflexivity|]. split; [lia|]. split; [lia|]. split; [dec_goal|]. split; [vm_compute; reflexivity|].
  split; [exists 6; split; [lia|vm_compute; reflexivity]|]. split; [vm_compute; discriminate|].
  intros H. apply (f_equal (fun l => getb l 2)) in H. vm_compute in H. discriminate.
Qed.

(* a state satisfying all hypotheses of the theorems: a freshly created file, closed and reopened *)
Lemma fresh_reopened_good : Good (reopen (fresh v_fixed false) false false).
Proof.
  apply reopen_good; [vm_compute; reflexivity|vm_compute; reflexivity|dec_goal| |reflexivity].
  constructor; [dec_goal|]. exists 12. split; [reflexivity|]. split; dec_goal.
Qed.

(* ================================================================ corollaries exported to Properties_C10/C11 *)
Theorem tree_is_runs_partial : forall ops s, Good s -> hdr_current s = true -> ok_run s ops ->
  forall o n, In (n, o) (tree (run s ops)) <-> is_run (bm (run s ops)) o n.
Proof. intros ops s Hg Hh Hok. destruct (run_good ops s Hg Hh Hok) as (Hi & _). apply (inv_runs _ Hi). Qed.

Theorem reopen_same : forall s st mm, hdr_current s = true ->
  len_z (bm s) = nbits s -> nbits s <= FSM_BKEY_MAX -> WF s -> fx_lfbk (vr s) = true ->
  Good (reopen s st mm) /\ bm (reopen s st mm) = bm s /\ bmoff (reopen s st mm) = bmoff s /\
  bmlen (reopen s st mm) = bmlen s /\ hdrlen (reopen s st mm) = hdrlen s /\ bpow (reopen s st mm) = bpow s /\
  (forall o n, In (n, o) (tree (reopen s st mm)) <-> is_run (bm s) o n).
Proof.
  intros s st mm Hc Hlen Hu32 Hwf Hfx. split; [apply reopen_good; assumption|]. unfold reopen, disk_bm. rewrite Hc.
  apply hs_iff in Hc. destruct Hc as [Ec1 Ec2]. rewrite Ec1, Ec2.
  set (s0 := mkFsm (bm s) [] 0 0 (bmoff s) (bmlen s) (hdrlen s) (bpow s) (aunit s) (fsize s) (p_crzsum s) (p_crznum s)
                   (p_crzsum s) (p_crznum s) (bmoff s) (bmlen s) (maxoff s) st (mkVariant (fx_lfbk (vr s)) (fx_strict (vr s)) (fx_sync (vr s)) (fx_short (vr s))
                   (fx_realloc (vr s)) (fx_hint (vr s)) (fx_leak (vr s)) (fx_recheck (vr s)) (fx_solid (vr s)) mm)).
  destruct (load_fsm_spec s0 Hlen Hu32) as (F & _ & M & _). destruct F as (B1 & B2 & B3 & B4 & B5 & _).
  split; [exact B1|]. split; [exact B2|]. split; [exact B3|]. split; [exact B4|]. split; [exact B5|]. exact M.
Qed.

(* a returned region never contains a block that was allocated before: header, bitmap, live regions *)
Corollary alloc_avoids_allocated : forall s s' off olen i, allocated_from s s' off olen ->
  getb (bm s) i = true -> ~ (off <= i < off + olen).
Proof. intros s s' off olen i (_ & _ & _ & _ & _ & H & _) Hb Hi. rewrite H in Hb by exact Hi. discriminate. Qed.

(* and changes the bitmap on exactly its own blocks, 0 -> 1 *)
Corollary alloc_flips_only_own : forall s s' off olen i, allocated_from s s' off olen -> 0 <= i < nbits s ->
  getb (bm s') i = if (off <=? i) && (i <? off + olen) then true else getb (bm s) i.
Proof.
  intros s s' off olen i (I & C & A1 & A2 & A3 & A4 & A5) Hi. rewrite A5.
  pose proof (inv_len s' I) as Hl. rewrite A5, set_range_length in Hl. destruct C as (_ & _ & _ & C4 & _).
  unfold nbits in *. rewrite C4 in Hl. apply getb_set_range; lia.
Qed.

(* a release of less than one block is refused (code after fixes/fsm-dealloc-short.diff) ... *)
Theorem short_release_refused : forall s addr len, fx_short (vr s) = true -> blk_of s len < 1 ->
  fst (deallocate s addr len) <> 0 /\ snd (deallocate s addr len) = s.
Proof.
  intros s addr len Hfx Hl. unfold deallocate. destruct (negb (Z.land addr (blkmask s) =? 0)); [split; [discriminate|reflexivity]|].
  rewrite Hfx. replace (blk_of s len <? 1) with true by lia. split; [discriminate|reflexivity].
Qed.
(* ... and accepted by the code as it is, leaving an empty extent in the tree *)
Theorem short_release_refused_refuted : exists s addr len, blk_of s len < 1 /\
  fst (deallocate s addr len) = 0 /\ In (0, blk_of s addr) (tree (snd (deallocate s addr len))).
Proof.
  exists (run (fresh v_current false) [OAlloc 256 0 11 false; OAlloc 256 0 11 false]), 384, 10.
  split; [dec_goal|]. split; [vm_compute; reflexivity|vm_compute; left; reflexivity].
Qed.

(* ================================================================ bitmap relocation *)
Lemma ranges_overlap_zero : forall s1 e1 s2 e2, IW_RANGES_OVERLAP s1 e1 s2 e2 = 0 -> e1 <= s2 \/ e2 <= s1.
Proof.
  intros s1 e1 s2 e2. unfold IW_RANGES_OVERLAP.
  destruct (Z.gtb e1 s2) eqn:A; destruct (Z.leb e1 e2) eqn:B; destruct (Z.geb s1 s2) eqn:C; destruct (Z.ltb s1 e2) eqn:D;
    destruct (Z.leb s1 s2) eqn:E; destruct (Z.geb e1 e2) eqn:F; simpl; intros H; try discriminate;
    rewrite ?Z.gtb_lt, ?Z.leb_le, ?Z.geb_le, ?Z.ltb_lt, ?Z.leb_gt, ?Z.ltb_ge in *;
    repeat match goal with H : (_ >? _) = false |- _ => rewrite Z.gtb_ltb in H; apply Z.ltb_ge in H
                      | H : (_ >=? _) = false |- _ => rewrite Z.geb_leb in H; apply Z.leb_gt in H end; lia.
Qed.

Lemma set_bit_status_nochk : forall s off len v, off + len <= nbits s ->
  set_bit_status s off len v false false = (0, set_bm s (set_range (bm s) off len v)).
Proof. intros s off len v H. unfold set_bit_status. replace (nbits s <? off + len) with false by lia. reflexivity. Qed.

Lemma shr_add_le : forall a b n, 0 <= n -> 0 <= a -> 0 <= b -> shr a n + shr b n <= shr (a + b) n.
Proof.
  intros a b n Hn Ha Hb. rewrite !shr_div by lia. assert (Hp : 0 < 2 ^ n) by (apply Z.pow_pos_nonneg; lia).
  pose proof (Z.div_mod a (2 ^ n) ltac:(lia)). pose proof (Z.div_mod b (2 ^ n) ltac:(lia)).
  pose proof (Z.mod_pos_bound a (2 ^ n) Hp). pose proof (Z.mod_pos_bound b (2 ^ n) Hp).
  apply Z.div_le_lower_bound; [lia|]. nia.
Qed.

Definition reloc_result (s : fsm) (nbmoff nbmlen : Z) : list bool :=
  set_range (set_range (bm s ++ repeat false (Z.to_nat (8 * (nbmlen - bmlen s))))
                       (shr nbmoff (bpow s)) (shr nbmlen (bpow s)) true)
            (shr (bmoff s) (bpow s)) (shr (bmlen s) (bpow s)) false.

Definition init_outcome (s : fsm) (nbmoff nbmlen : Z) (r : Z * fsm) : Prop :=
  let '(rc, s') := r in
  (rc <> 0 /\ (s' = s \/ s' = ensure_size s (nbmoff + nbmlen))) \/
  (rc = 0 /\ Inv s' /\ bmoff s' = nbmoff /\ bmlen s' = nbmlen /\ vr s' = vr s /\ bpow s' = bpow s /\ aunit s' = aunit s /\
   hdrlen s' = hdrlen s /\ strict s' = strict s /\ bm s' = reloc_result s nbmoff nbmlen).

(* _fsm_init_lw moving an existing bitmap: reload, then release of the old bitmap area *)
Theorem init_lw_reloc : forall s nbmoff nbmlen, Inv s -> fx_lfbk (vr s) = true -> 0 <= bpow s ->
  bmlen s <> 0 -> 0 <= nbmoff -> 0 <= bmoff s -> 0 <= bmlen s ->
  let ob := shr (bmoff s) (bpow s) in let ol := shr (bmlen s) (bpow s) in
  let nb := shr nbmoff (bpow s) in let nl := shr nbmlen (bpow s) in
  0 < ol -> ob + ol <= nbits s ->
  (forall i, ob <= i < ob + ol -> getb (bm s) i = true) ->
  (forall i, nb <= i < nb + nl -> i < nbits s -> getb (bm s) i = true) ->
  nbmlen * 8 <= FSM_BKEY_MAX ->
  init_outcome s nbmoff nbmlen (init_lw s nbmoff nbmlen).
Proof.
  intros s nbmoff nbmlen Hi Hfx Hbp Hbl Hno Hbo Hblen ob ol nb nl Hol Hoin Hold Hnew Hmax.
  pose proof (inv_len s Hi) as Hlen. unfold init_lw.
  assert (Ez : (bmlen s =? 0) = false) by (apply Z.eqb_neq; exact Hbl). rewrite !Ez. simpl negb.
  destruct (negb (nbmlen mod pow2 (bpow s) =? 0) || negb (nbmoff mod pow2 (bpow s) =? 0) || negb (nbmoff mod aunit s =? 0));
    [left; split; [discriminate|left; reflexivity]|].
  destruct (nbmlen <? bmlen s) eqn:E2; [left; split; [discriminate|left; reflexivity]|]. apply Z.ltb_ge in E2.
  destruct (nbmlen * 8 <? shr (nbmoff + nbmlen) (bpow s) + 1) eqn:E3; [left; split; [discriminate|left; reflexivity]|]. apply Z.ltb_ge in E3.
  destruct (negb (ensure_ok s (nbmoff + nbmlen))); [left; split; [discriminate|left; reflexivity]|].
  set (s0 := ensure_size s (nbmoff + nbmlen)).
  simpl andb. destruct (negb (IW_RANGES_OVERLAP (bmoff s) (bmoff s + bmlen s) nbmoff (nbmoff + nbmlen) =? 0)) eqn:Eov;
    [left; split; [discriminate|right; reflexivity]|].
  apply negb_false_iff in Eov. apply Z.eqb_eq in Eov. apply ranges_overlap_zero in Eov.
  set (nbm := bm s ++ repeat false (Z.to_nat (8 * (nbmlen - bmlen s)))).
  assert (Hnbm : len_z nbm = nbmlen * 8).
  { unfold nbm. rewrite len_z_app, len_z_repeat, Hlen. unfold nbits. lia. }
  assert (Hs0 : bm s0 = bm s /\ same_cfg s s0) by apply ensure_fields. destruct Hs0 as [_ C0].
  set (s1 := set_bmloc (set_bm s0 nbm) nbmoff nbmlen).
  assert (Hnb1 : nbits s1 = nbmlen * 8) by reflexivity.
  assert (Hbp1 : bpow s1 = bpow s) by (destruct C0 as (_ & C & _); exact C).
  assert (Hnn : nb + nl <= nbmlen * 8).
  { pose proof (shr_add_le nbmoff nbmlen (bpow s) Hbp Hno ltac:(lia)). unfold nb, nl. lia. }
  assert (Hnl0 : 0 <= nl) by (unfold nl; rewrite shr_div by lia; apply Z.div_pos; [lia|apply Z.pow_pos_nonneg; lia]).
  assert (Hnb0 : 0 <= nb) by (unfold nb; rewrite shr_div by lia; apply Z.div_pos; [lia|apply Z.pow_pos_nonneg; lia]).
  assert (Hob0 : 0 <= ob) by (unfold ob; rewrite shr_div by lia; apply Z.div_pos; [lia|apply Z.pow_pos_nonneg; lia]).
  fold nb nl. rewrite (set_bit_status_nochk s1 nb nl true) by (rewrite Hnb1; lia).
  replace (negb (0 =? 0)) with false by reflexivity. cbv iota.
  set (bm2 := set_range nbm nb nl true). simpl bm.
  set (s3 := set_bm s1 bm2).
  assert (Hl2 : len_z bm2 = nbmlen * 8) by (unfold bm2; rewrite set_range_length; exact Hnbm).
  destruct (load_fsm_spec s3 ltac:(exact Hl2) ltac:(unfold nbits; simpl; lia)) as (F & S & M & L).
  (* bits of the intermediate bitmap *)
  assert (Hb2 : forall i, 0 <= i < nbits s -> getb bm2 i = if (nb <=? i) && (i <? nb + nl) then true else getb (bm s) i).
  { intros i Hi2. unfold bm2. rewrite getb_set_range by (rewrite ?Hnbm; unfold nbits in *; lia).
    destruct ((nb <=? i) && (i <? nb + nl)); [reflexivity|]. unfold nbm. apply getb_app_l. rewrite Hlen. exact Hi2. }
  (* the cache survives the reload as a tree entry *)
  assert (HLF : LF (load_fsm s3)).
  { apply L. simpl. destruct (Z.eq_dec (lfbkoff s0) 0) as [Hz|Hnz]; [left; exact Hz|right].
    assert (E1 : lfbkoff s0 = lfbkoff s) by (unfold s0, ensure_size; destruct (fsize s >=? nbmoff + nbmlen); reflexivity).
    assert (E2' : lfbklen s0 = lfbklen s) by (unfold s0, ensure_size; destruct (fsize s >=? nbmoff + nbmlen); reflexivity).
    rewrite E1, E2' in *. destruct (inv_ts s Hi) as [_ Hlf]. specialize (Hlf Hnz). apply (inv_runs s Hi) in Hlf.
    destruct Hlf as (R1 & R2 & R3 & R4 & _). rewrite Hlen in R3.
    exists (lfbkoff s + lfbklen s - 1). split; [lia|].
    rewrite wbit_in by (rewrite Hl2; unfold nbits in *; lia). rewrite Hb2 by lia.
    destruct ((nb <=? lfbkoff s + lfbklen s - 1) && (lfbkoff s + lfbklen s - 1 <? nb + nl)) eqn:Ein; [|apply R4; lia].
    apply andb_true_iff in Ein. destruct Ein as [A B]. apply Z.leb_le in A. apply Z.ltb_lt in B.
    specialize (R4 (lfbkoff s + lfbklen s - 1) ltac:(lia)).
    rewrite Hnew in R4 by lia. discriminate. }
  set (s4 := write_meta (load_fsm s3)).
  pose proof (frame_same_cfg _ _ F) as C3. destruct F as (B1 & B2 & B3 & _).
  assert (Hi4 : Inv s4).
  { constructor.
    - simpl. rewrite B1. unfold nbits. simpl. rewrite B3. exact Hl2.
    - unfold nbits. simpl. rewrite B3. simpl. lia.
    - split; [exact S|exact HLF].
    - intros o n. simpl. rewrite B1. apply M. }
  assert (Hcfg4 : vr s4 = vr s /\ bpow s4 = bpow s /\ aunit s4 = aunit s /\ hdrlen s4 = hdrlen s /\ strict s4 = strict s /\
                  bmoff s4 = nbmoff /\ bmlen s4 = nbmlen /\ bm s4 = bm2).
  { destruct C3 as (D1 & D2 & D3 & D4 & D5 & D6 & D7). destruct C0 as (G1 & G2 & G3 & G4 & G5 & G6 & G7).
    simpl in *. repeat split; congruence. }
  destruct Hcfg4 as (K1 & K2 & K3 & K4 & K5 & K6 & K7 & K8).
  assert (Hnb4 : nbits s4 = nbmlen * 8) by (unfold nbits; rewrite K7; reflexivity).
  cbv beta iota zeta. fold ob ol.
  change (write_meta (load_fsm (set_bm s1 (set_range nbm nb nl true)))) with s4.
  assert (Hlive : forall i, ob <= i < ob + ol -> getb (bm s4) i = true).
  { intros i Hi2. rewrite K8. rewrite Hb2 by lia. destruct ((nb <=? i) && (i <? nb + nl)); [reflexivity|apply Hold; exact Hi2]. }
  rewrite (blk_deallocate_nf s4 ob ol Hob0 Hol ltac:(rewrite Hnb4; unfold nbits in *; lia) (inv_len s4 Hi4) Hlive).
  destruct (dealloc_nf_inv s4 ob ol Hi4 ltac:(rewrite K1; exact Hfx) Hob0 Hol ltac:(rewrite Hnb4; unfold nbits in *; lia) Hlive) as (I5 & B5 & C5).
  right. split; [reflexivity|]. split; [exact I5|]. destruct C5 as (Q1 & Q2 & Q3 & Q4 & Q5 & Q6 & Q7).
  split; [congruence|]. split; [congruence|]. split; [congruence|]. split; [congruence|]. split; [congruence|].
  split; [congruence|]. split; [congruence|]. rewrite B5, K8. reflexivity.
Qed.

(* the allocator's own bitmap area is inside the bitmap and marked allocated *)
Definition BmArea (s : fsm) : Prop :=
  0 <= bmoff s /\ 0 <= bmlen s /\ 0 < shr (bmlen s) (bpow s) /\ shr (bmoff s) (bpow s) + shr (bmlen s) (bpow s) <= nbits s /\
  forall i, shr (bmoff s) (bpow s) <= i < shr (bmoff s) (bpow s) + shr (bmlen s) (bpow s) -> getb (bm s) i = true.

Lemma shr_shl : forall x n, 0 <= n -> shr (shl x n) n = x.
Proof. intros x n Hn. rewrite shr_div, shl_mul by lia. apply Z.div_mul. apply Z.pow_nonzero; lia. Qed.

Lemma shr_mono : forall a b n, 0 <= n -> a <= b -> shr a n <= shr b n.
Proof. intros a b n Hn H. rewrite !shr_div by lia. apply Z.div_le_mono; [apply Z.pow_pos_nonneg; lia|exact H]. Qed.

Lemma bmarea_after_alloc : forall s s' off olen, allocated_from s s' off olen -> BmArea s -> BmArea s'.
Proof.
  intros s s' off olen Ha (B1 & B2 & B3 & B4 & B5). pose proof Ha as (I & C & A1 & A2 & A3 & A4 & A5).
  destruct C as (_ & C2 & _ & C4 & C5 & _). unfold BmArea. rewrite C2, C4, C5. unfold nbits in *. rewrite C4.
  split; [exact B1|]. split; [exact B2|]. split; [exact B3|]. split; [exact B4|]. intros i Hi.
  assert (0 <= shr (bmoff s) (bpow s)).
  { unfold shr. apply Z.shiftr_nonneg. exact B1. }
  rewrite (alloc_flips_only_own s s' off olen i Ha) by (unfold nbits; lia).
  destruct ((off <=? i) && (i <? off + olen)); [reflexivity|apply B5; exact Hi].
Qed.

(* What a relocation of the bitmap does to everybody else: every block that was allocated and is not part of the OLD bitmap
   area is still allocated, and it is not part of the NEW bitmap area (the coverage only grows). *)
Definition in_area (s : fsm) (i : Z) : Prop :=
  shr (bmoff s) (bpow s) <= i < shr (bmoff s) (bpow s) + shr (bmlen s) (bpow s).
Definition Grown (s s' : fsm) : Prop := nbits s <= nbits s' /\ bpow s' = bpow s /\ hdrlen s' = hdrlen s /\
  forall i, 0 <= i < nbits s -> getb (bm s) i = true -> ~ in_area s i -> getb (bm s') i = true /\ ~ in_area s' i.
Lemma grown_refl : forall s, Grown s s.
Proof. intros s. split; [lia|]. split; [reflexivity|]. split; [reflexivity|]. intros i _ H1 H2. split; assumption. Qed.
Lemma grown_trans : forall a b c, Grown a b -> Grown b c -> Grown a c.
Proof.
  intros a b c (N1 & P1 & Q1 & H1) (N2 & P2 & Q2 & H2). split; [lia|]. split; [congruence|]. split; [congruence|]. intros i Hi Hb Ha.
  destruct (H1 i Hi Hb Ha) as [Hb' Ha']. apply H2; [lia|exact Hb'|exact Ha'].
Qed.

Lemma reloc_grown : forall s s1 s' nbmoff nbmlen, len_z (bm s1) = nbits s1 -> bm s' = reloc_result s1 nbmoff nbmlen ->
  bmoff s' = nbmoff -> bmlen s' = nbmlen -> bpow s' = bpow s -> hdrlen s' = hdrlen s -> same_cfg s s1 ->
  (forall i, 0 <= i < nbits s -> getb (bm s) i = true -> getb (bm s1) i = true) ->
  bmlen s <= nbmlen -> 0 <= bmoff s -> 0 <= shr nbmoff (bpow s) ->
  (forall i, shr nbmoff (bpow s) <= i < shr nbmoff (bpow s) + shr nbmlen (bpow s) -> 0 <= i < nbits s -> getb (bm s) i = false) ->
  Grown s s'.
Proof.
  intros s s1 s' nbmoff nbmlen Hl1 Hbm O1 O2 O4 O6 (V1 & V2 & V3 & V4 & V5 & V6 & V7) Hsup Hle Hbo Hnb Hfree.
  split; [unfold nbits; rewrite O2; lia|]. split; [exact O4|]. split; [exact O6|]. intros i Hi Hb Ha.
  assert (Hlen : len_z (bm s1 ++ repeat false (Z.to_nat (8 * (nbmlen - bmlen s)))) = nbmlen * 8).
  { rewrite len_z_app, len_z_repeat, Hl1. unfold nbits. rewrite V4. lia. }
  split.
  - rewrite Hbm. unfold reloc_result. rewrite V2, V4, V5.
    rewrite getb_set_range; [|unfold shr; apply Z.shiftr_nonneg; exact Hbo|rewrite set_range_length, Hlen; unfold nbits in Hi; lia].
    replace ((shr (bmoff s) (bpow s) <=? i) && (i <? shr (bmoff s) (bpow s) + shr (bmlen s) (bpow s))) with false
      by (symmetry; destruct (shr (bmoff s) (bpow s) <=? i) eqn:Q1; [|reflexivity];
          destruct (i <? shr (bmoff s) (bpow s) + shr (bmlen s) (bpow s)) eqn:Q2; [|reflexivity];
          apply Z.leb_le in Q1; apply Z.ltb_lt in Q2; exfalso; apply Ha; unfold in_area; lia).
    rewrite getb_set_range; [|exact Hnb|rewrite Hlen; unfold nbits in Hi; lia].
    destruct ((shr nbmoff (bpow s) <=? i) && (i <? shr nbmoff (bpow s) + shr nbmlen (bpow s))); [reflexivity|].
    rewrite getb_app_l by (rewrite Hl1; unfold nbits in *; rewrite V4; lia). apply Hsup; assumption.
  - unfold in_area. rewrite O1, O2, O4. intros Hc. rewrite (Hfree i Hc Hi) in Hb. discriminate.
Qed.

(* giving back an area that was just carved out of the free space (fixes/fsm-resize-leak.diff) *)
(* every block in use stays in use *)
Definition Keeps (s s' : fsm) : Prop := forall i, 0 <= i < nbits s -> getb (bm s) i = true -> getb (bm s') i = true.
Lemma keeps_refl : forall s, Keeps s s. Proof. intros s i _ H. exact H. Qed.
Lemma keeps_alloc : forall s s' off n, allocated_from s s' off n -> Keeps s s'.
Proof.
  intros s s' off n Ha i Hi Hb. rewrite (alloc_flips_only_own s s' off n i Ha Hi).
  destruct ((off <=? i) && (i <? off + n)); [reflexivity|exact Hb].
Qed.

Lemma carved_release : forall s s1 off n, Good s -> BmArea s -> allocated_from s s1 off n ->
  Inv (snd (blk_deallocate s1 off n)) /\ BmArea (snd (blk_deallocate s1 off n)) /\ same_cfg s (snd (blk_deallocate s1 off n)) /\
  Keeps s (snd (blk_deallocate s1 off n)).
Proof.
  intros s s1 off n Hg Hba Ha. pose proof Ha as (I1 & C1 & A1 & A2 & A3 & A4 & A5).
  assert (Hg1 : Good s1) by (apply (good_cfg s); assumption).
  pose proof C1 as (V1 & V2 & V3 & V4 & V5 & V6 & V7).
  assert (Hl1 : len_z (bm s) = nbits s) by (destruct Hg as (Hi & _); apply (inv_len s Hi)).
  assert (Hlive : live_range s1 off n).
  { split; [exact A1|]. split; [exact A2|]. split; [unfold nbits in *; rewrite V4; exact A3|].
    intros i Hi. rewrite A5. rewrite getb_set_range by lia.
    replace ((off <=? i) && (i <? off + n)) with true; [reflexivity|].
    symmetry. apply andb_true_iff. split; [apply Z.leb_le|apply Z.ltb_lt]; lia. }
  pose proof (blk_deallocate_good s1 off n Hg1 Hlive) as H.
  destruct (blk_deallocate s1 off n) as [rc s2]. destruct H as (_ & (I2 & _) & C2 & B2). simpl.
  assert (HK : Keeps s s2).
  { intros i Hi Hb. rewrite B2, A5.
    assert (Hout : ~ (off <= i < off + n)) by (intros Hc; rewrite A4 in Hb by exact Hc; discriminate).
    rewrite getb_set_range by (rewrite ?set_range_length, ?Hl1; lia).
    replace ((off <=? i) && (i <? off + n)) with false
      by (symmetry; destruct (off <=? i) eqn:Q1; [|reflexivity]; destruct (i <? off + n) eqn:Q2; [|reflexivity];
          apply Z.leb_le in Q1; apply Z.ltb_lt in Q2; exfalso; apply Hout; lia).
    rewrite getb_set_range by (rewrite ?Hl1; lia).
    replace ((off <=? i) && (i <? off + n)) with false
      by (symmetry; destruct (off <=? i) eqn:Q1; [|reflexivity]; destruct (i <? off + n) eqn:Q2; [|reflexivity];
          apply Z.leb_le in Q1; apply Z.ltb_lt in Q2; exfalso; apply Hout; lia).
    exact Hb. }
  split; [exact I2|]. split; [|split; [eapply same_cfg_trans; eassumption|exact HK]].
  destruct Hba as (B1 & B3 & B4 & B5 & B6). destruct C2 as (W1 & W2 & W3 & W4 & W5 & W6 & W7).
  unfold BmArea, nbits in *. rewrite W2, W4, W5, V2, V4, V5.
  split; [exact B1|]. split; [exact B3|]. split; [exact B4|]. split; [exact B5|].
  intros i Hi. rewrite B2, A5.
  assert (H0 : 0 <= shr (bmoff s) (bpow s)) by (unfold shr; apply Z.shiftr_nonneg; exact B1).
  assert (Hout : ~ (off <= i < off + n)).
  { intros Hc. specialize (B6 i Hi). rewrite A4 in B6 by exact Hc. discriminate. }
  rewrite getb_set_range by (rewrite ?set_range_length; lia).
  replace ((off <=? i) && (i <? off + n)) with false
    by (symmetry; destruct (off <=? i) eqn:Q1; [|reflexivity]; destruct (i <? off + n) eqn:Q2; [|reflexivity];
        apply Z.leb_le in Q1; apply Z.ltb_lt in Q2; exfalso; apply Hout; lia).
  rewrite getb_set_range by lia.
  replace ((off <=? i) && (i <? off + n)) with false
    by (symmetry; destruct (off <=? i) eqn:Q1; [|reflexivity]; destruct (i <? off + n) eqn:Q2; [|reflexivity];
        apply Z.leb_le in Q1; apply Z.ltb_lt in Q2; exfalso; apply Hout; lia).
  apply B6. exact Hi.
Qed.

Definition resize_outcome (s : fsm) (size : Z) (r : Z * fsm) : Prop :=
  let '(rc, s') := r in
  (rc = 0 /\ s' = s) \/ (rc <> 0 /\ Inv s' /\ BmArea s' /\ same_cfg s s' /\ Keeps s s') \/
  (rc = 0 /\ Inv s' /\ BmArea s' /\ Grown s s' /\ bmlen s' = IW_ROUNDUP size (aunit s) /\ bmlen s < bmlen s' /\ vr s' = vr s /\ bpow s' = bpow s /\ aunit s' = aunit s /\
   hdrlen s' = hdrlen s /\ strict s' = strict s).

(* _fsm_resize_fsm_bitmap_lw: the new bitmap is carved out of the free space it describes (or put behind the old coverage),
   the tree is reloaded and the old area released: the invariant holds again *)
Theorem resize_keeps_inv : forall s size, Inv s -> WF s -> fx_lfbk (vr s) = true -> BmArea s ->
  0 <= size < 2 ^ 62 -> IW_ROUNDUP size (aunit s) * 8 <= FSM_BKEY_MAX ->
  resize_outcome s size (resize_fsm_bitmap s size).
Proof.
  intros s size Hi Hwf Hfx Hba Hsz Hmax. pose proof Hba as (B1 & B2 & B3 & B4 & B5).
  pose proof (wf_bpow_lt s Hwf) as Hb. unfold resize_fsm_bitmap.
  destruct (bmlen s >=? size) eqn:E1; [left; split; reflexivity|]. rewrite Z.geb_leb in E1. apply Z.leb_gt in E1.
  destruct Hwf as [Hbp (j & Hj & Hjr)].
  assert (Hp31 : 2 ^ j < 2 ^ 32) by (apply Z.pow_lt_mono_r; lia).
  assert (Hpj : 0 < 2 ^ j) by (apply Z.pow_pos_nonneg; lia).
  destruct (roundup_pow2_props size j ltac:(lia) ltac:(lia) ltac:(change (2 ^ 64) with (2 ^ 62 * 4); change (2 ^ 32) with 4294967296 in Hp31; lia)) as [Hr Hm].
  rewrite Hj in *. set (nbmlen := IW_ROUNDUP size (2 ^ j)) in *.
  assert (Hbl0 : bmlen s <> 0).
  { intros He. rewrite He in B3. unfold shr in B3. rewrite Z.shiftr_0_l in B3. lia. }
  assert (Hq : 2 ^ j = 2 ^ (j - bpow s) * 2 ^ bpow s) by (rewrite <- Z.pow_add_r by lia; f_equal; lia).
  assert (Hpb : 0 < 2 ^ bpow s) by (apply Z.pow_pos_nonneg; lia).
  assert (Hnlb : 0 < shr nbmlen (bpow s)).
  { rewrite shr_div by lia. apply Z.div_str_pos. split; [lia|].
    apply Z.mod_divide in Hm; [|lia]. destruct Hm as [q Hq2]. assert (0 < q) by nia.
    assert (0 < 2 ^ (j - bpow s)) by (apply Z.pow_pos_nonneg; lia). nia. }
  assert (Hwf' : WF s) by (constructor; [exact Hbp|exists j; split; [exact Hj|exact Hjr]]).
  pose proof (blk_allocate_aligned_spec s (shr nbmlen (bpow s)) U64MAX Hi Hwf' Hnlb) as Hal.
  destruct (blk_allocate_aligned s (shr nbmlen (bpow s)) U64MAX) as [[[rc s1] off] sp].
  destruct Hal as [[-> ->]|(-> & -> & Ha & _ & _)].
  - (* nothing free: behind the area the old bitmap covers *)
    replace (IWFS_ERROR_NO_FREE_SPACE =? 0) with false by reflexivity. rewrite Z.eqb_refl.
    rewrite pow2_shl by lia.
    set (X := bmlen s * 2 ^ bpow s * 8).
    assert (HX : 0 <= X) by (unfold X; nia).
    pose proof (inv_u32 s Hi) as Hu32. unfold nbits in Hu32.
    assert (HXb : X + 2 ^ j < 2 ^ 64).
    { unfold X. assert (2 ^ bpow s <= 2 ^ 31) by (apply Z.pow_le_mono_r; lia).
      change FSM_BKEY_MAX with (2 ^ 32 - 1) in Hu32. change (2 ^ 64) with (2 ^ 32 * 2 ^ 32).
      change (2 ^ 32) with 4294967296 in *. change (2 ^ 31) with 2147483648 in *. nia. }
    destruct (roundup_pow2_props X j ltac:(lia) HX HXb) as [HrX _].
    set (nbmoff := IW_ROUNDUP X (2 ^ j)) in *.
    assert (Hnbge : nbits s <= shr nbmoff (bpow s)).
    { apply Z.le_trans with (shr X (bpow s)); [|apply shr_mono; lia].
      rewrite shr_div by lia. unfold X, nbits. replace (bmlen s * 2 ^ bpow s * 8) with (bmlen s * 8 * 2 ^ bpow s) by ring.
      rewrite Z.div_mul by lia. lia. }
    pose proof (init_lw_reloc s nbmoff nbmlen Hi Hfx Hbp Hbl0 ltac:(lia) B1 B2 B3 B4 B5
                  ltac:(intros i Hi1 Hi2; lia) Hmax) as Ho.
    destruct (init_lw s nbmoff nbmlen) as [rc s'] eqn:Ei. unfold init_outcome in Ho.
    replace (fx_leak (vr s) && negb (rc =? 0) && false) with false by (rewrite andb_false_r; reflexivity). cbv iota.
    destruct Ho as [(Hrc & [->| ->])|(-> & I' & O1 & O2 & O3 & O4 & O5 & O6 & O7 & O8)].
    + right; left. split; [exact Hrc|]. split; [exact Hi|]. split; [exact Hba|split; [apply same_cfg_refl|apply keeps_refl]].
    + right; left. split; [exact Hrc|]. destruct (ensure_fields s (nbmoff + nbmlen)) as [E C].
      split; [apply Inv_ensure_size; exact Hi|]. split; [|split; [exact C|intros i _ Hb1; rewrite E; exact Hb1]].
      destruct C as (_ & C2 & _ & C4 & C5 & _). unfold BmArea, nbits. rewrite E, C2, C4, C5. exact Hba.
    + right; right. split; [reflexivity|]. split; [exact I'|].
      assert (HG : Grown s s').
      { apply (reloc_grown s s s' nbmoff nbmlen (inv_len s Hi) O8 O1 O2 O4 O6 (same_cfg_refl s));
          [intros i _ Hb1; exact Hb1|lia|lia|unfold nbits in *; lia|intros i Hi1 Hi2; unfold nbits in *; lia]. }
      split; [|split; [exact HG|split; [rewrite Hj; exact O2|rewrite O2; repeat split; try assumption; lia]]].
      (* the new area is marked and inside *)
      unfold BmArea. rewrite O1, O2, O4, O8. unfold nbits. rewrite O2.
      assert (Hin : shr nbmoff (bpow s) + shr nbmlen (bpow s) <= nbmlen * 8).
      { pose proof (inv_len s' I') as Hl. rewrite O8 in Hl. unfold reloc_result in Hl. rewrite !set_range_length, len_z_app, len_z_repeat in Hl.
        unfold nbits in Hl. rewrite O2 in Hl.
        (* from the check inside init_lw: re-derive through the length of the result is not enough, use the bound on blocks *)
        pose proof (shr_add_le nbmoff nbmlen (bpow s) Hbp ltac:(lia) ltac:(lia)) as Hs.
        (* init_lw succeeded, hence nbmlen*8 >= shr (nbmoff+nbmlen) + 1 *)
        unfold init_lw in Ei.
        destruct (negb (nbmlen mod pow2 (bpow s) =? 0) || negb (nbmoff mod pow2 (bpow s) =? 0) || negb (nbmoff mod aunit s =? 0)); [discriminate|].
        destruct (nbmlen <? bmlen s); [discriminate|].
        destruct (nbmlen * 8 <? shr (nbmoff + nbmlen) (bpow s) + 1) eqn:E3; [discriminate|]. apply Z.ltb_ge in E3. lia. }
      split; [lia|]. split; [lia|]. split; [exact Hnlb|]. split; [exact Hin|].
      intros i Hi1. unfold reloc_result.
      rewrite getb_set_range; [| unfold shr; apply Z.shiftr_nonneg; exact B1 |
        rewrite set_range_length, len_z_app, len_z_repeat, (inv_len s Hi); unfold nbits in *; lia].
      replace ((shr (bmoff s) (bpow s) <=? i) && (i <? shr (bmoff s) (bpow s) + shr (bmlen s) (bpow s))) with false
        by (symmetry; apply andb_false_iff; right; apply Z.ltb_ge; unfold nbits in *; lia).
      rewrite getb_set_range; [| unfold nbits in *; lia | rewrite len_z_app, len_z_repeat, (inv_len s Hi); unfold nbits in *; lia].
      replace ((shr nbmoff (bpow s) <=? i) && (i <? shr nbmoff (bpow s) + shr nbmlen (bpow s))) with true
        by (symmetry; apply andb_true_iff; split; [apply Z.leb_le|apply Z.ltb_lt]; lia).
      reflexivity.
  - (* carved out of the free space *)
    replace (0 =? 0) with true by reflexivity.
    pose proof Ha as (I1 & C1 & A1 & A2 & A3 & A4 & A5).
    pose proof (bmarea_after_alloc s s1 off (shr nbmlen (bpow s)) Ha Hba) as Hba1.
    pose proof C1 as (V1 & V2 & V3 & V4 & V5 & V6 & V7).
    assert (Hshr : shr (shl off (bpow s)) (bpow s1) = off) by (rewrite V2; apply shr_shl; lia).
    pose proof Hba1 as (D1 & D2 & D3 & D4 & D5).
    assert (Hsp : shl (shr nbmlen (bpow s)) (bpow s) = nbmlen).
    { rewrite shl_mul, shr_div by lia. apply Z.mod_divide in Hm; [|lia]. destruct Hm as [q Hq2].
      rewrite Hq2. rewrite Hq. replace (q * (2 ^ (j - bpow s) * 2 ^ bpow s)) with (q * 2 ^ (j - bpow s) * 2 ^ bpow s) by ring.
      rewrite Z.div_mul by lia. reflexivity. }
    rewrite Hsp.
    assert (Hnew : forall i, shr (shl off (bpow s)) (bpow s1) <= i < shr (shl off (bpow s)) (bpow s1) + shr nbmlen (bpow s1) ->
                   i < nbits s1 -> getb (bm s1) i = true).
    { intros i Hi1 _. rewrite Hshr, V2 in Hi1. rewrite (alloc_flips_only_own s s1 off _ i Ha) by (unfold nbits in *; lia).
      replace ((off <=? i) && (i <? off + shr nbmlen (bpow s))) with true; [reflexivity|].
      symmetry. apply andb_true_iff. split; [apply Z.leb_le|apply Z.ltb_lt]; lia. }
    pose proof (init_lw_reloc s1 (shl off (bpow s)) nbmlen I1 ltac:(rewrite V1; exact Hfx) ltac:(rewrite V2; exact Hbp)
                  ltac:(rewrite V4; exact Hbl0) ltac:(rewrite shl_mul by lia; nia) D1 D2 D3 D4 D5 Hnew Hmax) as Ho.
    destruct (init_lw s1 (shl off (bpow s)) nbmlen) as [rc s'] eqn:Ei. unfold init_outcome in Ho.
    assert (HgS : Good s) by (split; [exact Hi|split; [exact Hwf'|exact Hfx]]).
    destruct Ho as [(Hrc & [->| ->])|(-> & I' & O1 & O2 & O3 & O4 & O5 & O6 & O7 & O8)].
    + destruct (fx_leak (vr s) && negb (rc =? 0) && true).
      * right; left. split; [exact Hrc|]. apply (carved_release s s1 off _ HgS Hba Ha).
      * right; left. split; [exact Hrc|]. split; [exact I1|]. split; [exact Hba1|split; [exact C1|apply (keeps_alloc s s1 off _ Ha)]].
    + destruct (fx_leak (vr s) && negb (rc =? 0) && true).
      * right; left. split; [exact Hrc|]. apply (carved_release s _ off _ HgS Hba). apply allocated_from_ensure. exact Ha.
      * right; left. split; [exact Hrc|]. destruct (ensure_fields s1 (shl off (bpow s) + nbmlen)) as [E C].
        split; [apply Inv_ensure_size; exact I1|].
        split; [|split; [eapply same_cfg_trans; eassumption|intros i Hi1 Hb1; rewrite E; apply (keeps_alloc s s1 off _ Ha i Hi1 Hb1)]].
        destruct C as (_ & C2 & _ & C4 & C5 & _). unfold BmArea, nbits. rewrite E, C2, C4, C5. exact Hba1.
    + replace (fx_leak (vr s) && negb (0 =? 0) && true) with false by (simpl; rewrite andb_false_r; reflexivity). cbv iota.
      right; right. split; [reflexivity|]. split; [exact I'|].
      assert (HG : Grown s s').
      { apply (reloc_grown s s1 s' (shl off (bpow s)) nbmlen (inv_len s1 I1) O8 O1 O2 ltac:(congruence) ltac:(congruence) C1).
        - intros i Hi1 Hb1. rewrite (alloc_flips_only_own s s1 off _ i Ha Hi1).
          destruct ((off <=? i) && (i <? off + shr nbmlen (bpow s))); [reflexivity|exact Hb1].
        - lia.
        - exact B1.
        - rewrite shr_shl by lia. lia.
        - intros i Hi1 _. rewrite shr_shl in Hi1 by lia. apply A4. exact Hi1. }
      split; [|split; [exact HG|split; [rewrite Hj; exact O2|rewrite O2; repeat split; try congruence; lia]]].
      unfold BmArea. rewrite O1, O2, O4, O8. unfold nbits. rewrite O2. rewrite V2 in *. rewrite Hshr.
      assert (Hin : off + shr nbmlen (bpow s) <= nbmlen * 8).
      { unfold nbits in A3. lia. }
      split; [rewrite shl_mul by lia; nia|]. split; [lia|]. split; [exact Hnlb|]. split; [exact Hin|].
      intros i Hi1. unfold reloc_result. rewrite V2, V4, V5.
      (* the old area and the freshly allocated one are disjoint: one was allocated, the other free, in s *)
      assert (Hdis : ~ (shr (bmoff s) (bpow s) <= i < shr (bmoff s) (bpow s) + shr (bmlen s) (bpow s))).
      { intros Hc. assert (getb (bm s) i = true) by (apply B5; exact Hc). rewrite A4 in H by lia. discriminate. }
      assert (Hl1 : len_z (bm s1) = bmlen s * 8) by (rewrite (inv_len s1 I1); unfold nbits; rewrite V4; reflexivity).
      rewrite getb_set_range; [| unfold shr; apply Z.shiftr_nonneg; exact B1 |
        rewrite set_range_length, len_z_app, len_z_repeat, Hl1; lia].
      replace ((shr (bmoff s) (bpow s) <=? i) && (i <? shr (bmoff s) (bpow s) + shr (bmlen s) (bpow s))) with false
        by (symmetry; destruct (shr (bmoff s) (bpow s) <=? i) eqn:Q1; [|reflexivity];
            destruct (i <? shr (bmoff s) (bpow s) + shr (bmlen s) (bpow s)) eqn:Q2; [|reflexivity];
            apply Z.leb_le in Q1; apply Z.ltb_lt in Q2; exfalso; apply Hdis; lia).
      rewrite Hshr.
      rewrite getb_set_range; [| lia | rewrite len_z_app, len_z_repeat, Hl1; lia].
      replace ((off <=? i) && (i <? off + shr nbmlen (bpow s))) with true
        by (symmetry; apply andb_true_iff; split; [apply Z.leb_le|apply Z.ltb_lt]; lia).
      reflexivity.
Qed.

(* ---------------------------------------------------------------- the full scan of _fsm_blk_allocate_aligned_lw
   What the page-aligned allocator returns, first attempt and full scan alike: the page-aligned start OF A FREE RUN OF THE
   INDEX THAT HOLDS THE REQUEST from that start on (for the scan: the one with the lowest offset); and it gives up only
   when no run of the index holds the request. *)
Lemma lookup_bounds_ub : forall k t lb0 lb ub, lookup_bounds k t lb0 = (lb, ub) ->
  (ub = None -> forall x, In x t -> klt x k) /\ (forall u, ub = Some u -> u = k \/ klt k u).
Proof.
  induction t as [|y r IH]; intros lb0 lb ub H; simpl in H.
  - injection H as <- <-. split; [intros _ x []|intros u Hu; discriminate Hu].
  - destruct (cmp_key k y <? 0) eqn:E1.
    + injection H as <- <-. split; [intros Hn; discriminate Hn|]. intros u Hu. injection Hu as <-.
      right. apply cmp_key_lt. exact E1.
    + destruct (cmp_key k y =? 0) eqn:E2.
      * injection H as <- <-. split; [intros Hn; discriminate Hn|]. intros u Hu. injection Hu as <-.
        left. symmetry. apply cmp_key_eq. exact E2.
      * apply IH in H. destruct H as [Hn Hs]. split; [|exact Hs].
        intros Hu x [<-|Hx]; [apply cmp_key_gt; assumption|apply Hn; assumption].
Qed.

Lemma find_matching_none : forall s off len, 0 < len -> bkey_ok off len = true -> find_matching s off len = None ->
  forall x, In x (tree s) -> klt x (len, off).
Proof.
  intros s off len Hlen Hok. unfold find_matching, fm_lookup.
  assert (Hh : hint_of s off = off).
  { unfold hint_of. unfold bkey_ok in Hok. apply andb_true_iff in Hok. destruct Hok as [Ho _]. apply Z.leb_le in Ho.
    replace (off >? FSM_BKEY_MAX) with false by (symmetry; rewrite Z.gtb_ltb; apply Z.ltb_ge; exact Ho).
    rewrite andb_false_r. reflexivity. }
  rewrite Hh, Hok. simpl negb. cbv iota.
  destruct (lookup_bounds (len, off) (tree s) None) as [lb ub] eqn:E.
  apply lookup_bounds_ub in E. destruct E as [Hn Hs].
  destruct ub as [u|]; [|intros _; apply Hn; reflexivity].
  assert (Hu : len <= fst u).
  { destruct u as [ul uo]. destruct (Hs _ eq_refl) as [H|H]; [injection H as -> ->; simpl; lia|]. unfold klt in H. simpl in H |- *. lia. }
  destruct lb as [l|]; simpl;
    repeat match goal with |- context [if ?c then _ else _] => let E := fresh "E" in destruct c eqn:E end;
    intros H; try discriminate H;
    rewrite ?Z.eqb_neq, ?Z.gtb_ltb, ?Z.ltb_ge in *. all: try lia.
  all: destruct len; try lia; discriminate.
Qed.

Lemma al_scan_min : forall L mx ab t acc,
  let r := fold_left (al_scan_step L mx ab) t acc in
  fst r <= fst acc /\
  (forall klen koff, In (klen, koff) t -> al_fits koff klen (IW_ROUNDUP koff ab) L mx = true -> fst r <= koff).
Proof.
  intros L mx ab t. induction t as [|[klen koff] t IH]; intros acc; simpl.
  - split; [lia|intros ? ? []].
  - specialize (IH (al_scan_step L mx ab acc (klen, koff))). cbv zeta in IH. destruct IH as [I1 I2].
    assert (S1 : fst (al_scan_step L mx ab acc (klen, koff)) <= fst acc /\
                 (al_fits koff klen (IW_ROUNDUP koff ab) L mx = true -> fst (al_scan_step L mx ab acc (klen, koff)) <= koff)).
    { unfold al_scan_step. destruct acc as [akoff aklen]. simpl.
      destruct (koff <? akoff) eqn:E1.
      - apply Z.ltb_lt in E1. destruct (al_fits koff klen (IW_ROUNDUP koff ab) L mx); simpl; split; try lia; intros H; discriminate H.
      - apply Z.ltb_ge in E1. simpl. split; lia. }
    destruct S1 as [S1 S2]. split; [lia|].
    intros kl ko [Hx|Hx] Hf; [injection Hx as <- <-; specialize (S2 Hf); lia|apply (I2 kl ko Hx Hf)].
Qed.

Theorem blk_allocate_aligned_choice : forall s L mx, Inv s -> WF s -> 0 < L ->
  let ab := shr (aunit s) (bpow s) in
  let '(rc, s', off, olen) := blk_allocate_aligned s L mx in
  (rc = IWFS_ERROR_NO_FREE_SPACE ->
     forall klen koff, In (klen, koff) (tree s) -> al_fits koff klen (IW_ROUNDUP koff ab) L mx = false) /\
  (rc = 0 -> exists aklen akoff, In (aklen, akoff) (tree s) /\
     al_fits akoff aklen (IW_ROUNDUP akoff ab) L mx = true /\ off = IW_ROUNDUP akoff ab).
Proof.
  intros s L mx Hi Hwf Hlen. cbv zeta. unfold blk_allocate_aligned.
  destruct (aunit_blk_pow2 s Hwf) as (k & Hab & Hk). rewrite Hab.
  assert (Hp : 0 < 2 ^ k) by (apply Z.pow_pos_nonneg; lia).
  assert (Hp32 : 2 ^ k < 2 ^ 32) by (apply Z.pow_lt_mono_r; lia).
  assert (HB : FSM_BKEY_MAX = 2 ^ 32 - 1) by reflexivity.
  pose proof (inv_u32 s Hi) as Hu32.
  (* a run of the index: offsets below 2^32, aligned start not before the run *)
  assert (Hrun : forall klen koff, In (klen, koff) (tree s) ->
            0 <= koff /\ 0 < klen /\ koff + klen <= nbits s /\ koff <= IW_ROUNDUP koff (2 ^ k)).
  { intros klen koff Hin. apply (inv_runs s Hi) in Hin. destruct Hin as (R1 & R2 & R3 & _). rewrite (inv_len s Hi) in R3.
    destruct (roundup_pow2_props koff k ltac:(lia) R1 ltac:(change (2 ^ 64) with (2 ^ 32 * 2 ^ 32); nia)) as [Hr _]. lia. }
  set (nn := match find_matching s 0 (L + 2 ^ k) with Some k0 => Some k0 | None => find_matching s 0 L end).
  assert (Hnn : forall x, nn = Some x -> In x (tree s)).
  { intros x Hx. unfold nn in Hx. destruct (find_matching s 0 (L + 2 ^ k)) eqn:E1.
    - injection Hx as <-. apply (find_matching_spec _ _ _ _ E1).
    - apply (find_matching_spec _ _ _ _ Hx). }
  assert (Hnone : nn = None -> forall klen koff, In (klen, koff) (tree s) -> klen < L).
  { intros Hx klen koff Hin. unfold nn in Hx. destruct (find_matching s 0 (L + 2 ^ k)); [discriminate Hx|].
    destruct (Hrun _ _ Hin) as (R1 & R2 & R3 & _).
    destruct (bkey_ok 0 L) eqn:Eok.
    - destruct (find_matching_none s 0 L Hlen Eok Hx _ Hin) as [H|[_ H]]; simpl in H; lia.
    - unfold bkey_ok in Eok. apply andb_false_iff in Eok. destruct Eok as [Eok|Eok]; apply Z.leb_gt in Eok; lia. }
  destruct nn as [[aklen akoff]|].
  2:{ split; [|intros H; discriminate H]. intros _ klen koff Hin. specialize (Hnone eq_refl _ _ Hin).
      destruct (Hrun _ _ Hin) as (_ & _ & _ & R4). unfold al_fits.
      apply andb_false_iff. right. rewrite Z.geb_leb. apply Z.leb_gt. lia. }
  specialize (Hnn _ eq_refl). clear Hnone.
  destruct (al_fits akoff aklen (IW_ROUNDUP akoff (2 ^ k)) L mx) eqn:Efit.
  - pose proof (al_take_spec s akoff aklen L k mx Hi Hk Hlen Hnn Efit) as H.
    assert (Hoff : let '(_, _, off, _) := al_take s akoff aklen L (2 ^ k) in off = IW_ROUNDUP akoff (2 ^ k)).
    { unfold al_take. destruct (set_bit_status _ _ _ _ _ _). reflexivity. }
    destruct (al_take s akoff aklen L (2 ^ k)) as [[[rc s'] off] olen]. destruct H as (-> & _).
    split; [intros H; discriminate H|]. intros _. exists aklen, akoff. split; [exact Hnn|]. split; [exact Efit|exact Hoff].
  - pose proof (al_scan_inv s L mx (2 ^ k) (tree s) (U64MAX, 0) (fun x H => H) (or_introl eq_refl)) as Hscan.
    pose proof (al_scan_min L mx (2 ^ k) (tree s) (U64MAX, 0)) as Hmin.
    cbv zeta in Hscan, Hmin.
    destruct (fold_left (al_scan_step L mx (2 ^ k)) (tree s) (U64MAX, 0)) as [akoff2 aklen2]. simpl in Hmin.
    destruct (akoff2 =? U64MAX) eqn:Eu.
    + apply Z.eqb_eq in Eu. split; [|intros H; discriminate H]. intros _ klen koff Hin.
      destruct (al_fits koff klen (IW_ROUNDUP koff (2 ^ k)) L mx) eqn:Ef; [|reflexivity].
      destruct Hmin as [_ Hmin]. specialize (Hmin _ _ Hin Ef). destruct (Hrun _ _ Hin) as (R1 & R2 & R3 & _).
      exfalso. rewrite Eu in Hmin. unfold U64MAX in Hmin. change (2 ^ 64) with (2 ^ 32 * 2 ^ 32) in Hmin. nia.
    + apply Z.eqb_neq in Eu. destruct Hscan as [Hs|[Hs1 Hs2]]; [injection Hs as Hs _; congruence|].
      simpl in Hs1, Hs2.
      pose proof (al_take_spec s akoff2 aklen2 L k mx Hi Hk Hlen Hs1 Hs2) as H.
      assert (Hoff : let '(_, _, off, _) := al_take s akoff2 aklen2 L (2 ^ k) in off = IW_ROUNDUP akoff2 (2 ^ k)).
      { unfold al_take. destruct (set_bit_status _ _ _ _ _ _). reflexivity. }
      destruct (al_take s akoff2 aklen2 L (2 ^ k)) as [[[rc s'] off] olen]. destruct H as (-> & _).
      split; [intros H; discriminate H|]. intros _. exists aklen2, akoff2. split; [exact Hs1|]. split; [exact Hs2|exact Hoff].
Qed.

(* the statement is about something: a reachable state in which the first attempt is abandoned and the scan visits a
   longer, lower, rejected run after the one it keeps.  Free runs (blocks): B = [194,258) best fit, misaligned;
   C = [512,582) aligned; D = [321,421) longer than C, lower offset, does not hold 64 blocks from block 384 on.
   One page (64 blocks) goes to block 512. *)
Definition scan_witness_ops : list op :=
  [OAlloc 3968 128 11 false; OAlloc 2088960 8192 11 false; OFree 12416 4096; OFree 20544 6400; OFree 32768 4480].
Definition scan_witness_state : fsm := run (reopen (fresh v_fixed false) false false) scan_witness_ops.
Lemma scan_witness : Good scan_witness_state /\ tree scan_witness_state = [(64, 194); (70, 512); (100, 321)] /\
  (let '(rc, _, off, olen) := blk_allocate_aligned scan_witness_state 64 U64MAX in (rc, off, olen)) = (0, 512, 64).
Proof.
  split; [|split; vm_compute; reflexivity].
  apply run_good; [exact fresh_reopened_good|apply hs_iff; apply hs_reopen|]. apply ok_runb_sound. vm_compute. reflexivity.
Qed.

(* ---------------------------------------------------------------- IWFSM_SOLID_ALLOCATED_SPACE
   Block size and allocation unit are never changed by any path of the allocator (no invariant needed), and the
   epilogue of _fsm_blk_allocate_lw brings the file to offset + RETURNED length: whatever the allocation went through
   (over-allocation, full scan of the page-aligned path, any number of bitmap relocations), a region handed out as
   solid space lies inside the file. *)
Definition geo (s s' : fsm) : Prop := bpow s' = bpow s /\ aunit s' = aunit s.
Lemma geo_refl : forall s, geo s s.
Proof. intros s. split; reflexivity. Qed.
Lemma geo_trans : forall a b c, geo a b -> geo b c -> geo a c.
Proof. unfold geo. intros a b c [H1 H2] [H3 H4]. split; congruence. Qed.

Lemma geo_put_fbk : forall s o n, geo s (put_fbk s o n).
Proof.
  intros s o n. unfold put_fbk. destruct (negb (bkey_ok o n)); [apply geo_refl|].
  destruct (tree_insert (n, o) (tree s)) as [t' ins]. destruct ins; simpl negb; cbv iota; [|apply geo_refl].
  destruct (o + n >=? lfbkoff s + lfbklen s); split; reflexivity.
Qed.
Lemma geo_del_fbk2 : forall s k, geo s (del_fbk2 s k).
Proof.
  intros s k. unfold del_fbk2. destruct (tree_remove k (tree s)) as [t' f].
  destruct (snd k =? lfbkoff s); split; reflexivity.
Qed.
Lemma geo_del_fbk : forall s o n, geo s (del_fbk s o n).
Proof.
  intros s o n. unfold del_fbk. destruct (negb (bkey_ok o n)); [apply geo_refl|].
  destruct (tree_remove (n, o) (tree s)) as [t' f]. destruct f; [apply geo_del_fbk2|apply geo_refl].
Qed.
Lemma geo_set_bit_status : forall s off len v dry chk, geo s (snd (set_bit_status s off len v dry chk)).
Proof.
  intros s off len v dry chk. unfold set_bit_status. destruct (nbits s <? off + len); [apply geo_refl|].
  destruct dry; split; reflexivity.
Qed.
Lemma geo_ensure_size : forall s z, geo s (ensure_size s z).
Proof. intros s z. unfold ensure_size. destruct (fsize s >=? z); split; reflexivity. Qed.
Lemma geo_stats : forall s n, geo s (stats_update s n).
Proof. intros s n. unfold stats_update. destruct (crznum s >? FSM_MAX_STATS_COUNT); split; reflexivity. Qed.

Lemma geo_fold_put : forall R a, geo a (fold_left (fun a r => put_fbk a (fst r) (snd r)) R a).
Proof.
  induction R as [|r R IH]; intros a; simpl; [apply geo_refl|].
  eapply geo_trans; [apply geo_put_fbk|apply IH].
Qed.
Lemma geo_load_fsm : forall s, geo s (load_fsm s).
Proof. intros s. unfold load_fsm. eapply geo_trans; [|apply geo_fold_put]. split; reflexivity. Qed.

Lemma geo_blk_deallocate : forall s a m, geo s (snd (blk_deallocate s a m)).
Proof.
  intros s a m. unfold blk_deallocate.
  destruct (negb ((if fx_strict (vr s) && strict s then fst (set_bit_status s a m false true true) else 0) =? 0));
    [apply geo_refl|].
  pose proof (geo_set_bit_status s a m false false (strict s)) as H1.
  destruct (set_bit_status s a m false false (strict s)) as [rc s1]. simpl in H1.
  destruct (negb (rc =? 0)); [exact H1|].
  set (L := match find_prev_set_bit (bm s1) a 0 with
            | Some l => if a >? l + 1 then (del_fbk s1 (l + 1) (a - (l + 1)), l + 1, m + (a - (l + 1))) else (s1, a, m)
            | None => if a >? 0 then (del_fbk s1 0 a, 0, m + a) else (s1, a, m) end).
  assert (HL : geo s1 (fst (fst L))).
  { unfold L. destruct (find_prev_set_bit (bm s1) a 0) as [l|].
    - destruct (a >? l + 1); simpl; [apply geo_del_fbk|apply geo_refl].
    - destruct (a >? 0); simpl; [apply geo_del_fbk|apply geo_refl]. }
  destruct L as [[s2 koff] klen]. simpl in HL.
  set (R := match dealloc_right s1 (lfbkoff s) (a + m) with
            | Some r => if r >? a + m then (del_fbk s2 (a + m) (r - (a + m)), klen + (r - (a + m))) else (s2, klen)
            | None => (s2, klen) end).
  assert (HR : geo s2 (fst R)).
  { unfold R. destruct (dealloc_right s1 (lfbkoff s) (a + m)) as [r|]; [|apply geo_refl].
    destruct (r >? a + m); simpl; [apply geo_del_fbk|apply geo_refl]. }
  destruct R as [s3 klen']. simpl in HR. simpl.
  eapply geo_trans; [exact H1|]. eapply geo_trans; [exact HL|]. eapply geo_trans; [exact HR|]. apply geo_put_fbk.
Qed.

Lemma geo_al_take : forall s akoff aklen length_blk aunit_blk,
  geo s (state_of (al_take s akoff aklen length_blk aunit_blk)).
Proof.
  intros s akoff aklen length_blk au. unfold al_take.
  set (noff := IW_ROUNDUP akoff au).
  set (s1 := del_fbk s akoff aklen).
  set (s2 := if noff >? akoff then put_fbk s1 akoff (noff - akoff) else s1).
  set (s3 := if aklen - (noff - akoff) >? length_blk
             then put_fbk s2 (noff + length_blk) (aklen - (noff - akoff) - length_blk) else s2).
  assert (H1 : geo s s1) by apply geo_del_fbk.
  assert (H2 : geo s1 s2) by (unfold s2; destruct (noff >? akoff); [apply geo_put_fbk|apply geo_refl]).
  assert (H3 : geo s2 s3) by (unfold s3; destruct (aklen - (noff - akoff) >? length_blk); [apply geo_put_fbk|apply geo_refl]).
  pose proof (geo_set_bit_status s3 noff length_blk true false (strict s)) as H4.
  destruct (set_bit_status s3 noff length_blk true false (strict s)) as [rc s4]. simpl in H4. simpl.
  eapply geo_trans; [exact H1|]. eapply geo_trans; [exact H2|]. eapply geo_trans; [exact H3|exact H4].
Qed.

Lemma geo_blk_allocate_aligned : forall s length_blk mx, geo s (state_of (blk_allocate_aligned s length_blk mx)).
Proof.
  intros s length_blk mx. unfold blk_allocate_aligned.
  destruct (match find_matching s 0 (length_blk + shr (aunit s) (bpow s)) with
            | Some k => Some k | None => find_matching s 0 length_blk end) as [[aklen akoff]|]; [|apply geo_refl].
  destruct (al_fits akoff aklen (IW_ROUNDUP akoff (shr (aunit s) (bpow s))) length_blk mx); [apply geo_al_take|].
  destruct (fold_left (al_scan_step length_blk mx (shr (aunit s) (bpow s))) (tree s) (U64MAX, 0)) as [akoff2 aklen2].
  destruct (akoff2 =? U64MAX); [apply geo_refl|apply geo_al_take].
Qed.

Lemma geo_init_lw : forall s nbmoff nbmlen, geo s (snd (init_lw s nbmoff nbmlen)).
Proof.
  intros s nbmoff nbmlen. unfold init_lw.
  destruct (negb (nbmlen mod pow2 (bpow s) =? 0) || negb (nbmoff mod pow2 (bpow s) =? 0) || negb (nbmoff mod aunit s =? 0));
    [apply geo_refl|].
  destruct (nbmlen <? bmlen s); [apply geo_refl|].
  destruct (nbmlen * 8 <? shr (nbmoff + nbmlen) (bpow s) + 1); [apply geo_refl|].
  destruct (negb (ensure_ok s (nbmoff + nbmlen))); [apply geo_refl|].
  destruct (negb (bmlen s =? 0) && negb (IW_RANGES_OVERLAP (bmoff s) (bmoff s + bmlen s) nbmoff (nbmoff + nbmlen) =? 0));
    [apply geo_ensure_size|].
  set (nbm := if negb (bmlen s =? 0) then bm s ++ repeat false (Z.to_nat (8 * (nbmlen - bmlen s)))
              else repeat false (Z.to_nat (8 * nbmlen))).
  set (s1 := set_bmloc (set_bm (ensure_size s (nbmoff + nbmlen)) nbm) nbmoff nbmlen).
  assert (G1 : geo s s1) by (eapply geo_trans; [apply (geo_ensure_size s (nbmoff + nbmlen))|split; reflexivity]).
  assert (GR : geo s (load_fsm (set_bmloc (set_bm s1 (bm s)) (bmoff s) (bmlen s)))).
  { eapply geo_trans; [|apply geo_load_fsm]. eapply geo_trans; [exact G1|split; reflexivity]. }
  pose proof (geo_set_bit_status s1 (shr nbmoff (bpow s)) (shr nbmlen (bpow s)) true false false) as H2.
  destruct (set_bit_status s1 (shr nbmoff (bpow s)) (shr nbmlen (bpow s)) true false false) as [rc s2]. simpl in H2.
  destruct (negb (rc =? 0)); [exact GR|].
  set (P := if bmlen s =? 0 then set_bit_status s2 0 (shr (hdrlen s) (bpow s)) true false false else (0, s2)).
  assert (H3 : geo s2 (snd P)).
  { unfold P. destruct (bmlen s =? 0); [apply geo_set_bit_status|apply geo_refl]. }
  destruct P as [rc3 s3]. simpl in H3.
  destruct (negb (rc3 =? 0)); [exact GR|].
  assert (G4 : geo s (write_meta (load_fsm s3))).
  { eapply geo_trans; [exact G1|]. eapply geo_trans; [exact H2|]. eapply geo_trans; [exact H3|].
    eapply geo_trans; [apply geo_load_fsm|split; reflexivity]. }
  destruct (negb (bmlen s =? 0)); [|exact G4].
  eapply geo_trans; [exact G4|apply geo_blk_deallocate].
Qed.

Lemma geo_resize : forall s size, geo s (snd (resize_fsm_bitmap s size)).
Proof.
  intros s size. unfold resize_fsm_bitmap. destruct (bmlen s >=? size); [apply geo_refl|].
  pose proof (geo_blk_allocate_aligned s (shr (IW_ROUNDUP size (aunit s)) (bpow s)) U64MAX) as H1.
  destruct (blk_allocate_aligned s (shr (IW_ROUNDUP size (aunit s)) (bpow s)) U64MAX) as [[[rc s1] off] sp].
  simpl in H1.
  destruct (if rc =? 0 then (shl off (bpow s), shl sp (bpow s))
            else if rc =? IWFS_ERROR_NO_FREE_SPACE
                 then (IW_ROUNDUP (bmlen s * pow2 (bpow s) * 8) (aunit s), IW_ROUNDUP size (aunit s))
                 else (0, IW_ROUNDUP size (aunit s))) as [nbmoff nbmlen'].
  eapply geo_trans; [exact H1|].
  pose proof (geo_init_lw s1 nbmoff nbmlen') as H2. destruct (init_lw s1 nbmoff nbmlen') as [rc2 s2]. simpl in H2.
  destruct (fx_leak (vr s) && negb (rc2 =? 0) && (rc =? 0)); [|exact H2].
  simpl. eapply geo_trans; [exact H2|apply geo_blk_deallocate].
Qed.

Lemma wf_geo : forall s s', WF s -> geo s s' -> WF s'.
Proof. intros s s' [Hb Ha] [E1 E2]. split; rewrite ?E1, ?E2; assumption. Qed.

(* _fsm_ensure_size_lw, when it returns 0, really reaches the size asked for: _exfile_ensure_size_lw refuses a target below
   the request (page round-up that wrapped, or the maxoff cap) *)
Lemma ensure_size_ge : forall s z, ensure_ok s z = true -> z <= fsize (ensure_size s z).
Proof.
  intros s z H. unfold ensure_ok in H. unfold ensure_size. destruct (fsize s >=? z) eqn:E.
  - rewrite Z.geb_leb in E. apply Z.leb_le in E. exact E.
  - simpl in H. apply Z.leb_le in H. exact H.
Qed.

Definition backed (s' : fsm) (off olen : Z) : Prop := shl off (bpow s') + shl olen (bpow s') <= fsize s'.

Lemma geo_solid : forall s o n, geo s (solid s o n).
Proof.
  intros s o n. unfold solid. destruct (ensure_ok s (solid_sz s o n)); [apply geo_ensure_size|].
  destruct (fx_solid (vr s)); [apply geo_blk_deallocate|apply geo_refl].
Qed.

Lemma solid_backed : forall s off olen, solid_rc s off olen = 0 -> backed (solid s off olen) off olen.
Proof.
  intros s off olen H. unfold solid_rc in H. unfold backed, solid.
  destruct (ensure_ok s (solid_sz s off olen)) eqn:E; [|discriminate H].
  destruct (geo_ensure_size s (solid_sz s off olen)) as [E1 _]. rewrite E1.
  apply (ensure_size_ge s (solid_sz s off olen) E).
Qed.

Lemma na_found_solid : forall fuel s length_blk offset_blk opts ovr nlength noff,
  has opts IWFSM_SOLID_ALLOCATED_SPACE = true ->
  find_matching s offset_blk length_blk = Some (nlength, noff) ->
  let '(rc, s', off, olen) := blk_allocate_na fuel s length_blk offset_blk opts ovr in
  geo s s' /\ (rc = 0 -> backed s' off olen).
Proof.
  intros fuel s length_blk offset_blk opts ovr nlength noff Hso Efm.
  rewrite blk_allocate_na_unfold, Efm. cbv zeta.
  set (s1 := del_fbk2 s (nlength, noff)).
  set (P := if nlength >? length_blk then
              if negb (has opts IWFSM_ALLOC_NO_OVERALLOCATE) && negb (crznum s =? 0) then
                (if ovr then (s1, nlength) else (put_fbk s1 (noff + length_blk) (nlength - length_blk), length_blk))
              else (put_fbk s1 (noff + length_blk) (nlength - length_blk), length_blk)
            else (s1, length_blk)).
  assert (G2 : geo s (fst P)).
  { eapply geo_trans; [apply (geo_del_fbk2 s (nlength, noff))|]. unfold P. fold s1.
    destruct (nlength >? length_blk); [|apply geo_refl].
    destruct (negb (has opts IWFSM_ALLOC_NO_OVERALLOCATE) && negb (crznum s =? 0)); [destruct ovr|];
      simpl; first [apply geo_refl|apply geo_put_fbk]. }
  destruct P as [s2 olen]. simpl in G2.
  pose proof (geo_set_bit_status s2 noff olen true false (strict s)) as G3.
  destruct (set_bit_status s2 noff olen true false (strict s)) as [rc s3]. simpl in G3.
  rewrite Hso.
  destruct (rc =? 0) eqn:Erc; simpl andb; cbv iota.
  - set (s4 := if negb (has opts IWFSM_ALLOC_NO_STATS) then stats_update s3 length_blk else s3).
    assert (G4 : geo s s4).
    { eapply geo_trans; [exact G2|]. eapply geo_trans; [exact G3|]. unfold s4.
      destruct (negb (has opts IWFSM_ALLOC_NO_STATS)); [apply geo_stats|apply geo_refl]. }
    split; [eapply geo_trans; [exact G4|apply geo_solid]|]. intros H0.
    apply solid_backed. destruct (solid_rc s4 noff olen =? 0) eqn:Es; [apply Z.eqb_eq; exact Es|].
    simpl in H0. exact H0.
  - split; [eapply geo_trans; [exact G2|exact G3]|]. intros H. rewrite Erc in H. simpl in H. apply Z.eqb_neq in Erc. contradiction.
Qed.

Lemma blk_allocate_na_solid : forall fuel s length_blk offset_blk opts ovr,
  has opts IWFSM_SOLID_ALLOCATED_SPACE = true ->
  let '(rc, s', off, olen) := blk_allocate_na fuel s length_blk offset_blk opts ovr in
  geo s s' /\ (rc = 0 -> backed s' off olen).
Proof.
  induction fuel as [|f IH]; intros s length_blk offset_blk opts ovr Hso;
    destruct (find_matching s offset_blk length_blk) as [[nlength noff]|] eqn:Efm;
    try (apply na_found_solid with (nlength := nlength) (noff := noff); assumption); rewrite blk_allocate_na_unfold, Efm;
    (destruct (has opts IWFSM_ALLOC_NO_EXTEND); [cbv beta iota; split; [apply geo_refl|intros H; discriminate H]|]).
  - cbv beta iota. split; [apply geo_refl|intros H; discriminate H].
  - pose proof (geo_resize s (shl (bmlen s) 1)) as Hg.
    destruct (resize_fsm_bitmap s (shl (bmlen s) 1)) as [rc s1]. simpl in Hg.
    destruct (negb (rc =? 0)) eqn:Erc.
    + cbv beta iota. split; [exact Hg|]. intros ->. discriminate Erc.
    + specialize (IH s1 length_blk offset_blk opts ovr Hso).
      destruct (blk_allocate_na f s1 length_blk offset_blk opts ovr) as [[[rc' s'] off] olen].
      destruct IH as [G B]. split; [eapply geo_trans; eassumption|exact B].
Qed.

Lemma blk_allocate_al_solid : forall fuel s length_blk opts,
  has opts IWFSM_SOLID_ALLOCATED_SPACE = true ->
  let '(rc, s', off, olen) := blk_allocate_al fuel s length_blk opts in
  geo s s' /\ (rc = 0 -> backed s' off olen).
Proof.
  induction fuel as [|f IH]; intros s length_blk opts Hso; rewrite blk_allocate_al_unfold;
    pose proof (geo_blk_allocate_aligned s length_blk U64MAX) as G1;
    destruct (blk_allocate_aligned s length_blk U64MAX) as [[[rc s1] off] olen]; simpl in G1;
    (destruct (rc =? IWFS_ERROR_NO_FREE_SPACE) eqn:E1;
     [destruct (has opts IWFSM_ALLOC_NO_EXTEND); [cbv beta iota; split; [exact G1|intros H; discriminate H]|]
     |rewrite Hso; destruct (rc =? 0) eqn:E0; simpl andb; cbv beta iota;
      [split; [eapply geo_trans; [exact G1|apply geo_solid]|]; intros H0; apply solid_backed; exact H0
      |split; [exact G1|]; intros H; apply Z.eqb_neq in E0; contradiction]]).
  - cbv beta iota. split; [exact G1|intros H; discriminate H].
  - pose proof (geo_resize s1 (shl (bmlen s1) 1)) as Hg.
    destruct (resize_fsm_bitmap s1 (shl (bmlen s1) 1)) as [rc2 s2]. simpl in Hg.
    assert (G2 : geo s s2) by (eapply geo_trans; eassumption).
    destruct (negb (rc2 =? 0)) eqn:Erc.
    + cbv beta iota. split; [exact G2|]. intros ->. discriminate Erc.
    + specialize (IH s2 length_blk opts Hso).
      destruct (blk_allocate_al f s2 length_blk opts) as [[[rc' s'] off'] olen'].
      destruct IH as [G B]. split; [eapply geo_trans; eassumption|exact B].
Qed.

(* _fsm_allocate with IWFSM_SOLID_ALLOCATED_SPACE, every flag combination, every state, bitmap growth and a size limit
   (maxoff) included: when it returns 0 the region [a, a + l) - l is the RETURNED length - lies inside the file.  No
   hypothesis on the sizes: _exfile_ensure_size_lw refuses a target below the request. *)
Theorem allocate_solid_backed : forall s len addr opts ovr,
  has opts IWFSM_SOLID_ALLOCATED_SPACE = true ->
  let '(rc, s', a, l) := allocate s len addr opts ovr in
  rc = 0 -> a + l <= fsize s' /\ bpow s' = bpow s /\ aunit s' = aunit s.
Proof.
  intros s len addr opts ovr Hso. unfold allocate.
  destruct (len <=? 0); [intros H; discriminate H|].
  set (lb := shr (IW_ROUNDUP len (pow2 (bpow s))) (bpow s)).
  assert (H : let '(rc, s', off, olen) := blk_allocate s lb (blk_of s addr) opts ovr in
              geo s s' /\ (rc = 0 -> backed s' off olen)).
  { unfold blk_allocate. destruct (fx_hint (vr s) && (lb >? FSM_BKEY_MAX)); [split; [apply geo_refl|intros H; discriminate H]|].
    destruct (has opts IWFSM_ALLOC_PAGE_ALIGNED);
      [apply blk_allocate_al_solid|apply blk_allocate_na_solid]; assumption. }
  destruct (blk_allocate s lb (blk_of s addr) opts ovr) as [[[rc s1] off] nlen].
  destruct H as [[E1 E2] B]. destruct (rc =? 0) eqn:E0.
  - intros _. apply Z.eqb_eq in E0. specialize (B E0). unfold backed in B. rewrite E1 in B.
    split; [exact B|split; assumption].
  - intros H. apply Z.eqb_neq in E0. contradiction.
Qed.

(* satisfiable, and the over-allocated case on a concrete history: five plain allocations of about one page on a new
   64-byte-block file (the file stays at 8192 bytes), the fourth released, 60 blocks of solid space asked from the hole
   with the over-allocation decision taken: 64 blocks are returned and the file covers all of them *)
Definition solid_witness_state : fsm :=
  run (fresh v_fixed false) [OAlloc 3840 0 0 false; OAlloc 4096 0 0 false; OAlloc 4352 0 0 false; OAlloc 4096 0 0 false;
                             OAlloc 4096 0 0 false; OFree 16640 4096].
Lemma solid_witness : WF solid_witness_state /\ fsize solid_witness_state = 8192 /\
  (let '(rc, s', a, l) := allocate solid_witness_state 3840 0 IWFSM_SOLID_ALLOCATED_SPACE true in (rc, a, l, fsize s'))
  = (0, 16640, 4096, 24576).
Proof.
  split; [|split; vm_compute; reflexivity].
  assert (E : bpow solid_witness_state = 6) by (vm_compute; reflexivity).
  split; [rewrite E; lia|]. exists 12. split; [vm_compute; reflexivity|]. rewrite E. lia.
Qed.

(* ================================================================ round 5: boundary of the addressable space, full files
   Concrete reachable states for the statements of Fsm_hdr_proofs.v (exported through Properties_C10/C11).
   full_file_state: new file (64-byte blocks, 32768 blocks), both free runs taken by exact-fit requests. *)
Definition full_file_state : fsm := run (fresh v_fixed false) [OAlloc 3968 128 11 false; OAlloc 2088960 8192 11 false].
Lemma pair_eq : forall (p : Z * fsm) a b, fst p = a -> snd p = b -> p = (a, b).
Proof. intros [x y] a b. simpl. intros -> ->. reflexivity. Qed.
Lemma boundary_on_full_file :
  let s := full_file_state in
  nbits s = 32768 /\ tree s = [] /\
  deallocate s 2097088 128 = (IWFS_ERROR_FSM_SEGMENTATION, s) /\ deallocate s 2097152 64 = (IWFS_ERROR_FSM_SEGMENTATION, s) /\
  fst (deallocate s 2097088 64) = 0 /\ tree (snd (deallocate s 2097088 64)) = [(1, 32767)].
Proof.
  cbv zeta. split; [vm_compute; reflexivity|]. split; [vm_compute; reflexivity|].
  (* the two refusals: the state is not read back (32768 bits), it is the theorem that says "unchanged" *)
  split; [|split].
  - apply pair_eq; [vm_compute; reflexivity|]. apply release_beyond_end_refused. apply Z.ltb_lt. vm_compute. reflexivity.
  - apply pair_eq; [vm_compute; reflexivity|]. apply release_beyond_end_refused. apply Z.ltb_lt. vm_compute. reflexivity.
  - split; vm_compute; reflexivity.
Qed.

(* relocated_full_state: one request the bitmap cannot hold (it doubles; the new area is carved out of the free space at
   byte 8192, the old one released), then every remaining free run taken; no sync anywhere *)
Definition relocated_full_state : fsm :=
  run (fresh v_fixed false) [OAlloc 2089024 0 9 false; OAlloc 8064 128 11 false; OAlloc 2088896 2105408 11 false].
Lemma full_file_after_relocation :
  let s := relocated_full_state in
  tree s = [] /\ (bmoff s, bmlen s) = (8192, 8192) /\ hdr_current s = true /\
  (let r := state_of (step s (OCloseReopen false false false)) in
   (bmoff r, bmlen r, tree r) = (8192, 8192, []) /\ bm r = bm s).
Proof.
  cbv zeta.
  assert (Ht : tree relocated_full_state = []) by (vm_compute; reflexivity).
  assert (Hh : hdr_current relocated_full_state = true) by (vm_compute; reflexivity).
  split; [exact Ht|]. split; [vm_compute; reflexivity|]. split; [exact Hh|].
  destruct (full_file_close_reopen relocated_full_state false false false Ht (proj1 (hs_iff _) Hh)) as (Ec & Eb & _).
  unfold step. rewrite Ec. cbv beta iota. unfold state_of.
  split; [vm_compute; reflexivity|exact Eb].
Qed.
