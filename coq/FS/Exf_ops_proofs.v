(* C12 - proofs about the model FS/Exf.v, part 4: _exfile_write, _exfile_read, _exfile_copy against the flat array whose
   bytes are what a reader sees (`view`: the file, with the mapped MAP_PRIVATE windows laid over it). *)
Require Import ZArith List Bool Lia.
Require Import IW.Lib.CInt IW.Gen.Facts IW.FS.Exf IW.FS.Exf_base_proofs IW.FS.Exf_inv_proofs IW.FS.Exf_view_proofs.
Import ListNotations.
Local Open Scope Z_scope.
Ltac Zify.zify_post_hook ::= Z.div_mod_to_equations.

(* the places of the code that were repaired are in their repaired form *)
Definition FixedQ (q : quirks) : Prop :=
  q_mul_ge q = true /\ q_copy_ensures q = true /\ q_copy_src q = true /\ q_copy_fwd q = true.

(* both regimes are kept by a step from st to st1 *)
Definition RegKeep (ok : os_ok) (st st1 : exf) : Prop := (Shared st -> Shared st1) /\ (MapAll ok -> Full st -> Full st1).
Lemma RegKeep_Regime : forall ok st st1, RegKeep ok st st1 -> Regime ok st -> Regime ok st1.
Proof. intros ok st st1 [A B] [H | [HA HF]]; [left; auto | right; auto]. Qed.
Lemma RegKeep_refl : forall ok st, RegKeep ok st st.
Proof. intros. split; auto. Qed.
Lemma RegKeep_set_fs : forall ok st f, RegKeep ok st (set_fs st f (slots st)).
Proof. intros. split; auto. Qed.
Lemma RegKeep_trans : forall ok a b c, RegKeep ok a b -> RegKeep ok b c -> RegKeep ok a c.
Proof. intros ok a b c [A1 B1] [A2 B2]. split; auto. Qed.

(* what _exfile_ensure_size_lw leaves behind, seen through the view *)
Lemma ensure_view : forall q ok st sz rc st1, q_mul_ge q = true -> Inv st -> Bud ok st -> Regime ok st -> 0 <= sz <= LIM -> grow_ok st sz ->
  ensure_size_lw q ok st sz = (rc, st1) -> PrivKept st (fsize st1) ->
  Inv st1 /\ Bud ok st1 /\ RegKeep ok st st1 /\ psize st1 = psize st /\ maxoff st1 = maxoff st /\
  view st1 = ftrunc (view st) (fsize st1) /\ (rc = 0 -> sz <= fsize st1) /\ (rc <> 0 -> fsize st1 = fsize st) /\
  (spec_ensure (psize st) ok (vabs st) sz = (rc, vabs st1) \/ (rc = EXF_E_ERRNO /\ exists t, os_map ok t = false)).
Proof.
  intros q ok st sz rc st1 Hq HI HB HR Hs Hg E HK.
  destruct (ensure_size_lw_spec q ok st sz rc st1 Hq HI HB Hs Hg E) as [A [B [C [D [F [G [R0 [RN [_ [_ [_ [MA SP]]]]]]]]]]]].
  assert (Hview : view st1 = ftrunc (view st) (fsize st1)).
  { apply view_resize; auto. destruct HR as [HSh | [HA HF]]; [left; auto | right; auto]. }
  assert (HR1 : RegKeep ok st st1).
  { split; [intros HSh; eapply GeoSame_shared; eauto | intros HA HF; unfold Full; rewrite (MA HA HF); apply pinit_full]. }
  split; [exact A |]. split; [exact B |]. split; [exact HR1 |]. split; [exact C |]. split; [exact D |]. split; [exact Hview |].
  split; [intros Hrc; exact (proj1 (R0 Hrc)) |]. split; [exact RN |].
  destruct (view_spec st HI) as [L0 _]. destruct (SP (view st) L0) as [SP1 | SP1]; [left | right; exact SP1].
  unfold vabs. rewrite Hview, D. exact SP1.
Qed.

(* ---------------------------------------------------------------------------------------------- *)
(* _exfile_write *)
Lemma exfile_write_spec : forall q ok st off data rc sp st', q_mul_ge q = true -> Inv st -> Bud ok st -> Regime ok st ->
  0 <= off -> off + zlen data <= LIM -> grow_ok st (off + zlen data) ->
  exfile_write q ok st off data = (rc, sp, st') -> PrivKept st (fsize st') ->
  (spec_write (psize st) ok (vabs st) off data = (rc, sp, vabs st') \/ spec_mapfail ok (vabs st) (mkOut rc sp []) (vabs st')) /\
  Inv st' /\ Bud ok st' /\ RegKeep ok st st' /\ psize st' = psize st /\ maxoff st' = maxoff st.
Proof.
  intros q ok st off data rc sp st' Hq HI HB HR Hoff Hend Hg E HK.
  pose proof (zlen_nonneg data) as Hdn. pose proof LIM_val as EL.
  pose proof (inv_fs st HI) as [Hf1 Hf2]. pose proof (inv_mo st HI) as [Hm1 _].
  destruct (view_spec st HI) as [L0 X0].
  unfold exfile_write in E. rewrite sw_small in E by lia. rewrite uw_small in E by lia.
  destruct (Z.ltb_spec off 0); [lia |]. destruct (Z.ltb_spec (off + zlen data) 0); [lia |]. simpl in E.
  unfold spec_write. simpl.
  destruct (negb (maxoff st =? 0) && (off + zlen data >? maxoff st)).
  { inversion E; subst. split; [left; reflexivity |]. split; [assumption |]. split; [assumption |]. split; [apply RegKeep_refl | auto]. }
  (* the size request *)
  assert (Hens : exists rc1 st1, (if off + zlen data >? fsize st then ensure_size_lw q ok st (off + zlen data) else (0, st)) = (rc1, st1) /\
            (PrivKept st (fsize st1) ->
             Inv st1 /\ Bud ok st1 /\ RegKeep ok st st1 /\ psize st1 = psize st /\ maxoff st1 = maxoff st /\
             view st1 = ftrunc (view st) (fsize st1) /\ (rc1 = 0 -> off + zlen data <= fsize st1) /\ (rc1 <> 0 -> fsize st1 = fsize st) /\
             (spec_ensure (psize st) ok (vabs st) (off + zlen data) = (rc1, vabs st1) \/ (rc1 = EXF_E_ERRNO /\ exists t, os_map ok t = false)))).
  { destruct (Z.gtb_spec (off + zlen data) (fsize st)) as [Hgt | Hle].
    - destruct (ensure_size_lw q ok st (off + zlen data)) as [rc1 st1] eqn:Ee. exists rc1, st1. split; [reflexivity |].
      intros HK1. apply (ensure_view q ok st (off + zlen data) rc1 st1); auto; lia.
    - exists 0, st. split; [reflexivity |]. intros _.
      split; [exact HI |]. split; [exact HB |]. split; [apply RegKeep_refl |]. do 2 (split; [reflexivity |]).
      split; [rewrite <- L0; symmetry; apply ftrunc_id |]. split; [intros; lia |]. split; [intros; reflexivity |].
      left. unfold spec_ensure. simpl. rewrite L0. destruct (Z.geb_spec (fsize st) (off + zlen data)); [reflexivity | lia]. }
  destruct Hens as [rc1 [st1 [E1 Hfacts]]]. rewrite E1 in E.
  destruct (Z.eqb_spec rc1 0) as [Hz | Hnz]; simpl in E.
  - subst rc1.
    (* the size of the final state is that of st1 *)
    destruct (write_pieces (psize st1) (split_all (slots st1) off (zlen data)) data (file st1) (slots st1)) as [[f' ss'] |] eqn:Ew.
    + inversion E; subst rc sp st'. simpl in HK.
      destruct (Hfacts HK) as [I1 [B1 [R1 [P1 [M1 [V1 [F1 [_ S1]]]]]]]]. specialize (F1 eq_refl).
      destruct S1 as [S1 | [S1 _]]; [| exfalso; exact (E_ERRNO_nz (eq_sym S1))].
      pose proof (inv_file st1 I1) as Hfl1. pose proof (inv_slots st1 I1) as HS1. pose proof (PsOk_pos _ (inv_ps st1 I1)) as Hps1.
      destruct (split_pieces_v (psize st1) (fsize st1) (slots st1) off (zlen data) HS1 (Regime_Reg _ _ (RegKeep_Regime _ _ _ R1 HR)) Hdn) as [C F].
      destruct (write_pieces_view (psize st1) (fsize st1) ltac:(lia) _ (slots st1) (file st1) off (off + zlen data) data HS1 Hfl1 C F Hoff F1 ltac:(lia))
        as [f2 [ss2 [Ew2 [Hfz2 [HS2 [Er2 HV2]]]]]].
      rewrite Ew in Ew2. inversion Ew2; subst f2 ss2. clear Ew2.
      assert (I' : Inv (set_fs st1 f' ss')) by (apply set_fs_inv; assumption).
      assert (Hview' : view (set_fs st1 f' ss') = splice (view st1) off data).
      { destruct (view_spec st1 I1) as [L1 X1]. destruct (view_spec _ I') as [L2 X2]. simpl in L2, X2.
        apply list_eq_znth.
        - rewrite L2, zlen_splice by lia. lia.
        - intros x Hx. rewrite X2 by lia. rewrite HV2 by lia. rewrite znth_splice by lia. rewrite X1 by lia.
          replace (off + zlen data) with (off + zlen data) by reflexivity. reflexivity. }
      rewrite S1. simpl. split.
      * left. unfold vabs. simpl. rewrite Hview'. reflexivity.
      * split; [exact I' |].
        split; [destruct B1 as [BM BT]; split; [exact BM | simpl; rewrite (erase_total _ _ Er2); exact BT] |].
        split. { destruct R1 as [R1a R1b]. split; [intros HSh; exact (erase_shared _ _ Er2 (R1a HSh)) | intros HA HF; exact (erase_full _ _ _ Er2 (R1b HA HF))]. }
        simpl. auto.
    + (* a window piece outside its window: impossible under the invariant *)
      exfalso. inversion E; subst rc sp st'.
      destruct (Hfacts HK) as [I1 [B1 [R1 [P1 [M1 [V1 [F1 [_ S1]]]]]]]]. specialize (F1 eq_refl).
      pose proof (inv_file st1 I1) as Hfl1. pose proof (inv_slots st1 I1) as HS1. pose proof (PsOk_pos _ (inv_ps st1 I1)) as Hps1.
      destruct (split_pieces_v (psize st1) (fsize st1) (slots st1) off (zlen data) HS1 (Regime_Reg _ _ (RegKeep_Regime _ _ _ R1 HR)) Hdn) as [C F].
      destruct (write_pieces_view (psize st1) (fsize st1) ltac:(lia) _ (slots st1) (file st1) off (off + zlen data) data HS1 Hfl1 C F Hoff F1 ltac:(lia))
        as [f2 [ss2 [Ew2 _]]]. congruence.
  - inversion E; subst rc sp st'.
    destruct (Hfacts HK) as [I1 [B1 [R1 [P1 [M1 [V1 [_ [FN S1]]]]]]]]. specialize (FN Hnz).
    split; [| auto 6]. destruct S1 as [S1 | [S1 St]].
    + left. rewrite S1. destruct (Z.eqb_spec rc1 0); [contradiction |]. reflexivity.
    + right. unfold spec_mapfail. simpl. split; [exact S1 |]. split; [reflexivity |]. split; [reflexivity |].
      split; [rewrite V1, FN, <- L0; apply ftrunc_id |]. split; [exact M1 | exact St].
Qed.

(* ---------------------------------------------------------------------------------------------- *)
(* _exfile_read *)
Lemma exfile_read_spec : forall st off siz, Inv st -> Reg st -> 0 <= off -> 0 <= siz -> off + siz <= LIM ->
  exfile_read st off siz = (0, zlen (spec_read (vabs st) off siz), spec_read (vabs st) off siz).
Proof.
  intros st off siz HI HR Hoff Hsiz Hend. pose proof LIM_val as EL.
  pose proof (inv_fs st HI) as [Hf1 Hf2]. pose proof (inv_file st HI) as Hfl. pose proof (inv_slots st HI) as HS.
  pose proof (PsOk_pos _ (inv_ps st HI)) as Hps. destruct (view_spec st HI) as [L0 X0].
  unfold exfile_read, spec_read. simpl. rewrite sw_small by lia.
  destruct (Z.ltb_spec off 0); [lia |]. destruct (Z.ltb_spec (off + siz) 0); [lia |]. simpl.
  (* reading n bytes inside the file through the pieces is reading them from the view *)
  assert (Hin : forall n, 0 <= n -> off + n <= fsize st ->
            read_pieces (psize st) (split_all (slots st) off n) (file st) (slots st) = Some (pread (view st) off n)).
  { intros n Hn Hfit. destruct (split_pieces_v (psize st) (fsize st) (slots st) off n HS HR Hn) as [C F].
    destruct (read_pieces_view (psize st) (fsize st) ltac:(lia) (slots st) (file st) HS Hfl _ off (off + n) C F Hoff Hfit) as [l [El [Ll Xl]]].
    rewrite El. f_equal. apply list_eq_znth.
    - rewrite Ll, zlen_pread by lia. lia.
    - intros k Hk. rewrite Ll in Hk. rewrite Xl by lia. rewrite znth_pread by lia. rewrite X0 by lia. reflexivity. }
  destruct (Z.gtb_spec (off + siz) (fsize st)) as [Hgt | Hle].
  - destruct (Z_le_gt_dec off (fsize st)) as [Hi | Hout].
    + rewrite Hin by lia. rewrite (pread_clip (view st) off siz) by lia. rewrite (pread_clip (view st) off (fsize st - off)) by lia. reflexivity.
    + unfold split_all.
      assert (Es : split (slots st) 0 off (fsize st - off) = ([], off, fsize st - off)).
      { destruct (slots st) as [| s tl]; [reflexivity |]. rewrite split_cons.
        destruct (Z.leb_spec (fsize st - off) 0); [reflexivity | lia]. }
      rewrite Es. destruct (Z.gtb_spec (fsize st - off) 0); [lia |]. simpl.
      rewrite (pread_clip (view st) off siz) by lia. rewrite zdrop_all by lia. reflexivity.
  - rewrite Hin by lia. reflexivity.
Qed.

(* ---------------------------------------------------------------------------------------------- *)
(* _exfile_copy *)
(* a copy sees and changes what a reader sees when it goes through the first window, or when neither range touches a
   mapped private window (the path through the file knows nothing of bytes written through a MAP_PRIVATE window) *)
Definition copy_clean (ss : list slot) (off siz noff : Z) : Prop :=
  match ss with
  | s :: _ => (0 <? s_len s) && (s_off s =? 0) && (s_len s >=? noff + siz) && (s_len s >=? off + siz) = true
  | [] => False
  end \/
  forall s, In s ss -> s_priv s = true -> 0 < s_len s ->
    (off + siz <= s_off s \/ s_off s + s_len s <= off) /\ (noff + siz <= s_off s \/ s_off s + s_len s <= noff).

Lemma copy_clean_erase : forall ss ss' off siz noff, map erase ss' = map erase ss -> copy_clean ss' off siz noff -> copy_clean ss off siz noff.
Proof.
  intros ss ss' off siz noff E [H | H].
  - left. destruct ss' as [| h' tl']; [contradiction |]. destruct ss as [| h tl]; [discriminate E |].
    simpl in E. inversion E as [[Eo Em El Ep Et]]. simpl in H |- *. exact H.
  - right. intros s Hin Hp Hpos. apply (in_map erase) in Hin. rewrite <- E in Hin. apply in_map_iff in Hin.
    destruct Hin as [s' [Es Hin']]. unfold erase in Es. inversion Es as [[Eo Em El Ep]]. apply H; [exact Hin' | congruence | lia].
Qed.

Lemma exfile_copy_fsize : forall q ok st off siz noff rc st', exfile_copy q ok st off siz noff = (rc, st') ->
  fsize st' = fsize (snd (if q_copy_ensures q then ensure_size_lw q ok st (sw 64 (noff + siz)) else (0, st))).
Proof.
  intros q ok st off siz noff rc st' E. unfold exfile_copy in E.
  destruct (if q_copy_ensures q then ensure_size_lw q ok st (sw 64 (noff + siz)) else (0, st)) as [rc0 st0]. simpl.
  destruct (negb (rc0 =? 0)); [inversion E; reflexivity |].
  assert (Hfile : forall rcf stf, (let '(rc, f') := file_copy q (file st0) off siz noff in (rc, set_file st0 f')) = (rcf, stf) -> fsize stf = fsize st0).
  { intros rcf stf Ef. destruct (file_copy q (file st0) off siz noff). inversion Ef; reflexivity. }
  destruct (slots st0) as [| s tl]; [exact (Hfile _ _ E) |].
  destruct ((0 <? s_len s) && (s_off s =? 0) && (s_len s >=? uw 64 (noff + siz))); [| exact (Hfile _ _ E)].
  destruct (q_copy_src q && negb (s_len s >=? uw 64 (off + siz))); [exact (Hfile _ _ E) |].
  destruct (win_read (psize st0) (file st0) s off siz) as [b |]; [| inversion E; reflexivity].
  destruct (win_write (psize st0) (file st0) s noff b) as [[s' f'] |]; inversion E; reflexivity.
Qed.

Lemma set_file_same : forall st, set_file st (file st) = st.
Proof. intros st. destruct st; reflexivity. Qed.

Lemma exfile_copy_spec : forall q ok st off siz noff rc st', FixedQ q -> Inv st -> Bud ok st -> Regime ok st ->
  0 <= off -> 0 <= siz -> 0 <= noff -> off + siz <= LIM -> noff + siz <= LIM -> grow_ok st (noff + siz) ->
  exfile_copy q ok st off siz noff = (rc, st') -> PrivKept st (fsize st') ->
  (Shared st \/ copy_clean (slots st') off siz noff) ->
  (spec_copy (psize st) ok (vabs st) off siz noff rc (vabs st') \/ spec_mapfail ok (vabs st) (mkOut rc 0 []) (vabs st')) /\
  Inv st' /\ Bud ok st' /\ RegKeep ok st st' /\ psize st' = psize st /\ maxoff st' = maxoff st.
Proof.
  intros q ok st off siz noff rc st' [Hq1 [Hq2 [Hq3 Hq4]]] HI HB HR Hoff Hsiz Hnoff He1 He2 Hg E HK Hcc. pose proof LIM_val as EL.
  pose proof (exfile_copy_fsize q ok st off siz noff rc st' E) as Hfs.
  unfold exfile_copy in E. rewrite Hq2 in Hfs. rewrite Hq2, Hq3 in E. rewrite sw_small in E, Hfs by lia. rewrite !uw_small in E by lia.
  destruct (ensure_size_lw q ok st (noff + siz)) as [rc0 st0] eqn:Ee. simpl in Hfs. rewrite Hfs in HK.
  destruct (ensure_view q ok st (noff + siz) rc0 st0 Hq1 HI HB HR ltac:(lia) Hg Ee HK) as [I0 [B0 [R0 [P0 [M0 [V0 [F0 [FN0 S0]]]]]]]].
  destruct (view_spec st HI) as [L00 _].
  destruct (Z.eqb_spec rc0 0) as [Hz | Hnz]; simpl in E.
  2:{ inversion E; subst rc st'. split; [| auto 6]. destruct S0 as [S0 | [S0 St]].
      - left. unfold spec_copy. rewrite S0. destruct (Z.eqb_spec rc0 0); [contradiction |]. auto.
      - right. unfold spec_mapfail. simpl. split; [exact S0 |]. do 2 (split; [reflexivity |]).
        split; [rewrite V0, (FN0 Hnz), <- L00; apply ftrunc_id |]. split; [exact M0 | exact St]. }
  subst rc0. specialize (F0 eq_refl). destruct S0 as [S0 | [S0 _]]; [| exfalso; exact (E_ERRNO_nz (eq_sym S0))].
  pose proof (inv_file st0 I0) as Hfl0. pose proof (inv_slots st0 I0) as HS0. pose proof (inv_fs st0 I0) as [Hf01 _].
  pose proof (PsOk_pos _ (inv_ps st0 I0)) as Hps0. destruct (view_spec st0 I0) as [L0 X0].
  (* what has to be shown about the answer and the final state once the size is in order *)
  set (G := fun (rc : Z) (st' : exf) =>
    (rc = 0 /\ view st' = splice (view st0) noff (pread (view st0) off siz) /\ maxoff st' = maxoff st0 /\ pol st' = pol st0) /\
    Inv st' /\ Bud ok st' /\ RegKeep ok st0 st' /\ psize st' = psize st0 /\ map erase (slots st') = map erase (slots st0)).
  assert (HG : G rc st' -> (spec_copy (psize st) ok (vabs st) off siz noff rc (vabs st') \/ spec_mapfail ok (vabs st) (mkOut rc 0 []) (vabs st')) /\
                Inv st' /\ Bud ok st' /\ RegKeep ok st st' /\ psize st' = psize st /\ maxoff st' = maxoff st).
  { intros [Hres [I' [B' [R' [P' _]]]]]. split; [left | split; [exact I' | split; [exact B' | split; [exact (RegKeep_trans _ _ _ _ R0 R') | split; [congruence |]]]]].
    - unfold spec_copy. rewrite S0. simpl. destruct Hres as [-> [Hv [Hm Hp]]].
      split; [reflexivity |]. unfold vabs. rewrite Hv, Hm, Hp. reflexivity.
    - destruct Hres as [_ [_ [Hm _]]]. congruence. }
  apply HG. clear HG.
  (* neither range touches a mapped private window *)
  set (D2 := forall s, In s (slots st0) -> s_priv s = true -> 0 < s_len s ->
               (off + siz <= s_off s \/ s_off s + s_len s <= off) /\ (noff + siz <= s_off s \/ s_off s + s_len s <= noff)).
  (* a write of d at noff into the file, outside every mapped private window, seen through the view *)
  assert (Hwr : forall d ss', zlen d <= siz -> map erase ss' = map erase (slots st0) -> SlotsInv (psize st0) (fsize st0) ss' ->
            (forall s, In s ss' -> s_priv s = true -> 0 < s_len s -> noff + zlen d <= s_off s \/ s_off s + s_len s <= noff) ->
            (forall x, 0 <= x -> V (psize st0) (file st0) ss' x = V (psize st0) (file st0) (slots st0) x) ->
            view (set_fs st0 (splice (file st0) noff d) ss') = splice (view st0) noff d /\ Inv (set_fs st0 (splice (file st0) noff d) ss')).
  { intros d ss' Hdl Her HS' Hdis Hsame. pose proof (zlen_nonneg d) as Hdn.
    assert (I' : Inv (set_fs st0 (splice (file st0) noff d) ss')) by (apply set_fs_inv; auto; rewrite zlen_splice by lia; exact Hfl0).
    split; [| exact I']. destruct (view_spec _ I') as [L2 X2]. simpl in L2, X2.
    apply list_eq_znth.
    - rewrite L2, zlen_splice by lia. lia.
    - intros x Hx. rewrite X2 by lia. rewrite (V_file_write (psize st0) (fsize st0)) by (auto; lia).
      rewrite znth_splice by lia. rewrite X0 by lia. rewrite Hsame by lia. reflexivity. }
  (* the path through the file *)
  assert (Hfile : forall rcf stf, (let '(rc, f') := file_copy q (file st0) off siz noff in (rc, set_file st0 f')) = (rcf, stf) -> D2 -> G rcf stf).
  { intros rcf stf Ef HD. destruct (file_copy q (file st0) off siz noff) as [rc1 f1] eqn:Efc. inversion Ef; subst rcf stf. clear Ef.
    destruct (file_copy_fixed q (file st0) off siz noff rc1 f1 Hq4 Hoff Hnoff Hsiz ltac:(lia) Efc) as [-> ->].
    + assert (Esrc : pread (view st0) off siz = pread (file st0) off siz).
      { apply pread_ext_gen; try lia. intros x Hx Hxl. rewrite X0 by lia. apply V_outside.
        intros s Hin Hp Hpos. destruct (HD s Hin Hp Hpos) as [[Hd | Hd] _]; lia. }
      pose proof (zlen_pread_le (file st0) off siz Hsiz) as Hdl.
      destruct (Hwr (pread (file st0) off siz) (slots st0) Hdl eq_refl HS0) as [Hv I'].
      * intros s Hin Hp Hpos. destruct (HD s Hin Hp Hpos) as [_ [Hd | Hd]]; lia.
      * intros; reflexivity.
      * unfold G. change (set_file st0 (splice (file st0) noff (pread (file st0) off siz)))
          with (set_fs st0 (splice (file st0) noff (pread (file st0) off siz)) (slots st0)).
        split; [split; [reflexivity |]; split; [rewrite Esrc; exact Hv | split; reflexivity] |].
        split; [exact I' |]. split; [exact B0 |]. split; [apply RegKeep_set_fs |]. split; reflexivity. }
  assert (HD2 : Shared st0 -> D2).
  { intros HSh s Hin Hp. unfold Shared, SharedL in HSh. rewrite Forall_forall in HSh. rewrite (HSh s Hin) in Hp. discriminate Hp. }
  assert (HShared0 : Shared st -> Shared st0) by exact (proj1 R0).
  (* in the branches that go through the file the first alternative of copy_clean is excluded by the branch condition *)
  assert (Hvia : forall rcf stf, (let '(rc, f') := file_copy q (file st0) off siz noff in (rc, set_file st0 f')) = (rcf, stf) ->
            (Shared st \/ copy_clean (slots stf) off siz noff) ->
            (match slots st0 with s :: _ => (0 <? s_len s) && (s_off s =? 0) && (s_len s >=? noff + siz) && (s_len s >=? off + siz) = false | [] => True end) ->
            G rcf stf).
  { intros rcf stf Ef Hc Hbr. apply (Hfile rcf stf Ef). destruct Hc as [HSh | Hc]; [exact (HD2 (HShared0 HSh)) |].
    assert (Hsl : slots stf = slots st0) by (destruct (file_copy q (file st0) off siz noff); inversion Ef; reflexivity).
    rewrite Hsl in Hc. destruct Hc as [Hc | Hc]; [| exact Hc]. exfalso.
    destruct (slots st0) as [| s tl]; [exact Hc | congruence]. }
  remember (slots st0) as ss0 eqn:Ess in E. destruct ss0 as [| s tl].
  { apply (Hvia rc st' E Hcc). rewrite <- Ess. exact I. }
  symmetry in Ess.
  destruct ((0 <? s_len s) && (s_off s =? 0) && (s_len s >=? noff + siz)) eqn:Ecov.
  2:{ apply (Hvia rc st' E Hcc). rewrite Ess. rewrite Ecov. reflexivity. }
  destruct (Z.geb_spec (s_len s) (off + siz)) as [Hsrc | Hsrc]; simpl in E.
  2:{ apply (Hvia rc st' E Hcc). rewrite Ess. rewrite Ecov. simpl. destruct (Z.geb_spec (s_len s) (off + siz)); [lia | reflexivity]. }
  (* both ranges inside the first window: memmove *)
  clear Hvia Hfile Hcc.
  apply andb_true_iff in Ecov. destruct Ecov as [Ec12 Ec3]. apply andb_true_iff in Ec12. destruct Ec12 as [Ec1 Ec2].
  apply Z.ltb_lt in Ec1. apply Z.eqb_eq in Ec2. apply Z.geb_le in Ec3.
  assert (Hn0 : nth_error (slots st0) 0 = Some s) by (rewrite Ess; reflexivity).
  pose proof HS0 as HS0'. rewrite Ess in HS0'. inversion HS0' as [| s0 tl0 Hsok Hfa Htl]; subst s0 tl0.
  pose proof (slot_in_file _ _ _ Hsok Ec1) as Hinf.
  unfold win_read, in_win in E.
  destruct (Z.leb_spec 0 off); [| lia]. destruct (Z.leb_spec (off + siz) (s_len s)); [| lia]. simpl in E.
  destruct (s_priv s) eqn:Ep.
  - (* a private first window *)
    destruct (win_view_priv (psize st0) (fsize st0) (file st0) s ltac:(lia) Hsok Ep Hfl0) as [VL VX].
    set (b := pread (win_view (psize st0) (file st0) s) off siz) in E.
    assert (Hbl : zlen b = siz) by (apply zlen_pread; lia).
    destruct (win_write_priv (psize st0) (fsize st0) (file st0) s noff b ltac:(lia) Hsok Ep Hfl0 Hnoff ltac:(lia)) as [s' [Ew [Hsh [Hok' Hb']]]].
    rewrite Ew in E. inversion E; subst rc st'. clear E.
    assert (Her : map erase (s' :: tl) = map erase (slots st0)) by (rewrite Ess; simpl; f_equal; exact Hsh).
    assert (HS' : SlotsInv (psize st0) (fsize st0) (s' :: tl)).
    { change (s' :: tl) with (set_nth 0 s' (s :: tl)). rewrite <- Ess. eapply set_nth_inv; eauto. }
    assert (I' : Inv (set_fs st0 (file st0) (s' :: tl))) by (apply set_fs_inv; auto).
    unfold G. split.
    + split; [reflexivity |]. split; [| split; reflexivity].
      destruct (view_spec _ I') as [L2 X2]. simpl in L2, X2. apply list_eq_znth.
      * rewrite L2, zlen_splice; rewrite ?zlen_pread; lia.
      * intros x Hx. rewrite X2 by lia. unfold V. change (s' :: tl) with (set_nth 0 s' (s :: tl)). rewrite <- Ess.
        rewrite (V_slot_write (psize st0) (fsize st0) (file st0) (slots st0) HS0 0%nat s s' noff b (file st0) Hn0 Ep Hsh Hnoff ltac:(lia) Hb' x).
        rewrite znth_splice by (rewrite ?zlen_pread; lia). rewrite zlen_pread by lia. rewrite Ec2, Hbl. simpl.
        destruct ((noff <=? x) && (x <? noff + siz)) eqn:Ein.
        -- apply andb_true_iff in Ein. destruct Ein as [Ei1 Ei2]. apply Z.leb_le in Ei1. apply Z.ltb_lt in Ei2.
           unfold b. rewrite !znth_pread by lia. rewrite VX by lia. rewrite X0 by lia.
           rewrite (V_in_slot (psize st0) (fsize st0) (file st0) (slots st0) HS0 0%nat s (off + (x - noff)) Hn0 Ep ltac:(lia)).
           f_equal. lia.
        -- rewrite X0 by lia. reflexivity.
    + split; [exact I' |].
      split; [destruct B0 as [BM BT]; split; [exact BM | change (os_map ok (mapped_total (s' :: tl)) = true); rewrite (erase_total _ _ Her); exact BT] |].
      split. { split; [intros HSh; exact (erase_shared _ _ Her HSh) | intros HA HF; exact (erase_full _ _ _ Her HF)]. }
      split; [reflexivity | exact Her].
  - (* a shared first window *)
    rewrite Ec2 in E. simpl in E.
    assert (Hbl : zlen (pread (file st0) off siz) = siz) by (apply zlen_pread; lia).
    unfold win_write, in_win in E. rewrite Hbl, Ep in E.
    destruct (Z.leb_spec 0 noff); [| lia]. destruct (Z.leb_spec (noff + siz) (s_len s)); [| lia]. simpl in E.
    rewrite Ec2 in E. simpl in E. rewrite pwrite_splice in E by lia.
    inversion E; subst rc st'. clear E.
    assert (Esrc : pread (view st0) off siz = pread (file st0) off siz).
    { apply pread_ext; try lia. intros x Hx. rewrite X0 by lia. apply V_outside. intros t Hin Hpt Hpos.
      destruct (shared_range_clear (psize st0) (fsize st0) (slots st0) 0%nat s HS0 Hn0 Ep off siz ltac:(lia) ltac:(lia) t Hin Hpt Hpos); lia. }
    rewrite <- Ess.
    destruct (Hwr (pread (file st0) off siz) (slots st0) ltac:(lia) eq_refl HS0) as [Hv I'].
    + intros t Hin Hpt Hpos. rewrite Hbl.
      exact (shared_range_clear (psize st0) (fsize st0) (slots st0) 0%nat s HS0 Hn0 Ep noff siz ltac:(lia) ltac:(lia) t Hin Hpt Hpos).
    + intros; reflexivity.
    + unfold G. split; [split; [reflexivity |]; split; [rewrite Esrc; exact Hv | split; reflexivity] |].
      split; [exact I' |]. split; [exact B0 |]. split; [apply RegKeep_set_fs |]. split; reflexivity.
Qed.
