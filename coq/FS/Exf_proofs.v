(* C12 - proofs about the model FS/Exf.v, part 5: every call, every history; the refusals of the operating system.
   (parts 1-4: Exf_base, Exf_inv, Exf_view, Exf_ops) *)
Require Import ZArith List Bool Lia.
Require Import IW.Lib.CInt IW.Gen.Facts IW.FS.Exf.
Require Export IW.FS.Exf_base_proofs IW.FS.Exf_inv_proofs IW.FS.Exf_view_proofs IW.FS.Exf_ops_proofs.
Import ListNotations.
Local Open Scope Z_scope.
Ltac Zify.zify_post_hook ::= Z.div_mod_to_equations.

(* ---------------------------------------------------------------------------------------------- *)
(* 9. registering and removing a window a reader cannot tell from the file: a shared one, an unmapped one, or a private one
   without a detached page *)
Definition harmless (s : slot) : Prop := s_priv s = false \/ s_len s = 0 \/ clean s.

Lemma sbyte_clean : forall ps f s x, clean s -> sbyte ps f s x = znth (s_off s + x) f.
Proof.
  intros ps f s x H. unfold sbyte. destruct (nth (Z.to_nat (x / ps)) (s_pages s) None) as [b |] eqn:En; [| reflexivity].
  exfalso. unfold clean in H. rewrite Forall_forall in H.
  destruct (Nat.lt_ge_cases (Z.to_nat (x / ps)) (length (s_pages s))) as [Hlt | Hge].
  - pose proof (nth_In (s_pages s) None Hlt) as Hin. rewrite En in Hin. specialize (H _ Hin). discriminate H.
  - rewrite nth_overflow in En by lia. discriminate En.
Qed.

Lemma V_skip : forall ps fsz f s tl x, SlotsInv ps fsz (s :: tl) -> harmless s -> V ps f (s :: tl) x = V ps f tl x.
Proof.
  intros ps fsz f s tl x HS Hh. unfold V. simpl. destruct (covers s x) eqn:Ec; [| reflexivity].
  unfold covers in Ec. apply andb_true_iff in Ec. destruct Ec as [Ec Ec2]. apply andb_true_iff in Ec. destruct Ec as [Ep Ec1].
  apply Z.leb_le in Ec1. apply Z.ltb_lt in Ec2.
  inversion HS as [| s0 tl0 Hs Hfa Ht]; subst. destruct Hs as [_ [_ [Hm [_ [Hl _]]]]]. pose proof (slot_nlen_range fsz s Hm).
  destruct Hh as [Hh | [Hh | Hh]]; [congruence | lia |].
  rewrite sbyte_clean by exact Hh. replace (s_off s + (x - s_off s)) with x by lia. symmetry. apply vb_below.
  eapply Forall_impl; [| exact Hfa]. simpl. intros t Ht0. lia.
Qed.

Lemma V_insert : forall ps fsz f ss ns ss' x, insert_slot ss ns = Some ss' -> SlotsInv ps fsz ss' -> harmless ns ->
  V ps f ss' x = V ps f ss x.
Proof.
  intros ps fsz f ss. induction ss as [| s tl IH]; intros ns ss' x E HS Hh; simpl in E.
  - inversion E; subst. apply (V_skip ps fsz); assumption.
  - destruct (negb (IW_RANGES_OVERLAP (s_off s) (s_off s + s_maxlen s) (s_off ns) (s_off ns + s_maxlen ns) =? 0)); [discriminate |].
    destruct (s_off ns <? s_off s).
    + inversion E; subst. apply (V_skip ps fsz); assumption.
    + destruct (insert_slot tl ns) as [tl' |] eqn:Ei; [| discriminate]. inversion E; subst.
      inversion HS as [| s0 tl0 Hs Hfa Ht]; subst. unfold V in *. simpl. destruct (covers s x); [reflexivity |]. eapply IH; eauto.
Qed.

Lemma V_remove : forall ps fsz f ss off ss' x, remove_slot ss off = Some ss' -> SlotsInv ps fsz ss ->
  (forall s, In s ss -> s_off s = off -> harmless s) -> V ps f ss' x = V ps f ss x.
Proof.
  intros ps fsz f ss. induction ss as [| s tl IH]; intros off ss' x E HS Hh; simpl in E; [discriminate |].
  destruct (Z.eqb_spec (s_off s) off) as [Eo | Eo].
  - inversion E; subst ss'. symmetry. apply (V_skip ps fsz); [exact HS |]. apply Hh; [left; reflexivity | exact Eo].
  - destruct (remove_slot tl off) as [tl' |] eqn:Er; [| discriminate]. inversion E; subst.
    inversion HS as [| s0 tl0 Hs Hfa Ht]; subst. unfold V in *. simpl. destruct (covers s x); [reflexivity |].
    eapply IH; eauto. intros t Hin. apply Hh. right; exact Hin.
Qed.

Lemma view_eq_V : forall st st', Inv st -> Inv st' -> fsize st' = fsize st ->
  (forall x, 0 <= x -> V (psize st') (file st') (slots st') x = V (psize st) (file st) (slots st) x) -> view st' = view st.
Proof.
  intros st st' HI HI' Hfs H. destruct (view_spec st HI) as [L0 X0]. destruct (view_spec st' HI') as [L1 X1].
  apply list_eq_znth; [lia |]. intros x Hx. rewrite X1, X0 by lia. apply H. lia.
Qed.

(* ---------------------------------------------------------------------------------------------- *)
(* 10. every call *)
(* side conditions of one call: arguments are offsets/lengths below 2^61 (no C overflow) and a size request does not push
   an unlimited file beyond 2^61 *)
Definition op_ok (st : exf) (o : op) : Prop :=
  match o with
  | OWrite off d => 0 <= off /\ off + zlen d <= LIM /\ grow_ok st (off + zlen d)
  | ORead off n => 0 <= off /\ 0 <= n /\ off + n <= LIM
  | OCopy off siz noff => 0 <= off /\ 0 <= siz /\ 0 <= noff /\ off + siz <= LIM /\ noff + siz <= LIM /\ grow_ok st (noff + siz)
  | OTruncate sz => 0 <= sz <= LIM
  | OEnsure sz => 0 <= sz <= LIM /\ grow_ok st sz
  | OAddMmap off maxlen flags => 0 <= off <= LIM /\ 0 <= maxlen < 2 ^ 64
  | _ => True
  end.

(* the call does not register a MAP_PRIVATE window *)
Definition shared_op (o : op) : Prop :=
  match o with OAddMmap _ _ flags => Z.land flags EXF_MMAP_PRIVATE = 0 | _ => True end.

(* With MAP_PRIVATE windows: the call (whose result state is st') leaves every mapped private window mapped as it is
   ("between two remaps"); a copy goes through the first window or touches no mapped private window; a window that is
   removed holds no byte written through it. *)
Definition quiet (st : exf) (o : op) (st' : exf) : Prop :=
  PrivKept st (fsize st') /\
  match o with
  | OCopy off siz noff => copy_clean (slots st') off siz noff
  | ORemoveMmap off => forall s, In s (slots st) -> s_off s = off -> harmless s
  | _ => True
  end.

Lemma vabs_shared : forall st, Shared st -> vabs st = abs st.
Proof. intros st H. unfold vabs, abs. rewrite view_shared by exact H. reflexivity. Qed.

Lemma step_refines_v : forall q ok st o r st', FixedQ q -> Inv st -> Bud ok st -> op_ok st o -> step q ok st o = (r, st') ->
  (Shared st /\ shared_op o) \/ (MapAll ok /\ Full st /\ quiet st o st') ->
  spec_step_rel (psize st) ok (vabs st) o r (vabs st') /\ Inv st' /\ Bud ok st' /\ psize st' = psize st /\ maxoff st' = maxoff st /\
  (Shared st -> shared_op o -> Shared st') /\ (MapAll ok -> Full st -> Full st').
Proof.
  intros q ok st o r st' HQ HI HB Hok E Hcase. pose proof HQ as [Hq1 _].
  assert (HR : Regime ok st) by (destruct Hcase as [[H _] | [HA [HF _]]]; [left; exact H | right; auto]).
  assert (HKp : PrivKept st (fsize st')) by (destruct Hcase as [[H _] | [_ [_ [H _]]]]; [apply PrivKept_shared; exact H | exact H]).
  destruct (view_spec st HI) as [L0 X0].
  assert (Hsame : r = r -> st' = st -> Inv st' /\ Bud ok st' /\ psize st' = psize st /\ maxoff st' = maxoff st /\
                  (Shared st -> shared_op o -> Shared st') /\ (MapAll ok -> Full st -> Full st')) by (intros _ ->; auto 8).
  destruct o; simpl in E, Hok.
  - (* write *)
    destruct Hok as [H1 [H2 H3]]. destruct (exfile_write q ok st off d) as [[rc sp] st1] eqn:Ew. inversion E; subst r st'. simpl in *.
    destruct (exfile_write_spec q ok st off d rc sp st1 Hq1 HI HB HR H1 H2 H3 Ew HKp) as [A [B [C [[D1 D2] [F G]]]]]. auto 8.
  - (* read *)
    destruct Hok as [H1 [H2 H3]]. rewrite (exfile_read_spec st off n HI (Regime_Reg _ _ HR) H1 H2 H3) in E. inversion E; subst r st'. simpl.
    split; [auto |]. apply Hsame; reflexivity.
  - (* copy *)
    destruct Hok as [H1 [H2 [H3 [H4 [H5 H6]]]]]. destruct (exfile_copy q ok st off siz noff) as [rc st1] eqn:Ec. inversion E; subst r st'. simpl in *.
    assert (Hcc : Shared st \/ copy_clean (slots st1) off siz noff) by (destruct Hcase as [[H _] | [_ [_ [_ H]]]]; [left; exact H | right; exact H]).
    destruct (exfile_copy_spec q ok st off siz noff rc st1 HQ HI HB HR H1 H2 H3 H4 H5 H6 Ec HKp Hcc) as [A [B [C [[D1 D2] [F G]]]]]. auto 8.
  - (* truncate *)
    destruct (truncate_lw ok st sz) as [rc st1] eqn:Et. inversion E; subst r st'. simpl in *.
    destruct (truncate_lw_spec ok st sz rc st1 HI HB Hok Et) as [A [B [C [D [P [F [G [R0 [RN [_ [_ [MA SP]]]]]]]]]]]].
    assert (Hv : view st1 = ftrunc (view st) (fsize st1)).
    { apply view_resize; auto. destruct Hcase as [[HSh _] | [HA [HF _]]]; [left; auto | right; auto]. }
    split.
    + destruct (SP (view st) L0) as [SP1 | [SP1 St]]; [left | right].
      * unfold vabs. rewrite Hv, D, P. exact SP1.
      * unfold spec_mapfail. simpl. split; [exact SP1 |]. do 2 (split; [reflexivity |]).
        split; [rewrite Hv, (RN ltac:(rewrite SP1; exact E_ERRNO_nz)), <- L0; apply ftrunc_id |]. split; [exact D | exact St].
    + split; [exact A |]. split; [exact B |]. split; [exact C |]. split; [exact D |].
      split; [intros HSh _; eapply GeoSame_shared; eauto | intros HA HF; unfold Full; rewrite (MA HA HF); apply pinit_full].
  - (* ensure *)
    destruct Hok as [H1 H2]. destruct (ensure_size_lw q ok st sz) as [rc st1] eqn:Ee. inversion E; subst r st'. simpl in *.
    destruct (ensure_view q ok st sz rc st1 Hq1 HI HB HR H1 H2 Ee HKp) as [A [B [[D1 D2] [F [G [Hv [_ [RN S1]]]]]]]].
    split; [| auto 8]. destruct S1 as [S1 | [S1 St]]; [left; exact S1 | right].
    unfold spec_mapfail. simpl. split; [exact S1 |]. do 2 (split; [reflexivity |]).
    split; [rewrite Hv, (RN ltac:(rewrite S1; exact E_ERRNO_nz)), <- L0; apply ftrunc_id |]. split; [exact G | exact St].
  - (* add_mmap *)
    destruct Hok as [H1 H2]. destruct (add_mmap_lw ok st off maxlen flags) as [rc st1] eqn:Ea. inversion E; subst r st'. simpl in *.
    destruct (add_mmap_lw_spec ok st off maxlen flags rc st1 HI HB H1 H2 Ea) as [A [B [Cf [Cs [Cp [Cm [Cpo [Hne [Her [_ [HSh [HFu Hins]]]]]]]]]]]].
    assert (Hv : view st1 = view st).
    { destruct (Z.eq_dec rc 0) as [Hz | Hnz]; [| rewrite (Hne Hnz); reflexivity].
      destruct (Hins Hz) as [ns [Ei [Hcl _]]]. apply view_eq_V; auto. intros x Hx. rewrite Cp, Cf.
      apply (V_insert (psize st) (fsize st) _ _ _ _ _ Ei); [rewrite <- Cp, <- Cs; exact (inv_slots st1 A) | right; right; exact Hcl]. }
    split; [split; [unfold vabs; rewrite Hv, Cm, Cpo; reflexivity | exact Her] |]. auto 8.
  - (* remove_mmap *)
    destruct (remove_mmap_lw st off) as [rc st1] eqn:Er. inversion E; subst r st'. simpl in *.
    destruct (remove_mmap_lw_spec ok st off rc st1 HI HB Er) as [A [B [Cf [Cs [Cp [Cm [Cpo [Hne [_ [HSh [HFu Hrm]]]]]]]]]]].
    assert (Hv : view st1 = view st).
    { destruct (Z.eq_dec rc 0) as [Hz | Hnz]; [| rewrite (Hne Hnz); reflexivity].
      apply view_eq_V; auto. intros x Hx. rewrite Cp, Cf.
      apply (V_remove (psize st) (fsize st) _ _ _ _ _ (Hrm Hz) (inv_slots st HI)).
      destruct Hcase as [[HS _] | [_ [_ [_ Hh]]]]; [| exact Hh].
      intros s Hin _. left. unfold Shared, SharedL in HS. rewrite Forall_forall in HS. exact (HS s Hin). }
    split; [unfold vabs; rewrite Hv, Cm, Cpo; reflexivity |]. auto 8.
  - (* remap_all *)
    destruct (remap_all ok st) as [rc st1] eqn:Er. inversion E; subst r st'. simpl in *.
    destruct (remap_all_spec ok st rc st1 HI HB Er) as [A [B [Cf [Cs [Cp [Cm [Cpo [G [D1 HFu]]]]]]]]].
    assert (Hv : view st1 = view st).
    { destruct Hcase as [[HSh _] | [_ [HF _]]].
      - apply view_same; auto. + rewrite Cf, Cs. symmetry. rewrite <- (inv_file st HI). apply ftrunc_id.
      - destruct (HFu HF) as [-> _]. reflexivity. }
    split. { split; [unfold vabs; rewrite Hv, Cm, Cpo; reflexivity |]. intros Hrc. destruct D1 as [D1 | [_ D1]]; [| exact D1].
             exfalso. rewrite D1 in Hrc. exact (E_ERRNO_nz (eq_sym Hrc)). }
    split; [exact A |]. split; [exact B |]. split; [exact Cp |]. split; [exact Cm |].
    split; [intros HSh _; eapply GeoSame_shared; eauto | intros _ HF; destruct (HFu HF) as [-> _]; exact HF].
  - inversion E; subst r st'. split; [reflexivity | apply Hsame; reflexivity].
  - destruct (probe_mmap (slots st) off) as [rc sp]. inversion E; subst r st'. split; [reflexivity | apply Hsame; reflexivity].
  - destruct (acquire_mmap (slots st) off) as [rc sp]. inversion E; subst r st'. split; [reflexivity | apply Hsame; reflexivity].
  - inversion E; subst r st'. split; [reflexivity | apply Hsame; reflexivity].
  - inversion E; subst r st'. split; [reflexivity | apply Hsame; reflexivity].
  - inversion E; subst r st'. simpl. split; [split; [reflexivity | split; [reflexivity | simpl; symmetry; exact L0]] | apply Hsame; reflexivity].
Qed.

(* ---------------------------------------------------------------------------------------------- *)
(* 11. every history *)
(* (A) MAP_SHARED windows; the operating system may refuse to grow the file and to map windows *)
Fixpoint RunOk (q : quirks) (ok : os_ok) (st : exf) (os : list op) : Prop :=
  match os with
  | [] => True
  | o :: tl => op_ok st o /\ shared_op o /\ RunOk q ok (snd (step q ok st o)) tl
  end.

Lemma run_refines : forall q ok os st rs st', FixedQ q -> Inv st -> Bud ok st -> Shared st -> RunOk q ok st os -> run q ok st os = (rs, st') ->
  spec_run_rel (psize st) ok (abs st) os rs (abs st') /\ Inv st' /\ Bud ok st' /\ Shared st' /\ psize st' = psize st /\ maxoff st' = maxoff st.
Proof.
  intros q ok os. induction os as [| o tl IH]; intros st rs st' HQ HI HB HS Hok E; simpl in E.
  - inversion E; subst. split; [constructor | auto 6].
  - destruct Hok as [Ho [Hso Ht]]. destruct (step q ok st o) as [r st1] eqn:Es. simpl in Ht.
    destruct (run q ok st1 tl) as [rs1 st2] eqn:Er. inversion E; subst rs st'. clear E.
    destruct (step_refines_v q ok st o r st1 HQ HI HB Ho Es (or_introl (conj HS Hso))) as [A [B [C [D [F [G _]]]]]].
    specialize (G HS Hso).
    destruct (IH st1 rs1 st2 HQ B C G Ht Er) as [A' [B' [C' [G' [D' F']]]]].
    split; [| split; [exact B' | split; [exact C' | split; [exact G' | split; congruence]]]].
    apply SR_cons with (a1 := abs st1); [rewrite <- (vabs_shared st HS), <- (vabs_shared st1 G); exact A |]. rewrite <- D. exact A'.
Qed.

(* (B) MAP_PRIVATE windows allowed; mmap is not refused; between remaps *)
Fixpoint PRunOk (q : quirks) (ok : os_ok) (st : exf) (os : list op) : Prop :=
  match os with
  | [] => True
  | o :: tl => op_ok st o /\ quiet st o (snd (step q ok st o)) /\ PRunOk q ok (snd (step q ok st o)) tl
  end.

Lemma run_refines_private : forall q ok os st rs st', FixedQ q -> MapAll ok -> Inv st -> Full st -> PRunOk q ok st os ->
  run q ok st os = (rs, st') ->
  spec_run_rel (psize st) ok (vabs st) os rs (vabs st') /\ Inv st' /\ Full st' /\ psize st' = psize st /\ maxoff st' = maxoff st.
Proof.
  intros q ok os. induction os as [| o tl IH]; intros st rs st' HQ HA HI HF Hok E; simpl in E.
  - inversion E; subst. split; [constructor | auto 6].
  - destruct Hok as [Ho [Hqu Ht]]. destruct (step q ok st o) as [r st1] eqn:Es. simpl in Ht, Hqu.
    destruct (run q ok st1 tl) as [rs1 st2] eqn:Er. inversion E; subst rs st'. clear E.
    destruct (step_refines_v q ok st o r st1 HQ HI (MapAll_Bud ok _ HA) Ho Es (or_intror (conj HA (conj HF Hqu)))) as [A [B [C [D [F [_ G]]]]]].
    specialize (G HA HF).
    destruct (IH st1 rs1 st2 HQ HA B G Ht Er) as [A' [B' [G' [D' F']]]].
    split; [| split; [exact B' | split; [exact G' | split; congruence]]].
    apply SR_cons with (a1 := vabs st1); [exact A |]. rewrite <- D. exact A'.
Qed.

(* the size rules, read off the invariant: page aligned, below maxoff, equal to the length of the file on disk *)
Lemma size_inv : forall q ok os st rs st', FixedQ q -> Inv st -> Bud ok st -> Shared st -> RunOk q ok st os -> run q ok st os = (rs, st') ->
  fsize st' mod psize st' = 0 /\ (maxoff st' = 0 \/ fsize st' <= maxoff st') /\ zlen (file st') = fsize st' /\
  maxoff st' = maxoff st.
Proof.
  intros q ok os st rs st' HQ HI HB HS Hok E. destruct (run_refines q ok os st rs st' HQ HI HB HS Hok E) as [_ [I' [_ [_ [_ M]]]]].
  pose proof (inv_fs st' I') as [_ H2]. pose proof (inv_mo st' I') as [_ [_ H3]]. pose proof (inv_file st' I'). auto.
Qed.

Lemma size_inv_private : forall q ok os st rs st', FixedQ q -> MapAll ok -> Inv st -> Full st -> PRunOk q ok st os -> run q ok st os = (rs, st') ->
  fsize st' mod psize st' = 0 /\ (maxoff st' = 0 \/ fsize st' <= maxoff st') /\ zlen (file st') = fsize st' /\
  maxoff st' = maxoff st.
Proof.
  intros q ok os st rs st' HQ HA HI HF Hok E. destruct (run_refines_private q ok os st rs st' HQ HA HI HF Hok E) as [_ [I' [_ [_ M]]]].
  pose proof (inv_fs st' I') as [_ H2]. pose proof (inv_mo st' I') as [_ [_ H3]]. pose proof (inv_file st' I'). auto.
Qed.

(* ... and it is what the next open sees: opening the file left behind (no initial size) yields the same size and content *)
Lemma reopen_same : forall q ok st mo p, Inv st -> psize st = EXF_PSIZE -> (mo <= 0 \/ EXF_PSIZE <= mo) ->
  exists st2, exfile_open q ok (file st) 0 mo p = (0, st2) /\ fsize st2 = fsize st /\ file st2 = file st.
Proof.
  intros q ok st mo p HI Hps Hmo. pose proof (inv_fs st HI) as [Hf1 Hf2]. pose proof (inv_file st HI) as Hfl. pose proof LIM_val.
  pose proof (inv_ps st HI) as HP. rewrite Hps in *.
  unfold exfile_open. rewrite Hfl.
  replace (q_maxoff_small q && (0 <? mo) && (mo <? EXF_PSIZE)) with false
    by (destruct (Z.ltb_spec 0 mo), (Z.ltb_spec mo EXF_PSIZE); rewrite ?andb_false_r; try reflexivity; lia).
  destruct (Z.ltb_spec (fsize st) 0); [lia |].
  rewrite aligned_ps by (auto; lia). rewrite Hf2. simpl. eexists. split; [reflexivity |]. simpl. auto.
Qed.

(* the state right after iwfs_exfile_open satisfies the invariant (no window yet: shared, full, within every budget) *)
Lemma open_inv : forall q ok f initial mo p rc st, PsOk EXF_PSIZE -> zlen f <= LIM -> 0 <= initial <= LIM -> 0 <= mo <= LIM ->
  (mo < EXF_PSIZE \/ zlen f <= mo / EXF_PSIZE * EXF_PSIZE) -> pol_ok p ->
  exfile_open q ok f initial mo p = (rc, st) -> rc = 0 -> Inv st /\ psize st = EXF_PSIZE /\ slots st = [].
Proof.
  intros q ok f initial mo p rc st HP Hfl Hini Hmo Hmo2 Hp E Hrc. pose proof (PsOk_pos _ HP) as Hps. pose proof LIM_val as EL.
  pose proof (zlen_nonneg f) as Hfn.
  unfold exfile_open in E.
  set (m := if mo >=? EXF_PSIZE then IW_ROUNDOWN mo EXF_PSIZE else 0) in E.
  assert (Hm : 0 <= m <= LIM /\ m mod EXF_PSIZE = 0 /\ (m = 0 \/ zlen f <= m)).
  { unfold m. destruct (Z.geb_spec mo EXF_PSIZE).
    - rewrite rounddown_ps by (auto; lia). split; [| split].
      + split; [apply Z.mul_nonneg_nonneg; [apply Z.div_pos; lia | lia] |].
        pose proof (Z.mul_div_le mo EXF_PSIZE ltac:(lia)). lia.
      + apply Z.mod_mul; lia.
      + right. lia.
    - split; [lia |]. split; [apply Z.mod_0_l; lia |]. left; reflexivity. }
  destruct Hm as [Hm1 [Hm2 Hm3]].
  set (st0 := mkExf f (zlen f) m EXF_PSIZE [] p) in E.
  (* st0 satisfies everything but alignment of the size; truncate_lw only needs the other parts *)
  assert (Htr : forall size rc1 st1, 0 <= size <= LIM -> zlen f <= size -> truncate_lw ok st0 size = (rc1, st1) -> rc1 = 0 ->
                Inv st1 /\ psize st1 = EXF_PSIZE /\ slots st1 = []).
  { intros size rc1 st1 Hs Hge Et Hrc1. subst rc1. unfold truncate_lw in Et. destruct (Z.ltb_spec size 0); [lia |]. simpl in Et.
    rewrite uw_small in Et by lia. rewrite roundup_ps in Et by (auto; lia).
    set (n := rup size EXF_PSIZE) in Et.
    assert (Hn : 0 <= n <= LIM) by (split; [apply rup_nonneg; lia | apply rup_le_aligned; try lia; apply LIM_mod; auto]).
    assert (Hnm : n mod EXF_PSIZE = 0) by (apply rup_mod; lia).
    assert (Hng : size <= n) by (apply rup_ge; lia).
    destruct (Z.eqb_spec (zlen f) n) as [Een | Een].
    - inversion Et; subst st1. split; [| split; reflexivity].
      apply mkInv'; [exact HP | lia | rewrite Een; exact Hnm | reflexivity | lia | exact Hm2 | destruct Hm3; [left; assumption | right; lia] | exact Hp | constructor].
    - destruct (Z.ltb_spec (zlen f) n); [| lia].
      destruct (negb (m =? 0) && (n >? m)) eqn:Emo; [discriminate Et |].
      destruct (os_grow ok n); simpl in Et; [| discriminate Et]. inversion Et; subst st1.
      split; [| split; reflexivity].
      apply mkInv'; [exact HP | lia | exact Hnm | apply zlen_ftrunc; lia | lia | exact Hm2 | | exact Hp | constructor].
      destruct (Z.eqb_spec m 0); [left; assumption |]. simpl in Emo.
      rewrite Z.gtb_ltb in Emo. apply Z.ltb_ge in Emo. right; lia. }
  destruct (q_maxoff_small q && (0 <? mo) && (mo <? EXF_PSIZE)); [exfalso; inversion E as [[E1 E2]]; rewrite Hrc in E1; discriminate E1 |].
  destruct (Z.ltb_spec (zlen f) initial).
  - apply (Htr initial rc st); auto; lia.
  - destruct (aligned (zlen f) EXF_PSIZE) eqn:Eal; simpl in E.
    + inversion E; subst rc st. split; [| split; reflexivity]. rewrite aligned_ps in Eal by (auto; lia). apply Z.eqb_eq in Eal.
      apply mkInv'; [exact HP | lia | exact Eal | reflexivity | lia | exact Hm2 | exact Hm3 | exact Hp | constructor].
    + apply (Htr (zlen f) rc st); auto; lia.
Qed.

Lemma no_slots_regime : forall ok st, MapMono ok -> os_map ok 0 = true -> slots st = [] -> Shared st /\ Full st /\ Bud ok st.
Proof.
  intros ok st HM H0 Hs. unfold Shared, Full, Bud, BudL, SharedL, FullL. rewrite Hs. simpl. repeat split; auto.
Qed.

(* ---------------------------------------------------------------------------------------------- *)
(* 12. the refusals of the operating system.  No side condition on the arguments is needed here (they may wrap).
   (a) a call that answers the I/O error (growth refused) or IW_ERROR_ERRNO (a window cannot be mapped) has left the bytes of the
       file, the size and the limit as they were; the windows are the same windows (offset, maximal length, kind), possibly
       remapped or left unmapped;
   (b) when no refused mapping was outstanding, a refused growth changes nothing but, possibly, the context of the policy;
   (c) whenever the reported size has grown, the operating system accepted exactly that size. *)
Definition os_facts (ok : os_ok) (st : exf) (rc : Z) (st' : exf) : Prop :=
  ((rc = EXF_E_IO \/ rc = EXF_E_ERRNO) -> file st' = file st /\ fsize st' = fsize st /\ GeoSame (slots st) (slots st')) /\
  maxoff st' = maxoff st /\ psize st' = psize st /\
  (Full st -> rc = EXF_E_IO -> st' = set_pol st (pol st')) /\
  (fsize st < fsize st' -> os_grow ok (fsize st') = true).

Lemma os_facts_same : forall ok st rc, rc <> EXF_E_IO -> rc <> EXF_E_ERRNO -> os_facts ok st rc st.
Proof.
  intros ok st rc H1 H2. unfold os_facts. split; [intros [H | H]; contradiction |]. do 2 (split; [reflexivity |]).
  split; [intros _ H; contradiction | intros; lia].
Qed.

Lemma truncate_lw_os : forall ok st size rc st', zlen (file st) = fsize st -> lens_ok (slots st) -> Bud ok st ->
  truncate_lw ok st size = (rc, st') -> os_facts ok st rc st' /\ pol st' = pol st.
Proof.
  intros ok st size rc st' Hfl HL HB E. unfold truncate_lw in E.
  destruct (size <? 0); [inversion E; subst rc st'; split; [apply os_facts_same; discriminate | reflexivity] |]. cbv zeta in E.
  set (n := IW_ROUNDUP (uw 64 size) (psize st)) in E.
  destruct (Z.eqb_spec (fsize st) n) as [Heq | Hne].
  { inversion E; subst rc st'. split; [apply os_facts_same; discriminate | reflexivity]. }
  destruct (Z.ltb_spec (fsize st) n) as [Hlt | Hge].
  - destruct (negb (maxoff st =? 0) && (n >? maxoff st)).
    { inversion E; subst rc st'. split; [apply os_facts_same; discriminate | reflexivity]. }
    destruct (os_grow ok n) eqn:Eok; simpl in E.
    + destruct (initmmap ok (psize st) n (slots st)) as [rc1 ss1] eqn:Ei.
      destruct (initmmap_res ok _ _ _ _ _ HB HL Ei) as [R1 [B1 [_ D1]]].
      destruct (Z.eqb_spec rc1 0) as [Hz | Hnz].
      * inversion E; subst rc st'. split; [| reflexivity]. unfold os_facts. simpl.
        split; [intros [H | H]; discriminate H |]. do 2 (split; [reflexivity |]). split; [intros _ H; discriminate H | intros _; exact Eok].
      * destruct D1 as [D1 | [D1 _]]; [contradiction |]. subst rc1.
        destruct (initmmap ok (psize st) (fsize st) ss1) as [rc2 ss2] eqn:Ei2.
        destruct (initmmap_res ok _ _ _ _ _ B1 (InitRes_lens _ _ _ _ R1 HL) Ei2) as [R2 _].
        simpl in E. inversion E; subst rc st'. split; [| reflexivity]. unfold os_facts. simpl.
        split. { intros _. split; [apply ftrunc_back; [exact Hfl | lia] |]. split; [reflexivity |].
                 eapply GeoSame_trans; eapply InitRes_geo; eassumption. }
        do 2 (split; [reflexivity |]). split; [intros _ H; exfalso; apply E_IO_ERRNO; symmetry; exact H | intros; lia].
    + destruct (initmmap ok (psize st) (fsize st) (slots st)) as [rc1 ss1] eqn:Ei.
      destruct (initmmap_res ok _ _ _ _ _ HB HL Ei) as [R1 _].
      simpl in E. inversion E; subst rc st'. split; [| reflexivity]. unfold os_facts. simpl.
      split; [intros _; split; [reflexivity | split; [reflexivity | eapply InitRes_geo; eassumption]] |].
      do 2 (split; [reflexivity |]). split; [| intros; lia].
      intros HF _. unfold initmmap in Ei. rewrite initmmap_from_full in Ei by exact HF. inversion Ei; subst ss1.
      rewrite set_slots_id. symmetry. apply set_pol_same.
  - destruct (initmmap ok (psize st) n (slots st)) as [rc1 ss1] eqn:Ei.
    destruct (initmmap_res ok _ _ _ _ _ HB HL Ei) as [R1 [B1 [_ D1]]].
    destruct (Z.eqb_spec rc1 0) as [Hz | Hnz].
    + inversion E; subst rc st'. split; [| reflexivity]. unfold os_facts. simpl.
      split; [intros [H | H]; discriminate H |]. do 2 (split; [reflexivity |]). split; [intros _ H; discriminate H | intros; lia].
    + destruct D1 as [D1 | [D1 _]]; [contradiction |]. subst rc1.
      destruct (initmmap ok (psize st) (fsize st) ss1) as [rc2 ss2] eqn:Ei2.
      destruct (initmmap_res ok _ _ _ _ _ B1 (InitRes_lens _ _ _ _ R1 HL) Ei2) as [R2 _].
      simpl in E. inversion E; subst rc st'. split; [| reflexivity]. unfold os_facts. simpl.
      split; [intros _; split; [reflexivity | split; [reflexivity | eapply GeoSame_trans; eapply InitRes_geo; eassumption]] |].
      do 2 (split; [reflexivity |]). split; [intros _ H; exfalso; apply E_IO_ERRNO; symmetry; exact H | intros; lia].
Qed.

Lemma ensure_size_lw_os : forall q ok st sz rc st', zlen (file st) = fsize st -> lens_ok (slots st) -> Bud ok st ->
  ensure_size_lw q ok st sz = (rc, st') -> os_facts ok st rc st'.
Proof.
  intros q ok st sz rc st' Hfl HL HB E. unfold ensure_size_lw in E.
  destruct (sz <? 0); [inversion E; subst rc st'; apply os_facts_same; discriminate |].
  destruct (fsize st >=? uw 64 sz).
  { inversion E; subst rc st'. apply os_facts_same; discriminate. }
  destruct (policy_call q (psize st) (pol st) sz (fsize st)) as [nsz pol'].
  assert (Hpol : forall x, x <> EXF_E_IO -> x <> EXF_E_ERRNO -> os_facts ok st x (set_pol st pol')).
  { intros x H1 H2. unfold os_facts. simpl. split; [intros [H | H]; contradiction |]. do 2 (split; [reflexivity |]).
    split; [intros _ H; contradiction | intros; lia]. }
  assert (Htr : forall n, truncate_lw ok (set_pol st pol') n = (rc, st') -> os_facts ok st rc st').
  { intros n Et. destruct (truncate_lw_os ok (set_pol st pol') n rc st' Hfl HL HB Et) as [[A [B [C [D F]]]] P]. simpl in *.
    unfold os_facts. split; [exact A |]. split; [exact B |]. split; [exact C |]. split; [| exact F].
    intros HF Hrc. rewrite (D HF Hrc). simpl. reflexivity. }
  destruct ((nsz <? sz) || negb (aligned nsz (psize st))).
  { inversion E; subst rc st'. apply Hpol; discriminate. }
  destruct (negb (maxoff st =? 0) && (uw 64 nsz >? maxoff st)).
  - destruct (sw 64 (maxoff st) <? sz).
    + inversion E; subst rc st'. apply Hpol; discriminate.
    + exact (Htr _ E).
  - exact (Htr _ E).
Qed.

(* what the later part of a call (after its size request) may do: it answers neither of the two refusals and keeps size,
   limit and page size *)
Lemma os_facts_then : forall ok st rc1 st1 rc st', os_facts ok st rc1 st1 -> rc1 = 0 ->
  rc <> EXF_E_IO -> rc <> EXF_E_ERRNO -> fsize st' = fsize st1 -> maxoff st' = maxoff st1 -> psize st' = psize st1 ->
  os_facts ok st rc st'.
Proof.
  intros ok st rc1 st1 rc st' [A [B [C [D F]]]] Hz H1 H2 Hf Hm Hp. unfold os_facts.
  split; [intros [H | H]; contradiction |]. split; [congruence |]. split; [congruence |].
  split; [intros _ H; contradiction | rewrite Hf; exact F].
Qed.

Lemma exfile_write_os : forall q ok st off data rc sp st', zlen (file st) = fsize st -> lens_ok (slots st) -> Bud ok st ->
  exfile_write q ok st off data = (rc, sp, st') -> os_facts ok st rc st' /\ (rc <> 0 -> sp = 0).
Proof.
  intros q ok st off data rc sp st' Hfl HL HB E. unfold exfile_write in E. cbv zeta in E.
  destruct ((off <? 0) || (sw 64 (off + zlen data) <? 0)).
  { inversion E; subst rc sp st'. split; [apply os_facts_same; discriminate | reflexivity]. }
  destruct (negb (maxoff st =? 0) && (uw 64 (off + zlen data) >? maxoff st)).
  { inversion E; subst rc sp st'. split; [apply os_facts_same; discriminate | reflexivity]. }
  assert (Hens : forall rc1 st1, (if sw 64 (off + zlen data) >? fsize st then ensure_size_lw q ok st (sw 64 (off + zlen data)) else (0, st)) = (rc1, st1) ->
                 os_facts ok st rc1 st1).
  { intros rc1 st1 E1. destruct (sw 64 (off + zlen data) >? fsize st).
    - exact (ensure_size_lw_os q ok st _ rc1 st1 Hfl HL HB E1).
    - inversion E1; subst rc1 st1. apply os_facts_same; discriminate. }
  destruct (if sw 64 (off + zlen data) >? fsize st then ensure_size_lw q ok st (sw 64 (off + zlen data)) else (0, st)) as [rc1 st1] eqn:E1.
  pose proof (Hens rc1 st1 eq_refl) as H1.
  destruct (Z.eqb_spec rc1 0) as [Hz | Hnz]; simpl in E.
  - destruct (write_pieces (psize st1) (split_all (slots st1) off (zlen data)) data (file st1) (slots st1)) as [[f' ss'] |].
    + inversion E; subst rc sp st'. split; [| intros H; contradiction]. eapply os_facts_then; eauto; discriminate.
    + inversion E; subst rc sp st'. split; [| reflexivity]. eapply os_facts_then; eauto; discriminate.
  - inversion E; subst rc sp st'. split; [exact H1 | reflexivity].
Qed.

Lemma exfile_copy_os : forall q ok st off siz noff rc st', zlen (file st) = fsize st -> lens_ok (slots st) -> Bud ok st ->
  exfile_copy q ok st off siz noff = (rc, st') -> os_facts ok st rc st'.
Proof.
  intros q ok st off siz noff rc st' Hfl HL HB E. unfold exfile_copy in E.
  assert (Hens : forall rc0 st0, (if q_copy_ensures q then ensure_size_lw q ok st (sw 64 (noff + siz)) else (0, st)) = (rc0, st0) ->
                 os_facts ok st rc0 st0).
  { intros rc0 st0 E0. destruct (q_copy_ensures q).
    - exact (ensure_size_lw_os q ok st _ rc0 st0 Hfl HL HB E0).
    - inversion E0; subst rc0 st0. apply os_facts_same; discriminate. }
  destruct (if q_copy_ensures q then ensure_size_lw q ok st (sw 64 (noff + siz)) else (0, st)) as [rc0 st0] eqn:E0.
  pose proof (Hens rc0 st0 eq_refl) as H0.
  destruct (Z.eqb_spec rc0 0) as [Hz | Hnz]; simpl in E.
  2:{ inversion E; subst rc st'. exact H0. }
  assert (Hfile : forall rcf stf, (let '(rc, f') := file_copy q (file st0) off siz noff in (rc, set_file st0 f')) = (rcf, stf) ->
                  os_facts ok st rcf stf).
  { intros rcf stf Ef. unfold file_copy in Ef.
    destruct (negb (IW_RANGES_OVERLAP off (off + siz) noff (noff + siz) =? 0) && (noff >? off)); [destruct (q_copy_fwd q) |];
      inversion Ef; subst rcf stf; (eapply os_facts_then; eauto; discriminate). }
  destruct (slots st0) as [| s tl]; [exact (Hfile rc st' E) |].
  destruct ((0 <? s_len s) && (s_off s =? 0) && (s_len s >=? uw 64 (noff + siz))); [| exact (Hfile rc st' E)].
  destruct (q_copy_src q && negb (s_len s >=? uw 64 (off + siz))); [exact (Hfile rc st' E) |].
  destruct (win_read (psize st0) (file st0) s off siz) as [b |].
  - destruct (win_write (psize st0) (file st0) s noff b) as [[s' f'] |];
      inversion E; subst rc st'; (eapply os_facts_then; eauto; discriminate).
  - inversion E; subst rc st'. eapply os_facts_then; eauto; discriminate.
Qed.

Lemma sync_mmap_rc : forall ss off, sync_mmap ss off = 0 \/ sync_mmap ss off = EXF_E_NOTMM.
Proof. induction ss as [| s tl IH]; intros off; simpl; [auto |]. destruct (s_off s =? off); [destruct (s_len s =? 0); auto | apply IH]. Qed.

Lemma step_os : forall q ok st o r st', Inv st -> Bud ok st -> step q ok st o = (r, st') ->
  ((o_rc r = EXF_E_IO \/ o_rc r = EXF_E_ERRNO) ->
     file st' = file st /\ fsize st' = fsize st /\ maxoff st' = maxoff st /\ GeoSame (slots st) (slots st') /\ o_sp r = 0) /\
  (Full st -> o_rc r = EXF_E_IO -> st' = set_pol st (pol st')) /\
  (fsize st < fsize st' -> os_grow ok (fsize st') = true).
Proof.
  intros q ok st o r st' HI HB E. pose proof (inv_file st HI) as Hfl. pose proof (SlotsInv_lens _ _ _ (inv_slots st HI)) as HL.
  assert (Hfin : forall rc sp d, os_facts ok st rc st' -> (rc <> 0 -> sp = 0) -> r = mkOut rc sp d ->
    ((o_rc r = EXF_E_IO \/ o_rc r = EXF_E_ERRNO) ->
       file st' = file st /\ fsize st' = fsize st /\ maxoff st' = maxoff st /\ GeoSame (slots st) (slots st') /\ o_sp r = 0) /\
    (Full st -> o_rc r = EXF_E_IO -> st' = set_pol st (pol st')) /\
    (fsize st < fsize st' -> os_grow ok (fsize st') = true)).
  { intros rc sp d [A [B [C [D F]]]] Hsp ->. simpl. split; [| split; [exact D | exact F]].
    intros Hrc. destruct (A Hrc) as [A1 [A2 A3]]. repeat split; auto. apply Hsp. destruct Hrc as [-> | ->]; discriminate. }
  assert (Hnone : forall rc sp d, st' = st -> rc <> EXF_E_IO -> rc <> EXF_E_ERRNO -> r = mkOut rc sp d ->
    ((o_rc r = EXF_E_IO \/ o_rc r = EXF_E_ERRNO) ->
       file st' = file st /\ fsize st' = fsize st /\ maxoff st' = maxoff st /\ GeoSame (slots st) (slots st') /\ o_sp r = 0) /\
    (Full st -> o_rc r = EXF_E_IO -> st' = set_pol st (pol st')) /\
    (fsize st < fsize st' -> os_grow ok (fsize st') = true)).
  { intros rc sp d -> H1 H2 ->. simpl. split; [intros [H | H]; contradiction |]. split; [intros _ H; contradiction | intros; lia]. }
  destruct o; simpl in E.
  - destruct (exfile_write q ok st off d) as [[rc sp] st1] eqn:Ew. inversion E; subst r st'.
    destruct (exfile_write_os q ok st off d rc sp st1 Hfl HL HB Ew) as [A B]. eapply Hfin; eauto.
  - destruct (exfile_read st off n) as [[rc sp] b] eqn:Er. inversion E; subst r st'.
    assert (rc = 0 \/ rc = EXF_E_OOB \/ rc = EXF_CRASH).
    { unfold exfile_read in Er. destruct ((off <? 0) || (sw 64 (off + n) <? 0)); [inversion Er; auto |].
      destruct (read_pieces _ _ _ _); inversion Er; auto. }
    eapply Hnone; eauto; destruct H as [-> | [-> | ->]]; discriminate.
  - destruct (exfile_copy q ok st off siz noff) as [rc st1] eqn:Ec. inversion E; subst r st'.
    pose proof (exfile_copy_os q ok st off siz noff rc st1 Hfl HL HB Ec) as A. eapply Hfin; eauto.
  - destruct (truncate_lw ok st sz) as [rc st1] eqn:Et. inversion E; subst r st'.
    destruct (truncate_lw_os ok st sz rc st1 Hfl HL HB Et) as [A _]. eapply Hfin; eauto.
  - destruct (ensure_size_lw q ok st sz) as [rc st1] eqn:Ee. inversion E; subst r st'.
    pose proof (ensure_size_lw_os q ok st sz rc st1 Hfl HL HB Ee) as A. eapply Hfin; eauto.
  - destruct (add_mmap_lw ok st off maxlen flags) as [rc st1] eqn:Ea. inversion E; subst r st'. simpl.
    unfold add_mmap_lw in Ea.
    assert (Hu : forall x, x <> EXF_E_IO -> (x, st) = (rc, st1) ->
      ((rc = EXF_E_IO \/ rc = EXF_E_ERRNO) -> file st1 = file st /\ fsize st1 = fsize st /\ maxoff st1 = maxoff st /\ GeoSame (slots st) (slots st1) /\ 0 = 0) /\
      (Full st -> rc = EXF_E_IO -> st1 = set_pol st (pol st1)) /\ (fsize st < fsize st1 -> os_grow ok (fsize st1) = true)).
    { intros x Hx Ex. inversion Ex; subst. split; [intros _; repeat split; auto; apply GeoSame_refl |]. split; [intros _ H; contradiction | intros; lia]. }
    destruct (negb (aligned off (psize st))); [apply (Hu EXF_E_NOT_ALIGNED ltac:(discriminate) Ea) |].
    destruct (round_maxlen (psize st) off maxlen =? 0); [apply (Hu EXF_E_OOB ltac:(discriminate) Ea) |].
    destruct (initmmap_slot ok (psize st) (fsize st) (mapped_total (slots st)) _) as [rc1 ns] eqn:Es.
    destruct (initmmap_slot_cases _ _ _ _ _ _ _ Es) as [[-> _] | [-> _]]; simpl in Ea; [| apply (Hu EXF_E_ERRNO ltac:(discriminate) Ea)].
    destruct (insert_slot (slots st) ns); [| apply (Hu EXF_E_OVERLAP ltac:(discriminate) Ea)].
    inversion Ea; subst. simpl. split; [intros [H | H]; discriminate H |]. split; [intros _ H; discriminate H | intros; lia].
  - destruct (remove_mmap_lw st off) as [rc st1] eqn:Er. inversion E; subst r st'. simpl.
    unfold remove_mmap_lw in Er.
    destruct (remove_slot _ _); inversion Er; subst; simpl; (split; [intros [H | H]; discriminate H |]; split; [intros _ H; discriminate H | intros; lia]).
  - destruct (remap_all ok st) as [rc st1] eqn:Er. inversion E; subst r st'. simpl.
    destruct (remap_all_spec ok st rc st1 HI HB Er) as [_ [_ [Cf [Cs [Cp [Cm [Cpo [G [D1 HFu]]]]]]]]].
    split; [intros _; repeat split; auto |]. split; [| intros; lia].
    intros HF _. destruct (HFu HF) as [-> _]. symmetry. apply set_pol_same.
  - inversion E; subst r st'. eapply Hnone; try reflexivity; discriminate.
  - destruct (probe_mmap (slots st) off) as [rc sp] eqn:Ep. inversion E; subst r st'.
    assert (rc = 0 \/ rc = EXF_E_NOTMM).
    { clear -Ep. revert Ep. induction (slots st) as [| s tl IH]; simpl; intros Ep; [inversion Ep; auto |].
      destruct (s_off s =? off); [destruct (s_len s =? 0); inversion Ep; auto | exact (IH Ep)]. }
    eapply Hnone; eauto; destruct H as [-> | ->]; discriminate.
  - destruct (acquire_mmap (slots st) off) as [rc sp] eqn:Ep. inversion E; subst r st'.
    assert (rc = 0 \/ rc = EXF_E_NOTMM).
    { clear -Ep. revert Ep. induction (slots st) as [| s tl IH]; simpl; intros Ep; [inversion Ep; auto |].
      destruct (s_off s =? off); [destruct (negb (s_len s =? 0)); inversion Ep; auto | exact (IH Ep)]. }
    eapply Hnone; eauto; destruct H as [-> | ->]; discriminate.
  - inversion E; subst r st'. eapply Hnone; try reflexivity; discriminate.
  - inversion E; subst r st'.
    eapply Hnone; try reflexivity; destruct (sync_mmap_rc (slots st) off) as [-> | ->]; discriminate.
  - inversion E; subst r st'. eapply Hnone; try reflexivity; discriminate.
Qed.

(* on the flat array: a refused size change answers the I/O error and keeps every byte; an accepted one answers 0 *)
Lemma spec_grow_refused : forall ok a n p, zlen (a_bytes a) < n -> os_grow ok n = false ->
  spec_grow ok a n p = (EXF_E_IO, mkFlat (a_bytes a) (a_maxoff a) p).
Proof.
  intros ok a n p Hn Hok. unfold spec_grow. destruct (Z.ltb_spec (zlen (a_bytes a)) n); [| lia]. rewrite Hok. reflexivity.
Qed.

(* the model: a growth within the rules that the operating system refuses is answered with the I/O error and the state - size,
   file, windows - is exactly the one before the call (no refused mapping outstanding) *)
Lemma truncate_lw_refused : forall ok st size, Inv st -> Full st -> 0 <= size <= LIM ->
  fsize st < rup size (psize st) -> (maxoff st = 0 \/ rup size (psize st) <= maxoff st) ->
  os_grow ok (rup size (psize st)) = false -> truncate_lw ok st size = (EXF_E_IO, st).
Proof.
  intros ok st size HI HF Hs Hlt Hmo Hok. pose proof (inv_ps st HI) as HP. pose proof (PsOk_pos _ HP). pose proof LIM_val as EL.
  unfold truncate_lw. destruct (Z.ltb_spec size 0); [lia |]. rewrite uw_small by lia. rewrite roundup_ps by (auto; lia). cbv zeta.
  destruct (Z.eqb_spec (fsize st) (rup size (psize st))); [lia |].
  destruct (Z.ltb_spec (fsize st) (rup size (psize st))); [| lia]. rewrite Hok. simpl.
  unfold initmmap. rewrite initmmap_from_full by exact HF. simpl. rewrite set_slots_id.
  destruct (Z.eqb_spec (maxoff st) 0); simpl; [reflexivity |].
  destruct (Z.gtb_spec (rup size (psize st)) (maxoff st)); [lia | reflexivity].
Qed.

(* ... and a growth the operating system grants while a window that has to grow with it cannot be mapped: the answer is
   IW_ERROR_ERRNO, the size and every byte are those before the call, and the window is served through the file from now on *)
Lemma truncate_lw_mapfail : forall ok st size s tl, Inv st -> 0 <= size <= LIM -> slots st = s :: tl ->
  fsize st < rup size (psize st) -> (maxoff st = 0 \/ rup size (psize st) <= maxoff st) ->
  os_grow ok (rup size (psize st)) = true ->
  slot_nlen (rup size (psize st)) s <> s_len s ->
  os_map ok (mapped_total tl + slot_nlen (rup size (psize st)) s) = false ->
  fst (truncate_lw ok st size) = EXF_E_ERRNO /\ fsize (snd (truncate_lw ok st size)) = fsize st /\
  file (snd (truncate_lw ok st size)) = file st.
Proof.
  intros ok st size s tl HI Hs Hss Hlt Hmo Hg Hne Hm. pose proof (inv_ps st HI) as HP. pose proof (PsOk_pos _ HP). pose proof LIM_val as EL.
  pose proof (inv_file st HI) as Hfl.
  destruct (truncate_lw ok st size) as [rc st'] eqn:E. simpl.
  unfold truncate_lw in E. destruct (Z.ltb_spec size 0); [lia |]. rewrite uw_small in E by lia. rewrite roundup_ps in E by (auto; lia). cbv zeta in E.
  set (n := rup size (psize st)) in *.
  destruct (Z.eqb_spec (fsize st) n); [lia |]. destruct (Z.ltb_spec (fsize st) n); [| lia]. rewrite Hg in E. simpl in E.
  replace (negb (maxoff st =? 0) && (n >? maxoff st)) with false in E
    by (destruct (Z.eqb_spec (maxoff st) 0); simpl; [reflexivity |]; destruct (Z.gtb_spec n (maxoff st)); [lia | reflexivity]).
  assert (Hpos : 0 < slot_nlen n s).
  { pose proof (inv_slots st HI) as HS. rewrite Hss in HS. inversion HS as [| s0 tl0 [_ [_ [Hml [_ [Hl _]]]]] _ _]; subst.
    pose proof (slot_nlen_range n s Hml). pose proof (slot_nlen_mono (fsize st) n s ltac:(lia) Hml). lia. }
  assert (Ei : initmmap ok (psize st) n (slots st) = (EXF_E_ERRNO, unmap s :: tl)).
  { rewrite Hss. unfold initmmap. simpl. unfold initmmap_slot.
    destruct (Z.eqb_spec (slot_nlen n s) (s_len s)); [contradiction |].
    destruct (Z.gtb_spec (slot_nlen n s) 0); [| lia]. rewrite Hm. reflexivity. }
  rewrite Ei in E. simpl in E. inversion E; subst rc st'. simpl.
  split; [reflexivity |]. split; [reflexivity |]. apply ftrunc_back; [exact Hfl | lia].
Qed.

(* ---------------------------------------------------------------------------------------------- *)
(* 13. the queries about windows: probe_mmap, acquire_mmap and sync_mmap agree, and a window that is handed out lies
   inside the file (whoever reads through the pointer does not fault) *)
Lemma acquire_probe : forall ss off, acquire_mmap ss off = probe_mmap ss off.
Proof. induction ss as [| s tl IH]; intros off; simpl; [reflexivity |]. destruct (s_off s =? off); [destruct (s_len s =? 0); reflexivity | apply IH]. Qed.

Lemma sync_probe : forall ss off, sync_mmap ss off = fst (probe_mmap ss off).
Proof. induction ss as [| s tl IH]; intros off; simpl; [reflexivity |]. destruct (s_off s =? off); [destruct (s_len s =? 0); reflexivity | apply IH]. Qed.

Lemma probe_inside : forall ps fsz ss off rc sp, SlotsInv ps fsz ss -> probe_mmap ss off = (rc, sp) ->
  (rc = 0 /\ 0 < sp /\ sp mod ps = 0 /\ off + sp <= fsz /\ exists s, In s ss /\ s_off s = off /\ s_len s = sp) \/
  (rc = EXF_E_NOTMM /\ sp = 0).
Proof.
  intros ps fsz ss off rc sp HS. induction HS as [| s tl Hs Hfa Ht IH]; simpl; intros E.
  - inversion E; auto.
  - destruct (Z.eqb_spec (s_off s) off) as [Eo | Eo].
    + destruct (Z.eqb_spec (s_len s) 0) as [El | El]; inversion E; subst; [right; auto | left].
      pose proof Hs as [_ [_ [_ [_ [H5 [H6 _]]]]]]. pose proof (slot_in_file ps fsz s Hs ltac:(lia)).
      split; [reflexivity |]. split; [lia |]. split; [exact H6 |]. split; [lia |]. exists s. auto.
    + destruct (IH E) as [[A [B [C [D [t [Hin Ht2]]]]]] | R]; [left | right; exact R].
      split; [exact A |]. split; [exact B |]. split; [exact C |]. split; [exact D |]. exists t. split; [right; exact Hin | exact Ht2].
Qed.

Lemma budget_any : forall st, Bud os_any st.
Proof. intros st. split; [intros t1 t2 _ _; reflexivity | reflexivity]. Qed.
Lemma budget_limit : forall l st, Bud (os_limit l) st.
Proof. intros l st. split; [intros t1 t2 _ _; reflexivity | reflexivity]. Qed.
Lemma mono_maplimit : forall b, MapMono (os_maplimit b).
Proof. intros b t1 t2 H. simpl. intros H2. apply Z.leb_le in H2. apply Z.leb_le. lia. Qed.
Lemma mapall_any : MapAll os_any. Proof. intros t. reflexivity. Qed.
Lemma mapall_limit : forall l, MapAll (os_limit l). Proof. intros l t. reflexivity. Qed.

(* ---------------------------------------------------------------------------------------------- *)
(* 14. the side conditions of a history as boolean functions (used by the Examples: a concrete history is checked by
   computation, without the states appearing in a proposition) *)
Definition grow_ok_b (st : exf) (sz : Z) : bool :=
  (match pol st with PMul n dn => sz * n <=? LIM | _ => true end) &&
  (negb (maxoff st =? 0) || (fst (spec_policy (psize st) (pol st) sz (fsize st)) <=? LIM)).

Lemma grow_ok_b_ok : forall st sz, grow_ok_b st sz = true -> grow_ok st sz.
Proof.
  intros st sz H. unfold grow_ok_b in H. apply andb_true_iff in H. destruct H as [H1 H2]. split.
  - unfold req_ok. destruct (pol st); auto. apply Z.leb_le. exact H1.
  - apply orb_true_iff in H2. destruct H2 as [H2 | H2]; [left | right; apply Z.leb_le; exact H2].
    apply negb_true_iff in H2. apply Z.eqb_neq. exact H2.
Qed.

Definition rng (a b c : Z) : bool := (a <=? b) && (b <=? c).
Lemma rng_ok : forall a b c, rng a b c = true -> a <= b <= c.
Proof. intros a b c H. unfold rng in H. apply andb_true_iff in H. destruct H as [H1 H2]. apply Z.leb_le in H1. apply Z.leb_le in H2. lia. Qed.

Definition op_ok_b (st : exf) (o : op) : bool :=
  match o with
  | OWrite off d => (0 <=? off) && (off + zlen d <=? LIM) && grow_ok_b st (off + zlen d)
  | ORead off n => (0 <=? off) && (0 <=? n) && (off + n <=? LIM)
  | OCopy off siz noff => (0 <=? off) && (0 <=? siz) && (0 <=? noff) && (off + siz <=? LIM) && (noff + siz <=? LIM) && grow_ok_b st (noff + siz)
  | OTruncate sz => rng 0 sz LIM
  | OEnsure sz => rng 0 sz LIM && grow_ok_b st sz
  | OAddMmap off maxlen flags => rng 0 off LIM && (0 <=? maxlen) && (maxlen <? 2 ^ 64)
  | _ => true
  end.

Lemma op_ok_b_ok : forall st o, op_ok_b st o = true -> op_ok st o.
Proof.
  intros st o H. destruct o; unfold op_ok_b in H; unfold op_ok; auto;
    repeat match goal with
           | H : _ && _ = true |- _ => apply andb_true_iff in H; destruct H
           | H : (_ <=? _) = true |- _ => apply Z.leb_le in H
           | H : (_ <? _) = true |- _ => apply Z.ltb_lt in H
           | H : rng _ _ _ = true |- _ => apply rng_ok in H
           | H : grow_ok_b _ _ = true |- _ => apply grow_ok_b_ok in H
           end; change (2 ^ 64) with 18446744073709551616 in *;
    repeat match goal with |- _ /\ _ => split end; try assumption; try exact I; lia.
Qed.

Definition shared_op_b (o : op) : bool := match o with OAddMmap _ _ flags => Z.land flags EXF_MMAP_PRIVATE =? 0 | _ => true end.
Lemma shared_op_b_ok : forall o, shared_op_b o = true -> shared_op o.
Proof. intros o H. destruct o; simpl in *; auto. apply Z.eqb_eq. exact H. Qed.

Fixpoint runok_b (q : quirks) (ok : os_ok) (st : exf) (os : list op) : bool :=
  match os with
  | [] => true
  | o :: tl => op_ok_b st o && shared_op_b o && runok_b q ok (snd (step q ok st o)) tl
  end.
Lemma runok_b_ok : forall q ok os st, runok_b q ok st os = true -> RunOk q ok st os.
Proof.
  intros q ok os. induction os as [| o tl IH]; intros st H; simpl in *; [exact I |].
  apply andb_true_iff in H. destruct H as [H H3]. apply andb_true_iff in H. destruct H as [H1 H2].
  split; [apply op_ok_b_ok; exact H1 |]. split; [apply shared_op_b_ok; exact H2 | apply IH; exact H3].
Qed.

Definition privkept_b (st : exf) (n : Z) : bool :=
  forallb (fun s => negb (s_priv s) || negb (0 <? s_len s) || (slot_nlen n s =? s_len s)) (slots st).
Lemma privkept_b_ok : forall st n, privkept_b st n = true -> PrivKept st n.
Proof.
  intros st n H. unfold privkept_b in H. rewrite forallb_forall in H. unfold PrivKept. apply Forall_forall. intros s Hin Hp Hl.
  specialize (H s Hin). rewrite Hp in H. simpl in H. destruct (Z.ltb_spec 0 (s_len s)); [| lia]. simpl in H. apply Z.eqb_eq. exact H.
Qed.

Definition clean_b (s : slot) : bool := forallb (fun pg => match pg with None => true | Some _ => false end) (s_pages s).
Lemma clean_b_ok : forall s, clean_b s = true -> clean s.
Proof.
  intros s H. unfold clean_b in H. rewrite forallb_forall in H. unfold clean. apply Forall_forall. intros pg Hin.
  specialize (H pg Hin). destruct pg; [discriminate H | reflexivity].
Qed.
Definition harmless_b (s : slot) : bool := negb (s_priv s) || (s_len s =? 0) || clean_b s.
Lemma harmless_b_ok : forall s, harmless_b s = true -> harmless s.
Proof.
  intros s H. unfold harmless_b in H. apply orb_true_iff in H. destruct H as [H | H]; [apply orb_true_iff in H; destruct H as [H | H] |].
  - left. apply negb_true_iff. exact H.
  - right; left. apply Z.eqb_eq. exact H.
  - right; right. apply clean_b_ok. exact H.
Qed.

Definition copy_clean_b (ss : list slot) (off siz noff : Z) : bool :=
  match ss with
  | s :: _ => (0 <? s_len s) && (s_off s =? 0) && (s_len s >=? noff + siz) && (s_len s >=? off + siz)
  | [] => false
  end ||
  forallb (fun s => negb (s_priv s) || negb (0 <? s_len s) ||
                    (((off + siz <=? s_off s) || (s_off s + s_len s <=? off)) && ((noff + siz <=? s_off s) || (s_off s + s_len s <=? noff)))) ss.
Lemma copy_clean_b_ok : forall ss off siz noff, copy_clean_b ss off siz noff = true -> copy_clean ss off siz noff.
Proof.
  intros ss off siz noff H. unfold copy_clean_b in H. apply orb_true_iff in H. destruct H as [H | H].
  - left. destruct ss; [discriminate H | exact H].
  - right. rewrite forallb_forall in H. intros s Hin Hp Hl. specialize (H s Hin). rewrite Hp in H. simpl in H.
    destruct (Z.ltb_spec 0 (s_len s)); [| lia]. simpl in H. apply andb_true_iff in H. destruct H as [H1 H2].
    apply orb_true_iff in H1. apply orb_true_iff in H2. rewrite !Z.leb_le in H1, H2. auto.
Qed.

Definition quiet_b (st : exf) (o : op) (st' : exf) : bool :=
  privkept_b st (fsize st') &&
  match o with
  | OCopy off siz noff => copy_clean_b (slots st') off siz noff
  | ORemoveMmap off => forallb (fun s => negb (s_off s =? off) || harmless_b s) (slots st)
  | _ => true
  end.
Lemma quiet_b_ok : forall st o st', quiet_b st o st' = true -> quiet st o st'.
Proof.
  intros st o st' H. unfold quiet_b in H. apply andb_true_iff in H. destruct H as [H1 H2]. split; [apply privkept_b_ok; exact H1 |].
  destruct o; auto.
  - apply copy_clean_b_ok. exact H2.
  - rewrite forallb_forall in H2. intros s Hin Ho. specialize (H2 s Hin). apply Z.eqb_eq in Ho. rewrite Ho in H2. simpl in H2.
    apply harmless_b_ok. exact H2.
Qed.

Fixpoint prunok_b (q : quirks) (ok : os_ok) (st : exf) (os : list op) : bool :=
  match os with
  | [] => true
  | o :: tl => let st1 := snd (step q ok st o) in op_ok_b st o && quiet_b st o st1 && prunok_b q ok st1 tl
  end.
Lemma prunok_b_ok : forall q ok os st, prunok_b q ok st os = true -> PRunOk q ok st os.
Proof.
  intros q ok os. induction os as [| o tl IH]; intros st H; simpl in *; [exact I |].
  apply andb_true_iff in H. destruct H as [H H3]. apply andb_true_iff in H. destruct H as [H1 H2].
  split; [apply op_ok_b_ok; exact H1 |]. split; [apply quiet_b_ok; exact H2 | apply IH; exact H3].
Qed.

(* ---------------------------------------------------------------------------------------------- *)
(* 15. the lock of the handle: in the repaired variant only a successful acquire_mmap leaves a read lock with the caller,
   and a caller that holds none is never blocked *)
Lemma lstep_free : forall q ok held st o, held <= 0 ->
  lstep q ok held st o =
    (let '(r, st') := step q ok st o in
     (r, match o with
         | OAcquire _ => if o_rc r =? 0 then held + 1 else if q_acq_unlocks q then held else held + 1
         | ORelease => held - 1
         | _ => held
         end, st')).
Proof.
  intros q ok held st o H. unfold lstep. destruct (Z.ltb_spec 0 held); [lia |]. rewrite andb_false_r. reflexivity.
Qed.

Lemma lstep_balance : forall q ok held st o r held' st', q_acq_unlocks q = true -> lstep q ok held st o = (r, held', st') ->
  (o_rc r = EXF_HANG /\ 0 < held /\ needs_wlock st o = true /\ held' = held /\ st' = st) \/
  ((r, st') = step q ok st o /\
   held' = held + match o with OAcquire _ => if o_rc r =? 0 then 1 else 0 | ORelease => -1 | _ => 0 end).
Proof.
  intros q ok held st o r held' st' Hq E. unfold lstep in E.
  destruct (needs_wlock st o && (0 <? held)) eqn:Eh.
  - left. apply andb_true_iff in Eh. destruct Eh as [E1 E2]. apply Z.ltb_lt in E2. inversion E; subst. auto.
  - right. destruct (step q ok st o) as [r1 st1]. inversion E; subst r1 held' st1. split; [reflexivity |].
    rewrite Hq. destruct o; try lia. destruct (o_rc r =? 0); lia.
Qed.

(* ---------------------------------------------------------------------------------------------- *)
(* 16. the configured maximum *)
Lemma truncate_lw_maxoff : forall ok st size, maxoff (snd (truncate_lw ok st size)) = maxoff st.
Proof.
  intros ok st size. unfold truncate_lw. destruct (size <? 0); [reflexivity |]. cbv zeta.
  destruct (fsize st =? _); [reflexivity |]. destruct (fsize st <? _).
  - destruct (negb (maxoff st =? 0) && _); [reflexivity |]. destruct (negb (os_grow ok _)); [reflexivity |].
    destruct (initmmap ok (psize st) _ (slots st)) as [rc ss1]. destruct (rc =? 0); reflexivity.
  - destruct (initmmap ok (psize st) _ (slots st)) as [rc ss1]. destruct (rc =? 0); reflexivity.
Qed.

(* in the repaired variant an opened file has the limit it was given (rounded down to a page), never "no limit" instead *)
Lemma maxoff_honoured : forall q ok f initial mo p st, q_maxoff_small q = true -> PsOk EXF_PSIZE -> 0 <= mo < 2 ^ 63 ->
  exfile_open q ok f initial mo p = (0, st) ->
  (mo = 0 /\ maxoff st = 0) \/ (0 < maxoff st <= mo /\ mo - EXF_PSIZE < maxoff st).
Proof.
  intros q ok f initial mo p st Hq HP Hmo E. pose proof (PsOk_pos _ HP) as Hps. unfold exfile_open in E. rewrite Hq in E. simpl in E.
  change (2 ^ 63) with 9223372036854775808 in Hmo.
  destruct (Z.ltb_spec 0 mo) as [Hpos | Hz]; simpl in E.
  - destruct (Z.ltb_spec mo EXF_PSIZE) as [Hsm | Hbig]; [discriminate E |].
    right. assert (Hm : maxoff st = mo / EXF_PSIZE * EXF_PSIZE).
    { destruct (Z.geb_spec mo EXF_PSIZE); [| lia]. rewrite rounddown_ps in E by (auto; lia).
      set (st0 := mkExf f (zlen f) (mo / EXF_PSIZE * EXF_PSIZE) EXF_PSIZE [] p) in E.
      destruct (zlen f <? initial).
      - pose proof (truncate_lw_maxoff ok st0 initial) as Hx. rewrite E in Hx. exact Hx.
      - destruct (negb (aligned (zlen f) EXF_PSIZE)).
        + pose proof (truncate_lw_maxoff ok st0 (zlen f)) as Hx. rewrite E in Hx. exact Hx.
        + inversion E; reflexivity. }
    rewrite Hm. pose proof (Z.div_mod mo EXF_PSIZE ltac:(lia)). pose proof (Z.mod_pos_bound mo EXF_PSIZE ltac:(lia)).
    assert (1 <= mo / EXF_PSIZE) by (apply Z.div_le_lower_bound; lia). nia.
  - left. assert (mo = 0) by lia. subst mo. split; [reflexivity |].
    destruct (Z.geb_spec 0 EXF_PSIZE); [lia |].
    set (st0 := mkExf f (zlen f) 0 EXF_PSIZE [] p) in E.
    destruct (zlen f <? initial).
    + pose proof (truncate_lw_maxoff ok st0 initial) as Hx. rewrite E in Hx. exact Hx.
    + destruct (negb (aligned (zlen f) EXF_PSIZE)).
      * pose proof (truncate_lw_maxoff ok st0 (zlen f)) as Hx. rewrite E in Hx. exact Hx.
      * inversion E; reflexivity.
Qed.
