(* C12 - proofs about the model FS/Exf.v *)
Require Import ZArith List Bool Lia.
Require Import IW.Lib.CInt IW.Gen.Facts IW.FS.Exf.
Import ListNotations.
Local Open Scope Z_scope.
Ltac Zify.zify_post_hook ::= Z.div_mod_to_equations.

(* ---------------------------------------------------------------------------------------------- *)
(* 1. IW_RANGES_OVERLAP, as translated from the current source, is interval intersection *)
Lemma ranges_overlap_correct : forall s1 e1 s2 e2, s1 < e1 -> s2 < e2 ->
  (IW_RANGES_OVERLAP s1 e1 s2 e2 <> 0 <-> Z.max s1 s2 < Z.min e1 e2).
Proof.
  intros s1 e1 s2 e2 H1 H2. unfold IW_RANGES_OVERLAP.
  destruct (Z.gtb_spec e1 s2), (Z.leb_spec e1 e2), (Z.geb_spec s1 s2), (Z.ltb_spec s1 e2),
    (Z.leb_spec s1 s2), (Z.geb_spec e1 e2); simpl; split; intros; try lia; try congruence.
Qed.

Lemma ranges_overlap_01 : forall s1 e1 s2 e2, IW_RANGES_OVERLAP s1 e1 s2 e2 = 0 \/ IW_RANGES_OVERLAP s1 e1 s2 e2 = 1.
Proof.
  intros. unfold IW_RANGES_OVERLAP.
  destruct (Z.gtb e1 s2), (Z.leb e1 e2), (Z.geb s1 s2), (Z.ltb s1 e2), (Z.leb s1 s2), (Z.geb e1 e2); simpl; auto.
Qed.

(* ---------------------------------------------------------------------------------------------- *)
(* 2. the rounding macros on powers of two *)
Lemma uw_small : forall b x, 0 <= x < 2 ^ b -> uw b x = x.
Proof. intros. unfold uw. apply Z.mod_small; lia. Qed.

Lemma land_uw_r : forall a b, 0 <= a < 2 ^ 64 -> Z.land a (uw 64 b) = Z.land a b.
Proof.
  intros a b Ha. unfold uw. rewrite <- (Z.land_ones b 64) by lia.
  rewrite (Z.land_comm b), Z.land_assoc, (Z.land_ones a 64) by lia.
  rewrite Z.mod_small by lia. reflexivity.
Qed.

Lemma land_lnot_pow2 : forall a k, 0 <= k -> Z.land a (Z.lnot (2 ^ k - 1)) = a / 2 ^ k * 2 ^ k.
Proof.
  intros a k Hk. rewrite <- Z.ldiff_land.
  replace (2 ^ k - 1) with (Z.ones k) by (rewrite Z.ones_equiv; lia).
  rewrite Z.ldiff_ones_r by lia. rewrite Z.shiftl_mul_pow2, Z.shiftr_div_pow2 by lia. reflexivity.
Qed.

Lemma pow2_bounds : forall k, 0 <= k < 63 -> 1 <= 2 ^ k < 2 ^ 63.
Proof. intros. split. - assert (0 < 2 ^ k) by (apply Z.pow_pos_nonneg; lia). lia. - apply Z.pow_lt_mono_r; lia. Qed.

Lemma IW_ROUNDUP_spec : forall k x, 0 <= k < 63 -> 0 <= x -> x + 2 ^ k <= 2 ^ 64 ->
  IW_ROUNDUP x (2 ^ k) = rup x (2 ^ k).
Proof.
  intros k x Hk Hx Hb. pose proof (pow2_bounds k Hk) as Hp.
  unfold IW_ROUNDUP, rup.
  assert (E64 : 2 ^ 64 = 2 * 2 ^ 63) by reflexivity.
  rewrite (uw_small 64 1) by lia.
  destruct (Z.eq_dec (x + 2 ^ k) (2 ^ 64)) as [Heq | Hne].
  - (* x + v wraps to 0: only possible when x + v = 2^64 *)
    rewrite Heq. unfold uw at 2. rewrite Z.mod_same by lia.
    replace (uw 64 (0 - 1)) with (2 ^ 64 - 1) by (unfold uw; reflexivity).
    rewrite (uw_small 64 (2 ^ k - 1)) by lia.
    rewrite land_uw_r by lia. rewrite land_lnot_pow2 by lia.
    replace (x + 2 ^ k - 1) with (2 ^ 64 - 1) by lia. reflexivity.
  - rewrite (uw_small 64 (x + 2 ^ k)) by lia.
    rewrite (uw_small 64 (x + 2 ^ k - 1)) by lia.
    rewrite (uw_small 64 (2 ^ k - 1)) by lia.
    rewrite land_uw_r by lia. apply land_lnot_pow2; lia.
Qed.

Lemma IW_ROUNDOWN_spec : forall k x, 0 <= k < 63 -> 0 <= x < 2 ^ 64 ->
  IW_ROUNDOWN x (2 ^ k) = x / 2 ^ k * 2 ^ k.
Proof.
  intros k x Hk Hx. pose proof (pow2_bounds k Hk) as Hp.
  assert (E64 : 2 ^ 64 = 2 * 2 ^ 63) by reflexivity.
  unfold IW_ROUNDOWN. rewrite (uw_small 64 1) by lia. rewrite (uw_small 64 (2 ^ k - 1)) by lia.
  replace (2 ^ k - 1) with (Z.ones k) by (rewrite Z.ones_equiv; lia).
  rewrite Z.land_ones by lia.
  assert (0 < 2 ^ k) by lia.
  pose proof (Z.mod_pos_bound x (2 ^ k) H). pose proof (Z.div_mod x (2 ^ k)).
  pose proof (Z.mod_le x (2 ^ k)).
  rewrite uw_small by lia. lia.
Qed.

Lemma aligned_spec : forall k x, 0 <= k < 63 -> 0 <= x < 2 ^ 64 -> aligned x (2 ^ k) = (x mod 2 ^ k =? 0).
Proof.
  intros k x Hk Hx. unfold aligned. rewrite uw_small by lia.
  replace (2 ^ k - 1) with (Z.ones k) by (rewrite Z.ones_equiv; lia).
  rewrite Z.land_ones by lia. reflexivity.
Qed.

Lemma sw_small : forall x, 0 <= x < 2 ^ 63 -> sw 64 x = x.
Proof.
  intros x Hx. unfold sw. change (2 ^ (64 - 1)) with (2 ^ 63).
  assert (E64 : 2 ^ 64 = 2 * 2 ^ 63) by reflexivity.
  rewrite Z.mod_small by lia. lia.
Qed.

(* rounding up, arithmetic facts *)
Lemma rup_ge : forall x ps, 0 < ps -> x <= rup x ps.
Proof. intros. unfold rup. pose proof (Z.div_mod (x + ps - 1) ps). pose proof (Z.mod_pos_bound (x + ps - 1) ps H). lia. Qed.
Lemma rup_lt : forall x ps, 0 < ps -> rup x ps < x + ps.
Proof. intros. unfold rup. pose proof (Z.div_mod (x + ps - 1) ps). pose proof (Z.mod_pos_bound (x + ps - 1) ps H). lia. Qed.
Lemma rup_mod : forall x ps, 0 < ps -> rup x ps mod ps = 0.
Proof. intros. unfold rup. apply Z.mod_mul. lia. Qed.
Lemma rup_id : forall x ps, 0 < ps -> x mod ps = 0 -> rup x ps = x.
Proof.
  intros x ps Hp Hm. unfold rup. apply Z.mod_divide in Hm; [| lia]. destruct Hm as [j Hj]. subst x.
  replace (j * ps + ps - 1) with ((ps - 1) + j * ps) by lia.
  rewrite Z.div_add by lia. rewrite Z.div_small by lia. lia.
Qed.
Lemma rup_mono : forall x y ps, 0 < ps -> x <= y -> rup x ps <= rup y ps.
Proof. intros. unfold rup. apply Z.mul_le_mono_nonneg_r; [lia |]. apply Z.div_le_mono; lia. Qed.
Lemma rup_le_aligned : forall x m ps, 0 < ps -> x <= m -> m mod ps = 0 -> rup x ps <= m.
Proof. intros. rewrite <- (rup_id m ps) by assumption. apply rup_mono; assumption. Qed.
Lemma rup_nonneg : forall x ps, 0 < ps -> 0 <= x -> 0 <= rup x ps.
Proof. intros. pose proof (rup_ge x ps H). lia. Qed.

Definition PsOk (ps : Z) : Prop := exists k, 0 <= k < 32 /\ ps = 2 ^ k.
Definition LIM : Z := 2 ^ 61.

Lemma PsOk_pos : forall ps, PsOk ps -> 1 <= ps <= 2 ^ 31.
Proof.
  intros ps [k [Hk E]]. subst. split.
  - assert (0 < 2 ^ k) by (apply Z.pow_pos_nonneg; lia). lia.
  - apply Z.pow_le_mono_r; lia.
Qed.
Lemma LIM_mod : forall ps, PsOk ps -> LIM mod ps = 0.
Proof.
  intros ps [k [Hk E]]. subst. unfold LIM. replace 61 with ((61 - k) + k) by lia.
  rewrite Z.pow_add_r by lia. apply Z.mod_mul. assert (0 < 2 ^ k) by (apply Z.pow_pos_nonneg; lia). lia.
Qed.

Lemma roundup_ps : forall ps x, PsOk ps -> 0 <= x <= 2 ^ 63 -> IW_ROUNDUP x ps = rup x ps.
Proof.
  intros ps x HP Hx. pose proof (PsOk_pos ps HP). destruct HP as [k [Hk E]]. subst.
  apply IW_ROUNDUP_spec; lia.
Qed.
Lemma rounddown_ps : forall ps x, PsOk ps -> 0 <= x < 2 ^ 64 -> IW_ROUNDOWN x ps = x / ps * ps.
Proof. intros ps x [k [Hk E]] Hx. subst. apply IW_ROUNDOWN_spec; lia. Qed.
Lemma aligned_ps : forall ps x, PsOk ps -> 0 <= x < 2 ^ 64 -> aligned x ps = (x mod ps =? 0).
Proof. intros ps x [k [Hk E]] Hx. subst. apply aligned_spec; lia. Qed.

(* ---------------------------------------------------------------------------------------------- *)
(* 3. byte lists addressed by Z *)
Lemma skipn_skipn' : forall (A : Type) (x y : nat) (l : list A), skipn x (skipn y l) = skipn (y + x) l.
Proof. intros A x y. induction y as [| y IH]; intros l; simpl. - reflexivity. - destruct l; simpl. + apply skipn_nil. + apply IH. Qed.

Section ZList.
Context {A : Type}.
Implicit Types l x y r : list A.

Lemma zlen_nonneg : forall l, 0 <= zlen l. Proof. intros. unfold zlen. lia. Qed.
Lemma zlen_app : forall x y, zlen (x ++ y) = zlen x + zlen y.
Proof. intros. unfold zlen. rewrite app_length. lia. Qed.
Lemma zlen_nil : zlen (@nil A) = 0. Proof. reflexivity. Qed.
Lemma zlen_0_nil : forall l, zlen l = 0 -> l = []. Proof. intros l H. destruct l; [reflexivity | unfold zlen in H; simpl in H; lia]. Qed.
Lemma zlen_ztake : forall n l, 0 <= n <= zlen l -> zlen (ztake n l) = n.
Proof. intros n l H. unfold zlen, ztake in *. rewrite firstn_length_le by lia. lia. Qed.
Lemma zlen_ztake_le : forall n l, zlen (ztake n l) <= zlen l.
Proof. intros. unfold zlen, ztake. rewrite firstn_length. lia. Qed.
Lemma zlen_ztake_min : forall n l, 0 <= n -> zlen (ztake n l) = Z.min n (zlen l).
Proof. intros. unfold zlen, ztake. rewrite firstn_length. lia. Qed.
Lemma zlen_zdrop : forall n l, 0 <= n <= zlen l -> zlen (zdrop n l) = zlen l - n.
Proof. intros n l H. unfold zlen, zdrop in *. rewrite skipn_length. lia. Qed.
Lemma ztake_zdrop : forall n l, ztake n l ++ zdrop n l = l.
Proof. intros. apply firstn_skipn. Qed.
Lemma ztake_all : forall n l, zlen l <= n -> ztake n l = l.
Proof. intros. unfold ztake, zlen in *. apply firstn_all2. lia. Qed.
Lemma zdrop_all : forall n l, zlen l <= n -> zdrop n l = [].
Proof. intros. unfold zdrop, zlen in *. apply skipn_all2. lia. Qed.
Lemma ztake_neg : forall n l, n <= 0 -> ztake n l = [].
Proof. intros. unfold ztake. replace (Z.to_nat n) with O by lia. reflexivity. Qed.
Lemma zdrop_neg : forall n l, n <= 0 -> zdrop n l = l.
Proof. intros. unfold zdrop. replace (Z.to_nat n) with O by lia. reflexivity. Qed.
Lemma ztake_app_exact : forall x r, ztake (zlen x) (x ++ r) = x.
Proof.
  intros. unfold ztake, zlen. rewrite Nat2Z.id. rewrite firstn_app, Nat.sub_diag. simpl.
  rewrite firstn_all. apply app_nil_r.
Qed.
Lemma zdrop_app_exact : forall x r, zdrop (zlen x) (x ++ r) = r.
Proof.
  intros. unfold zdrop, zlen. rewrite Nat2Z.id. rewrite skipn_app, Nat.sub_diag, skipn_all. reflexivity.
Qed.
Lemma zdrop_app_more : forall x r k, 0 <= k -> zdrop (zlen x + k) (x ++ r) = zdrop k r.
Proof.
  intros. unfold zdrop, zlen. rewrite Z2Nat.inj_add, Nat2Z.id by lia.
  rewrite skipn_app. rewrite skipn_all2 by lia. simpl. f_equal. lia.
Qed.
Lemma ztake_app_more : forall x r k, 0 <= k -> ztake (zlen x + k) (x ++ r) = x ++ ztake k r.
Proof.
  intros. unfold ztake, zlen. rewrite Z2Nat.inj_add, Nat2Z.id by lia. apply firstn_app_2.
Qed.
Lemma zdrop_zdrop : forall a b l, 0 <= a -> 0 <= b -> zdrop b (zdrop a l) = zdrop (a + b) l.
Proof. intros. unfold zdrop. rewrite skipn_skipn'. f_equal. lia. Qed.
Lemma ztake_ztake : forall a b l, 0 <= a <= b -> ztake a (ztake b l) = ztake a l.
Proof. intros. unfold ztake. rewrite firstn_firstn. f_equal. lia. Qed.
Lemma ztake_split : forall a b l, 0 <= a -> 0 <= b -> ztake (a + b) l = ztake a l ++ ztake b (zdrop a l).
Proof.
  intros a b l Ha Hb. rewrite <- (ztake_zdrop a l) at 1.
  destruct (Z_le_gt_dec a (zlen l)).
  - rewrite <- (zlen_ztake a l) at 1 by lia. apply ztake_app_more. lia.
  - rewrite (zdrop_all a l) by lia. rewrite app_nil_r. rewrite (ztake_all a l) by lia.
    rewrite ztake_all by lia. unfold ztake. rewrite firstn_nil. rewrite app_nil_r. reflexivity.
Qed.
End ZList.

Lemma zdrop_app_len : forall (A : Type) (x r : list A) a, zlen x = a -> zdrop a (x ++ r) = r.
Proof. intros. subst. apply zdrop_app_exact. Qed.
Lemma ztake_app_len : forall (A : Type) (x r : list A) a, zlen x = a -> ztake a (x ++ r) = x.
Proof. intros. subst. apply ztake_app_exact. Qed.

Lemma zlen_zeros : forall n, 0 <= n -> zlen (zeros n) = n.
Proof. intros. unfold zlen, zeros. rewrite repeat_length. lia. Qed.
Lemma zeros_neg : forall n, n <= 0 -> zeros n = [].
Proof. intros. unfold zeros. replace (Z.to_nat n) with O by lia. reflexivity. Qed.

Lemma zlen_ftrunc : forall f n, 0 <= n -> zlen (ftrunc f n) = n.
Proof.
  intros f n Hn. unfold ftrunc. rewrite zlen_app. destruct (Z_le_gt_dec n (zlen f)).
  - rewrite zlen_ztake by lia. rewrite zeros_neg by lia. unfold zlen. simpl. lia.
  - rewrite ztake_all by lia. rewrite zlen_zeros by lia. lia.
Qed.
Lemma ftrunc_id : forall f, ftrunc f (zlen f) = f.
Proof. intros. unfold ftrunc. rewrite ztake_all by lia. rewrite zeros_neg by lia. apply app_nil_r. Qed.

Lemma pwrite_splice : forall f off d, 0 <= off -> off + zlen d <= zlen f -> pwrite f off d = splice f off d.
Proof.
  intros f off d Ho Hb. unfold pwrite, splice. destruct d as [| b d'].
  - simpl. rewrite Z.add_0_r. symmetry. apply ztake_zdrop.
  - pose proof (zlen_nonneg (b :: d')). rewrite zeros_neg by lia. reflexivity.
Qed.
Lemma zlen_splice : forall v p d, 0 <= p -> p + zlen d <= zlen v -> zlen (splice v p d) = zlen v.
Proof.
  intros v p d Hp Hb. pose proof (zlen_nonneg d). unfold splice. rewrite !zlen_app.
  rewrite zlen_ztake by lia. rewrite zlen_zdrop by lia. lia.
Qed.
Lemma splice_app : forall f a d1 d2, 0 <= a -> a + zlen d1 + zlen d2 <= zlen f ->
  splice (splice f a d1) (a + zlen d1) d2 = splice f a (d1 ++ d2).
Proof.
  intros f a d1 d2 Ha Hb. pose proof (zlen_nonneg d1). pose proof (zlen_nonneg d2).
  unfold splice at 1 2.
  assert (E : zlen (ztake a f ++ d1) = a + zlen d1) by (rewrite zlen_app, zlen_ztake by lia; reflexivity).
  set (R := zdrop (a + zlen d1) f).
  replace (ztake a f ++ d1 ++ R) with ((ztake a f ++ d1) ++ R) by (symmetry; apply app_assoc).
  rewrite <- E. rewrite ztake_app_exact.
  rewrite zdrop_app_more by lia. unfold R. rewrite zdrop_zdrop by lia.
  unfold splice. rewrite zlen_app. rewrite <- !app_assoc. rewrite ?E. do 3 f_equal. f_equal. lia.
Qed.
Lemma pread_splice_same : forall f a d, 0 <= a <= zlen f -> pread (splice f a d) a (zlen d) = d.
Proof.
  intros f a d Ha. unfold pread, splice.
  rewrite zdrop_app_len by (apply zlen_ztake; lia). apply ztake_app_exact.
Qed.
Lemma pread_app : forall f a n1 n2, 0 <= a -> 0 <= n1 -> 0 <= n2 ->
  pread f a n1 ++ pread f (a + n1) n2 = pread f a (n1 + n2).
Proof.
  intros. unfold pread. rewrite <- zdrop_zdrop by lia. symmetry. apply ztake_split; lia.
Qed.
Lemma pread_nil : forall f a, pread f a 0 = []. Proof. reflexivity. Qed.
Lemma zlen_pread : forall f a n, 0 <= a -> 0 <= n -> a + n <= zlen f -> zlen (pread f a n) = n.
Proof. intros. unfold pread. rewrite zlen_ztake; [reflexivity |]. rewrite zlen_zdrop by lia. lia. Qed.
(* a read that does not meet the written range sees the old bytes *)
Lemma pread_splice_before : forall f a d b n, 0 <= b -> 0 <= n -> b + n <= a -> a + zlen d <= zlen f ->
  pread (splice f a d) b n = pread f b n.
Proof.
  intros f a d b n Hb Hn Hl Hf. pose proof (zlen_nonneg d). unfold pread, splice.
  rewrite <- (ztake_zdrop b (ztake a f)). rewrite <- app_assoc.
  assert (E : zlen (ztake b (ztake a f)) = b) by (rewrite zlen_ztake; [lia | rewrite zlen_ztake by lia; lia]).
  rewrite (zdrop_app_len _ (ztake b (ztake a f))) by exact E.
  (* both sides: the first n of something starting with zdrop b (ztake a f) *)
  assert (E2 : zdrop b (ztake a f) = ztake (a - b) (zdrop b f)).
  { unfold zdrop, ztake. rewrite skipn_firstn_comm. f_equal. lia. }
  rewrite E2.
  assert (E3 : zlen (ztake (a - b) (zdrop b f)) = a - b) by (rewrite zlen_ztake; [lia | rewrite zlen_zdrop by lia; lia]).
  replace (ztake n (ztake (a - b) (zdrop b f) ++ d ++ zdrop (a + zlen d) f))
    with (ztake n (ztake (a - b) (zdrop b f))).
  - apply ztake_ztake. lia.
  - unfold ztake at 1 3. rewrite firstn_app. unfold zlen in E3.
    replace (Z.to_nat n - length (ztake (a - b) (zdrop b f)))%nat with O by lia. simpl. rewrite app_nil_r. reflexivity.
Qed.
Lemma pread_splice_after : forall f a d b n, 0 <= a -> a + zlen d <= b -> 0 <= n -> a + zlen d <= zlen f ->
  pread (splice f a d) b n = pread f b n.
Proof.
  intros f a d b n Ha Hl Hn Hf. pose proof (zlen_nonneg d). unfold pread, splice.
  assert (E : zlen (ztake a f ++ d) = a + zlen d) by (rewrite zlen_app, zlen_ztake by lia; reflexivity).
  rewrite app_assoc. replace b with (zlen (ztake a f ++ d) + (b - (a + zlen d))) at 1 by lia.
  rewrite zdrop_app_more by lia. rewrite zdrop_zdrop by lia. do 2 f_equal. lia.
Qed.

(* ---------------------------------------------------------------------------------------------- *)
(* 4. resize policies: the C arithmetic is the documented formula when nothing wraps *)
Definition pol_ok (p : policy) : Prop :=
  match p with
  | PFibo prev => 0 <= prev <= LIM
  | PMul n dn => 0 <= n < 2 ^ 31 /\ 0 <= dn < 2 ^ 31
  | _ => True
  end.
(* the product formed by the multiplier policy fits *)
Definition req_ok (p : policy) (nsize : Z) : Prop :=
  match p with PMul n dn => nsize * n <= LIM | _ => True end.

Lemma LIM_val : LIM = 2305843009213693952. Proof. reflexivity. Qed.
Lemma OFFMAX_val : EXF_OFF_T_MAX = 9223372036854775807. Proof. reflexivity. Qed.

Lemma default_szpolicy_spec : forall ps n, PsOk ps -> 0 <= n <= LIM -> default_szpolicy ps n = rup n ps.
Proof.
  intros ps n HP Hn. pose proof (PsOk_pos ps HP). rewrite LIM_val in Hn. unfold default_szpolicy.
  rewrite uw_small by lia. rewrite roundup_ps by (auto; lia).
  pose proof (rup_lt n ps). pose proof (rup_ge n ps). apply sw_small. lia.
Qed.

Lemma clamp_small : forall x, x <= EXF_OFF_T_MAX -> clamp_off x = x.
Proof. intros. unfold clamp_off. destruct (Z.gtb_spec x EXF_OFF_T_MAX); lia. Qed.

Lemma policy_call_spec : forall q ps p nsize csize,
  q_mul_ge q = true -> PsOk ps -> pol_ok p -> 0 <= nsize <= LIM -> 0 <= csize <= LIM -> req_ok p nsize ->
  policy_call q ps p nsize csize = spec_policy ps p nsize csize.
Proof.
  intros q ps p nsize csize Hq HP Hp Hn Hc Hr. pose proof (PsOk_pos ps HP) as Hps.
  pose proof LIM_val as EL. pose proof OFFMAX_val as EO.
  destruct p as [| prev | n dn |]; simpl in *.
  - rewrite default_szpolicy_spec by auto. reflexivity.
  - rewrite (uw_small 64 csize), (uw_small 64 prev), (uw_small 64 nsize) by lia.
    rewrite (uw_small 64 (csize + prev)) by lia.
    assert (E : (if csize + prev >? nsize then csize + prev else nsize) = Z.max (csize + prev) nsize)
      by (destruct (Z.gtb_spec (csize + prev) nsize); lia).
    rewrite E. rewrite roundup_ps by (auto; lia).
    pose proof (rup_lt (Z.max (csize + prev) nsize) ps). rewrite clamp_small by lia. reflexivity.
  - destruct Hp as [Hn1 Hd1]. destruct ((dn =? 0) || (n <? dn)) eqn:Efb.
    + rewrite default_szpolicy_spec by auto. reflexivity.
    + apply orb_false_iff in Efb. destruct Efb as [Ed En]. apply Z.eqb_neq in Ed. apply Z.ltb_ge in En.
      rewrite Hq. simpl.
      rewrite (uw_small 64 nsize), (uw_small 64 dn), (uw_small 64 n) by lia.
      assert (Hq1 : 0 <= nsize / dn <= nsize).
      { split. - apply Z.div_pos; lia. - apply Z.div_le_upper_bound; nia. }
      assert (Hq2 : 0 <= nsize / dn * n <= nsize * n) by nia.
      rewrite (uw_small 64 (nsize / dn * n)) by lia.
      assert (E : (if nsize / dn * n <? nsize then nsize else nsize / dn * n) = Z.max (nsize / dn * n) nsize)
        by (destruct (Z.ltb_spec (nsize / dn * n) nsize); lia).
      rewrite E. rewrite roundup_ps by (auto; lia).
      pose proof (rup_lt (Z.max (nsize / dn * n) nsize) ps). rewrite clamp_small by lia. reflexivity.
  - rewrite default_szpolicy_spec by auto. reflexivity.
Qed.

(* what every policy of the specification guarantees *)
Lemma spec_policy_ge : forall ps p nsize csize, 0 < ps ->
  nsize <= fst (spec_policy ps p nsize csize) /\ fst (spec_policy ps p nsize csize) mod ps = 0.
Proof.
  intros ps p nsize csize Hps. destruct p as [| prev | n dn |]; simpl;
    try (destruct ((dn =? 0) || (n <? dn)); simpl);
    (split; [ match goal with |- _ <= rup ?x _ => pose proof (rup_ge x ps Hps); lia end | apply rup_mod; lia ]).
Qed.

Lemma spec_policy_pol_ok : forall ps p nsize csize, pol_ok p -> 0 <= csize <= LIM -> pol_ok (snd (spec_policy ps p nsize csize)).
Proof.
  intros ps p nsize csize Hp Hc. destruct p as [| prev | n dn |]; simpl in *; auto.
  destruct ((dn =? 0) || (n <? dn)); simpl; auto.
Qed.

(* ---------------------------------------------------------------------------------------------- *)
(* 5. the state invariant *)
Definition slot_ok (ps fsz : Z) (s : slot) : Prop :=
  0 <= s_off s /\ s_off s mod ps = 0 /\ 0 < s_maxlen s /\ s_maxlen s mod ps = 0 /\
  s_len s = slot_nlen fsz s /\ s_priv s = false.

(* sorted by offset, pairwise disjoint by maxlen, page aligned, mapped length as _exfile_initmmap_slot_lw sets it *)
Inductive SlotsInv (ps fsz : Z) : list slot -> Prop :=
| SI_nil : SlotsInv ps fsz []
| SI_cons : forall s tl, slot_ok ps fsz s -> Forall (fun t => s_off s + s_maxlen s <= s_off t) tl ->
    SlotsInv ps fsz tl -> SlotsInv ps fsz (s :: tl).

Record Inv (st : exf) : Prop := mkInv {
  inv_ps : PsOk (psize st);
  inv_fs : 0 <= fsize st <= LIM /\ fsize st mod psize st = 0;
  inv_file : zlen (file st) = fsize st;
  inv_mo : 0 <= maxoff st <= LIM /\ maxoff st mod psize st = 0 /\ (maxoff st = 0 \/ fsize st <= maxoff st);
  inv_pol : pol_ok (pol st);
  inv_slots : SlotsInv (psize st) (fsize st) (slots st)
}.

Lemma slot_nlen_range : forall fsz s, 0 < s_maxlen s -> 0 <= slot_nlen fsz s <= s_maxlen s.
Proof. intros. unfold slot_nlen. destruct (Z.geb_spec (s_off s) fsz); lia. Qed.

Lemma initmmap_slot_fields : forall ps fsz s,
  s_off (initmmap_slot ps fsz s) = s_off s /\ s_maxlen (initmmap_slot ps fsz s) = s_maxlen s /\
  s_priv (initmmap_slot ps fsz s) = s_priv s /\ s_len (initmmap_slot ps fsz s) = slot_nlen fsz s.
Proof.
  intros. unfold initmmap_slot. destruct (Z.eqb_spec (slot_nlen fsz s) (s_len s)); simpl; auto.
Qed.

Lemma initmmap_inv : forall ps fsz0 fsz ss, SlotsInv ps fsz0 ss -> SlotsInv ps fsz (initmmap ps fsz ss).
Proof.
  intros ps fsz0 fsz ss H. induction H as [| s tl Hs Hf Ht IH]; simpl.
  - constructor.
  - destruct (initmmap_slot_fields ps fsz s) as [Eo [Em [Ep El]]]. constructor.
    + destruct Hs as [H1 [H2 [H3 [H4 [H5 H6]]]]]. unfold slot_ok. rewrite Eo, Em, Ep, El.
      repeat split; auto. unfold slot_nlen. rewrite Eo, Em. reflexivity.
    + unfold initmmap. rewrite Forall_map. rewrite Eo, Em.
      eapply Forall_impl; [| exact Hf]. intros t Ht0. simpl in Ht0.
      destruct (initmmap_slot_fields ps fsz t) as [Eo' _]. rewrite Eo'. exact Ht0.
    + exact IH.
Qed.

(* re-deriving the windows from the size they were derived from changes nothing (the truncfail exit) *)
Lemma initmmap_id : forall ps fsz ss, SlotsInv ps fsz ss -> initmmap ps fsz ss = ss.
Proof.
  intros ps fsz ss HS. induction HS as [| s tl Hs0 Hf Ht IH]; simpl; [reflexivity |].
  f_equal; [| exact IH]. unfold initmmap_slot. destruct Hs0 as [_ [_ [_ [_ [Hl _]]]]]. rewrite <- Hl. rewrite Z.eqb_refl. reflexivity.
Qed.

Lemma set_slots_id : forall st, set_slots st (slots st) = st.
Proof. intros st. destruct st; reflexivity. Qed.

Lemma truncfail_id : forall st, SlotsInv (psize st) (fsize st) (slots st) ->
  set_slots st (initmmap (psize st) (fsize st) (slots st)) = st.
Proof. intros st HS. rewrite initmmap_id by exact HS. apply set_slots_id. Qed.

(* growing or shrinking to an aligned size: the only state change _exfile_truncate_lw makes *)
Definition resized (st : exf) (n : Z) : exf :=
  mkExf (ftrunc (file st) n) n (maxoff st) (psize st) (initmmap (psize st) n (slots st)) (pol st).

Lemma resized_inv : forall st n, Inv st -> 0 <= n <= LIM -> n mod psize st = 0 ->
  (maxoff st = 0 \/ n <= maxoff st) -> Inv (resized st n).
Proof.
  intros st n [H1 H2 H3 H4 H5 H6] Hn Hm Hmo. constructor; simpl; auto.
  - apply zlen_ftrunc. lia.
  - destruct H4 as [Ha [Hb Hc]]. auto.
  - eapply initmmap_inv. exact H6.
Qed.

Lemma truncate_lw_eq : forall ok st size, Inv st -> 0 <= size <= LIM ->
  truncate_lw ok st size =
    let n := rup size (psize st) in
    if fsize st =? n then (0, st)
    else if (fsize st <? n) && negb (maxoff st =? 0) && (n >? maxoff st) then (EXF_E_MAXOFF, st)
    else if (fsize st <? n) && negb (ok n) then (EXF_E_IO, st)
    else (0, resized st n).
Proof.
  intros ok st size HI Hs. pose proof (inv_ps st HI) as HP. pose proof (PsOk_pos _ HP). rewrite LIM_val in Hs.
  unfold truncate_lw. rewrite uw_small by lia. rewrite roundup_ps by (auto; lia). cbv zeta.
  destruct (fsize st =? rup size (psize st)); [reflexivity |].
  destruct (fsize st <? rup size (psize st)); simpl; [| reflexivity].
  destruct (negb (maxoff st =? 0) && (rup size (psize st) >? maxoff st)); [reflexivity |].
  destruct (ok (rup size (psize st))); simpl; [reflexivity |].
  rewrite truncfail_id by (exact (inv_slots st HI)). reflexivity.
Qed.

Lemma abs_resized : forall st n, abs (resized st n) = spec_resize (abs st) n (pol st).
Proof. reflexivity. Qed.

Lemma truncate_lw_spec : forall ok st size rc st', Inv st -> 0 <= size <= LIM ->
  truncate_lw ok st size = (rc, st') ->
  spec_truncate (psize st) ok (abs st) size = (rc, abs st') /\ Inv st' /\ psize st' = psize st /\
  (rc = 0 -> fsize st' = rup size (psize st)).
Proof.
  intros ok st size rc st' HI Hs E. rewrite truncate_lw_eq in E by assumption. cbv zeta in E.
  pose proof (inv_ps st HI) as HP. pose proof (PsOk_pos _ HP) as Hps.
  pose proof (inv_fs st HI) as [Hf1 Hf2]. pose proof (inv_file st HI) as Hfl. pose proof (inv_mo st HI) as [Hm1 [Hm2 Hm3]].
  unfold spec_truncate, spec_grow. simpl. rewrite Hfl.
  set (n := rup size (psize st)) in *.
  assert (Hn : 0 <= n <= LIM).
  { split. - apply rup_nonneg; lia. - apply rup_le_aligned; try lia. apply LIM_mod; auto. }
  assert (Hnm : n mod psize st = 0) by (apply rup_mod; lia).
  destruct (Z.eqb_spec (fsize st) n) as [Een | Een].
  - inversion E; subst rc st'. clear E.
    replace (negb (maxoff st =? 0) && (fsize st <? n) && (n >? maxoff st)) with false
      by (destruct (Z.ltb_spec (fsize st) n); [lia | rewrite andb_false_r; reflexivity]).
    replace (fsize st <? n) with false by (symmetry; apply Z.ltb_ge; lia). simpl.
    split; [| split; [| split]]; auto. unfold spec_resize, abs. simpl. rewrite <- Een, <- Hfl, ftrunc_id. reflexivity.
  - replace (negb (maxoff st =? 0) && (fsize st <? n) && (n >? maxoff st))
      with ((fsize st <? n) && negb (maxoff st =? 0) && (n >? maxoff st))
      by (destruct (fsize st <? n), (negb (maxoff st =? 0)); reflexivity).
    destruct ((fsize st <? n) && negb (maxoff st =? 0) && (n >? maxoff st)) eqn:Emo.
    + inversion E; subst rc st'. split; [| split; [| split]]; auto. intros Hrc. discriminate Hrc.
    + destruct ((fsize st <? n) && negb (ok n)) eqn:Eos.
      * inversion E; subst rc st'. split; [| split; [| split]]; auto. intros Hrc. discriminate Hrc.
      * inversion E; subst rc st'. clear E. split; [| split; [| split]]; auto.
        apply resized_inv; auto.
        destruct (Z.ltb_spec (fsize st) n); destruct (Z.eqb_spec (maxoff st) 0); destruct (Z.gtb_spec n (maxoff st));
          simpl in Emo; try discriminate; lia.
Qed.

Lemma truncate_lw_grow : forall ok st n, Inv st -> n mod psize st = 0 -> fsize st < n <= LIM ->
  (maxoff st = 0 \/ n <= maxoff st) ->
  truncate_lw ok st n = if ok n then (0, resized st n) else (EXF_E_IO, st).
Proof.
  intros ok st n HI Hm Hn Hmo. pose proof (inv_fs st HI) as [Hf1 Hf2]. pose proof (PsOk_pos _ (inv_ps st HI)).
  rewrite truncate_lw_eq by (auto; lia). cbv zeta. rewrite rup_id by (auto; lia).
  destruct (Z.eqb_spec (fsize st) n); [lia |].
  destruct (Z.ltb_spec (fsize st) n); [| lia].
  destruct (Z.eqb_spec (maxoff st) 0); simpl; [destruct (ok n); reflexivity |].
  destruct (Z.gtb_spec n (maxoff st)); [lia | destruct (ok n); reflexivity].
Qed.

(* the same size change on the flat array *)
Lemma spec_grow_grow : forall ok a n p, zlen (a_bytes a) < n ->
  spec_grow ok a n p = if ok n then (0, spec_resize a n p) else (EXF_E_IO, mkFlat (a_bytes a) (a_maxoff a) p).
Proof.
  intros ok a n p Hn. unfold spec_grow. destruct (Z.ltb_spec (zlen (a_bytes a)) n); [| lia].
  destruct (ok n); reflexivity.
Qed.

Lemma spec_policy_le : forall ps p nsize csize, PsOk ps -> pol_ok p -> 0 <= nsize <= LIM -> 0 <= csize <= LIM ->
  req_ok p nsize -> fst (spec_policy ps p nsize csize) <= 2 * LIM + 2 ^ 31.
Proof.
  intros ps p nsize csize HP Hp Hn Hc Hr. pose proof (PsOk_pos ps HP) as Hps. pose proof LIM_val as EL.
  assert (Hps0 : 0 < ps) by lia.
  destruct p as [| prev | n dn |]; simpl in *.
  - pose proof (rup_lt nsize ps Hps0). lia.
  - pose proof (rup_lt (Z.max (csize + prev) nsize) ps Hps0). lia.
  - destruct Hp as [Hn1 Hd1]. destruct ((dn =? 0) || (n <? dn)) eqn:Efb; simpl.
    + pose proof (rup_lt nsize ps Hps0). lia.
    + apply orb_false_iff in Efb. destruct Efb as [Ed En]. apply Z.eqb_neq in Ed. apply Z.ltb_ge in En.
      assert (Hq1 : 0 <= nsize / dn <= nsize).
      { split. - apply Z.div_pos; lia. - apply Z.div_le_upper_bound; nia. }
      assert (Hq2 : 0 <= nsize / dn * n <= nsize * n) by nia.
      pose proof (rup_lt (Z.max (nsize / dn * n) nsize) ps Hps0). lia.
  - pose proof (rup_lt nsize ps Hps0). lia.
Qed.

Definition grow_ok (st : exf) (sz : Z) : Prop :=
  req_ok (pol st) sz /\ (maxoff st <> 0 \/ fst (spec_policy (psize st) (pol st) sz (fsize st)) <= LIM).

Lemma set_pol_inv : forall st p, Inv st -> pol_ok p -> Inv (set_pol st p).
Proof. intros st p [H1 H2 H3 H4 H5 H6] Hp. constructor; simpl; auto. Qed.

Lemma ensure_size_lw_spec : forall q ok st sz rc st', q_mul_ge q = true -> Inv st -> 0 <= sz <= LIM -> grow_ok st sz ->
  ensure_size_lw q ok st sz = (rc, st') ->
  spec_ensure (psize st) ok (abs st) sz = (rc, abs st') /\ Inv st' /\ psize st' = psize st /\ maxoff st' = maxoff st /\
  slots st' = initmmap (psize st) (fsize st') (slots st) /\
  (rc = 0 -> sz <= fsize st').
Proof.
  intros q ok st sz rc st' Hq HI Hs [Hr Hg] E.
  pose proof (inv_ps st HI) as HP. pose proof (PsOk_pos _ HP) as Hps.
  pose proof (inv_fs st HI) as [Hf1 Hf2]. pose proof (inv_file st HI) as Hfl.
  pose proof (inv_mo st HI) as [Hm1 [Hm2 Hm3]]. pose proof (inv_pol st HI) as Hpo.
  pose proof LIM_val as EL.
  unfold ensure_size_lw in E. rewrite uw_small in E by lia.
  unfold spec_ensure. simpl. rewrite Hfl.
  destruct (Z.geb_spec (fsize st) sz) as [Hge | Hlt].
  - inversion E; subst rc st'. split; [reflexivity |]. split; [assumption |]. split; [reflexivity |]. split; [reflexivity |].
    split; [| intros; lia].
    (* the slots are already those of this size *)
    clear E. pose proof (inv_slots st HI) as HS. induction HS as [| s tl Hs0 Hf Ht IH]; simpl; [reflexivity |].
    f_equal; [| exact IH]. unfold initmmap_slot. destruct Hs0 as [_ [_ [_ [_ [Hl _]]]]]. rewrite <- Hl. rewrite Z.eqb_refl. reflexivity.
  - rewrite policy_call_spec in E by (auto; lia).
    pose proof (spec_policy_ge (psize st) (pol st) sz (fsize st) ltac:(lia)) as [Hge Hmod].
    pose proof (spec_policy_le (psize st) (pol st) sz (fsize st) HP Hpo Hs Hf1 Hr) as Hle.
    pose proof (spec_policy_pol_ok (psize st) (pol st) sz (fsize st) Hpo Hf1) as Hpo'.
    destruct (spec_policy (psize st) (pol st) sz (fsize st)) as [nsz pol'] eqn:Epol. simpl in Hge, Hmod, Hle, Hpo', Hg.
    assert (HI1 : Inv (set_pol st pol')) by (apply set_pol_inv; auto).
    replace ((nsz <? sz) || negb (aligned nsz (psize st))) with false in E.
    2:{ rewrite aligned_ps by (auto; lia). rewrite Hmod. simpl. destruct (Z.ltb_spec nsz sz); [lia | reflexivity]. }
    rewrite uw_small in E by lia.
    destruct (negb (maxoff st =? 0) && (nsz >? maxoff st)) eqn:Eclip.
    + apply andb_true_iff in Eclip. destruct Eclip as [Ec1 Ec2]. apply negb_true_iff in Ec1. apply Z.eqb_neq in Ec1.
      apply Z.gtb_lt in Ec2. rewrite sw_small in E by lia.
      destruct (Z.ltb_spec (maxoff st) sz) as [Hms | Hms].
      * inversion E; subst rc st'. split; [reflexivity |]. split; [assumption |]. split; [reflexivity |]. split; [reflexivity |].
        split; [| intros Hrc; discriminate Hrc]. simpl.
        clear E. pose proof (inv_slots st HI) as HS. induction HS as [| s tl Hs0 Hf Ht IH]; simpl; [reflexivity |].
        f_equal; [| exact IH]. unfold initmmap_slot. destruct Hs0 as [_ [_ [_ [_ [Hl _]]]]]. rewrite <- Hl. rewrite Z.eqb_refl. reflexivity.
      * rewrite truncate_lw_grow in E by (auto; simpl; lia).
        rewrite spec_grow_grow by (simpl; lia).
        destruct (ok (maxoff st)).
        -- inversion E; subst rc st'.
           split; [reflexivity |]. split; [apply resized_inv; auto; simpl; lia |]. split; [reflexivity |]. split; [reflexivity |].
           split; [reflexivity | intros; simpl; lia].
        -- inversion E; subst rc st'.
           split; [reflexivity |]. split; [assumption |]. split; [reflexivity |]. split; [reflexivity |].
           split; [| intros Hrc; discriminate Hrc]. simpl. symmetry. apply initmmap_id. exact (inv_slots st HI).
    + assert (Hnc : maxoff st = 0 \/ nsz <= maxoff st).
      { destruct (Z.eqb_spec (maxoff st) 0); [left; assumption |]. simpl in Eclip. rewrite Z.gtb_ltb in Eclip. apply Z.ltb_ge in Eclip. right; lia. }
      assert (Hnl : nsz <= LIM) by (destruct Hg as [Hg | Hg]; [destruct Hnc; lia | lia]).
      rewrite truncate_lw_grow in E by (auto; simpl; lia).
      rewrite spec_grow_grow by (simpl; lia).
      destruct (ok nsz).
      * inversion E; subst rc st'.
        split; [reflexivity |]. split; [apply resized_inv; auto; simpl; lia |]. split; [reflexivity |]. split; [reflexivity |].
        split; [reflexivity | intros; simpl; lia].
      * inversion E; subst rc st'.
        split; [reflexivity |]. split; [assumption |]. split; [reflexivity |]. split; [reflexivity |].
        split; [| intros Hrc; discriminate Hrc]. simpl. symmetry. apply initmmap_id. exact (inv_slots st HI).
Qed.

(* ---------------------------------------------------------------------------------------------- *)
(* 6. the split of a request over windows and file *)
Definition mapped (s : slot) (x : Z) : Prop := s_off s <= x < s_off s + s_len s.

Inductive Chain : Z -> list piece -> Z -> Prop :=
| Chain_nil : forall a, Chain a [] a
| Chain_cons : forall p tl a b, p_off p = a -> Chain (a + p_len p) tl b -> Chain a (p :: tl) b.

Lemma Chain_app : forall a b c x y, Chain a x b -> Chain b y c -> Chain a (x ++ y) c.
Proof. intros a b c x y H. induction H; intros; simpl; auto. constructor; auto. Qed.

(* a piece served through window number j lies inside the mapped part of that window;
   no byte of a piece served through the file is covered by a mapped window *)
Definition piece_ok_at (ss : list slot) (i : nat) (lo : Z) (p : piece) : Prop :=
  0 < p_len p /\ lo <= p_off p /\
  match p_loc p with
  | ViaWin j => (i <= j)%nat /\ exists s, nth_error ss (j - i) = Some s /\ s_off s <= p_off p /\ p_off p + p_len p <= s_off s + s_len s
  | ViaFile => forall s x, In s ss -> p_off p <= x < p_off p + p_len p -> ~ mapped s x
  end.
Definition piece_ok (ss : list slot) (p : piece) : Prop := piece_ok_at ss 0 (p_off p) p.

(* one iteration of the loop without the recursive call *)
Definition step_slot (s : slot) (i : nat) (off wp : Z) : list piece * Z * Z :=
  let '(p1, off1, wp1) :=
    if s_off s >? off then
      let len := Z.min wp (s_off s - off) in
      ([mkPiece ViaFile off len], off + len, wp - len)
    else ([], off, wp) in
  let '(p2, off2, wp2) :=
    if (wp1 >? 0) && (s_off s <=? off1) && (s_off s + s_len s >? off1) then
      let len := Z.min wp1 (s_off s + s_len s - off1) in
      ([mkPiece (ViaWin i) off1 len], off1 + len, wp1 - len)
    else ([], off1, wp1) in
  (p1 ++ p2, off2, wp2).

Lemma split_cons : forall s tl i off wp,
  split (s :: tl) i off wp =
    if wp <=? 0 then ([], off, wp)
    else if (s_len s =? 0) || (wp + off <=? s_off s) then ([], off, wp)
    else let '(p12, off2, wp2) := step_slot s i off wp in
         let '(ps, off3, wp3) := split tl (S i) off2 wp2 in (p12 ++ ps, off3, wp3).
Proof.
  intros. simpl. destruct (wp <=? 0); [reflexivity |].
  destruct ((s_len s =? 0) || (wp + off <=? s_off s)); [reflexivity |].
  unfold step_slot.
  destruct (s_off s >? off);
    match goal with |- context [if ?c then _ else _] => destruct c end;
    destruct (split tl (S i) _ _) as [[ps off3] wp3]; rewrite <- ?app_assoc; reflexivity.
Qed.

Lemma step_slot_ok : forall s i off wp p12 off2 wp2,
  0 < wp -> 0 < s_len s -> s_off s < wp + off ->
  step_slot s i off wp = (p12, off2, wp2) ->
  Chain off p12 off2 /\ off2 + wp2 = off + wp /\ 0 <= wp2 <= wp /\ (0 < wp2 -> s_off s + s_len s <= off2) /\
  Forall (fun p => 0 < p_len p /\ off <= p_off p /\
                   match p_loc p with
                   | ViaWin j => j = i /\ s_off s <= p_off p /\ p_off p + p_len p <= s_off s + s_len s
                   | ViaFile => p_off p + p_len p <= s_off s
                   end) p12.
Proof.
  intros s i off wp p12 off2 wp2 Hwp Hl Hb E. unfold step_slot in E.
  destruct (Z.gtb_spec (s_off s) off) as [Hgt | Hle].
  - (* a part before the window goes through the file, then the window *)
    replace (Z.min wp (s_off s - off)) with (s_off s - off) in E by lia.
    replace (off + (s_off s - off)) with (s_off s) in E by lia.
    destruct (Z.gtb_spec (wp - (s_off s - off)) 0); [| lia].
    destruct (Z.leb_spec (s_off s) (s_off s)); [| lia].
    destruct (Z.gtb_spec (s_off s + s_len s) (s_off s)); [| lia].
    simpl in E. inversion E; subst p12 off2 wp2. clear E.
    split; [| split; [| split; [| split]]].
    + constructor; [reflexivity |]. simpl. replace (off + (s_off s - off)) with (s_off s) by lia.
      constructor; [reflexivity |]. simpl. constructor.
    + lia.
    + lia.
    + lia.
    + constructor; [simpl; lia |]. constructor; [simpl; lia |]. constructor.
  - destruct (Z.gtb_spec wp 0); [| lia].
    destruct (Z.leb_spec (s_off s) off); [| lia].
    destruct (Z.gtb_spec (s_off s + s_len s) off) as [Hin | Hout]; simpl in E; inversion E; subst p12 off2 wp2; clear E.
    + split; [| split; [| split; [| split]]].
      * constructor; [reflexivity |]. simpl. constructor.
      * lia.
      * lia.
      * lia.
      * constructor; [simpl; lia |]. constructor.
    + split; [| split; [| split; [| split]]]; try lia; constructor.
Qed.

(* the geometry of a layout alone (shared or private windows) *)
Definition slot_geo (ps fsz : Z) (s : slot) : Prop :=
  0 <= s_off s /\ s_off s mod ps = 0 /\ 0 < s_maxlen s /\ s_maxlen s mod ps = 0 /\ s_len s = slot_nlen fsz s.
Inductive LayoutInv (ps fsz : Z) : list slot -> Prop :=
| LI_nil : LayoutInv ps fsz []
| LI_cons : forall s tl, slot_geo ps fsz s -> Forall (fun t => s_off s + s_maxlen s <= s_off t) tl ->
    LayoutInv ps fsz tl -> LayoutInv ps fsz (s :: tl).
Lemma slot_ok_geo : forall ps fsz s, slot_ok ps fsz s -> slot_geo ps fsz s.
Proof. intros ps fsz s [H1 [H2 [H3 [H4 [H5 _]]]]]. unfold slot_geo. auto. Qed.
Lemma SlotsInv_Layout : forall ps fsz ss, SlotsInv ps fsz ss -> LayoutInv ps fsz ss.
Proof. intros ps fsz ss H. induction H; constructor; auto. apply slot_ok_geo; assumption. Qed.
Lemma LayoutInv_Forall : forall ps fsz ss, LayoutInv ps fsz ss -> Forall (slot_geo ps fsz) ss.
Proof. intros ps fsz ss H. induction H; constructor; auto. Qed.

Lemma SlotsInv_Forall : forall ps fsz ss, SlotsInv ps fsz ss -> Forall (slot_ok ps fsz) ss.
Proof. intros ps fsz ss H. induction H; constructor; auto. Qed.

Lemma slot_len_range : forall ps fsz s, slot_geo ps fsz s -> 0 <= s_len s <= s_maxlen s.
Proof. intros ps fsz s [_ [_ [Hm [_ Hl]]]]. rewrite Hl. apply slot_nlen_range. exact Hm. Qed.

Lemma slot_len0 : forall ps fsz s, slot_geo ps fsz s -> (s_len s = 0 <-> fsz <= s_off s).
Proof.
  intros ps fsz s [_ [_ [Hm [_ Hl]]]]. rewrite Hl. unfold slot_nlen.
  destruct (Z.geb_spec (s_off s) fsz); lia.
Qed.

Lemma split_ok : forall ps fsz ss, LayoutInv ps fsz ss -> forall i off wp pcs off' wp',
  split ss i off wp = (pcs, off', wp') ->
  Chain off pcs off' /\ off' + wp' = off + wp /\
  (wp <= 0 -> pcs = [] /\ wp' = wp) /\ (0 < wp -> 0 <= wp' <= wp) /\
  Forall (piece_ok_at ss i off) pcs /\
  (forall s x, In s ss -> off' <= x < off' + wp' -> ~ mapped s x).
Proof.
  intros ps fsz ss HS. induction HS as [| s tl Hs Hf Ht IH]; intros i off wp pcs off' wp' E.
  - simpl in E. inversion E; subst. repeat split; try lia; try constructor. intros s x [].
  - rewrite split_cons in E.
    pose proof (slot_len_range _ _ _ Hs) as Hlr.
    destruct (Z.leb_spec wp 0) as [Hwp | Hwp].
    { inversion E; subst. repeat split; try lia; try constructor; try (unfold mapped; intros; lia). }
    destruct ((s_len s =? 0) || (wp + off <=? s_off s)) eqn:Ebrk.
    { inversion E; subst. split; [constructor |]. split; [lia |]. split; [intros; lia |]. split; [intros; lia |].
      split; [constructor |].
      intros s0 x Hin Hx Hm. unfold mapped in Hm. apply orb_true_iff in Ebrk. destruct Ebrk as [E0 | E1].
      - apply Z.eqb_eq in E0. destruct Hin as [-> | Hin]; [lia |].
        (* the later windows start beyond the end of the file as well *)
        pose proof (proj1 (slot_len0 _ _ _ Hs) E0) as Hfs.
        rewrite Forall_forall in Hf. specialize (Hf _ Hin).
        pose proof (LayoutInv_Forall _ _ _ Ht) as Hall. rewrite Forall_forall in Hall. specialize (Hall _ Hin).
        pose proof (proj2 (slot_len0 _ _ _ Hall)) as H0. destruct Hs as [_ [_ [Hml _]]]. lia.
      - apply Z.leb_le in E1. destruct Hin as [-> | Hin]; [lia |].
        rewrite Forall_forall in Hf. specialize (Hf _ Hin). destruct Hs as [_ [_ [Hml _]]]. lia. }
    apply orb_false_iff in Ebrk. destruct Ebrk as [E0 E1]. apply Z.eqb_neq in E0. apply Z.leb_gt in E1.
    destruct (step_slot s i off wp) as [[p12 off2] wp2] eqn:Est.
    destruct (split tl (S i) off2 wp2) as [[pcs3 off3] wp3] eqn:Esp.
    inversion E; subst pcs off' wp'. clear E.
    destruct (step_slot_ok s i off wp p12 off2 wp2 Hwp ltac:(lia) ltac:(lia) Est) as [C1 [S1 [R1 [B1 F1]]]].
    destruct (IH (S i) off2 wp2 pcs3 off3 wp3 Esp) as [C2 [S2 [Z2 [R2 [F2 A2]]]]].
    assert (Hmax : 0 < s_maxlen s) by (destruct Hs as [_ [_ [Hml _]]]; exact Hml).
    assert (Hlater : forall t, In t tl -> s_off s + s_maxlen s <= s_off t) by (rewrite Forall_forall in Hf; exact Hf).
    split; [eapply Chain_app; eauto |]. split; [lia |]. split; [intros; lia |].
    split. { intros _. destruct (Z_le_gt_dec wp2 0) as [Hz | Hz]; [destruct (Z2 Hz); lia | specialize (R2 ltac:(lia)); lia]. }
    split.
    + apply Forall_app. split.
      * eapply Forall_impl; [| exact F1]. intros p [Hp1 [Hp2 Hp3]]. unfold piece_ok_at. split; [exact Hp1 |]. split; [exact Hp2 |].
        destruct (p_loc p) as [| j].
        -- intros s0 x Hin Hx Hm. unfold mapped in Hm. destruct Hin as [-> | Hin]; [lia |]. specialize (Hlater _ Hin). lia.
        -- destruct Hp3 as [-> [Ha Hb]]. split; [lia |]. exists s. rewrite Nat.sub_diag. simpl. auto.
      * destruct (Z_le_gt_dec wp2 0) as [Hz | Hz]; [destruct (Z2 Hz) as [-> _]; constructor |].
        specialize (B1 ltac:(lia)).
        eapply Forall_impl; [| exact F2]. intros p [Hp1 [Hp2 Hp3]]. unfold piece_ok_at. split; [exact Hp1 |]. split; [lia |].
        destruct (p_loc p) as [| j].
        -- intros s0 x Hin Hx Hm. destruct Hin as [-> | Hin]; [unfold mapped in Hm; lia | exact (Hp3 s0 x Hin Hx Hm)].
        -- destruct Hp3 as [Hij [s' [Hn Hr]]]. split; [lia |]. exists s'. split; [| exact Hr].
           replace (j - i)%nat with (S (j - S i)) by lia. simpl. exact Hn.
    + intros s0 x Hin Hx Hm. destruct Hin as [-> | Hin]; [| exact (A2 s0 x Hin Hx Hm)].
      unfold mapped in Hm. destruct (Z_le_gt_dec wp2 0) as [Hz | Hz]; [destruct (Z2 Hz); lia |].
      specialize (B1 ltac:(lia)). specialize (R2 ltac:(lia)). lia.
Qed.

Lemma piece_ok_at_lo : forall ss i lo p, piece_ok_at ss i lo p -> piece_ok_at ss i (p_off p) p.
Proof. intros ss i lo p [H1 [H2 H3]]. unfold piece_ok_at. split; [exact H1 |]. split; [lia | exact H3]. Qed.

(* THEOREM split_covers *)
Lemma split_covers : forall ps fsz ss off siz, LayoutInv ps fsz ss -> 0 <= siz ->
  Chain off (split_all ss off siz) (off + siz) /\ Forall (piece_ok ss) (split_all ss off siz).
Proof.
  intros ps fsz ss off siz HS Hsiz. unfold split_all.
  destruct (split ss 0 off siz) as [[pcs off'] wp'] eqn:E.
  destruct (split_ok ps fsz ss HS 0%nat off siz pcs off' wp' E) as [C [S [Z0 [R [F A]]]]].
  assert (Hw : 0 <= wp') by (destruct (Z_le_gt_dec siz 0) as [Hz | Hz]; [destruct (Z0 Hz); lia | specialize (R ltac:(lia)); lia]).
  destruct (Z.gtb_spec wp' 0) as [Hpos | Hzero].
  - split.
    + eapply Chain_app; [exact C |]. constructor; [reflexivity |]. simpl. replace (off' + wp') with (off + siz) by lia. constructor.
    + apply Forall_app. split.
      * eapply Forall_impl; [| exact F]. intros p Hp. exact (piece_ok_at_lo _ _ _ _ Hp).
      * constructor; [| constructor]. unfold piece_ok, piece_ok_at. simpl. split; [lia |]. split; [lia |]. exact A.
  - rewrite app_nil_r. split.
    + replace (off + siz) with off' by lia. exact C.
    + eapply Forall_impl; [| exact F]. intros p Hp. exact (piece_ok_at_lo _ _ _ _ Hp).
Qed.

(* ---------------------------------------------------------------------------------------------- *)
(* 7. shared windows are transparent: the pieces written/read one by one are one splice / one pread *)
Lemma set_nth_same : forall (A : Type) (l : list A) i x, nth_error l i = Some x -> set_nth i x l = l.
Proof.
  intros A l. induction l as [| a tl IH]; intros i x H; destruct i; simpl in *; try discriminate.
  - inversion H; reflexivity.
  - f_equal. apply IH. exact H.
Qed.

Lemma splice_nil : forall f a, splice f a [] = f.
Proof. intros. unfold splice. simpl. change (zlen (@nil Z)) with 0. rewrite Z.add_0_r. apply ztake_zdrop. Qed.

Lemma Chain_bounds : forall a pcs b, Chain a pcs b -> Forall (fun p => 0 < p_len p) pcs -> a <= b.
Proof.
  intros a pcs b H. induction H; intros F. - lia. - inversion F; subst. specialize (IHChain H4). lia.
Qed.

Lemma piece_ok_len : forall ss pcs, Forall (piece_ok ss) pcs -> Forall (fun p => 0 < p_len p) pcs.
Proof. intros. eapply Forall_impl; [| exact H]. intros p [Hp _]. exact Hp. Qed.

Lemma win_shared : forall ps fsz ss j s p, SlotsInv ps fsz ss -> nth_error ss j = Some s ->
  s_off s <= p_off p -> p_off p + p_len p <= s_off s + s_len s -> 0 < p_len p ->
  s_priv s = false /\ in_win s (p_off p - s_off s) (p_len p) = true.
Proof.
  intros ps fsz ss j s p HS Hn H1 H2 H3. apply nth_error_In in Hn.
  pose proof (SlotsInv_Forall _ _ _ HS) as Hall. rewrite Forall_forall in Hall. specialize (Hall _ Hn).
  destruct Hall as [_ [_ [_ [_ [_ Hp]]]]]. split; [exact Hp |].
  unfold in_win. apply andb_true_iff. split; [apply Z.leb_le; lia | apply Z.leb_le; lia].
Qed.

Lemma write_pieces_shared : forall ps fsz ss, SlotsInv ps fsz ss -> forall pcs a b data f,
  Chain a pcs b -> Forall (piece_ok ss) pcs -> 0 <= a -> b <= zlen f -> zlen data = b - a ->
  write_pieces ps pcs data f ss = Some (splice f a data, ss).
Proof.
  intros ps fsz ss HS pcs. induction pcs as [| p tl IH]; intros a b data f C F Ha Hb Hd.
  - inversion C; subst. simpl. assert (data = []) by (apply zlen_0_nil; lia). subst. rewrite splice_nil. reflexivity.
  - inversion C as [| p' tl' a' b' Hpo C']; subst. inversion F as [| p' tl' Fp Ft]; subst.
    pose proof (Chain_bounds _ _ _ C' (piece_ok_len _ _ Ft)) as Hle.
    destruct Fp as [Hlen [_ Hloc]].
    set (d := ztake (p_len p) data).
    assert (Hdl : zlen d = p_len p) by (apply zlen_ztake; lia).
    assert (Estep : match p_loc p with
                    | ViaFile => Some (pwrite f (p_off p) d, ss)
                    | ViaWin i => match nth_error ss i with
                                  | Some s => match win_write ps f s (p_off p - s_off s) d with
                                              | Some (s', f') => Some (f', set_nth i s' ss)
                                              | None => None end
                                  | None => None end
                    end = Some (splice f (p_off p) d, ss)).
    { destruct (p_loc p) as [| j].
      - rewrite pwrite_splice by lia. reflexivity.
      - destruct Hloc as [_ [s [Hn [H1 H2]]]]. rewrite Nat.sub_0_r in Hn. rewrite Hn.
        destruct (win_shared ps fsz ss j s p HS Hn H1 H2 Hlen) as [Hp Hw].
        unfold win_write. rewrite Hdl, Hw, Hp.
        replace (s_off s + (p_off p - s_off s)) with (p_off p) by lia.
        rewrite pwrite_splice by lia. rewrite set_nth_same by exact Hn. reflexivity. }
    simpl. fold d. rewrite Estep.
    rewrite (IH (p_off p + p_len p) b (zdrop (p_len p) data) (splice f (p_off p) d) C' Ft).
    + assert (Hrl : zlen (zdrop (p_len p) data) = b - p_off p - p_len p) by (rewrite zlen_zdrop by lia; lia).
      f_equal. f_equal. replace (p_off p + p_len p) with (p_off p + zlen d) by lia.
      rewrite splice_app by lia. unfold d. rewrite ztake_zdrop. reflexivity.
    + lia.
    + rewrite zlen_splice by lia. lia.
    + rewrite zlen_zdrop by lia. lia.
Qed.

Lemma read_pieces_shared : forall ps fsz ss, SlotsInv ps fsz ss -> forall pcs a b f,
  Chain a pcs b -> Forall (piece_ok ss) pcs -> 0 <= a ->
  read_pieces ps pcs f ss = Some (pread f a (b - a)).
Proof.
  intros ps fsz ss HS pcs. induction pcs as [| p tl IH]; intros a b f C F Ha.
  - inversion C; subst. simpl. rewrite Z.sub_diag. reflexivity.
  - inversion C as [| p' tl' a' b' Hpo C']; subst. inversion F as [| p' tl' Fp Ft]; subst.
    pose proof (Chain_bounds _ _ _ C' (piece_ok_len _ _ Ft)) as Hle.
    destruct Fp as [Hlen [_ Hloc]].
    assert (Estep : match p_loc p with
                    | ViaFile => Some (pread f (p_off p) (p_len p))
                    | ViaWin i => match nth_error ss i with
                                  | Some s => win_read ps f s (p_off p - s_off s) (p_len p)
                                  | None => None end
                    end = Some (pread f (p_off p) (p_len p))).
    { destruct (p_loc p) as [| j]; [reflexivity |].
      destruct Hloc as [_ [s [Hn [H1 H2]]]]. rewrite Nat.sub_0_r in Hn. rewrite Hn.
      destruct (win_shared ps fsz ss j s p HS Hn H1 H2 Hlen) as [Hp Hw].
      unfold win_read. rewrite Hw, Hp. replace (s_off s + (p_off p - s_off s)) with (p_off p) by lia. reflexivity. }
    simpl. rewrite Estep. rewrite (IH (p_off p + p_len p) b f C' Ft) by lia.
    f_equal. rewrite pread_app by lia. f_equal. lia.
Qed.

(* ---------------------------------------------------------------------------------------------- *)
(* 8. write and read against the flat array *)
Lemma set_fs_inv : forall st f, Inv st -> zlen f = fsize st -> Inv (set_fs st f (slots st)).
Proof. intros st f [H1 H2 H3 H4 H5 H6] Hf. constructor; simpl; auto. Qed.

Lemma exfile_write_spec : forall q ok st off data rc sp st', q_mul_ge q = true -> Inv st ->
  0 <= off -> off + zlen data <= LIM -> grow_ok st (off + zlen data) ->
  exfile_write q ok st off data = (rc, sp, st') ->
  spec_write (psize st) ok (abs st) off data = (rc, sp, abs st') /\ Inv st' /\ psize st' = psize st /\ maxoff st' = maxoff st.
Proof.
  intros q ok st off data rc sp st' Hq HI Hoff Hend Hg E.
  pose proof (zlen_nonneg data) as Hdn. pose proof LIM_val as EL.
  pose proof (inv_fs st HI) as [Hf1 Hf2]. pose proof (inv_file st HI) as Hfl. pose proof (inv_mo st HI) as [Hm1 _].
  unfold exfile_write in E. rewrite sw_small in E by lia. rewrite uw_small in E by lia.
  destruct (Z.ltb_spec off 0); [lia |]. destruct (Z.ltb_spec (off + zlen data) 0); [lia |]. simpl in E.
  unfold spec_write. simpl.
  destruct (negb (maxoff st =? 0) && (off + zlen data >? maxoff st)).
  { inversion E; subst. auto. }
  (* the size request *)
  assert (Hens : exists rc1 st1, (if off + zlen data >? fsize st then ensure_size_lw q ok st (off + zlen data) else (0, st)) = (rc1, st1) /\
            spec_ensure (psize st) ok (abs st) (off + zlen data) = (rc1, abs st1) /\ Inv st1 /\ psize st1 = psize st /\ maxoff st1 = maxoff st /\
            (rc1 = 0 -> off + zlen data <= fsize st1)).
  { destruct (Z.gtb_spec (off + zlen data) (fsize st)) as [Hgt | Hle].
    - destruct (ensure_size_lw q ok st (off + zlen data)) as [rc1 st1] eqn:Ee. exists rc1, st1. split; [reflexivity |].
      assert (Hrange : 0 <= off + zlen data <= LIM) by lia.
      destruct (ensure_size_lw_spec q ok st (off + zlen data) rc1 st1 Hq HI Hrange Hg Ee) as [A [B [C [D [_ F]]]]]. auto.
    - exists 0, st. split; [reflexivity |]. split; [| auto].
      unfold spec_ensure. simpl. rewrite Hfl. destruct (Z.geb_spec (fsize st) (off + zlen data)); [reflexivity | lia]. }
  destruct Hens as [rc1 [st1 [E1 [S1 [I1 [P1 [M1 F1]]]]]]]. rewrite E1 in E. rewrite S1.
  destruct (Z.eqb_spec rc1 0) as [Hz | Hnz]; simpl in E |- *.
  - subst rc1. specialize (F1 eq_refl).
    pose proof (inv_file st1 I1) as Hfl1.
    destruct (split_covers (psize st1) (fsize st1) (slots st1) off (zlen data) (SlotsInv_Layout _ _ _ (inv_slots st1 I1)) Hdn) as [C F].
    rewrite (write_pieces_shared (psize st1) (fsize st1) (slots st1) (inv_slots st1 I1) _ off (off + zlen data) data (file st1) C F) in E by lia.
    inversion E; subst rc sp st'. split; [reflexivity |]. split; [| auto].
    apply set_fs_inv; [exact I1 |]. rewrite zlen_splice by lia. exact Hfl1.
  - inversion E; subst rc sp st'. auto.
Qed.

Lemma pread_clip : forall f off n, 0 <= off -> zlen f - off <= n -> pread f off n = zdrop off f.
Proof.
  intros f off n Ho Hn. unfold pread.
  destruct (Z_le_gt_dec off (zlen f)).
  - apply ztake_all. rewrite zlen_zdrop by lia. lia.
  - rewrite zdrop_all by lia. unfold ztake. apply firstn_nil.
Qed.

Lemma exfile_read_spec : forall st off siz, Inv st -> 0 <= off -> 0 <= siz -> off + siz <= LIM ->
  exfile_read st off siz = (0, zlen (spec_read (abs st) off siz), spec_read (abs st) off siz).
Proof.
  intros st off siz HI Hoff Hsiz Hend. pose proof LIM_val as EL.
  pose proof (inv_fs st HI) as [Hf1 Hf2]. pose proof (inv_file st HI) as Hfl.
  unfold exfile_read, spec_read. simpl. rewrite sw_small by lia.
  destruct (Z.ltb_spec off 0); [lia |]. destruct (Z.ltb_spec (off + siz) 0); [lia |]. simpl.
  destruct (Z.gtb_spec (off + siz) (fsize st)) as [Hgt | Hle].
  - destruct (Z_le_gt_dec off (fsize st)) as [Hin | Hout].
    + destruct (split_covers (psize st) (fsize st) (slots st) off (fsize st - off) (SlotsInv_Layout _ _ _ (inv_slots st HI)) ltac:(lia)) as [C F].
      rewrite (read_pieces_shared _ _ _ (inv_slots st HI) _ off (off + (fsize st - off)) (file st) C F) by lia.
      replace (off + (fsize st - off) - off) with (fsize st - off) by lia.
      rewrite (pread_clip (file st) off siz) by lia. rewrite (pread_clip (file st) off (fsize st - off)) by lia. reflexivity.
    + (* beyond the end: nothing to split, nothing to read *)
      unfold split_all.
      assert (Es : split (slots st) 0 off (fsize st - off) = ([], off, fsize st - off)).
      { destruct (slots st) as [| s tl]; [reflexivity |]. rewrite split_cons.
        destruct (Z.leb_spec (fsize st - off) 0); [reflexivity | lia]. }
      rewrite Es. destruct (Z.gtb_spec (fsize st - off) 0); [lia |]. simpl.
      rewrite (pread_clip (file st) off siz) by lia. rewrite zdrop_all by lia. reflexivity.
  - destruct (split_covers (psize st) (fsize st) (slots st) off siz (SlotsInv_Layout _ _ _ (inv_slots st HI)) Hsiz) as [C F].
    rewrite (read_pieces_shared _ _ _ (inv_slots st HI) _ off (off + siz) (file st) C F) by lia.
    replace (off + siz - off) with siz by lia. reflexivity.
Qed.

(* ---------------------------------------------------------------------------------------------- *)
(* 9. window registration keeps the layout invariant *)
Lemma insert_slot_In : forall ss ns ss', insert_slot ss ns = Some ss' -> forall t, In t ss' -> t = ns \/ In t ss.
Proof.
  induction ss as [| s tl IH]; intros ns ss' E t Ht; simpl in E.
  - inversion E; subst. destruct Ht as [<- | []]. left; reflexivity.
  - destruct (negb (IW_RANGES_OVERLAP (s_off s) (s_off s + s_maxlen s) (s_off ns) (s_off ns + s_maxlen ns) =? 0)); [discriminate |].
    destruct (s_off ns <? s_off s).
    + inversion E; subst. destruct Ht as [<- | Ht]; [left; reflexivity | right; exact Ht].
    + destruct (insert_slot tl ns) as [tl' |] eqn:Ei; [| discriminate]. inversion E; subst.
      destruct Ht as [<- | Ht]; [right; left; reflexivity |].
      destruct (IH ns tl' Ei t Ht) as [-> | Hin]; [left; reflexivity | right; right; exact Hin].
Qed.

Lemma insert_slot_inv : forall ps fsz ss, SlotsInv ps fsz ss -> forall ns ss', slot_ok ps fsz ns ->
  insert_slot ss ns = Some ss' -> SlotsInv ps fsz ss'.
Proof.
  intros ps fsz ss HS. induction HS as [| s tl Hs Hf Ht IH]; intros ns ss' Hns E; simpl in E.
  - inversion E; subst. constructor; [exact Hns | constructor | constructor].
  - assert (Hm1 : 0 < s_maxlen s) by (destruct Hs as [_ [_ [H _]]]; exact H).
    assert (Hm2 : 0 < s_maxlen ns) by (destruct Hns as [_ [_ [H _]]]; exact H).
    destruct (Z.eqb_spec (IW_RANGES_OVERLAP (s_off s) (s_off s + s_maxlen s) (s_off ns) (s_off ns + s_maxlen ns)) 0) as [Hno | Hov];
      simpl in E; [| discriminate].
    assert (Hdis : ~ Z.max (s_off s) (s_off ns) < Z.min (s_off s + s_maxlen s) (s_off ns + s_maxlen ns)).
    { intros Hc. apply (ranges_overlap_correct (s_off s) (s_off s + s_maxlen s) (s_off ns) (s_off ns + s_maxlen ns)) in Hc; lia. }
    destruct (Z.ltb_spec (s_off ns) (s_off s)) as [Hlt | Hge].
    + inversion E; subst. constructor; [exact Hns | | constructor; assumption].
      constructor; [lia |]. rewrite Forall_forall in Hf |- *. intros t Hin. specialize (Hf t Hin). lia.
    + destruct (insert_slot tl ns) as [tl' |] eqn:Ei; [| discriminate]. inversion E; subst.
      constructor; [exact Hs | | eapply IH; eauto].
      rewrite Forall_forall in Hf |- *. intros t Hin.
      destruct (insert_slot_In _ _ _ Ei t Hin) as [-> | Hin']; [lia | exact (Hf t Hin')].
Qed.

Lemma remove_slot_inv : forall ps fsz ss, SlotsInv ps fsz ss -> forall off ss',
  remove_slot ss off = Some ss' -> SlotsInv ps fsz ss' /\ (forall t, In t ss' -> In t ss).
Proof.
  intros ps fsz ss HS. induction HS as [| s tl Hs Hf Ht IH]; intros off ss' E; simpl in E; [discriminate |].
  destruct (s_off s =? off).
  - inversion E; subst. split; [exact Ht | intros; right; assumption].
  - destruct (remove_slot tl off) as [tl' |] eqn:Er; [| discriminate]. inversion E; subst.
    destruct (IH off tl' Er) as [HS' Hsub]. split.
    + constructor; [exact Hs | | exact HS']. rewrite Forall_forall in Hf |- *. intros t Hin. exact (Hf t (Hsub t Hin)).
    + intros t [<- | Hin]; [left; reflexivity | right; exact (Hsub t Hin)].
Qed.

Lemma set_slots_inv : forall st ss, Inv st -> SlotsInv (psize st) (fsize st) ss -> Inv (set_slots st ss).
Proof. intros st ss [H1 H2 H3 H4 H5 H6] HS. constructor; simpl; auto. Qed.

Lemma round_maxlen_ok : forall ps off maxlen, PsOk ps -> 0 <= off <= LIM -> 0 <= maxlen < 2 ^ 64 ->
  0 <= round_maxlen ps off maxlen /\ round_maxlen ps off maxlen mod ps = 0.
Proof.
  intros ps off maxlen HP Ho Hm. pose proof (PsOk_pos ps HP) as Hps. pose proof LIM_val as EL. pose proof OFFMAX_val as EO.
  unfold round_maxlen.
  set (m := if EXF_OFF_T_MAX - off <? maxlen then EXF_OFF_T_MAX - off else maxlen).
  assert (Hmr : 0 <= m <= 2 ^ 63) by (unfold m; destruct (Z.ltb_spec (EXF_OFF_T_MAX - off) maxlen); lia).
  rewrite roundup_ps by (auto; lia). rewrite rounddown_ps by (auto; lia).
  destruct ((rup m ps <? m) || (EXF_OFF_T_MAX - off <? rup m ps)).
  - split; [| apply Z.mod_mul; lia]. apply Z.mul_nonneg_nonneg; [apply Z.div_pos; lia | lia].
  - split; [apply rup_nonneg; lia | apply rup_mod; lia].
Qed.

Lemma add_mmap_lw_inv : forall st off maxlen flags rc st', Inv st -> 0 <= off <= LIM -> 0 <= maxlen < 2 ^ 64 ->
  Z.land flags EXF_MMAP_PRIVATE = 0 ->
  add_mmap_lw st off maxlen flags = (rc, st') -> Inv st' /\ abs st' = abs st /\ psize st' = psize st /\ maxoff st' = maxoff st.
Proof.
  intros st off maxlen flags rc st' HI Ho Hm Hfl E. pose proof (inv_ps st HI) as HP. pose proof LIM_val as EL.
  unfold add_mmap_lw in E. rewrite aligned_ps in E by (auto; lia).
  destruct (Z.eqb_spec (off mod psize st) 0) as [Hal | Hnal]; simpl in E; [| inversion E; subst; auto].
  destruct (round_maxlen_ok (psize st) off maxlen HP Ho Hm) as [Hr1 Hr2].
  destruct (Z.eqb_spec (round_maxlen (psize st) off maxlen) 0) as [Hz | Hnz]; [inversion E; subst; auto |].
  rewrite Hfl in E. simpl in E.
  set (ns0 := mkSlot off (round_maxlen (psize st) off maxlen) 0 false []) in E.
  destruct (insert_slot (slots st) (initmmap_slot (psize st) (fsize st) ns0)) as [ss' |] eqn:Ei; inversion E; subst; auto.
  split; [| auto]. apply set_slots_inv; [exact HI |].
  eapply insert_slot_inv; [exact (inv_slots st HI) | | exact Ei].
  destruct (initmmap_slot_fields (psize st) (fsize st) ns0) as [Eo [Em [Ep El]]].
  unfold slot_ok. rewrite Eo, Em, Ep, El. simpl. repeat split; try lia; auto.
  unfold slot_nlen. rewrite Eo, Em. reflexivity.
Qed.

Lemma remove_mmap_lw_inv : forall st off rc st', Inv st -> remove_mmap_lw st off = (rc, st') ->
  Inv st' /\ abs st' = abs st /\ psize st' = psize st /\ maxoff st' = maxoff st.
Proof.
  intros st off rc st' HI E. unfold remove_mmap_lw in E.
  destruct (remove_slot (slots st) off) as [ss' |] eqn:Er; inversion E; subst; auto.
  split; [| auto]. apply set_slots_inv; [exact HI |]. exact (proj1 (remove_slot_inv _ _ _ (inv_slots st HI) _ _ Er)).
Qed.

Lemma remap_all_inv : forall st, Inv st -> Inv (remap_all st) /\ abs (remap_all st) = abs st.
Proof.
  intros st HI. split; [| reflexivity]. unfold remap_all. apply set_slots_inv; [exact HI |].
  eapply initmmap_inv. exact (inv_slots st HI).
Qed.

(* ---------------------------------------------------------------------------------------------- *)
(* 10. copy: the chunked loop of iwp_copy_bytes is one splice when the ranges do not overlap forward *)
Lemma copy_loop_S : forall k f off siz noff pos,
  copy_loop (S k) f off siz noff pos =
    if pos <? siz then
      match pread f (off + pos) (Z.min COPY_CHUNK (siz - pos)) with
      | [] => f
      | b => copy_loop k (pwrite f (noff + pos) b) off siz noff (pos + zlen b)
      end
    else f.
Proof. reflexivity. Qed.

Lemma pread_self_len : forall f a c, 0 <= c -> pread f a (zlen (pread f a c)) = pread f a c.
Proof.
  intros f a c Hc. unfold pread. set (X := zdrop a f). rewrite zlen_ztake_min by lia.
  destruct (Z_le_gt_dec c (zlen X)).
  - rewrite Z.min_l by lia. reflexivity.
  - rewrite Z.min_r by lia. rewrite !ztake_all by lia. reflexivity.
Qed.

Lemma ztake_nil_pos : forall (A : Type) (X : list A) c, 0 < c -> ztake c X = [] -> X = [].
Proof.
  intros A X c Hc H. destruct X as [| x X']; [reflexivity |]. unfold ztake in H.
  destruct (Z.to_nat c) eqn:En; [lia |]. simpl in H. discriminate.
Qed.

Lemma copy_loop_spec : forall f0 off siz noff, 0 <= off -> 0 <= noff -> 0 <= siz -> noff + siz <= zlen f0 ->
  (noff <= off \/ off + siz <= noff) ->
  forall fuel pos fk, siz - pos < Z.of_nat fuel -> 0 <= pos <= siz -> zlen (pread f0 off pos) = pos ->
  fk = splice f0 noff (pread f0 off pos) ->
  copy_loop fuel fk off siz noff pos = splice f0 noff (pread f0 off siz).
Proof.
  intros f0 off siz noff Hoff Hnoff Hsiz Hfit Hdir.
  assert (HC : 0 < COPY_CHUNK) by reflexivity.
  induction fuel as [| k IH]; intros pos fk Hfuel Hpos Hfull Hfk; [lia |].
  rewrite copy_loop_S. destruct (Z.ltb_spec pos siz) as [Hlt | Hge].
  - set (c := Z.min COPY_CHUNK (siz - pos)). assert (Hc : 0 < c <= siz - pos) by (unfold c; lia).
    assert (Esrc : pread fk (off + pos) c = pread f0 (off + pos) c).
    { subst fk. destruct Hdir as [Hd | Hd].
      - apply pread_splice_after; lia.
      - apply pread_splice_before; lia. }
    rewrite Esrc. destruct (pread f0 (off + pos) c) as [| b0 b'] eqn:Eb.
    + (* end of file: nothing more to copy *)
      subst fk. f_equal. replace siz with (pos + (siz - pos)) by lia. rewrite <- pread_app by lia.
      unfold pread in Eb. apply ztake_nil_pos in Eb; [| lia]. unfold pread at 3. rewrite Eb.
      unfold ztake. rewrite firstn_nil. rewrite app_nil_r. reflexivity.
    + rewrite <- Eb. set (b := pread f0 (off + pos) c) in *.
      assert (Hbl : zlen b <= c) by (unfold b, pread; rewrite zlen_ztake_min by lia; lia).
      assert (Hbn : 0 < zlen b) by (rewrite Eb; unfold zlen; simpl; lia).
      assert (Eapp : pread f0 off (pos + zlen b) = pread f0 off pos ++ b).
      { rewrite <- pread_app by lia. f_equal. unfold b. apply pread_self_len. lia. }
      apply IH.
      * lia.
      * lia.
      * rewrite Eapp, zlen_app, Hfull. reflexivity.
      * subst fk. rewrite pwrite_splice; [| lia | rewrite zlen_splice by lia; lia].
        rewrite Eapp. rewrite <- Hfull at 2. apply splice_app; lia.
  - assert (pos = siz) by lia. subst pos. exact Hfk.
Qed.

Lemma file_copy_spec : forall f off siz noff rc f', 0 <= off -> 0 <= noff -> 0 <= siz -> noff + siz <= zlen f ->
  file_copy f off siz noff = (rc, f') ->
  (rc = 0 /\ f' = splice f noff (pread f off siz)) \/
  (rc = EXF_E_OVERFLOW /\ f' = f /\ off < noff < off + siz).
Proof.
  intros f off siz noff rc f' Hoff Hnoff Hsiz Hfit E. unfold file_copy in E.
  destruct (Z.eq_dec siz 0) as [Hz | Hnz].
  - subst siz. replace (negb (IW_RANGES_OVERLAP off (off + 0) noff (noff + 0) =? 0) && (noff >? off)) with false in E.
    + injection E as Hrc Hf. subst rc f'. left. split; [reflexivity |]. change (pread f off 0) with (@nil Z). rewrite splice_nil.
      reflexivity.
    + unfold IW_RANGES_OVERLAP. rewrite !Z.add_0_r.
      destruct (Z.gtb_spec off noff), (Z.leb_spec off noff), (Z.geb_spec off noff), (Z.ltb_spec off noff); simpl; try lia; reflexivity.
  - pose proof (ranges_overlap_correct off (off + siz) noff (noff + siz) ltac:(lia) ltac:(lia)) as Hov.
    assert (Hloop : (noff <= off \/ off + siz <= noff) ->
                    copy_loop (S (Z.to_nat siz)) f off siz noff 0 = splice f noff (pread f off siz)).
    { intros Hdir. apply (copy_loop_spec f off siz noff Hoff Hnoff Hsiz Hfit Hdir); try lia.
      - reflexivity.
      - change (pread f off 0) with (@nil Z). rewrite splice_nil. reflexivity. }
    destruct (Z.eqb_spec (IW_RANGES_OVERLAP off (off + siz) noff (noff + siz)) 0) as [Hno | Hyes]; cbn [negb andb] in E.
    + injection E as Hrc Hf. subst rc f'. left. split; [reflexivity |]. apply Hloop.
      destruct (Z_le_gt_dec noff off); [left; lia |]. right. destruct (Z_le_gt_dec (off + siz) noff); [lia |].
      exfalso. apply (proj2 Hov); lia.
    + destruct (Z.gtb_spec noff off) as [Hgt | Hle].
      * injection E as Hrc Hf. subst rc f'. right. split; [reflexivity |]. split; [reflexivity |]. apply Hov in Hyes. lia.
      * injection E as Hrc Hf. subst rc f'. left. split; [reflexivity |]. apply Hloop. left; lia.
Qed.

Definition FixedQ (q : quirks) : Prop := q_mul_ge q = true /\ q_copy_ensures q = true /\ q_copy_src q = true.

Lemma slot_in_file : forall ps fsz s, slot_ok ps fsz s -> 0 < s_len s -> s_off s + s_len s <= fsz.
Proof.
  intros ps fsz s [_ [_ [Hm [_ [Hl _]]]]] Hpos. rewrite Hl in *. unfold slot_nlen in *.
  destruct (Z.geb_spec (s_off s) fsz); lia.
Qed.

Lemma zlen_pread_le : forall f a n, 0 <= n -> zlen (pread f a n) <= n.
Proof. intros. unfold pread. rewrite zlen_ztake_min by lia. lia. Qed.

Lemma exfile_copy_spec : forall q ok st off siz noff rc st', FixedQ q -> Inv st ->
  0 <= off -> 0 <= siz -> 0 <= noff -> off + siz <= LIM -> noff + siz <= LIM -> grow_ok st (noff + siz) ->
  exfile_copy q ok st off siz noff = (rc, st') ->
  spec_copy (psize st) ok (abs st) off siz noff rc (abs st') /\ Inv st' /\ psize st' = psize st /\ maxoff st' = maxoff st.
Proof.
  intros q ok st off siz noff rc st' [Hq1 [Hq2 Hq3]] HI Hoff Hsiz Hnoff He1 He2 Hg E. pose proof LIM_val as EL.
  unfold exfile_copy in E. rewrite Hq2, Hq3 in E. rewrite sw_small in E by lia. rewrite !uw_small in E by lia.
  destruct (ensure_size_lw q ok st (noff + siz)) as [rc0 st0] eqn:Ee.
  assert (Hrange : 0 <= noff + siz <= LIM) by lia.
  destruct (ensure_size_lw_spec q ok st (noff + siz) rc0 st0 Hq1 HI Hrange Hg Ee) as [S0 [I0 [P0 [M0 [_ F0]]]]].
  unfold spec_copy. rewrite S0.
  destruct (Z.eqb_spec rc0 0) as [Hz | Hnz]; simpl in E.
  2:{ inversion E; subst rc st'. auto. }
  subst rc0. specialize (F0 eq_refl). pose proof (inv_file st0 I0) as Hfl0.
  (* the path through the file *)
  assert (Hfile : forall rcf stf, (let '(rc, f') := file_copy (file st0) off siz noff in (rc, set_file st0 f')) = (rcf, stf) ->
      ((rcf = 0 /\ abs stf = mkFlat (splice (file st0) noff (pread (file st0) off siz)) (maxoff st0) (pol st0)) \/
       (rcf = EXF_E_OVERFLOW /\ off < noff < off + siz /\ abs stf = abs st0)) /\ Inv stf /\ psize stf = psize st /\ maxoff stf = maxoff st).
  { intros rcf stf Ef. destruct (file_copy (file st0) off siz noff) as [rc1 f1] eqn:Efc. inversion Ef; subst rcf stf. clear Ef.
    destruct (file_copy_spec (file st0) off siz noff rc1 f1 Hoff Hnoff Hsiz ltac:(lia) Efc) as [[-> ->] | [-> [-> Hfw]]].
    - split; [left; split; reflexivity |]. split; [| auto].
      change (set_file st0 (splice (file st0) noff (pread (file st0) off siz)))
        with (set_fs st0 (splice (file st0) noff (pread (file st0) off siz)) (slots st0)).
      apply set_fs_inv; [exact I0 |]. pose proof (zlen_pread_le (file st0) off siz Hsiz). rewrite zlen_splice by lia. exact Hfl0.
    - split; [right; split; [reflexivity | split; [exact Hfw | reflexivity]] |]. split; [| auto].
      destruct st0; exact I0. }
  destruct (slots st0) as [| s tl] eqn:Ess.
  - destruct (Hfile rc st' E) as [Hres [Hi [Hp Hm]]]. split; [| auto]. simpl. exact Hres.
  - destruct ((0 <? s_len s) && (s_off s =? 0) && (s_len s >=? noff + siz)) eqn:Ecov.
    2:{ destruct (Hfile rc st' E) as [Hres [Hi [Hp Hm]]]. split; [| auto]. simpl. exact Hres. }
    destruct (Z.geb_spec (s_len s) (off + siz)) as [Hsrc | Hsrc]; simpl in E.
    2:{ destruct (Hfile rc st' E) as [Hres [Hi [Hp Hm]]]. split; [| auto]. simpl. exact Hres. }
    (* both ranges inside the first window: memmove *)
    apply andb_true_iff in Ecov. destruct Ecov as [Ec12 Ec3]. apply andb_true_iff in Ec12. destruct Ec12 as [Ec1 Ec2].
    apply Z.ltb_lt in Ec1. apply Z.eqb_eq in Ec2. apply Z.geb_le in Ec3.
    pose proof (inv_slots st0 I0) as HS0. rewrite Ess in HS0. inversion HS0 as [| s' tl' Hsok Hfa Htl]; subst s' tl'.
    pose proof (slot_in_file _ _ _ Hsok Ec1) as Hinf. destruct Hsok as [_ [_ [_ [_ [_ Hshared]]]]].
    unfold win_read in E. unfold in_win in E.
    destruct (Z.leb_spec 0 off); [| lia]. destruct (Z.leb_spec (off + siz) (s_len s)); [| lia]. simpl in E. rewrite Hshared in E.
    rewrite Ec2 in E. simpl in E.
    assert (Hbl : zlen (pread (file st0) off siz) = siz) by (apply zlen_pread; lia).
    unfold win_write in E. unfold in_win in E. rewrite Hbl in E.
    destruct (Z.leb_spec 0 noff); [| lia]. destruct (Z.leb_spec (noff + siz) (s_len s)); [| lia]. simpl in E. rewrite Hshared in E.
    rewrite Ec2 in E. simpl in E. rewrite pwrite_splice in E by lia.
    inversion E; subst rc st'. split; [left; split; reflexivity |]. split; [| auto].
    rewrite <- Ess. apply set_fs_inv; [exact I0 |]. rewrite zlen_splice by lia. exact Hfl0.
Qed.

(* ---------------------------------------------------------------------------------------------- *)
(* 11. every call, every history *)
(* side conditions of one call: arguments are offsets/lengths below 2^61 (no C overflow), windows are MAP_SHARED,
   and a size request does not push an unlimited file beyond 2^61 *)
Definition op_ok (st : exf) (o : op) : Prop :=
  match o with
  | OWrite off d => 0 <= off /\ off + zlen d <= LIM /\ grow_ok st (off + zlen d)
  | ORead off n => 0 <= off /\ 0 <= n /\ off + n <= LIM
  | OCopy off siz noff => 0 <= off /\ 0 <= siz /\ 0 <= noff /\ off + siz <= LIM /\ noff + siz <= LIM /\ grow_ok st (noff + siz)
  | OTruncate sz => 0 <= sz <= LIM
  | OEnsure sz => 0 <= sz <= LIM /\ grow_ok st sz
  | OAddMmap off maxlen flags => 0 <= off <= LIM /\ 0 <= maxlen < 2 ^ 64 /\ Z.land flags EXF_MMAP_PRIVATE = 0
  | ORemoveMmap _ | ORemap | OSync => True
  end.

Lemma step_refines : forall q ok st o r st', FixedQ q -> Inv st -> op_ok st o -> step q ok st o = (r, st') ->
  spec_step_rel (psize st) ok (abs st) o r (abs st') /\ Inv st' /\ psize st' = psize st /\ maxoff st' = maxoff st.
Proof.
  intros q ok st o r st' HQ HI Hok E. pose proof HQ as [Hq1 _]. destruct o; simpl in *.
  - destruct Hok as [H1 [H2 H3]]. destruct (exfile_write q ok st off d) as [[rc sp] st1] eqn:Ew. inversion E; subst r st'. simpl.
    exact (exfile_write_spec q ok st off d rc sp st1 Hq1 HI H1 H2 H3 Ew).
  - destruct Hok as [H1 [H2 H3]]. rewrite (exfile_read_spec st off n HI H1 H2 H3) in E. inversion E; subst r st'. simpl. auto.
  - destruct Hok as [H1 [H2 [H3 [H4 [H5 H6]]]]]. destruct (exfile_copy q ok st off siz noff) as [rc st1] eqn:Ec. inversion E; subst r st'. simpl.
    exact (exfile_copy_spec q ok st off siz noff rc st1 HQ HI H1 H2 H3 H4 H5 H6 Ec).
  - destruct (truncate_lw ok st sz) as [rc st1] eqn:Et. inversion E; subst r st'. simpl.
    destruct (truncate_lw_spec ok st sz rc st1 HI Hok Et) as [A [B [C D]]]. split; [exact A |]. split; [exact B |]. split; [exact C |].
    rewrite truncate_lw_eq in Et by assumption. cbv zeta in Et.
    destruct (fsize st =? rup sz (psize st)); [inversion Et; reflexivity |].
    destruct ((fsize st <? rup sz (psize st)) && negb (maxoff st =? 0) && (rup sz (psize st) >? maxoff st)); [inversion Et; reflexivity |].
    destruct ((fsize st <? rup sz (psize st)) && negb (ok (rup sz (psize st)))); inversion Et; reflexivity.
  - destruct Hok as [H1 H2]. destruct (ensure_size_lw q ok st sz) as [rc st1] eqn:Ee. inversion E; subst r st'. simpl.
    destruct (ensure_size_lw_spec q ok st sz rc st1 Hq1 HI H1 H2 Ee) as [A [B [C [D _]]]]. auto.
  - destruct Hok as [H1 [H2 H3]]. destruct (add_mmap_lw st off maxlen flags) as [rc st1] eqn:Ea. inversion E; subst r st'. simpl.
    destruct (add_mmap_lw_inv st off maxlen flags rc st1 HI H1 H2 H3 Ea) as [A [B [C D]]]. auto.
  - destruct (remove_mmap_lw st off) as [rc st1] eqn:Er. inversion E; subst r st'. simpl.
    destruct (remove_mmap_lw_inv st off rc st1 HI Er) as [A [B [C D]]]. auto.
  - inversion E; subst r st'. destruct (remap_all_inv st HI) as [A B]. auto.
  - inversion E; subst r st'. auto.
Qed.

Fixpoint RunOk (q : quirks) (ok : os_ok) (st : exf) (os : list op) : Prop :=
  match os with
  | [] => True
  | o :: tl => op_ok st o /\ RunOk q ok (snd (step q ok st o)) tl
  end.

Lemma run_refines : forall q ok os st rs st', FixedQ q -> Inv st -> RunOk q ok st os -> run q ok st os = (rs, st') ->
  spec_run_rel (psize st) ok (abs st) os rs (abs st') /\ Inv st' /\ psize st' = psize st /\ maxoff st' = maxoff st.
Proof.
  intros q ok os. induction os as [| o tl IH]; intros st rs st' HQ HI Hok E; simpl in E.
  - inversion E; subst. split; [constructor | auto].
  - destruct Hok as [Ho Ht]. destruct (step q ok st o) as [r st1] eqn:Es. simpl in Ht.
    destruct (run q ok st1 tl) as [rs1 st2] eqn:Er. inversion E; subst rs st'. clear E.
    destruct (step_refines q ok st o r st1 HQ HI Ho Es) as [A [B [C D]]].
    destruct (IH st1 rs1 st2 HQ B Ht Er) as [A' [B' [C' D']]].
    split; [| split; [exact B' | split; congruence]].
    econstructor; [exact A |]. rewrite <- C. exact A'.
Qed.

(* the size rules, read off the invariant: page aligned, below maxoff, equal to the length of the file on disk *)
Lemma size_inv : forall q ok os st rs st', FixedQ q -> Inv st -> RunOk q ok st os -> run q ok st os = (rs, st') ->
  fsize st' mod psize st' = 0 /\ (maxoff st' = 0 \/ fsize st' <= maxoff st') /\ zlen (file st') = fsize st' /\
  maxoff st' = maxoff st.
Proof.
  intros q ok os st rs st' HQ HI Hok E. destruct (run_refines q ok os st rs st' HQ HI Hok E) as [_ [I' [_ M]]].
  pose proof (inv_fs st' I') as [_ H2]. pose proof (inv_mo st' I') as [_ [_ H3]]. pose proof (inv_file st' I'). auto.
Qed.

(* ... and it is what the next open sees: opening the file left behind (no initial size) yields the same size and content *)
Lemma reopen_same : forall ok st mo p, Inv st -> psize st = EXF_PSIZE ->
  exists st2, exfile_open ok (file st) 0 mo p = (0, st2) /\ fsize st2 = fsize st /\ file st2 = file st.
Proof.
  intros ok st mo p HI Hps. pose proof (inv_fs st HI) as [Hf1 Hf2]. pose proof (inv_file st HI) as Hfl. pose proof LIM_val.
  pose proof (inv_ps st HI) as HP. rewrite Hps in *.
  unfold exfile_open. rewrite Hfl. destruct (Z.ltb_spec (fsize st) 0); [lia |].
  rewrite aligned_ps by (auto; lia). rewrite Hf2. simpl. eexists. split; [reflexivity |]. simpl. auto.
Qed.

Lemma mkInv' : forall f fs mo ps ss p, PsOk ps -> 0 <= fs <= LIM -> fs mod ps = 0 -> zlen f = fs -> 0 <= mo <= LIM ->
  mo mod ps = 0 -> (mo = 0 \/ fs <= mo) -> pol_ok p -> SlotsInv ps fs ss -> Inv (mkExf f fs mo ps ss p).
Proof. intros. constructor; simpl; auto. Qed.

(* the state right after iwfs_exfile_open satisfies the invariant *)
Lemma open_inv : forall ok f initial mo p rc st, PsOk EXF_PSIZE -> zlen f <= LIM -> 0 <= initial <= LIM -> 0 <= mo <= LIM ->
  (mo < EXF_PSIZE \/ zlen f <= mo / EXF_PSIZE * EXF_PSIZE) -> pol_ok p ->
  exfile_open ok f initial mo p = (rc, st) -> rc = 0 -> Inv st /\ psize st = EXF_PSIZE.
Proof.
  intros ok f initial mo p rc st HP Hfl Hini Hmo Hmo2 Hp E Hrc. pose proof (PsOk_pos _ HP) as Hps. pose proof LIM_val as EL.
  pose proof (zlen_nonneg f) as Hfn.
  unfold exfile_open in E.
  set (m := if mo >=? EXF_PSIZE then IW_ROUNDOWN mo EXF_PSIZE else 0) in E.
  assert (Hm : 0 <= m <= LIM /\ m mod EXF_PSIZE = 0 /\ (m = 0 \/ zlen f <= m)).
  { unfold m. destruct (Z.geb_spec mo EXF_PSIZE).
    - rewrite rounddown_ps by (auto; lia). split; [| split].
      + split; [apply Z.mul_nonneg_nonneg; [apply Z.div_pos; lia | lia] |].
        pose proof (Z.mul_div_le mo EXF_PSIZE ltac:(lia)). lia.
      + apply Z.mod_mul; lia.
      + right. lia.
    - split; [lia |]. split; [apply Z.mod_0_l; lia |]. left; reflexivity. }
  destruct Hm as [Hm1 [Hm2 Hm3]].
  set (st0 := mkExf f (zlen f) m EXF_PSIZE [] p) in E.
  (* st0 satisfies everything but alignment of the size; truncate_lw only needs the other parts *)
  assert (Htr : forall size rc1 st1, 0 <= size <= LIM -> zlen f <= size -> truncate_lw ok st0 size = (rc1, st1) -> rc1 = 0 -> Inv st1 /\ psize st1 = EXF_PSIZE).
  { intros size rc1 st1 Hs Hge Et Hrc1. subst rc1. unfold truncate_lw in Et. simpl in Et.
    rewrite uw_small in Et by lia. rewrite roundup_ps in Et by (auto; lia).
    set (n := rup size EXF_PSIZE) in Et.
    assert (Hn : 0 <= n <= LIM) by (split; [apply rup_nonneg; lia | apply rup_le_aligned; try lia; apply LIM_mod; auto]).
    assert (Hnm : n mod EXF_PSIZE = 0) by (apply rup_mod; lia).
    assert (Hng : size <= n) by (apply rup_ge; lia).
    destruct (Z.eqb_spec (zlen f) n) as [Een | Een].
    - inversion Et; subst st1. split; [| reflexivity].
      apply mkInv'; [exact HP | lia | rewrite Een; exact Hnm | reflexivity | lia | exact Hm2 | destruct Hm3; [left; assumption | right; lia] | exact Hp | constructor].
    - destruct (Z.ltb_spec (zlen f) n); [| lia].
      destruct (negb (m =? 0) && (n >? m)) eqn:Emo; [discriminate Et |].
      destruct (ok n); simpl in Et; [| discriminate Et]. inversion Et; subst st1.
      split; [| reflexivity].
      apply mkInv'; [exact HP | lia | exact Hnm | apply zlen_ftrunc; lia | lia | exact Hm2 | | exact Hp | constructor].
      destruct (Z.eqb_spec m 0); [left; assumption |]. simpl in Emo.
      rewrite Z.gtb_ltb in Emo. apply Z.ltb_ge in Emo. right; lia. }
  destruct (Z.ltb_spec (zlen f) initial).
  - apply (Htr initial rc st); auto; lia.
  - destruct (aligned (zlen f) EXF_PSIZE) eqn:Eal; simpl in E.
    + inversion E; subst rc st. split; [| reflexivity]. rewrite aligned_ps in Eal by (auto; lia). apply Z.eqb_eq in Eal.
      apply mkInv'; [exact HP | lia | exact Eal | reflexivity | lia | exact Hm2 | exact Hm3 | exact Hp | constructor].
    + apply (Htr (zlen f) rc st); auto; lia.
Qed.

(* ---------------------------------------------------------------------------------------------- *)
(* 12. the flat array itself: last write wins, everything else keeps its bytes, new space is zero *)
Lemma spec_grow_shape : forall ok a n p rc a1, 0 <= n -> spec_grow ok a n p = (rc, a1) ->
  exists m, a_bytes a1 = ftrunc (a_bytes a) m /\ zlen (a_bytes a1) = m /\ (rc = 0 -> m = n).
Proof.
  intros ok a n p rc a1 Hn E. unfold spec_grow in E.
  destruct ((zlen (a_bytes a) <? n) && negb (ok n)).
  - inversion E; subst. simpl. exists (zlen (a_bytes a)). rewrite ftrunc_id. split; [reflexivity |]. split; [reflexivity |].
    intros Hrc; discriminate Hrc.
  - inversion E; subst. simpl. exists n. split; [reflexivity |]. split; [apply zlen_ftrunc; lia | intros; reflexivity].
Qed.

Lemma spec_ensure_shape : forall ps ok a sz rc a1, 0 < ps -> 0 <= sz -> spec_ensure ps ok a sz = (rc, a1) ->
  exists m, a_bytes a1 = ftrunc (a_bytes a) m /\ zlen (a_bytes a1) = m /\ (rc = 0 -> sz <= m).
Proof.
  intros ps ok a sz rc a1 Hps Hsz E. unfold spec_ensure in E.
  destruct (Z.geb_spec (zlen (a_bytes a)) sz) as [Hge | Hlt].
  - inversion E; subst. exists (zlen (a_bytes a1)). rewrite ftrunc_id. split; [reflexivity |]. split; [reflexivity | intros; lia].
  - pose proof (spec_policy_ge ps (a_pol a) sz (zlen (a_bytes a)) Hps) as [Hn _].
    destruct (spec_policy ps (a_pol a) sz (zlen (a_bytes a))) as [n p] eqn:Ep. simpl in Hn.
    destruct (negb (a_maxoff a =? 0) && (n >? a_maxoff a)).
    + destruct (Z.ltb_spec (a_maxoff a) sz).
      * inversion E; subst. simpl. exists (zlen (a_bytes a)). rewrite ftrunc_id. split; [reflexivity |]. split; [reflexivity |].
        intros Hrc; discriminate Hrc.
      * destruct (spec_grow_shape ok a (a_maxoff a) p rc a1 ltac:(lia) E) as [m [A [B C]]].
        exists m. split; [exact A |]. split; [exact B |]. intros Hrc. specialize (C Hrc). lia.
    + destruct (spec_grow_shape ok a n p rc a1 ltac:(lia) E) as [m [A [B C]]].
      exists m. split; [exact A |]. split; [exact B |]. intros Hrc. specialize (C Hrc). lia.
Qed.

Lemma flat_read_after_write : forall ps ok a off d sp a', 0 < ps -> 0 <= off ->
  spec_write ps ok a off d = (0, sp, a') -> spec_read a' off (zlen d) = d /\ sp = zlen d.
Proof.
  intros ps ok a off d sp a' Hps Hoff E. pose proof (zlen_nonneg d). unfold spec_write in E.
  destruct (negb (a_maxoff a =? 0) && (off + zlen d >? a_maxoff a)); [discriminate E |].
  destruct (spec_ensure ps ok a (off + zlen d)) as [rc1 a1] eqn:Ee.
  destruct (spec_ensure_shape ps ok a (off + zlen d) rc1 a1 Hps ltac:(lia) Ee) as [m [_ [Hm Hge]]].
  destruct (Z.eqb_spec rc1 0) as [Hz | Hnz]; simpl in E; [| inversion E; congruence].
  inversion E; subst sp a'. unfold spec_read. simpl. specialize (Hge Hz). split; [| reflexivity].
  apply pread_splice_same. lia.
Qed.

(* outside the written range the bytes are the old ones, extended by zeros where the file grew *)
Lemma flat_write_frame : forall ps ok a off d sp a' b n, 0 < ps -> 0 <= off -> 0 <= b -> 0 <= n ->
  spec_write ps ok a off d = (0, sp, a') -> (b + n <= off \/ off + zlen d <= b) ->
  spec_read a' b n = pread (ftrunc (a_bytes a) (zlen (a_bytes a'))) b n.
Proof.
  intros ps ok a off d sp a' b n Hps Hoff Hb Hn E Hout. pose proof (zlen_nonneg d). unfold spec_write in E.
  destruct (negb (a_maxoff a =? 0) && (off + zlen d >? a_maxoff a)); [discriminate E |].
  destruct (spec_ensure ps ok a (off + zlen d)) as [rc1 a1] eqn:Ee.
  destruct (spec_ensure_shape ps ok a (off + zlen d) rc1 a1 Hps ltac:(lia) Ee) as [m [Hb1 [Hm Hge]]].
  destruct (Z.eqb_spec rc1 0) as [Hz | Hnz]; simpl in E; [| inversion E; congruence].
  inversion E; subst sp a'. unfold spec_read. simpl. specialize (Hge Hz).
  rewrite zlen_splice by lia. rewrite Hm. rewrite <- Hb1.
  destruct Hout; [apply pread_splice_before; lia | apply pread_splice_after; lia].
Qed.

(* zero where nothing was written: the bytes a size change adds are zeros *)
Lemma ftrunc_zero_tail : forall f n b k, zlen f <= b -> 0 <= k -> b + k <= n -> pread (ftrunc f n) b k = zeros k.
Proof.
  intros f n b k Hb Hk Hn. pose proof (zlen_nonneg f). unfold ftrunc, pread.
  rewrite (ztake_all n f) by lia.
  replace (zdrop b (f ++ zeros (n - zlen f))) with (zdrop (b - zlen f) (zeros (n - zlen f)))
    by (rewrite <- (zdrop_app_more f (zeros (n - zlen f)) (b - zlen f)) by lia; f_equal; lia).
  unfold zdrop, ztake, zeros.
  assert (Hrep : forall j m, (j <= m)%nat -> firstn j (repeat 0 m) = repeat 0 j).
  { induction j as [| j IHj]; intros m Hjm; [reflexivity |]. destruct m; [lia |]. simpl. f_equal. apply IHj. lia. }
  assert (Hsk : forall j m, skipn j (repeat 0 m) = repeat 0 (m - j)).
  { induction j as [| j IHj]; intros m; [rewrite Nat.sub_0_r; reflexivity |]. destruct m; [reflexivity |]. simpl. apply IHj. }
  rewrite Hsk. apply Hrep. lia.
Qed.

(* ---------------------------------------------------------------------------------------------- *)
(* 13. a growth the operating system refuses.  No side condition on the arguments is needed here (they may
   wrap): only the layout invariant, which makes the `truncfail` exit of _exfile_truncate_lw the identity.
   (a) a call that answers the I/O error has changed nothing but, possibly, the context of the resize policy;
   (b) whenever the reported size has grown, the operating system accepted exactly that size. *)
Definition os_facts (ok : os_ok) (st : exf) (rc : Z) (st' : exf) : Prop :=
  (rc = EXF_E_IO -> st' = set_pol st (pol st')) /\ (fsize st < fsize st' -> ok (fsize st') = true).

Lemma set_pol_same : forall st, set_pol st (pol st) = st.
Proof. intros st. destruct st; reflexivity. Qed.

Lemma truncate_lw_os : forall ok st size rc st', SlotsInv (psize st) (fsize st) (slots st) ->
  truncate_lw ok st size = (rc, st') -> os_facts ok st rc st'.
Proof.
  intros ok st size rc st' HS E. unfold truncate_lw in E. cbv zeta in E.
  set (n := IW_ROUNDUP (uw 64 size) (psize st)) in E.
  destruct (Z.eqb_spec (fsize st) n) as [Heq | Hne].
  { inversion E; subst rc st'. split; [intros Hrc; discriminate Hrc | intros; lia]. }
  destruct (Z.ltb_spec (fsize st) n) as [Hlt | Hge].
  - destruct (negb (maxoff st =? 0) && (n >? maxoff st)).
    { inversion E; subst rc st'. split; [intros Hrc; discriminate Hrc | intros; lia]. }
    destruct (ok n) eqn:Eok; simpl in E.
    + inversion E; subst rc st'. simpl. split; [intros Hrc; discriminate Hrc | intros _; exact Eok].
    + rewrite truncfail_id in E by exact HS. inversion E; subst rc st'.
      split; [intros _; symmetry; apply set_pol_same | intros; lia].
  - inversion E; subst rc st'. split; [intros Hrc; discriminate Hrc | simpl; intros; lia].
Qed.

Lemma ensure_size_lw_os : forall q ok st sz rc st', SlotsInv (psize st) (fsize st) (slots st) ->
  ensure_size_lw q ok st sz = (rc, st') -> os_facts ok st rc st'.
Proof.
  intros q ok st sz rc st' HS E. unfold ensure_size_lw in E.
  destruct (fsize st >=? uw 64 sz).
  { inversion E; subst rc st'. split; [intros Hrc; discriminate Hrc | intros; lia]. }
  destruct (policy_call q (psize st) (pol st) sz (fsize st)) as [nsz pol'].
  assert (Htr : forall n, truncate_lw ok (set_pol st pol') n = (rc, st') -> os_facts ok st rc st').
  { intros n Et. destruct (truncate_lw_os ok (set_pol st pol') n rc st' HS Et) as [A B]. split; [| exact B].
    intros Hrc. specialize (A Hrc). rewrite A. simpl. destruct st; reflexivity. }
  destruct ((nsz <? sz) || negb (aligned nsz (psize st))).
  { inversion E; subst rc st'. split; [intros Hrc; discriminate Hrc | simpl; intros; lia]. }
  destruct (negb (maxoff st =? 0) && (uw 64 nsz >? maxoff st)).
  - destruct (sw 64 (maxoff st) <? sz).
    + inversion E; subst rc st'. split; [intros Hrc; discriminate Hrc | simpl; intros; lia].
    + exact (Htr _ E).
  - exact (Htr _ E).
Qed.

Lemma exfile_write_os : forall q ok st off data rc sp st', SlotsInv (psize st) (fsize st) (slots st) ->
  exfile_write q ok st off data = (rc, sp, st') -> os_facts ok st rc st' /\ (rc = EXF_E_IO -> sp = 0).
Proof.
  intros q ok st off data rc sp st' HS E. unfold exfile_write in E. cbv zeta in E.
  destruct ((off <? 0) || (sw 64 (off + zlen data) <? 0)).
  { inversion E; subst rc sp st'. split; [split; [intros Hrc; discriminate Hrc | intros; lia] | reflexivity]. }
  destruct (negb (maxoff st =? 0) && (uw 64 (off + zlen data) >? maxoff st)).
  { inversion E; subst rc sp st'. split; [split; [intros Hrc; discriminate Hrc | intros; lia] | reflexivity]. }
  assert (Hens : forall rc1 st1, (if sw 64 (off + zlen data) >? fsize st then ensure_size_lw q ok st (sw 64 (off + zlen data)) else (0, st)) = (rc1, st1) ->
                 os_facts ok st rc1 st1).
  { intros rc1 st1 E1. destruct (sw 64 (off + zlen data) >? fsize st).
    - exact (ensure_size_lw_os q ok st _ rc1 st1 HS E1).
    - inversion E1; subst rc1 st1. split; [intros Hrc; discriminate Hrc | intros; lia]. }
  destruct (if sw 64 (off + zlen data) >? fsize st then ensure_size_lw q ok st (sw 64 (off + zlen data)) else (0, st)) as [rc1 st1] eqn:E1.
  destruct (Hens rc1 st1 eq_refl) as [A B].
  destruct (Z.eqb_spec rc1 0) as [Hz | Hnz]; simpl in E.
  - destruct (write_pieces (psize st1) (split_all (slots st1) off (zlen data)) data (file st1) (slots st1)) as [[f' ss'] |].
    + inversion E; subst rc sp st'. split; [split; [intros Hrc; discriminate Hrc | simpl; exact B] | intros Hrc; discriminate Hrc].
    + inversion E; subst rc sp st'. split; [split; [intros Hrc; discriminate Hrc | exact B] | reflexivity].
  - inversion E; subst rc sp st'. split; [split; [exact A | exact B] | reflexivity].
Qed.

Lemma exfile_copy_os : forall q ok st off siz noff rc st', SlotsInv (psize st) (fsize st) (slots st) ->
  exfile_copy q ok st off siz noff = (rc, st') -> os_facts ok st rc st'.
Proof.
  intros q ok st off siz noff rc st' HS E. unfold exfile_copy in E.
  assert (Hens : forall rc0 st0, (if q_copy_ensures q then ensure_size_lw q ok st (sw 64 (noff + siz)) else (0, st)) = (rc0, st0) ->
                 os_facts ok st rc0 st0).
  { intros rc0 st0 E0. destruct (q_copy_ensures q).
    - exact (ensure_size_lw_os q ok st _ rc0 st0 HS E0).
    - inversion E0; subst rc0 st0. split; [intros Hrc; discriminate Hrc | intros; lia]. }
  destruct (if q_copy_ensures q then ensure_size_lw q ok st (sw 64 (noff + siz)) else (0, st)) as [rc0 st0] eqn:E0.
  destruct (Hens rc0 st0 eq_refl) as [A B].
  destruct (Z.eqb_spec rc0 0) as [Hz | Hnz]; simpl in E.
  2:{ inversion E; subst rc st'. split; assumption. }
  (* from here on the size is that of st0 and the answer is 0, the overlap refusal or a crash *)
  assert (Hfile : forall rcf stf, (let '(rc, f') := file_copy (file st0) off siz noff in (rc, set_file st0 f')) = (rcf, stf) ->
                  os_facts ok st rcf stf).
  { intros rcf stf Ef. unfold file_copy in Ef.
    destruct (negb (IW_RANGES_OVERLAP off (off + siz) noff (noff + siz) =? 0) && (noff >? off));
      inversion Ef; subst rcf stf; (split; [intros Hrc; discriminate Hrc | simpl; exact B]). }
  destruct (slots st0) as [| s tl]; [exact (Hfile rc st' E) |].
  destruct ((0 <? s_len s) && (s_off s =? 0) && (s_len s >=? uw 64 (noff + siz))); [| exact (Hfile rc st' E)].
  destruct (q_copy_src q && negb (s_len s >=? uw 64 (off + siz))); [exact (Hfile rc st' E) |].
  destruct (win_read (psize st0) (file st0) s off siz) as [b |].
  - destruct (win_write (psize st0) (file st0) s noff b) as [[s' f'] |];
      inversion E; subst rc st'; (split; [intros Hrc; discriminate Hrc | simpl; exact B]).
  - inversion E; subst rc st'. split; [intros Hrc; discriminate Hrc | exact B].
Qed.

Lemma step_os : forall q ok st o r st', Inv st -> step q ok st o = (r, st') ->
  (o_rc r = EXF_E_IO -> st' = set_pol st (pol st') /\ o_sp r = 0) /\ (fsize st < fsize st' -> ok (fsize st') = true).
Proof.
  intros q ok st o r st' HI E. pose proof (inv_slots st HI) as HS. destruct o; simpl in E.
  - destruct (exfile_write q ok st off d) as [[rc sp] st1] eqn:Ew. inversion E; subst r st'. simpl.
    destruct (exfile_write_os q ok st off d rc sp st1 HS Ew) as [[A B] C]. split; [intros Hrc; split; auto | exact B].
  - destruct (exfile_read st off n) as [[rc sp] b] eqn:Er. inversion E; subst r st'. simpl.
    split; [| intros; lia]. intros Hrc. exfalso. unfold exfile_read in Er.
    destruct ((off <? 0) || (sw 64 (off + n) <? 0)); [injection Er as H1 H2 H3; rewrite <- H1 in Hrc; discriminate Hrc |].
    destruct (read_pieces _ _ _ _); injection Er as H1 H2 H3; rewrite <- H1 in Hrc; discriminate Hrc.
  - destruct (exfile_copy q ok st off siz noff) as [rc st1] eqn:Ec. inversion E; subst r st'. simpl.
    destruct (exfile_copy_os q ok st off siz noff rc st1 HS Ec) as [A B]. split; [intros Hrc; split; auto | exact B].
  - destruct (truncate_lw ok st sz) as [rc st1] eqn:Et. inversion E; subst r st'. simpl.
    destruct (truncate_lw_os ok st sz rc st1 HS Et) as [A B]. split; [intros Hrc; split; auto | exact B].
  - destruct (ensure_size_lw q ok st sz) as [rc st1] eqn:Ee. inversion E; subst r st'. simpl.
    destruct (ensure_size_lw_os q ok st sz rc st1 HS Ee) as [A B]. split; [intros Hrc; split; auto | exact B].
  - destruct (add_mmap_lw st off maxlen flags) as [rc st1] eqn:Ea. inversion E; subst r st'. simpl.
    unfold add_mmap_lw in Ea.
    destruct (negb (aligned off (psize st))); [inversion Ea; subst; split; [intros Hrc; discriminate Hrc | intros; lia] |].
    destruct (round_maxlen (psize st) off maxlen =? 0); [inversion Ea; subst; split; [intros Hrc; discriminate Hrc | intros; lia] |].
    destruct (insert_slot _ _); inversion Ea; subst; (split; [intros Hrc; discriminate Hrc | simpl; intros; lia]).
  - destruct (remove_mmap_lw st off) as [rc st1] eqn:Er. inversion E; subst r st'. simpl.
    unfold remove_mmap_lw in Er.
    destruct (remove_slot _ _); inversion Er; subst; (split; [intros Hrc; discriminate Hrc | simpl; intros; lia]).
  - inversion E; subst r st'. simpl. split; [intros Hrc; discriminate Hrc | intros; lia].
  - inversion E; subst r st'. simpl. split; [intros Hrc; discriminate Hrc | intros; lia].
Qed.

(* on the flat array: a refused size change answers the I/O error and keeps every byte; an accepted one answers 0 *)
Lemma spec_grow_refused : forall ok a n p, zlen (a_bytes a) < n -> ok n = false ->
  spec_grow ok a n p = (EXF_E_IO, mkFlat (a_bytes a) (a_maxoff a) p).
Proof. intros ok a n p Hn Hok. rewrite spec_grow_grow by exact Hn. rewrite Hok. reflexivity. Qed.

(* the model: a growth within the rules that the operating system refuses is answered with the I/O error and
   the state - size, file, windows - is exactly the one before the call *)
Lemma truncate_lw_refused : forall ok st size, Inv st -> 0 <= size <= LIM ->
  fsize st < rup size (psize st) -> (maxoff st = 0 \/ rup size (psize st) <= maxoff st) ->
  ok (rup size (psize st)) = false -> truncate_lw ok st size = (EXF_E_IO, st).
Proof.
  intros ok st size HI Hs Hlt Hmo Hok. rewrite truncate_lw_eq by assumption. cbv zeta.
  destruct (Z.eqb_spec (fsize st) (rup size (psize st))); [lia |].
  destruct (Z.ltb_spec (fsize st) (rup size (psize st))); [| lia]. rewrite Hok. simpl.
  destruct (Z.eqb_spec (maxoff st) 0); simpl; [reflexivity |].
  destruct (Z.gtb_spec (rup size (psize st)) (maxoff st)); [lia | reflexivity].
Qed.
