(* Bit-level functions of src/fs/iwfsmfile.c and src/utils/iwbits.h.
   The free-space bitmap is a [list bool], one element per block, index = block number (bit i of the little-endian
   byte stream: byte i/8, bit i mod 8).  Functions here are the bit-granular meaning of
     _fsm_set_bit_status_lw   (set_range / all_range)
     _fsm_find_next_set_bit   (find_next_set_bit)      offset INCLUDED, bound excluded
     _fsm_find_prev_set_bit   (find_prev_set_bit)      offset EXCLUDED, lower bound included
     _fsm_load_fsm_lw         (load_runs: byte-wise scan with the 0x00 / 0xff shortcuts exactly as coded)
   plus word-level models of iwbits_find_first_sbit64 / iwbits_reverse_64 and of the two scans over 64-bit words
   (w_find_next / w_find_prev, same case splits as the C code).  No proofs here. *)
Require Import ZArith List Bool. Require Import IW.Lib.CInt. Import ListNotations.
Local Open Scope Z_scope. Local Open Scope bool_scope.

Definition getb (l : list bool) (i : Z) : bool := nth (Z.to_nat i) l false.

(* bits [off, off+len) := v *)
Fixpoint set_range (l : list bool) (off len : Z) (v : bool) : list bool :=
  match l with
  | [] => []
  | b :: t => if 0 <? off then b :: set_range t (off - 1) len v
              else if 0 <? len then v :: set_range t 0 (len - 1) v
              else b :: t
  end.

(* all bits of [off, off+len) equal v (vacuously true for len <= 0) *)
Fixpoint all_range (l : list bool) (off len : Z) (v : bool) : bool :=
  match l with
  | [] => len <=? 0
  | b :: t => if 0 <? off then all_range t (off - 1) len v
              else if 0 <? len then Bool.eqb b v && all_range t 0 (len - 1) v
              else true
  end.

Fixpoint find_next_from (l : list bool) (i off max : Z) : option Z :=
  match l with
  | [] => None
  | b :: t => if max <=? i then None
              else if b && (off <=? i) then Some i
              else find_next_from t (i + 1) off max
  end.
Definition find_next_set_bit (l : list bool) (off max : Z) : option Z :=
  if max <=? off then None else find_next_from l 0 off max.

Fixpoint find_prev_from (l : list bool) (i off min : Z) (acc : option Z) : option Z :=
  match l with
  | [] => acc
  | b :: t => if off <=? i then acc
              else find_prev_from t (i + 1) off min (if b && (min <=? i) then Some i else acc)
  end.
Definition find_prev_set_bit (l : list bool) (off min : Z) : option Z :=
  if off <=? min then None else find_prev_from l 0 off min None.

(* ---- _fsm_load_fsm_lw: state of the scan = (cbnum, fbklength, emitted (offset,length) newest first) *)
Definition scan_st := (Z * Z * list (Z * Z))%type.
Definition emit (st : scan_st) : scan_st :=
  let '(cb, fl, acc) := st in if 0 <? fl then (cb, 0, (cb - fl, fl) :: acc) else st.
(* one iteration of the inner per-bit loop *)
Definition scan_bit (st : scan_st) (b : bool) : scan_st :=
  if b then (let '(cb, fl, acc) := emit st in (cb + 1, fl, acc))
  else (let '(cb, fl, acc) := st in (cb + 1, fl + 1, acc)).
Definition scan_zero_byte (st : scan_st) : scan_st := let '(cb, fl, acc) := st in (cb + 8, fl + 8, acc).
Definition scan_ff_byte (st : scan_st) : scan_st := let '(cb, fl, acc) := emit st in (cb + 8, fl, acc).
Definition scan_byte (byte : list bool) (st : scan_st) : scan_st :=
  if forallb negb byte then scan_zero_byte st
  else if forallb (fun b => b) byte then scan_ff_byte st
  else fold_left scan_bit byte st.
Fixpoint load_scan (l : list bool) (st : scan_st) : scan_st :=
  match l with
  | b0 :: b1 :: b2 :: b3 :: b4 :: b5 :: b6 :: b7 :: t => load_scan t (scan_byte [b0; b1; b2; b3; b4; b5; b6; b7] st)
  | rest => fold_left scan_bit rest st
  end.
(* (offset, length) of the emitted runs in emission order; [len] = byte length of the bitmap *)
Definition load_runs (l : list bool) (len : Z) : list (Z * Z) :=
  let '(cb, fl, acc) := load_scan l (0, 0, []) in
  rev (if 0 <? fl then (len * 8 - fl, fl) :: acc else acc).

(* ---- iwbits.h *)
Definition ffs_step (mask sh : Z) (p : Z * Z) : Z * Z :=
  let '(ret, x) := p in if Z.land x mask =? 0 then (ret + sh, Z.shiftr x sh) else (ret, x).
(* iwbits_find_first_sbit64 (result meaningful for x <> 0) *)
Definition ffs64 (x : Z) : Z :=
  let p := ffs_step 0xffffffff 32 (0, x) in
  let p := ffs_step 0xffff 16 p in
  let p := ffs_step 0xff 8 p in
  let p := ffs_step 0xf 4 p in
  let p := ffs_step 0x3 2 p in
  let '(ret, x) := p in if Z.land x 1 =? 0 then ret + 1 else ret.
Definition shl64 (x n : Z) : Z := uw 64 (Z.shiftl x n).
(* iwbits_reverse_64 *)
Definition reverse64 (x : Z) : Z :=
  let x := Z.lor (shl64 x 32) (Z.shiftr x 32) in
  let x := Z.lor (shl64 (Z.land x 0x0001ffff0001ffff) 15) (Z.shiftr (Z.land x 0xfffe0000fffe0000) 17) in
  let t := Z.land (Z.lxor x (Z.shiftr x 10)) 0x003f801f003f801f in
  let x := Z.lxor (Z.lor t (shl64 t 10)) x in
  let t := Z.land (Z.lxor x (Z.shiftr x 4)) 0x0e0384210e038421 in
  let x := Z.lxor (Z.lor t (shl64 t 4)) x in
  let t := Z.land (Z.lxor x (Z.shiftr x 2)) 0x2248884222488842 in
  Z.lxor (Z.lor t (shl64 t 2)) x.

(* ---- the scans over 64-bit words, control flow of the little-endian branch of the C code *)
Definition ones64 : Z := 2 ^ 64 - 1.
Definition wnth (w : list Z) (i : Z) : Z := nth (Z.to_nat i) w 0.
(* while (size & ~63) loop of _fsm_find_next_set_bit; p = word index *)
Fixpoint w_next_loop (fuel : nat) (w : list Z) (p offset_bit size : Z) : option Z :=
  match fuel with
  | O => None
  | S f =>
    if negb (Z.land size (Z.lnot 63) =? 0) then
      let tmp := wnth w p in
      if negb (tmp =? 0) then Some (offset_bit + ffs64 tmp)
      else w_next_loop f w (p + 1) (offset_bit + 64) (size - 64)
    else if size =? 0 then None
    else let tmp := Z.land (wnth w p) (Z.shiftr ones64 (64 - size)) in
         if negb (tmp =? 0) then Some (offset_bit + ffs64 tmp) else None
  end.
Definition w_find_next (w : list Z) (offset_bit max_offset_bit : Z) : option Z :=
  if max_offset_bit <=? offset_bit then None else
  let p := offset_bit / 64 in
  let bit := Z.land offset_bit 63 in
  let offset_bit := offset_bit - bit in
  let size := max_offset_bit - offset_bit in
  let fuel := S (Z.to_nat (size / 64 + 1)) in
  if negb (bit =? 0) then
    let tmp := Z.land (wnth w p) (shl64 ones64 bit) in
    if negb (tmp =? 0) then
      (let r := ffs64 tmp in if size <=? r then None else Some (offset_bit + r))
    else if size <=? 64 then None
    else w_next_loop fuel w (p + 1) (offset_bit + 64) (size - 64)
  else w_next_loop fuel w p offset_bit size.

Definition prev_ret (offset_bit tmp : Z) : Z := if tmp <? offset_bit then offset_bit - tmp - 1 else 0.
Fixpoint w_prev_loop (fuel : nat) (w : list Z) (p offset_bit size : Z) : option Z :=
  match fuel with
  | O => None
  | S f =>
    if negb (Z.land size (Z.lnot 63) =? 0) then
      let v := wnth w (p - 1) in
      if negb (v =? 0) then Some (prev_ret offset_bit (ffs64 (reverse64 v)))
      else w_prev_loop f w (p - 1) (offset_bit - 64) (size - 64)
    else if size =? 0 then None
    else let tmp := Z.land (reverse64 (wnth w (p - 1))) (Z.shiftl 1 size - 1) in
         if negb (tmp =? 0) then Some (prev_ret offset_bit (ffs64 tmp)) else None
  end.
Definition w_find_prev (w : list Z) (offset_bit min_offset_bit : Z) : option Z :=
  if offset_bit <=? min_offset_bit then None else
  let size := offset_bit - min_offset_bit in
  let bit := Z.land offset_bit 63 in
  let p := offset_bit / 64 in
  let fuel := S (Z.to_nat (size / 64 + 1)) in
  if negb (bit =? 0) then
    let tmp := Z.shiftr (reverse64 (wnth w p)) (64 - bit) in
    if negb (tmp =? 0) then
      (let r := ffs64 tmp in if size <=? r then None else Some (prev_ret offset_bit r))
    else w_prev_loop fuel w p (offset_bit - bit) (size - bit)
  else w_prev_loop fuel w p offset_bit size.

(* little-endian words -> bits, for comparing the two levels *)
Fixpoint bits_of_word (n : nat) (x : Z) : list bool :=
  match n with O => [] | S k => Z.odd x :: bits_of_word k (Z.shiftr x 1) end.
Definition bits_of_words (w : list Z) : list bool := flat_map (bits_of_word 64) w.
